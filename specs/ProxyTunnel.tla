---------------------------- MODULE ProxyTunnel ----------------------------
(***************************************************************************)
(* The reverse proxy's connection-upgrade (websocket) tunnel and the       *)
(* streaming of ordinary responses.  Extension of C04 (ProxyRelay.tla has  *)
(* the header / URL algebra of one ordinary exchange; here the byte        *)
(* streams, the hijack and the connection life cycle are modelled).        *)
(*                                                                         *)
(* Code: caskethttp/proxy/proxy.go (Proxy.ServeHTTP, createUpstreamRequest,*)
(* reserveConn / the deferred decrement of UpstreamHost.Conns - see        *)
(* ProxyConc.tla for the accounting under concurrency), upstream.go (the   *)
(* `websocket` and `transparent` presets = header_upstream rules),         *)
(* reverseproxy.go (ReverseProxy.ServeHTTP, connHijackerTransport,         *)
(* copyResponse / maxLatencyWriter).                                       *)
(*                                                                         *)
(* One request through one proxy block.  The Proxy.ServeHTTP goroutine:    *)
(*   idle --ServerRead--> serve --CreateUpstream--> created --ApplyRules-->*)
(*   ruled --Reserve--> reserved --ChooseTransport--> chosen               *)
(*   --SendRequest--> await --TransportReadHead--> gothead                 *)
(* 101 answer (tunnel):                                                    *)
(*   gothead --Hijack--> replay --WriteReplay--> flushbuf                  *)
(*   --FlushBuffered--> wait --WaitDone--> closeb --CloseBackend-->        *)
(*   closec --CloseClient--> release --Release--> returned                 *)
(*   with the two copy goroutines g1 (backend -> client) and g2 (client -> *)
(*   backend): read --Read--> write --Write--> read ... --> done           *)
(* any other answer (ordinary relay with periodic flushing):               *)
(*   gothead --RelayHead--> copy (RelayRead / RelayWrite / FlushTick)      *)
(*   --> finish --Finish--> release --Release--> returned                  *)
(*                                                                         *)
(* Bytes are tokens on four wires (kernel socket buffers) c2p, p2c, b2p,   *)
(* p2b: a data byte is its own 1-based position in its direction's stream, *)
(* so a duplicated, dropped or re-ordered byte is visible; control tokens: *)
(* REQ (a request head), -status (a response head), FIN (the sender closed *)
(* or half-closed), END (end of an ordinary response body, whatever the    *)
(* framing).  The client and the backend are the environment: they write   *)
(* in arbitrary portions, read, half-close and close.                      *)
(*                                                                         *)
(* Next     = all interleavings of these steps (invariants, properties).   *)
(* NextSync = the grain a harness can order from outside: an environment   *)
(*            step only when the proxy has nothing left to do; generates   *)
(*            the scripts that are executed on the real code.              *)
(*            ProxyTunnelTrace.tla validates what the code then did        *)
(*            against the fine-grained actions.                            *)
(*                                                                         *)
(* Deliberate deviations: starting a copy goroutine is folded into the     *)
(* step before it (WriteReplay starts g1, FlushBuffered starts g2); the    *)
(* legacy branch "101 answer although the request went out without the     *)
(* hijacker transport" (second dial) is not modelled - the backend of this *)
(* model answers 101 only to a request it saw as a websocket upgrade;      *)
(* a client does not send ahead of an answer other than 101 and closes     *)
(* only after it has read the 101 head (no cancelled requests); the        *)
(* backend ends an ordinary body properly (no truncated bodies).           *)
(***************************************************************************)
EXTENDS Integers, Sequences, FiniteSets, TLC, Json

CONSTANTS
    MaxB,          \* data bytes per direction
    MaxOps,        \* sync grain: environment steps per script
    ReqKinds,      \* request shapes explored (subset of AllKinds)
    Presets,       \* is `websocket` in the proxy block
    Transps,       \* is `transparent` in the proxy block
    MCs,           \* max_conns (0 = unlimited)
    Statuses,      \* what the backend may answer
    Splits,        \* "all": a read returns any non-empty part of what is there; "max": everything
    FwdBuffered,   \* TRUE = the bytes buffered in the hijacked reader are forwarded (the code)
    FlushOn,       \* TRUE = FlushInterval # 0 (the code: 250 ms)
    CloseDeclined  \* TRUE = the connection dialled for an upgrade that the backend declined is closed

AllKinds == {"ws", "wska", "plain", "ka", "close"}
FIN == 0
REQ == -1
END == -2

VARIABLES
    preset, transp, mc,    \* the proxy block (chosen in Init)
    rk,                    \* the request's shape ("none" before the request)
    \* client endpoint
    cst,      \* "new" | "open" | "half" (wrote FIN, still reads) | "closed"
    cn,       \* data bytes written so far
    crecv,    \* data bytes read so far
    chead,    \* status of the response head read (0 = none yet)
    ceof,     \* has read EOF
    cend,     \* has read the end of an ordinary response
    \* backend endpoint
    bst,      \* "idle" | "gotreq" | "open" | "ended" | "half" | "closed"
    bn, brecv, beof,
    breq,     \* what the request head it read looked like ([upg, con, host]; NoReq before)
    bans,     \* status it answered (0 = none yet)
    \* wires
    c2p, p2c, b2p, p2b,
    \* Proxy.ServeHTTP
    pc,
    oh,       \* Upgrade / Connection of the outgoing request ("" = absent)
    ohost,    \* Host of the outgoing request: "client" | "backend"
    hj,       \* the round trip uses the connHijackerTransport
    conns,    \* UpstreamHost.Conns
    status,   \* status of the backend's answer as read by the transport
    srvbuf,   \* bytes in net/http's bufio.Reader of the client connection
    bg,       \* net/http's background read has taken its byte
    hbuf,     \* brw.Reader's buffered bytes after Hijack
    replay,   \* connHijackerTransport.Replay minus the head: bytes read together with the head
    tbuf,     \* the same bytes as seen by the transport's body reader (ordinary relay)
    g1, bbuf, \* backend -> client copy goroutine and its buffer
    g2, cbuf, \* client -> backend copy goroutine and its buffer
    dones,    \* sends on proxyDone
    pcb, pcc, \* the proxy has closed the backend / the client connection
    rs, rbuf, \* ordinary relay: copy loop state and buffer
    wbuf,     \* ordinary relay: written to the ResponseWriter, not flushed yet
    \* history
    closer,   \* who closed first: "none" | "c" | "b"
    dirty,    \* a close met undelivered bytes of the other direction, or somebody wrote / closed after the first close
    hist, nops

cfgv == <<preset, transp, mc>>
cliv == <<cst, cn, crecv, chead, ceof, cend>>
bckv == <<bst, bn, brecv, beof, breq, bans>>
hdrv == <<oh, ohost, hj>>
srvv == <<srvbuf, bg, hbuf>>
tunv == <<g1, bbuf, g2, cbuf, dones>>
relv == <<rs, rbuf, wbuf>>
hisv == <<closer, dirty>>
vars == <<cfgv, rk, cliv, bckv, c2p, p2c, b2p, p2b, pc, hdrv, conns, status, srvv, replay, tbuf, tunv, pcb, pcc, relv, hisv, hist, nops>>
view == <<cfgv, rk, cliv, bckv, c2p, p2c, b2p, p2b, pc, hdrv, conns, status, srvv, replay, tbuf, tunv, pcb, pcc, relv, hisv>>

\* ---- sequences -------------------------------------------------------------
Ids(a, b) == [i \in 1..(b - a + 1) |-> a + i - 1]
Upto(n) == Ids(1, n)
IsPrefix(s, t) == Len(s) <= Len(t) /\ SubSeq(t, 1, Len(s)) = s
Data(s) == SelectSeq(s, LAMBDA x : x > 0)
Has(s, x) == \E i \in 1..Len(s) : s[i] = x
Rest(s, k) == SubSeq(s, k + 1, Len(s))
\* number of leading data tokens
DataRun(s) == IF \A i \in 1..Len(s) : s[i] > 0 THEN Len(s)
              ELSE (CHOOSE i \in 1..Len(s) : s[i] <= 0 /\ \A j \in 1..(i - 1) : s[j] > 0) - 1
\* the portions one read may return out of n available bytes
Portions(n) == IF Splits = "all" THEN 1..n ELSE {n}
Portions0(n) == IF Splits = "all" THEN 0..n ELSE {n}
HeadOf(s) == CHOOSE x \in {s[i] : i \in 1..Len(s)} : x < -2

\* ---- the request's shape -----------------------------------------------------
UpgOf(k) == IF k \in {"ws", "wska"} THEN "websocket" ELSE ""
ConOf(k) == CASE k = "ws" -> "Upgrade" [] k = "wska" -> "keep-alive, Upgrade"
              [] k = "ka" -> "keep-alive" [] k = "close" -> "close" [] OTHER -> ""
ConHasUpgrade(c) == c \in {"Upgrade", "keep-alive, Upgrade"}
\* requestIsWebsocket (reverseproxy.go)
IsWsHdr(u, c) == u = "websocket" /\ ConHasUpgrade(c)
WsKind(k) == IsWsHdr(UpgOf(k), ConOf(k))
NoReq == [upg |-> "-", con |-> "-", host |-> "-"]

InitRest ==
    /\ rk = "none"
    /\ cst = "new" /\ cn = 0 /\ crecv = <<>> /\ chead = 0 /\ ceof = FALSE /\ cend = FALSE
    /\ bst = "idle" /\ bn = 0 /\ brecv = <<>> /\ beof = FALSE /\ breq = NoReq /\ bans = 0
    /\ c2p = <<>> /\ p2c = <<>> /\ b2p = <<>> /\ p2b = <<>>
    /\ pc = "idle" /\ oh = [upg |-> "", con |-> ""] /\ ohost = "backend" /\ hj = FALSE
    /\ conns = 0 /\ status = 0
    /\ srvbuf = <<>> /\ bg = FALSE /\ hbuf = <<>> /\ replay = <<>> /\ tbuf = <<>>
    /\ g1 = "off" /\ bbuf = <<>> /\ g2 = "off" /\ cbuf = <<>> /\ dones = 0
    /\ pcb = FALSE /\ pcc = FALSE
    /\ rs = "off" /\ rbuf = <<>> /\ wbuf = <<>>
    /\ closer = "none" /\ dirty = FALSE
    /\ hist = <<>> /\ nops = 0
Init == preset \in Presets /\ transp \in Transps /\ mc \in MCs /\ InitRest

(***************************************************************************)
(* The environment: client                                                 *)
(***************************************************************************)
\* the request head and e bytes behind it in the same write
ClientRequest(k, e) ==
    /\ cst = "new" /\ k \in ReqKinds /\ e \in 0..MaxB /\ (e > 0 => WsKind(k))
    /\ rk' = k /\ cst' = "open" /\ cn' = e /\ c2p' = <<REQ>> \o Upto(e)
    /\ UNCHANGED <<cfgv, crecv, chead, ceof, cend, bckv, p2c, b2p, p2b, pc, hdrv, conns, status, srvv, replay, tbuf, tunv, pcb, pcc, relv, hisv>>

\* raw bytes on the (to be) upgraded connection; never behind an answer other than 101
CSend(n) ==
    /\ cst = "open" /\ WsKind(rk) /\ bans \in {0, 101} /\ n >= 1 /\ cn + n <= MaxB
    /\ c2p' = c2p \o Ids(cn + 1, cn + n) /\ cn' = cn + n
    /\ dirty' = (dirty \/ closer # "none")
    /\ UNCHANGED <<cfgv, rk, cst, crecv, chead, ceof, cend, bckv, p2c, b2p, p2b, pc, hdrv, conns, status, srvv, replay, tbuf, tunv, pcb, pcc, relv, closer>>

\* close (how = "closed") or half-close (how = "half") once the tunnel is up
CShut(how) ==
    /\ cst = "open" /\ chead = 101 /\ how \in {"closed", "half"}
    /\ cst' = how /\ c2p' = Append(c2p, FIN)
    /\ dirty' = (dirty \/ closer # "none" \/ crecv # Upto(bn))
    /\ closer' = IF closer = "none" THEN "c" ELSE closer
    /\ UNCHANGED <<cfgv, rk, cn, crecv, chead, ceof, cend, bckv, p2c, b2p, p2b, pc, hdrv, conns, status, srvv, replay, tbuf, tunv, pcb, pcc, relv>>

\* one read returning the first k tokens on the wire
CRead(k) ==
    /\ cst \in {"open", "half"} /\ k \in 1..Len(p2c)
    /\ LET s == SubSeq(p2c, 1, k) IN
        /\ crecv' = crecv \o Data(s)
        /\ chead' = IF \E i \in 1..k : s[i] < -2 THEN -HeadOf(s) ELSE chead
        /\ ceof' = (ceof \/ Has(s, FIN))
        /\ cend' = (cend \/ Has(s, END))
    /\ p2c' = Rest(p2c, k)
    /\ UNCHANGED <<cfgv, rk, cst, cn, bckv, c2p, b2p, p2b, pc, hdrv, conns, status, srvv, replay, tbuf, tunv, pcb, pcc, relv, hisv>>

(***************************************************************************)
(* The environment: backend                                                *)
(***************************************************************************)
\* the request head as it came over the wire
BReadReq ==
    /\ bst = "idle" /\ p2b # <<>> /\ Head(p2b) = REQ
    /\ breq' = [upg |-> oh.upg, con |-> oh.con, host |-> ohost]
    /\ p2b' = Tail(p2b) /\ bst' = "gotreq"
    /\ UNCHANGED <<cfgv, rk, cliv, bn, brecv, beof, bans, c2p, p2c, b2p, pc, hdrv, conns, status, srvv, replay, tbuf, tunv, pcb, pcc, relv, hisv>>

\* the response head and e bytes behind it in the same write
BAnswer(st, e) ==
    /\ bst = "gotreq" /\ st \in Statuses /\ e \in 0..MaxB
    /\ st = 101 => IsWsHdr(breq.upg, breq.con)
    /\ st # 101 => cn = 0
    /\ b2p' = b2p \o <<-st>> \o Upto(e) /\ bn' = e /\ bans' = st /\ bst' = "open"
    /\ UNCHANGED <<cfgv, rk, cliv, brecv, beof, breq, c2p, p2c, p2b, pc, hdrv, conns, status, srvv, replay, tbuf, tunv, pcb, pcc, relv, hisv>>

\* raw bytes (101) or body bytes (other answers)
BSend(n) ==
    /\ bst = "open" /\ n >= 1 /\ bn + n <= MaxB
    /\ b2p' = b2p \o Ids(bn + 1, bn + n) /\ bn' = bn + n
    /\ dirty' = (dirty \/ closer # "none")
    /\ UNCHANGED <<cfgv, rk, cliv, bst, brecv, beof, breq, bans, c2p, p2c, p2b, pc, hdrv, conns, status, srvv, replay, tbuf, tunv, pcb, pcc, relv, closer>>

\* the body of an ordinary response ends (last chunk / announced length reached / close)
BEnd ==
    /\ bst = "open" /\ bans # 101
    /\ b2p' = Append(b2p, END) /\ bst' = "ended"
    /\ UNCHANGED <<cfgv, rk, cliv, bn, brecv, beof, breq, bans, c2p, p2c, p2b, pc, hdrv, conns, status, srvv, replay, tbuf, tunv, pcb, pcc, relv, hisv>>

BShut(how) ==
    /\ bst = "open" /\ bans = 101 /\ how \in {"closed", "half"}
    /\ bst' = how /\ b2p' = Append(b2p, FIN)
    /\ dirty' = (dirty \/ closer # "none" \/ brecv # Upto(cn))
    /\ closer' = IF closer = "none" THEN "b" ELSE closer
    /\ UNCHANGED <<cfgv, rk, cliv, bn, brecv, beof, breq, bans, c2p, p2c, p2b, pc, hdrv, conns, status, srvv, replay, tbuf, tunv, pcb, pcc, relv>>

BRead(k) ==
    /\ bst \in {"gotreq", "open", "ended", "half"} /\ k \in 1..Len(p2b) /\ Head(p2b) # REQ
    /\ LET s == SubSeq(p2b, 1, k) IN
        /\ brecv' = brecv \o Data(s)
        /\ beof' = (beof \/ Has(s, FIN))
    /\ p2b' = Rest(p2b, k)
    /\ UNCHANGED <<cfgv, rk, cliv, bst, bn, breq, bans, c2p, p2c, b2p, pc, hdrv, conns, status, srvv, replay, tbuf, tunv, pcb, pcc, relv, hisv>>

(***************************************************************************)
(* net/http's server in front of the handler                               *)
(***************************************************************************)
\* the connection's bufio.Reader is filled: the head is parsed, what came with it stays buffered
ServerRead ==
    /\ pc = "idle" /\ c2p # <<>> /\ Head(c2p) = REQ
    /\ \E k \in Portions0(DataRun(Tail(c2p))) :
        /\ srvbuf'= SubSeq(c2p, 2, k + 1) /\ c2p' = Rest(c2p, k + 1)
    /\ oh' = [upg |-> UpgOf(rk), con |-> ConOf(rk)]      \* r.Header as the client sent it
    /\ pc' = "serve"
    /\ UNCHANGED <<cfgv, rk, cliv, bckv, p2c, b2p, p2b, ohost, hj, conns, status, bg, hbuf, replay, tbuf, tunv, pcb, pcc, relv, hisv>>

\* while the handler runs, the server's background read waits for one byte (connReader.backgroundRead);
\* Hijack hands it over inside the buffered reader
SrvReadAhead ==
    /\ pc \in {"serve", "created", "ruled", "reserved", "chosen", "await", "gothead"} /\ ~bg
    /\ c2p # <<>> /\ Head(c2p) > 0
    /\ srvbuf' = Append(srvbuf, Head(c2p)) /\ c2p' = Tail(c2p) /\ bg' = TRUE
    /\ UNCHANGED <<cfgv, rk, cliv, bckv, p2c, b2p, p2b, pc, hdrv, conns, status, hbuf, replay, tbuf, tunv, pcb, pcc, relv, hisv>>

(***************************************************************************)
(* Proxy.ServeHTTP up to the round trip                                    *)
(***************************************************************************)
\* createUpstreamRequest: Upgrade and Connection are hop-by-hop headers - always removed
CreateUpstream ==
    /\ pc = "serve"
    /\ oh' = [upg |-> "", con |-> ""] /\ pc' = "created"
    /\ UNCHANGED <<cfgv, rk, cliv, bckv, c2p, p2c, b2p, p2b, ohost, hj, conns, status, srvv, replay, tbuf, tunv, pcb, pcc, relv, hisv>>

\* mutateHeadersByRules: `websocket` = header_upstream Connection {>Connection} + Upgrade {>Upgrade}
\* (a rule whose value expands to nothing sets nothing), `transparent` = Host {host} + ...
ApplyRules ==
    /\ pc = "created"
    /\ oh' = IF preset THEN [upg |-> UpgOf(rk), con |-> ConOf(rk)] ELSE oh
    /\ ohost' = IF transp THEN "client" ELSE "backend"
    /\ pc' = "ruled"
    /\ UNCHANGED <<cfgv, rk, cliv, bckv, c2p, p2c, b2p, p2b, hj, conns, status, srvv, replay, tbuf, tunv, pcb, pcc, relv, hisv>>

\* host.reserveConn()
Reserve ==
    /\ pc = "ruled" /\ (mc > 0 => conns < mc)
    /\ conns' = conns + 1 /\ pc' = "reserved"
    /\ UNCHANGED <<cfgv, rk, cliv, bckv, c2p, p2c, b2p, p2b, hdrv, status, srvv, replay, tbuf, tunv, pcb, pcc, relv, hisv>>

\* ReverseProxy.ServeHTTP: requestIsWebsocket(outreq) -> newConnHijackerTransport
ChooseTransport ==
    /\ pc = "reserved"
    /\ hj' = IsWsHdr(oh.upg, oh.con) /\ pc' = "chosen"
    /\ UNCHANGED <<cfgv, rk, cliv, bckv, c2p, p2c, b2p, p2b, oh, ohost, conns, status, srvv, replay, tbuf, tunv, pcb, pcc, relv, hisv>>

\* transport.RoundTrip writes the request
SendRequest ==
    /\ pc = "chosen"
    /\ p2b' = Append(p2b, REQ) /\ pc' = "await"
    /\ UNCHANGED <<cfgv, rk, cliv, bckv, c2p, p2c, b2p, hdrv, conns, status, srvv, replay, tbuf, tunv, pcb, pcc, relv, hisv>>

\* the transport's reader is filled until the head is complete; whatever came with it stays in its
\* buffer - and, through hijackedConn.Read, in Replay
TransportReadHead ==
    /\ pc = "await" /\ b2p # <<>> /\ Head(b2p) < -2
    /\ \E k \in Portions0(DataRun(Tail(b2p))) :
        /\ tbuf'= SubSeq(b2p, 2, k + 1)
        /\ replay' = IF hj THEN SubSeq(b2p, 2, k + 1) ELSE <<>>
        /\ b2p' = Rest(b2p, k + 1)
    /\ status' = -Head(b2p) /\ pc' = "gothead"
    /\ UNCHANGED <<cfgv, rk, cliv, bckv, c2p, p2c, p2b, hdrv, conns, srvv, tunv, pcb, pcc, relv, hisv>>

(***************************************************************************)
(* 101: the tunnel                                                         *)
(***************************************************************************)
\* hj.Hijack(): the client connection and its buffered reader
Hijack ==
    /\ pc = "gothead" /\ status = 101
    /\ hbuf' = srvbuf /\ srvbuf' = <<>> /\ pc' = "replay"
    /\ UNCHANGED <<cfgv, rk, cliv, bckv, c2p, p2c, b2p, p2b, hdrv, conns, status, bg, replay, tbuf, tunv, pcb, pcc, relv, hisv>>

\* conn.Write(hj.Replay): the 101 head and what the backend had sent behind it; then go b2c
WriteReplay ==
    /\ pc = "replay"
    /\ p2c' = p2c \o <<-101>> \o replay /\ replay' = <<>>
    /\ g1' = "read" /\ pc' = "flushbuf"
    /\ UNCHANGED <<cfgv, rk, cliv, bckv, c2p, b2p, p2b, hdrv, conns, status, srvv, tbuf, bbuf, g2, cbuf, dones, pcb, pcc, relv, hisv>>

\* backendConn.Write(brw.Reader.Peek(Buffered())); then go c2b
FlushBuffered ==
    /\ pc = "flushbuf"
    /\ p2b' = p2b \o (IF FwdBuffered THEN hbuf ELSE <<>>) /\ hbuf' = <<>>
    /\ g2' = "read" /\ pc' = "wait"
    /\ UNCHANGED <<cfgv, rk, cliv, bckv, c2p, p2c, b2p, hdrv, conns, status, srvbuf, bg, replay, tbuf, g1, bbuf, cbuf, dones, pcb, pcc, relv, hisv>>

\* pooledIoCopy(conn, backendConn): one Read ...
B2CRead ==
    /\ g1 = "read" /\ ~pcb /\ b2p # <<>>
    /\ IF Head(b2p) = FIN
       THEN b2p' = Tail(b2p) /\ g1' = "done" /\ dones' = dones + 1 /\ UNCHANGED bbuf
       ELSE \E k \in Portions(DataRun(b2p)) :
               bbuf' = SubSeq(b2p, 1, k) /\ b2p' = Rest(b2p, k) /\ g1' = "write" /\ UNCHANGED dones
    /\ UNCHANGED <<cfgv, rk, cliv, bckv, c2p, p2c, p2b, pc, hdrv, conns, status, srvv, replay, tbuf, g2, cbuf, pcb, pcc, relv, hisv>>

\* ... one Write (to a peer that has closed: the bytes vanish, the write may or may not fail)
B2CWrite ==
    /\ g1 = "write" /\ ~pcc
    /\ IF cst = "closed"
       THEN /\ \E r \in (IF Splits = "all" THEN {"read", "done"} ELSE {"read"}) :
                  g1' = r /\ dones' = IF r = "done" THEN dones + 1 ELSE dones
            /\ UNCHANGED p2c
       ELSE p2c' = p2c \o bbuf /\ g1' = "read" /\ UNCHANGED dones
    /\ bbuf' = <<>>
    /\ UNCHANGED <<cfgv, rk, cliv, bckv, c2p, b2p, p2b, pc, hdrv, conns, status, srvv, replay, tbuf, g2, cbuf, pcb, pcc, relv, hisv>>

\* a Read / Write on a connection the main goroutine has closed fails
B2CFail ==
    /\ (g1 = "read" /\ pcb) \/ (g1 = "write" /\ pcc)
    /\ g1' = "done" /\ bbuf' = <<>> /\ dones' = dones + 1
    /\ UNCHANGED <<cfgv, rk, cliv, bckv, c2p, p2c, b2p, p2b, pc, hdrv, conns, status, srvv, replay, tbuf, g2, cbuf, pcb, pcc, relv, hisv>>

\* pooledIoCopy(backendConn, conn)
C2BRead ==
    /\ g2 = "read" /\ ~pcc /\ c2p # <<>>
    /\ IF Head(c2p) = FIN
       THEN c2p' = Tail(c2p) /\ g2' = "done" /\ dones' = dones + 1 /\ UNCHANGED cbuf
       ELSE \E k \in Portions(DataRun(c2p)) :
               cbuf' = SubSeq(c2p, 1, k) /\ c2p' = Rest(c2p, k) /\ g2' = "write" /\ UNCHANGED dones
    /\ UNCHANGED <<cfgv, rk, cliv, bckv, p2c, b2p, p2b, pc, hdrv, conns, status, srvv, replay, tbuf, g1, bbuf, pcb, pcc, relv, hisv>>

C2BWrite ==
    /\ g2 = "write" /\ ~pcb
    /\ IF bst = "closed"
       THEN /\ \E r \in (IF Splits = "all" THEN {"read", "done"} ELSE {"read"}) :
                  g2' = r /\ dones' = IF r = "done" THEN dones + 1 ELSE dones
            /\ UNCHANGED p2b
       ELSE p2b' = p2b \o cbuf /\ g2' = "read" /\ UNCHANGED dones
    /\ cbuf' = <<>>
    /\ UNCHANGED <<cfgv, rk, cliv, bckv, c2p, p2c, b2p, pc, hdrv, conns, status, srvv, replay, tbuf, g1, bbuf, pcb, pcc, relv, hisv>>

C2BFail ==
    /\ (g2 = "read" /\ pcc) \/ (g2 = "write" /\ pcb)
    /\ g2' = "done" /\ cbuf' = <<>> /\ dones' = dones + 1
    /\ UNCHANGED <<cfgv, rk, cliv, bckv, c2p, p2c, b2p, p2b, pc, hdrv, conns, status, srvv, replay, tbuf, g1, bbuf, pcb, pcc, relv, hisv>>

\* <-proxyDone: "If one side is done, we are done."
WaitDone ==
    /\ pc = "wait" /\ dones > 0
    /\ pc' = "closeb"
    /\ UNCHANGED <<cfgv, rk, cliv, bckv, c2p, p2c, b2p, p2b, hdrv, conns, status, srvv, replay, tbuf, tunv, pcb, pcc, relv, hisv>>

\* the deferred backendConn.Close() ...
CloseBackend ==
    /\ pc = "closeb"
    /\ pcb' = TRUE /\ p2b' = Append(p2b, FIN) /\ pc' = "closec"
    /\ UNCHANGED <<cfgv, rk, cliv, bckv, c2p, p2c, b2p, hdrv, conns, status, srvv, replay, tbuf, tunv, pcc, relv, hisv>>

\* ... and conn.Close()
CloseClient ==
    /\ pc = "closec"
    /\ pcc' = TRUE /\ p2c' = Append(p2c, FIN) /\ pc' = "release"
    /\ UNCHANGED <<cfgv, rk, cliv, bckv, c2p, b2p, p2b, hdrv, conns, status, srvv, replay, tbuf, tunv, pcb, relv, hisv>>

\* defer atomic.AddInt64(&host.Conns, -1); Proxy.ServeHTTP returns
Release ==
    /\ pc = "release"
    /\ conns' = conns - 1 /\ pc' = "returned"
    /\ UNCHANGED <<cfgv, rk, cliv, bckv, c2p, p2c, b2p, p2b, hdrv, status, srvv, replay, tbuf, tunv, pcb, pcc, relv, hisv>>

(***************************************************************************)
(* any other answer: ordinary relay, copyResponse with the flush loop      *)
(***************************************************************************)
\* copyHeader + rw.WriteHeader(status): buffered by net/http
RelayHead ==
    /\ pc = "gothead" /\ status # 101
    /\ wbuf' = <<-status>> /\ rs' = "read" /\ pc' = "copy"
    /\ UNCHANGED <<cfgv, rk, cliv, bckv, c2p, p2c, b2p, p2b, hdrv, conns, status, srvv, replay, tbuf, tunv, pcb, pcc, rbuf, hisv>>

\* res.Body.Read: first what the transport had buffered with the head, then the wire
RelayRead ==
    /\ pc = "copy" /\ rs = "read"
    /\ IF tbuf # <<>>
       THEN \E k \in Portions(Len(tbuf)) :
               rbuf' = SubSeq(tbuf, 1, k) /\ tbuf' = Rest(tbuf, k) /\ rs' = "write" /\ UNCHANGED <<b2p, pc>>
       ELSE /\ b2p # <<>>
            /\ IF Head(b2p) = END
               THEN b2p' = Tail(b2p) /\ pc' = "finish" /\ UNCHANGED <<rbuf, rs, tbuf>>
               ELSE \E k \in Portions(DataRun(b2p)) :
                       rbuf' = SubSeq(b2p, 1, k) /\ b2p' = Rest(b2p, k) /\ rs' = "write" /\ UNCHANGED <<tbuf, pc>>
    /\ UNCHANGED <<cfgv, rk, cliv, bckv, c2p, p2c, p2b, hdrv, conns, status, srvv, replay, tunv, pcb, pcc, wbuf, hisv>>

\* maxLatencyWriter.Write -> the ResponseWriter's buffer
RelayWrite ==
    /\ pc = "copy" /\ rs = "write"
    /\ wbuf' = wbuf \o rbuf /\ rbuf' = <<>> /\ rs' = "read"
    /\ UNCHANGED <<cfgv, rk, cliv, bckv, c2p, p2c, b2p, p2b, pc, hdrv, conns, status, srvv, replay, tbuf, tunv, pcb, pcc, hisv>>

\* maxLatencyWriter.flushLoop: every FlushInterval
FlushTick ==
    /\ FlushOn /\ pc = "copy" /\ wbuf # <<>>
    /\ p2c' = p2c \o wbuf /\ wbuf' = <<>>
    /\ UNCHANGED <<cfgv, rk, cliv, bckv, c2p, b2p, p2b, pc, hdrv, conns, status, srvv, replay, tbuf, tunv, pcb, pcc, rs, rbuf, hisv>>

\* the handler returns: net/http completes the response; the connection dialled by the hijacker
\* transport belongs to nobody else (its Close is a no-op for the transport) and is closed
Finish ==
    /\ pc = "finish"
    /\ p2c' = p2c \o wbuf \o <<END>> /\ wbuf' = <<>>
    /\ IF hj /\ CloseDeclined THEN pcb' = TRUE /\ p2b' = Append(p2b, FIN) ELSE UNCHANGED <<pcb, p2b>>
    /\ rs' = "off" /\ pc' = "release"
    /\ UNCHANGED <<cfgv, rk, cliv, bckv, c2p, b2p, hdrv, conns, status, srvv, replay, tbuf, tunv, pcc, rbuf, hisv>>

(***************************************************************************)
Proxy == \/ ServerRead \/ SrvReadAhead \/ CreateUpstream \/ ApplyRules \/ Reserve \/ ChooseTransport
         \/ SendRequest \/ TransportReadHead \/ Hijack \/ WriteReplay \/ FlushBuffered
         \/ B2CRead \/ B2CWrite \/ B2CFail \/ C2BRead \/ C2BWrite \/ C2BFail
         \/ WaitDone \/ CloseBackend \/ CloseClient \/ Release
         \/ RelayHead \/ RelayRead \/ RelayWrite \/ FlushTick \/ Finish
\* (how an endpoint portions its reads has no influence on the proxy: they take what is there;
\* ProxyTunnelTrace uses CRead(k) / BRead(k) with the portions the real endpoints got)
Reads == CRead(Len(p2c)) \/ BReadReq \/ BRead(Len(p2b))
Env == \/ \E k \in ReqKinds, e \in 0..MaxB : ClientRequest(k, e)
       \/ \E n \in 1..MaxB : CSend(n) \/ BSend(n)
       \/ \E how \in {"closed", "half"} : CShut(how) \/ BShut(how)
       \/ \E st \in Statuses, e \in 0..MaxB : BAnswer(st, e)
       \/ BEnd

Next == (Proxy \/ Reads \/ Env) /\ UNCHANGED <<hist, nops>>
Fair(A) == WF_vars(A /\ UNCHANGED <<hist, nops>>)
Spec == Init /\ [][Next]_vars /\ Fair(Proxy) /\ Fair(Reads)

(***************************************************************************)
(* The guarantees                                                          *)
(***************************************************************************)
TypeOK ==
    /\ cst \in {"new", "open", "half", "closed"} /\ bst \in {"idle", "gotreq", "open", "ended", "half", "closed"}
    /\ cn \in 0..MaxB /\ bn \in 0..MaxB /\ conns \in 0..1 /\ dones \in 0..2
    /\ chead \in {0} \cup Statuses /\ bans \in {0} \cup Statuses /\ status \in {0} \cup Statuses
    /\ g1 \in {"off", "read", "write", "done"} /\ g2 \in {"off", "read", "write", "done"}
    /\ pc \in {"idle", "serve", "created", "ruled", "reserved", "chosen", "await", "gothead", "replay", "flushbuf",
               "wait", "closeb", "closec", "copy", "finish", "release", "returned"}

\* ---- TunnelTransparent: each direction delivers exactly the bytes sent, in order, once ----------
\* whatever the portions in which they were written, read and copied, and also for the bytes that
\* came together with the 101 head or with the request
InOrderOnce == IsPrefix(crecv, Upto(bn)) /\ IsPrefix(brecv, Upto(cn))
\* nothing left to do for the proxy and the readers: every byte sent so far has arrived
Quiet == /\ c2p = <<>> /\ p2c = <<>> /\ b2p = <<>> /\ p2b = <<>>
         /\ pc = "wait" /\ g1 = "read" /\ g2 = "read"
NothingPending == (Quiet /\ cst = "open" /\ bst = "open") => (crecv = Upto(bn) /\ brecv = Upto(cn))
\* a side that sees the end of the stream has seen all of it (unless the two sides crossed: dirty)
NothingLostAtClose == ~dirty => /\ ceof => crecv = Upto(bn)
                                /\ beof /\ status = 101 => brecv = Upto(cn)
\* (internal) nothing is copied out of the client connection's buffered reader twice
BufferedOnce == Len(hbuf) + Len(srvbuf) + Len(cbuf) + Len(Data(c2p)) + Len(Data(p2b)) + Len(brecv) <= cn
TunnelTransparent == InOrderOnce /\ NothingPending /\ NothingLostAtClose /\ BufferedOnce

\* ---- NoUpgradeHeadersOnPlainRequests ---------------------------------------------------------------
\* Upgrade / Connection reach the backend only through the `websocket` preset and only with the
\* client's own values; a request that does not ask for the websocket upgrade never takes the
\* hijacking path
NoUpgradeHeadersOnPlainRequests ==
    /\ breq # NoReq =>
        /\ ~preset => breq.upg = "" /\ breq.con = ""
        /\ breq.upg # "" => breq.upg = UpgOf(rk)
        /\ breq.con # "" => breq.con = ConOf(rk)
        /\ (preset /\ WsKind(rk)) => IsWsHdr(breq.upg, breq.con)
        /\ breq.host = IF transp THEN "client" ELSE "backend"
    /\ (hj \/ pc \in {"replay", "flushbuf", "wait", "closeb", "closec"} \/ g1 # "off" \/ g2 # "off") => (preset /\ WsKind(rk))

\* ---- CountedWhileOpen --------------------------------------------------------------------------------
TunnelUp == chead = 101 /\ cst = "open" /\ bst = "open"
Streaming == bans \notin {0, 101} /\ bst = "open"
CountedWhileOpen ==
    /\ (TunnelUp \/ Streaming) => conns = 1
    /\ pc \in {"idle", "serve", "created", "ruled", "returned"} => conns = 0
\* ... and goes back down once the exchange is over (tunnel: see BothClosedWhenEitherCloses)
RelayCompletes == (bst = "ended") ~> (pc = "returned" /\ conns = 0 /\ cend)

\* ---- BothClosedWhenEitherCloses ----------------------------------------------------------------------
\* safety: ServeHTTP has not returned from a tunnel before both connections were closed
ReturnedMeansClosed == (pc = "returned" /\ status = 101) => (pcb /\ pcc)
\* liveness: once either side is done, both sides get the end of the stream and the call returns
SawEnd == (ceof \/ cst = "closed") /\ (beof \/ bst = "closed")
BothClosedWhenEitherCloses == (chead = 101 /\ closer # "none") ~> (pc = "returned" /\ conns = 0 /\ SawEnd)

\* ---- a declined upgrade is an ordinary response ------------------------------------------------------
DeclinedIsOrdinary ==
    /\ (cend /\ bans # 0) => (chead = bans /\ crecv = Upto(bn))
    /\ status \notin {0, 101} => (g1 = "off" /\ g2 = "off" /\ ~pcc)
\* the connection dialled for the declined upgrade is not left behind
DeclinedConnClosed == (pc = "returned" /\ hj /\ status # 101) => pcb

\* ---- StreamedProgressively ---------------------------------------------------------------------------
\* a body byte the backend has sent reaches the client even if the backend sends nothing more
StreamedProgressively ==
    \A i \in 1..MaxB : (bans \notin {0, 101} /\ bn >= i) ~> (Len(crecv) >= i)
\* (sync grain) nothing sits in the ResponseWriter's buffer when everything has come to rest
FlushedAtRest == (pc = "copy" /\ ~ENABLED (Proxy \/ Reads)) => wbuf = <<>>

(***************************************************************************)
(* Sync grain: the environment moves only when the proxy and the readers   *)
(* have nothing left to do; every step is logged with what the outside can *)
(* see at that moment.                                                     *)
(***************************************************************************)
Seen == [crecv |-> crecv, brecv |-> brecv, chead |-> chead, ceof |-> ceof, beof |-> beof, cend |-> cend,
         full |-> (conns >= 1), upg |-> breq.upg, con |-> breq.con, host |-> breq.host,
         returned |-> (pc = "returned")]
Comp(n) == CASE n = 0 -> {<<>>} [] n = 1 -> {<<1>>} [] n = 2 -> {<<2>>, <<1, 1>>}
             [] OTHER -> {<<n>>, <<1, n - 1>>, <<n - 1, 1>>}
Log(a, k, n, m, parts, mparts) ==
    /\ hist' = Append(hist, [a |-> a, k |-> k, n |-> n, m |-> m, parts |-> parts, mparts |-> mparts, seen |-> Seen])
    /\ nops' = nops + 1

\* both directions at once
XSend(nc, nb) ==
    /\ cst = "open" /\ bst = "open" /\ bans = 101 /\ nc >= 1 /\ nb >= 1 /\ cn + nc <= MaxB /\ bn + nb <= MaxB
    /\ c2p' = c2p \o Ids(cn + 1, cn + nc) /\ cn' = cn + nc
    /\ b2p' = b2p \o Ids(bn + 1, bn + nb) /\ bn' = bn + nb
    /\ dirty' = (dirty \/ closer # "none")
    /\ UNCHANGED <<cfgv, rk, cst, crecv, chead, ceof, cend, bst, brecv, beof, breq, bans, p2c, p2b, pc, hdrv, conns, status, srvv, replay, tbuf, tunv, pcb, pcc, relv, closer>>

\* write and (half-)close in one go
CSendShut(n, how) ==
    /\ cst = "open" /\ chead = 101 /\ n >= 1 /\ cn + n <= MaxB /\ how \in {"closed", "half"}
    /\ c2p' = c2p \o Ids(cn + 1, cn + n) \o <<FIN>> /\ cn' = cn + n /\ cst' = how
    /\ dirty' = (dirty \/ closer # "none" \/ crecv # Upto(bn))
    /\ closer' = IF closer = "none" THEN "c" ELSE closer
    /\ UNCHANGED <<cfgv, rk, crecv, chead, ceof, cend, bckv, p2c, b2p, p2b, pc, hdrv, conns, status, srvv, replay, tbuf, tunv, pcb, pcc, relv>>

BSendShut(n, how) ==
    /\ bst = "open" /\ bans = 101 /\ n >= 1 /\ bn + n <= MaxB /\ how \in {"closed", "half"}
    /\ b2p' = b2p \o Ids(bn + 1, bn + n) \o <<FIN>> /\ bn' = bn + n /\ bst' = how
    /\ dirty' = (dirty \/ closer # "none" \/ brecv # Upto(cn))
    /\ closer' = IF closer = "none" THEN "b" ELSE closer
    /\ UNCHANGED <<cfgv, rk, cliv, brecv, beof, breq, bans, c2p, p2c, p2b, pc, hdrv, conns, status, srvv, replay, tbuf, tunv, pcb, pcc, relv>>

\* the last body bytes and the end of the body in one go
BSendEnd(n) ==
    /\ bst = "open" /\ bans # 101 /\ n >= 1 /\ bn + n <= MaxB
    /\ b2p' = b2p \o Ids(bn + 1, bn + n) \o <<END>> /\ bn' = bn + n /\ bst' = "ended"
    /\ UNCHANGED <<cfgv, rk, cliv, brecv, beof, breq, bans, c2p, p2c, p2b, pc, hdrv, conns, status, srvv, replay, tbuf, tunv, pcb, pcc, relv, hisv>>

EnvSync ==
    \/ \E k \in ReqKinds, e \in 0..MaxB : ClientRequest(k, e) /\ Log("req", k, e, 0, <<>>, <<>>)
    \/ \E st \in Statuses, e \in 0..MaxB : BAnswer(st, e) /\ Log("answer", "", st, e, <<>>, <<>>)
    \/ \E n \in 1..MaxB : \E p \in Comp(n) : CSend(n) /\ Log("csend", "", n, 0, p, <<>>)
    \/ \E n \in 1..MaxB : \E p \in Comp(n) : BSend(n) /\ Log("bsend", "", n, 0, p, <<>>)
    \/ \E nc \in 1..MaxB, nb \in 1..MaxB : XSend(nc, nb) /\ Log("xsend", "", nc, nb, <<nc>>, <<nb>>)
    \/ \E how \in {"closed", "half"} : CShut(how) /\ Log("cshut", how, 0, 0, <<>>, <<>>)
    \/ \E how \in {"closed", "half"} : BShut(how) /\ Log("bshut", how, 0, 0, <<>>, <<>>)
    \/ \E n \in 1..MaxB, how \in {"closed", "half"} : \E p \in Comp(n) : CSendShut(n, how) /\ Log("csendshut", how, n, 0, p, <<>>)
    \/ \E n \in 1..MaxB, how \in {"closed", "half"} : \E p \in Comp(n) : BSendShut(n, how) /\ Log("bsendshut", how, n, 0, p, <<>>)
    \/ BEnd /\ Log("bend", "", 0, 0, <<>>, <<>>)
    \/ \E n \in 1..MaxB : \E p \in Comp(n) : BSendEnd(n) /\ Log("bsendend", "", n, 0, p, <<>>)

Busy == ENABLED (Proxy \/ Reads)
Over == \/ pc = "returned" /\ ~Busy
        \/ nops >= MaxOps /\ ~Busy
NextSync == IF Busy THEN (Proxy \/ Reads) /\ UNCHANGED <<hist, nops>>
            ELSE ~Over /\ EnvSync
SpecSync == Init /\ [][NextSync]_vars

\* one CASE per finished script
Emit == (Over /\ nops >= 2) =>
    PrintT(<<"CASE", ToJson([preset |-> preset, transp |-> transp, mc |-> mc, steps |-> hist, final |-> Seen,
                             dirty |-> dirty, closer |-> closer])>>)
=============================================================================
