CONSTANTS
  PairSet <- PairsThorough
  BodyLens <- BodiesThorough
  MaxPairs = 3
  MaxChunks = 4
  MaxErr = 2
INIT InitEmit
NEXT Stop
INVARIANT Emit
CHECK_DEADLOCK FALSE
