----------------------------- MODULE PathMatch -----------------------------
(***************************************************************************)
(* How casket compares a request path with a path written in the           *)
(* Casketfile.  Two relations, on purpose:                                 *)
(*                                                                         *)
(*   Matches(p, base)   httpserver.Path(p).Matches(base): both sides are   *)
(*        path.Clean-ed, a trailing slash is put back, letter case is      *)
(*        folded and the BYTE prefix is tested.  No leading slash is added *)
(*        to the request side: "index.html" does not match "/index.html"   *)
(*        (TestPathMatches pins this down).                                *)
(*   RawPrefix(p, base) the virtual-host trie: byte prefix of the raw      *)
(*        text, no cleaning, case-sensitive.                               *)
(*                                                                         *)
(* A URL path is a record [rooted, segs]: the segment sequence of          *)
(* CleanPath and whether the text starts with "/" (rewrite.To could leave  *)
(* a path without it).  Byte effects ("/d" matches "/dx" and "/d/g"        *)
(* matches "/d/g.gz") exist because names are spelled out as sequences of  *)
(* one-character strings (Spell) before the prefix test.                   *)
(***************************************************************************)
EXTENDS Naturals, Sequences, CleanPath

P(rooted, segs) == [rooted |-> rooted, segs |-> segs]
Rooted(segs) == P(TRUE, segs)

\* the spelling of the names used by the specifications; any other name is one opaque symbol
Spell(n) ==
    CASE n = "index.html"    -> <<"i","n","d","e","x",".","h","t","m","l">>
      [] n = "index.htm"     -> <<"i","n","d","e","x",".","h","t","m">>
      [] n = "index"         -> <<"i","n","d","e","x">>
      [] n = "index.html.gz" -> <<"i","n","d","e","x",".","h","t","m","l",".","g","z">>
      [] n = "g.gz"          -> <<"g",".","g","z">>
      [] n = "f.gz"          -> <<"f",".","g","z">>
      [] n = "pub"           -> <<"p","u","b">>
      [] n = "nx"            -> <<"n","x">>
      [] n = "dx"            -> <<"d","x">>
      [] n = ".."            -> <<".",".">>
      [] n = ""              -> <<>>
      [] OTHER               -> <<n>>

LowerChar(c) == CASE c = "D" -> "d" [] c = "G" -> "g" [] c = "E" -> "e" [] c = "S" -> "s" [] c = "F" -> "f" [] OTHER -> c
Lower(t) == [i \in 1..Len(t) |-> LowerChar(t[i])]

RECURSIVE JoinSegs(_)
JoinSegs(S) == IF S = <<>> THEN <<>>
               ELSE IF Len(S) = 1 THEN Spell(S[1])
               ELSE Spell(S[1]) \o <<"/">> \o JoinSegs(Tail(S))

\* the text of a path as a sequence of characters
Text(p) == (IF p.rooted THEN <<"/">> ELSE <<>>) \o JoinSegs(p.segs)

TextEndsSlash(p) == LET t == Text(p) IN t # <<>> /\ t[Len(t)] = "/"

\* path.Clean of the text
CleanP(p) == IF p.rooted THEN P(TRUE, Clean(p.segs)) ELSE P(FALSE, CleanRel(p.segs))

IsPrefixText(a, b) == Len(a) <= Len(b) /\ \A i \in 1..Len(a) : a[i] = b[i]

\* Path.Matches, line by line
Matches(p, base) ==
    IF Text(base) = <<"/">> \/ Text(base) = <<>> THEN TRUE
    ELSE LET pt == Text(CleanP(p)) \o (IF TextEndsSlash(p) THEN <<"/">> ELSE <<>>)
             bt == Text(CleanP(base)) \o (IF TextEndsSlash(base) THEN <<"/">> ELSE <<>>)
         IN  IsPrefixText(Lower(bt), Lower(pt))

RawPrefix(p, base) == IsPrefixText(Text(base), Text(p))

\* ---- lemmas (evaluated by TLC at start-up) ---------------------------------------
ASSUME Matches(Rooted(<<"d", "g">>), Rooted(<<"d">>))
ASSUME Matches(Rooted(<<"dx">>), Rooted(<<"d">>))                         \* byte prefix, not segment prefix
ASSUME ~Matches(Rooted(<<"dx">>), Rooted(<<"d", "">>))                    \* "/foobar" vs "/foo/"
ASSUME Matches(Rooted(<<"D", "g">>), Rooted(<<"d">>))                     \* case folded
ASSUME Matches(Rooted(<<"", "d", ".", "g">>), Rooted(<<"d", "g">>))       \* cleaned: //d/./g
ASSUME Matches(Rooted(<<"nx", "..", "d">>), Rooted(<<"d">>))              \* /path/../traversal
ASSUME ~Matches(Rooted(<<"nx", "..", "d">>), Rooted(<<"nx">>))
ASSUME ~Matches(P(FALSE, <<"index.html">>), Rooted(<<"index.html">>))     \* no leading slash is added
ASSUME Matches(P(FALSE, <<"index.html">>), Rooted(<<>>))                  \* "/" matches everything
ASSUME ~Matches(Rooted(<<"d">>), Rooted(<<"d", "">>))                     \* "/d" is not under "/d/"
ASSUME Matches(Rooted(<<"d", "">>), Rooted(<<"d", "">>))
ASSUME Matches(Rooted(<<"d", "g.gz">>), Rooted(<<"d", "g">>))
ASSUME ~RawPrefix(Rooted(<<"D">>), Rooted(<<"d">>)) /\ ~RawPrefix(Rooted(<<"", "d">>), Rooted(<<"d">>))
=============================================================================
