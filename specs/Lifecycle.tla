----------------------------- MODULE Lifecycle -----------------------------
(***************************************************************************)
(* C16 - instance lifecycle of package casket (casket.go): Start,          *)
(* Instance.Restart, Instance.Stop, casket.Stop, Instance.Wait, the six    *)
(* callback lists, the global instance list and the per-lineage WaitGroup. *)
(*                                                                         *)
(* One controller thread executes a history of operations, each as the     *)
(* sequence of steps the code takes (one action per callback list, per     *)
(* Listen, per server Stop ...).  Server goroutines (Serve / ServePacket)  *)
(* and Wait()ers run asynchronously.  Failure modes of an operation are    *)
(* part of the operation (which step returns an error).                    *)
(*                                                                         *)
(* The properties of the statement are invariants over per-instance        *)
(* callback counters and server states; LifecycleTrace.tla replays traces  *)
(* recorded from the real package through exactly these actions.           *)
(***************************************************************************)
EXTENDS Naturals, Sequences, FiniteSets, TLC, Json

CONSTANTS MaxOps,      \* length of the histories explored
          MaxStarts,   \* at most this many casket.Start calls (= lineages)
          Async        \* TRUE: server goroutines / waiters interleave; FALSE: controller only (emission)

Kinds == {"first", "startup", "restart", "restartfailed", "shutdown", "final"}
\* "panic": a directive's setup function panics while the new configuration is loaded; Restart
\* recovers (casket.go: the deferred func of Instance.Restart), so it is one more way for a reload
\* to fail at the setup stage (Start does not recover: a panic there is the caller's)
\* "parse": the new Casketfile does not parse (unknown directive): fails where "setup" does, but no
\* directive's setup function ever runs
Fails == {"none", "setup", "startupcb", "listen", "restartcb", "panic", "parse"}
MaxGen == MaxOps
NoGen == 0

\* an operation of the history.  lin = lineage it acts on (start: the new lineage),
\* n = number of servers of the new configuration, f = where it fails
\* file = the listeners of the instance the operation creates can be handed over to a later
\* reload (they implement casket.Listener, i.e. File()); FALSE: a reload finds nothing to inherit
\* and every server of the new instance listens afresh - it is a reload all the same
Ops == [t : {"start"}, lin : 1..MaxStarts, n : 1..2, f : {"none", "setup", "startupcb", "listen", "parse"}, file : BOOLEAN]
  \cup [t : {"restart"}, lin : 1..MaxStarts, n : 1..2, f : Fails, file : BOOLEAN]
  \cup [t : {"stop"}, lin : 1..MaxStarts, n : {1}, f : {"none"}, file : {TRUE}]
  \cup [t : {"stopall"}, lin : {1}, n : {1}, f : {"none"}, file : {TRUE}]

VARIABLES
    hist,       \* operations begun so far (the history)
    pc,         \* controller step inside the current operation ("idle" between operations)
    op,         \* the operation in progress
    g,          \* generation (instance) the operation creates, NoGen if none
    old,        \* instance being restarted / stopped
    k,          \* loop index (server being listened / stopped; instance index in stopall)
    ph,         \* 0: the next server's Stop() has not been called, 1: it has been called and has not returned
    inst,       \* [gen -> [lin, n, restart (BOOLEAN), parent, state]]
    cb,         \* [gen -> [kind -> times the callbacks of that kind have run]]
    srv,        \* [gen -> [1..2 -> [bound, spawned, begun, stopreq, ended, spended]]]
    wg,         \* [lineage -> WaitGroup counter]
    instances,  \* the package-level instance list (sequence of gens)
    waiter,     \* [lineage -> "none" | "waiting" | "returned"]
    held,       \* stopall: lineages whose wg is held (+1) until casket.Stop returns
    att         \* [gen -> [calls, failed]] restart attempts made on an instance

vars == <<hist, pc, op, g, old, k, ph, inst, cb, srv, wg, instances, waiter, held, att>>

NoSrv == [bound |-> FALSE, spawned |-> FALSE, begun |-> FALSE, stopreq |-> FALSE, stopdone |-> FALSE, ended |-> FALSE, spended |-> FALSE]
NoInst == [lin |-> 0, n |-> 0, restart |-> FALSE, parent |-> NoGen, state |-> "unused", file |-> TRUE]
NoOp == [t |-> "none", lin |-> 1, n |-> 1, f |-> "none", file |-> TRUE]

Gens == 1..MaxGen
Lins == 1..MaxStarts

Init ==
    /\ hist = <<>> /\ pc = "idle" /\ op = NoOp /\ g = NoGen /\ old = NoGen /\ k = 0 /\ ph = 0
    /\ inst = [x \in Gens |-> NoInst]
    /\ cb = [x \in Gens |-> [kd \in Kinds |-> 0]]
    /\ srv = [x \in Gens |-> [j \in 1..2 |-> NoSrv]]
    /\ wg = [l \in Lins |-> 0]
    /\ instances = <<>>
    /\ waiter = [l \in Lins |-> "none"]
    /\ held = {}
    /\ att = [x \in Gens |-> [calls |-> 0, failed |-> 0]]

\* ---- helpers -------------------------------------------------------------
Live(l) == {x \in Gens : inst[x].lin = l /\ inst[x].state = "live"}
LiveOf(l) == CHOOSE x \in Live(l) : TRUE
Started(l) == \E x \in Gens : inst[x].lin = l /\ inst[x].state # "unused"
NextGen == Len(SelectSeq(hist, LAMBDA o : o.t \in {"start", "restart"})) + 1
Remove(seq, x) == SelectSeq(seq, LAMBDA y : y # x)
Bump(x, kd) == cb' = [cb EXCEPT ![x][kd] = @ + 1]
SetSrv(x, j, field, v) == srv' = [srv EXCEPT ![x][j][field] = v]

Applicable(o) ==
    CASE o.t = "start"   -> /\ ~Started(o.lin)
                            /\ \A l \in Lins : l < o.lin => Started(l)    \* lineages are numbered in order
      [] o.t = "restart" -> Live(o.lin) # {}
      [] o.t = "stop"    -> Live(o.lin) # {}
      [] o.t = "stopall" -> TRUE
      [] OTHER           -> FALSE

\* ---- controller: begin an operation --------------------------------------
BeginStart(o) ==
    /\ o.t = "start"
    /\ g' = NextGen /\ old' = NoGen
    /\ inst' = [inst EXCEPT ![NextGen] = [lin |-> o.lin, n |-> o.n, restart |-> FALSE, parent |-> NoGen, state |-> "starting", file |-> o.file]]
    /\ instances' = Append(instances, NextGen)       \* startWithListenerFds: saved in the list first
    /\ pc' = "dirs"
    /\ UNCHANGED <<k, ph, cb, srv, wg, waiter, held, att>>

BeginRestart(o) ==
    /\ o.t = "restart"
    /\ old' = LiveOf(o.lin) /\ g' = NextGen
    /\ wg' = [wg EXCEPT ![o.lin] = @ + 1]            \* i.wg.Add(1); defer i.wg.Done()
    /\ att' = [att EXCEPT ![LiveOf(o.lin)].calls = @ + 1]
    /\ pc' = "restartcb"
    /\ UNCHANGED <<k, ph, inst, cb, srv, instances, waiter, held>>

BeginStop(o) ==
    /\ o.t = "stop"
    /\ old' = LiveOf(o.lin) /\ g' = NoGen /\ k' = 1 /\ ph' = 0
    /\ pc' = "stop"
    /\ UNCHANGED <<inst, cb, srv, wg, instances, waiter, held, att>>

BeginStopAll(o) ==
    /\ o.t = "stopall"
    /\ g' = NoGen /\ old' = NoGen /\ k' = 0 /\ ph' = 0
    /\ pc' = "stopall"
    /\ UNCHANGED <<inst, cb, srv, wg, instances, waiter, held, att>>

\* the hand-over flag of an instance matters only to a later reload of that instance: for an operation
\* that fails (its instance is discarded) and for the last operation of a history it is fixed to TRUE
\* (the other value would only repeat the same behaviours)
FileFlagMatters(o) == (o.f # "none" \/ Len(hist) = MaxOps - 1) => o.file
BeginOp(o) ==
    /\ pc = "idle" /\ Len(hist) < MaxOps
    /\ Applicable(o) /\ FileFlagMatters(o)
    /\ hist' = Append(hist, o) /\ op' = o
    /\ (BeginStart(o) \/ BeginRestart(o) \/ BeginStop(o) \/ BeginStopAll(o))

\* ---- controller: steps of Start / the start half of Restart --------------
\* OnRestart callbacks of the old instance
RestartCb ==
    /\ pc = "restartcb"
    /\ Bump(old, "restart")
    /\ IF op.f = "restartcb"
         THEN pc' = "restartfailed" /\ UNCHANGED <<inst, instances>>
         ELSE /\ inst' = [inst EXCEPT ![g] = [lin |-> op.lin, n |-> op.n, restart |-> TRUE, parent |-> old, state |-> "starting", file |-> op.file]]
              /\ instances' = Append(instances, g)
              /\ pc' = "dirs"
    /\ UNCHANGED <<hist, op, g, old, k, ph, srv, wg, waiter, held, att>>

\* the new instance is dropped from the list again (deferred func of startWithListenerFds)
Discard == /\ inst' = [inst EXCEPT ![g].state = "discarded"]
           /\ instances' = Remove(instances, g)
FailTo == IF op.t = "restart" THEN "restartfailed" ELSE "reterr"

\* ValidateAndExecuteDirectives (+ MakeServers): the directives' setup functions run
Directives ==
    /\ pc = "dirs"
    /\ IF op.f \in {"setup", "panic", "parse"}
         THEN Discard /\ pc' = FailTo
         ELSE pc' = (IF inst[g].restart THEN "startup" ELSE "first") /\ UNCHANGED <<inst, instances>>
    /\ UNCHANGED <<hist, op, g, old, k, ph, cb, srv, wg, waiter, held, att>>

\* OnFirstStartup: only when this is not a restart
FirstStartupCb ==
    /\ pc = "first"
    /\ Bump(g, "first")
    /\ pc' = "startup"
    /\ UNCHANGED <<hist, op, g, old, k, ph, inst, srv, wg, instances, waiter, held, att>>

StartupCb ==
    /\ pc = "startup"
    /\ Bump(g, "startup")
    /\ IF op.f = "startupcb"
         THEN Discard /\ pc' = FailTo /\ UNCHANGED k
         ELSE pc' = "listen" /\ k' = 1 /\ UNCHANGED <<inst, instances>>
    /\ UNCHANGED <<hist, op, g, old, ph, srv, wg, waiter, held, att>>

\* server j of a restarted instance re-uses the old instance's socket for the same address
Inherits(j) == inst[g].restart /\ inst[old].file /\ j <= inst[old].n

\* after the last server has its listener: wg.Add(2) per server and the goroutines are spawned
SpawnAll(s) == [j \in 1..2 |-> IF j <= inst[g].n THEN [s[j] EXCEPT !.spawned = TRUE] ELSE s[j]]

\* startServers, first loop: one server gets its listener (inherited or fresh Listen)
ListenStep ==
    /\ pc = "listen"
    /\ IF ~Inherits(k) /\ op.f = "listen"
         THEN \* a fresh Listen fails: the instance is dropped
              /\ Discard /\ pc' = FailTo
              /\ UNCHANGED <<srv, wg, k, ph>>
         ELSE IF k < inst[g].n
              THEN /\ srv' = [srv EXCEPT ![g][k].bound = TRUE]
                   /\ k' = k + 1
                   /\ UNCHANGED <<pc, inst, instances, wg, ph>>
              ELSE /\ srv' = [srv EXCEPT ![g] = SpawnAll([@ EXCEPT ![k].bound = TRUE])]
                   /\ wg' = [wg EXCEPT ![inst[g].lin] = @ + 2 * inst[g].n]
                   /\ inst' = [inst EXCEPT ![g].state = "live"]
                   /\ pc' = (IF inst[g].restart THEN "oldstop" ELSE "retok")
                   /\ k' = 1 /\ ph' = 0
                   /\ UNCHANGED instances
    /\ UNCHANGED <<hist, op, g, old, cb, waiter, held, att>>

\* ---- controller: the second half of a successful Restart ------------------
\* Instance.Stop of instance x, shared by Restart (old instance), the stop operation and
\* casket.Stop: the instance holds its own WaitGroup while it stops its servers (Add(1) before
\* the first, Done() when the last has returned and the instance is spliced out of the list);
\* each graceful server's Stop() is called (StopCall) and returns after it has drained (StopRet).
StopCall(x) ==
    /\ ph = 0
    /\ srv' = [srv EXCEPT ![x][k].stopreq = TRUE]
    /\ wg' = IF k = 1 THEN [wg EXCEPT ![inst[x].lin] = @ + 1] ELSE wg
    /\ ph' = 1
\* after is the controller step that follows Instance.Stop in this context
StopRet(x, after) ==
    /\ ph = 1
    /\ srv' = [srv EXCEPT ![x][k].stopdone = TRUE]
    /\ ph' = 0
    /\ IF k < inst[x].n
         THEN k' = k + 1 /\ UNCHANGED <<pc, inst, instances, wg>>
         ELSE /\ inst' = [inst EXCEPT ![x].state = "stopped"]
              /\ instances' = Remove(instances, x)
              /\ wg' = [wg EXCEPT ![inst[x].lin] = @ - 1]
              /\ pc' = after
              /\ k' = IF after = "stopall" THEN 0 ELSE k

StopOldCall ==
    /\ pc = "oldstop" /\ StopCall(old)
    /\ UNCHANGED <<hist, op, g, old, k, pc, inst, instances, cb, waiter, held, att>>
StopOldRet ==
    /\ pc = "oldstop" /\ StopRet(old, "oldshutdown")
    /\ UNCHANGED <<hist, op, g, old, cb, waiter, held, att>>

\* OnShutdown callbacks of the old instance (not OnFinalShutdown)
OldShutdownCb ==
    /\ pc = "oldshutdown"
    /\ Bump(old, "shutdown")
    /\ pc' = "retok"
    /\ UNCHANGED <<hist, op, g, old, k, ph, inst, srv, wg, instances, waiter, held, att>>

\* failure of a Restart: OnRestartFailed callbacks of the old instance, nothing else
RestartFailedCb ==
    /\ pc = "restartfailed"
    /\ Bump(old, "restartfailed")
    /\ att' = [att EXCEPT ![old].failed = @ + 1]
    /\ pc' = "reterr"
    /\ UNCHANGED <<hist, op, g, old, k, ph, inst, srv, wg, instances, waiter, held>>

\* the call returns (deferred wg.Done of Restart)
Return ==
    /\ pc \in {"retok", "reterr"}
    /\ wg' = IF op.t = "restart" THEN [wg EXCEPT ![op.lin] = @ - 1] ELSE wg
    /\ pc' = "idle"
    /\ UNCHANGED <<hist, op, g, old, k, ph, inst, cb, srv, instances, waiter, held, att>>

\* ---- controller: Instance.Stop and casket.Stop ----------------------------
StopOpCall ==
    /\ pc = "stop" /\ StopCall(old)
    /\ UNCHANGED <<hist, op, g, old, k, pc, inst, instances, cb, waiter, held, att>>
StopOpRet ==
    /\ pc = "stop" /\ StopRet(old, "retok")
    /\ UNCHANGED <<hist, op, g, old, cb, waiter, held, att>>

\* casket.Stop: take the first instance of the list, hold its wg (Add(1), Done deferred to the
\* end of casket.Stop), run Instance.Stop on it; repeat until the list is empty
StopAllPickCall ==
    /\ pc = "stopall" /\ instances # <<>> /\ k = 0 /\ ph = 0
    /\ LET x == Head(instances)
       IN  /\ old' = x /\ k' = 1 /\ ph' = 1
           /\ wg' = [wg EXCEPT ![inst[x].lin] = @ + 1]        \* Instance.Stop's own hold
           \* (casket.Stop also holds every instance's wait group until it has stopped them all;
           \*  that is more than the property asks for - Instance.Stop's hold already keeps Wait()
           \*  from returning early - and is deliberately not modelled: "held" stays empty)
           /\ UNCHANGED held
           /\ srv' = [srv EXCEPT ![x][1].stopreq = TRUE]
    /\ UNCHANGED <<hist, op, g, pc, inst, instances, cb, waiter, att>>
StopAllCall ==
    /\ pc = "stopall" /\ k > 1 /\ StopCall(old)
    /\ UNCHANGED <<hist, op, g, old, k, pc, inst, instances, cb, waiter, held, att>>
StopAllRet ==
    /\ pc = "stopall" /\ k > 0 /\ StopRet(old, "stopall")
    /\ UNCHANGED <<hist, op, g, old, cb, waiter, held, att>>

\* casket.Stop returns: the deferred Done()s run (not observable from outside: a silent step)
StopAllRelease ==
    /\ pc = "stopall" /\ instances = <<>> /\ k = 0 /\ ph = 0
    /\ wg' = [l \in Lins |-> wg[l] - Cardinality({x \in held : inst[x].lin = l})]
    /\ held' = {}
    /\ pc' = "retok"
    /\ UNCHANGED <<hist, op, g, old, k, ph, inst, cb, srv, instances, waiter, att>>

\* ---- asynchronous: server goroutines and waiters ---------------------------
ServeBegin(x, j) ==
    /\ srv[x][j].spawned /\ ~srv[x][j].begun
    /\ SetSrv(x, j, "begun", TRUE)
    /\ UNCHANGED <<hist, pc, op, g, old, k, ph, inst, cb, wg, instances, waiter, held, att>>

\* Serve returns only after Stop was requested; the goroutine then calls wg.Done()
ServeEnd(x, j) ==
    /\ srv[x][j].begun /\ srv[x][j].stopreq /\ ~srv[x][j].ended
    /\ SetSrv(x, j, "ended", TRUE)
    /\ wg' = [wg EXCEPT ![inst[x].lin] = @ - 1]
    /\ UNCHANGED <<hist, pc, op, g, old, k, ph, inst, cb, instances, waiter, held, att>>

\* ServePacket returns at once (no packet conn); its goroutine calls wg.Done()
ServePacketEnd(x, j) ==
    /\ srv[x][j].spawned /\ ~srv[x][j].spended
    /\ SetSrv(x, j, "spended", TRUE)
    /\ wg' = [wg EXCEPT ![inst[x].lin] = @ - 1]
    /\ UNCHANGED <<hist, pc, op, g, old, k, ph, inst, cb, instances, waiter, held, att>>

WaitCall(l) ==
    /\ waiter[l] = "none" /\ \E x \in Gens : inst[x].lin = l /\ inst[x].state \in {"live", "stopped"}
    /\ waiter' = [waiter EXCEPT ![l] = "waiting"]
    /\ UNCHANGED <<hist, pc, op, g, old, k, ph, inst, cb, srv, wg, instances, held, att>>

WaitReturn(l) ==
    /\ waiter[l] = "waiting" /\ wg[l] = 0
    /\ waiter' = [waiter EXCEPT ![l] = "returned"]
    /\ UNCHANGED <<hist, pc, op, g, old, k, ph, inst, cb, srv, wg, instances, held, att>>

Controller ==
    \/ \E o \in Ops : BeginOp(o)
    \/ (/\ (RestartCb \/ Directives \/ FirstStartupCb \/ StartupCb \/ ListenStep
            \/ OldShutdownCb \/ RestartFailedCb \/ Return \/ StopOldCall \/ StopOldRet \/ StopOpCall \/ StopOpRet
            \/ StopAllPickCall \/ StopAllCall \/ StopAllRet \/ StopAllRelease))

AsyncStep ==
    /\ Async
    /\ \/ \E x \in Gens, j \in 1..2 : ServeBegin(x, j) \/ ServeEnd(x, j) \/ ServePacketEnd(x, j)
       \/ \E l \in Lins : WaitCall(l) \/ WaitReturn(l)

Next == Controller \/ AsyncStep
Spec == Init /\ [][Next]_vars /\ WF_vars(Next)

\* ---- the properties --------------------------------------------------------
Lineage(l) == {x \in Gens : inst[x].lin = l /\ inst[x].state # "unused"}

\* first-startup callbacks run only at the initial start (and once)
FirstStartupOnlyInitially ==
    \A x \in Gens : cb[x]["first"] <= 1 /\ (inst[x].restart => cb[x]["first"] = 0)

\* startup callbacks once per instance, before it accepts connections
StartupOnceBeforeServing ==
    \A x \in Gens : /\ cb[x]["startup"] <= 1
                    /\ \A j \in 1..2 : (srv[x][j].bound \/ srv[x][j].begun) => cb[x]["startup"] = 1

\* the old instance's restart callbacks run before anything of the new instance exists
RestartCbBeforeNewInstance ==
    \A x \in Gens : (inst[x].restart /\ inst[x].state # "unused") => cb[inst[x].parent]["restart"] >= 1
RestartCbPerAttempt ==
    \A x \in Gens : cb[x]["restart"] = att[x].calls - (IF pc = "restartcb" /\ old = x THEN 1 ELSE 0)

\* shutdown callbacks of the old instance: exactly once, after a successful reload (its servers
\* have been told to stop and the successor is live), never otherwise in-process
ShutdownOnceAfterSuccess ==
    \A x \in Gens :
        /\ cb[x]["shutdown"] <= 1
        /\ cb[x]["shutdown"] = 1 =>
              /\ inst[x].state = "stopped"
              /\ \A j \in 1..inst[x].n : srv[x][j].stopreq /\ srv[x][j].stopdone
              /\ \E y \in Gens : inst[y].parent = x /\ inst[y].state \in {"live", "stopped"}
        /\ (pc = "idle" /\ \E y \in Gens : inst[y].parent = x /\ inst[y].state \in {"live", "stopped"})
              => cb[x]["shutdown"] = 1

\* after a failed reload: the restart-failed callbacks ran once for this attempt and
\* nothing else of the old instance happened (still live, not stopped, no shutdown callbacks)
OnlyRestartFailedOnFailure ==
    \A x \in Gens :
        /\ cb[x]["restartfailed"] = att[x].failed
        /\ (pc = "reterr" /\ op.t = "restart" /\ old = x) =>
              /\ inst[x].state = "live" /\ cb[x]["shutdown"] = 0
              /\ \A j \in 1..inst[x].n : ~srv[x][j].stopreq
              /\ x \in {instances[i] : i \in 1..Len(instances)}
    \* a failed new instance never stays in the instance list once the call is over
    /\ (pc = "idle" => \A z \in Gens : inst[z].state \in {"discarded", "stopped"} => z \notin {instances[i] : i \in 1..Len(instances)})

\* final-shutdown callbacks never run in-process (only at process shutdown: see Shutdown.tla)
FinalOnlyAtProcessShutdown == \A x \in Gens : cb[x]["final"] = 0

\* waiting on an instance returns only after every server of it and of its successors stopped
WaitOnlyWhenAllStopped ==
    \A l \in Lins : waiter[l] = "returned" =>
        \A x \in Lineage(l) : \A j \in 1..2 :
            srv[x][j].spawned => (srv[x][j].ended /\ srv[x][j].spended /\ (srv[x][j].stopreq => srv[x][j].stopdone))

\* the WaitGroup counter is exact: goroutines still running + operations holding it
WgExact ==
    \A l \in Lins : wg[l] =
          Cardinality({<<x, j>> \in Gens \X (1..2) : inst[x].lin = l /\ srv[x][j].spawned /\ ~srv[x][j].ended})
        + Cardinality({<<x, j>> \in Gens \X (1..2) : inst[x].lin = l /\ srv[x][j].spawned /\ ~srv[x][j].spended})
        + (IF op.t = "restart" /\ op.lin = l /\ pc # "idle" THEN 1 ELSE 0)
        + Cardinality({x \in held : inst[x].lin = l})
        + (IF pc \in {"oldstop", "stop", "stopall"} /\ old # NoGen /\ inst[old].lin = l /\ inst[old].state = "live"
              /\ (k > 1 \/ ph = 1) THEN 1 ELSE 0)

\* at most one live instance per lineage, and the instance list holds exactly the live
\* instances plus the one being started
ListExact ==
    /\ \A l \in Lins : Cardinality(Live(l)) <= 2
    /\ \A x \in Gens : inst[x].state = "live" => x \in {instances[i] : i \in 1..Len(instances)}

TypeOK == /\ pc \in {"idle", "restartcb", "dirs", "first", "startup", "listen", "oldstop", "oldshutdown",
                     "restartfailed", "retok", "reterr", "stop", "stopall"}
          /\ \A l \in Lins : wg[l] \in Nat

\* liveness: once every instance of a lineage is stopped, a waiter returns
WaitEventuallyReturns ==
    \A l \in Lins : [](waiter[l] = "waiting" /\ Lineage(l) # {} /\ pc = "idle" /\ Len(hist) = MaxOps
                        /\ (\A x \in Lineage(l) : inst[x].state \in {"stopped", "discarded"})
                       => <>(waiter[l] = "returned"))

\* ---- emission of histories (cfg with Async = FALSE: the controller alone is deterministic) --
Emit == (pc = "idle" /\ Len(hist) = MaxOps) => PrintT(<<"CASE", ToJson([ops |-> hist])>>)
=============================================================================
