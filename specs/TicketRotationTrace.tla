------------------------ MODULE TicketRotationTrace ------------------------
(***************************************************************************)
(* Validates ndjson traces recorded from the real code against             *)
(* TicketRotation.tla.  One file holds many traces of two kinds, each      *)
(* followed by a reset event that carries its key:                         *)
(*                                                                         *)
(* mode "rot" - the real rotation loop (caskettls.standaloneTLSTicketKey-  *)
(*   Rotation) driven by the harness with its own ticker channel and       *)
(*   entropy source, following a script emitted by TLC.  Logged:           *)
(*   spawn{cap,ok} tick{ok} close (harness, before it acts), rand{ok,g}    *)
(*   (the entropy source, when the loop reads it), set{keys} (the          *)
(*   setSessionTicketKeysTestHook seam, keys as generation numbers),       *)
(*   exit{disabled} (the function returned).  Not logged, inferred:        *)
(*   RecvTick and Shift.                                                   *)
(*                                                                         *)
(* mode "srv" - an end-to-end run of real `tls self_signed` / plain sites  *)
(*   through casket.Start / Instance.Restart / Instance.Stop.  Logged:     *)
(*   call{op} ret{res} and observe{n,sets}: the number of live rotation    *)
(*   goroutines found by goroutine inspection and the number of Set calls  *)
(*   the hook has seen, taken when the process is at rest.  Everything     *)
(*   else (SpawnAll, StopCall/StopRet, ServeBegin/End, the goroutines'     *)
(*   own steps) is inferred by TLC.                                        *)
(***************************************************************************)
EXTENDS TicketRotation

VARIABLES l, mode
Trace == ndJsonDeserialize("trace.ndjson")
tvars == <<vars, l, mode>>
E == Trace[l]
IsEvent(e) == l <= Len(Trace) /\ Trace[l].ev = e /\ l' = l + 1

TInit == Init /\ l = 1 /\ mode = "idle"

\* ---- mode rot -----------------------------------------------------------------------------
InRot == mode = "rot" /\ UNCHANGED <<mode, script, srvv>>
TSpawn == /\ IsEvent("spawn") /\ mode = "idle" /\ mode' = "rot"
          /\ E.cap >= 1
          /\ SpawnRot(1, E.cap, E.ok) /\ UNCHANGED <<script, srvv>>
TTick == IsEvent("tick") /\ InRot /\ TickFire(1, E.ok)
TClose == IsEvent("close") /\ InRot /\ CloseChan(1)
TRand == /\ IsEvent("rand") /\ InRot
         /\ (InitGen(1, E.ok) \/ TickGen(1, E.ok))
         /\ E.ok => rot'[1].ngen = E.g
TSet == /\ IsEvent("set") /\ InRot
        /\ (InitSetObs(1, E.keys) \/ TickSetObs(1, E.keys))
TExit == /\ IsEvent("exit") /\ InRot
         /\ (RecvExit(1) \/ Bail(1))
         /\ E.disabled = rot[1].disabled
SilentRot == UNCHANGED l /\ InRot /\ (RecvTick(1) \/ Shift(1))

\* ---- mode srv -----------------------------------------------------------------------------
AnyCap == CHOOSE c \in Caps : TRUE
SumSets == LET S[i \in 0..MaxSrv] == IF i = 0 THEN 0 ELSE S[i - 1] + rot[i].setno IN S[MaxSrv]

TCall == /\ IsEvent("call") /\ mode \in {"idle", "srv"} /\ mode' = "srv"
         /\ BeginOp([t |-> E.op.t, tls |-> E.op.tls, f |-> E.op.f])
TRet == /\ IsEvent("ret") /\ mode = "srv" /\ UNCHANGED mode
        /\ (E.res = "ok") = (pc = "retok")
        /\ Return
TObserve == /\ IsEvent("observe") /\ mode = "srv" /\ UNCHANGED mode
            /\ pc = "idle" /\ Quiescent
            /\ E.n = Cardinality(LiveRot)
            /\ E.sets = SumSets
            /\ UNCHANGED vars
\* The unlogged steps.  In the repaired design they commute (whatever the order, the process comes
\* to rest in the same state, and only states at rest are observed), so the search takes them in
\* one fixed order - the controller's first, then those of the lowest-numbered server that has
\* one - instead of exploring every interleaving again (TicketRotationSrv_*.cfg does that on the
\* model).  A Stop that ran into the grace period leaves the same state as one that did not.
CtlStep == pc \in {"spawn", "stop"}
GoStep(s) == \/ srv[s].spawned /\ ~srv[s].begun
             \/ srv[s].begun /\ srv[s].stopreq /\ ~srv[s].ended
             \/ rot[s].pc \in {"init", "initset"}
             \/ rot[s].pc = "select" /\ rot[s].chan = "closed"
SilentSrv == /\ UNCHANGED <<l, mode>> /\ mode = "srv"
             /\ IF CtlStep
                  THEN SpawnAll \/ StopCall \/ StopRet("ok")
                  ELSE \E s \in 1..nsrv :
                         /\ GoStep(s) /\ \A u \in 1..(s - 1) : ~GoStep(u)
                         /\ \/ ServeBegin(s, AnyCap, TRUE) \/ ServeEnd(s)
                            \/ ((InitGen(s, TRUE) \/ InitSet(s) \/ RecvExit(s)) /\ UNCHANGED <<script, srvv>>)

TReset == /\ IsEvent("reset") /\ mode' = "idle"
          /\ rot' = [r \in R |-> NoRot]
          /\ script' = <<>>
          /\ hist' = <<>> /\ pc' = "idle" /\ op' = NoOp
          /\ cur' = <<>> /\ new' = <<>> /\ old' = <<>> /\ k' = 0 /\ ph' = 0
          /\ srv' = [s \in R |-> NoSrv]
          /\ nsrv' = 0

TNext == TSpawn \/ TTick \/ TClose \/ TRand \/ TSet \/ TExit \/ SilentRot
         \/ TCall \/ TRet \/ TObserve \/ SilentSrv \/ TReset
TSpec == TInit /\ [][TNext]_tvars

Constr == TLCSet(1, IF l > TLCGet(1) THEN l ELSE TLCGet(1))
Accepted == IF TLCGet(1) = Len(Trace) + 1 THEN TRUE
            ELSE Print(<<"REJECTED at event", TLCGet(1), Trace[TLCGet(1)]>>, FALSE)
ASSUME TLCSet(1, 0)
=============================================================================
