-------------------------- MODULE PeerGrammarLong --------------------------
(***************************************************************************)
(* C19 - the same token grammars as PeerGrammar.tla, walked at random by   *)
(* `tlc -simulate` (seed = VERIF_SEED) far beyond the exhaustively         *)
(* enumerated lengths: every state of a random walk (= every prefix of a   *)
(* long token string) is printed as a CASE.                                *)
(***************************************************************************)
EXTENDS PeerGrammar

MaxLenLong == [link |-> 30, ua |-> 30, tpl |-> 30, host |-> 30, cookie |-> 30, path |-> 30, auth |-> 30, fcgi |-> 8, cgi |-> 30]
InitLong == kind \in GrowKinds /\ toks = <<>>
=============================================================================
