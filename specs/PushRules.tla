----------------------------- MODULE PushRules -----------------------------
(***************************************************************************)
(* HTTP/2 server push in casket: which resources the `push` directive      *)
(* hands to http.Pusher for which request (extension of C19, whose         *)
(* PeerGrammar.tla only feeds Link header TEXT to the parser).             *)
(*                                                                         *)
(* Code modelled: /repo/caskethttp/push  setup.go (parsePushRules),        *)
(* handler.go (Middleware.ServeHTTP, servePreloadLinks, isRemoteResource,  *)
(* mergeHeaders, filterProxiedHeaders), link_parser.go (parseLinkHeader),  *)
(* and what net/http's HTTP/2 server does with a Push call (validation,    *)
(* the promised request, ErrRecursivePush on a pushed stream).             *)
(*                                                                         *)
(* One action per step the code takes:                                     *)
(*   AddLine          the author writes one more `push` line (pool below)  *)
(*   StartSetup       casket runs the directive's setup function           *)
(*   ParseLine        c.NextLine + c.RemainingArgs: the rule of this line  *)
(*                    is looked up in / added to the map, inline resources *)
(*   ParseItem        one token (group) of the block: resource / method /  *)
(*                    header; a refused token ends the setup (Refused)     *)
(*   CloseLine        ops applied to every resource of the line, appended  *)
(*   Finalize         the rule MAP becomes the rule SLICE: any order       *)
(*   StartRequest     a request of the battery reaches Middleware.ServeHTTP*)
(*   CheckPusher      w.(http.Pusher)                                      *)
(*   CheckGuard       r.Header["X-Push"] exists: the recursion guard       *)
(*   Filter           filterProxiedHeaders                                 *)
(*   RuleStep         one rule of the slice tested (path or index file)    *)
(*   PushRes          pusher.Push for one resource of a matching rule;     *)
(*                    an error breaks out of BOTH loops                    *)
(*   CallNext         h.Next.ServeHTTP(w, r): the wrapped handler answers  *)
(*   NextOnly         the same on the two early-exit paths                 *)
(*   LinkLine         one `Link` header line of the response is parsed     *)
(*   LinkEntry        one parsed entry: nopush / remote skipped, else Push;*)
(*                    an error ends the link phase                         *)
(*   Return           (code, err) of next handed back                      *)
(*   FinishTop KidStart FinishKid   net/http serves every promised request *)
(*                    on a pushed stream through the same chain: a child   *)
(*                    run of the same actions whose Pusher always refuses  *)
(*                                                                         *)
(* The guarantees are written declaratively in section 7 and checked as    *)
(* invariants / action properties.  The model describes the REPAIRED code  *)
(* (FIX_* = TRUE); PushRules_asfound.cfg switches the three repairs off    *)
(* and TLC refutes GuardMarkerArrives, RulesAsWritten and LinkSemantics.   *)
(*                                                                         *)
(* Deliberate deviations: paths are chunk sequences whose chunk-prefix     *)
(* relation equals the byte-prefix relation (ASSUME ChunkDiscipline); all  *)
(* paths are clean (path.Clean inside Path.Matches is PathMatch.tla's      *)
(* business); header names are atoms with a canonical-form table; a Link   *)
(* line is a sequence of tokens none of which contains one of < > , ; =    *)
(* or a blank, so the string operations of parseLinkHeader are the same    *)
(* operations on token sequences; the response of the wrapped handler is   *)
(* opaque (the middleware has no write access to it in the model - the     *)
(* harness compares the real one with a twin site without push).           *)
(***************************************************************************)
EXTENDS Integers, Sequences, FiniteSets, TLC, Json

CONSTANTS MaxLines,        \* a site has at most this many push lines
          Sample2,         \* one in Sample2 of the two-line sites is set up and served (1 = all)
          Sample3,         \* the same for three lines
          LinkOneIn,       \* one in LinkOneIn of the enumerated Link header values is served (1 = all)
          FIX_MARKER,      \* mergeHeaders keeps a header without values (the X-Push marker)
          FIX_BAREMERGE,   \* a line without arguments merges into the rule "/" instead of replacing it
          FIX_REMOTECASE   \* isRemoteResource compares the scheme without regard to case

-----------------------------------------------------------------------------
(* 1. paths, the site root *)

PRoot == <<"/">>
PIndex == <<"/", "index.html">>
PAcss == <<"/", "a", ".css">>
PA    == <<"/", "a">>
PBjs  == <<"/", "b.js">>
PD    == <<"/", "d">>
PDs   == <<"/", "d", "/">>
PDidx == <<"/", "d", "/", "index.html">>
PDp   == <<"/", "d", "/", "p.html">>
PUDp  == <<"/", "D", "/", "p.html">>
PUD   == <<"/", "D">>
PDx   == <<"/", "d", "x">>
PSec  == <<"/", "sec">>
PSecS == <<"/", "sec", "/", "s.css">>
PX    == <<"/", "x">>
PY    == <<"/", "y">>
AllPaths == {PRoot, PIndex, PAcss, PA, PBjs, PD, PDs, PDidx, PDp, PUDp, PUD, PDx, PSec, PSecS, PX, PY}
Files == {PIndex, PAcss, PBjs, PDidx, PDp, PSecS}

RECURSIVE StrOf(_)
StrOf(p) == IF p = <<>> THEN "" ELSE Head(p) \o StrOf(Tail(p))

LowerChunk(c) == IF c = "D" THEN "d" ELSE c
LowerP(p) == [i \in 1..Len(p) |-> LowerChunk(p[i])]
IsPrefixSeq(a, b) == Len(a) <= Len(b) /\ SubSeq(b, 1, Len(a)) = a
\* httpserver.Path(p).Matches(base) for clean operands (case folded, byte prefix)
PathMatches(p, base) == base = PRoot \/ base = <<>> \/ IsPrefixSeq(LowerP(base), LowerP(p))
EndsSlash(p) == p # <<>> /\ p[Len(p)] = "/"
\* httpserver.IndexFile(root, p, indexPages): of the default index pages only index.html exists anywhere
IndexFileOf(p) == IF EndsSlash(p) /\ (p \o <<"index.html">>) \in Files THEN p \o <<"index.html">> ELSE <<>>
RuleMatches(p, base) == PathMatches(p, base) \/ (IndexFileOf(p) # <<>> /\ PathMatches(IndexFileOf(p), base))

\* the chunks spelled out: chunk prefix = byte prefix on AllPaths
Chars(c) == CASE c = "/" -> <<"/">> [] c = "a" -> <<"a">> [] c = ".css" -> <<".", "c", "s", "s">>
              [] c = "b.js" -> <<"b", ".", "j", "s">> [] c = "d" -> <<"d">> [] c = "D" -> <<"D">> [] c = "x" -> <<"x">> [] c = "y" -> <<"y">>
              [] c = "p.html" -> <<"p", ".", "h", "t", "m", "l">> [] c = "index.html" -> <<"i", "n", "d", "e", "x", ".", "h", "t", "m", "l">>
              [] c = "sec" -> <<"s", "e", "c">> [] c = "s.css" -> <<"s", ".", "c", "s", "s">>
RECURSIVE Flat(_)
Flat(p) == IF p = <<>> THEN <<>> ELSE Chars(Head(p)) \o Flat(Tail(p))
ChunkDiscipline == \A p \in AllPaths, q \in AllPaths : IsPrefixSeq(p, q) <=> IsPrefixSeq(Flat(p), Flat(q))
ASSUME ChunkDiscipline
ASSUME PathMatches(PAcss, PA) /\ PathMatches(PDx, PD) /\ ~PathMatches(PDx, PDs) /\ PathMatches(PUDp, PD) /\ PathMatches(PDp, PUD)
ASSUME RuleMatches(PRoot, PIndex) /\ RuleMatches(PDs, PDidx) /\ ~RuleMatches(PD, PDidx) /\ ~PathMatches(PRoot, PIndex)

-----------------------------------------------------------------------------
(* 2. push targets, and what net/http's HTTP/2 server makes of them (site served over TLS) *)

Targets == << "/a.css", "/b.js", "/sec/s.css", "b.js", "", "//other.test/x",
              "http://other.test/y", "https://other.test/y", "HTTPS://other.test/y" >>
TargetSet == {Targets[i] : i \in 1..Len(Targets)}
LocalTargets == {"/a.css", "/b.js", "/sec/s.css"}          \* an absolute path on this origin
\* strings.HasPrefix(t, "//") || HasPrefix(t, "http://") || HasPrefix(t, "https://")   (handler.go, as found)
PrefixRemote(t) == t \in {"//other.test/x", "http://other.test/y", "https://other.test/y"}
AnyCaseRemote(t) == PrefixRemote(t) \/ t = "HTTPS://other.test/y"
IsRemote(t) == IF FIX_REMOTECASE THEN AnyCaseRemote(t) ELSE PrefixRemote(t)
\* http2responseWriter.Push: url.Parse, scheme / host rules
H2Target(t) == CASE t \in LocalTargets -> "ok"
                 [] t = "//other.test/x" -> "ok"               \* no scheme: u.Host is REPLACED by the request's host: /x of this site
                 [] t \in {"https://other.test/y", "HTTPS://other.test/y"} -> "ok"    \* promised with :authority other.test
                 [] t = "http://other.test/y" -> "badscheme"
                 [] OTHER -> "badtarget"                       \* "", b.js: neither absolute URL nor absolute path
PromAuthority(t) == IF t \in {"https://other.test/y", "HTTPS://other.test/y"} THEN "other.test" ELSE "self"
PromPath(t) == CASE t = "/a.css" -> PAcss [] t = "/b.js" -> PBjs [] t = "/sec/s.css" -> PSecS
                 [] t = "//other.test/x" -> PX [] OTHER -> PY

\* header names: atoms; what setup.go's validateHeader and net/http's Push refuse
ColonNames == {":path"}
ForbiddenNames == {"Host", "content-length", "TE", "Expect", "Trailer", "Content-Encoding"}   \* compared in lower case by both
BadHeaderName(n) == n \in ColonNames \/ n \in ForbiddenNames
Canon(n) == CASE n = "x-tok" -> "X-Tok" [] n = "content-length" -> "Content-Length" [] n = "TE" -> "Te" [] OTHER -> n
H2BadNames == {"Host", "Connection", "Content-Length", "Te", "Expect", "Trailer", "Content-Encoding"}  \* + connection-specific names
Proxied == {"Accept-Encoding", "Accept-Language", "Cache-Control", "Host", "User-Agent"}          \* proxiedHeaders
Marker == "X-Push"                                                                                  \* pushHeader
NoHdr == <<>>                                                                                       \* the header without any key
MarkerHdr == Marker :> <<>>                                                                         \* http.Header{pushHeader: []string{}}
Restrict(h, S) == [n \in (DOMAIN h) \cap S |-> h[n]]
SetHdr(h, n, v) == [q \in (DOMAIN h) \cup {n} |-> IF q = n THEN <<v>> ELSE h[q]]                    \* Header.Set
\* Middleware.mergeHeaders(l, r): l's keys, then r's values ADDED key by key. As found a key of r without
\* values adds nothing - the marker never reaches the pushed request.
Merge(l, r) == LET keep == {m \in DOMAIN r : FIX_MARKER \/ r[m] # <<>>}
               IN  [n \in (DOMAIN l) \cup keep |-> (IF n \in DOMAIN l THEN l[n] ELSE <<>>) \o (IF n \in DOMAIN r THEN r[n] ELSE <<>>)]

\* the header sets a client sends (canonical names; Host survives in the map only over HTTP/2, when the
\* client sends a host field next to :authority)
ClientHdrs == [ none  |-> NoHdr,
                std   |-> ("Accept-Encoding" :> <<"gzip">>) @@ ("Accept-Language" :> <<"en", "de">>) @@ ("Cache-Control" :> <<"no-cache">>)
                          @@ ("User-Agent" :> <<"ua/1">>) @@ ("Cookie" :> <<"a=b">>) @@ ("Authorization" :> <<"Basic dTpw">>) @@ ("X-Other" :> <<"x">>),
                xpush |-> ("X-Push" :> <<"1">>) @@ ("Accept-Encoding" :> <<"gzip">>),
                host  |-> ("Host" :> <<"evil.test">>) @@ ("Accept-Encoding" :> <<"gzip">>) ]

-----------------------------------------------------------------------------
(* 3. the lines an author can write *)

R(t) == [k |-> "res", a |-> <<t>>]
M(a) == [k |-> "method", a |-> a]
H(a) == [k |-> "header", a |-> a]
Ln(hp, p, inl, blk) == [hp |-> hp, p |-> p, inl |-> inl, blk |-> blk]    \* hp: a path is written; inl: resources on the line; blk: block tokens
Pool == <<
  Ln(FALSE, <<>>, <<>>, <<>>),                                               \*  1  push
  Ln(TRUE, PRoot, <<"/a.css">>, <<>>),                                       \*  2  push / /a.css
  Ln(TRUE, PRoot, <<"/b.js">>, <<>>),                                        \*  3  push / /b.js
  Ln(TRUE, PIndex, <<"/a.css", "/b.js">>, <<>>),                             \*  4  push /index.html /a.css /b.js
  Ln(TRUE, PD, <<"/a.css">>, <<M(<<"HEAD">>), H(<<"X-Tok", "v1">>)>>),       \*  5  push /d /a.css { method HEAD ; header X-Tok v1 }
  Ln(TRUE, PDs, <<>>, <<R("/b.js"), H(<<"X-Tok", "v2">>), H(<<"x-tok", "v3">>)>>),   \*  6  last header line wins, name canonicalised
  Ln(FALSE, <<>>, <<>>, <<R("/b.js")>>),                                     \*  7  push { /b.js }
  Ln(TRUE, PA, <<"/a.css">>, <<>>),                                          \*  8  push /a /a.css      the rule covers its own resource
  Ln(TRUE, PIndex, <<"b.js", "/a.css">>, <<>>),                              \*  9  a relative resource first
  Ln(TRUE, PRoot, <<"/sec/s.css">>, <<>>),                                   \* 10  a resource behind basicauth
  Ln(TRUE, PUD, <<"/b.js">>, <<>>),                                          \* 11  push /D /b.js       case folded
  Ln(TRUE, PRoot, <<"https://other.test/y", "/a.css">>, <<>>),               \* 12  another authority, the operator's choice
  Ln(TRUE, PRoot, <<"//other.test/x">>, <<>>),                               \* 13
  Ln(TRUE, PRoot, <<"/a.css", "/b.js">>, <<H(<<"Connection", "close">>)>>),  \* 14  accepted by setup, refused by net/http at every push
  Ln(TRUE, PRoot, <<"/a.css">>, <<H(<<"X-Push", "1">>)>>),                   \* 15  the marker with a value
  Ln(TRUE, PRoot, <<"/a.css">>, <<H(<<"Accept-Encoding", "br">>), H(<<"Authorization", "Basic dTpw">>)>>),  \* 16  added to the forwarded ones
  Ln(TRUE, PDidx, <<"/a.css">>, <<>>),                                       \* 17  push /d/index.html /a.css   matches GET /d/
  Ln(TRUE, PRoot, <<"/a.css">>, <<M(<<"GET">>), M(<<"HEAD">>)>>),            \* 18  last method line wins
  Ln(TRUE, PRoot, <<>>, <<M(<<"HEAD">>), R("/a.css"), R("/b.js")>>),         \* 19  method before the resources: applies to all of the line
  Ln(TRUE, PRoot, <<"", "/a.css">>, <<>>),                                   \* 20  push / "" /a.css
  Ln(TRUE, PRoot, <<"/a.css">>, <<M(<<"HEAD", "/b.js">>)>>),                 \* 21  method HEAD /b.js: the rest of the line are resources
  Ln(TRUE, PSec, <<"/a.css">>, <<>>),                                        \* 22  push /sec /a.css
  \* refused by the setup
  Ln(TRUE, PRoot, <<"/a.css">>, <<M(<<"POST">>)>>),                          \* 23
  Ln(TRUE, PRoot, <<"/a.css">>, <<M(<<>>)>>),                                \* 24  method without argument
  Ln(TRUE, PRoot, <<"/a.css">>, <<M(<<"get">>)>>),                           \* 25  methods are case-sensitive
  Ln(TRUE, PRoot, <<"/a.css">>, <<H(<<"Host", "x">>)>>),                     \* 26
  Ln(TRUE, PRoot, <<"/a.css">>, <<H(<<":path", "/x">>)>>),                   \* 27
  Ln(TRUE, PRoot, <<"/a.css">>, <<H(<<"content-length", "1">>)>>),           \* 28
  Ln(TRUE, PRoot, <<"/a.css">>, <<H(<<"X-One">>)>>),                         \* 29  header with one argument
  Ln(TRUE, PRoot, <<"/a.css">>, <<R("/b.js"), H(<<"X", "a", "b">>)>>),       \* 30  header with three
  Ln(TRUE, PRoot, <<>>, <<H(<<"TE", "trailers">>)>>),                        \* 31
  Ln(FALSE, <<>>, <<>>, <<H(<<"Expect", "x">>)>>),                           \* 32
  Ln(TRUE, PD, <<>>, <<H(<<"Trailer", "x">>)>>),                             \* 33
  Ln(TRUE, PD, <<>>, <<H(<<"Content-Encoding", "gzip">>)>>)                  \* 34
>>
NPool == Len(Pool)
GoodIds == 1..22
Pool2 == GoodIds \cup {23, 29}          \* lines that appear in sites of two and more lines
LinePath(l) == IF l.hp THEN l.p ELSE PRoot

\* ---- what a line says, read declaratively (section 7 compares the stepwise setup with this)
ItemInvalid(it) == \/ it.k = "method" /\ (it.a = <<>> \/ it.a[1] \notin {"GET", "HEAD"})
                   \/ it.k = "header" /\ (Len(it.a) # 2 \/ BadHeaderName(it.a[1]))
LineInvalid(l) == \E j \in 1..Len(l.blk) : ItemInvalid(l.blk[j])
RECURSIVE BlockTargets(_)
BlockTargets(b) == IF b = <<>> THEN <<>>
                   ELSE (IF Head(b).k = "res" THEN Head(b).a ELSE IF Head(b).k = "method" /\ Head(b).a # <<>> THEN Tail(Head(b).a) ELSE <<>>)
                        \o BlockTargets(Tail(b))
LineTargets(l) == l.inl \o BlockTargets(l.blk)
LineMethod(l) == LET ms == {j \in 1..Len(l.blk) : l.blk[j].k = "method"}
                 IN  IF ms = {} THEN "GET" ELSE l.blk[CHOOSE j \in ms : \A q \in ms : q <= j].a[1]
LineHeader(l) == LET hs == {j \in 1..Len(l.blk) : l.blk[j].k = "header"}
                     names == {Canon(l.blk[j].a[1]) : j \in hs}
                     lastOf(n) == CHOOSE j \in hs : Canon(l.blk[j].a[1]) = n /\ \A q \in hs : Canon(l.blk[q].a[1]) = n => q <= j
                 IN  [n \in names \cup {Marker} |-> IF n \in names THEN <<l.blk[lastOf(n)].a[2]>> ELSE <<>>]
LineResources(l) == [i \in 1..Len(LineTargets(l)) |-> [t |-> LineTargets(l)[i], m |-> LineMethod(l), h |-> LineHeader(l)]]

-----------------------------------------------------------------------------
(* 4. Link header lines as token sequences, and parseLinkHeader on them *)

IndexOfTok(s, tk) == IF \E i \in 1..Len(s) : s[i] = tk
                     THEN CHOOSE i \in 1..Len(s) : s[i] = tk /\ \A j \in 1..(i - 1) : s[j] # tk ELSE 0    \* strings.Index (+1), 0 = -1
RECURSIVE SplitTok(_, _)
SplitTok(s, sep) == LET i == IndexOfTok(s, sep)                                                           \* strings.Split
                    IN  IF i = 0 THEN <<s>> ELSE <<SubSeq(s, 1, i - 1)>> \o SplitTok(SubSeq(s, i + 1, Len(s)), sep)
RECURSIVE TrimL(_)
TrimL(s) == IF s # <<>> /\ Head(s) = " " THEN TrimL(Tail(s)) ELSE s
RECURSIVE TrimR(_)
TrimR(s) == IF s # <<>> /\ s[Len(s)] = " " THEN TrimR(SubSeq(s, 1, Len(s) - 1)) ELSE s
Trim(s) == TrimR(TrimL(s))                                                                                 \* strings.TrimSpace
\* one parameter: SplitN(TrimSpace(param), "=", 2), key = TrimSpace(parts[0])
ParamKey(p) == LET t == Trim(p)  i == IndexOfTok(t, "=") IN StrOf(Trim(IF i = 0 THEN t ELSE SubSeq(t, 1, i - 1)))
\* one comma-separated segment
ParseSeg(link) == LET li == IndexOfTok(link, "<")  ri == IndexOfTok(link, ">")
                  IN  IF li = 0 \/ ri = 0 \/ ri < li THEN <<>>
                      ELSE LET ps == SplitTok(Trim(SubSeq(link, ri + 1, Len(link))), ";")
                           IN  << [uri  |-> StrOf(Trim(SubSeq(link, li + 1, ri - 1))),
                                   keys |-> {ParamKey(ps[j]) : j \in 1..Len(ps)} \ {""}] >>
RECURSIVE CatSegs(_)
CatSegs(ss) == IF ss = <<>> THEN <<>> ELSE ParseSeg(Head(ss)) \o CatSegs(Tail(ss))
ParseLink(line) == IF line = <<>> THEN <<>> ELSE CatSegs(SplitTok(line, ","))
NoPush(e) == "nopush" \in e.keys                                            \* _, exists := resource.params["nopush"]

TgtToks(t) == IF t = "" THEN <<>> ELSE <<t>>
RECURSIVE ParToks(_)
ParToks(ps) == IF ps = <<>> THEN <<>> ELSE <<";", " ">> \o Head(ps) \o ParToks(Tail(ps))
Entry(t, ps) == <<"<">> \o TgtToks(t) \o <<">">> \o ParToks(ps)            \* <t>; p1; p2
ParamPool == << <<"rel", "=", "preload">>, <<"rel", "=", "prefetch">>, <<"nopush">>, <<"as", "=", "style">>, <<"crossorigin">>,
                <<"rel", "=", "\"preload\"">>, <<"Rel", "=", "Preload">>, <<"NoPush">>, <<"nopush", "=", "1">>, <<"\"nopush\"">>,
                <<"nopush", " ">>, <<"x", " ", "nopush">>, <<"=", "nopush">>, <<"rel", " ", "=", " ", "preload">> >>
NPar == Len(ParamPool)
NTgt == Len(Targets)
ParOpt == <<<<>>>> \o [i \in 1..NPar |-> <<ParamPool[i]>>]                 \* no parameter, or one of the pool
\* one entry, every target x (no parameter | one parameter)
Single1 == [i \in 1..(NTgt * (NPar + 1)) |-> Entry(Targets[((i - 1) \div (NPar + 1)) + 1], ParOpt[((i - 1) % (NPar + 1)) + 1])]
\* /a.css with two parameters
Single2 == [i \in 1..(NPar * NPar) |-> Entry("/a.css", <<ParamPool[((i - 1) \div NPar) + 1], ParamPool[((i - 1) % NPar) + 1]>>)]
\* shapes the parser has to survive or to read in its own way
Shapes == << <<>>,                                                          \* an empty header line
             <<"<", " ", "/a.css", " ", ">">>,                              \* blanks inside the brackets are trimmed
             <<"/a.css", ">">>, <<"<", "/a.css">>, <<">", "/a.css", "<">>, \* no "<", no ">", ">" first (the C19 repair): skipped
             <<"a", ">", "<", "/a.css", ">">>,                              \* the first ">" in front of the first "<": skipped
             <<"x", " ", "<", "/a.css", ">">>,                              \* text in front of "<" is ignored
             <<"<", "/a.css", ">", "<", "/b.js", ">">>,                     \* the second bracket is read as a parameter name
             <<"<", "/a.css", ">", ";", "<", "/b.js", ">">>,                \* "accepted format" three of the comment: only the first
             <<"<", "/a", ",", "b.js", ">">>,                               \* a comma inside the brackets splits the reference
             <<",">>, <<";">>, <<"<", ">">>, <<" ">>,
             <<"<", "/a.css", ">", ";", " ", "rel", "=", "preload", ";", " ", "as", "=", "style", ";">>,
             <<"<", "/a.css", ">", " ", ";", " ">> >>
\* two entries in one line: every (target, nopush or not) pair with four separators
Kinds == [i \in 1..(2 * NTgt) |-> Entry(Targets[((i - 1) \div 2) + 1], IF i % 2 = 0 THEN <<<<"nopush">>>> ELSE <<>>)]
Seps == << <<",">>, <<",", " ">>, <<" ", ",", " ">>, <<";">> >>
NK == Len(Kinds)
Pairs == [i \in 1..(NK * NK * 4) |-> Kinds[((i - 1) \div (NK * 4)) + 1] \o Seps[((i - 1) % 4) + 1] \o Kinds[(((i - 1) \div 4) % NK) + 1]]
OneLine == Single1 \o Single2 \o Shapes \o Pairs
\* several header lines
Few == << Entry("/a.css", <<>>), Entry("/b.js", <<<<"nopush">>>>), Entry("https://other.test/y", <<>>), Entry("b.js", <<>>), <<>>,
          Entry("/b.js", <<<<"rel", "=", "preload">>>>) >>
TwoLines == [i \in 1..(Len(Few) * Len(Few)) |-> <<Few[((i - 1) \div Len(Few)) + 1], Few[((i - 1) % Len(Few)) + 1]>>]
LinkSets == [i \in 1..Len(OneLine) |-> <<OneLine[i]>>] \o TwoLines          \* every value of w.Header()["Link"] the battery knows
NLink == Len(LinkSets)

\* every reference the parser finds in the enumerated values is one of Targets or one of these (read off the shapes)
OddUris == {"/a"}
UrisKnown == \A i \in 1..NLink : \A j \in 1..Len(LinkSets[i]) :
                 \A e \in {ParseLink(LinkSets[i][j])[q] : q \in 1..Len(ParseLink(LinkSets[i][j]))} : e.uri \in TargetSet \cup OddUris
H2TargetU(t) == IF t \in OddUris THEN "ok" ELSE H2Target(t)
PromPathU(t) == IF t = "/a" THEN PA ELSE PromPath(t)

\* the wrapped handler ("next"): what it does with the response. fs = the static file server (no Link).
Inner(mode, links) == [mode |-> mode, links |-> links]
L1 == <<Entry("/b.js", <<<<"rel", "=", "preload">>>>)>>
InnerFS == Inner("fs", <<>>)
InnerW == Inner("write", L1)          \* 200 + body, Link: </b.js>; rel=preload
InnerFlush == Inner("flush", L1)      \* the same, flushed: the response has left when push reads the header
InnerRet == Inner("ret404", L1)       \* sets Link, writes nothing, returns (404, nil)

-----------------------------------------------------------------------------
(* 5. state, sampling, the setup *)

VARIABLES site,    \* the push lines of the site (ids of Pool), in written order
          pc,      \* build | line | item | refused | ready | serve | kids | done
          sl, sj,  \* setup: line index, block token index
          rmap,    \* setup: the rule map  path -> resources
          cur,     \* setup: the line being parsed [path, res]
          ops,     \* setup: its method / header ops
          err,     \* why the setup refused
          rules,   \* Middleware.Rules: the slice built from the map
          rq,      \* the request being served (a record of the battery)
          run,     \* the ServeHTTP call in progress (the client's request, or a promised one)
          top,     \* the finished run of the client's request while its promised requests are served
          kids,    \* finished runs of promised requests
          kq       \* next call of top to look at for a promised request
vars == <<site, pc, sl, sj, rmap, cur, ops, err, rules, rq, run, top, kids, kq>>
setupVars == <<sl, sj, rmap, cur, ops, err, rules>>
serveVars == <<rq, run, top, kids, kq>>

SeedNum == LET sd0 == TLCGet("config").seed         \* TLC hands the -seed value over as a string
               T == << "1", "2", "3", "4", "5", "6", "7", "8", "9", "10", "11", "12", "13", "14", "15", "16" >>
               hit == {q \in 1..Len(T) : T[q] = sd0}
           IN  IF hit = {} THEN 0 ELSE CHOOSE q \in hit : TRUE
RECURSIVE HashSeq(_, _)
HashSeq(b, q) == IF q > Len(b) THEN 0 ELSE ((q * 31 + 7) * b[q] + HashSeq(b, q + 1)) % 1000003
\* sites every tier serves whatever the hash says: the interplay the clauses are about
Pinned == { <<2, 3>>, <<3, 2>>,       \* two lines with one path are one rule, resources in written order
            <<2, 1>>, <<2, 7>>,       \* a line without arguments after a "/" line (as found: replaced it)
            <<1, 2>>, <<7, 3>>,       \* ... and in front of it
            <<2, 5>>, <<5, 6>>,       \* two rules match /d/...: both push, in slice order
            <<9, 3>>, <<14, 4>>,      \* a refused push in one rule ends the whole rule phase
            <<8, 4>>, <<10, 22>>,     \* rules that cover their own resources
            <<2, 23>>, <<29, 2>>,     \* one bad line refuses the site
            <<2, 5, 17>>, <<2, 7, 3>>, <<4, 1, 4>> }
Sampled(s) == LET n == Len(s)
                  oneIn == IF n <= 1 THEN 1 ELSE IF n = 2 THEN Sample2 ELSE Sample3
              IN  n >= 1 /\ (s \in Pinned \/ (HashSeq(s, 1) + 17 * SeedNum) % oneIn = 0)
\* a three-line site is only written when it can be served: keeps the enumeration of unsampled sites small
Extendable(s, id) == Len(s) < 2 \/ Sampled(Append(s, id))

NoRun == [lvl |-> "none"]
NoRq == [path |-> <<>>]
Init == /\ site = <<>> /\ pc = "build" /\ sl = 0 /\ sj = 0 /\ rmap = <<>> /\ cur = [path |-> <<>>, res |-> <<>>] /\ ops = <<>>
        /\ err = "" /\ rules = <<>> /\ rq = NoRq /\ run = NoRun /\ top = NoRun /\ kids = <<>> /\ kq = 0

AddLine(id) == /\ pc = "build" /\ Len(site) < MaxLines
               /\ (Len(site) >= 1 => id \in Pool2 /\ \A q \in 1..Len(site) : site[q] \in Pool2)
               /\ Extendable(site, id)
               /\ site' = Append(site, id)
               /\ UNCHANGED <<pc, setupVars, serveVars>>
StartSetup == /\ pc = "build" /\ Sampled(site)
              /\ pc' = "line" /\ sl' = 1
              /\ UNCHANGED <<site, sj, rmap, cur, ops, err, rules, serveVars>>

Resource(t) == [t |-> t, m |-> "GET", h |-> MarkerHdr]
CurLine == Pool[site[sl]]
\* for c.NextLine() { args := c.RemainingArgs(); rule looked up by its path or made; resources of the line itself }
ParseLine == /\ pc = "line" /\ sl <= Len(site)
             /\ LET l == CurLine
                    key == LinePath(l)
                    fresh == ~l.hp /\ ~FIX_BAREMERGE            \* as found, len(args) == 0: rules["/"] = new(Rule)
                IN  /\ rmap' = IF key \in DOMAIN rmap /\ ~fresh THEN rmap
                               ELSE [q \in (DOMAIN rmap) \cup {key} |-> IF q = key THEN <<>> ELSE rmap[q]]
                    /\ cur' = [path |-> key, res |-> [i \in 1..Len(l.inl) |-> Resource(l.inl[i])]]
             /\ ops' = <<>> /\ sj' = 1 /\ pc' = "item"
             /\ UNCHANGED <<site, sl, err, rules, serveVars>>
Refuse(why) == /\ err' = why /\ pc' = "refused" /\ rmap' = <<>>          \* return emptyRules, err
               /\ UNCHANGED <<site, sl, sj, cur, ops, rules, serveVars>>
\* for c.NextBlock() { switch c.Val() ... }
ParseItem == /\ pc = "item" /\ sj <= Len(CurLine.blk)
             /\ LET it == CurLine.blk[sj] IN
                CASE it.k = "res" ->
                        /\ cur' = [cur EXCEPT !.res = Append(@, Resource(it.a[1]))] /\ sj' = sj + 1
                        /\ UNCHANGED <<site, pc, sl, rmap, ops, err, rules, serveVars>>
                  [] it.k = "method" ->
                        IF it.a = <<>> THEN Refuse("argument")                               \* c.ArgErr()
                        ELSE IF it.a[1] \notin {"GET", "HEAD"} THEN Refuse("method")         \* errMethodNotSupported
                        ELSE /\ ops' = Append(ops, [k |-> "m", n |-> "", v |-> it.a[1]])
                             \* further tokens on the line come out of NextBlock one by one: resources
                             /\ cur' = [cur EXCEPT !.res = @ \o [i \in 1..(Len(it.a) - 1) |-> Resource(it.a[i + 1])]]
                             /\ sj' = sj + 1
                             /\ UNCHANGED <<site, pc, sl, rmap, err, rules, serveVars>>
                  [] it.k = "header" ->
                        IF Len(it.a) # 2 THEN Refuse("header arguments")                     \* errInvalidHeader
                        ELSE IF BadHeaderName(it.a[1]) THEN Refuse("header name")            \* validateHeader
                        ELSE /\ ops' = Append(ops, [k |-> "h", n |-> Canon(it.a[1]), v |-> it.a[2]])
                             /\ sj' = sj + 1
                             /\ UNCHANGED <<site, pc, sl, rmap, cur, err, rules, serveVars>>
RECURSIVE ApplyOps(_, _, _)
ApplyOps(r, o, i) == IF i > Len(o) THEN r
                     ELSE ApplyOps(IF o[i].k = "m" THEN [r EXCEPT !.m = o[i].v] ELSE [r EXCEPT !.h = SetHdr(@, o[i].n, o[i].v)], o, i + 1)
\* for _, op := range ops { op(resources) } ; rule.Resources = append(rule.Resources, resources...)
CloseLine == /\ pc = "item" /\ sj > Len(CurLine.blk)
             /\ rmap' = [rmap EXCEPT ![cur.path] = @ \o [i \in 1..Len(cur.res) |-> ApplyOps(cur.res[i], ops, 1)]]
             /\ sl' = sl + 1 /\ pc' = "line"
             /\ UNCHANGED <<site, sj, cur, ops, err, rules, serveVars>>
Orders(S) == {f \in [1..Cardinality(S) -> S] : \A a, b \in 1..Cardinality(S) : a # b => f[a] # f[b]}
\* for _, rule := range rules { returnRules = append(returnRules, *rule) }: a Go map is ranged over in ANY order
Finalize == /\ pc = "line" /\ sl > Len(site)
            /\ \E o \in Orders(DOMAIN rmap) : rules' = [i \in 1..Len(o) |-> [path |-> o[i], res |-> rmap[o[i]]]]
            /\ pc' = "ready"
            /\ UNCHANGED <<site, sl, sj, rmap, cur, ops, err, serveVars>>

-----------------------------------------------------------------------------
(* 6. serving: Middleware.ServeHTTP step by step; the Pusher behind it *)

Scripts == {"none", "only1", "only2", "from1"}     \* which Push calls of the request fail for lack of room ("concurrent streams are full")
ScriptFails(s, n) == (s = "only1" /\ n = 1) \/ (s = "only2" /\ n = 2) \/ s = "from1"
\* what pusher.Push answers. w: h1 = net/http's HTTP/1.1 writer (no Pusher at all); h1w = the same under one of casket's
\* ResponseWriterWrapper (has a Push method, answers http.ErrNotSupported); h2 = HTTP/2 stream of the client; h2p = pushed stream
PusherResult(w, n, s, t, h) ==
    CASE w = "h1w" -> "notsupported"
      [] w = "h2p" -> "recursive"                       \* http2ErrRecursivePush
      [] w = "h2"  -> IF ScriptFails(s, n) THEN "full"
                      ELSE IF H2TargetU(t) # "ok" THEN H2TargetU(t)
                      ELSE IF (DOMAIN h) \cap H2BadNames # {} THEN "badheader"
                      ELSE "ok"
      [] OTHER -> "nopusher"

Call(ph, m, t, h, res) == [ph |-> ph, m |-> m, t |-> t, h |-> h, res |-> res]
NewRun(lvl, path, w, hdr, inner, script, of) ==
    [lvl |-> lvl, path |-> path, w |-> w, hdr |-> hdr, inner |-> inner, script |-> script, of |-> of,
     pc |-> "pusher", fwd |-> NoHdr, ri |-> 0, si |-> 0, li |-> 0, ei |-> 0, ents |-> <<>>,
     calls |-> <<>>, nnext |-> 0, nextAt |-> -1, resp |-> [by |-> "", links |-> <<>>], ret |-> ""]

\* the requests a site is asked: the full battery for one-line sites, a reduced one for larger sites, and for two
\* small sites every enumerated Link value
ReqPaths == {PRoot, PIndex, PAcss, PDs, PDp, PUDp, PDx, PSecS, PBjs}
Rq(p, w, ch, inner, s) == [path |-> p, w |-> w, ch |-> ch, inner |-> inner, script |-> s]
BatteryA == {Rq(p, w, ch, i, "none") : p \in ReqPaths, w \in {"h1", "h1w"}, ch \in {"none", "std"}, i \in {InnerFS, InnerW}}
       \cup {Rq(p, "h2", ch, i, s) : p \in ReqPaths, ch \in {"none", "std", "xpush", "host"}, i \in {InnerFS, InnerW}, s \in {"none", "only1", "only2"}}
       \cup {Rq(p, "h2", "std", i, "none") : p \in ReqPaths, i \in {InnerFlush, InnerRet}}
BatteryA2 == {Rq(p, "h2", "std", InnerW, s) : p \in ReqPaths, s \in Scripts}
LinkSites == {<<1>>, <<2>>}
LinkSampled(k) == (k * 7 + 13 * SeedNum) % LinkOneIn = 0
BatteryB == {Rq(PRoot, "h2", "std", Inner("write", LinkSets[k]), s) : k \in {q \in 1..NLink : LinkSampled(q)}, s \in Scripts}
Battery == (IF Len(site) = 1 THEN BatteryA ELSE BatteryA2) \cup (IF site \in LinkSites THEN BatteryB ELSE {})

StartRequest == /\ pc = "ready"
                /\ \E q \in Battery : /\ rq' = q
                                      /\ run' = NewRun("top", q.path, q.w, ClientHdrs[q.ch], q.inner, q.script, 0)
                /\ pc' = "serve" /\ top' = NoRun /\ kids' = <<>> /\ kq' = 0
                /\ UNCHANGED <<site, setupVars>>

Serving == pc = "serve" /\ run.lvl # "none"
Step(r) == /\ run' = r /\ UNCHANGED <<site, pc, setupVars, rq, top, kids, kq>>

\* pusher, hasPusher := w.(http.Pusher)
CheckPusher == /\ Serving /\ run.pc = "pusher"
               /\ Step([run EXCEPT !.pc = IF run.w = "h1" THEN "nextonly" ELSE "guard"])
\* if _, exists := r.Header[pushHeader]; exists { return h.Next.ServeHTTP(w, r) }
CheckGuard == /\ Serving /\ run.pc = "guard"
              /\ Step([run EXCEPT !.pc = IF Marker \in DOMAIN run.hdr THEN "nextonly" ELSE "filter"])
\* what the wrapped handler does is its own business: the response is a token naming who made it
InnerResp(r) == [by |-> r.inner.mode, links |-> r.inner.links]
InnerRet4(r) == IF r.inner.mode = "ret404" THEN "404" ELSE "0"
NextOnly == /\ Serving /\ run.pc = "nextonly"
            /\ Step([run EXCEPT !.pc = "done", !.nnext = @ + 1, !.nextAt = Len(run.calls), !.resp = InnerResp(run), !.ret = InnerRet4(run)])
\* headers := h.filterProxiedHeaders(r.Header)
Filter == /\ Serving /\ run.pc = "filter"
          /\ Step([run EXCEPT !.pc = "rule", !.fwd = Restrict(run.hdr, Proxied), !.ri = 1])
\* for _, rule := range h.Rules { matches := ... }
RuleStep == /\ Serving /\ run.pc = "rule"
            /\ IF run.ri > Len(rules) THEN Step([run EXCEPT !.pc = "next"])
               ELSE IF RuleMatches(run.path, rules[run.ri].path) /\ rules[run.ri].res # <<>>
                    THEN Step([run EXCEPT !.pc = "res", !.si = 1])
                    ELSE Step([run EXCEPT !.ri = @ + 1])
\* pushErr := pusher.Push(resource.Path, &http.PushOptions{Method, Header: mergeHeaders(headers, resource.Header)})
PushRes == /\ Serving /\ run.pc = "res"
           /\ LET r == rules[run.ri].res[run.si]
                  h == Merge(run.fwd, r.h)
                  res == PusherResult(run.w, Len(run.calls) + 1, run.script, r.t, h)
                  cs == Append(run.calls, Call("rule", r.m, r.t, h, res))
              IN  IF res # "ok" THEN Step([run EXCEPT !.calls = cs, !.pc = "next"])                 \* break outer
                  ELSE IF run.si < Len(rules[run.ri].res) THEN Step([run EXCEPT !.calls = cs, !.si = @ + 1])
                  ELSE Step([run EXCEPT !.calls = cs, !.pc = "rule", !.ri = @ + 1])
\* code, err := h.Next.ServeHTTP(w, r) ; if links, exists := w.Header()["Link"]; exists
CallNext == /\ Serving /\ run.pc = "next"
            /\ Step([run EXCEPT !.nnext = @ + 1, !.nextAt = Len(run.calls), !.resp = InnerResp(run), !.ret = InnerRet4(run),
                                !.li = 1, !.pc = IF run.inner.links = <<>> THEN "ret" ELSE "line"])
\* for _, resource := range resources { for _, resource := range parseLinkHeader(resource) {
LinkLine == /\ Serving /\ run.pc = "line"
            /\ IF run.li > Len(run.inner.links) THEN Step([run EXCEPT !.pc = "ret"])
               ELSE Step([run EXCEPT !.ents = ParseLink(run.inner.links[run.li]), !.ei = 1, !.pc = "entry"])
LinkEntry == /\ Serving /\ run.pc = "entry"
             /\ IF run.ei > Len(run.ents) THEN Step([run EXCEPT !.pc = "line", !.li = @ + 1])
                ELSE LET e == run.ents[run.ei] IN
                     IF NoPush(e) \/ IsRemote(e.uri) THEN Step([run EXCEPT !.ei = @ + 1])          \* continue
                     ELSE LET res == PusherResult(run.w, Len(run.calls) + 1, run.script, e.uri, run.fwd)
                              cs == Append(run.calls, Call("link", "GET", e.uri, run.fwd, res))
                          IN  IF res # "ok" THEN Step([run EXCEPT !.calls = cs, !.pc = "ret"])      \* break outer
                              ELSE Step([run EXCEPT !.calls = cs, !.ei = @ + 1])
Return == /\ Serving /\ run.pc = "ret"
          /\ Step([run EXCEPT !.pc = "done"])

\* net/http: every accepted Push starts a handler for the promised request on a pushed stream, with the header it was
\* given (the marker included, if it arrived). Requests promised for another authority leave this site.
Promised(c) == c.res = "ok" /\ PromAuthority(c.t) = "self"
FinishTop == /\ pc = "serve" /\ run.lvl = "top" /\ run.pc = "done"
             /\ top' = run /\ run' = NoRun /\ kq' = 1 /\ pc' = "kids"
             /\ UNCHANGED <<site, setupVars, rq, kids>>
NextKid == {k \in kq..Len(top.calls) : Promised(top.calls[k])}
KidStart == /\ pc = "kids" /\ run.lvl = "none"
            /\ IF NextKid = {} THEN /\ pc' = "done" /\ UNCHANGED <<run, kq>>
               ELSE LET k == CHOOSE k \in NextKid : \A q \in NextKid : k <= q
                        c == top.calls[k]
                    IN  /\ run' = NewRun("kid", PromPathU(c.t), "h2p", c.h, InnerFS, "none", k)
                        /\ kq' = k + 1 /\ pc' = "serve"
            /\ UNCHANGED <<site, setupVars, rq, top, kids>>
FinishKid == /\ pc = "serve" /\ run.lvl = "kid" /\ run.pc = "done"
             /\ kids' = Append(kids, run) /\ run' = NoRun /\ pc' = "kids"
             /\ UNCHANGED <<site, setupVars, rq, top, kq>>
Next == \/ \E id \in 1..NPool : AddLine(id)
        \/ StartSetup \/ ParseLine \/ ParseItem \/ CloseLine \/ Finalize
        \/ StartRequest \/ CheckPusher \/ CheckGuard \/ NextOnly \/ Filter \/ RuleStep \/ PushRes \/ CallNext
        \/ LinkLine \/ LinkEntry \/ Return \/ FinishTop \/ KidStart \/ FinishKid
Spec == Init /\ [][Next]_vars

-----------------------------------------------------------------------------
(* 7. the guarantees, written from the lines / the response as they stand *)

\* ---- setup
SetupRejectsIffInvalid ==
    pc \in {"ready", "refused"} =>
        /\ (pc = "refused") <=> \E q \in 1..Len(site) : LineInvalid(Pool[site[q]])
        /\ pc = "refused" => rmap = <<>> /\ rules = <<>> /\ err # ""            \* nothing of a refused site is kept
RECURSIVE WrittenFrom(_, _)
WrittenFrom(P, q) == IF q > Len(site) THEN <<>>
                     ELSE (IF LinePath(Pool[site[q]]) = P THEN LineResources(Pool[site[q]]) ELSE <<>>) \o WrittenFrom(P, q + 1)
\* one rule per written path (no path = "/"); its resources are those of all its lines, in written order, each with the
\* method / header lines of ITS line; every resource carries the marker
RulesAsWritten ==
    pc = "ready" =>
        /\ {rules[i].path : i \in 1..Len(rules)} = {LinePath(Pool[site[q]]) : q \in 1..Len(site)}
        /\ \A i, j \in 1..Len(rules) : i # j => rules[i].path # rules[j].path
        /\ \A i \in 1..Len(rules) : rules[i].res = WrittenFrom(rules[i].path, 1)
        /\ \A i \in 1..Len(rules) : \A j \in 1..Len(rules[i].res) : Marker \in DOMAIN rules[i].res[j].h /\ rules[i].res[j].m \in {"GET", "HEAD"}

\* ---- one ServeHTTP call, judged at the moment it returns
RunDone == pc = "serve" /\ run.lvl # "none" /\ run.pc = "done"
FwdOf(r) == Restrict(r.hdr, Proxied)
RECURSIVE RuleT(_, _)
RuleT(r, i) == IF i > Len(rules) THEN <<>>
               ELSE (IF RuleMatches(r.path, rules[i].path)
                     THEN [j \in 1..Len(rules[i].res) |-> [ph |-> "rule", m |-> rules[i].res[j].m, t |-> rules[i].res[j].t,
                                                            h |-> Merge(FwdOf(r), rules[i].res[j].h)]]
                     ELSE <<>>) \o RuleT(r, i + 1)
RECURSIVE EntT(_, _)
EntT(r, es) == IF es = <<>> THEN <<>>
               ELSE (IF NoPush(Head(es)) \/ IsRemote(Head(es).uri) THEN <<>>
                     ELSE <<[ph |-> "link", m |-> "GET", t |-> Head(es).uri, h |-> FwdOf(r)]>>) \o EntT(r, Tail(es))
RECURSIVE LineT(_, _)
LineT(r, i) == IF i > Len(r.inner.links) THEN <<>> ELSE EntT(r, ParseLink(r.inner.links[i])) \o LineT(r, i + 1)
\* what is asked of the Pusher stops in each phase with the first call it refuses
RECURSIVE Cut(_, _, _)
Cut(r, ts, base) == IF ts = <<>> THEN <<>>
                    ELSE LET x == Head(ts)
                             res == PusherResult(r.w, base + 1, r.script, x.t, x.h)
                         IN  <<Call(x.ph, x.m, x.t, x.h, res)>> \o (IF res # "ok" THEN <<>> ELSE Cut(r, Tail(ts), base + 1))
Expected(r) == IF r.w = "h1" \/ Marker \in DOMAIN r.hdr THEN <<>>
               ELSE LET a == Cut(r, RuleT(r, 1), 0) IN a \o Cut(r, LineT(r, 1), Len(a))
\* PushedSetExact: the calls made to the Pusher - method, target, header, in order - are the resources of every matching
\* rule in slice order, then the references of the response's Link lines in header order that carry no nopush and do not
\* name another origin; no target is left out, none is added, nothing is de-duplicated (a target named twice is pushed twice)
PushedSetExact == RunDone => run.calls = Expected(run)
\* rule pushes are requested before the wrapped handler runs (before the first byte of the response can leave), link
\* pushes after it has returned (they cannot be earlier: the header is the handler's)
RulePushesBeforeNext == RunDone => \A k \in 1..Len(run.calls) : (run.calls[k].ph = "rule") <=> (k <= run.nextAt)
NoPushWhenUnsupported ==
    RunDone => /\ run.w = "h1" => run.calls = <<>>
               /\ run.w = "h1w" => /\ \A k \in 1..Len(run.calls) : run.calls[k].res = "notsupported"
                                   /\ Cardinality({k \in 1..Len(run.calls) : run.calls[k].ph = "rule"}) <= 1
                                   /\ Cardinality({k \in 1..Len(run.calls) : run.calls[k].ph = "link"}) <= 1
MainResponseUnaltered == RunDone => run.nnext = 1 /\ run.resp = InnerResp(run) /\ run.ret = InnerRet4(run)
AllEntries(r) == UNION { {ParseLink(r.inner.links[i])[q] : q \in 1..Len(ParseLink(r.inner.links[i]))} : i \in 1..Len(r.inner.links) }
\* LinkSemantics: a link push is a GET of a reference found between < and > of the response's Link header, not marked nopush,
\* not naming another origin however the scheme is spelled, with exactly the forwarded request headers.
\* (rel is NOT looked at: </x>; rel=prefetch and a bare </x> are pushed as well - pinned by the package's own tests.)
LinkSemantics ==
    RunDone => \A k \in 1..Len(run.calls) : run.calls[k].ph = "link" =>
                  /\ run.calls[k].m = "GET" /\ run.calls[k].h = FwdOf(run)
                  /\ ~AnyCaseRemote(run.calls[k].t)
                  /\ \E e \in AllEntries(run) : e.uri = run.calls[k].t /\ "nopush" \notin e.keys
\* PushErrorsContained: whatever the Pusher answers, the wrapped handler runs once and its result is handed back (see
\* MainResponseUnaltered); in each phase the first refusal is the last call
PushErrorsContained ==
    RunDone => \A k \in 1..Len(run.calls) : run.calls[k].res # "ok" =>
                  \/ k = Len(run.calls)
                  \/ (run.calls[k].ph = "rule" /\ run.calls[k + 1].ph = "link")
\* ClientCannotSuppressOrForge, as far as the code goes: the only request headers that reach a promised request are the
\* five forwarded ones, verbatim; never Cookie / Authorization / anything else of the client's (a `header` line of the
\* operator's is another matter); WHAT is pushed does not depend on the client's header at all - except that a client that
\* sends X-Push (or, over HTTP/2, a host field) gets no pushes: it can switch off pushes to itself, nothing more.
MT(cs) == [k \in 1..Len(cs) |-> <<cs[k].m, cs[k].t>>]
OperatorNames == UNION { UNION { DOMAIN rules[i].res[j].h : j \in 1..Len(rules[i].res) } : i \in 1..Len(rules) }
ClientCannotSuppressOrForge ==
    RunDone /\ run.lvl = "top" =>
        /\ \A k \in 1..Len(run.calls) :
              /\ (DOMAIN run.calls[k].h) \subseteq (Proxied \cap DOMAIN run.hdr) \cup (IF run.calls[k].ph = "rule" THEN OperatorNames ELSE {})
              /\ \A n \in (DOMAIN run.calls[k].h) \ OperatorNames : run.calls[k].h[n] = run.hdr[n]
        /\ Marker \in DOMAIN run.hdr => run.calls = <<>>
        /\ "Host" \in DOMAIN run.hdr => \A k \in 1..Len(run.calls) : run.calls[k].res # "ok"
        /\ Marker \notin DOMAIN run.hdr /\ "Host" \notin DOMAIN run.hdr => MT(run.calls) = MT(Expected([run EXCEPT !.hdr = NoHdr]))
\* NoPushOnPushed: a promised request never gets a push accepted (net/http refuses on a pushed stream, the refusal is
\* contained); a request promised by a RULE carries the marker and does not even ask; rules that cover their own
\* resources (push /a /a.css) therefore do not loop
GuardMarkerArrives == RunDone /\ run.lvl = "top" => \A k \in 1..Len(run.calls) : run.calls[k].ph = "rule" => Marker \in DOMAIN run.calls[k].h
NoPushOnPushed ==
    RunDone /\ run.lvl = "kid" =>
        /\ \A k \in 1..Len(run.calls) : run.calls[k].res = "recursive"
        /\ Marker \in DOMAIN run.hdr => run.calls = <<>>
        /\ top.calls[run.of].ph = "rule" => run.calls = <<>>
        /\ Len(run.calls) <= 1                                                   \* no link phase here: the file server sets no Link

TypeOK == /\ pc \in {"build", "line", "item", "refused", "ready", "serve", "kids", "done"}
          /\ Len(site) <= MaxLines /\ \A q \in 1..Len(site) : site[q] \in 1..NPool
          /\ run.lvl \in {"none", "top", "kid"}
          /\ run.lvl # "none" => run.pc \in {"pusher", "guard", "nextonly", "filter", "rule", "res", "next", "line", "entry", "ret", "done"}
          /\ pc \in {"serve", "kids", "done"} => rules # <<>>

\* ---- action properties
SameRun == run.lvl # "none" /\ run'.lvl = run.lvl /\ run'.of = run.of
SiteFrozenWhileServing == [][(pc \in {"serve", "kids"} => UNCHANGED <<site, rules, rq>>)]_vars
CallsOnlyGrow == [][(SameRun => (\/ run'.calls = run.calls
                                 \/ Len(run'.calls) = Len(run.calls) + 1 /\ SubSeq(run'.calls, 1, Len(run.calls)) = run.calls))]_vars
ResponseOnlyByNext == [][(SameRun /\ (run'.resp # run.resp \/ run'.ret # run.ret \/ run'.nnext # run.nnext)
                            => run.pc \in {"next", "nextonly"} /\ run'.nnext = run.nnext + 1)]_vars
LoopsInOrder == [][(SameRun => (/\ run'.ri >= run.ri /\ run'.li >= run.li
                                /\ (run.pc = "res" /\ run'.pc = "res" => run'.si = run.si + 1 /\ run'.ri = run.ri)
                                /\ (run.pc = "entry" /\ run'.pc = "entry" => run'.ei = run.ei + 1 /\ run'.li = run.li)))]_vars
RulePhaseFirst == [][(SameRun /\ Len(run'.calls) > Len(run.calls)
                        => (run'.calls[Len(run'.calls)].ph = "rule" <=> run.nnext = 0))]_vars
\* nothing gets stuck: every state that is not final has a successor
NoStuck == pc \in {"done", "refused", "build"} \/ ENABLED Next

-----------------------------------------------------------------------------
(* 8. emission: one CASE per site that was set up, one per served request (the calls expected of the real middleware) *)

SetToSeq(S) == LET RECURSIVE F(_) F(T) == IF T = {} THEN <<>> ELSE LET y == CHOOSE y \in T : TRUE IN <<y>> \o F(T \ {y}) IN F(S)
ItemJson(it) == [k |-> it.k, a |-> it.a]
LineJson(l) == [hp |-> l.hp, p |-> StrOf(l.p), inl |-> l.inl, blk |-> [j \in 1..Len(l.blk) |-> ItemJson(l.blk[j])]]
ResJson(r) == [t |-> r.t, m |-> r.m, h |-> r.h]
CallJson(c) == [ph |-> c.ph, m |-> c.m, t |-> c.t, h |-> c.h, res |-> c.res,
                auth |-> IF c.res = "ok" THEN PromAuthority(c.t) ELSE "", ppath |-> IF c.res = "ok" THEN StrOf(PromPathU(c.t)) ELSE ""]
EntJson(e) == [uri |-> e.uri, keys |-> SetToSeq(e.keys)]
EmitSite == PrintT(<<"CASE", ToJson([kind |-> "site", ids |-> site, ok |-> pc = "ready", err |-> err,
                lines |-> [q \in 1..Len(site) |-> LineJson(Pool[site[q]])],
                rules |-> SetToSeq({[path |-> StrOf(P), res |-> [j \in 1..Len(rmap[P]) |-> ResJson(rmap[P][j])]] : P \in DOMAIN rmap})])>>)
EmitRun == PrintT(<<"CASE", ToJson([kind |-> "run", ids |-> site, order |-> [i \in 1..Len(rules) |-> StrOf(rules[i].path)],
                path |-> StrOf(rq.path), w |-> rq.w, ch |-> rq.ch, hdr |-> ClientHdrs[rq.ch], mode |-> rq.inner.mode,
                links |-> rq.inner.links, script |-> rq.script,
                parsed |-> [i \in 1..Len(rq.inner.links) |-> [q \in 1..Len(ParseLink(rq.inner.links[i])) |-> EntJson(ParseLink(rq.inner.links[i])[q])]],
                calls |-> [k \in 1..Len(top.calls) |-> CallJson(top.calls[k])], next_at |-> top.nextAt, ret |-> top.ret,
                kids |-> [k \in 1..Len(kids) |-> [of |-> kids[k].of, path |-> StrOf(kids[k].path), marked |-> Marker \in DOMAIN kids[k].hdr,
                                                  calls |-> [q \in 1..Len(kids[k].calls) |-> CallJson(kids[k].calls[q])]]]])>>)
Emit == /\ (pc = "ready" \/ pc = "refused" => EmitSite)
        /\ (pc = "done" => EmitRun)
=============================================================================
