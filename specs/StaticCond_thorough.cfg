\* thorough: every relation of a sibling to the original, three sites, 8 Accept-Encoding values
CONSTANT Repaired412 = TRUE
CONSTANT RepairedRange = TRUE
CONSTANT TagPerCoding = TRUE
CONSTANT Fams = {"C", "R", "X", "T"}
CONSTANT RelSet = {"older", "same", "newer"}
CONSTANT UseCommon = TRUE
CONSTANT SiteNames = {"plain", "gzip", "gzipmin"}
CONSTANT AENames = {"absent", "gzip", "br", "zstd", "br, gzip", "gzip, br, zstd", "gzip;q=0.5", "zstd, gzip;q=0"}
CONSTANT AEXNames = {"absent", "gzip", "br", "zstd", "br, gzip", "gzip, br, zstd", "gzip;q=0.5", "zstd, gzip;q=0"}
CONSTANT Changes = {"none", "orig", "sel", "delsel", "addzst"}
CONSTANT Conds = {"none", "inm", "ims", "imsold", "im", "imbogus", "ius", "iusold"}
CONSTANT Rngs = {"none", "r2_11", "r5_", "rm7", "r0_0", "r10_999", "multi", "r999_"}
SPECIFICATION Spec
INVARIANT TypeOK
INVARIANT ValidatorPerRepresentation
INVARIANT ConditionalConsistent
INVARIANT DateConsistent
INVARIANT DateRangeSafe
INVARIANT PreconditionConsistent
INVARIANT RangeOfSelectedRepresentation
INVARIANT IfRangeSafe
INVARIANT HeadEqualsGet
INVARIANT LengthCorrect
INVARIANT VaryWhenNegotiated
INVARIANT TypeAndCoding
INVARIANT NoBodyWhenNotAllowed
INVARIANT FirstIsFull
INVARIANT Emit
CHECK_DEADLOCK FALSE
