CONSTANTS MaxOps = 6
 MaxLive = 2
 CfgNames = {"none", "none2", "sb", "sn", "db", "dn", "cb", "cn", "sf", "sx", "snx", "snf", "mix", "mix2"}
 MaxSigs = 3
 EarlyRestart = TRUE
SPECIFICATION TSpec
CONSTRAINT Constr
INVARIANTS TypeOK EachHookOncePerEmission FailedLoadKeepsRegistry RegistryExplained Usr1LeavesOnlyNew LoadAddsOwnHooks InstanceStartupExact RestartEventScope ShutdownAtMostOnce StartupOnce CertRenewOnlyForRenewal BlockingWaits
POSTCONDITION Accepted
CHECK_DEADLOCK FALSE
