CONSTANTS MaxLines = 2
 MaxArgs = 2
 NEG_SIZE_OK = FALSE
SPECIFICATION Spec
INVARIANTS Defaults LastWins RejectedIff EffectiveLimitPositive Emit
PROPERTIES Terminates
CHECK_DEADLOCK FALSE
