CONSTANTS MaxReloads = 1000000
 MaxReqs = 1000000
 Addrs = {"p1", "p2"}
SPECIFICATION TSpec
CONSTRAINT Constr
INVARIANTS NeverRefused AfterReturnNew FailedKeepsOld AtMostTwo
POSTCONDITION Accepted
CHECK_DEADLOCK FALSE
