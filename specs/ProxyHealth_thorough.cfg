CONSTANTS NOpts = {1, 2}
 NReq = 1
 Modes = {"ok", "s500", "nobody"}
 MaxRounds = 2
 MaxSets = 1
 MaxEnv = 1
 MaxCalls = 1
 MaxSteps = 0
 FailsOpts = {1}
 ConnsOpts = {0, 1}
 RetryOpts = {TRUE}
 ContainsOpts = {TRUE, FALSE}
 HCOpts = {TRUE, FALSE}
 Fixed = TRUE
SPECIFICATION Spec
VIEW view
INVARIANTS TypeOK FlagIsLastProbe AfterRound RoundCoversAll ChangeSeenByNextRound RecoveredUsedAgain AvailDef FailsExact NoWorkerWithoutHC StoppedMeansDead NoRoundAfterStop
PROPERTIES SelectSound
CHECK_DEADLOCK FALSE
