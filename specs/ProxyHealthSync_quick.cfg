CONSTANTS NOpts = {1, 2, 3}
 NReq = 1
 Modes = {"ok", "s399", "s400", "s500", "nobody", "timeout", "reset"}
 MaxRounds = 1000
 MaxSets = 1000
 MaxEnv = 1000
 MaxCalls = 1000
 MaxSteps = 20
 FailsOpts = {1, 2}
 ConnsOpts = {0, 1}
 RetryOpts = {TRUE, FALSE}
 ContainsOpts = {TRUE, FALSE}
 HCOpts = {TRUE, FALSE}
 Fixed = TRUE
SPECIFICATION SpecSync
INVARIANTS TypeOK FlagIsLastProbe RoundCoversAll ChangeSeenByNextRound RecoveredUsedAgain AvailDef FailsExact NoWorkerWithoutHC Emit
CHECK_DEADLOCK FALSE
