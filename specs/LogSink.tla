------------------------------ MODULE LogSink ------------------------------
(***************************************************************************)
(* C20 extension - where access-log and error-log entries END UP over the  *)
(* life of a process: shared log files, rotation, reloads.                 *)
(* (LogScope.tla decides WHICH logs get an entry for one request on a      *)
(* running site; this module follows the entry into the file system.)      *)
(*                                                                         *)
(* Operational part, one action per step the code takes:                   *)
(*  - caskethttp/log/setup.go, caskethttp/errors/setup.go: every `log` /   *)
(*    `errors` directive owns one httpserver.Logger; Logger.Attach puts    *)
(*    Logger.Start on the instance's OnStartup list and Logger.Close on    *)
(*    its OnShutdown list.  Directives are executed directive-major        *)
(*    (casket.go executeDirectives: every `log` of every site before any   *)
(*    `errors`), so that is the order of both lists (AttachSeq).           *)
(*  - casket.go Start / Instance.Restart / Instance.Stop+ShutdownCallbacks *)
(*    as far as the sinks see them (Lifecycle.tla has the whole story):    *)
(*    Load, Attach (one Logger.Start), AttachDone, Reject | Serve, StopOld *)
(*    (old listeners closed, drain begins), Drain (http.Server.Shutdown    *)
(*    returns: nothing in flight, or the grace period is over), Close (one *)
(*    Logger.Close), CloseDone, Ret.  The NEW instance's startup callbacks *)
(*    run BEFORE the old instance's shutdown callbacks.                    *)
(*  - httpserver/logger.go Logger.Start: the file is opened (created) and  *)
(*    closed again.  With rotate_disable the writer is the Logger's own    *)
(*    plainFile (O_APPEND, opened by the first Write); otherwise roller.go *)
(*    GetLogWriter hands out THE rolling writer of that file: a            *)
(*    process-global map keyed by the absolute file name, never pruned -   *)
(*    shared by every site and directive naming the file, by the old and   *)
(*    the new instance of a reload, and by every later start in the        *)
(*    process.  The settings of the writer are those of the Logger that    *)
(*    created the map entry.                                               *)
(*  - Logger.Close: closes the handle / calls lumberjack's Close on the    *)
(*    SHARED writer (no reference count).  Both writers re-open for a      *)
(*    Write after Close (lumberjack: openExistingOrNew), which is what     *)
(*    keeps the new instance of a reload logging after the old instance's  *)
(*    shutdown callback closed the file under its feet (REOPEN); the       *)
(*    plainFile closes again right after such a late entry.                *)
(*  - Logger.Println -> log.Logger.Output: the entry is formatted into a   *)
(*    buffer and handed to the writer with ONE Write call; a Write error   *)
(*    is discarded.  lumberjack.Logger.Write (one critical section of its  *)
(*    mutex = action Write): open if closed, rotate if the entry does not  *)
(*    fit (close, rename to a time-stamped backup, open new, wake the mill *)
(*    goroutine), write.  MillRun: the mill goroutine removes the oldest   *)
(*    backups beyond rotate_keep (0 = keep all).                           *)
(*  - requests: Begin / End bracket a request in flight on an instance     *)
(*    (what the drain waits for); Write is one entry reaching one sink.    *)
(*    Which sinks a request reaches, and per-connection order, are judged  *)
(*    by LogScope.tla / the harness on the file contents.                  *)
(*                                                                         *)
(* Sizes are counted in entries: the binding pads every entry to one fixed *)
(* length B with CapUnit*B <= 1 MB < (CapUnit+1)*B, so "does not fit" is   *)
(* n + 1 > size * CapUnit both in Write (>) and in openExistingOrNew (>=). *)
(*                                                                         *)
(* Deviation of the code as found from the declarative part (repaired in   *)
(* /repo; the constant is FALSE in the cfgs of the pipeline):              *)
(*  - EAGER_RAW: Logger.Start kept the handle it opened as the writer of a *)
(*    rotate_disable sink.  (a) A load that is rejected after its startup  *)
(*    callbacks ran (a later callback fails, a port is in use) never runs  *)
(*    the shutdown callbacks of the rejected instance: the handle stayed   *)
(*    open for the life of the process.  (b) A request that outlives the   *)
(*    grace period of a reload or stop writes its entry after Logger.Close *)
(*    - the handle answered `file already closed`, which log.Logger        *)
(*    discards: the entry was lost without a trace.                        *)
(* Hypothetical breakages, for showing that the properties are not vacuous *)
(* (cfgs LogSink_noreopen, LogSink_split; LogSink_asfound for EAGER_RAW;   *)
(* none of them in the pipeline): REOPEN = FALSE (Close of the shared      *)
(* writer is final), SPLIT_WRITE (an entry reaches the writer in two Write *)
(* calls).                                                                 *)
(***************************************************************************)
EXTENDS Integers, Sequences, FiniteSets, TLC, Json

CONSTANTS CfgNames,      \* the configurations of CfgTable used
          OpTypes,       \* the operation types used ("usr1" = reload through the signal handler: same steps)
          MaxOps,        \* length of the histories
          MaxWrites,     \* entries written in a history
          MaxConc,       \* requests in flight per instance
          CapUnit,       \* entries that fit into 1 MB (the unit of rotate_size)
          GRACE,         \* the grace period of a reload / stop may end with a request in flight
          EAGER_RAW, REOPEN, SPLIT_WRITE

\* ---- configurations ------------------------------------------------------------------------
\* files f1, f2 are rolled (the default), r1 is written with rotate_disable; a file has one mode
\* in every configuration that names it (mixing the modes on one file is outside the model)
RollFiles == {"f1", "f2"}
RawFiles == {"r1"}
Files == RollFiles \cup RawFiles
L(f, sz, kp) == [kind |-> "log", file |-> f, size |-> sz, keep |-> kp]
E(f, sz, kp) == [kind |-> "errors", file |-> f, size |-> sz, keep |-> kp]
\* a configuration = sites in Casketfile order, a site = its sinks in written order
CfgTable ==
    [ one   |-> << <<L("f1", 1, 1)>> >>,
      big   |-> << <<L("f1", 2, 2)>> >>,                          \* the same file with other settings
      share |-> << <<L("f1", 1, 2)>>, <<L("f1", 2, 1)>> >>,        \* two sites, one file, different settings
      erfst |-> << <<E("f1", 2, 1)>>, <<L("f1", 1, 2)>> >>,        \* errors written first; the later site's log attaches first
      both  |-> << <<L("f1", 1, 1), E("f1", 2, 2)>> >>,            \* access and error log of one site in one file
      two   |-> << <<L("f1", 1, 1), L("f2", 1, 0)>> >>,            \* two files; keep 0 = every backup is kept
      twin  |-> << <<L("f2", 2, 1), L("f2", 1, 2)>> >>,            \* two directives of one site, one file
      raw   |-> << <<L("r1", 0, 0)>> >>,
      raw2  |-> << <<L("r1", 0, 0)>>, <<L("r1", 0, 0), E("r1", 0, 0)>> >>,
      rawf  |-> << <<L("r1", 0, 0), L("f1", 1, 1)>> >> ]
Cfg(c) == CfgTable[c]
Sinks(c) == UNION {{<<s, i>> : i \in 1..Len(Cfg(c)[s])} : s \in 1..Len(Cfg(c))}
SinkAt(c, p) == Cfg(c)[p[1]][p[2]]
Before(p, q) == p[1] < q[1] \/ (p[1] = q[1] /\ p[2] < q[2])
RECURSIVE SortPairs(_)
SortPairs(S) == IF S = {} THEN << >>
                ELSE LET m == CHOOSE p \in S : \A q \in S \ {p} : Before(p, q) IN <<m>> \o SortPairs(S \ {m})
\* the order of the OnStartup / OnShutdown lists: directive-major, `log` before `errors`
AttachSeq(c) == SortPairs({p \in Sinks(c) : SinkAt(c, p).kind = "log"})
                \o SortPairs({p \in Sinks(c) : SinkAt(c, p).kind = "errors"})
Cap(sz) == sz * CapUnit

Gens == 1..MaxOps
NoGen == 0
Fails == {"none", "early", "late"}      \* early: parse / setup; late: after the startup callbacks
Ops == [t : OpTypes \cap {"start", "reload", "usr1"}, c : CfgNames, f : Fails]
       \cup [t : OpTypes \cap {"stop"}, c : {"-"}, f : {"none"}]
NoOp == [t |-> "none", c |-> "-", f |-> "none"]
NoLj == [made |-> FALSE, size |-> 0, keep |-> 0, open |-> FALSE, n |-> 0, app |-> FALSE]
States == {"unused", "loading", "serving", "draining", "drained", "stopped", "rejected"}

VARIABLES
    hist, op, pc, k,   \* history, operation in progress, controller step, loop index
    g, old,            \* the instance the operation creates / the instance it stops (NoGen: none)
    inst,              \* [gen -> [cfg, st]]
    att, cls,          \* loggers (<<gen, site, idx>>) whose Start / Close has run
    lj,                \* roller.go `lumberjacks` + the lumberjack.Logger behind each entry
    rawopen,           \* loggers whose own O_APPEND handle (rotate_disable) is open
    cur, bk,           \* file system: the current file and its backups (oldest first), as pieces <<id, "a"|"b">>
    gone, dropped,     \* <<file, id>> removed by the mill / entries whose Write failed (history variables)
    late,              \* ids written by a logger after its Close (history variable)
    clob,              \* a write that did not land at the end of its file happened (history variable)
    mill,              \* [file -> the mill goroutine has been woken and has not run yet]
    infl,              \* [gen -> requests in flight]
    nw,                \* entries handed to a writer so far (their ids)
    half,              \* SPLIT_WRITE: the entry whose second piece is still to be written
    graceOn            \* = GRACE (a variable so that the trace spec can set it per trace)

ctl == <<hist, op, pc, k, g, old>>
fs == <<cur, bk, gone, dropped, late, clob, mill, nw, half>>
vars == <<ctl, inst, att, cls, lj, rawopen, fs, infl, graceOn>>

NoInst == [cfg |-> "-", st |-> "unused"]
NoHalf == [f |-> "-", id |-> 0, lg |-> <<0, 0, 0>>]

Init ==
    /\ hist = << >> /\ op = NoOp /\ pc = "idle" /\ k = 0 /\ g = NoGen /\ old = NoGen
    /\ inst = [x \in Gens |-> NoInst]
    /\ att = {} /\ cls = {}
    /\ lj = [f \in RollFiles |-> NoLj]
    /\ rawopen = {}
    /\ cur = [f \in Files |-> << >>] /\ bk = [f \in Files |-> << >>]
    /\ gone = {} /\ dropped = {} /\ late = {} /\ clob = FALSE
    /\ mill = [f \in RollFiles |-> FALSE]
    /\ infl = [x \in Gens |-> 0]
    /\ nw = 0 /\ half = NoHalf
    /\ graceOn = GRACE

\* ---- helpers -------------------------------------------------------------------------------
Serving == {x \in Gens : inst[x].st = "serving"}
LiveGen == CHOOSE x \in Serving : TRUE
LoggersOf(x) == {<<x, p[1], p[2]>> : p \in Sinks(inst[x].cfg)}
SinkOf(lg) == SinkAt(inst[lg[1]].cfg, <<lg[2], lg[3]>>)
NextGen == Cardinality({j \in 1..Len(hist) : hist[j].t # "stop"})   \* the op in progress is in hist
Entry(id) == << <<id, "a">>, <<id, "b">> >>
Ids(seq) == {seq[j][1] : j \in 1..Len(seq)}
RECURSIVE Flat(_)
Flat(ss) == IF ss = << >> THEN << >> ELSE Head(ss) \o Flat(Tail(ss))
Chain(f) == Flat(bk[f]) \o cur[f]          \* everything the file and its backups hold, oldest first

\* ---- the controller: one history of operations ---------------------------------------------
\* one lineage: start needs no serving instance, the others need one
Applicable(o) ==
    /\ o \in Ops
    /\ IF o.t = "start" THEN Serving = {} ELSE Serving # {}

BeginOp(o) ==
    /\ pc = "idle" /\ Len(hist) < MaxOps /\ Applicable(o)
    /\ hist' = Append(hist, o) /\ op' = o /\ k' = 0
    /\ old' = (IF o.t = "start" THEN NoGen ELSE LiveGen)
    /\ IF o.t = "stop" THEN g' = NoGen /\ pc' = "stopold"
       ELSE g' = NextGen + 1 /\ pc' = "load"
    /\ UNCHANGED <<inst, att, cls, lj, rawopen, fs, infl, graceOn>>

\* parse the Casketfile and execute the directives (setup functions: Logger.Attach)
Load ==
    /\ pc = "load"
    /\ IF op.f = "early" THEN pc' = "fail" /\ UNCHANGED <<inst, k>>
       ELSE /\ inst' = [inst EXCEPT ![g] = [cfg |-> op.c, st |-> "loading"]]
            /\ pc' = "attach" /\ k' = 1
    /\ UNCHANGED <<hist, op, g, old, att, cls, lj, rawopen, fs, infl, graceOn>>

\* logger.go Logger.Start of the k-th logger of the OnStartup list
Attach ==
    /\ pc = "attach" /\ k <= Len(AttachSeq(op.c))
    /\ LET p == AttachSeq(op.c)[k]
           lg == <<g, p[1], p[2]>>
           sk == SinkAt(op.c, p)
           f == sk.file
       IN /\ att' = att \cup {lg}
          /\ IF f \in RawFiles                                     \* os.OpenFile(O_APPEND|O_CREATE), closed again
             THEN /\ rawopen' = (IF EAGER_RAW THEN rawopen \cup {lg} ELSE rawopen)    \* (as found: kept)
                  /\ UNCHANGED lj
             ELSE /\ UNCHANGED rawopen                             \* GetLogWriter:
                  /\ lj' = IF lj[f].made THEN lj                   \* the writer that is there, as it is
                           ELSE [lj EXCEPT ![f] = [NoLj EXCEPT !.made = TRUE, !.size = sk.size, !.keep = sk.keep]]
    /\ k' = k + 1
    /\ UNCHANGED <<hist, op, pc, g, old, inst, cls, fs, infl, graceOn>>

\* the rest of the startup: further callbacks, listeners
AttachDone ==
    /\ pc = "attach" /\ k > Len(AttachSeq(op.c))
    /\ pc' = (IF op.f = "late" THEN "reject" ELSE "serve")
    /\ UNCHANGED <<hist, op, k, g, old, inst, att, cls, lj, rawopen, fs, infl, graceOn>>

\* the load is rejected after the startup callbacks: the instance is discarded; its shutdown
\* callbacks never run (whatever a startup callback left open stays open)
Reject ==
    /\ pc = "reject"
    /\ inst' = [inst EXCEPT ![g].st = "rejected"]
    /\ pc' = "fail"
    /\ UNCHANGED <<hist, op, k, g, old, att, cls, lj, rawopen, fs, infl, graceOn>>

\* (EAGER_RAW) the handle of a rejected instance goes away later, if ever: a finalizer
Reap(lg) ==
    /\ EAGER_RAW /\ lg \in rawopen /\ inst[lg[1]].st = "rejected"
    /\ rawopen' = rawopen \ {lg}
    /\ UNCHANGED <<ctl, inst, att, cls, lj, fs, infl, graceOn>>

Fail ==       \* the operation returns an error; whatever ran before keeps running
    /\ pc = "fail" /\ pc' = "idle" /\ g' = NoGen /\ old' = NoGen
    /\ UNCHANGED <<hist, op, k, inst, att, cls, lj, rawopen, fs, infl, graceOn>>

\* the new instance's servers accept (on the inherited sockets in a reload: old and new both do)
Serve ==
    /\ pc = "serve"
    /\ inst' = [inst EXCEPT ![g].st = "serving"]
    /\ pc' = (IF op.t = "start" THEN "ret" ELSE "stopold")
    /\ UNCHANGED <<hist, op, k, g, old, att, cls, lj, rawopen, fs, infl, graceOn>>

\* Instance.Stop: the old listeners are closed, the drain begins
StopOld ==
    /\ pc = "stopold"
    /\ inst' = [inst EXCEPT ![old].st = "draining"]
    /\ pc' = "drain"
    /\ UNCHANGED <<hist, op, k, g, old, att, cls, lj, rawopen, fs, infl, graceOn>>

\* http.Server.Shutdown returns: nothing in flight any more - or the grace period is over
Drain ==
    /\ pc = "drain"
    /\ infl[old] = 0 \/ graceOn
    /\ inst' = [inst EXCEPT ![old].st = "drained"]
    /\ pc' = "close" /\ k' = 1
    /\ UNCHANGED <<hist, op, g, old, att, cls, lj, rawopen, fs, infl, graceOn>>

\* logger.go Logger.Close of the k-th logger of the old instance's OnShutdown list
Close ==
    /\ pc = "close" /\ k <= Len(AttachSeq(inst[old].cfg))
    /\ LET p == AttachSeq(inst[old].cfg)[k]
           lg == <<old, p[1], p[2]>>
           f == SinkAt(inst[old].cfg, p).file
       IN /\ cls' = cls \cup {lg}
          /\ IF f \in RawFiles
             THEN rawopen' = rawopen \ {lg} /\ UNCHANGED lj
             ELSE /\ UNCHANGED rawopen                    \* lumberjack Close on the SHARED writer
                  /\ lj' = [lj EXCEPT ![f].open = FALSE]
    /\ k' = k + 1
    /\ UNCHANGED <<hist, op, pc, g, old, inst, att, fs, infl, graceOn>>

CloseDone ==
    /\ pc = "close" /\ k > Len(AttachSeq(inst[old].cfg))
    /\ inst' = [inst EXCEPT ![old].st = "stopped"]
    /\ pc' = "ret"
    /\ UNCHANGED <<hist, op, k, g, old, att, cls, lj, rawopen, fs, infl, graceOn>>

Ret ==
    /\ pc = "ret" /\ pc' = "idle" /\ g' = NoGen /\ old' = NoGen
    /\ UNCHANGED <<hist, op, k, inst, att, cls, lj, rawopen, fs, infl, graceOn>>

\* ---- requests ------------------------------------------------------------------------------
Begin(x) ==
    /\ inst[x].st = "serving" /\ infl[x] < MaxConc
    /\ infl' = [infl EXCEPT ![x] = @ + 1]
    /\ UNCHANGED <<ctl, inst, att, cls, lj, rawopen, fs, graceOn>>
End(x) ==
    /\ infl[x] > 0 /\ half.lg[1] # x
    /\ infl' = [infl EXCEPT ![x] = @ - 1]
    /\ UNCHANGED <<ctl, inst, att, cls, lj, rawopen, fs, graceOn>>

\* lumberjack.Logger.Write, one critical section.  Returns the new [lj, cur, bk, mill, ok] for
\* a sequence of pieces ps of one entry (the whole entry, or half of it under SPLIT_WRITE).
\* `whole`: the pieces count as one entry for the size (the second half of a split entry does not)
LjWrite(f, ps, cnt) ==
    LET j == lj[f]
        n0 == IF j.open THEN j.n ELSE Len(cur[f]) \div 2     \* openExistingOrNew: size from stat
        rot == n0 + cnt > Cap(j.size)
    IN IF rot
       THEN [lj |-> [j EXCEPT !.open = TRUE, !.n = cnt, !.app = FALSE],
             cur |-> ps, bk |-> Append(bk[f], cur[f]), mill |-> TRUE, clob |-> FALSE]
       ELSE [lj |-> [j EXCEPT !.open = TRUE, !.n = n0 + cnt, !.app = (IF j.open THEN j.app ELSE TRUE)],
             \* a handle without O_APPEND writes at its own offset (= j.n entries)
             cur |-> cur[f] \o ps, bk |-> bk[f], mill |-> (mill[f] \/ ~j.open),
             clob |-> (~SPLIT_WRITE /\ j.open /\ ~j.app /\ j.n * 2 # Len(cur[f]))]

\* one entry reaches one sink: Logger.Println -> log.Logger.Output -> writer.Write
Write(x, s, i) ==
    /\ infl[x] > 0 /\ nw < MaxWrites
    /\ inst[x].st \in {"serving", "draining", "drained", "stopped"}
    /\ <<s, i>> \in Sinks(inst[x].cfg)
    /\ LET lg == <<x, s, i>>
           f == SinkOf(lg).file
           id == nw + 1
           \* SPLIT_WRITE: the first of two Write calls (an entry that arrives while another one is
           \* between its calls is written whole: enough to show what the split costs)
           split == SPLIT_WRITE /\ half = NoHalf
           ps == IF split THEN << <<id, "a">> >> ELSE Entry(id)
       IN /\ lg \in att
          /\ nw' = id
          /\ late' = (IF lg \in cls THEN late \cup {id} ELSE late)
          /\ half' = (IF split THEN [f |-> f, id |-> id, lg |-> lg] ELSE half)
          /\ IF f \in RawFiles
             THEN /\ UNCHANGED <<lj, bk, mill, clob>>
                  /\ IF EAGER_RAW /\ lg \notin rawopen
                     THEN dropped' = dropped \cup {id} /\ UNCHANGED <<cur, rawopen>>    \* `file already closed`, discarded
                     ELSE /\ cur' = [cur EXCEPT ![f] = @ \o ps]                         \* O_APPEND: at the end
                          /\ rawopen' = (IF lg \in cls THEN rawopen ELSE rawopen \cup {lg})   \* opened on demand; a late entry: closed again
                          /\ UNCHANGED dropped
             ELSE IF lj[f].open \/ REOPEN
                  THEN LET r == LjWrite(f, ps, 1) IN
                       /\ lj' = [lj EXCEPT ![f] = r.lj]
                       /\ cur' = [cur EXCEPT ![f] = r.cur] /\ bk' = [bk EXCEPT ![f] = r.bk]
                       /\ mill' = [mill EXCEPT ![f] = r.mill]
                       /\ clob' = (clob \/ r.clob)
                       /\ UNCHANGED <<dropped, rawopen>>
                  ELSE /\ dropped' = dropped \cup {id}          \* (REOPEN = FALSE) the closed writer refuses
                       /\ UNCHANGED <<lj, cur, bk, mill, clob, rawopen>>
    /\ UNCHANGED <<ctl, inst, att, cls, gone, infl, graceOn>>

\* (SPLIT_WRITE only) the second Write call of the entry
WriteRest ==
    /\ half # NoHalf
    /\ LET f == half.f
           ps == << <<half.id, "b">> >>
       IN IF f \in RawFiles
          THEN /\ cur' = [cur EXCEPT ![f] = @ \o ps] /\ UNCHANGED <<lj, bk, mill, clob>>
          ELSE LET r == LjWrite(f, ps, 0) IN
               /\ lj' = [lj EXCEPT ![f] = r.lj]
               /\ cur' = [cur EXCEPT ![f] = r.cur] /\ bk' = [bk EXCEPT ![f] = r.bk]
               /\ mill' = [mill EXCEPT ![f] = r.mill] /\ clob' = (clob \/ r.clob)
    /\ half' = NoHalf
    /\ UNCHANGED <<ctl, inst, att, cls, lj, rawopen, gone, dropped, late, nw, infl, graceOn>>

\* lumberjack's mill goroutine: remove the oldest backups beyond MaxBackups (0 = keep all)
MillRun(f) ==
    /\ mill[f]
    /\ mill' = [mill EXCEPT ![f] = FALSE]
    /\ LET kp == lj[f].keep
           n == Len(bk[f])
       IN IF kp > 0 /\ n > kp
          THEN /\ gone' = gone \cup {<<f, id>> : id \in Ids(Flat(SubSeq(bk[f], 1, n - kp)))}
               /\ bk' = [bk EXCEPT ![f] = SubSeq(@, n - kp + 1, n)]
          ELSE UNCHANGED <<gone, bk>>
    /\ UNCHANGED <<ctl, inst, att, cls, lj, rawopen, cur, dropped, late, clob, nw, half, infl, graceOn>>

Controller == Load \/ Attach \/ AttachDone \/ Reject \/ Fail \/ Serve \/ StopOld \/ Drain \/ Close \/ CloseDone \/ Ret
Next == \/ \E o \in Ops : BeginOp(o)
        \/ Controller
        \/ \E x \in Gens : Begin(x) \/ End(x) \/ \E s \in 1..3, i \in 1..3 : Write(x, s, i)
        \/ WriteRest
        \/ \E f \in RollFiles : MillRun(f)
        \/ \E lg \in rawopen : Reap(lg)

Spec == Init /\ [][Next]_vars
Fair == /\ WF_vars(Controller) /\ WF_vars(WriteRest)
        /\ \A x \in Gens : WF_vars(End(x))
        /\ \A f \in RollFiles : WF_vars(MillRun(f))
FairSpec == Spec /\ Fair

\* ---- the guarantees ------------------------------------------------------------------------
TypeOK ==
    /\ pc \in {"idle", "load", "attach", "reject", "fail", "serve", "stopold", "drain", "close", "ret"}
    /\ \A x \in Gens : inst[x].st \in States /\ infl[x] \in 0..MaxConc
    /\ att \subseteq Gens \X (1..3) \X (1..3) /\ cls \subseteq att /\ rawopen \subseteq att
    /\ nw \in 0..MaxWrites /\ Len(hist) <= MaxOps
    /\ \A f \in RollFiles : lj[f].n \in 0..(2 * CapUnit) /\ lj[f].size \in 0..2

\* a sequence of pieces consists of whole entries
Whole(seq) == /\ Len(seq) % 2 = 0
              /\ \A j \in 1..(Len(seq) \div 2) : seq[2*j-1][2] = "a" /\ seq[2*j][2] = "b" /\ seq[2*j-1][1] = seq[2*j][1]
\* an entry reaches its file as one contiguous line, whoever else writes to the file, and a
\* rotation never cuts one
OneLineOneWrite == half = NoHalf => \A f \in Files : Whole(cur[f]) /\ \A j \in 1..Len(bk[f]) : Whole(bk[f][j])

CountIn(seq, id) == Cardinality({j \in 1..Len(seq) : seq[j] = <<id, "a">>})
Total(id) == CountIn(Chain("f1"), id) + CountIn(Chain("f2"), id) + CountIn(Chain("r1"), id)
             + Cardinality({f \in Files : <<f, id>> \in gone}) + (IF id \in dropped THEN 1 ELSE 0)
\* every entry is in exactly one place: the current file, a backup, or a backup the mill removed
NoLineLostOrDuplicated == half = NoHalf => \A id \in 1..nw : Total(id) = 1
\* ... and no Write failed (with its error discarded)
NothingDropped == dropped = {}
\* backups in time order followed by the current file = the order of the writes
WriteOrderKept == \A f \in Files : LET c == Chain(f) IN \A a, b \in 1..Len(c) : a < b => c[a][1] <= c[b][1]
\* the mill removes the oldest entries only
PrunedAreOldest == \A q \in gone : \A id \in Ids(Chain(q[1])) : q[2] < id

\* the open handles of a file
Handles(f) == (IF f \in RollFiles THEN (IF lj[f].open THEN {[w |-> <<0, 0, 0>>, app |-> lj[f].app]} ELSE {})
               ELSE {[w |-> lg, app |-> TRUE] : lg \in {r \in rawopen : SinkOf(r).file = f}})
\* never two handles with independent offsets on one file; every write lands at the end of the
\* file; the rolling writer's idea of the size is the size
SharedFileSingleWriter ==
    /\ ~clob
    /\ \A f \in Files : Cardinality(Handles(f)) > 1 => \A h \in Handles(f) : h.app
    /\ \A f \in RollFiles : (lj[f].open /\ half = NoHalf) => lj[f].n * 2 = Len(cur[f])

AtRest == pc = "idle" /\ \A x \in Gens : infl[x] = 0
Users(f) == {lg \in att \ cls : inst[lg[1]].st = "serving" /\ SinkOf(lg).file = f}
\* between operations no handle is open on a file that no serving instance logs to, and every
\* rotate_disable handle is that of a sink of the serving instance.  (The converse - users, hence
\* open - is NOT a property of the design: both writers open on demand, and the shared rolling
\* writer is closed by the old instance's shutdown callback under the new instance's feet.)
ClosedWhenLastUserGone ==
    AtRest => /\ \A f \in Files : Handles(f) # {} => Users(f) # {}
              /\ rawopen \subseteq {lg \in att \ cls : inst[lg[1]].st = "serving"}
\* a serving instance has every one of its loggers started and none closed - whatever loads were
\* rejected, whatever old instance ran its shutdown callbacks meanwhile
ServingHasItsWriters ==
    \A x \in Serving : LoggersOf(x) \subseteq att \ cls
\* nothing is written through a logger after its Close (GRACE = FALSE: the drain waits)
NoWriteToClosed == late = {}

\* whose rotate_* settings a shared file obeys: those of the first sink, in the order of the
\* startup callbacks (AttachSeq), of the first load in the process that got as far as its startup
\* callbacks and names the file - for the life of the process.  A function of the history alone.
Names(c, f) == \E p \in Sinks(c) : SinkAt(c, p).file = f
FirstSinkNaming(c, f) == LET sq == AttachSeq(c)
                             j == CHOOSE a \in 1..Len(sq) : SinkAt(c, sq[a]).file = f /\ \A b \in 1..(a-1) : SinkAt(c, sq[b]).file # f
                         IN SinkAt(c, sq[j])
LoadsNaming(f) == {j \in 1..Len(hist) : hist[j].t # "stop" /\ hist[j].f # "early" /\ Names(hist[j].c, f)}
RollerSettingsOfWhom ==
    \A f \in RollFiles :
        /\ lj[f].made => LET J == LoadsNaming(f)
                             j0 == CHOOSE a \in J : \A b \in J : a <= b
                             sk == FirstSinkNaming(hist[j0].c, f)
                         IN J # {} /\ lj[f].size = sk.size /\ lj[f].keep = sk.keep
        /\ (pc = "idle" /\ LoadsNaming(f) # {}) => lj[f].made

\* rotate_keep is honoured as soon as the mill has run
BackupsBounded == \A f \in RollFiles : ~mill[f] => (lj[f].keep = 0 \/ Len(bk[f]) <= lj[f].keep)
\* a rotation happens exactly when the next entry does not fit: every backup is full, the
\* current file never over the limit; a rotate_disable file is never rotated
RotationExact ==
    ~SPLIT_WRITE =>
      /\ \A f \in RollFiles : lj[f].made =>
            /\ \A j \in 1..Len(bk[f]) : Len(bk[f][j]) = 2 * Cap(lj[f].size)
            /\ Len(cur[f]) <= 2 * Cap(lj[f].size)
      /\ \A f \in RawFiles : bk[f] = << >>

\* liveness (FairSpec): every operation returns, the mill catches up, a split entry completes
OpsComplete == (pc # "idle") ~> (pc = "idle")
MillCatchesUp == \A f \in RollFiles : mill[f] ~> ~mill[f]
=============================================================================
