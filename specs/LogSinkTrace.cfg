CONSTANTS CfgNames = {"one", "big", "share", "erfst", "both", "two", "twin", "raw", "raw2", "rawf"}
 OpTypes = {"start", "reload", "usr1", "stop"}
 MaxOps = 7
 MaxWrites = 100000
 MaxConc = 1
 CapUnit = 8
 GRACE = FALSE
 EAGER_RAW = FALSE
 REOPEN = TRUE
 SPLIT_WRITE = FALSE
SPECIFICATION TSpec
CONSTRAINT Constr
VIEW TView
INVARIANTS TypeOK OneLineOneWrite SharedFileSingleWriter ServingHasItsWriters RollerSettingsOfWhom BackupsBounded RotationExact
POSTCONDITION Accepted
CHECK_DEADLOCK FALSE
