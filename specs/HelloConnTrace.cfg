CONSTANTS
  HelloLens = {0}
  ExtraLens = {0}
SPECIFICATION TSpec
CONSTRAINT Constr
INVARIANT NeverSkewed
INVARIANT SegmentationIndependentAtEnd
POSTCONDITION Accepted
CHECK_DEADLOCK FALSE
