CONSTANTS CfgNames = {"share", "rawf"}
 OpTypes = {"start", "reload", "stop"}
 MaxOps = 3
 MaxWrites = 3
 MaxConc = 1
 CapUnit = 1
 GRACE = TRUE
 EAGER_RAW = FALSE
 REOPEN = TRUE
 SPLIT_WRITE = FALSE
SPECIFICATION Spec
INVARIANTS TypeOK OneLineOneWrite NoLineLostOrDuplicated NothingDropped WriteOrderKept PrunedAreOldest SharedFileSingleWriter ServingHasItsWriters RollerSettingsOfWhom BackupsBounded RotationExact
CHECK_DEADLOCK FALSE
