CONSTANTS NFiles = 2
          NSnips = 1
          Guard = TRUE
          MaxLen = 0
SPECIFICATION Spec
INVARIANT CycleIsError
INVARIANT InclusionPreserved
INVARIANT ChainsRepeatFree
INVARIANT Emit
PROPERTY Terminates
CHECK_DEADLOCK FALSE
