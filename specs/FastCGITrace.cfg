CONSTANTS
  PairSet <- PairsQuick
  BodyLens <- BodiesQuick
  MaxPairs = 2
  MaxChunks = 3
  MaxErr = 1
SPECIFICATION TSpec
CONSTRAINT Constr
INVARIANT RecLenFits
INVARIANT StreamsInOrder
INVARIANT ParamsExact
INVARIANT StdinExact
INVARIANT Delivered
POSTCONDITION Accepted
CHECK_DEADLOCK FALSE
