CONSTANTS MaxB = 2
 MaxOps = 0
 ReqKinds = {"wska", "close"}
 Presets = {TRUE, FALSE}
 Transps = {TRUE}
 MCs = {1}
 Statuses = {101, 403}
 Splits = "all"
 FwdBuffered = TRUE
 FlushOn = TRUE
 CloseDeclined = TRUE
SPECIFICATION Spec
VIEW view
INVARIANTS TypeOK TunnelTransparent NoUpgradeHeadersOnPlainRequests CountedWhileOpen ReturnedMeansClosed DeclinedIsOrdinary DeclinedConnClosed
CHECK_DEADLOCK FALSE
