CONSTANT MaxLogs = 2
CONSTANT SHARED_EXCEPT = FALSE
CONSTANT FIRST_MATCH_ONLY = FALSE
SPECIFICATION Spec
INVARIANT OneLinePerLog
INVARIANT Emit
PROPERTY Terminates
