CONSTANTS CfgNames = {"one", "big", "share", "erfst", "both", "two", "twin", "raw", "raw2", "rawf"}
 OpTypes = {"start", "reload", "usr1", "stop"}
 MaxOps = 5
 MaxWrites = 0
 MaxConc = 1
 CapUnit = 8
 GRACE = FALSE
 EAGER_RAW = FALSE
 REOPEN = TRUE
 SPLIT_WRITE = FALSE
SPECIFICATION HSpec
INVARIANT HEmit
CHECK_DEADLOCK FALSE
