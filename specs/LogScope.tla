------------------------------ MODULE LogScope ------------------------------
(***************************************************************************)
(* C20 - which access logs get a line: path scopes and `except`.           *)
(*                                                                         *)
(* Operational part: caskethttp/log/setup.go logParse (one ParseDirective  *)
(* per `log` directive: appendEntry groups entries by equal path scope;    *)
(* the exception list) and log.go Logger.ServeHTTP (TryRule = one          *)
(* iteration of `for _, rule := range l.Rules`, then the entries are       *)
(* written unless Logger.ShouldLog says no).                               *)
(*                                                                         *)
(* Declarative part (properties.jsonl C20): every request inside a log     *)
(* directive's path scope and not excepted by THAT directive produces      *)
(* exactly one line in that directive's log; otherwise none.               *)
(*                                                                         *)
(* Two deviations of the code from this were found with the model:         *)
(*  - SHARED_EXCEPT (original setup.go): the exception list is one slice   *)
(*    shared by all directives of the site, so `except` of an earlier      *)
(*    directive silences later ones. Repaired in /repo; FALSE here.        *)
(*  - FIRST_MATCH_ONLY (log.go): only the entries of the first rule whose  *)
(*    scope matches are written; a request inside two different scopes is  *)
(*    missing from the second log. Recorded as known finding; the          *)
(*    deviation is the action WriteFirstRuleOnly, disabled in the          *)
(*    property-checking cfg (FIRST_MATCH_ONLY = FALSE).                    *)
(***************************************************************************)
EXTENDS Naturals, Sequences, FiniteSets, TLC, Json

CONSTANTS MaxLogs, SHARED_EXCEPT, FIRST_MATCH_ONLY

\* paths are sequences of one-character strings (byte-prefix effects exist: /a matches /ab)
Scopes  == { <<"/">>, <<"/","a">>, <<"/","a","/","b">>, <<"/","c">> }
Excepts == { <<"/","a","/","x">>, <<"/","c">> }
ReqPaths == { <<"/">>, <<"/","a">>, <<"/","a","b">>, <<"/","a","/","b">>, <<"/","a","/","x">>,
              <<"/","a","/","b","/","y">>, <<"/","c">>, <<"/","d">> }

IsPrefix(p, s) == Len(p) <= Len(s) /\ SubSeq(s, 1, Len(p)) = p
\* httpserver.Path.Matches (lower case, cleaned paths only in this alphabet)
Matches(path, base) == base = <<"/">> \/ IsPrefix(base, path)

Directives == [scope : Scopes, except : {{}} \cup {{e} : e \in Excepts}]
RECURSIVE SeqsUpTo(_)
SeqsUpTo(n) == IF n = 0 THEN {<< >>}
               ELSE LET S == SeqsUpTo(n - 1) IN S \cup {Append(s, d) : s \in {t \in S : Len(t) = n - 1}, d \in Directives}
Sites == SeqsUpTo(MaxLogs) \ {<< >>}

VARIABLES dirs,      \* the `log` directives of the site, in file order
          path,      \* the request path
          pc, i,     \* control; i = directive being parsed / rule being tried
          acc,       \* setup.go: logExceptions
          rules,     \* Logger.Rules: sequence of [scope, entries : Seq([id, exc])]
          nlines     \* lines written per directive (log file)
vars == <<dirs, path, pc, i, acc, rules, nlines>>

Init ==
    /\ dirs \in Sites /\ path \in ReqPaths
    /\ pc = "parse" /\ i = 1 /\ acc = {} /\ rules = << >>
    /\ nlines = [k \in 1..Len(dirs) |-> 0]

\* setup.go: one iteration of `for c.Next()` in logParse
ParseDirective ==
    /\ pc = "parse" /\ i <= Len(dirs)
    /\ LET d == dirs[i]
           exc == IF SHARED_EXCEPT THEN acc \cup d.except ELSE d.except
           e == [id |-> i, exc |-> exc]
           hit == {k \in 1..Len(rules) : rules[k].scope = d.scope}
       IN /\ acc' = acc \cup d.except
          /\ rules' = IF hit = {} THEN Append(rules, [scope |-> d.scope, entries |-> <<e>>])
                      ELSE LET k == CHOOSE k \in hit : TRUE IN [rules EXCEPT ![k].entries = Append(@, e)]
    /\ i' = i + 1
    /\ UNCHANGED <<dirs, path, pc, nlines>>
ParseDone ==
    /\ pc = "parse" /\ i > Len(dirs)
    /\ pc' = "serve" /\ i' = 1
    /\ UNCHANGED <<dirs, path, acc, rules, nlines>>

\* log.go: one iteration of the rule loop of ServeHTTP
TryRule ==
    /\ pc = "serve" /\ i <= Len(rules)
    /\ IF Matches(path, rules[i].scope) THEN pc' = "write" /\ i' = i ELSE pc' = pc /\ i' = i + 1
    /\ UNCHANGED <<dirs, path, acc, rules, nlines>>
NoRule ==      \* no scope matches: the request passes through unlogged
    /\ pc = "serve" /\ i > Len(rules)
    /\ pc' = "done"
    /\ UNCHANGED <<dirs, path, i, acc, rules, nlines>>

ShouldLog(e) == ~ \E x \in e.exc : Matches(path, x)
Written(ruleIdx) ==
    [k \in 1..Len(dirs) |->
        IF \E r \in ruleIdx : \E j \in 1..Len(rules[r].entries) :
              rules[r].entries[j].id = k /\ ShouldLog(rules[r].entries[j])
        THEN nlines[k] + 1 ELSE nlines[k]]
\* intended design: the entries of every rule the request is in scope of
WriteAllMatchingRules ==
    /\ pc = "write" /\ ~FIRST_MATCH_ONLY
    /\ nlines' = Written({r \in 1..Len(rules) : Matches(path, rules[r].scope)})
    /\ pc' = "done"
    /\ UNCHANGED <<dirs, path, i, acc, rules>>
\* deviation (the code as it is): the entries of the first matching rule only
WriteFirstRuleOnly ==
    /\ pc = "write" /\ FIRST_MATCH_ONLY
    /\ nlines' = Written({i})
    /\ pc' = "done"
    /\ UNCHANGED <<dirs, path, i, acc, rules>>

Next == ParseDirective \/ ParseDone \/ TryRule \/ NoRule \/ WriteAllMatchingRules \/ WriteFirstRuleOnly
        \/ (pc = "done" /\ UNCHANGED vars)
Spec == Init /\ [][Next]_vars /\ WF_vars(Next)

\* ---- the property ------------------------------------------------------------------------
Excepted(p, d) == \E x \in d.except : Matches(p, x)
Want(ds, p) == [k \in 1..Len(ds) |-> IF Matches(p, ds[k].scope) /\ ~Excepted(p, ds[k]) THEN 1 ELSE 0]
OneLinePerLog == pc = "done" => nlines = Want(dirs, path)
Terminates == <>(pc = "done")

\* what the deviation writes (for classifying a reproduced mismatch as the known finding)
FirstMatch(ds, p) ==
    LET m == {k \in 1..Len(ds) : Matches(p, ds[k].scope)} IN
    IF m = {} THEN [k \in 1..Len(ds) |-> 0]
    ELSE LET f == CHOOSE k \in m : \A j \in m : k <= j IN
         [k \in 1..Len(ds) |-> IF ds[k].scope = ds[f].scope /\ ~Excepted(p, ds[k]) THEN 1 ELSE 0]

SetToSeq(S) == IF S = {} THEN << >> ELSE << CHOOSE x \in S : TRUE >>
Emit == pc = "done" =>
          PrintT(<<"CASE", ToJson([dirs |-> [k \in 1..Len(dirs) |-> [scope |-> dirs[k].scope, except |-> SetToSeq(dirs[k].except)]],
                                   path |-> path, want |-> Want(dirs, path), firstmatch |-> FirstMatch(dirs, path)])>>)
=============================================================================
