--------------------------- MODULE EventHooksHist ---------------------------
(* Generator of the histories the EventHooks binding executes (harness/cx16events).  The       *)
(* alphabet of EventHooks.tla is too large to enumerate with every configuration (about 400    *)
(* operations per position), so the histories are drawn by `tlc -simulate` (seed = VERIF_SEED): *)
(* an operation is chosen in stages - type, then failure stage, then configuration and         *)
(* position - so that every type and stage is drawn about equally often whatever the number of *)
(* configurations.  Only the variables hist / op / pc / instances of EventHooks are used: the  *)
(* instance list is tracked abstractly (which positions exist) exactly as the operations of    *)
(* EventHooks change it.  Every history ends with an exit script.  A module of its own because *)
(* the driver keeps one case file per module name.                                             *)
EXTENDS EventHooks

Types == {"start", "reload", "usr1", "stop", "validate", "cert", "exit"}
FailsOf(t) == CASE t = "start" -> StartFails [] t = "reload" -> ReloadFails [] t = "usr1" -> Usr1Fails
                [] t = "validate" -> {"none", "onparse", "setup"} [] t = "cert" -> {"renew", "new", "other"}
                [] OTHER -> {"none"}
TypeOk(t) == Applicable([NoOp EXCEPT !.t = t, !.p = 1])
rest2 == <<g, old, inst, reg, snapS, snapU, snapV, emv, cnt, ghost, proc>>
rest == <<k, rest2>>

HInit == Init /\ pc = "boot"

HBoot == pc = "boot" /\ pc' = "idle" /\ UNCHANGED <<hist, op, instances, rest>>

\* stage 1: the type (the last operation is always the exit script)
HType ==
    /\ pc = "idle"
    /\ \E t \in Types :
        /\ TypeOk(t)
        /\ (Len(hist) = MaxOps - 1) => t = "exit"
        /\ (Len(hist) = 0) => t = "start"
        /\ op' = [NoOp EXCEPT !.t = t]
    /\ pc' = "h_f"
    /\ UNCHANGED <<hist, instances, rest>>

\* stage 2: the failure stage / kind.  The simulator picks uniformly among the distinct successor
\* states: the otherwise unused k gives "no failure" three of them, so that success is drawn three
\* times as often as each single failure stage
HFail ==
    /\ pc = "h_f"
    /\ \E f \in FailsOf(op.t) :
        /\ op' = [op EXCEPT !.f = f]
        /\ k' \in (IF f = "none" THEN 0..2 ELSE {0})
    /\ pc' = "h_c"
    /\ UNCHANGED <<hist, instances, rest2>>

Ok(o) == o.f = "none"
Effect(o, lst, ng) ==
    CASE o.t = "start" /\ Ok(o)  -> Append(lst, ng)
      [] o.t = "reload" /\ Ok(o) -> Append(Remove(lst, lst[o.p]), ng)
      [] o.t = "usr1" /\ Ok(o)   -> Append(Tail(lst), ng)
      [] o.t = "stop"            -> Remove(lst, lst[o.p])
      [] OTHER                   -> lst

\* stage 3: configuration, position, exit script; the operation joins the history
HCommit ==
    /\ pc = "h_c"
    /\ \E o \in Ops :
        /\ o.t = op.t /\ o.f = op.f /\ Applicable(o)
        /\ hist' = Append(hist, o)
        /\ instances' = Effect(o, instances, GenCount(hist) + 1)
        /\ op' = o
        /\ pc' = (IF o.t = "exit" THEN "h_done" ELSE "idle")
    /\ UNCHANGED rest

HNext == HBoot \/ HType \/ HFail \/ HCommit
HSpec == HInit /\ [][HNext]_vars

HEmit == /\ (pc = "h_done") => PrintT(<<"CASE", ToJson([ops |-> hist])>>)
         \* the configuration table travels with the histories (one source for both sides)
         /\ (pc = "boot") => PrintT(<<"CASE", ToJson([table |-> [n \in CfgNames |-> CfgTable[n]]])>>)
=============================================================================
