\* quick: every site with <= 1 line, a third of the two-line sites, one in 60 of the three-line sites
CONSTANT MaxRules = 3
CONSTANT Sample2 = 3
CONSTANT Sample3 = 60
CONSTANT BaseMode = "cleaned"
SPECIFICATION Spec
INVARIANT TypeOK
INVARIANT SetupInv
INVARIANT NoSelfRedirectRule
INVARIANT SelectInv
INVARIANT FirstMatchWins
INVARIANT SliceInBounds
INVARIANT ToFallbackOrder
INVARIANT RedirOrder
INVARIANT RewriteOnce
INVARIANT ExpandOnce
INVARIANT Deterministic
INVARIANT Emit
PROPERTY Progress
PROPERTY ToInOrder
PROPERTY RulesInOrder
CHECK_DEADLOCK FALSE
