SPECIFICATION LiveSpec
CONSTANTS
  Spaces = {"verify", "conn", "silent", "relay"}
  OptLen = 0
  Wide = FALSE
  HandshakeBound = "all"
  UnixKeepalive = "honoured"
  HealthTrust = "rule"
  UpgradeSNI = "always"
INVARIANTS
  TypeOK
  SilentBackendBounded
PROPERTIES
  EventuallyAnswered
CHECK_DEADLOCK FALSE
