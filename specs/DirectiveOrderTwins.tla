------------------------- MODULE DirectiveOrderTwins -------------------------
(***************************************************************************)
(* C09, second run of DirectiveOrder.tla with PoolSel = "twins": a pool of *)
(* 18 lines in which index, log, tryfiles, rewrite, header and redir each  *)
(* have two or three lines, so that "lines of the same directive keep      *)
(* their relative order" is exercised for more directives (a module of its *)
(* own only so that the driver keeps its CASE lines apart).                *)
(***************************************************************************)
EXTENDS DirectiveOrder
=============================================================================
