\* thorough: the quick space loaded with -host a.test (where a key has no host) and -port PD
\* (where a key has neither port nor scheme).
CONSTANTS
  Hosts = {"a.test", "A.TEST", "*.test", ""}
  Ports = {"", "P1", "P2"}
  Paths = {"", "/p", "/P"}
  Schemes = {"", "http"}
  Binds = {"", "127.0.0.1", "localhost", "127.0.0.2"}
  PlainHosts = {"a.test", ""}
  PlainPorts = {"", "P2"}
  MaxWeight = 1
  FlagHosts = {"a.test"}
  FlagPorts = {"PD"}
  MaxBlocks = 2
  MaxKeys = 2
  MaxSites = 2
  ReqHosts = {"a.test", "b.test"}
  ReqPaths = {"/p"}
  EmitCases = TRUE
  EmitMaxWeight = 4
SPECIFICATION Spec
INVARIANT TypeOK
INVARIANT GroupingIsPartition
INVARIANT SameGroupIffSameListenAddr
INVARIANT DuplicatesRejected
INVARIANT DefaultsApplied
INVARIANT NoShadowing
INVARIANT ListenersAreGroups
INVARIANT NoCrossListenerAnswer
INVARIANT OrderIndependent
INVARIANT Emit
CHECK_DEADLOCK FALSE
