CONSTANTS MaxAttempts = 2
SPECIFICATION Spec
INVARIANTS NoResidue ValidateChangesNothing LockFreeBetweenAttempts OutcomeByKindOnly
PROPERTY AttemptReturns
CHECK_DEADLOCK FALSE
