\* thorough: <= 3 sites in <= 3 blocks (<= 2 keys each) over 3 hosts x 3 ports (no path, no
\* scheme), all four bind spellings: three-way grouping, partition, map-order of NewServer/Listen.
CONSTANTS
  Hosts = {"a.test", "localhost", ""}
  Ports = {"", "P1", "P2"}
  Paths = {""}
  Schemes = {""}
  Binds = {"", "127.0.0.1", "localhost", "127.0.0.2"}
  PlainHosts = {"a.test", "localhost", ""}
  PlainPorts = {"", "P1", "P2"}
  MaxWeight = 4
  FlagHosts = {}
  FlagPorts = {}
  MaxBlocks = 3
  MaxKeys = 2
  MaxSites = 3
  ReqHosts = {"a.test", "other.invalid"}
  ReqPaths = {"/"}
  EmitCases = TRUE
  EmitMaxWeight = 4
SPECIFICATION Spec
INVARIANT TypeOK
INVARIANT GroupingIsPartition
INVARIANT SameGroupIffSameListenAddr
INVARIANT DuplicatesRejected
INVARIANT DefaultsApplied
INVARIANT NoShadowing
INVARIANT ListenersAreGroups
INVARIANT NoCrossListenerAnswer
INVARIANT OrderIndependent
INVARIANT Emit
CHECK_DEADLOCK FALSE
PROPERTY Terminates
