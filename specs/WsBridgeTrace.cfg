CONSTANTS Types = {"lines", "text", "binary"}
 Bufs = {0}
 Modes = {"dflt"}
 Scopes = {"bridge"}
 MaxM = 99
 MaxW = 99
 MaxOps = 0
 Rich = FALSE
 WithStop = TRUE
 FixKill = TRUE
 FixTextBuf = TRUE
SPECIFICATION TSpec
CONSTRAINT Constr
INVARIANTS TypeOK OneProcessPerConnection NonUpgradeUntouched EnvExact BytesExactIn BytesExactOut NothingLostAtExit CloseCodeTellsOutcome SignalOrder AlwaysReaped ReadHasRoom
POSTCONDITION Accepted
CHECK_DEADLOCK FALSE
