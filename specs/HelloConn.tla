----------------------------- MODULE HelloConn -----------------------------
(***************************************************************************)
(* C19 - what is recorded about a ClientHello does not depend on how its   *)
(* bytes were split across network reads.                                  *)
(*                                                                         *)
(* A TLS record of 5 + n bytes (header, ClientHello) followed by m further *)
(* bytes of the connection reaches clientHelloConn.Read                    *)
(* (caskethttp/httpserver/mitm.go) in chunks: one action Read(k) per call, *)
(* every sequence of positive chunk sizes is a behaviour.                  *)
(*                                                                         *)
(* Operational part (repaired design): the bytes are teed into the buffer; *)
(* with fewer than 5 bytes nothing happens; the length is PEEKED from the  *)
(* header; only when 5 + length bytes are buffered the record is taken out *)
(* and parsed, and the connection passes everything else straight through. *)
(* The unrepaired code consumed the 5 header bytes before the length check:*)
(* action ReadOld models it (not part of Next; OldSpec shows that TLC      *)
(* refutes SegmentationIndependent for it).                                *)
(*                                                                         *)
(* `recorded` is the window <<offset, length>> of the stream that was      *)
(* handed to parseRawClientHello (<<>> = nothing recorded): the info is a  *)
(* function of those bytes, so "recorded = Parse(hello)" is                *)
(* recorded = <<5, n>>.                                                    *)
(***************************************************************************)
EXTENDS Integers, Sequences, FiniteSets, TLC, Json

CONSTANTS HelloLens,    \* set of n (abstract units; the harness maps one unit to a block of the real hello)
          ExtraLens     \* set of m

VARIABLES n, m,         \* the case
          hist,         \* chunk sizes delivered so far (the segmentation)
          delivered,    \* bytes handed to Read so far
          buffered,     \* c.buf.Len()
          consumed,     \* bytes already taken out of the front of the buffer
          readHello,    \* c.readHello
          recorded      \* <<offset, length>> parsed and stored in helloInfos, or <<>>
vars == <<n, m, hist, delivered, buffered, consumed, readHello, recorded>>

Total == 5 + n + m

Init ==
    /\ n \in HelloLens /\ m \in ExtraLens
    /\ hist = <<>> /\ delivered = 0 /\ buffered = 0 /\ consumed = 0
    /\ readHello = FALSE /\ recorded = <<>>

\* the length field sits in header bytes 4 and 5: whoever has consumed c bytes and looks at the
\* next five bytes as a header reads the true length only when c = 0
LenAt(c) == IF c = 0 THEN n ELSE 0 - 1       \* -1: some other bytes of the stream (garbage length)

\* ---- one call of clientHelloConn.Read delivering k bytes (repaired) ----------------
Read(k) ==
    /\ delivered + k <= Total
    /\ hist' = Append(hist, k)
    /\ delivered' = delivered + k
    /\ IF readHello
         THEN UNCHANGED <<buffered, consumed, readHello, recorded>>          \* pass-through
         ELSE LET b == buffered + k IN                                         \* io.TeeReader
              IF b < 5 \/ b < 5 + n                                            \* header incomplete, or peeked length not there yet
                THEN /\ buffered' = b /\ UNCHANGED <<consumed, readHello, recorded>>
                ELSE /\ buffered' = b - (5 + n)                                \* header + hello taken out
                     /\ consumed' = consumed + 5 + n
                     /\ recorded' = <<consumed + 5, n>>
                     /\ readHello' = TRUE
    /\ UNCHANGED <<n, m>>

Next == \E k \in 1..Total : Read(k)
Spec == Init /\ [][Next]_vars

\* ---- the unrepaired code (for the record) -------------------------------------------
ReadOld(k) ==
    /\ delivered + k <= Total
    /\ hist' = Append(hist, k)
    /\ delivered' = delivered + k
    /\ IF readHello
         THEN UNCHANGED <<buffered, consumed, readHello, recorded>>
         ELSE LET b == buffered + k IN
              IF b < 5 THEN /\ buffered' = b /\ UNCHANGED <<consumed, readHello, recorded>>
              ELSE \* the 5 bytes are READ from the buffer before the length is compared
                   LET len == LenAt(consumed) IN
                   IF len < 0 \/ b - 5 < len
                     THEN /\ buffered' = b - 5 /\ consumed' = consumed + 5
                          /\ UNCHANGED <<readHello, recorded>>
                     ELSE /\ buffered' = b - 5 - len /\ consumed' = consumed + 5 + len
                          /\ recorded' = <<consumed + 5, len>> /\ readHello' = TRUE
    /\ UNCHANGED <<n, m>>
OldSpec == Init /\ [][\E k \in 1..Total : ReadOld(k)]_vars

\* ---- declarative property -------------------------------------------------------------
\* whatever the segmentation: once the whole record has arrived, exactly the hello is recorded
SegmentationIndependent == delivered >= 5 + n => recorded = <<5, n>>
\* nothing but the hello is ever recorded
NeverSkewed == recorded = <<>> \/ recorded = <<5, n>>
\* the tee buffer never holds more than the record (plus what arrived with its last chunk)
BufferBounded == buffered <= 5 + n + m /\ (~readHello => buffered < 5 + n) /\ (readHello => buffered <= m)

\* ---- emission: one CASE per complete segmentation, with the model's step table ------------
RECURSIVE StepTable(_, _, _, _)
\* rows <<k, buffered after, readHello after>> of the repaired model for a chunk sequence
StepTable(s, b, done, nn) ==
    IF s = <<>> THEN <<>>
    ELSE LET k == Head(s)
             nb == IF done THEN b ELSE IF b + k < 5 + nn THEN b + k ELSE b + k - (5 + nn)
             nd == done \/ (b + k >= 5 + nn)
         IN  <<<<k, nb, nd>>>> \o StepTable(Tail(s), nb, nd, nn)
Emit == delivered = Total =>
    PrintT(<<"CASE", ToJson([n |-> n, m |-> m, segs |-> hist, steps |-> StepTable(hist, 0, FALSE, n)])>>)
=============================================================================
