CONSTANT MaxLines = 4
CONSTANT SampleAbove = 4
CONSTANT SampleOneIn = 1
CONSTANT PoolSel = "twins"
CONSTANT ExecMode = "canon"
CONSTANT CompileMode = "outerfirst"
SPECIFICATION Spec
INVARIANT WrittenIsPerm
INVARIANT CanonicalStack
INVARIANT PermutationInvariant
INVARIANT PairOrder
CHECK_DEADLOCK FALSE
