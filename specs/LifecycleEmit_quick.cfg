CONSTANTS MaxOps = 3
 MaxStarts = 2
 Async = FALSE
INIT Init
NEXT Next
INVARIANT Emit
CHECK_DEADLOCK FALSE
