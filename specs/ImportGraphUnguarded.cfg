CONSTANTS NFiles = 2
          NSnips = 1
          Guard = FALSE
          MaxLen = 12
SPECIFICATION Spec
PROPERTY Terminates
CHECK_DEADLOCK FALSE
