SPECIFICATION Spec
INVARIANT TypeOK
INVARIANT Emit
CHECK_DEADLOCK FALSE
