\* quick: every directory of <= 3 entries is built and the sort lemmas are checked on it; the directories of <= 1 entry
\* get every request of the reduced alphabets (<= 2 deviations from the plain request) through the whole pipeline;
\* emitted: all directories of <= 2 entries, one in 8 of those with 3, with PerDir sampled requests each
CONSTANT MaxEntries = 3
CONSTANT MaxChecked = 1
CONSTANT MaxDeviations = 2
CONSTANT MaxDeviationsBig = 1
CONSTANT SampleRate <- RateQuick
CONSTANT PerDir = 6
CONSTANT SortQs = {"-", "name", "size", "bogus"}
CONSTANT OrderQs = {"-", "desc", "bogus"}
CONSTANT LimitQs = {"-", "1", "0", "abc"}
CONSTANT SortCks = {"-", "time", "bogus"}
CONSTANT OrderCks = {"-", "desc"}
CONSTANT Accepts = {"-", "json"}
CONSTANT ArchQs = {"-", "zip"}
CONSTANT Methods = {"GET", "HEAD", "POST", "OPTIONS"}
CONSTANT CountsVisible = TRUE
CONSTANT EscUrl = TRUE
CONSTANT EscHtml = TRUE
CONSTANT DotSlash = TRUE
SPECIFICATION Spec
INVARIANT TypeOK
INVARIANT LessIsKeyOrder
INVARIANT SortIsTotal
INVARIANT AscIsReverseOfDesc
INVARIANT DirsFirst
INVARIANT LinksResolve
INVARIANT NamesAreInert
INVARIANT ListingEqualsDirectory
INVARIANT NoHiddenNames
INVARIANT CountsMatchListing
INVARIANT SortKeyIsRequested
INVARIANT CookieRules
INVARIANT NeverAnErrorPage
INVARIANT AnswersOnlyWhenDue
INVARIANT JsonEqualsHtml
INVARIANT HeadEqualsGet
INVARIANT UpLinkWithinScope
INVARIANT ArchiveOnlyIfConfigured
INVARIANT RunAgrees
INVARIANT Emit
CHECK_DEADLOCK FALSE
