CONSTANTS MaxAttempts = 100
SPECIFICATION TSpec
CONSTRAINT Constr
INVARIANTS NoResidue ValidateChangesNothing LockFreeBetweenAttempts OutcomeByKindOnly
POSTCONDITION Accepted
CHECK_DEADLOCK FALSE
