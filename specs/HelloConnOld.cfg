\* not part of the pipeline: shows that TLC refutes the property for the unrepaired Read
CONSTANTS
  HelloLens = {0, 3}
  ExtraLens = {0, 2}
SPECIFICATION OldSpec
INVARIANT SegmentationIndependent
CHECK_DEADLOCK FALSE
