--------------------------- MODULE ListenerGroups ---------------------------
(***************************************************************************)
(* C01 extension - how site addresses become listeners.                    *)
(*                                                                         *)
(* VHost.tla starts from "these sites share one listener".  This module    *)
(* models what caskethttp/httpserver/plugin.go does before that point:     *)
(*                                                                         *)
(*   the parser hands over server blocks (several keys = several sites     *)
(*   sharing one set of directives)                       DeclareBlock/EOF *)
(*   InspectServerBlocks, one loop iteration per key:                      *)
(*     standardizeAddress -> Normalize -> Key -> duplicate key?            *)
(*     -> defaults from -host / -port -> duplicate address? -> saveConfig  *)
(*                              InspectDupKey / InspectDupAddr / InspectSave *)
(*   the `bind` directive, executed once per site of the block   ExecBind  *)
(*   MakeServers: groupSiteConfigsByListenAddr, one iteration per site     *)
(*     (net.ResolveTCPAddr of bindhost:port is the group key)   GroupSite  *)
(*   one NewServer per group (vhosts.Insert of every site)      NewServer  *)
(*   casket.startServers: one net.Listen per server     ListenOK / ListenInUse *)
(*   Server.serveHTTP on listener L: vhosts.Match(Host, path)       Serve  *)
(*                                                                         *)
(* Inside a group the routing rule is VHost.tla's (INSTANCE below).        *)
(* The declarative part (section "what the configuration means") is a      *)
(* function of the SET of blocks only; the operational part walks blocks   *)
(* and keys in every order the nested loops of the code admit.             *)
(*                                                                         *)
(* Deliberate deviations (named):                                          *)
(*  - h.siteConfigs is a list in the code; here the saved configs are      *)
(*    keyed by site (block, key as written).  The list order is the        *)
(*    inspection order and is only used by loops whose iterations are      *)
(*    independent (bind, grouping) - those walk the sites in one fixed     *)
(*    order (PickSite) - and by vhosts.Insert, where a later site would    *)
(*    overwrite an earlier one with the same host/path: NoShadowing shows  *)
(*    that cannot happen after the duplicate checks.                       *)
(*  - siteAddrs (address string -> key) is the image of the saved configs. *)
(*  - TLS (C06, C15), the scheme/port convention error, service-name ports *)
(*    (:http) and IPv6 literals (C01) are outside the alphabet.  Every     *)
(*    port of the alphabet differs from certmagic.HTTPPort/HTTPSPort and   *)
(*    from 80/443, so Address.String() is http://host:port/path.           *)
(*  - the -port flag is always given (the harness cannot listen on 2015):  *)
(*    the second place that fills an empty port, inside                    *)
(*    groupSiteConfigsByListenAddr, is folded into GroupSite.              *)
(***************************************************************************)
EXTENDS Integers, Sequences, FiniteSets, FiniteSetsExt, SequencesExt, TLC, Json

CONSTANTS
    Hosts,      \* host part of a key as written: "a.test" "A.TEST" "*.test" "" "127.0.0.1" "localhost"
    Ports,      \* port part as written: "" (none) "P1" "P2"
    Paths,      \* path part as written: "" (none) "/p" "/P"
    Schemes,    \* "" (none) "http"
    Binds,      \* argument of the block's bind line: "" (no bind line) "127.0.0.1" "localhost" "127.0.0.2"
    FlagHosts,  \* values of -host to try besides "" (= flag not given)
    FlagPorts,  \* values of -port to try besides "P1" (which collides with keys written with :P1): "PD", a port no key names
    MaxBlocks, MaxKeys, MaxSites,
    PlainHosts, PlainPorts, MaxWeight,   \* a key may have at most MaxWeight parts outside the plain spellings
    ReqHosts, ReqPaths,   \* request alphabet of the Serve action (the emitted tables always use the full one)
    EmitCases,  \* TRUE: print one CASE per configuration ...
    EmitMaxWeight   \* ... all of whose keys have at most this many special parts

HTTPPort == "HP"   \* certmagic.HTTPPort: what http:// means when the key has no port

\* ---- strings the model cannot compute on: tables ---------------------------
Lower(h) == IF h = "A.TEST" THEN "a.test" ELSE h               \* strings.ToLower on hosts
LowerPath(p) == IF p = "/P" THEN "/p" ELSE p                   \* Normalize with CaseSensitivePath = false
Resolve(b) == IF b = "localhost" THEN "127.0.0.1" ELSE b       \* net.ResolveTCPAddr("tcp", host:port).IP; "" = wildcard
Labels(h) == CASE h = "a.test" -> <<"a", "test">> [] h = "b.test" -> <<"b", "test">>
               [] h = "*.test" -> <<"*", "test">> [] h = "" -> <<"">>
               [] h = "127.0.0.1" -> <<"127", "0", "0", "1">> [] h = "127.0.0.2" -> <<"127", "0", "0", "2">>
               [] h = "localhost" -> <<"localhost">> [] h = "other.invalid" -> <<"other", "invalid">>
Chars(p) == CASE p = "/" -> <<"/">> [] p = "/p" -> <<"/", "p">> [] p = "/P" -> <<"/", "P">>
              [] p = "/p/x" -> <<"/", "p", "/", "x">> [] p = "/x" -> <<"/", "x">>

AllReqHosts == <<"a.test", "b.test", "localhost", "127.0.0.1", "other.invalid">>
AllReqPaths == <<"/", "/p", "/P", "/p/x", "/x">>

\* the routing rule inside one listener: VHost.tla (its variables are not used here)
VH == INSTANCE VHost WITH K <- 0, sites <- {}, rh <- 1, rp <- 1, pc <- "none", cur <- <<"">>,
                          ci <- 1, fi <- 0, branch <- <<"">>, result <- <<"">>

\* ---- the configuration space ------------------------------------------------
\* a key as written; the empty token and scheme-only keys are not keys
\* (MaxWeight bounds how many parts of one key are special at once; 4 = the whole product)
Weight(w) == (IF w.host \in PlainHosts THEN 0 ELSE 1) + (IF w.port \in PlainPorts THEN 0 ELSE 1)
             + (IF w.path = "" THEN 0 ELSE 1) + (IF w.sch = "" THEN 0 ELSE 1)
Tokens == {w \in [sch : Schemes, host : Hosts, port : Ports, path : Paths] :
             /\ ~(w.host = "" /\ w.port = "" /\ w.path = "")
             /\ (w.sch = "http" => w.host # "")
             /\ Weight(w) <= MaxWeight}
\* the key sets of a block (kSubset of FiniteSetsExt stops at 62 elements)
ASSUME MaxKeys \in {1, 2}
KeySets(n) == IF n = 1 THEN {{a} : a \in Tokens} ELSE {{a, b} : a \in Tokens, b \in Tokens} \ {{a} : a \in Tokens}
Blocks(n) == {[keys |-> K, bind |-> bd] : K \in KeySets(n), bd \in Binds}

NoBlk == [keys |-> {}, bind |-> "-"]
NoErr == [class |-> "none"]
NoAnswer == [la |-> "-"]

VARIABLES
    phase,      \* parse, inspect, directives, group, servers, listen, serving, answered | refused (InspectServerBlocks) | failed (Listen)
    flagHost, flagPort,   \* httpserver.Host / httpserver.Port
    blocks,     \* the parsed server blocks (a set: the written order is the order the actions pick them in)
    curBlk,     \* the block whose keys InspectServerBlocks is walking (outer loop variable)
    saved,      \* site -> SiteConfig: keysToSiteConfigs + siteConfigs (site = [b |-> block, w |-> key as written])
    bound,      \* sites whose block's bind line has been executed
    groups,     \* listen address -> set of sites (the map groupSiteConfigsByListenAddr builds)
    grouped,    \* sites already put into a group
    servers,    \* listen address -> vhost table of the server made for the group (vhost key -> site)
    listening,  \* listen addresses with an open socket
    err,        \* why the configuration was refused
    answer      \* the request served last and the site that answered
vars == <<phase, flagHost, flagPort, blocks, curBlk, saved, bound, groups, grouped, servers, listening, err, answer>>

SitesOf(B) == UNION {{[b |-> blk, w |-> w] : w \in blk.keys} : blk \in B}
NSites(B) == Cardinality(SitesOf(B))

\* ===========================================================================
\* what the configuration means (declarative, order-free)
\* ===========================================================================
KeyString(sch, host, port, path) ==
    (IF sch # "" THEN sch \o "://" ELSE "") \o host \o (IF port # "" THEN ":" \o port ELSE "") \o path
\* the normalized key: scheme and host lower-cased, path too, port only if written
DKey(w) == KeyString(w.sch, Lower(w.host), w.port, LowerPath(w.path))
\* defaults exactly where the address leaves them open
EffPort(w) == IF w.port # "" THEN w.port ELSE IF w.sch = "http" THEN HTTPPort ELSE flagPort
EffHost(w) == IF w.host # "" THEN Lower(w.host) ELSE flagHost
EffAddr(w) == <<EffHost(w), EffPort(w), LowerPath(w.path)>>     \* = Address.String() on this alphabet

DupKeyPairs(B) == {p \in SitesOf(B) \X SitesOf(B) : p[1] # p[2] /\ DKey(p[1].w) = DKey(p[2].w)}
DupAddrPairs(B) == {p \in SitesOf(B) \X SitesOf(B) :
                      p[1] # p[2] /\ DKey(p[1].w) # DKey(p[2].w) /\ EffAddr(p[1].w) = EffAddr(p[2].w)}
HasDuplicate(B) == DupKeyPairs(B) # {} \/ DupAddrPairs(B) # {}

\* the listener a site belongs to: resolved bind host of its block + effective port
ListenAddrD(s) == [ip |-> Resolve(s.b.bind), port |-> EffPort(s.w)]
ListenersD(B) == {ListenAddrD(s) : s \in SitesOf(B)}
GroupD(B, la) == {s \in SitesOf(B) : ListenAddrD(s) = la}
GroupsD(B) == {GroupD(B, la) : la \in ListenersD(B)}

\* OS rule (Linux, SO_REUSEADDR as Go sets it): a listening wildcard socket and a listening
\* socket of a specific address cannot share a port
Overlap(l, m) == l # m /\ l.port = m.port /\ (l.ip = "" \/ m.ip = "" \/ l.ip = m.ip)
ListenConflictD(B) == \E l, m \in ListenersD(B) : Overlap(l, m)

\* the virtual-host key of a site: Addr.VHost() = the key AS WRITTEN without the scheme,
\* host lower-cased by vhostTrie.splitHostPath, port dropped, path byte-wise ("/" if none)
VKey(w) == [h |-> Lower(w.host), p |-> IF w.path = "" THEN "/" ELSE w.path]
\* the same with the -host default filled in (the other reading of "default host", see notes)
VKeyAlt(w) == [h |-> EffHost(w), p |-> IF w.path = "" THEN "/" ELSE w.path]
AsVH(k) == [h |-> Labels(k.h), p |-> Chars(k.p), fb |-> FALSE]

\* which site of the set G answers Host h, path p (0-site = NoSite): VHost.tla's BestSite over G's keys
NoSite == [b |-> NoBlk, w |-> [sch |-> "", host |-> "", port |-> "", path |-> ""]]
BestOf(G, vk(_), h, p) ==
    LET best == VH!BestSite({AsVH(vk(s.w)) : s \in G}, Labels(h), Chars(p))
    IN  IF best = VH!None THEN NoSite ELSE CHOOSE s \in G : AsVH(vk(s.w)) = best
AnswerD(B, la, h, p) == BestOf(GroupD(B, la), VKey, h, p)
AnswerAlt(B, la, h, p) == BestOf(GroupD(B, la), VKeyAlt, h, p)

OutcomeD(B) == IF HasDuplicate(B) THEN "refused" ELSE IF ListenConflictD(B) THEN "failed" ELSE "serving"

\* ===========================================================================
\* what the code does (operational)
\* ===========================================================================
Init ==
    /\ phase = "parse"
    /\ flagHost = "" /\ flagPort = "P1"
    /\ blocks = {} /\ curBlk = NoBlk
    /\ saved = <<>> /\ bound = {} /\ groups = <<>> /\ grouped = {} /\ servers = <<>> /\ listening = {}
    /\ err = NoErr /\ answer = NoAnswer

\* ---- casketfile.Parse: one server block more -------------------------------
DeclareBlock ==
    /\ phase = "parse"
    /\ Cardinality(blocks) < MaxBlocks
    /\ \E n \in 1..MaxKeys :
          /\ NSites(blocks) + n <= MaxSites
          /\ \E blk \in Blocks(n) : blk \notin blocks /\ blocks' = blocks \cup {blk}
    /\ UNCHANGED <<phase, flagHost, flagPort, curBlk, saved, bound, groups, grouped, servers, listening, err, answer>>

\* the whole file is parsed; InspectServerBlocks reads the flags the process was started with.
\* (A flag nobody reads is not varied: -host matters only if some key has no host, -port only
\* if some key has neither port nor scheme.)
EndOfFile ==
    /\ phase = "parse" /\ blocks # {}
    /\ phase' = "inspect"
    /\ flagHost' \in {fh \in FlagHosts \cup {""} : fh = "" \/ \E s \in SitesOf(blocks) : s.w.host = ""}
    /\ flagPort' \in {fp \in FlagPorts \cup {"P1"} : fp = "P1" \/ \E s \in SitesOf(blocks) : s.w.port = "" /\ s.w.sch = ""}
    /\ UNCHANGED <<blocks, curBlk, saved, bound, groups, grouped, servers, listening, err, answer>>

\* ---- InspectServerBlocks ----------------------------------------------------
\* standardizeAddress: split the key; a missing port comes from the scheme
Standardize(w) == [sch |-> w.sch, host |-> w.host, path |-> w.path,
                   port |-> IF w.port = "" /\ w.sch = "http" THEN HTTPPort ELSE w.port,
                   written |-> w.port # ""]      \* Key() prints the port only if the original has it
Normalize(a) == [a EXCEPT !.host = Lower(a.host), !.path = LowerPath(a.path)]
KeyOf(a) == KeyString(a.sch, a.host, IF a.written THEN a.port ELSE "", a.path)
\* "Fill in address components from command line"
FillDefaults(a) == [a EXCEPT !.host = IF a.host = "" /\ flagHost # "" THEN flagHost ELSE a.host,
                             !.port = IF a.port = "" THEN flagPort ELSE a.port]
AddrString(a) == <<a.host, a.port, a.path>>

Inspected == DOMAIN saved
\* the nested loops: the next key is one of the current block; when that is exhausted, of any untouched block
NextKeys == IF curBlk # NoBlk /\ \E w \in curBlk.keys : [b |-> curBlk, w |-> w] \notin Inspected
              THEN {[b |-> curBlk, w |-> w] : w \in {x \in curBlk.keys : [b |-> curBlk, w |-> x] \notin Inspected}}
              ELSE {s \in SitesOf(blocks) : \A w \in s.b.keys : [b |-> s.b, w |-> w] \notin Inspected}
StdOf(s) == Normalize(Standardize(s.w))
IsDupKey(s) == \E t \in Inspected : saved[t].key = KeyOf(StdOf(s))
IsDupAddr(s) == \E t \in Inspected : AddrString(saved[t].addr) = AddrString(FillDefaults(StdOf(s)))

InspectDupKey ==
    /\ phase = "inspect"
    /\ \E s \in NextKeys :
          /\ IsDupKey(s)
          /\ err' = [class |-> "dupkey", key |-> KeyOf(StdOf(s))]
    /\ phase' = "refused"
    /\ UNCHANGED <<flagHost, flagPort, blocks, curBlk, saved, bound, groups, grouped, servers, listening, answer>>

InspectDupAddr ==
    /\ phase = "inspect"
    /\ \E s \in NextKeys :
          /\ ~IsDupKey(s) /\ IsDupAddr(s)
          /\ LET t == CHOOSE t \in Inspected : AddrString(saved[t].addr) = AddrString(FillDefaults(StdOf(s)))
             IN  err' = [class |-> "dupaddr", key |-> KeyOf(StdOf(s)), other |-> saved[t].key]
    /\ phase' = "refused"
    /\ UNCHANGED <<flagHost, flagPort, blocks, curBlk, saved, bound, groups, grouped, servers, listening, answer>>

InspectSave ==
    /\ phase = "inspect"
    /\ \E s \in NextKeys :
          /\ ~IsDupKey(s) /\ ~IsDupAddr(s)
          /\ saved' = [t \in Inspected \cup {s} |->
                         IF t = s THEN [key |-> KeyOf(StdOf(s)), addr |-> FillDefaults(StdOf(s)), listen |-> ""]
                         ELSE saved[t]]
          /\ curBlk' = IF \A w \in s.b.keys : w = s.w \/ [b |-> s.b, w |-> w] \in Inspected THEN NoBlk ELSE s.b
          \* the last key of the last block: the loops end, directives are executed next
          /\ phase' = IF Inspected \cup {s} = SitesOf(blocks) THEN "directives" ELSE "inspect"
    /\ UNCHANGED <<flagHost, flagPort, blocks, bound, groups, grouped, servers, listening, err, answer>>

\* ---- executeDirectives, directive "bind": once per key of every block -------
\* (iterations are independent: one fixed order)
PickSite(S) == CHOOSE s \in S : TRUE
ExecBind ==
    /\ phase = "directives"
    /\ LET s == PickSite(Inspected \ bound)
       IN  /\ saved' = [saved EXCEPT ![s].listen = IF s.b.bind # "" THEN s.b.bind ELSE @]
           /\ bound' = bound \cup {s}
           /\ phase' = IF bound \cup {s} = Inspected THEN "group" ELSE "directives"     \* MakeServers comes next
    /\ UNCHANGED <<flagHost, flagPort, blocks, curBlk, groups, grouped, servers, listening, err, answer>>

\* ---- MakeServers: groupSiteConfigsByListenAddr, one iteration per config ----
ListenAddrOf(c) == [ip |-> Resolve(c.listen), port |-> IF c.addr.port = "" THEN flagPort ELSE c.addr.port]
GroupSite ==
    /\ phase = "group"
    /\ LET s == PickSite(Inspected \ grouped)
           la == ListenAddrOf(saved[s])
       IN  /\ groups' = [l \in DOMAIN groups \cup {la} |->
                           IF l = la THEN (IF la \in DOMAIN groups THEN groups[la] ELSE {}) \cup {s} ELSE groups[l]]
           /\ grouped' = grouped \cup {s}
           /\ phase' = IF grouped \cup {s} = Inspected THEN "servers" ELSE "group"
    /\ UNCHANGED <<flagHost, flagPort, blocks, curBlk, saved, bound, servers, listening, err, answer>>

\* ---- MakeServers: `for addr, group := range groups` (map order = any order) --
\* NewServer inserts every site of the group under its vhost key
TableOf(G) == [k \in {VKey(s.w) : s \in G} |-> CHOOSE s \in G : VKey(s.w) = k]
NewServer ==
    /\ phase = "servers"
    /\ \E la \in DOMAIN groups \ DOMAIN servers :
          /\ servers' = [l \in DOMAIN servers \cup {la} |-> IF l = la THEN TableOf(groups[la]) ELSE servers[l]]
          /\ phase' = IF DOMAIN servers \cup {la} = DOMAIN groups THEN "listen" ELSE "servers"
    /\ UNCHANGED <<flagHost, flagPort, blocks, curBlk, saved, bound, groups, grouped, listening, err, answer>>

\* ---- casket.startServers: net.Listen per server, in the order of the list ---
ListenOK ==
    /\ phase = "listen"
    /\ \E la \in DOMAIN servers \ listening :
          /\ ~\E m \in listening : Overlap(la, m)
          /\ listening' = listening \cup {la}
          /\ phase' = IF listening \cup {la} = DOMAIN servers THEN "serving" ELSE "listen"
    /\ UNCHANGED <<flagHost, flagPort, blocks, curBlk, saved, bound, groups, grouped, servers, err, answer>>

ListenInUse ==
    /\ phase = "listen"
    /\ \E la \in DOMAIN servers \ listening :
          /\ \E m \in listening : Overlap(la, m)
          /\ err' = [class |-> "inuse", la |-> la]
    /\ phase' = "failed" /\ listening' = {}      \* the instance's listeners are closed again
    /\ UNCHANGED <<flagHost, flagPort, blocks, curBlk, saved, bound, groups, grouped, servers, answer>>

\* ---- Server.serveHTTP on the server that owns the listener -----------------
Lookup(table, h, p) ==
    LET best == VH!BestSite({AsVH(k) : k \in DOMAIN table}, Labels(h), Chars(p))
    IN  IF best = VH!None THEN NoSite ELSE table[CHOOSE k \in DOMAIN table : AsVH(k) = best]
Serve ==
    /\ phase = "serving"
    /\ \E la \in listening, h \in ReqHosts, p \in ReqPaths :
          answer' = [la |-> la, h |-> h, p |-> p, site |-> Lookup(servers[la], h, p)]
    /\ phase' = "answered"
    /\ UNCHANGED <<flagHost, flagPort, blocks, curBlk, saved, bound, groups, grouped, servers, listening, err>>

Next == DeclareBlock \/ EndOfFile
        \/ InspectDupKey \/ InspectDupAddr \/ InspectSave
        \/ ExecBind \/ GroupSite \/ NewServer \/ ListenOK \/ ListenInUse \/ Serve
Spec == Init /\ [][Next]_vars /\ WF_vars(Next)

\* ===========================================================================
\* properties
\* ===========================================================================
\* blocks never change after the parse phase and saved/groups never change after their own
\* phase, so a statement about them is checked in the states of the phase that has just
\* completed them (it then holds for good); this keeps TLC's per-state work small.
AfterGrouping == phase \in {"servers", "listen", "serving", "answered", "failed"}

\* every site is in exactly one group (while grouping: every site handled so far)
GroupingIsPartition ==
    /\ \A s \in grouped : Cardinality({la \in DOMAIN groups : s \in groups[la]}) = 1
    /\ \A la \in DOMAIN groups : groups[la] # {} /\ groups[la] \subseteq grouped
    /\ AfterGrouping => grouped = SitesOf(blocks)

\* two sites share a server exactly when bind host (as resolved) and effective port agree
SameGroupIffSameListenAddr ==
    phase = "servers" => \A s, t \in SitesOf(blocks) :
        (\E la \in DOMAIN groups : s \in groups[la] /\ t \in groups[la]) <=> ListenAddrD(s) = ListenAddrD(t)

\* refused exactly for two sites of equal normalized key (or equal effective address), naming them
DuplicatesRejected ==
    /\ (phase = "refused" /\ err.class = "dupkey") =>
           \E p \in DupKeyPairs(blocks) : DKey(p[1].w) = err.key
    /\ (phase = "refused" /\ err.class = "dupaddr") =>
           \E p \in DupAddrPairs(blocks) : DKey(p[1].w) = err.key /\ DKey(p[2].w) = err.other
    /\ phase = "refused" => err.class \in {"dupkey", "dupaddr"}
    /\ phase = "directives" => ~HasDuplicate(blocks)          \* inspection passed: there was none
    /\ phase \notin {"parse", "inspect", "refused"} => Inspected = SitesOf(blocks)

\* host and port of a saved config: as written where written, the flag / scheme default elsewhere
DefaultsApplied ==
    /\ phase \in {"inspect", "directives"} => \A s \in Inspected :
        /\ saved[s].addr.port = EffPort(s.w) /\ saved[s].addr.host = EffHost(s.w)
        /\ s.w.port # "" => saved[s].addr.port = s.w.port
        /\ s.w.host # "" => saved[s].addr.host = Lower(s.w.host)
        /\ saved[s].key = DKey(s.w)
    /\ phase \in {"directives", "group"} => \A s \in bound : saved[s].listen = s.b.bind

\* after the duplicate checks no two sites of a server have the same vhost key: nothing is
\* overwritten in vhosts.Insert, and VHost.tla's WellFormed holds for every listener
NoShadowing ==
    phase = "servers" => \A la \in DOMAIN groups : \A s, t \in groups[la] :
        (VKey(s.w).h = VKey(t.w).h /\ LowerPath(VKey(s.w).p) = LowerPath(VKey(t.w).p)) => s = t

\* the listeners are those of the declared sites, one socket each
ListenersAreGroups ==
    /\ listening \subseteq DOMAIN servers /\ DOMAIN servers \subseteq DOMAIN groups
    /\ phase = "serving" => listening = ListenersD(blocks)

\* a request on listener L is answered by a site of L's group, chosen by VHost.tla's rule
\* among that group only - never by a site that listens elsewhere
NoCrossListenerAnswer ==
    phase = "answered" =>
        /\ answer.site = NoSite \/ answer.site \in groups[answer.la]
        /\ answer.site # NoSite => ListenAddrD(answer.site) = answer.la
        /\ answer.site = AnswerD(blocks, answer.la, answer.h, answer.p)

\* the outcome is a function of the set of blocks: whatever order blocks and keys were walked in
OrderIndependent ==
    /\ phase = "refused" => OutcomeD(blocks) = "refused"
    /\ phase = "failed" => OutcomeD(blocks) = "failed" /\ err.class = "inuse"
    /\ phase = "serving" =>
          /\ OutcomeD(blocks) = "serving"
          /\ {groups[la] : la \in DOMAIN groups} = GroupsD(blocks)
          /\ \A la \in DOMAIN groups : groups[la] = GroupD(blocks, la)

TypeOK ==
    /\ phase \in {"parse", "inspect", "directives", "group", "servers", "listen", "serving", "answered", "refused", "failed"}
    /\ Cardinality(blocks) <= MaxBlocks /\ NSites(blocks) <= MaxSites
    /\ Inspected \subseteq SitesOf(blocks) /\ bound \subseteq Inspected /\ grouped \subseteq Inspected

Terminates == <>(phase \in {"answered", "refused", "failed"})

\* ===========================================================================
\* case emission: one CASE per configuration, in the state EndOfFile leads to
\* ===========================================================================
SiteRec(s, bseq) ==
    [blk |-> CHOOSE i \in 1..Len(bseq) : bseq[i] = s.b, w |-> s.w, key |-> DKey(s.w),
     host |-> EffHost(s.w), port |-> EffPort(s.w)]
\* table[i][j] of a listener: number (in "sites") of the site answering host i, path j there; 0 = none.
\* open[i][j] = 1: not asserted, the two readings of the -host default differ (only with -host)
CaseOf(B) ==
    LET bseq == SetToSeq(B)
        sseq == SetToSeq(SitesOf(B))
        num(s) == IF s = NoSite THEN 0 ELSE CHOOSE i \in 1..Len(sseq) : sseq[i] = s
        lseq == SetToSeq(ListenersD(B))
        out == OutcomeD(B)
    IN  [clause |-> "listenergroups/" \o out,
         flaghost |-> flagHost, flagport |-> flagPort,
         blocks |-> [i \in 1..Len(bseq) |-> [bind |-> bseq[i].bind, keys |-> SetToSeq(bseq[i].keys)]],
         sites |-> [i \in 1..Len(sseq) |-> SiteRec(sseq[i], bseq)],
         outcome |-> out,
         dupkeys |-> SetToSeq({DKey(p[1].w) : p \in DupKeyPairs(B)}),
         dupaddrs |-> SetToSeq({<<DKey(p[1].w), DKey(p[2].w)>> : p \in DupAddrPairs(B)}),
         listeners |-> [l \in 1..Len(lseq) |->
              [ip |-> lseq[l].ip, port |-> lseq[l].port,
               members |-> SetToSeq({num(s) : s \in GroupD(B, lseq[l])}),
               table |-> IF out # "serving" THEN <<>> ELSE
                    [i \in 1..Len(AllReqHosts) |-> [j \in 1..Len(AllReqPaths) |->
                        num(AnswerD(B, lseq[l], AllReqHosts[i], AllReqPaths[j]))]],
               open |-> IF out # "serving" \/ flagHost = "" THEN <<>> ELSE
                    [i \in 1..Len(AllReqHosts) |-> [j \in 1..Len(AllReqPaths) |->
                        IF AnswerD(B, lseq[l], AllReqHosts[i], AllReqPaths[j]) # AnswerAlt(B, lseq[l], AllReqHosts[i], AllReqPaths[j])
                          THEN 1 ELSE 0]]]],
         reqhosts |-> AllReqHosts, reqpaths |-> AllReqPaths]
Emit == (EmitCases /\ phase = "inspect" /\ Inspected = {} /\ curBlk = NoBlk
          /\ \A s \in SitesOf(blocks) : Weight(s.w) <= EmitMaxWeight) =>
            PrintT(<<"CASE", ToJson(CaseOf(blocks))>>)
=============================================================================
