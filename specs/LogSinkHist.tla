---------------------------- MODULE LogSinkHist ----------------------------
(* Generator of the histories the LogSink binding executes (harness/cx20logsink): drawn by      *)
(* `tlc -simulate` (seed = VERIF_SEED).  An operation is chosen in stages - type, then failure  *)
(* stage, then configuration - so that every type and stage is drawn about equally often        *)
(* whatever the number of configurations; between two operations the controller actions of      *)
(* LogSink.tla run (no requests), so that "is an instance serving" is what LogSink says it is.  *)
(* The configuration table travels with the histories (one source for both sides).  A module of *)
(* its own because the driver keeps one case file per module name.                              *)
EXTENDS LogSink

VARIABLES hpc, hop
hvars == <<vars, hpc, hop>>

HInit == Init /\ hpc = "boot" /\ hop = NoOp

HBoot == hpc = "boot" /\ hpc' = "type" /\ UNCHANGED <<vars, hop>>

TypeOk(t) == IF t = "start" THEN Serving = {} ELSE Serving # {}
\* stage 1: the type; a history begins with a start, a stop is followed by a start
HType ==
    /\ hpc = "type" /\ pc = "idle" /\ Len(hist) < MaxOps
    /\ \E t \in OpTypes : TypeOk(t) /\ hop' = [NoOp EXCEPT !.t = t]
    /\ hpc' = "fail"
    /\ UNCHANGED vars
\* stage 2: the failure stage (no failure is drawn as often as the two failures together)
HFail ==
    /\ hpc = "fail"
    /\ \E f \in (IF hop.t = "stop" THEN {"none"} ELSE Fails), w \in 0..1 :
          /\ (f # "none" => w = 0)
          /\ (Len(hist) = 0 => f = "none")          \* the first start succeeds
          /\ hop' = [hop EXCEPT !.f = f]
          /\ k' = w                                  \* otherwise unused between operations: weights the draw
    /\ hpc' = "cfg"
    /\ UNCHANGED <<hist, op, pc, g, old, inst, att, cls, lj, rawopen, fs, infl, graceOn>>
\* stage 3: the configuration; the operation joins the history
HCommit ==
    /\ hpc = "cfg"
    /\ \E o \in Ops : o.t = hop.t /\ o.f = hop.f /\ BeginOp(o)
    /\ hpc' = "run" /\ hop' = NoOp
HRun ==
    /\ hpc = "run" /\ Controller
    /\ hpc' = (IF pc' = "idle" THEN "type" ELSE "run")
    /\ UNCHANGED hop

HNext == HBoot \/ HType \/ HFail \/ HCommit \/ HRun
HSpec == HInit /\ [][HNext]_hvars

HEmit == /\ (hpc = "type" /\ Len(hist) = MaxOps) => PrintT(<<"CASE", ToJson([ops |-> hist])>>)
         /\ (hpc = "boot") => PrintT(<<"CASE", ToJson([table |-> [n \in CfgNames |-> CfgTable[n]], capunit |-> CapUnit])>>)
=============================================================================
