CONSTANTS MaxOps = 3
 MaxLive = 2
 CfgNames = {"sn", "mix"}
 MaxSigs = 2
 EarlyRestart = FALSE
SPECIFICATION Spec
INVARIANTS TypeOK EachHookOncePerEmission FailedLoadKeepsRegistry RegistryExplained Usr1LeavesOnlyNew LoadAddsOwnHooks InstanceStartupExact RestartEventReachesNobody ShutdownAtMostOnce StartupOnce CertRenewOnlyForRenewal BlockingWaits
PROPERTIES EmissionComplete
CHECK_DEADLOCK FALSE
