\* thorough: rule sets of <= 2 rules over 5 from-paths x 4 except lists and the three-rule families; request paths of
\* <= 2 segments over 12 segment spellings and of 3 segments over 7
CONSTANT Spaces = {"route", "target", "query", "pool"}
CONSTANT RouteSegs = {"a", "A", "b", "x", "..", ".", "%2F", "%61", "", ";p", "ab", "%2E%2E"}
CONSTANT RouteMax = 2
CONSTANT RouteSegs3 = {"a", "A", "b", "x", "..", "%2F", ""}
CONSTANT RouteFroms = {"/", "/a", "/a/", "/a/b", "/A"}
CONSTANT RouteExcepts = {"none", "/x", "/a/x", "/x/"}
CONSTANT RouteExcepts1 = {"/b /x", "/"}
CONSTANT Route3 = TRUE
CONSTANT TargetSegs = {"a", "A", "b", "x", "..", "%2F", "%2f", "%61", "%41", "", ";p", "%3B", "a%20b", "a%25b", "a+b", "%C3%A9", "a%2Fx", "%61%2Fx", "%2E%2E"}
CONSTANT TargetMax = 2
CONSTANT TargetSegs3 = {"a", "..", "%2F", "%61", ""}
CONSTANT WithoutRaw = "decoded"
CONSTANT SchemeTest = "scheme"
SPECIFICATION Spec
INVARIANT TypeOK
INVARIANT RuleChoiceIsLongestMatch
INVARIANT FromPrefixIsSegmentWise
INVARIANT ChoiceIsOrderIndependent
INVARIANT ExceptMeansNotProxied
INVARIANT TargetIsBasePlusStrippedPath
INVARIANT QueryIsBaseThenRequest
INVARIANT NoPathEscape
INVARIANT PoolIsToThenUpstream
INVARIANT SchemelessIsHTTP
INVARIANT RefusedOnlyForCause
INVARIANT Emit
CHECK_DEADLOCK FALSE
