CONSTANTS NOpts = {2}
 NReq = 1
 Modes = {"ok", "s500"}
 MaxRounds = 3
 MaxSets = 1
 MaxEnv = 0
 MaxCalls = 0
 MaxSteps = 0
 FailsOpts = {1}
 ConnsOpts = {0}
 RetryOpts = {TRUE}
 ContainsOpts = {TRUE}
 HCOpts = {TRUE}
 Fixed = TRUE
SPECIFICATION Spec
VIEW view
INVARIANTS TypeOK FlagIsLastProbe NoRoundAfterStop
PROPERTIES StopReturns Recovers
CHECK_DEADLOCK FALSE
