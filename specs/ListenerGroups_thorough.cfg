\* thorough: <= 2 sites over the whole alphabet (every key of 6 hosts x 3 ports x 3 paths x 2
\* schemes); -port = P1 and, where a key leaves the port open, also PD (a port no key names).
\* A CASE is printed for the configurations whose keys have at most TWO special parts each.
CONSTANTS
  Hosts = {"a.test", "A.TEST", "*.test", "", "127.0.0.1", "localhost"}
  Ports = {"", "P1", "P2"}
  Paths = {"", "/p", "/P"}
  Schemes = {"", "http"}
  Binds = {"", "127.0.0.1", "localhost", "127.0.0.2"}
  PlainHosts = {"a.test", ""}
  PlainPorts = {"", "P2"}
  MaxWeight = 4
  FlagHosts = {}
  FlagPorts = {"PD"}
  MaxBlocks = 2
  MaxKeys = 2
  MaxSites = 2
  ReqHosts = {"a.test", "other.invalid"}
  ReqPaths = {"/p/x"}
  EmitCases = TRUE
  EmitMaxWeight = 2
SPECIFICATION Spec
INVARIANT TypeOK
INVARIANT GroupingIsPartition
INVARIANT SameGroupIffSameListenAddr
INVARIANT DuplicatesRejected
INVARIANT DefaultsApplied
INVARIANT NoShadowing
INVARIANT ListenersAreGroups
INVARIANT NoCrossListenerAnswer
INVARIANT OrderIndependent
INVARIANT Emit
CHECK_DEADLOCK FALSE
