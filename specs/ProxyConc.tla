----------------------------- MODULE ProxyConc -----------------------------
(***************************************************************************)
(* C14 - in-flight and failure accounting of the reverse proxy under       *)
(* concurrency (caskethttp/proxy/proxy.go ServeHTTP, upstream.go Select,   *)
(* UpstreamHost.Conns / Fails / Available).                                *)
(*                                                                         *)
(* Per request: Select (reads availability) - Count (takes a connection    *)
(* slot on the chosen host; a separate step: another request may have      *)
(* taken the last slot since Select looked) - ForwardBegin / ForwardEnd    *)
(* (the round trip to the backend, outcome ok | err | cancel | panic) -    *)
(* Uncount (the deferred decrement, also on panic) - CountFail (failure    *)
(* remembered for fail_timeout, a timer per failure) - retry or finish.    *)
(* Expire(h) is one failure timer of h firing.                             *)
(*                                                                         *)
(* Next      = the fine-grained steps (all interleavings; invariants)      *)
(* NextSync  = the same protocol at the grain an outside observer can      *)
(*             schedule (policy gate, transport gate), used to generate    *)
(*             the behaviours that are replayed into the real Proxy.       *)
(***************************************************************************)
EXTENDS Naturals, Sequences, FiniteSets, TLC, Json

CONSTANTS NReq, NHost, MaxTries,
          ConnsOpts, FailsOpts, RetryOpts   \* the max_conns / max_fails / retrying settings explored

Reqs == 1..NReq
Hosts == 1..NHost
Outcomes == {"ok", "err", "cancel", "panic"}

VARIABLES
    conns,   \* [host -> UpstreamHost.Conns]
    fails,   \* [host -> UpstreamHost.Fails]
    timers,  \* [host -> number of failure timers still pending]
    fwd,     \* [host -> requests actually inside the round trip to that backend]
    pc,      \* [req -> "start" | "wait" | "selected" | "counted" | "forwarding" | "returned" | "failing" | "done"]
    host,    \* [req -> host chosen (0 = none)]
    out,     \* [req -> outcome of the current round trip]
    tries,   \* [req -> attempts made]
    result,  \* [req -> "none" | "200" | "499" | "502" | "panic"]
    MaxConns, MaxFails, Retry,   \* the upstream block's settings (chosen in Init, then constant)
    hist     \* the behaviour so far (sync grain only; hidden from the fine-grained check by VIEW)
vars == <<conns, fails, timers, fwd, pc, host, out, tries, result, MaxConns, MaxFails, Retry, hist>>
view == <<conns, fails, timers, fwd, pc, host, out, tries, result, MaxConns, MaxFails, Retry>>
cfgv == <<MaxConns, MaxFails, Retry>>

Down(h) == fails[h] >= MaxFails
Full(h) == MaxConns > 0 /\ conns[h] >= MaxConns
Avail == {h \in Hosts : ~Down(h) /\ ~Full(h)}

Init ==
    /\ conns = [h \in Hosts |-> 0] /\ fails = [h \in Hosts |-> 0] /\ timers = [h \in Hosts |-> 0]
    /\ fwd = [h \in Hosts |-> 0]
    /\ pc = [r \in Reqs |-> "start"] /\ host = [r \in Reqs |-> 0] /\ out = [r \in Reqs |-> "ok"]
    /\ tries = [r \in Reqs |-> 0] /\ result = [r \in Reqs |-> "none"]
    /\ hist = <<>>
    /\ MaxConns \in ConnsOpts /\ MaxFails \in FailsOpts /\ Retry \in RetryOpts

\* what happens to a request that cannot proceed on this attempt: retry (after try_interval)
\* while try_duration lasts, else 502
GiveUpOrWait(r) ==
    IF Retry THEN pc' = [pc EXCEPT ![r] = "wait"] /\ UNCHANGED result
             ELSE pc' = [pc EXCEPT ![r] = "done"] /\ result' = [result EXCEPT ![r] = "502"]

\* ---- fine-grained steps ---------------------------------------------------
\* upstream.Select: some available host is chosen (which one is the policy's business)
Select(r, h) ==
    /\ pc[r] \in {"start", "wait"} /\ tries[r] < MaxTries
    /\ h \in Avail
    /\ pc' = [pc EXCEPT ![r] = "selected"] /\ host' = [host EXCEPT ![r] = h]
    /\ tries' = [tries EXCEPT ![r] = @ + 1]
    /\ UNCHANGED <<conns, fails, timers, fwd, out, result>>

\* Select returns nil: no host is available
NoHost(r) ==
    /\ pc[r] = "start" /\ Avail = {}
    /\ GiveUpOrWait(r)
    /\ UNCHANGED <<conns, fails, timers, fwd, host, out, tries>>

\* the request takes a connection slot on its host - atomically "if below the cap, increment";
\* if the host filled up since Select looked, the request is treated like one that found no host
Count(r) ==
    /\ pc[r] = "selected"
    /\ IF Full(host[r])
         THEN GiveUpOrWait(r) /\ UNCHANGED conns
         ELSE /\ conns' = [conns EXCEPT ![host[r]] = @ + 1]
              /\ pc' = [pc EXCEPT ![r] = "counted"] /\ UNCHANGED result
    /\ UNCHANGED <<fails, timers, fwd, host, out, tries>>

ForwardBegin(r) ==
    /\ pc[r] = "counted"
    /\ fwd' = [fwd EXCEPT ![host[r]] = @ + 1]
    /\ pc' = [pc EXCEPT ![r] = "forwarding"]
    /\ UNCHANGED <<conns, fails, timers, host, out, tries, result>>

ForwardEnd(r, o) ==
    /\ pc[r] = "forwarding"
    /\ fwd' = [fwd EXCEPT ![host[r]] = @ - 1]
    /\ out' = [out EXCEPT ![r] = o]
    /\ pc' = [pc EXCEPT ![r] = "returned"]
    /\ UNCHANGED <<conns, fails, timers, host, tries, result>>

\* the deferred decrement - runs for every outcome, a panic included
Uncount(r) ==
    /\ pc[r] = "returned"
    /\ conns' = [conns EXCEPT ![host[r]] = @ - 1]
    /\ CASE out[r] = "ok"     -> pc' = [pc EXCEPT ![r] = "done"] /\ result' = [result EXCEPT ![r] = "200"]
         [] out[r] = "cancel" -> pc' = [pc EXCEPT ![r] = "done"] /\ result' = [result EXCEPT ![r] = "499"]
         [] out[r] = "panic"  -> pc' = [pc EXCEPT ![r] = "done"] /\ result' = [result EXCEPT ![r] = "panic"]
         [] out[r] = "err"    -> pc' = [pc EXCEPT ![r] = "failing"] /\ UNCHANGED result
    /\ UNCHANGED <<fails, timers, fwd, host, out, tries>>

\* the failure is remembered for fail_timeout: Fails+1 and a timer that will take it back
CountFail(r) ==
    /\ pc[r] = "failing"
    /\ fails' = [fails EXCEPT ![host[r]] = @ + 1]
    /\ timers' = [timers EXCEPT ![host[r]] = @ + 1]
    /\ GiveUpOrWait(r)
    /\ UNCHANGED <<conns, fwd, host, out, tries>>

\* one failure timer of h fires
Expire(h) ==
    /\ timers[h] > 0
    /\ timers' = [timers EXCEPT ![h] = @ - 1]
    /\ fails' = [fails EXCEPT ![h] = @ - 1]
    /\ UNCHANGED <<conns, fwd, pc, host, out, tries, result>>

\* try_duration runs out for a waiting request
TimeUp(r) ==
    /\ pc[r] = "wait"
    /\ pc' = [pc EXCEPT ![r] = "done"] /\ result' = [result EXCEPT ![r] = "502"]
    /\ UNCHANGED <<conns, fails, timers, fwd, host, out, tries>>

Next ==
    /\ UNCHANGED <<hist, cfgv>>
    /\ \/ \E r \in Reqs : \/ \E h \in Hosts : Select(r, h)
                          \/ NoHost(r) \/ Count(r) \/ ForwardBegin(r) \/ Uncount(r) \/ CountFail(r) \/ TimeUp(r)
                          \/ \E o \in Outcomes : ForwardEnd(r, o)
       \/ \E h \in Hosts : Expire(h)
Spec == Init /\ [][Next]_vars /\ WF_vars(Next)

\* ---- properties ----------------------------------------------------------
Holding(h) == {r \in Reqs : host[r] = h /\ pc[r] \in {"counted", "forwarding", "returned"}}
\* the in-flight count is exact: the requests that took a slot and have not given it back
ConnsExact == \A h \in Hosts : conns[h] = Cardinality(Holding(h))
\* ... it covers every request actually being forwarded
ForwardedAreCounted == \A h \in Hosts : fwd[h] = Cardinality({r \in Reqs : host[r] = h /\ pc[r] = "forwarding"}) /\ fwd[h] <= conns[h]
\* ... and it never exceeds max_conns
Cap == MaxConns > 0 => \A h \in Hosts : conns[h] <= MaxConns /\ fwd[h] <= MaxConns
\* every recorded failure has its timer: fails = number of unexpired failures
FailsExact == \A h \in Hosts : fails[h] = timers[h]
\* down exactly while at least max_fails failures are unexpired (definition made explicit)
DownIff == \A h \in Hosts : (h \notin Avail) = (timers[h] >= MaxFails \/ (MaxConns > 0 /\ Cardinality(Holding(h)) >= MaxConns))
\* when traffic has stopped and the timers have fired everything is back to zero
Quiescent == ((\A r \in Reqs : pc[r] = "done") /\ (\A h \in Hosts : timers[h] = 0))
                => \A h \in Hosts : conns[h] = 0 /\ fails[h] = 0 /\ fwd[h] = 0
\* eventually all counters return to zero
EventuallyZero == <>[](\A h \in Hosts : conns[h] = 0 /\ fails[h] = 0)

\* ---- the sync grain: what an outside scheduler can order ------------------
\* Select: the request arrives at the policy and host h is chosen for it.
SSelect(r, h) == Select(r, h) /\ hist' = Append(hist, [a |-> "select", r |-> r, h |-> h, o |-> "", c |-> conns', f |-> fails', p |-> pc'[r]])
SNoHost(r) == NoHost(r) /\ hist' = Append(hist, [a |-> "nohost", r |-> r, h |-> 0, o |-> "", c |-> conns', f |-> fails', p |-> pc'[r]])
\* Go: the policy gate is released: Count, then (if a slot was taken) the round trip begins
SGo(r) ==
    /\ pc[r] = "selected"
    /\ IF Full(host[r])
         THEN GiveUpOrWait(r) /\ UNCHANGED <<conns, fwd>>
         ELSE /\ conns' = [conns EXCEPT ![host[r]] = @ + 1]
              /\ fwd' = [fwd EXCEPT ![host[r]] = @ + 1]
              /\ pc' = [pc EXCEPT ![r] = "forwarding"] /\ UNCHANGED result
    /\ UNCHANGED <<fails, timers, host, out, tries>>
    /\ hist' = Append(hist, [a |-> "go", r |-> r, h |-> host[r], o |-> "", c |-> conns', f |-> fails', p |-> pc'[r]])

\* Finish: the transport gate is released with outcome o: ForwardEnd, Uncount, CountFail in one go
SFinish(r, o) ==
    /\ pc[r] = "forwarding"
    /\ fwd' = [fwd EXCEPT ![host[r]] = @ - 1]
    /\ conns' = [conns EXCEPT ![host[r]] = @ - 1]
    /\ out' = [out EXCEPT ![r] = o]
    /\ CASE o = "ok"     -> pc' = [pc EXCEPT ![r] = "done"] /\ result' = [result EXCEPT ![r] = "200"] /\ UNCHANGED <<fails, timers>>
         [] o = "cancel" -> pc' = [pc EXCEPT ![r] = "done"] /\ result' = [result EXCEPT ![r] = "499"] /\ UNCHANGED <<fails, timers>>
         [] o = "panic"  -> pc' = [pc EXCEPT ![r] = "done"] /\ result' = [result EXCEPT ![r] = "panic"] /\ UNCHANGED <<fails, timers>>
         [] o = "err"    -> /\ fails' = [fails EXCEPT ![host[r]] = @ + 1]
                            /\ timers' = [timers EXCEPT ![host[r]] = @ + 1]
                            /\ GiveUpOrWait(r)
    /\ UNCHANGED <<host, tries>>
    /\ hist' = Append(hist, [a |-> "finish", r |-> r, h |-> host[r], o |-> o, c |-> conns', f |-> fails', p |-> pc'[r]])

\* all failure timers fire while no request is between its gates
SExpireAll ==
    /\ \E h \in Hosts : timers[h] > 0
    /\ \A r \in Reqs : pc[r] \in {"start", "done", "wait"}
    /\ timers' = [h \in Hosts |-> 0] /\ fails' = [h \in Hosts |-> 0]
    /\ UNCHANGED <<conns, fwd, pc, host, out, tries, result>>
    /\ hist' = Append(hist, [a |-> "expireall", r |-> 0, h |-> 0, o |-> "", c |-> conns', f |-> fails', p |-> ""])

NextSync ==
    /\ UNCHANGED cfgv
    /\ \/ \E r \in Reqs : \/ \E h \in Hosts : SSelect(r, h)
                          \/ SNoHost(r) \/ SGo(r)
                          \/ \E o \in Outcomes : SFinish(r, o)
       \/ SExpireAll
SpecSync == Init /\ [][NextSync]_vars

\* a behaviour is complete when no request can move any more
Terminal == Len(hist) > 0 /\ \A r \in Reqs : pc[r] = "done" \/ (pc[r] = "wait" /\ (tries[r] = MaxTries \/ Avail = {}))
Emit == Terminal => PrintT(<<"CASE", ToJson([maxconns |-> MaxConns, maxfails |-> MaxFails, retry |-> Retry, steps |-> hist,
                                          conns |-> conns, fails |-> fails, results |-> result])>>)
=============================================================================
