------------------------------- MODULE VHost -------------------------------
(***************************************************************************)
(* C01 - virtual-host routing.                                             *)
(*                                                                         *)
(* Operational part: Server.serveHTTP -> vhostTrie.Match as the code runs  *)
(* it: strip the port / lower-case (done by the concretisation: the model  *)
(* host is already the canonical one and the harness sends several         *)
(* spellings of it), TryCandidate(i) = one iteration of matchHost,         *)
(* NextFallback = one iteration of the fallback loop of Match, MatchPath = *)
(* longest byte prefix inside the chosen host only.                        *)
(* Declarative part: Best(sites, req) as the property states it.           *)
(***************************************************************************)
EXTENDS Naturals, Sequences, FiniteSets, FiniteSetsExt, SequencesExt, TLC, Json, HostMatch

CONSTANT K          \* maximum number of sites on the listener

Chars(s) == s       \* paths are sequences of one-character strings

\* ---- the alphabets -------------------------------------------------------
HostPats == { <<"a","b","c">>, <<"b","c">>, <<"*","b","c">>, <<"*","*","c">>, <<"*","*","*">>,
              <<"*","c">>, <<"*">>, <<"">>, <<"0","0","0","0">>, <<"::1">>, <<"::">>,
              <<"127","0","0","1">>, <<"fb","test">> }
SitePaths == { <<"/">>, <<"/","p">>, <<"/","p","/","q">>, <<"/","p","q">>, <<"/","P">> }

ReqHosts == << <<"a","b","c">>, <<"x","b","c">>, <<"b","c">>, <<"c">>, <<"z","y","x">>,
               <<"q","a","b","c">>, <<"::1">>, <<"127","0","0","1">>, <<"">>, <<"fb","test">>,
               <<"0","0","0","0">>, <<"x","y">>, <<"10","0","0","1">>, <<"::">> >>
ReqPaths == << <<"/">>, <<"/","p">>, <<"/","p","/","q">>, <<"/","p","/","q","/","r">>,
               <<"/","p","q">>, <<"/","p","q","r">>, <<"/","x">>, <<"/","P">> >>

\* only this host may be a plugin-designated fallback (SiteConfig.FallbackSite)
FbHost == <<"fb","test">>
Keys == { [h |-> h, p |-> p, fb |-> f] : h \in HostPats, p \in SitePaths, f \in {FALSE} }
        \cup { [h |-> FbHost, p |-> p, fb |-> TRUE] : p \in SitePaths }

\* a site set is well-formed when no two sites share host and path (casket rejects duplicates)
\* and the designated-fallback flag is per host
\* (duplicate detection lower-cases the path - Address.Normalize - although routing is byte-wise)
LowerPath(p) == [k \in 1..Len(p) |-> IF p[k] = "P" THEN "p" ELSE p[k]]
WellFormed(S) == \A s, t \in S : (s.h = t.h /\ LowerPath(s.p) = LowerPath(t.p) => s = t) /\ (s.h = t.h => s.fb = t.fb)

\* all subsets of Keys with at most K (<= 3) elements
SmallSubsets == {{}} \cup (IF K >= 1 THEN {{a} : a \in Keys} ELSE {})
                    \cup (IF K >= 2 THEN {{a, b} : a \in Keys, b \in Keys} ELSE {})
                    \cup (IF K >= 3 THEN {{a, b, c} : a \in Keys, b \in Keys, c \in Keys} ELSE {})

None == [h |-> NoHost, p |-> <<>>, fb |-> FALSE]

VARIABLES sites, rh, rp, pc, cur, ci, fi, branch, result
vars == <<sites, rh, rp, pc, cur, ci, fi, branch, result>>

HostsOf(S) == {s.h : s \in S}

\* the code's fallback list: built-ins, then designated ones (at most one here)
Fallbacks(S) == << <<"0","0","0","0">>, <<"::">>, <<"">> >> \o
                (IF \E s \in S : s.fb THEN << FbHost >> ELSE << >>)

\* ---- declarative property ------------------------------------------------
BestHost(S, h) ==
    LET P == HostsOf(S)
        own == MostSpecific(P, h)
    IN  IF own # NoHost THEN own
        ELSE LET F == Fallbacks(S)
                 hit == {j \in 1..Len(F) : MostSpecific(P, F[j]) # NoHost}
             IN  IF hit = {} THEN NoHost
                 ELSE MostSpecific(P, F[CHOOSE j \in hit : \A k \in hit : j <= k])

BestSite(S, h, p) ==
    LET bh == BestHost(S, h)
        C  == {s \in S : s.h = bh /\ IsPrefix(s.p, p)}
    IN  IF bh = NoHost \/ C = {} THEN None
        ELSE CHOOSE s \in C : \A t \in C : Len(s.p) >= Len(t.p)

\* ---- operational model ---------------------------------------------------
Init ==
    /\ sites \in {S \in SmallSubsets : WellFormed(S)}
    /\ rh \in 1..Len(ReqHosts)
    /\ rp \in 1..Len(ReqPaths)
    /\ pc = "matchHost"
    /\ cur = ReqHosts[rh]     \* host being looked up (request host, then fallbacks)
    /\ ci = 1                 \* candidate index inside matchHost
    /\ fi = 0                 \* fallback index (0 = the request host itself)
    /\ branch = NoHost
    /\ result = None

\* one iteration of the candidate loop of matchHost
TryCandidate ==
    /\ pc = "matchHost"
    /\ ci <= Len(cur) + 1
    /\ IF Candidates(cur)[ci] \in HostsOf(sites)
         THEN /\ branch' = Candidates(cur)[ci]
              /\ pc' = "matchPath"
              /\ UNCHANGED <<ci>>
         ELSE /\ ci' = ci + 1
              /\ UNCHANGED <<branch, pc>>
    /\ UNCHANGED <<sites, rh, rp, cur, fi, result>>

\* matchHost returned nil: next fallback host, or give up
NextFallback ==
    /\ pc = "matchHost"
    /\ ci > Len(cur) + 1
    /\ IF fi < Len(Fallbacks(sites))
         THEN /\ fi' = fi + 1
              /\ cur' = Fallbacks(sites)[fi + 1]
              /\ ci' = 1
              /\ UNCHANGED <<pc, result>>
         ELSE /\ pc' = "done"
              /\ result' = None
              /\ UNCHANGED <<fi, cur, ci>>
    /\ UNCHANGED <<sites, rh, rp, branch>>

\* matchPath: longest byte prefix among the sites of the chosen host only
MatchPath ==
    /\ pc = "matchPath"
    /\ LET C == {s \in sites : s.h = branch /\ IsPrefix(s.p, ReqPaths[rp])}
       IN  result' = IF C = {} THEN None ELSE CHOOSE s \in C : \A t \in C : Len(s.p) >= Len(t.p)
    /\ pc' = "done"
    /\ UNCHANGED <<sites, rh, rp, cur, ci, fi, branch>>

Next == TryCandidate \/ NextFallback \/ MatchPath
Spec == Init /\ [][Next]_vars /\ WF_vars(Next)

\* ---- properties ----------------------------------------------------------
RoutesToMostSpecific == pc = "done" => result = BestSite(sites, ReqHosts[rh], ReqPaths[rp])
AtMostOneSite == pc = "done" => (result = None \/ result \in sites)
NoneMeansNoMatch == (pc = "done" /\ result = None) =>
    ~ \E s \in sites : s.h = BestHost(sites, ReqHosts[rh]) /\ IsPrefix(s.p, ReqPaths[rp])
Terminates == <>(pc = "done")

\* ---- case emission: one CASE per site set, with the whole routing table --
\* (separate cfg: INIT InitEmit / NEXT Stop, so that the table is printed once per site set;
\*  table[i][j] = index into "sites" of the site that must answer host i, path j; 0 = none)
InitEmit ==
    /\ sites \in {S \in {{}} \cup {{a} : a \in Keys} : WellFormed(S)}
    /\ rh = 1 /\ rp = 1 /\ pc = "emit0" /\ cur = ReqHosts[1] /\ ci = 1 /\ fi = 0
    /\ branch = NoHost /\ result = None
\* grow a singleton to every superset of size <= K (lets TLC's workers share the enumeration)
Grow ==
    /\ pc = "emit0" /\ sites # {} /\ K >= 2
    /\ \E T \in ({{a} : a \in Keys} \cup (IF K >= 3 THEN {{a, b} : a \in Keys, b \in Keys} ELSE {})) :
          /\ Cardinality(sites \cup T) > 1
          /\ WellFormed(sites \cup T)
          /\ sites' = sites \cup T
    /\ pc' = "emit"
    /\ UNCHANGED <<rh, rp, cur, ci, fi, branch, result>>
IndexIn(seq, b) == IF b = None THEN 0 ELSE CHOOSE k \in 1..Len(seq) : seq[k] = b
Emit == pc \in {"emit0", "emit"} =>
          LET seq == SetToSeq(sites) IN
          PrintT(<<"CASE", ToJson([sites |-> seq, hosts |-> ReqHosts, paths |-> ReqPaths,
                   table |-> [i \in 1..Len(ReqHosts) |-> [j \in 1..Len(ReqPaths) |->
                                IndexIn(seq, BestSite(sites, ReqHosts[i], ReqPaths[j]))]]])>>)
=============================================================================
