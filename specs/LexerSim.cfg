CONSTANT N = 16
SPECIFICATION Spec
INVARIANT Total
INVARIANT LineIsOnePlusLineFeeds
INVARIANT TokenLine
INVARIANT TokenBound
INVARIANT LinesMonotone
INVARIANT FlagsConsistent
INVARIANT PlainSplit
INVARIANT Emit
CHECK_DEADLOCK FALSE
