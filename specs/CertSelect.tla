------------------------------ MODULE CertSelect ------------------------------
(***************************************************************************)
(* Which certificate a TLS client is shown (extension of C06).             *)
(*                                                                         *)
(* TLSGroup.tla decides which SITE's TLS settings govern a handshake and   *)
(* TLSDirective.tla how a `tls` directive becomes a configuration; both    *)
(* take the served CERTIFICATE for granted.  This module models what       *)
(* casket does with manually supplied certificates, from the `tls` lines   *)
(* of the Casketfile to the leaf a client is shown:                        *)
(*                                                                         *)
(* Environment (the author of the Casketfile):                             *)
(*   ChooseTopo, PickCert, Load    a layout of sites / listeners / `tls`   *)
(*                  lines, the certificates put into its load slots, the   *)
(*                  file handed to casket.Start                            *)
(*   Reload         Instance.Restart with the slots rotated (another       *)
(*                  certificate first for the same names)                  *)
(*   ReloadBad, RestartFailed   Instance.Restart with a file that is       *)
(*                  refused half-way: the new instance and its cache are   *)
(*                  dropped, the old instance goes on serving              *)
(* casket.go executeDirectives + caskettls/setup.go setupTLS (per site, in *)
(* file order; one action per step):                                       *)
(*   LineOff        `tls off`: Enabled = false, return at once             *)
(*   LinePair       `tls cert key`: CacheUnmanagedCertificatePEMFile       *)
(*   LineBare       a `tls { ... }` block without certificate, or          *)
(*                  `tls self_signed` (only a flag for now)                *)
(*   WalkEntry      `tls { load dir }`: ONE entry of loadCertsInDir's      *)
(*                  filepath.Walk (directory / not *.pem / bundle / bad)   *)
(*   EndDir         the walk is over                                       *)
(*   SelfSign       newSelfSignedCertificate(SAN = host) after the lines   *)
(*   StoreConfig    cfgMap[Hostname] = config; next site                   *)
(*   (cacheCertificate, certmagic cache.go: CacheCert - a certificate      *)
(*    already cached, by hash, is a no-op; else the hash is appended to    *)
(*    the index entry of every name of the certificate)                    *)
(*   MakeServers    one config group per listener (MakeTLSConfig)          *)
(* the handshake (caskettls/handshake.go, certmagic handshake.go, crypto/tls):*)
(*   GetConfig      configGroup.getConfig: which site's Config (its        *)
(*                  GetCertificate) answers - every Config of the instance *)
(*                  points to the SAME cache (NewConfig)                   *)
(*   Normalize      normalizedName(hello.ServerName)                       *)
(*   TryLocalIP, TryDefaultName   no SNI: the address the connection came  *)
(*                  in on (listener 1: 127.0.0.1, listener 2: 127.0.0.2),  *)
(*                  then -default-sni (certmagic DefaultServerName)         *)
(*   TryCandidate   exact name, then one more leading label starred        *)
(*   Consider, SelectorEnd   DefaultCertificateSelector, one loop          *)
(*                  iteration: first supported and current; else the last  *)
(*                  supported; else the first of the index entry           *)
(*   NoCertificate  "no certificate available" (alert internal_error)      *)
(*   ServerHandshake crypto/tls with the certificate it was handed         *)
(*   ClientVerify   the client checks the leaf for the name it asked       *)
(*                  (crypto/x509: SANs only, `*` = exactly one left label) *)
(*   Record, PlainListener   next probe                                    *)
(*                                                                         *)
(* Declarative part (readings of the whole file, no reference to steps):   *)
(* CacheMatchesFile (LoadDirExactlyPemBundles, overlapping loads),         *)
(* LoadFailsIffBad, SelectionRule (MostSpecificWins as the code has it),   *)
(* CertCoversName, NoCrossSiteKeyUse, KeyTypeNegotiation,                  *)
(* UnexpiredPreferred, ExpiredStillServed, ListenerIndependent,            *)
(* ReloadReplacesCertificates, FailedReloadKeepsCertificates.              *)
(* ListenerScoped and StrictSiteKeys are the two readings that do NOT hold *)
(* (one cache per instance, by design; CertSelect_scoped.cfg, by hand).    *)
(*                                                                         *)
(* Deliberate deviations: TLS settings are the defaults on every site      *)
(* (TLSGroup / TLSDirective vary them); PEM parsing is abstract (a file is *)
(* bundle - certificate first, key first, with an EC PARAMETERS block - or *)
(* one of six malformed kinds); OCSP stapling, managed certificates and the cache capacity are  *)
(* absent; FallbackServerName cannot be set through casket and is empty.   *)
(***************************************************************************)
EXTENDS Naturals, Sequences, FiniteSets, TLC, Json, HostMatch

CONSTANTS CertIds,      \* certificates the author puts into load slots
          Certs3,       \* ... those a three-slot file is made of
          Topos,        \* layouts explored
          ReloadTopos,  \* layouts after which a reload is explored
          FullOffers    \* every hello with every offer (TRUE) or factored (FALSE)

\* ================================ names ===========================================
A   == <<"a", "test">>
XA  == <<"x", "a", "test">>
YXA == <<"y", "x", "a", "test">>
B   == <<"b", "test">>
Z   == <<"z", "test">>                  \* a name nobody serves
WA  == <<"*", "a", "test">>
WWA == <<"*", "*", "a", "test">>
IPN == <<"127.0.0.1">>                  \* the address of listener 1 (one label: never starred, never split)
IPN2 == <<"127.0.0.2">>                 \* the address of listener 2 (another port AND another bind address)
LocalIP(l) == IF l = 1 THEN IPN ELSE IPN2
CA  == <<"">>                           \* no name: catch-all site, absent SNI
NoCN == <<>>

\* ================================ certificates =====================================
\* cn: subject common name (legacy), sans: DNS SANs, ips: IP SANs, key: key type,
\* val: validity today, up: SANs spelled in upper case in the file, ca: issued by the harness CA
Crt(cn, sans, ips, key, val, up) == [cn |-> cn, sans |-> sans, ips |-> ips, key |-> key, val |-> val, up |-> up, ca |-> TRUE]
Cert == [ A   |-> Crt(NoCN, {A}, {}, "ecdsa", "ok", FALSE),
          W   |-> Crt(NoCN, {WA}, {}, "ecdsa", "ok", FALSE),
          AW  |-> Crt(NoCN, {A, WA}, {}, "ecdsa", "ok", FALSE),
          AB  |-> Crt(NoCN, {A, B}, {}, "ecdsa", "ok", FALSE),
          B   |-> Crt(NoCN, {B}, {}, "ecdsa", "ok", FALSE),
          Ar  |-> Crt(NoCN, {A}, {}, "rsa", "ok", FALSE),
          Ae  |-> Crt(NoCN, {A}, {}, "ed25519", "ok", FALSE),
          Ax  |-> Crt(NoCN, {A}, {}, "ecdsa", "expired", FALSE),
          Af  |-> Crt(NoCN, {A}, {}, "ecdsa", "future", FALSE),
          Acn |-> Crt(A, {}, {}, "ecdsa", "ok", FALSE),            \* CN only: a name for certmagic, none for crypto/x509
          AU  |-> Crt(NoCN, {A}, {}, "ecdsa", "ok", TRUE),         \* SAN written A.TEST
          IP  |-> Crt(NoCN, {}, {IPN}, "ecdsa", "ok", FALSE),
          IP2 |-> Crt(NoCN, {}, {IPN2}, "ecdsa", "ok", FALSE),
          ABI |-> Crt(NoCN, {A, B}, {IPN}, "ecdsa", "ok", FALSE),
          WW  |-> Crt(NoCN, {WWA}, {}, "ecdsa", "ok", FALSE),      \* *.*.a.test: an index name for certmagic, matches nothing for crypto/x509
          Wx  |-> Crt(NoCN, {WA}, {}, "ecdsa", "expired", FALSE),
          Wr  |-> Crt(NoCN, {WA}, {}, "rsa", "ok", FALSE),
          ZZ  |-> Crt(NoCN, {Z}, {}, "ecdsa", "ok", FALSE),        \* the decoy put into files that must not be loaded
          SELF |-> [cn |-> NoCN, sans |-> {A}, ips |-> {}, key |-> "ecdsa", val |-> "ok", up |-> FALSE, ca |-> FALSE] ]
AllCerts == DOMAIN Cert
ASSUME CertIds \subseteq AllCerts /\ Certs3 \subseteq CertIds

\* certmagic fillCertFromLeaf: Certificate.Names = CN, DNS SANs, IP SANs, all lower-cased
CMNames(c) == (IF Cert[c].cn # NoCN THEN {Cert[c].cn} ELSE {}) \cup Cert[c].sans \cup Cert[c].ips
\* ... and a name n is "covered" in certmagic's sense when n or a starred form of n is one of them
CMCovers(c, n) == \E i \in 1..(Len(n) + 1) : Candidates(n)[i] \in CMNames(c)
\* crypto/x509 VerifyHostname (what the client applies, and hello.SupportsCertificate on the server):
\* SANs only, a pattern's `*` only as its whole first label, standing for exactly one label
DNSMatch(p, n) == \/ p = n
                  \/ /\ Len(p) = Len(n) /\ Len(p) >= 2 /\ p[1] = "*"
                     /\ \A i \in 2..Len(p) : p[i] = n[i]
X509Covers(c, n) == IF n \in {IPN, IPN2} THEN n \in Cert[c].ips ELSE \E p \in Cert[c].sans : DNSMatch(p, n)
Current(c) == Cert[c].val = "ok"

\* ================================ the client ======================================
\* ask: the name the client wants to reach; sp: how it spells it
\*   plain / upper (A.TEST) / dot (a.test. - crypto/tls strips the dot before sending) /
\*   absent (no ServerName) / ip (ServerName = the address: crypto/tls sends no SNI for an IP literal);
\*   in both the client wants the address it connects to (ask is a place holder, see Ask)
Hellos == << [ask |-> A, sp |-> "plain"], [ask |-> A, sp |-> "upper"], [ask |-> A, sp |-> "dot"],
             [ask |-> XA, sp |-> "plain"], [ask |-> YXA, sp |-> "plain"], [ask |-> B, sp |-> "plain"],
             [ask |-> Z, sp |-> "plain"], [ask |-> IPN, sp |-> "absent"], [ask |-> IPN, sp |-> "ip"],
             [ask |-> XA, sp |-> "upper"] >>
OfferHellos == {1, 4, 8}                \* the hellos tried with every offer when FullOffers = FALSE
Wire(h) == IF h.sp \in {"absent", "ip"} THEN CA ELSE h.ask      \* (case is folded by Normalize)
Ask(h, l) == IF h.sp \in {"absent", "ip"} THEN LocalIP(l) ELSE h.ask
\* t13: TLS 1.3 (every signature algorithm)   t12: TLS 1.2, ECDSA and RSA suites
\* t12rsa: TLS 1.2, only ECDHE-RSA suites     t12ecdsa: TLS 1.2, only ECDHE-ECDSA suites
Offers == << "t13", "t12", "t12rsa", "t12ecdsa" >>
KeyOK(k, o) == CASE o = "t12rsa" -> k = "rsa"
                 [] o = "t12ecdsa" -> k \in {"ecdsa", "ed25519"}
                 [] OTHER -> TRUE
\* crypto/tls ClientHelloInfo.SupportsCertificate: valid for the server name (when one was sent), key usable
Supports(c, n, o) == (n # CA => X509Covers(c, n)) /\ KeyOK(Cert[c].key, o)

\* ================================ the Casketfile ====================================
\* a line of a site: pair (tls cert key) | pairbad (the key of another certificate) | dir (tls { load d }) |
\* dirmissing (load of a directory that does not exist) | self | bare | off
Ln(kind, cert, files) == [kind |-> kind, cert |-> cert, files |-> files]
Pair(c) == Ln("pair", c, <<>>)
F(name, ext, kind, cert) == [name |-> name, ext |-> ext, kind |-> kind, cert |-> cert]
\* the directory of a `load`: entries in the lexical order filepath.Walk visits them.  kind: bundle
\* (certificate then key) | keyfirst (key, certificate, a second foreign key: only the first key counts) | ecparams (certificate, EC PARAMETERS block, EC key: what openssl ecparam
\* -genkey writes) | dir (a sub-directory) | certonly | keyonly | garbage | empty |
\* unknown (a block of a type loadCertsInDir does not know) | mismatch (certificate with another key)
GoodDir(ids) ==
    << F("00-notes", "txt", "bundle", "ZZ"), F("10-sub", "", "dir", "") >>      \* a bundle, but not *.pem; a sub-directory
    \o (IF Len(ids) >= 1 THEN << F("10-sub/11-one", "pem", IF Cert[ids[1]].key = "ecdsa" THEN "ecparams" ELSE "bundle", ids[1]) >> ELSE <<>>)
    \o << F("10-sub/12-other", "crt", "bundle", "ZZ") >>
    \o (IF Len(ids) >= 2 THEN << F("20-two", "PEM", "keyfirst", ids[2]) >> ELSE <<>>)
    \o (IF Len(ids) >= 3 THEN << F("30-three", "pem", "bundle", ids[3]) >> ELSE <<>>)
    \o << F("90-key", "key", "keyonly", "") >>
BadDir(ids, kind) == << F("10-one", "pem", "bundle", ids[1]), F("50-bad", "pem", kind, IF kind \in {"certonly", "mismatch"} THEN "ZZ" ELSE "") >>
BadKinds == {"certonly", "keyonly", "garbage", "empty", "unknown", "mismatch"}

Site(l, h, lines) == [lst |-> l, host |-> h, lines |-> lines, blk |-> 0]
SiteB(l, h, lines, b) == [lst |-> l, host |-> h, lines |-> lines, blk |-> b]   \* one of several keys of server block b
Pairs(s, i, j) == [k \in 1..(IF j >= i THEN j - i + 1 ELSE 0) |-> Pair(s[i + k - 1])]
\* the layouts: what the author builds around the load slots s
Arity(t) == CASE t \in {"one", "dir", "wild", "plain", "ip", "dflt", "self", "keys"} -> 1..3
              [] t \in {"two", "cross"} -> 2..3
              [] t = "three" -> {3}
              [] t = "dup" -> {2}
              [] t = "selfcatch" -> {0}
              [] OTHER -> {1}                \* missingdir, badpair, bad-<kind>
AllTopos == {"one", "dir", "wild", "plain", "ip", "dflt", "self", "keys", "two", "cross", "three", "dup", "selfcatch", "missingdir", "badpair"}
            \cup {"bad-certonly", "bad-keyonly", "bad-garbage", "bad-empty", "bad-unknown", "bad-mismatch"}
BadKindOf(t) == CASE t = "bad-certonly" -> "certonly" [] t = "bad-keyonly" -> "keyonly" [] t = "bad-garbage" -> "garbage"
                  [] t = "bad-empty" -> "empty" [] t = "bad-unknown" -> "unknown" [] OTHER -> "mismatch"
ASSUME Topos \subseteq AllTopos /\ ReloadTopos \subseteq Topos
Sites(t, s) ==
    LET k == Len(s) IN
    CASE t = "one"    -> << Site(1, A, Pairs(s, 1, k)) >>                                  \* one site, one `tls` line per certificate
      [] t = "dir"    -> << Site(1, CA, << Ln("dir", "", GoodDir(s)) >>) >>                 \* a catch-all site loading a directory
      [] t = "two"    -> << Site(1, A, Pairs(s, 1, 1)), Site(1, B, Pairs(s, 2, k)) >>       \* two sites of one listener
      [] t = "cross"  -> << Site(1, A, Pairs(s, 1, 1)), Site(2, B, Pairs(s, 2, k)) >>       \* two listeners
      [] t = "wild"   -> << Site(1, WA, Pairs(s, 1, k)), Site(1, B, << Ln("bare", "", <<>>) >>),
                            Site(2, CA, << Ln("bare", "", <<>>) >>) >>                      \* sites without a certificate of their own
      [] t = "plain"  -> << Site(1, A, Pairs(s, 1, 1) \o << Ln("off", "", <<>>) >>),        \* a plaintext site that names a certificate
                            Site(2, CA, IF k = 1 THEN << Ln("bare", "", <<>>) >> ELSE Pairs(s, 2, k)) >>
      [] t = "ip"     -> << Site(1, IPN, Pairs(s, 1, k)) >>                                 \* a site named after the address
      [] t = "dflt"   -> << Site(1, B, Pairs(s, 1, k)) >>                                   \* ... started with -default-sni A.TEST
      [] t = "self"   -> << Site(1, A, << Ln("self", "", <<>>) >>), Site(1, B, Pairs(s, 1, k)) >>
      [] t = "keys"   -> << SiteB(1, A, Pairs(s, 1, k), 1), SiteB(1, B, Pairs(s, 1, k), 1) >>  \* `a.test, b.test { tls ... }`: set up once per key
      [] t = "three"  -> << Site(1, A, Pairs(s, 1, 1)), Site(1, WA, Pairs(s, 2, 2)), Site(2, B, Pairs(s, 3, 3)) >>
      [] t = "dup"    -> << Site(1, A, << Pair(s[1]), Pair(s[2]) >>), Site(2, B, << Pair(s[2]), Pair(s[1]) >>) >>
      [] t = "selfcatch" -> << Site(1, CA, << Ln("self", "", <<>>) >>) >>
      [] t = "missingdir" -> << Site(1, A, << Pair(s[1]), Ln("dirmissing", "", <<>>) >>) >>
      [] t = "badpair" -> << Site(1, A, << Ln("pairbad", s[1], <<>>) >>) >>
      [] OTHER        -> << Site(1, A, << Ln("dir", "", BadDir(s, BadKindOf(t))) >>) >>
DefaultName(t) == IF t = "dflt" THEN A ELSE CA          \* certmagic.Default.DefaultServerName (spelled A.TEST by the harness)

\* ================================ state ===========================================
VARIABLES topo, slots, prev, gen, sites,  \* the file: layout, load slots, (after a reload) the slots before, generation
          pc, si, li, fi,                 \* control point; site / line / directory entry being set up
          cache, index, oldcache, oldtab, \* the instance's certificate cache (hashes in insertion order), its name index; the previous instance's cache and answers
          enabled, err,                   \* per site: TLS enabled; load error class
          cmaps,                          \* listener -> (host -> site): the config groups
          lst, hi, oi,                    \* the probe: listener, hello, offer
          gov, name, k, choices, ci, best, leaf,   \* getConfig's site; certmagic's locals
          res, tab                        \* the outcome of this probe; all outcomes so far
vars == <<topo, slots, prev, gen, sites, pc, si, li, fi, cache, index, oldcache, oldtab, enabled, err, cmaps, lst, hi, oi,
          gov, name, k, choices, ci, best, leaf, res, tab>>

NoIndex == [n \in {} |-> <<>>]
NoMaps == [l \in {} |-> 0]
NoRes == [out |-> "", leaf |-> "", name |-> FALSE, time |-> FALSE, chain |-> FALSE]
hello == Hellos[hi]
offer == Offers[oi]
Bucket(n) == IF n \in DOMAIN index THEN index[n] ELSE <<>>       \* Cache.getAllMatchingCerts: exactly this subject
Range(s) == {s[i] : i \in 1..Len(s)}

Init == /\ topo = "" /\ slots = <<>> /\ prev = <<>> /\ gen = 1 /\ sites = <<>>
        /\ pc = "topo" /\ si = 1 /\ li = 1 /\ fi = 1
        /\ cache = <<>> /\ index = NoIndex /\ oldcache = <<>> /\ oldtab = <<>> /\ enabled = <<>> /\ err = "" /\ cmaps = NoMaps
        /\ lst = 1 /\ hi = 1 /\ oi = 1 /\ gov = 0 /\ name = CA /\ k = 1 /\ choices = <<>> /\ ci = 1 /\ best = "" /\ leaf = ""
        /\ res = NoRes /\ tab = <<>>

\* ================================ the author ========================================
setupVars == <<si, li, fi, cache, index, oldcache, oldtab, enabled, err, cmaps>>
probeVars == <<lst, hi, oi, gov, name, k, choices, ci, best, leaf, res, tab>>
ChooseTopo(t) == /\ pc = "topo" /\ topo' = t /\ pc' = "pick"
                 /\ UNCHANGED <<slots, prev, gen, sites>> /\ UNCHANGED setupVars /\ UNCHANGED probeVars
MaxArity(t) == CHOOSE n \in Arity(t) : \A m \in Arity(t) : m <= n
PickCert(c) == /\ pc = "pick" /\ Len(slots) < MaxArity(topo) /\ c \notin Range(slots)
               /\ (Len(slots) >= 2 => (c \in Certs3 /\ Range(slots) \subseteq Certs3))
               /\ slots' = Append(slots, c)
               /\ UNCHANGED <<topo, prev, gen, sites, pc>> /\ UNCHANGED setupVars /\ UNCHANGED probeVars
Load == /\ pc = "pick" /\ Len(slots) \in Arity(topo)
        /\ sites' = Sites(topo, slots) /\ enabled' = [i \in 1..Len(Sites(topo, slots)) |-> TRUE]
        /\ pc' = "setup"
        /\ UNCHANGED <<topo, slots, prev, gen, si, li, fi, cache, index, oldcache, oldtab, err, cmaps>> /\ UNCHANGED probeVars

\* ================================ setupTLS, site by site ===============================
site == sites[si]
line == site.lines[li]
AtLine == pc = "setup" /\ si <= Len(sites) /\ li <= Len(site.lines)
Rest == <<topo, slots, prev, gen, sites, oldcache, oldtab, cmaps>>
\* certmagic Cache.cacheCertificate
CacheSet(c) == IF c \in Range(cache) THEN UNCHANGED <<cache, index>>
               ELSE /\ cache' = Append(cache, c)
                    /\ index' = [n \in (DOMAIN index) \cup CMNames(c) |->
                                    IF n \in CMNames(c) THEN Append(Bucket(n), c) ELSE index[n]]
Fail(e) == /\ err' = e /\ pc' = "failed" /\ UNCHANGED <<cache, index, si, li, fi, enabled>>

LineOff == /\ AtLine /\ line.kind = "off"
           /\ enabled' = [enabled EXCEPT ![si] = FALSE]
           /\ si' = si + 1 /\ li' = 1 /\ fi' = 1            \* return nil: later lines are never read, nothing is self-signed
           /\ UNCHANGED <<pc, cache, index, err>> /\ UNCHANGED Rest /\ UNCHANGED probeVars
LinePair == /\ AtLine /\ line.kind \in {"pair", "pairbad"}
            /\ IF line.kind = "pairbad" THEN Fail("keypair")        \* tls.X509KeyPair: private key does not match public key
               ELSE CacheSet(line.cert) /\ li' = li + 1 /\ UNCHANGED <<pc, si, fi, enabled, err>>
            /\ UNCHANGED Rest /\ UNCHANGED probeVars
LineBare == /\ AtLine /\ line.kind \in {"bare", "self"}              \* nothing to load now (self_signed: config.SelfSigned = true)
            /\ li' = li + 1
            /\ UNCHANGED <<pc, si, fi, cache, index, enabled, err>> /\ UNCHANGED Rest /\ UNCHANGED probeVars
\* loadCertsInDir: one call of the walk function
GoodKinds == {"bundle", "keyfirst", "ecparams"}
IsPem(f) == f.ext \in {"pem", "PEM"}                                 \* strings.HasSuffix(strings.ToLower(name), ".pem")
FileVerdict(f) == IF f.kind = "dir" \/ ~IsPem(f) THEN "skip"
                  ELSE CASE f.kind \in GoodKinds -> "load"
                         [] f.kind = "certonly" -> "nokey"           \* no private key block found
                         [] f.kind \in {"keyonly", "garbage", "empty"} -> "nopem"   \* failed to parse PEM data
                         [] f.kind = "unknown" -> "unknownblock"     \* unrecognized PEM block type
                         [] OTHER -> "keypair"                       \* failed to load cert and key
WalkEntry == /\ AtLine /\ line.kind = "dir" /\ fi <= Len(line.files)
             /\ LET f == line.files[fi] v == FileVerdict(f) IN
                CASE v = "skip" -> (fi' = fi + 1 /\ UNCHANGED <<pc, si, li, cache, index, enabled, err>>)
                  [] v = "load" -> (CacheSet(f.cert) /\ fi' = fi + 1 /\ UNCHANGED <<pc, si, li, enabled, err>>)
                  [] OTHER -> Fail(v)
             /\ UNCHANGED Rest /\ UNCHANGED probeVars
\* the walk is over (a directory that does not exist: "[WARNING] Unable to traverse into ...; skipping", nothing loaded)
EndDir == /\ AtLine /\ (line.kind = "dirmissing" \/ (line.kind = "dir" /\ fi > Len(line.files)))
          /\ li' = li + 1 /\ fi' = 1
          /\ UNCHANGED <<pc, si, cache, index, enabled, err>> /\ UNCHANGED Rest /\ UNCHANGED probeVars
HasSelf(s) == \E i \in 1..Len(s.lines) : s.lines[i].kind = "self"
SelfSign == /\ pc = "setup" /\ si <= Len(sites) /\ li = Len(site.lines) + 1 /\ HasSelf(site)
            /\ IF site.host = CA THEN Fail("nonames")        \* "self-signed: certificate has no names"
               ELSE CacheSet("SELF") /\ li' = li + 1 /\ UNCHANGED <<pc, si, fi, enabled, err>>
            /\ UNCHANGED Rest /\ UNCHANGED probeVars
StoreConfig == /\ pc = "setup" /\ si <= Len(sites)
               /\ li = Len(site.lines) + (IF HasSelf(site) THEN 2 ELSE 1)
               /\ si' = si + 1 /\ li' = 1 /\ fi' = 1
               /\ UNCHANGED <<pc, cache, index, enabled, err>> /\ UNCHANGED Rest /\ UNCHANGED probeVars
\* MakeServers / MakeTLSConfig: the sites of a listener keyed by host name (a listener whose sites are all `off` is plaintext)
Listeners == {sites[i].lst : i \in 1..Len(sites)}
GroupOf(l) == LET S == {i \in 1..Len(sites) : sites[i].lst = l /\ enabled[i]} IN
              [h \in {sites[i].host : i \in S} |-> CHOOSE i \in S : sites[i].host = h]
MakeServers == /\ pc = "setup" /\ si > Len(sites)
               /\ cmaps' = [l \in Listeners |-> GroupOf(l)]
               /\ pc' = "probe" /\ lst' = 1 /\ hi' = 1 /\ oi' = 1
               /\ UNCHANGED <<topo, slots, prev, gen, sites, si, li, fi, cache, index, oldcache, oldtab, enabled, err>>
               /\ UNCHANGED <<gov, name, k, choices, ci, best, leaf, res, tab>>

\* ================================ one handshake ======================================
Fixed == <<topo, slots, prev, gen, sites, si, li, fi, cache, index, oldcache, oldtab, enabled, err, cmaps, lst, hi, oi, tab>>
TLSListener(l) == DOMAIN cmaps[l] # {}
Lower(n) == n                                \* names are kept lower-case; spelling is in hello.sp / Cert.up
\* caskettls configGroup.getConfig (TLSGroup.tla has it step by step)
GovSet(l, w) ==
    LET cm == cmaps[l]
        n0 == IF w = CA THEN Lower(DefaultName(topo)) ELSE w
    IN  IF n0 = CA /\ LocalIP(l) \in DOMAIN cm THEN {cm[LocalIP(l)]}
        ELSE IF FirstHit(DOMAIN cm, n0) # NoHost THEN {cm[FirstHit(DOMAIN cm, n0)]}
        ELSE IF CA \in DOMAIN cm THEN {cm[CA]}
        ELSE {cm[h] : h \in DOMAIN cm}                                 \* "failover with a random config"
PlainListener == /\ pc = "probe" /\ ~TLSListener(lst)
                 /\ res' = [NoRes EXCEPT !.out = "plain"] /\ pc' = "rec"
                 /\ UNCHANGED Fixed /\ UNCHANGED <<gov, name, k, choices, ci, best, leaf>>
GetConfig == /\ pc = "probe" /\ TLSListener(lst)
             /\ gov' \in GovSet(lst, Wire(hello))
             /\ pc' = "getcert"
             /\ UNCHANGED Fixed /\ UNCHANGED <<name, k, choices, ci, best, leaf, res>>
\* certmagic getCertificateFromCache
Normalize == /\ pc = "getcert"
             /\ name' = Lower(Wire(hello))
             /\ pc' = IF Wire(hello) = CA THEN "byip" ELSE "cand"
             /\ k' = 1
             /\ UNCHANGED Fixed /\ UNCHANGED <<gov, choices, ci, best, leaf, res>>
Enter(b) == /\ choices' = b /\ ci' = 1 /\ best' = b[1] /\ pc' = "select"
TryLocalIP == /\ pc = "byip"
              /\ IF Bucket(LocalIP(lst)) # <<>> THEN Enter(Bucket(LocalIP(lst)))
                 ELSE /\ pc' = IF DefaultName(topo) # CA THEN "bydflt" ELSE "nocert"
                      /\ UNCHANGED <<choices, ci, best>>
              /\ UNCHANGED Fixed /\ UNCHANGED <<gov, name, k, leaf, res>>
TryDefaultName == /\ pc = "bydflt"
                  /\ IF Bucket(Lower(DefaultName(topo))) # <<>> THEN Enter(Bucket(Lower(DefaultName(topo))))
                     ELSE pc' = "nocert" /\ UNCHANGED <<choices, ci, best>>
                  /\ UNCHANGED Fixed /\ UNCHANGED <<gov, name, k, leaf, res>>
TryCandidate == /\ pc = "cand"
                /\ IF Bucket(Candidates(name)[k]) # <<>> THEN Enter(Bucket(Candidates(name)[k])) /\ UNCHANGED k
                   ELSE /\ k' = k + 1
                        /\ pc' = IF k + 1 > Len(name) + 1 THEN "nocert" ELSE "cand"
                        /\ UNCHANGED <<choices, ci, best>>
                /\ UNCHANGED Fixed /\ UNCHANGED <<gov, name, leaf, res>>
\* DefaultCertificateSelector
Consider == /\ pc = "select" /\ ci <= Len(choices)
            /\ LET c == choices[ci] IN
               IF ~Supports(c, name, offer) THEN ci' = ci + 1 /\ UNCHANGED <<best, leaf, pc>>
               ELSE /\ best' = c
                    /\ IF Current(c) THEN leaf' = c /\ pc' = "server" /\ UNCHANGED ci
                       ELSE ci' = ci + 1 /\ UNCHANGED <<leaf, pc>>
            /\ UNCHANGED Fixed /\ UNCHANGED <<gov, name, k, choices, res>>
SelectorEnd == /\ pc = "select" /\ ci > Len(choices)
               /\ leaf' = best /\ pc' = "server"
               /\ UNCHANGED Fixed /\ UNCHANGED <<gov, name, k, choices, ci, best, res>>
NoCertificate == /\ pc = "nocert"
                 /\ res' = [NoRes EXCEPT !.out = "nocert"] /\ pc' = "rec"
                 /\ UNCHANGED Fixed /\ UNCHANGED <<gov, name, k, choices, ci, best, leaf>>
\* crypto/tls with the certificate GetCertificate returned: a key the offer has no suite for ends the handshake
ServerHandshake == /\ pc = "server"
                   /\ IF KeyOK(Cert[leaf].key, offer) THEN pc' = "verify" /\ UNCHANGED res
                      ELSE res' = [NoRes EXCEPT !.out = "nosuite"] /\ pc' = "rec"
                   /\ UNCHANGED Fixed /\ UNCHANGED <<gov, name, k, choices, ci, best, leaf>>
ClientVerify == /\ pc = "verify"
                /\ res' = [out |-> "ok", leaf |-> leaf, name |-> X509Covers(leaf, Ask(hello, lst)),
                           time |-> Current(leaf), chain |-> Cert[leaf].ca]
                /\ pc' = "rec"
                /\ UNCHANGED Fixed /\ UNCHANGED <<gov, name, k, choices, ci, best, leaf>>
\* the next probe in the order listener, hello, offer
Probes == {<<l, h, o>> : l \in DOMAIN cmaps, h \in 1..Len(Hellos), o \in 1..Len(Offers)}
Before(p, q) == \/ p[1] < q[1] \/ (p[1] = q[1] /\ p[2] < q[2]) \/ (p[1] = q[1] /\ p[2] = q[2] /\ p[3] < q[3])
Wanted(p) == IF ~TLSListener(p[1]) THEN p[2] = 1 /\ p[3] = 1
             ELSE FullOffers \/ p[3] = 1 \/ p[2] \in OfferHellos
Later == {p \in Probes : Wanted(p) /\ Before(<<lst, hi, oi>>, p)}
Record == /\ pc = "rec"
          /\ tab' = Append(tab, [l |-> lst, h |-> hi, o |-> oi, out |-> res.out, leaf |-> res.leaf,
                                 name |-> res.name, time |-> res.time, chain |-> res.chain])
          /\ LET later == Later IN
             IF later = {} THEN pc' = "done" /\ UNCHANGED <<lst, hi, oi>>
             ELSE LET p == CHOOSE p \in later : \A q \in later : p = q \/ Before(p, q) IN
                  lst' = p[1] /\ hi' = p[2] /\ oi' = p[3] /\ pc' = "probe"
          /\ res' = NoRes /\ gov' = 0 /\ name' = CA /\ k' = 1 /\ choices' = <<>> /\ ci' = 1 /\ best' = "" /\ leaf' = ""
          /\ UNCHANGED <<topo, slots, prev, gen, sites, si, li, fi, cache, index, oldcache, oldtab, enabled, err, cmaps>>

\* ================================ reload ==============================================
\* Instance.Restart: a NEW instance (its own Storage, hence its own certificate cache) is set up from the new
\* file while the old one serves; then the old listeners are closed and the old cache is stopped.
Sibling(c) == IF c = "A" THEN "AB" ELSE "A"
NextSlots(s) == IF Len(s) >= 2 THEN Tail(s) \o <<Head(s)>> ELSE << Sibling(s[1]) >>
Reload == /\ pc = "done" /\ gen = 1 /\ topo \in ReloadTopos /\ Len(slots) >= 1
          /\ gen' = 2 /\ prev' = slots /\ slots' = NextSlots(slots)
          /\ sites' = Sites(topo, NextSlots(slots)) /\ enabled' = [i \in 1..Len(Sites(topo, NextSlots(slots))) |-> TRUE]
          /\ oldcache' = cache /\ oldtab' = tab /\ cache' = <<>> /\ index' = NoIndex
          /\ pc' = "setup" /\ si' = 1 /\ li' = 1 /\ fi' = 1 /\ tab' = <<>> /\ lst' = 1 /\ hi' = 1 /\ oi' = 1
          /\ UNCHANGED <<topo, err, cmaps, gov, name, k, choices, ci, best, leaf, res>>
\* a reload whose file is refused: the old file plus one more site whose key does not fit its certificate. The new
\* instance gets as far as that line (its cache fills up) and is thrown away; the old instance goes on serving.
\* gen = 3: the refused file is being set up; gen = 4: the old instance after Restart has returned its error
RefusedFile(t, s) == Append(Sites(t, s), Site(1, Z, << Ln("pairbad", s[1], <<>>) >>))
ReloadBad == /\ pc = "done" /\ gen = 1 /\ topo \in ReloadTopos /\ Len(slots) >= 1
             /\ gen' = 3
             /\ sites' = RefusedFile(topo, slots) /\ enabled' = [i \in 1..Len(RefusedFile(topo, slots)) |-> TRUE]
             /\ oldcache' = cache /\ oldtab' = tab /\ cache' = <<>> /\ index' = NoIndex
             /\ pc' = "setup" /\ si' = 1 /\ li' = 1 /\ fi' = 1 /\ tab' = <<>> /\ lst' = 1 /\ hi' = 1 /\ oi' = 1
             /\ UNCHANGED <<topo, slots, prev, err, cmaps, gov, name, k, choices, ci, best, leaf, res>>
IndexFor(cs) == [n \in UNION {CMNames(cs[i]) : i \in 1..Len(cs)} |-> LET Has(c) == n \in CMNames(c) IN SelectSeq(cs, Has)]
RestartFailed == /\ pc = "failed" /\ gen = 3
                 /\ gen' = 4 /\ err' = ""
                 /\ sites' = Sites(topo, slots) /\ enabled' = [i \in 1..Len(Sites(topo, slots)) |-> TRUE]   \* the serving instance's file
                 /\ cache' = oldcache /\ index' = IndexFor(oldcache)           \* ... and its cache, untouched
                 /\ pc' = "probe" /\ si' = Len(Sites(topo, slots)) + 1 /\ li' = 1 /\ fi' = 1 /\ tab' = <<>> /\ lst' = 1 /\ hi' = 1 /\ oi' = 1
                 /\ UNCHANGED <<topo, slots, prev, oldcache, oldtab, cmaps, gov, name, k, choices, ci, best, leaf, res>>

Next == \/ \E t \in Topos : ChooseTopo(t)
        \/ \E c \in CertIds : PickCert(c)
        \/ Load
        \/ LineOff \/ LinePair \/ LineBare \/ WalkEntry \/ EndDir \/ SelfSign \/ StoreConfig \/ MakeServers
        \/ PlainListener \/ GetConfig \/ Normalize \/ TryLocalIP \/ TryDefaultName \/ TryCandidate
        \/ Consider \/ SelectorEnd \/ NoCertificate \/ ServerHandshake \/ ClientVerify \/ Record
        \/ Reload \/ ReloadBad \/ RestartFailed
Spec == Init /\ [][Next]_vars

\* ================================ the declarative part ====================================
\* ---- what the file says is loaded (a reading of the whole file) ---------------------------
RECURSIVE Flat(_)
Flat(ss) == IF ss = <<>> THEN <<>> ELSE Head(ss) \o Flat(Tail(ss))
\* the lines of a site that count: those in front of the first `off`
Counted(s) == LET offs == {i \in 1..Len(s.lines) : s.lines[i].kind = "off"} IN
              IF offs = {} THEN s.lines ELSE SubSeq(s.lines, 1, (CHOOSE i \in offs : \A j \in offs : i <= j) - 1)
SwitchedOff(s) == \E i \in 1..Len(s.lines) : s.lines[i].kind = "off"
FileLoads(f) == IF f.kind # "dir" /\ IsPem(f) /\ f.kind \in GoodKinds THEN << f.cert >> ELSE <<>>
LineLoads(ln) == CASE ln.kind = "pair" -> << ln.cert >>
                   [] ln.kind = "dir" -> Flat([i \in 1..Len(ln.files) |-> FileLoads(ln.files[i])])
                   [] OTHER -> <<>>
SiteLoads(s) == Flat([i \in 1..Len(Counted(s)) |-> LineLoads(Counted(s)[i])])
                \o (IF HasSelf(s) /\ ~SwitchedOff(s) THEN << "SELF" >> ELSE <<>>)
AllLoads(ss) == Flat([i \in 1..Len(ss) |-> SiteLoads(ss[i])])
RECURSIVE Dedup(_)
Dedup(s) == IF s = <<>> THEN <<>>
            ELSE LET d == Dedup(SubSeq(s, 1, Len(s) - 1)) IN
                 IF s[Len(s)] \in Range(d) THEN d ELSE Append(d, s[Len(s)])
Loaded == Dedup(AllLoads(sites))                          \* every certificate once, at the place of its first load
BadFile(f) == f.kind # "dir" /\ IsPem(f) /\ f.kind \notin GoodKinds
BadLine(s, ln) == \/ ln.kind = "pairbad"
                  \/ ln.kind = "dir" /\ \E i \in 1..Len(ln.files) : BadFile(ln.files[i])
BadSite(s) == \/ \E i \in 1..Len(Counted(s)) : BadLine(s, Counted(s)[i])
              \/ HasSelf(s) /\ ~SwitchedOff(s) /\ s.host = CA
BadConfig == \E i \in 1..Len(sites) : BadSite(sites[i])
AfterSetup == pc \notin {"topo", "pick", "setup", "failed"}

\* LoadDirExactlyPemBundles + overlapping loads: once the file is loaded, the cache holds exactly the certificates of
\* the `tls cert key` lines and of the *.pem bundles (any depth, any case of the suffix) of the loaded directories - each
\* once, in file order - and every name's index entry lists its certificates in that order.
CacheMatchesFile == (pc \in {"probe", "done"} /\ (tab = <<>> \/ pc = "done")) =>      \* (no action after MakeServers touches the cache)
                        LET L == Loaded IN
                        /\ cache = L
                        /\ \A n \in DOMAIN index : index[n] = (LET Has(c) == n \in CMNames(c) IN SelectSeq(L, Has))
                        /\ \A c \in Range(cache) : CMNames(c) \subseteq DOMAIN index
\* ... and the load is refused exactly when a *.pem file of a loaded directory is no certificate-and-key bundle, a
\* certificate comes with another key, or a host-less site asks for a self-signed certificate
LoadFailsIffBad == /\ (pc = "failed" => BadConfig /\ err # "")
                   /\ (AfterSetup => ~BadConfig /\ err = "")

\* ---- the handshake, judged in the state that holds its outcome -----------------------------
Judged == pc = "rec" /\ res.out # "plain"
w == Lower(Wire(hello))                                    \* the name certmagic looks up
MinOf(S) == CHOOSE i \in S : \A j \in S : i <= j
MaxOf(S) == CHOOSE i \in S : \A j \in S : i >= j
\* the index entry that decides: of the entries consulted, in order, the first that is not empty
\*   with SNI: the name itself, then the name with 1, 2, ... leading labels starred
\*   without:  the listener's address, then -default-sni
EntryFor(x, l) ==
         LET L == Loaded
             ent(n) == LET Has(c) == n \in CMNames(c) IN SelectSeq(L, Has)
             es == IF x = CA THEN << ent(LocalIP(l)) >> \o (IF DefaultName(topo) # CA THEN << ent(DefaultName(topo)) >> ELSE <<>>)
                   ELSE [i \in 1..(Len(x) + 1) |-> ent(Candidates(x)[i])]
             ne == {i \in 1..Len(es) : es[i] # <<>>}
         IN  IF ne = {} THEN <<>> ELSE es[MinOf(ne)]
Entry == EntryFor(w, lst)
SupFor(E, x, o) == {i \in 1..Len(E) : Supports(E[i], x, o)}   \* positions the client can use
SupOf(E) == SupFor(E, w, offer)
CurOf(E, S) == {i \in S : Current(E[i])}                   \* ... and valid today
\* (E, S, C are handed to the clauses so that TLC computes them once per state)
With(P(_, _, _)) == LET E == Entry S == SupOf(E) C == CurOf(E, S) IN P(E, S, C)
PickOf(E, S, C) == IF C # {} THEN E[MinOf(C)] ELSE IF S # {} THEN E[MaxOf(S)] ELSE E[1]
\* the leaves the documented rule admits ("the first non-expired certificate that the client supports if possible,
\* otherwise an expired certificate that the client supports, otherwise the first certificate")
AdmissibleOf(E, S, C) == IF C # {} THEN {E[MinOf(C)]} ELSE IF S # {} THEN {E[i] : i \in S} ELSE {E[1]}

\* MostSpecificWins, as the code has it: the exact name's entry before any wildcard entry, fewer stars before more;
\* within the entry the first-loaded certificate the client supports and that is valid today
SelectionRuleOn(E, S, C) ==
    /\ (res.out = "nocert" <=> E = <<>>)
    /\ (E # <<>> => /\ (res.out = "ok" => res.leaf = PickOf(E, S, C) /\ res.leaf \in AdmissibleOf(E, S, C))
                    /\ (res.out = "nosuite" <=> ~KeyOK(Cert[PickOf(E, S, C)].key, offer)))
SelectionRule == Judged => With(SelectionRuleOn)
\* whenever the handshake succeeds for a name, the leaf lists that name (or a starred form of it); it fails
\* crypto/x509's test for the name only if no certificate filed under that index name passes it with a key the
\* client can use (CN-only, *.*., an RSA certificate and a client without RSA suites);
\* without SNI the leaf is the one for the address the connection arrived on, else the one for -default-sni - the only case in
\* which a certificate that does not cover what the client asked for is served
CertCoversNameOn(E, S, C) ==
    /\ (w # CA => CMCovers(res.leaf, w))
    /\ (w # CA /\ ~res.name => S = {})
    /\ (w = CA => (LocalIP(lst) \in CMNames(res.leaf) \/ (DefaultName(topo) # CA /\ DefaultName(topo) \in CMNames(res.leaf))))
    /\ (w = CA /\ ~res.name => ~(\E i \in 1..Len(E) : LocalIP(lst) \in CMNames(E[i])))
CertCoversName == (Judged /\ res.out = "ok") => With(CertCoversNameOn)
\* a key supplied by one site answers for a name only another site declares only if its certificate lists that name
Owners(c) == {i \in 1..Len(sites) : c \in Range(SiteLoads(sites[i]))}
Declarers(n) == {i \in 1..Len(sites) : Matches(sites[i].host, n)}
NoCrossSiteKeyUse == (Judged /\ res.out = "ok" /\ w # CA) =>
    ((Owners(res.leaf) \cap Declarers(w) = {}) => CMCovers(res.leaf, w))
\* with a certificate the client can use filed under the name, the client gets one it can use
KeyTypeNegotiationOn(E, S, C) == S # {} => (res.out = "ok" /\ Supports(res.leaf, w, offer))
KeyTypeNegotiation == Judged => With(KeyTypeNegotiationOn)
UnexpiredPreferredOn(E, S, C) == C # {} => (res.out = "ok" /\ res.time)
UnexpiredPreferred == Judged => With(UnexpiredPreferredOn)
\* an expired (or not yet valid) certificate is served rather than none
ExpiredStillServedOn(E, S, C) == E # <<>> => res.out # "nocert"
ExpiredStillServed == Judged => With(ExpiredStillServedOn)
\* for a given SNI the answer does not depend on the listener the client connected to: one cache per instance
\* (without SNI it depends on the listener's address - see Entry - and on nothing else of the listener)
SameProbe(a, b) == a.h = b.h /\ a.o = b.o /\ a.out # "plain" /\ b.out # "plain" /\ Wire(Hellos[a.h]) # CA
ListenerIndependent == (pc = "done") => \A i, j \in 1..Len(tab) : SameProbe(tab[i], tab[j]) => (tab[i].out = tab[j].out /\ tab[i].leaf = tab[j].leaf)
\* after a reload the cache is the new file's (CacheMatchesFile speaks about `sites`, the new file) and no
\* certificate only the old file named is served
ReloadReplacesCertificates == (gen = 2 /\ Judged /\ res.out = "ok") => res.leaf \in Range(AllLoads(sites))
\* a reload that is refused changes nothing: the same answers as before it
FailedReloadKeepsCertificates == (gen = 4 /\ pc = "done") => tab = oldtab
ResultShape == Judged => /\ res.out \in {"ok", "nocert", "nosuite"}
                         /\ (res.out = "ok" <=> res.leaf # "")
\* what the replay may accept instead of the modelled leaf where only determinism is judged (every usable
\* certificate of the entry is expired or not yet valid): printed with the outcome
AltOf(r) == IF r.out = "ok" /\ ~r.time
            THEN LET x == Lower(Wire(Hellos[r.h])) E == EntryFor(x, r.l) S == SupFor(E, x, Offers[r.o]) C == CurOf(E, S) IN AdmissibleOf(E, S, C)
            ELSE {}

\* ---- two readings that do NOT hold (checked by hand with CertSelect_scoped.cfg: TLC refutes both) ----------
LoadsOfListener(l) == Flat([i \in 1..Len(sites) |-> IF sites[i].lst = l THEN SiteLoads(sites[i]) ELSE <<>>])
ListenerScoped == (Judged /\ res.out = "ok") => res.leaf \in Range(LoadsOfListener(lst))
StrictSiteKeys == (Judged /\ res.out = "ok" /\ gov # 0) => res.leaf \in Range(SiteLoads(sites[gov]))

\* ================================ case emission ==========================================
Emit == /\ (pc = "topo") => PrintT(<<"CASE", ToJson([kind |-> "alphabet", hellos |-> Hellos, offers |-> Offers,
                                                      certs |-> [c \in AllCerts |-> [cn |-> Cert[c].cn, sans |-> Cert[c].sans, ips |-> Cert[c].ips,
                                                                  key |-> Cert[c].key, val |-> Cert[c].val, up |-> Cert[c].up]]])>>)
        /\ (pc = "failed") => PrintT(<<"CASE", ToJson([kind |-> "config", gen |-> gen, topo |-> topo, slots |-> slots, prev |-> prev,
                                                       dflt |-> DefaultName(topo), sites |-> sites, err |-> err, loaded |-> <<>>, tab |-> <<>>])>>)
        /\ (pc = "done") => PrintT(<<"CASE", ToJson([kind |-> "config", gen |-> gen, topo |-> topo, slots |-> slots, prev |-> prev,
                                                     dflt |-> DefaultName(topo), sites |-> sites, err |-> "", loaded |-> cache,
                                                     tab |-> [i \in 1..Len(tab) |-> [l |-> tab[i].l, h |-> tab[i].h, o |-> tab[i].o, out |-> tab[i].out, leaf |-> tab[i].leaf,
                                                                                     name |-> tab[i].name, time |-> tab[i].time, chain |-> tab[i].chain, alt |-> AltOf(tab[i])]]])>>)
=============================================================================
