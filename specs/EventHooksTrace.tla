-------------------------- MODULE EventHooksTrace --------------------------
(***************************************************************************)
(* Validates ndjson traces recorded from child processes running the real   *)
(* package casket (harness/cx16events) against EventHooks.tla.  One trace   *)
(* = one history in a fresh process, introduced by a `script` event.        *)
(*                                                                         *)
(* Logged (each consumes one event): the begin and the return of every      *)
(* operation (with the registry and the instance list as ListPlugins /      *)
(* Instances show them), the harness's own directives and callbacks, the    *)
(* loader, every call of an observer hook (event, info, registry at that    *)
(* moment), every launch of an `on` command with the mode the code chose    *)
(* (from casket's process log), the end of a blocking command (its line is  *)
(* in the command log when the next event is recorded), every hook error    *)
(* EmitEvent logs, the exit code.                                           *)
(* Not logged, inferred by TLC as silent steps: clone / purge / restore of  *)
(* the registry, the `on` directive's own registration, the begin and end   *)
(* of an emission, a hook that returns without error, an `on` hook whose    *)
(* event does not match (it does nothing), signal delivery and the Once.    *)
(***************************************************************************)
EXTENDS EventHooks

VARIABLE l
Trace == ndJsonDeserialize("trace.ndjson")
tvars == <<vars, l>>
E == Trace[l]
IsEvent(e) == l <= Len(Trace) /\ Trace[l].ev = e /\ l' = l + 1

TInit == Init /\ l = 1

\* a new child process
TScript ==
    /\ IsEvent("script")
    /\ hist' = <<>> /\ pc' = "boot" /\ op' = NoOp /\ g' = 0 /\ old' = 0 /\ k' = 0
    /\ inst' = [x \in Gens |-> NoInst] /\ instances' = <<>>
    /\ reg' = {<<"plug", 0, 0>>}
    /\ snapS' = {} /\ snapU' = {} /\ snapV' = {}
    /\ em' = NoEm /\ cur' = None /\ cst' = "-" /\ lastErr' = FALSE
    /\ nEmit' = [e \in Events |-> 0] /\ isu' = [x \in Gens |-> 0] /\ shutcb' = [x \in Gens |-> 0]
    /\ nbStarted' = 0 /\ nbDone' = 0
    /\ reg0' = {} /\ since' = {} /\ plugOk' = TRUE
    /\ pending' = <<>> /\ pch' = <<>> /\ ich' = <<>> /\ ppc' = "wait" /\ ints' = 0 /\ jpc' = "none"
    /\ once' = "idle" /\ runner' = "-" /\ ci' = 1 /\ exited' = "no"

\* the registry as the implementation lists it: the observers by name, the `on` hooks by number
RegIs(r, n) ==
    /\ {<<r[i].k, r[i].g, 0>> : i \in 1..Len(r)} = {h \in reg : h[1] # "on"}
    /\ n = Cardinality({h \in reg : h[1] = "on"})

TCall == IsEvent("call") /\ BeginOp([t |-> E.op.t, c |-> E.op.c, f |-> E.op.f, p |-> E.op.p, s |-> E.op.s])

TDirHook == IsEvent("dirhook") /\ pc = "d_hook" /\ g = E.g /\ k = E.key /\ DirHook
TLate == IsEvent("late") /\ pc = "d_late" /\ g = E.g /\ (E.res = "err") = (op.f = "setup") /\ DirLate
TCb == /\ IsEvent("cb")
       /\ \/ E.kind = "restart" /\ old = E.g /\ (E.res = "err") = (op.f = "restartcb") /\ RestartCb
          \/ E.kind = "startup" /\ g = E.g /\ (E.res = "err") = (op.f = "startupcb") /\ StartupCb
          \/ E.kind = "restartfailed" /\ old = E.g /\ RestartFailedCb
          \/ E.kind = "shutdown" /\ old = E.g /\ OldShutdownCb
          \/ E.kind = "shutdown" /\ ci <= Len(instances) /\ instances[ci] = E.g /\ (ShutCb("p") \/ ShutCb("j"))
TListen == IsEvent("listen") /\ g = E.g /\ (E.res = "err") = (op.f = "listen") /\ Listen
TStopSrv == /\ IsEvent("stopsrv")
            /\ \/ old = E.g /\ (OldStop \/ StopInst)
               \/ ppc = "stop" /\ instances # <<>> /\ Head(instances) = E.g /\ PStop
TLoad == IsEvent("load") /\ (E.res = "err") = (op.f = "load") /\ ULoad

\* an observer hook is called: the event, its info and the registry are what the specification says
InfoIs(i) == /\ i.k = em.info.k
             /\ (i.k \in {"inst", "name"} => i.g = em.info.g)
             /\ (i.k = "sig" => i.s = em.info.s)
THook == /\ IsEvent("hook")
         /\ em.on /\ em.ev = E.hev /\ InfoIs(E.info) /\ RegIs(E.reg, E.non)
         /\ HookCall(<<E.name, E.g, 0>>)

\* an `on` command is launched, in the mode the directive asked for
TCmdStart == /\ IsEvent("cmdstart")
             /\ LET h == <<"on", E.g, E.j>> IN
                /\ em.on /\ h \in em.todo /\ Matches(h) /\ OnSpec(h).m = E.mode
                /\ HookCall(h)
TCmdEnd == IsEvent("cmdend") /\ cur = <<"on", E.g, E.j>> /\ CmdDone
THookErr == IsEvent("hookerr") /\ cur = <<"on", E.g, E.j>> /\ HookErr(cur) /\ HookRet

\* the operation is over: result, registry, instance list; no non-blocking command launched since
\* the last release can have finished (the harness holds them until the call has returned)
TRet == /\ IsEvent("ret")
        /\ pc \in {"retok", "reterr"}
        /\ E.res \in {"ok", "err"} => (E.res = "ok") = (pc = "retok")
        /\ RegIs(E.reg, E.non) /\ Len(instances) = E.ninst /\ E.nbdone = nbDone
        /\ Return
\* the harness releases the non-blocking commands and waits for them
TSettle == /\ IsEvent("settle") /\ pc = "idle" /\ E.nbdone = nbStarted
           /\ nbDone' = nbStarted
           /\ UNCHANGED <<ctl, world, emv, nEmit, isu, shutcb, nbStarted, ghost, proc>>

\* the process is gone; every non-blocking command that was launched has run to its end
\* (a process that is killed inside a hook that launches a non-blocking command may or may not
\* have launched it)
TExit == /\ IsEvent("exit")
         /\ \/ E.nbdone = nbStarted
            \/ cur # None /\ Launches(cur) /\ ~Blocking(cur) /\ E.nbdone = nbStarted + 1
         /\ \/ PTake /\ exited' = "quit" /\ E.code = 0 /\ UNCHANGED <<nbDone>>
            \/ PStop /\ exited' = "term" /\ E.code = 0 /\ UNCHANGED <<nbDone>>
            \/ JExit /\ E.code = 0 /\ UNCHANGED <<nbDone>>
            \/ ITake /\ exited' = "force" /\ E.code = 2 /\ UNCHANGED <<nbDone>>

\* silent steps; an `on` hook whose event does not match does nothing observable: such hooks are
\* taken in one fixed order (the smallest first) to keep the search linear
Quiet(h) == IsOn(h) /\ ~Matches(h)
Least(h) == \A h2 \in em.todo : Quiet(h2) => (h[2] < h2[2] \/ (h[2] = h2[2] /\ h[3] <= h2[3]))
Silent ==
    /\ UNCHANGED l
    /\ \/ ProcStartup \/ CloneS \/ CloneV \/ DirOn \/ RestoreV \/ RestoreS \/ EmitStartup \/ NewInst
       \/ UClone \/ UPurge \/ UEmit \/ UEmitEarly \/ UPurge2 \/ URestore \/ CertEvent
       \/ EmitEnd
       \/ (~HookErr(cur) /\ HookRet)
       \/ (\E h \in em.todo : Quiet(h) /\ Least(h) /\ HookCall(h))
       \/ Deliver
       \/ (PTake /\ exited' = "no")
       \/ POnce \/ JOnce \/ LeaveOnce("p") \/ LeaveOnce("j")
       \/ (ITake /\ exited' = "no")

TNext == TScript \/ TCall \/ TDirHook \/ TLate \/ TCb \/ TListen \/ TStopSrv \/ TLoad \/ THook \/ TCmdStart
         \/ TCmdEnd \/ THookErr \/ TRet \/ TSettle \/ TExit \/ Silent
TSpec == TInit /\ [][TNext]_tvars

Constr == TLCSet(1, IF l > TLCGet(1) THEN l ELSE TLCGet(1))
Accepted == IF TLCGet(1) = Len(Trace) + 1 THEN TRUE
            ELSE Print(<<"REJECTED at event", TLCGet(1), Trace[TLCGet(1)]>>, FALSE)
ASSUME TLCSet(1, 0)
=============================================================================
