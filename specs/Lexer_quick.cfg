CONSTANT N = 5
SPECIFICATION Spec
INVARIANT Total
INVARIANT LineIsOnePlusLineFeeds
INVARIANT TokenLine
INVARIANT TokenBound
INVARIANT LinesMonotone
INVARIANT FlagsConsistent
INVARIANT PlainSplit
INVARIANT Emit
PROPERTY Terminates
CHECK_DEADLOCK FALSE
