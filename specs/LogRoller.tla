----------------------------- MODULE LogRoller -----------------------------
(***************************************************************************)
(* C20 extension (with LogSink.tla) - the rotate_* sub-directives of `log` *)
(* and `errors`: caskethttp/httpserver/roller.go IsLogRollerSubdirective,  *)
(* ParseRoller, DefaultLogRoller as the loops of caskethttp/log/setup.go   *)
(* logParse and caskethttp/errors/setup.go errorsParse call them.          *)
(*                                                                         *)
(* Operational part: Step = one iteration of `for c.NextBlock()` over the  *)
(* lines of the block (a roller word goes to ParseRoller: arity, Atoi,     *)
(* switch; `log` has the further word `except` and refuses anything else;  *)
(* `errors` takes every other line for an error page `<status> <file>`),   *)
(* Finish = the block is over.                                             *)
(* Declarative part: Defaults, LastWins, RejectedIff (which blocks are     *)
(* refused, by a predicate on the lines alone), OnlyRollerWords,           *)
(* EffectiveLimitPositive (whatever is accepted leaves the rolling writer  *)
(* a positive size limit: lumberjack refuses EVERY entry when MaxSize is   *)
(* negative - the entries are discarded silently - and takes 0 for 100).   *)
(* NEG_SIZE_OK = TRUE is the code as found: `rotate_size -1` was accepted  *)
(* (TLC refutes EffectiveLimitPositive and RejectedIff); repaired in /repo.*)
(***************************************************************************)
EXTENDS Integers, Sequences, FiniteSets, TLC, Json

CONSTANTS MaxLines, MaxArgs, NEG_SIZE_OK

Dirs == {"log", "errors"}
RollerWords == {"rotate_size", "rotate_age", "rotate_keep", "rotate_compress", "rotate_disable"}
Flags == {"rotate_compress", "rotate_disable"}
Words == RollerWords \cup {"rotate", "except"}       \* a near miss; another sub-directive of `log`
Toks == {"0", "1", "7", "-1", "x"}
IsNum(t) == t # "x"
Val(t) == CASE t = "0" -> 0 [] t = "1" -> 1 [] t = "7" -> 7 [] t = "-1" -> -1 [] OTHER -> 0

RECURSIVE SeqsUpTo(_, _)
SeqsUpTo(S, n) == IF n = 0 THEN {<< >>}
                  ELSE LET R == SeqsUpTo(S, n - 1) IN R \cup {Append(s, x) : s \in {t \in R : Len(t) = n - 1}, x \in S}
LineSet == [what : Words, args : SeqsUpTo(Toks, MaxArgs)]
Default == [size |-> 100, age |-> 14, keep |-> 10, compress |-> FALSE, disabled |-> FALSE, localtime |-> TRUE]

VARIABLES dir, lines, i, r, res
vars == <<dir, lines, i, r, res>>

Init == /\ dir \in Dirs /\ lines \in SeqsUpTo(LineSet, MaxLines)
        /\ i = 1 /\ r = Default /\ res = "run"

\* roller.go ParseRoller
ArityOk(ln) == IF ln.what \in Flags THEN Len(ln.args) = 0 ELSE Len(ln.args) = 1
ParseRoller(ln) ==
    IF ~ArityOk(ln) THEN "err"
    ELSE IF ln.what \in Flags THEN "ok"
    ELSE IF ~IsNum(ln.args[1]) THEN "err"                                 \* strconv.Atoi
    ELSE IF ln.what = "rotate_size" /\ Val(ln.args[1]) < 0 /\ ~NEG_SIZE_OK THEN "err"
    ELSE "ok"
Apply(ro, ln) ==
    CASE ln.what = "rotate_disable"  -> [ro EXCEPT !.disabled = TRUE]
      [] ln.what = "rotate_compress" -> [ro EXCEPT !.compress = TRUE]
      [] ln.what = "rotate_size"     -> [ro EXCEPT !.size = Val(ln.args[1])]
      [] ln.what = "rotate_age"      -> [ro EXCEPT !.age = Val(ln.args[1])]
      [] ln.what = "rotate_keep"     -> [ro EXCEPT !.keep = Val(ln.args[1])]

\* the directive's own view of a line that is not for the roller
OtherOk(d, ln) == d = "log" /\ ln.what = "except"      \* errors: `<status> <file>` - neither word is a status

Step ==
    /\ res = "run" /\ i <= Len(lines)
    /\ LET ln == lines[i] IN
       IF ln.what \in RollerWords                        \* IsLogRollerSubdirective
       THEN IF ParseRoller(ln) = "ok" THEN r' = Apply(r, ln) /\ res' = res /\ i' = i + 1
            ELSE res' = "err" /\ UNCHANGED <<r, i>>
       ELSE IF OtherOk(dir, ln) THEN i' = i + 1 /\ UNCHANGED <<r, res>>
            ELSE res' = "err" /\ UNCHANGED <<r, i>>
    /\ UNCHANGED <<dir, lines>>
Finish == /\ res = "run" /\ i > Len(lines) /\ res' = "ok" /\ UNCHANGED <<dir, lines, i, r>>
Next == Step \/ Finish \/ (res # "run" /\ UNCHANGED vars)
Spec == Init /\ [][Next]_vars /\ WF_vars(Next)

\* ---- the guarantees ------------------------------------------------------------------------
Done == res # "run"
Setters(w) == {j \in 1..Len(lines) : lines[j].what = w}
LastVal(w, d) == IF Setters(w) = {} THEN d
                 ELSE Val(lines[CHOOSE j \in Setters(w) : \A j2 \in Setters(w) : j2 <= j].args[1])
\* a block without roller words leaves the defaults: 100 MB, 14 days, 10 files, no compression
Defaults == (res = "ok" /\ \A j \in 1..Len(lines) : lines[j].what \notin RollerWords) => r = Default
\* a repeated sub-directive: the last one counts; the flags only ever switch on
LastWins == res = "ok" =>
    /\ r.size = LastVal("rotate_size", 100) /\ r.age = LastVal("rotate_age", 14) /\ r.keep = LastVal("rotate_keep", 10)
    /\ r.compress = (Setters("rotate_compress") # {}) /\ r.disabled = (Setters("rotate_disable") # {})
    /\ r.localtime
\* which blocks are refused
BadLine(d, ln) ==
    IF ln.what \in Flags THEN Len(ln.args) # 0
    ELSE IF ln.what \in RollerWords THEN Len(ln.args) # 1 \/ ~IsNum(ln.args[1]) \/ (ln.what = "rotate_size" /\ Val(ln.args[1]) < 0)
    ELSE ~(d = "log" /\ ln.what = "except")
RejectedIff == Done => ((res = "err") <=> \E j \in 1..Len(lines) : BadLine(dir, lines[j]))
\* what is accepted leaves the rolling writer a positive size limit (0 stands for lumberjack's 100)
EffectiveLimitPositive == res = "ok" => (IF r.size = 0 THEN 100 ELSE r.size) > 0
Terminates == <>Done

Emit == Done => PrintT(<<"CASE", ToJson([dir |-> dir, lines |-> lines, res |-> res, r |-> r])>>)
=============================================================================
