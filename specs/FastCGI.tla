------------------------------ MODULE FastCGI ------------------------------
(***************************************************************************)
(* C13 - FastCGI requests and responses cross the wire intact.             *)
(*                                                                         *)
(* Request direction (client -> responder), caskethttp/fastcgi/fcgiclient.go*)
(*   operational: FCGIClient.Do as the code runs it - writeBeginRequest,   *)
(*   writePairs (truncate / encodeSize / flush threshold nn / the three    *)
(*   bufio writes of a pair), bufWriter.Close (Flush + empty record),      *)
(*   io.Copy of the body into a bufio.Writer of size maxWrite over the     *)
(*   record-splitting streamWriter, Close.  One action per step; every     *)
(*   record that reaches the wire goes through WireRec.                    *)
(*   declarative: what a standard-conforming responder needs, stated on the*)
(*   wire observer only (phase, pBytes, sBytes, maxLen, wireOK): record    *)
(*   lengths fit the 16-bit field, streams are terminated exactly once and *)
(*   in order, the params stream carries exactly the encoded pairs, the    *)
(*   stdin stream exactly the body.  The trace specification FastCGITrace  *)
(*   re-uses WireRec and these invariants on records captured from the real*)
(*   client by the harness's byte-level responder.                         *)
(*                                                                         *)
(* Response direction (responder -> client): streamReader.Read / rec.read  *)
(*   demultiplexing of a scripted framing of the responder's output into   *)
(*   stdout / stderr records, then FCGIClient.Request's header parsing.    *)
(*   Output is abstracted to units (Status line, header line, blank line,  *)
(*   body parts, stderr parts); the harness concretises units to bytes and *)
(*   moves record boundaries into the middle of lines.                     *)
(***************************************************************************)
EXTENDS Integers, Sequences, FiniteSets, TLC, Json

CONSTANTS PairSet,      \* set of <<klen, vlen>> to draw name/value pairs from
          MaxPairs,     \* at most this many pairs per request
          BodyLens,     \* set of request body lengths
          MaxChunks,    \* responder: stdout split into at most this many records
          MaxErr        \* responder: at most this many stderr records

\* boundary values the cfgs substitute for PairSet / BodyLens (klen, vlen):
\*   127/128 one- vs four-byte length header; 8+k+v = 65500 / 65501 "fits one record";
\*   names of 65492 / 65493 / 70000 bytes (maxWrite-8 and beyond: the value is cut to nothing);
\*   <<1,65000>> followed by <<1,488>> / <<1,489>> puts nn+m exactly on / one over the flush threshold
PairsQuick    == { <<1,0>>, <<127,127>>, <<128,128>>, <<127,128>>, <<1,65491>>, <<1,65492>>, <<65492,1>>,
                   <<65493,0>>, <<1,65000>>, <<1,488>>, <<1,489>>, <<200,131001>> }
PairsThorough == PairsQuick \cup { <<1,1>>, <<128,127>>, <<128,65364>>, <<128,65365>>, <<65492,0>>, <<70000,3>>,
                                   <<10,1000>> }
BodiesQuick    == {0, 1, 65500, 65501, 131001}
BodiesThorough == {0, 1, 7, 8, 65499, 65500, 65501, 65535, 65536, 131000, 131001, 196501}

MaxWrite == 65500       \* fcgiclient.go: maxWrite
MaxRec   == 65535       \* 16-bit contentLength field

Max(a, b) == IF a > b THEN a ELSE b
Min(a, b) == IF a < b THEN a ELSE b

\* ---- name/value pairs: what the FastCGI specification and the statement say -----
\* "lengths of 127 bytes and less can be encoded in one byte, longer lengths in four bytes"
NVLen(x)  == IF x <= 127 THEN 1 ELSE 4
Enc(k, v) == NVLen(k) + NVLen(v) + k + v               \* bytes of one pair in the params stream
Fits(p)   == 8 + p[1] + p[2] <= 65500                  \* "pairs that fit a single 65 500-byte record"

\* ---- the same arithmetic as the code does it --------------------------------
EncodeSize(size) == IF size > 127 THEN 4 ELSE 1        \* encodeSize
\* writePairs cuts the value of a pair with 8+len(k)+len(v) > maxWrite (the statement leaves
\* such pairs open).  Repaired design: a name longer than maxWrite-8 leaves an empty value
\* instead of a negative slice bound.
Truncated(k, v) == IF 8 + k + v > MaxWrite THEN Max(0, MaxWrite - 8 - k) ELSE v

RECURSIVE SumFit(_), SumOver(_)
SumFit(s)  == IF s = <<>> THEN 0 ELSE (IF Fits(Head(s)) THEN Enc(Head(s)[1], Head(s)[2]) ELSE 0) + SumFit(Tail(s))
SumOver(s) == IF s = <<>> THEN 0 ELSE (IF Fits(Head(s)) THEN 0 ELSE Enc(Head(s)[1], Head(s)[2])) + SumOver(Tail(s))

\* ---- response units ---------------------------------------------------------
HdrUnits(st)  == IF st THEN <<"S", "H", "N">> ELSE <<"H", "N">>   \* Status line, header line, blank line
BodyUnits     == <<"b1", "b2", "b3">>
ErrUnits      == <<"e1", "e2">>
OutUnits(st)  == HdrUnits(st) \o BodyUnits
PadProfiles   == {"zero", "seven", "align", "max"}

VARIABLES
    \* the case
    kind,       \* "req" | "resp"
    pairs,      \* sequence of <<klen, vlen>> in the order the map iteration yields them
    body,       \* request body length
    src,        \* how io.Copy feeds the body: "writeto" (bytes.Reader) | "readfrom" (network body) | "none"
    \* client, request direction
    pc, i, nn, buf, todo, direct, m,
    \* wire observer
    phase, pBytes, sBytes, maxLen, nrec, wireOK, unaligned,
    \* response direction
    hasStatus, script, padp, j, rcvd, errlog, eof

reqvars  == <<pc, i, nn, buf, todo, direct, m>>
wirevars == <<phase, pBytes, sBytes, maxLen, nrec, wireOK, unaligned>>
casevars == <<kind, pairs, body, src>>
respvars == <<hasStatus, script, padp, j, rcvd, errlog, eof>>
vars     == <<casevars, reqvars, wirevars, respvars>>

\* ---- the wire observer: one record of the request direction ----------------
\* t in {"begin","params","stdin"}, n = contentLength, pad = paddingLength
WireRec(t, n, pad) ==
    /\ nrec' = nrec + 1
    /\ maxLen' = Max(maxLen, n)
    /\ unaligned' = unaligned + (IF (n + pad) % 8 = 0 THEN 0 ELSE 1)
    /\ CASE t = "begin"  /\ phase = "idle"   /\ n = 8 -> /\ phase' = "params" /\ UNCHANGED <<pBytes, sBytes, wireOK>>
         [] t = "params" /\ phase = "params" /\ n > 0 -> /\ pBytes' = pBytes + n /\ UNCHANGED <<phase, sBytes, wireOK>>
         [] t = "params" /\ phase = "params" /\ n = 0 -> /\ phase' = "stdin" /\ UNCHANGED <<pBytes, sBytes, wireOK>>
         [] t = "stdin"  /\ phase = "stdin"  /\ n > 0 -> /\ sBytes' = sBytes + n /\ UNCHANGED <<phase, pBytes, wireOK>>
         [] t = "stdin"  /\ phase = "stdin"  /\ n = 0 -> /\ phase' = "end" /\ UNCHANGED <<pBytes, sBytes, wireOK>>
         [] OTHER -> /\ wireOK' = FALSE /\ UNCHANGED <<phase, pBytes, sBytes>>   \* out of order / after the end
NoRec == UNCHANGED wirevars
Pad(n) == (8 - (n % 8)) % 8                            \* header.init: uint8(-contentLength & 7)

\* ---- declarative property, request direction --------------------------------
RecLenFits     == maxLen <= MaxRec
StreamsInOrder == wireOK                               \* begin, params*, params-end, stdin*, stdin-end, nothing after
ParamsExact    == phase \in {"stdin", "end"} =>
                     /\ pBytes >= SumFit(pairs)                       \* every fitting pair complete ...
                     /\ pBytes <= SumFit(pairs) + SumOver(pairs)      \* ... oversized ones may be cut
StdinExact     == phase = "end" => sBytes = body
Delivered      == (kind = "req" /\ pc = "done") => phase = "end"
\* design fact of the code (not required by the statement; reported as drift by the harness)
Aligned        == unaligned = 0

\* ---- client, request direction ----------------------------------------------
StreamOf == [pwrite |-> "params", pflush |-> "params", pclose |-> "params", pend |-> "params",
             copy |-> "stdin", sclose |-> "stdin", send |-> "stdin"]

Begin ==                                               \* writeBeginRequest
    /\ pc = "begin"
    /\ WireRec("begin", 8, Pad(8))
    /\ pc' = "pair" /\ i' = 1
    /\ UNCHANGED <<nn, buf, todo, direct, m, casevars, respvars>>

PairHead ==                                            \* loop head of writePairs: truncate, encodeSize, threshold
    /\ pc = "pair"
    /\ IF i > Len(pairs)
         THEN /\ pc' = "pclose" /\ UNCHANGED <<nn, todo, m>>
         ELSE LET k  == pairs[i][1]
                  v  == Truncated(k, pairs[i][2])
                  n  == EncodeSize(k) + EncodeSize(v)
                  mm == n + k + v
              IN  /\ m' = mm
                  /\ todo' = <<n, k, v>>
                  /\ IF nn + mm > MaxWrite
                       THEN /\ pc' = "pflush" /\ UNCHANGED nn
                       ELSE /\ pc' = "pwrite" /\ nn' = nn + mm
    /\ NoRec
    /\ UNCHANGED <<i, buf, direct, casevars, respvars>>

PairFlush ==                                           \* w.Flush(); nn = 0; nn += m
    /\ pc = "pflush"
    /\ IF buf > 0 THEN WireRec("params", buf, Pad(buf)) ELSE NoRec
    /\ buf' = 0 /\ nn' = m /\ pc' = "pwrite"
    /\ UNCHANGED <<i, todo, direct, m, casevars, respvars>>

\* one iteration of bufio.Writer.Write / WriteString over streamWriter (Write of the length
\* bytes, WriteString(k), WriteString(v) are the three elements of todo)
BufStep ==
    /\ pc \in {"pwrite", "copy"}
    /\ todo # <<>>
    /\ LET x     == Head(todo)
           avail == MaxWrite - buf
           st    == StreamOf[pc]
       IN  IF direct
             THEN \* inside streamWriter.Write(p): records of at most maxWrite until p is empty
                  LET c == Min(x, MaxWrite) IN
                  /\ WireRec(st, c, Pad(c))
                  /\ todo' = IF x - c = 0 THEN Tail(todo) ELSE <<x - c>> \o Tail(todo)
                  /\ direct' = (x - c > 0)
                  /\ UNCHANGED buf
           ELSE IF x <= avail
             THEN /\ buf' = buf + x /\ todo' = Tail(todo) /\ NoRec /\ UNCHANGED direct
           ELSE IF buf = 0
             THEN /\ direct' = TRUE /\ NoRec /\ UNCHANGED <<buf, todo>>      \* large write, empty buffer
             ELSE \* fill the buffer, Flush: one full record
                  /\ WireRec(st, MaxWrite, Pad(MaxWrite))
                  /\ buf' = 0
                  /\ todo' = <<x - avail>> \o Tail(todo)
                  /\ UNCHANGED direct
    /\ UNCHANGED <<pc, i, nn, m, casevars, respvars>>

PairDone ==
    /\ pc = "pwrite" /\ todo = <<>>
    /\ i' = i + 1 /\ pc' = "pair"
    /\ NoRec /\ UNCHANGED <<nn, buf, todo, direct, m, casevars, respvars>>

CloseFlush ==                                          \* bufWriter.Close: Writer.Flush()
    /\ pc \in {"pclose", "sclose"}
    /\ IF buf > 0 THEN WireRec(StreamOf[pc], buf, Pad(buf)) ELSE NoRec
    /\ buf' = 0
    /\ pc' = IF pc = "pclose" THEN "pend" ELSE "send"
    /\ UNCHANGED <<i, nn, todo, direct, m, casevars, respvars>>

StreamEnd ==                                           \* streamWriter.Close: the empty record
    /\ pc \in {"pend", "send"}
    /\ WireRec(StreamOf[pc], 0, 0)
    /\ IF pc = "pend"
         THEN /\ pc' = IF src = "none" THEN "sclose" ELSE IF src = "writeto" THEN "copy" ELSE "rcopy"
              /\ todo' = IF src = "writeto" THEN <<body>> ELSE <<>>
              /\ m' = body                             \* bytes the reader still has (readfrom)
         ELSE /\ pc' = "done" /\ UNCHANGED <<todo, m>>
    /\ UNCHANGED <<i, nn, buf, direct, casevars, respvars>>

CopyDone ==                                            \* bytes.Reader.WriteTo returned
    /\ pc = "copy" /\ todo = <<>>
    /\ pc' = "sclose"
    /\ NoRec /\ UNCHANGED <<i, nn, buf, todo, direct, m, casevars, respvars>>

\* bufio.Writer.ReadFrom: Flush when full, else read whatever the body reader hands over
ReadChunk(av, rem) == {Min(av, rem), Min(Min(av, rem), 4096)}
ReadFromStep ==
    /\ pc = "rcopy"
    /\ IF buf = MaxWrite
         THEN /\ WireRec("stdin", MaxWrite, Pad(MaxWrite)) /\ buf' = 0 /\ UNCHANGED <<m, pc>>
         ELSE IF m > 0
           THEN /\ \E c \in ReadChunk(MaxWrite - buf, m) : /\ buf' = buf + c /\ m' = m - c
                /\ NoRec /\ UNCHANGED pc
           ELSE /\ pc' = "sclose" /\ NoRec /\ UNCHANGED <<buf, m>>          \* io.EOF, Available() > 0
    /\ UNCHANGED <<i, nn, todo, direct, casevars, respvars>>

ReqNext == Begin \/ PairHead \/ PairFlush \/ BufStep \/ PairDone \/ CloseFlush \/ StreamEnd \/ CopyDone \/ ReadFromStep

\* ---- response direction -------------------------------------------------------
\* a script is a sequence of records [t |-> "out"|"err"|"end", u |-> <<units>>]
IsErrUnit(u) == u \in {"e1", "e2", "e3"}

ReadRec ==                                             \* one rec.read inside streamReader.Read
    /\ pc = "resp" /\ ~eof /\ j <= Len(script)
    /\ LET r == script[j] IN
       CASE r.t = "end" -> /\ eof' = TRUE /\ UNCHANGED <<rcvd, errlog>>               \* io.EOF
         [] r.t = "err" -> /\ errlog' = errlog \o r.u /\ UNCHANGED <<rcvd, eof>>      \* c.stderr.Write(buf); continue
         [] OTHER       -> /\ rcvd' = rcvd \o r.u /\ UNCHANGED <<errlog, eof>>        \* w.buf = buf -> copied to p
    /\ j' = j + 1
    /\ NoRec /\ UNCHANGED <<hasStatus, script, padp, casevars, reqvars>>

RespNext == ReadRec

\* what FCGIClient.Request makes of the received stream
HeaderEnd(s) == IF \E x \in 1..Len(s) : s[x] = "N" THEN CHOOSE x \in 1..Len(s) : s[x] = "N" /\ \A y \in 1..(x-1) : s[y] # "N" ELSE Len(s)
ClientHeaders == SubSeq(rcvd, 1, HeaderEnd(rcvd))
ClientBody    == SubSeq(rcvd, HeaderEnd(rcvd) + 1, Len(rcvd))
ClientStatus  == IF \E x \in 1..Len(ClientHeaders) : ClientHeaders[x] = "S" THEN "S" ELSE "200"

\* ---- declarative property, response direction ----------------------------------
Flat(seqs) == LET F[x \in 0..Len(seqs)] == IF x = 0 THEN <<>> ELSE F[x-1] \o seqs[x] IN F[Len(seqs)]
SentOut == Flat([x \in 1..Len(script) |-> IF script[x].t = "out" THEN script[x].u ELSE <<>>])
SentErr == Flat([x \in 1..Len(script) |-> IF script[x].t = "err" THEN script[x].u ELSE <<>>])
RespIntact ==
    (kind = "resp" /\ eof) =>
        /\ ClientBody = BodyUnits                                       \* exactly the responder's body
        /\ ClientHeaders = HdrUnits(hasStatus)                          \* exactly its headers
        /\ ClientStatus = (IF hasStatus THEN "S" ELSE "200")            \* its status, 200 when it sent none
StderrOnlyLog ==
    /\ \A x \in 1..Len(rcvd) : ~IsErrUnit(rcvd[x])                      \* never in what the client gets
    /\ (kind = "resp" /\ eof) => errlog = SentErr                       \* all of it in the log

\* ---- scripts: every framing of the output ------------------------------------
\* ascending sequence of a set of naturals
RECURSIVE AscSeq(_)
AscSeq(T) == IF T = {} THEN <<>>
              ELSE LET mn == CHOOSE a \in T : \A b \in T : a <= b IN <<mn>> \o AscSeq(T \ {mn})
\* compositions of the unit sequence into at most c contiguous non-empty chunks = sets of cut points
Cuts(n, c) == {S \in SUBSET (1..(n-1)) : Cardinality(S) <= c - 1}
ChunksOf(units, S) ==
    LET bounds == <<0>> \o AscSeq(S) \o <<Len(units)>>
    IN  [x \in 1..(Len(bounds) - 1) |-> SubSeq(units, bounds[x] + 1, bounds[x+1])]

\* interleavings: stderr record e (one unit each, in order) is sent after pos[e] stdout records
ErrPlacements(nOut, nErr) ==
    IF nErr = 0 THEN {<<>>}
    ELSE IF nErr = 1 THEN {<<p>> : p \in 0..nOut}
    ELSE {s \in {<<p, q>> : p \in 0..nOut, q \in 0..nOut} : s[1] <= s[2]}

Merge(chunks, pos) ==
    LET nOut == Len(chunks)
        ErrAfter(x) == LET F[e \in 0..Len(pos)] ==
                               IF e = 0 THEN <<>>
                               ELSE F[e-1] \o (IF pos[e] = x THEN <<[t |-> "err", u |-> <<ErrUnits[e]>>]>> ELSE <<>>)
                       IN F[Len(pos)]
        G[x \in 0..nOut] == IF x = 0 THEN ErrAfter(0) ELSE G[x-1] \o <<[t |-> "out", u |-> chunks[x]]>> \o ErrAfter(x)
    IN G[nOut]

\* stream terminators a responder may or may not send before EndRequest
\* (the last one: diagnostics written after stdout has been closed, e.g. by shutdown handlers - they
\* belong in the error log like any other stderr output)
Tails == { <<>>, <<[t |-> "out", u |-> <<>>]>>,
           <<[t |-> "out", u |-> <<>>], [t |-> "err", u |-> <<>>]>>,
           <<[t |-> "err", u |-> <<>>], [t |-> "out", u |-> <<>>]>>,
           <<[t |-> "out", u |-> <<>>], [t |-> "err", u |-> <<"e3">>], [t |-> "err", u |-> <<>>]>> }

Scripts(st) ==
    UNION { { Merge(ChunksOf(OutUnits(st), S), pos) \o tl \o <<[t |-> "end", u |-> <<>>]>> :
                pos \in UNION {ErrPlacements(Cardinality(S) + 1, e) : e \in 0..MaxErr}, tl \in Tails }
            : S \in Cuts(Len(OutUnits(st)), MaxChunks) }

\* ---- initial states -------------------------------------------------------------
SeqsUpTo(S, n) == UNION {[1..l -> S] : l \in 0..n}

ReqIdle  == /\ pc = "begin" /\ i = 0 /\ nn = 0 /\ buf = 0 /\ todo = <<>> /\ direct = FALSE /\ m = 0
WireIdle == /\ phase = "idle" /\ pBytes = 0 /\ sBytes = 0 /\ maxLen = 0 /\ nrec = 0 /\ wireOK = TRUE /\ unaligned = 0
RespIdle == /\ hasStatus = FALSE /\ script = <<>> /\ padp = "zero" /\ j = 1 /\ rcvd = <<>> /\ errlog = <<>> /\ eof = FALSE

InitReq ==
    /\ kind = "req"
    /\ pairs \in SeqsUpTo(PairSet, MaxPairs)
    /\ body \in BodyLens
    /\ src \in (IF body = 0 THEN {"none", "writeto", "readfrom"} ELSE {"writeto", "readfrom"})
    /\ ReqIdle /\ WireIdle /\ RespIdle

InitResp ==
    /\ kind = "resp" /\ pairs = <<>> /\ body = 0 /\ src = "none"
    /\ pc = "resp" /\ i = 0 /\ nn = 0 /\ buf = 0 /\ todo = <<>> /\ direct = FALSE /\ m = 0
    /\ WireIdle
    /\ hasStatus \in BOOLEAN
    /\ script \in Scripts(hasStatus)
    /\ padp \in PadProfiles      \* padding bytes are skipped by rec.read: no influence on the client
    /\ j = 1 /\ rcvd = <<>> /\ errlog = <<>> /\ eof = FALSE

Init == InitReq \/ InitResp
Next == ReqNext \/ RespNext
Spec == Init /\ [][Next]_vars /\ WF_vars(Next)

Terminates == <>((kind = "req" /\ pc = "done") \/ (kind = "resp" /\ eof))

\* ---- case emission (separate cfg: INIT InitEmit, NEXT Stop) -----------------------
Sorted(s) == \A x \in 1..(Len(s) - 1) : s[x][1] < s[x+1][1] \/ (s[x][1] = s[x+1][1] /\ s[x][2] <= s[x+1][2])
InitEmit ==
    \/ /\ InitReq /\ Sorted(pairs) /\ src = "writeto"
    \/ InitResp
Stop == FALSE /\ UNCHANGED vars
Emit ==
    IF kind = "req"
      THEN PrintT(<<"CASE", ToJson([kind |-> "req", pairs |-> pairs, body |-> body,
                                    lo |-> SumFit(pairs), hi |-> SumFit(pairs) + SumOver(pairs)])>>)
      ELSE PrintT(<<"CASE", ToJson([kind |-> "resp", status |-> hasStatus, script |-> script, pad |-> padp,
                                    headers |-> HdrUnits(hasStatus), bodyunits |-> BodyUnits, errunits |-> SentErr])>>)
=============================================================================
