--------------------------- MODULE CasketGrammar ---------------------------
(***************************************************************************)
(* C10 (part 4) - structure preservation: a GENERATOR of well-formed       *)
(* Casketfile configurations together with the structure they must parse   *)
(* to.                                                                     *)
(*                                                                         *)
(* A configuration is a set of documents: up to MaxFrag fragments (each a  *)
(* snippet, an imported file, a file in a sub-directory, or a pair of      *)
(* files imported by one glob) and the root Casketfile.  A document is a   *)
(* sequence of logical lines:                                              *)
(*   keys   addresses of a server block, "{" at the end of the line        *)
(*   dir    first token (directive name / sub-directive keyword),          *)
(*          arguments, optionally "{" at the end of the line               *)
(*   close  "}" on its own line                                            *)
(*   imp    "import <fragment>"  (only fragments that are complete: the    *)
(*          import relation is acyclic by construction)                    *)
(* Tokens are abstract CLASSES (plain word, needs quoting, contains a line *)
(* break, empty, environment placeholder ...); the harness chooses a       *)
(* concrete spelling per token and prints it with the quoting it needs.    *)
(* Every line carries a layout code (comment after it, blank line before,  *)
(* ...); every document an end-of-line convention.                         *)
(*                                                                         *)
(* Declarative part = the property: Inline is textual inclusion of the     *)
(* imports; Expected groups the inlined lines into server blocks and, per  *)
(* block, into directives with all their tokens.  casketfile.Parse must    *)
(* return exactly that for every rendering of the documents.  The          *)
(* invariants below say that what is generated is well-formed (balanced,   *)
(* imports resolved) - i.e. that the generator stays inside the domain of  *)
(* the property.                                                           *)
(***************************************************************************)
EXTENDS Naturals, Sequences, FiniteSets, TLC, Json

CONSTANTS NameCl,     \* classes for the first token of a directive line
          ArgCl,      \* classes for argument tokens
          KeyCl,      \* classes for server block keys
          KeySep,     \* how keys are separated: "sp" blank, "cm" comma+blank, "cn" comma+line break
          LayCl,      \* layout codes of a line
          FragKinds,  \* subset of {"snip", "file", "subfile", "glob"}
          EolCl,      \* subset of {"lf", "crlf"}
          AllUsed,    \* TRUE: only configurations in which every fragment is imported somewhere
          MaxArgs, MaxKeys, MaxLines, FragLines, MaxImps, MaxFrag, MaxDepth, MaxBlocks

Line(k, n, t, a, o, ly) == [k |-> k, n |-> n, t |-> t, a |-> a, o |-> o, ly |-> ly]

VARIABLES phase,    \* "idle" | "frag" | "root" | "done"
          docs,     \* finished fragments: [kind, lines, eol, cut]
          cur,      \* lines of the document under construction
          depth,    \* nesting at the end of cur: 0 top level, 1 server block body, >= 2 sub-block
          fkind,    \* kind of the fragment under construction
          budget,   \* directive lines still allowed in the root (a fragment may have FragLines of them)
          imps,     \* import lines still allowed in the document under construction
          nblocks,  \* server blocks of the root so far
          opts      \* root rendering options chosen by Finish
vars == <<phase, docs, cur, depth, fkind, budget, imps, nblocks, opts>>

NoOpts == [nobrace |-> FALSE, snipfile |-> FALSE, topsplit |-> 0, eol |-> "lf"]

Init ==
    /\ phase = "idle" /\ docs = <<>> /\ cur = <<>> /\ depth = 0 /\ fkind = "" /\ budget = MaxLines /\ imps = MaxImps
    /\ nblocks = 0 /\ opts = NoOpts

\* ---- fragments: bodies that can be imported (they start and end at nesting 1) ---------
StartFrag(kind) ==
    /\ phase = "idle" /\ Len(docs) < MaxFrag
    /\ phase' = "frag" /\ fkind' = kind /\ cur' = <<>> /\ depth' = 1 /\ imps' = MaxImps
    /\ UNCHANGED <<docs, budget, nblocks, opts>>

EndFrag(eol) ==
    /\ phase = "frag" /\ depth = 1
    /\ \E cut \in (IF fkind = "glob" THEN 0..Len(cur) ELSE {0}) :     \* glob: lines 1..cut go to the first file
          docs' = Append(docs, [kind |-> fkind, lines |-> cur, eol |-> eol, cut |-> cut])
    /\ phase' = "idle" /\ cur' = <<>> /\ depth' = 0 /\ fkind' = ""
    /\ UNCHANGED <<budget, imps, nblocks, opts>>

StartRoot ==
    /\ phase = "idle"
    /\ phase' = "root" /\ cur' = <<>> /\ depth' = 0 /\ imps' = MaxImps
    /\ UNCHANGED <<docs, fkind, budget, nblocks, opts>>

\* ---- lines (a line is started with its first token; further tokens are added one by one) ---
LastIs(k) == cur # <<>> /\ cur[Len(cur)].k = k

AddKeys(k1, sep, ly) ==
    /\ phase = "root" /\ depth = 0 /\ nblocks < MaxBlocks
    /\ cur' = Append(cur, Line("keys", sep, 0, <<k1>>, TRUE, ly))
    /\ depth' = 1 /\ nblocks' = nblocks + 1
    /\ UNCHANGED <<phase, docs, fkind, budget, imps, opts>>

AddKey(k) ==            \* one more address on the keys line that was just written
    /\ phase = "root" /\ depth = 1 /\ LastIs("keys") /\ Len(cur[Len(cur)].a) < MaxKeys
    /\ cur' = [cur EXCEPT ![Len(cur)].a = Append(@, k)]
    /\ UNCHANGED <<phase, docs, depth, fkind, budget, imps, nblocks, opts>>

AddDir(name, ly) ==
    /\ \/ phase = "root" /\ depth >= 1 /\ budget > 0 /\ budget' = budget - 1
       \/ phase = "frag" /\ Len(SelectSeq(cur, LAMBDA l : l.k = "dir")) < FragLines /\ budget' = budget
    /\ cur' = Append(cur, Line("dir", name, 0, <<>>, FALSE, ly))
    /\ UNCHANGED <<phase, docs, depth, fkind, imps, nblocks, opts>>

AddArg(c) ==            \* one more argument on the directive line that was just written
    /\ phase \in {"frag", "root"} /\ LastIs("dir") /\ ~cur[Len(cur)].o /\ Len(cur[Len(cur)].a) < MaxArgs
    /\ cur' = [cur EXCEPT ![Len(cur)].a = Append(@, c)]
    /\ UNCHANGED <<phase, docs, depth, fkind, budget, imps, nblocks, opts>>

OpenBrace ==            \* "{" ends the directive line that was just written: a sub-block follows
    /\ phase \in {"frag", "root"} /\ LastIs("dir") /\ ~cur[Len(cur)].o /\ depth < MaxDepth
    /\ cur' = [cur EXCEPT ![Len(cur)].o = TRUE]
    /\ depth' = depth + 1
    /\ UNCHANGED <<phase, docs, fkind, budget, imps, nblocks, opts>>

AddImport(t, ly) ==
    /\ phase \in {"frag", "root"} /\ depth >= 1 /\ imps > 0
    /\ t \in 1..Len(docs)
    /\ cur' = Append(cur, Line("imp", "", t, <<>>, FALSE, ly))
    /\ imps' = imps - 1
    /\ UNCHANGED <<phase, docs, depth, fkind, budget, nblocks, opts>>

AddClose(ly) ==
    /\ \/ phase = "root" /\ depth >= 1
       \/ phase = "frag" /\ depth >= 2
    /\ cur' = Append(cur, Line("close", "", 0, <<>>, FALSE, ly))
    /\ depth' = depth - 1
    /\ UNCHANGED <<phase, docs, fkind, budget, imps, nblocks, opts>>

\* ---- the root is complete: choose how it is laid out over files -------------------------
\*  nobrace   the only server block is written without braces (allowed for a single block)
\*  snipfile  the snippet definitions live in snips.conf, imported at the top of the Casketfile
\*  topsplit  the last k server blocks live in conf.d/blocks.conf, imported at the end
ImportsOf(lines) == {lines[i].t : i \in {j \in 1..Len(lines) : lines[j].k = "imp"}}
Imported(d) == d \in ImportsOf(cur) \/ \E e \in 1..Len(docs) : d \in ImportsOf(docs[e].lines)

Finish(o) ==
    /\ phase = "root" /\ depth = 0 /\ nblocks >= 1
    /\ (o.nobrace => nblocks = 1 /\ o.topsplit = 0)
    /\ o.topsplit \in 0..nblocks
    /\ (o.snipfile => \E d \in 1..Len(docs) : docs[d].kind = "snip")
    /\ (AllUsed => \A d \in 1..Len(docs) : Imported(d))
    /\ opts' = o /\ phase' = "done"
    /\ UNCHANGED <<docs, cur, depth, fkind, budget, imps, nblocks>>

Next ==
    \/ \E k \in FragKinds : StartFrag(k)
    \/ \E e \in EolCl : EndFrag(e)
    \/ StartRoot
    \/ \E k \in KeyCl, sep \in KeySep, ly \in LayCl : AddKeys(k, sep, ly)
    \/ \E k \in KeyCl : AddKey(k)
    \/ \E n \in NameCl, ly \in LayCl : AddDir(n, ly)
    \/ \E c \in ArgCl : AddArg(c)
    \/ OpenBrace
    \/ \E t \in 1..MaxFrag, ly \in LayCl : AddImport(t, ly)
    \/ \E ly \in LayCl : AddClose(ly)
    \/ \E nb \in BOOLEAN, sf \in BOOLEAN, ts \in 0..MaxBlocks, e \in EolCl :
          Finish([nobrace |-> nb, snipfile |-> sf, topsplit |-> ts, eol |-> e])
Spec == Init /\ [][Next]_vars

\* ============================ declarative part =======================================
\* all documents; the root is the last one
AllDocs == Append(docs, [kind |-> "root", lines |-> cur, eol |-> opts.eol, cut |-> 0])
RootIdx == Len(docs) + 1

\* textual inclusion: the lines of document d from line i on, imports replaced by their target
RECURSIVE Inline(_, _, _)
Inline(D, d, i) ==
    IF i > Len(D[d].lines) THEN <<>>
    ELSE LET ln == D[d].lines[i]
         IN  (IF ln.k = "imp" THEN Inline(D, ln.t, 1) ELSE << <<d, i>> >>) \o Inline(D, d, i + 1)

\* the structure the property demands: server blocks in order; per block its keys line and
\* its directives in order, each with ALL its lines (own line, nested lines, closing braces)
RECURSIVE Group(_, _, _, _, _, _)
Group(D, L, i, dp, blocks, b) ==
    IF i > Len(L) THEN blocks
    ELSE LET r  == L[i]
             ln == D[r[1]].lines[r[2]]
             n  == Len(b.units)
         IN  IF ln.k = "keys" THEN Group(D, L, i + 1, 1, blocks, [keys |-> r, units |-> <<>>])
             ELSE IF ln.k = "dir" /\ dp = 1
                  THEN Group(D, L, i + 1, IF ln.o THEN 2 ELSE 1, blocks, [b EXCEPT !.units = Append(@, <<r>>)])
             ELSE IF ln.k = "dir"
                  THEN Group(D, L, i + 1, IF ln.o THEN dp + 1 ELSE dp, blocks, [b EXCEPT !.units[n] = Append(@, r)])
             ELSE IF dp = 1   \* close of the server block
                  THEN Group(D, L, i + 1, 0, Append(blocks, b), b)
             ELSE Group(D, L, i + 1, dp - 1, blocks, [b EXCEPT !.units[n] = Append(@, r)])

Expected == Group(AllDocs, Inline(AllDocs, RootIdx, 1), 1, 0, <<>>, [keys |-> <<0, 0>>, units |-> <<>>])

\* ---- well-formedness of what is generated (the domain of the property) --------------------
RECURSIVE DepthAfter(_, _, _)
DepthAfter(lines, i, dp) ==          \* nesting after the lines, -1 if it ever closes too much
    IF dp < 0 \/ i > Len(lines) THEN dp
    ELSE DepthAfter(lines, i + 1, CASE lines[i].k = "close" -> dp - 1
                                    [] lines[i].k \in {"keys", "dir"} /\ lines[i].o -> dp + 1
                                    [] OTHER -> dp)
FragmentsBalanced == \A d \in 1..Len(docs) : DepthAfter(docs[d].lines, 1, 1) = 1
ImportsResolved   == /\ \A d \in 1..Len(docs) : \A i \in 1..Len(docs[d].lines) :
                          docs[d].lines[i].k = "imp" => docs[d].lines[i].t < d      \* acyclic
                     /\ \A i \in 1..Len(cur) : cur[i].k = "imp" => cur[i].t \in 1..Len(docs)
LinesOf(L) == [i \in 1..Len(L) |-> AllDocs[L[i][1]].lines[L[i][2]]]
DoneIsWellFormed ==
    phase = "done" =>
        LET L == Inline(AllDocs, RootIdx, 1) IN
        /\ DepthAfter(LinesOf(L), 1, 0) = 0                       \* the inlined text is balanced
        /\ \A i \in 1..Len(L) : LinesOf(L)[i].k # "imp"            \* nothing left to import
        /\ Len(Expected) = nblocks                                 \* every server block is there
        /\ \A k \in 1..Len(Expected) :                             \* keys lines head the blocks
              AllDocs[Expected[k].keys[1]].lines[Expected[k].keys[2]].k = "keys"
BudgetOK == budget \in 0..MaxLines /\ imps \in 0..MaxImps /\ depth \in 0..MaxDepth

\* ============================ case emission ========================================
\* (lines are written as tuples <<k, n, t, a, o, ly>> to keep the output small)
Compact(d) == [kind |-> d.kind, eol |-> d.eol, cut |-> d.cut,
               lines |-> [i \in 1..Len(d.lines) |-> LET l == d.lines[i] IN <<l.k, l.n, l.t, l.a, l.o, l.ly>>]]
Emit == phase = "done" =>
          PrintT(<<"CASE", ToJson([docs |-> [d \in 1..Len(AllDocs) |-> Compact(AllDocs[d])],
                                   opts |-> opts, exp |-> Expected])>>)
=============================================================================
