---------------------------- MODULE PeerGrammar ----------------------------
(***************************************************************************)
(* C19 - the input spaces of the peer-facing parsers as explicit, finite,  *)
(* enumerable objects.  "Processed totally" has no functional oracle (it is*)
(* decided by running the code), so this specification is the model of the *)
(* INPUT SPACE: one token grammar per parser, structure-aware (the tokens  *)
(* are the things the hand-written parsers look for), grown one token per  *)
(* step so that TLC's breadth-first search enumerates every string up to   *)
(* the bound, each printed once as a CASE for the harness.  Where a        *)
(* relation exists the model also states what it predicts (number of Link  *)
(* resources, which heuristic a User-Agent selects, the parse of a         *)
(* well-formed hello); the harness reports disagreement with those         *)
(* predictions as model drift - the verdict of C19 is "no panic".          *)
(*                                                                         *)
(* kinds                                                                   *)
(*   link    Link header values          -> push.parseLinkHeader, push.Middleware *)
(*   ua      User-Agent strings          -> getVersion, tlsHandler.ServeHTTP      *)
(*   tpl     placeholder templates       -> replacer.Replace                       *)
(*   host    Host header values          -> {label1..}, {hostonly}, {port}, ...   *)
(*   cookie  Cookie header values        -> {~name}                                *)
(*   path    request paths / queries     -> {dir} {file} {?q} ..., Path.Matches, basicauth *)
(*   auth    Authorization header values -> basicauth                              *)
(*   fcgi    record sequences a FastCGI backend sends -> record.read, streamReader *)
(*   cgi     CGI header blocks a FastCGI backend sends -> FCGIClient.Request      *)
(*   hello   a ClientHello with each length field perturbed -> parseRawClientHello *)
(*   info    parsed-hello shapes          -> looksLike*, tlsHandler.ServeHTTP      *)
(***************************************************************************)
EXTENDS Integers, Sequences, FiniteSets, TLC, Json

CONSTANTS MaxLen,       \* function: kind -> maximal number of tokens
          Modes         \* set of length perturbations used for "hello"

\* bounds the cfgs substitute
MaxLenQuick    == [link |-> 6, ua |-> 4, tpl |-> 5, host |-> 5, cookie |-> 5, path |-> 5, auth |-> 4, fcgi |-> 2, cgi |-> 4]
MaxLenThorough == [link |-> 6, ua |-> 5, tpl |-> 5, host |-> 6, cookie |-> 6, path |-> 5, auth |-> 5, fcgi |-> 3, cgi |-> 5]
ModesQuick     == {"ok", "m1", "p1"}             \* claimed length = true length, -1, +1
ModesThorough  == {"ok", "m1", "p1", "max"}      \* ... or the largest value the field can hold

\* ---- alphabets ---------------------------------------------------------------
FcgiRecs == { [t |-> t, claim |-> c, pad |-> p] :
                t \in {"out", "err", "end", "unk", "badver"}, c \in {"ok", "short", "zero", "max"}, p \in {"0", "7short"} }

Alphabet(k) ==
    CASE k = "link"   -> {"<", ">", ",", ";", "=", "a", " ", "\""}
      [] k = "ua"     -> {"Firefox/", "Chrome", "Edge", "Safari", "CriOS", "Windows", "45", "52", ".", "0", "-", " "}
      [] k = "tpl"    -> {"{", "}", "\\", ">", "~", "?", "$", "<", "label", "1", "x"}
      [] k = "host"   -> {"a", ".", ":", "[", "]", "80", "-"}
      [] k = "cookie" -> {"a", "=", ";", " ", "\"", ","}
      [] k = "path"   -> {"/", "a", ".", "%", "?", "&", "=", "{", "}"}
      [] k = "auth"   -> {"Basic", " ", "dTpw", "=", ":", "a", "Bearer"}
      [] k = "fcgi"   -> FcgiRecs
      \* the CGI header block a FastCGI responder writes on stdout (symbolic names: SP HT CRLF and the
      \* non-ASCII white space NBSP = U+00A0, NEL = U+0085, which textproto does not trim)
      [] k = "cgi"    -> {"Status:", "SP", "HT", "NBSP", "NEL", "200", "OK", "CRLF", "X-A:", "a"}
      [] k = "hello"  -> Modes
GrowKinds == {"link", "ua", "tpl", "host", "cookie", "path", "auth", "fcgi", "cgi"}

\* ---- ClientHello building blocks (decimal TLS code points) -----------------------
FirefoxCiphers == <<4865, 4867, 4866, 49195, 49199, 52393, 52392, 49196, 49200, 49162, 49161, 49171, 49172, 51, 57, 47, 53, 10>>
SafariCiphers  == <<255, 49196, 49195, 49188, 49187, 49162, 49161, 49200, 49199, 49192, 49191, 49172, 49171, 157, 156, 61, 60, 53, 47>>
CipherShapes == [ none |-> <<>>, firefox |-> FirefoxCiphers, safari |-> SafariCiphers,
                  chrome |-> <<2570, 4865, 49195, 49199>>, rc4 |-> <<4, 5, 255>> ]
ExtShapes == [ none |-> <<>>, firefox |-> <<0, 23, 65281, 10, 11, 35, 16, 5, 13>>,
               safari |-> <<10, 11, 13, 13172, 16, 5, 18, 23>>,
               ios11 |-> <<65281, 0, 23, 13, 5, 13172, 18, 16, 11, 10>>,
               tor |-> <<10, 11, 16, 5, 13>>, ocsplast |-> <<10, 11, 5>>, ocsp1 |-> <<5, 10>>,
               ocsp2 |-> <<5, 10, 11>>, ocspx |-> <<5, 11, 10>>, heartbeat |-> <<15, 10>> ]
FullCurves == <<29, 23, 24, 25, 256, 257>>
CurveShapes == [ c0 |-> <<>>, c1 |-> SubSeq(FullCurves, 1, 1), c2 |-> SubSeq(FullCurves, 1, 2), c3 |-> SubSeq(FullCurves, 1, 3),
                 c4 |-> SubSeq(FullCurves, 1, 4), c5 |-> SubSeq(FullCurves, 1, 5), c6 |-> FullCurves,
                 c5x |-> <<29, 23, 24, 25, 257>>, tor3 |-> <<23, 24, 25>>, chrome |-> <<2570, 29, 23, 24>>, c7 |-> FullCurves \o <<2570>> ]

\* whole hellos: session id length, cipher suites, compression methods, extensions (10 carries the
\* curves, 11 the point formats, any other type t carries t % 3 zero bytes), curves, points
HelloBases == [ firefox |-> [sid |-> 32, ciphers |-> FirefoxCiphers, comp |-> <<0>>, exts |-> ExtShapes.firefox, curves |-> <<29, 23, 24, 25>>, points |-> <<0>>],
                five    |-> [sid |-> 0,  ciphers |-> <<4865, 47>>, comp |-> <<0>>, exts |-> <<23, 65281, 10, 11, 35, 16, 5, 13>>, curves |-> <<29, 23, 24, 25, 256>>, points |-> <<0, 1, 2>>],
                small   |-> [sid |-> 1,  ciphers |-> <<47>>, comp |-> <<0, 1>>, exts |-> <<10, 11>>, curves |-> <<23>>, points |-> <<0>>],
                noext   |-> [sid |-> 32, ciphers |-> <<>>, comp |-> <<>>, exts |-> <<>>, curves |-> <<>>, points |-> <<>>] ]
BaseNames == DOMAIN HelloBases
\* the length fields that are perturbed, in this order (token i+1 of a "hello" case is the mode of field i)
PertFields == <<"sid", "cs", "cm", "extall", "ext10", "curves", "ext11", "points">>

VARIABLES kind, toks
vars == <<kind, toks>>

Init ==
    \/ /\ kind \in GrowKinds /\ toks = <<>>
    \/ /\ kind = "hellobase" /\ toks \in {<<b>> : b \in BaseNames}
    \/ /\ kind = "hello" /\ toks \in {<<b>> : b \in BaseNames}
    \/ /\ kind = "info" /\ toks \in {<<c, e, v>> : c \in DOMAIN CipherShapes, e \in DOMAIN ExtShapes, v \in DOMAIN CurveShapes}

\* append one token (for "hello": the perturbation mode of the next length field)
Grow ==
    /\ kind \in GrowKinds \cup {"hello"}
    /\ Len(toks) < (IF kind = "hello" THEN 1 + Len(PertFields) ELSE MaxLen[kind])
    /\ \E t \in Alphabet(kind) : toks' = Append(toks, t)
    /\ UNCHANGED kind
Next == Grow
Spec == Init /\ [][Next]_vars

\* ---- what the model predicts where a relation exists ---------------------------------
\* Link: resources = comma-separated segments whose first "<" comes before their first ">"
FirstIdx(s, c) == IF \E x \in 1..Len(s) : s[x] = c THEN CHOOSE x \in 1..Len(s) : s[x] = c /\ \A y \in 1..(x-1) : s[y] # c ELSE 0
RECURSIVE LinkCount(_)
LinkCount(s) ==
    LET cut == FirstIdx(s, ",")
        seg == IF cut = 0 THEN s ELSE SubSeq(s, 1, cut - 1)
        li  == FirstIdx(seg, "<")
        ri  == FirstIdx(seg, ">")
        one == IF li > 0 /\ ri > 0 /\ li < ri THEN 1 ELSE 0
    IN  IF cut = 0 THEN one ELSE one + LinkCount(SubSeq(s, cut + 1, Len(s)))
\* User-Agent: the heuristic tlsHandler.ServeHTTP consults (first match wins)
Has(w) == \E x \in 1..Len(toks) : toks[x] = w
Branch == IF Has("Edge") THEN "edge" ELSE IF Has("Chrome") THEN "chrome" ELSE IF Has("CriOS") THEN "crios"
          ELSE IF Has("Firefox/") THEN "firefox" ELSE IF Has("Safari") THEN "safari" ELSE "none"

\* ---- properties of the grammar itself (so that a typo in it cannot go unnoticed) -------
TypeOK == kind \in GrowKinds \cup {"hellobase", "hello", "info"}
Bounded == kind \in GrowKinds => Len(toks) <= MaxLen[kind]
LinkCountSane == kind = "link" => LinkCount(toks) <= Cardinality({x \in 1..Len(toks) : toks[x] = "<"})
\* a well-formed hello's extension list mentions curves / points exactly when it carries them
BasesConsistent == \A b \in BaseNames :
    LET h == HelloBases[b] IN
    /\ (h.curves # <<>>) => (\E x \in 1..Len(h.exts) : h.exts[x] = 10)
    /\ (h.points # <<>>) => (\E x \in 1..Len(h.exts) : h.exts[x] = 11)
    /\ h.sid <= 32

\* ---- emission ------------------------------------------------------------------------
Complete == kind # "hello" \/ Len(toks) = 1 + Len(PertFields)
Emit == Complete =>
    PrintT(<<"CASE", ToJson(
        CASE kind = "link"      -> [k |-> kind, t |-> toks, n |-> LinkCount(toks)]
          [] kind = "ua"        -> [k |-> kind, t |-> toks, branch |-> Branch]
          [] kind = "hellobase" -> [k |-> kind, t |-> toks, hello |-> HelloBases[toks[1]]]
          [] kind = "info"      -> [k |-> kind, t |-> toks, ciphers |-> CipherShapes[toks[1]], exts |-> ExtShapes[toks[2]], curves |-> CurveShapes[toks[3]]]
          [] kind = "fcgi"      -> [k |-> kind, recs |-> toks]
          [] OTHER              -> [k |-> kind, t |-> toks])>>)
=============================================================================
