----------------------------- MODULE EventHooks -----------------------------
(***************************************************************************)
(* Extension of C16: event emission and the `on` directive across the      *)
(* instance lifecycle.                                                     *)
(*                                                                         *)
(* Modelled code:                                                          *)
(*   plugins.go    RegisterEventHook / EmitEvent / the registry            *)
(*                 (eventHooks), cloneEventHooks / purgeEventHooks /       *)
(*                 restoreEventHooks                                       *)
(*   casket.go     Start, Instance.Restart (EmitEvent(InstanceStartupEvent)*)
(*                 after success), startWithListenerFds (clone, restore on *)
(*                 failure), ValidateAndExecuteDirectives(justValidate),   *)
(*                 executeDirectives (OncePerServerBlock)                  *)
(*   sigtrap.go    executeShutdownCallbacks: ShutdownEvent inside the Once *)
(*   sigtrap_posix SIGUSR1: load, clone, purge, InstanceRestartEvent,      *)
(*                 Restart, restore on failure; TERM / QUIT                *)
(*   caskettls/setup.go   CertRenewEvent for a cert_obtained renewal       *)
(*   onevent, onevent/hook   the `on <event> <command> [args] [&]`         *)
(*                 directive: hooks registered once per server block,      *)
(*                 blocking / non-blocking commands, errors only logged    *)
(*   casketmain/run.go    StartupEvent before any configuration is loaded  *)
(*                                                                         *)
(* One controller executes a history of operations (start, API reload,     *)
(* SIGUSR1 reload, stop, validate, certificate event, exit-signal script), *)
(* each as the sequence of steps the code takes.  The SIGUSR1 handler runs *)
(* in casket's POSIX signal goroutine; the history waits for it, so its    *)
(* steps are written as controller steps.  The exit script (TERM / INT /   *)
(* QUIT, any number, concurrent) is handled by the two signal goroutines   *)
(* and the goroutine an INT spawns, as in Shutdown.tla, with the emission  *)
(* of ShutdownEvent inside the sync.Once.                                  *)
(*                                                                         *)
(* Hooks:  <<"plug",0,0>>  a hook a plugin registered at process start     *)
(*         <<"cfg",g,0>>   a hook registered by a directive of the         *)
(*                         configuration of generation g (once per block)  *)
(*         <<"on",g,j>>    the j-th `on` directive of generation g         *)
(***************************************************************************)
EXTENDS Naturals, Sequences, FiniteSets, TLC, Json

CONSTANTS MaxOps,       \* length of the histories (the exit script counts as one operation)
          MaxLive,      \* at most this many instances at a time
          CfgNames,     \* the configurations (names of CfgTable) operations may load
          MaxSigs,      \* length of exit scripts
          EarlyRestart  \* TRUE: also admit InstanceRestartEvent emitted BEFORE the purge (see UEmitEarly)

\* ---- configurations --------------------------------------------------------
\* e: event the `on` line names (after the mapping of onevent/hook: startup -> instancestartup),
\* m: "b" blocking | "n" non-blocking (trailing &), o: "ok" | "fail" (exit status 3) | "nostart" (no such command)
On(e, m, o) == [e |-> e, m |-> m, o |-> o]
CfgTable == [
    none  |-> [keys |-> 1, ons |-> <<>>],
    none2 |-> [keys |-> 2, ons |-> <<>>],
    sb    |-> [keys |-> 1, ons |-> <<On("instancestartup", "b", "ok")>>],
    sn    |-> [keys |-> 1, ons |-> <<On("instancestartup", "n", "ok")>>],
    db    |-> [keys |-> 1, ons |-> <<On("shutdown", "b", "ok")>>],
    dn    |-> [keys |-> 1, ons |-> <<On("shutdown", "n", "ok")>>],
    cb    |-> [keys |-> 1, ons |-> <<On("certrenew", "b", "ok")>>],
    cn    |-> [keys |-> 2, ons |-> <<On("certrenew", "n", "ok")>>],
    sf    |-> [keys |-> 1, ons |-> <<On("instancestartup", "b", "fail")>>],
    sx    |-> [keys |-> 1, ons |-> <<On("instancestartup", "b", "nostart")>>],
    snx   |-> [keys |-> 1, ons |-> <<On("instancestartup", "n", "nostart"), On("shutdown", "b", "fail")>>],
    snf   |-> [keys |-> 1, ons |-> <<On("instancestartup", "n", "fail"), On("certrenew", "n", "ok")>>],
    mix   |-> [keys |-> 2, ons |-> <<On("instancestartup", "b", "ok"), On("shutdown", "n", "ok"), On("certrenew", "b", "ok")>>],
    mix2  |-> [keys |-> 2, ons |-> <<On("instancestartup", "n", "ok"), On("instancestartup", "b", "fail"), On("shutdown", "b", "ok")>>] ]
MaxOn == 3

Sig == {"TERM", "INT", "QUIT"}
RECURSIVE SeqsUpTo(_)
SeqsUpTo(m) == IF m = 0 THEN {<<>>} ELSE SeqsUpTo(m - 1) \cup {Append(s, x) : s \in {t \in SeqsUpTo(m - 1) : Len(t) = m - 1}, x \in Sig}
ExitScripts == SeqsUpTo(MaxSigs) \ {<<>>}

StartFails  == {"none", "onparse", "setup", "startupcb", "listen"}
ReloadFails == StartFails \cup {"restartcb"}
Usr1Fails   == ReloadFails \cup {"load"}

\* an operation: t type, c configuration, f failure stage (cert: kind of certificate event),
\* p position of the instance in casket.Instances() it acts on, s exit script
Ops == [t : {"start"},    c : CfgNames, f : StartFails,  p : {0}, s : {<<>>}]
  \cup [t : {"reload"},   c : CfgNames, f : ReloadFails, p : 1..MaxLive, s : {<<>>}]
  \cup [t : {"usr1"},     c : CfgNames, f : Usr1Fails,   p : {0}, s : {<<>>}]
  \cup [t : {"stop"},     c : {"none"}, f : {"none"},    p : 1..MaxLive, s : {<<>>}]
  \cup [t : {"validate"}, c : CfgNames, f : {"none", "onparse", "setup"}, p : {0}, s : {<<>>}]
  \cup [t : {"cert"},     c : {"none"}, f : {"renew", "new", "other"}, p : 1..MaxLive, s : {<<>>}]
  \cup [t : {"exit"},     c : {"none"}, f : {"none"},    p : {0}, s : ExitScripts]
GenOps == {"start", "reload", "usr1", "validate"}      \* operations that create a generation number

Events == {"startup", "instancestartup", "instancerestart", "certrenew", "shutdown"}
Gens == 1..MaxOps
Hooks == {<<"plug", 0, 0>>} \cup {<<"cfg", x, 0>> : x \in Gens} \cup {<<"on", x, j>> : x \in Gens, j \in 1..MaxOn}
None == <<"none", 0, 0>>

VARIABLES
    hist, pc, op, g, old, k,          \* controller: history, step, operation, new generation, old generation, key index
    inst,                              \* [gen -> [c, state]]
    instances,                         \* the package-level instance list
    reg,                               \* the hook registry (eventHooks)
    snapS, snapU, snapV,               \* the clones held by startWithListenerFds / the SIGUSR1 handler / validation
    em,                                \* the emission in progress
    cur, cst,                          \* the hook being executed and the state of its command
    lastErr,                           \* whether the last hook returned an error (EmitEvent logs it, nothing else)
    nEmit,                             \* [event -> emissions so far]
    isu,                               \* [gen -> InstanceStartupEvent emissions carrying that instance]
    shutcb,                            \* [gen -> times the OnShutdown callbacks of that instance ran]
    nbStarted, nbDone,                 \* non-blocking commands launched / finished
    reg0, since, plugOk,               \* ghosts: registry at the call; generations loaded since the last SIGUSR1 reload; no SIGUSR1 reload yet
    pending, pch, ich, ppc, ints, jpc, once, runner, ci, exited   \* process level, as in Shutdown.tla

ctl   == <<hist, pc, op, g, old, k>>
world == <<inst, instances, reg, snapS, snapU, snapV>>
emv   == <<em, cur, cst, lastErr>>
cnt   == <<nEmit, isu, shutcb, nbStarted, nbDone>>
ghost == <<reg0, since, plugOk>>
proc  == <<pending, pch, ich, ppc, ints, jpc, once, runner, ci, exited>>
vars  == <<ctl, world, emv, cnt, ghost, proc>>

NoOp   == [t |-> "none", c |-> "none", f |-> "none", p |-> 0, s |-> <<>>]
NoInst == [c |-> "none", state |-> "unused"]
NoInfo == [k |-> "nil", g |-> 0, s |-> ""]
NoEm   == [on |-> FALSE, ev |-> "", info |-> NoInfo, snap |-> {}, todo |-> {}, ran |-> {}, owner |-> "-", next |-> ""]

Init ==
    /\ hist = <<>> /\ pc = "boot" /\ op = NoOp /\ g = 0 /\ old = 0 /\ k = 0
    /\ inst = [x \in Gens |-> NoInst] /\ instances = <<>>
    /\ reg = {<<"plug", 0, 0>>}                         \* a plugin registered its hook in init()
    /\ snapS = {} /\ snapU = {} /\ snapV = {}
    /\ em = NoEm /\ cur = None /\ cst = "-" /\ lastErr = FALSE
    /\ nEmit = [e \in Events |-> 0] /\ isu = [x \in Gens |-> 0] /\ shutcb = [x \in Gens |-> 0]
    /\ nbStarted = 0 /\ nbDone = 0
    /\ reg0 = {} /\ since = {} /\ plugOk = TRUE
    /\ pending = <<>> /\ pch = <<>> /\ ich = <<>> /\ ppc = "wait" /\ ints = 0 /\ jpc = "none"
    /\ once = "idle" /\ runner = "-" /\ ci = 1 /\ exited = "no"

\* ---- helpers -------------------------------------------------------------
Alive == exited = "no"
Remove(seq, x) == SelectSeq(seq, LAMBDA y : y # x)
GenCount(h) == Len(SelectSeq(h, LAMBDA o : o.t \in GenOps))
Cfg(x) == CfgTable[inst[x].c]
OnHooks(x) == {<<"on", x, j>> : j \in 1..Len(Cfg(x).ons)}
HooksOf(x) == {<<"cfg", x, 0>>} \cup OnHooks(x)        \* what loading generation x registers
IsOn(h) == h[1] = "on"
OnSpec(h) == Cfg(h[2]).ons[h[3]]
Matches(h) == IsOn(h) /\ OnSpec(h).e = em.ev           \* hook.Config.Hook: `if event != cfg.Event { return nil }`
Blocking(h) == OnSpec(h).m = "b"
Launches(h) == Matches(h) /\ OnSpec(h).o # "nostart"   \* a process really starts
\* the hook returns an error: the command cannot be started, or a blocking command exits with a
\* non-zero status (nobody waits for a non-blocking one)
HookErr(h) == Matches(h) /\ (OnSpec(h).o = "nostart" \/ (Blocking(h) /\ OnSpec(h).o = "fail"))

Applicable(o) ==
    CASE o.t = "start"    -> Len(instances) < MaxLive
      [] o.t = "reload"   -> o.p <= Len(instances)
      [] o.t = "usr1"     -> Len(instances) >= 1
      [] o.t = "stop"     -> o.p <= Len(instances)
      [] o.t = "validate" -> TRUE
      [] o.t = "cert"     -> o.p <= Len(instances)
      [] o.t = "exit"     -> TRUE
      [] OTHER            -> FALSE

\* EmitEvent is entered: eventHooks.Range starts over the registry as it is now
EmitBegin(ev, info, owner, next) ==
    /\ em' = [on |-> TRUE, ev |-> ev, info |-> info, snap |-> reg, todo |-> reg, ran |-> {}, owner |-> owner, next |-> next]
    /\ nEmit' = [nEmit EXCEPT ![ev] = @ + 1]

\* ---- process start (casketmain.Run): StartupEvent before a configuration exists -------------
ProcStartup ==
    /\ Alive /\ pc = "boot"
    /\ EmitBegin("startup", NoInfo, "c", "idle")
    /\ pc' = "emit"
    /\ UNCHANGED <<hist, op, g, old, k, world, cur, cst, lastErr, isu, shutcb, nbStarted, nbDone, ghost, proc>>

\* ---- controller: begin an operation --------------------------------------
BeginOp(o) ==
    /\ Alive /\ pc = "idle" /\ Len(hist) < MaxOps /\ Applicable(o)
    /\ hist' = Append(hist, o) /\ op' = o /\ reg0' = reg
    /\ LET ng == GenCount(hist) + 1 IN
       CASE o.t = "start" ->
              \* startWithListenerFds: the instance is saved in the list first
              /\ g' = ng /\ old' = 0 /\ k' = 0
              /\ inst' = [inst EXCEPT ![ng] = [c |-> o.c, state |-> "starting"]]
              /\ instances' = Append(instances, ng)
              /\ pc' = "clone"
         [] o.t = "reload" ->
              /\ g' = ng /\ old' = instances[o.p] /\ k' = 0
              /\ inst' = [inst EXCEPT ![ng] = [c |-> o.c, state |-> "unused"]]
              /\ pc' = "restartcb"
              /\ UNCHANGED instances
         [] o.t = "usr1" ->
              \* the environment sends SIGUSR1; the POSIX loop takes it
              /\ g' = ng /\ old' = Head(instances) /\ k' = 0      \* getCurrentCasketfile: instances[0]
              /\ inst' = [inst EXCEPT ![ng] = [c |-> o.c, state |-> "unused"]]
              /\ pc' = "u_load"
              /\ UNCHANGED instances
         [] o.t = "stop" ->
              /\ g' = 0 /\ old' = instances[o.p] /\ k' = 0 /\ pc' = "stop"
              /\ UNCHANGED <<inst, instances>>
         [] o.t = "validate" ->
              \* ValidateAndExecuteDirectives(justValidate): a throw-away instance, not in the list
              /\ g' = ng /\ old' = 0 /\ k' = 0
              /\ inst' = [inst EXCEPT ![ng] = [c |-> o.c, state |-> "validating"]]
              /\ pc' = "v_clone"
              /\ UNCHANGED instances
         [] o.t = "cert" ->
              /\ g' = 0 /\ old' = instances[o.p] /\ k' = 0 /\ pc' = "cert"
              /\ UNCHANGED <<inst, instances>>
         [] o.t = "exit" ->
              /\ g' = 0 /\ old' = 0 /\ k' = 0 /\ pc' = "exiting"
              /\ UNCHANGED <<inst, instances>>
    /\ pending' = (IF o.t = "exit" THEN o.s ELSE pending)
    /\ UNCHANGED <<reg, snapS, snapU, snapV, emv, cnt, since, plugOk, pch, ich, ppc, ints, jpc, once, runner, ci, exited>>

\* ---- loading a configuration (shared by Start, Restart, validation) --------
\* startWithListenerFds: oldEventHooks := cloneEventHooks()
CloneS ==
    /\ Alive /\ pc = "clone"
    /\ snapS' = reg /\ pc' = "d_hook" /\ k' = 1
    /\ UNCHANGED <<hist, op, g, old, inst, instances, reg, snapU, snapV, emv, cnt, ghost, proc>>

\* ValidateAndExecuteDirectives(justValidate): oldEventHooks := cloneEventHooks(); defer restore
CloneV ==
    /\ Alive /\ pc = "v_clone"
    /\ snapV' = reg /\ pc' = "d_hook" /\ k' = 1
    /\ UNCHANGED <<hist, op, g, old, inst, instances, reg, snapS, snapU, emv, cnt, ghost, proc>>

FailPc == IF op.t = "validate" THEN "v_restore" ELSE "restore"

\* executeDirectives runs a directive's setup once per key of the server block; a directive
\* that registers an event hook does so inside c.OncePerServerBlock: the first key registers
\* a plugin directive that registers a hook of its own
DirHook ==
    /\ Alive /\ pc = "d_hook"
    /\ reg' = (IF k = 1 THEN reg \cup {<<"cfg", g, 0>>} ELSE reg)
    /\ IF k < Cfg(g).keys THEN k' = k + 1 /\ UNCHANGED pc ELSE k' = 1 /\ pc' = "d_on"
    /\ UNCHANGED <<hist, op, g, old, inst, instances, snapS, snapU, snapV, emv, cnt, ghost, proc>>

\* the `on` directive: onParse of all `on` lines of the block (an unknown event name or a missing
\* command is an error before anything is registered), then RegisterEventHook("on-"+uuid) for each
DirOn ==
    /\ Alive /\ pc = "d_on"
    /\ IF op.f = "onparse"
         THEN pc' = FailPc /\ UNCHANGED <<reg, k>>
         ELSE /\ reg' = (IF k = 1 THEN reg \cup OnHooks(g) ELSE reg)
              /\ IF k < Cfg(g).keys THEN k' = k + 1 /\ UNCHANGED pc ELSE k' = 1 /\ pc' = "d_late"
    /\ UNCHANGED <<hist, op, g, old, inst, instances, snapS, snapU, snapV, emv, cnt, ghost, proc>>

\* a later directive of the same configuration (it can refuse the configuration)
DirLate ==
    /\ Alive /\ pc = "d_late"
    /\ pc' = (IF op.f = "setup" THEN FailPc ELSE IF op.t = "validate" THEN "v_restore" ELSE "startupcb")
    /\ UNCHANGED <<hist, op, g, old, k, world, emv, cnt, ghost, proc>>

\* validation: the deferred restoreEventHooks runs whatever the result
RestoreV ==
    /\ Alive /\ pc = "v_restore"
    /\ reg' = snapV /\ snapV' = {}
    /\ inst' = [inst EXCEPT ![g].state = "validated"]
    /\ pc' = (IF op.f = "none" THEN "retok" ELSE "reterr")
    /\ UNCHANGED <<hist, op, g, old, k, instances, snapS, snapU, emv, cnt, ghost, proc>>

\* startWithListenerFds failed: the deferred function restores the registry and drops the instance
RestoreS ==
    /\ Alive /\ pc = "restore"
    /\ reg' = snapS /\ snapS' = {}
    /\ inst' = [inst EXCEPT ![g].state = "discarded"]
    /\ instances' = Remove(instances, g)
    /\ pc' = (IF op.t = "start" THEN "reterr" ELSE "restartfailed")
    /\ UNCHANGED <<hist, op, g, old, k, snapU, snapV, emv, cnt, ghost, proc>>

StartupCb ==
    /\ Alive /\ pc = "startupcb"
    /\ pc' = (IF op.f = "startupcb" THEN "restore" ELSE "listen")
    /\ UNCHANGED <<hist, op, g, old, k, world, emv, cnt, ghost, proc>>

\* startServers: the listener is obtained and the serve goroutines start; startWithListenerFds returns nil
Listen ==
    /\ Alive /\ pc = "listen"
    /\ IF op.f = "listen"
         THEN pc' = "restore" /\ UNCHANGED <<inst, snapS>>
         ELSE /\ inst' = [inst EXCEPT ![g].state = "live"]
              /\ snapS' = {}
              /\ pc' = (IF op.t = "start" THEN "emitsu" ELSE "oldstop")
    /\ UNCHANGED <<hist, op, g, old, k, instances, reg, snapU, snapV, emv, cnt, ghost, proc>>

\* Start / Restart: `EmitEvent(InstanceStartupEvent, newInst)` - the last thing before returning
EmitStartup ==
    /\ Alive /\ pc = "emitsu"
    /\ EmitBegin("instancestartup", [k |-> "inst", g |-> g, s |-> ""], "c", "retok")
    /\ isu' = [isu EXCEPT ![g] = @ + 1]
    /\ pc' = "emit"
    /\ UNCHANGED <<hist, op, g, old, k, world, cur, cst, lastErr, shutcb, nbStarted, nbDone, ghost, proc>>

\* ---- Instance.Restart -------------------------------------------------------
RestartCb ==
    /\ Alive /\ pc = "restartcb"
    /\ pc' = (IF op.f = "restartcb" THEN "restartfailed" ELSE "newinst")
    /\ UNCHANGED <<hist, op, g, old, k, world, emv, cnt, ghost, proc>>

NewInst ==
    /\ Alive /\ pc = "newinst"
    /\ inst' = [inst EXCEPT ![g].state = "starting"]
    /\ instances' = Append(instances, g)
    /\ pc' = "clone"
    /\ UNCHANGED <<hist, op, g, old, k, reg, snapS, snapU, snapV, emv, cnt, ghost, proc>>

\* success: i.Stop() ...
OldStop ==
    /\ Alive /\ pc = "oldstop"
    /\ inst' = [inst EXCEPT ![old].state = "stopped"]
    /\ instances' = Remove(instances, old)
    /\ pc' = "oldshutdown"
    /\ UNCHANGED <<hist, op, g, old, k, reg, snapS, snapU, snapV, emv, cnt, ghost, proc>>

\* ... then the old instance's OnShutdown callbacks, then the event
OldShutdownCb ==
    /\ Alive /\ pc = "oldshutdown"
    /\ shutcb' = [shutcb EXCEPT ![old] = @ + 1]
    /\ pc' = "emitsu"
    /\ UNCHANGED <<hist, op, g, old, k, world, emv, nEmit, isu, nbStarted, nbDone, ghost, proc>>

RestartFailedCb ==
    /\ Alive /\ pc = "restartfailed"
    /\ pc' = (IF op.t = "usr1" THEN "u_restore" ELSE "reterr")
    /\ UNCHANGED <<hist, op, g, old, k, world, emv, cnt, ghost, proc>>

\* ---- the SIGUSR1 handler (sigtrap_posix.go) ---------------------------------
\* loaderUsed.loader.Load: an error ends the handling (`continue`): nothing else happens
ULoad ==
    /\ Alive /\ pc = "u_load"
    /\ pc' = (IF op.f = "load" THEN "reterr" ELSE "u_clone")
    /\ UNCHANGED <<hist, op, g, old, k, world, emv, cnt, ghost, proc>>

UClone ==
    /\ Alive /\ pc = "u_clone"
    /\ snapU' = reg /\ pc' = "u_purge"
    /\ UNCHANGED <<hist, op, g, old, k, inst, instances, reg, snapS, snapV, emv, cnt, ghost, proc>>

UPurge ==
    /\ Alive /\ pc = "u_purge"
    /\ reg' = {} /\ pc' = "u_emit"
    /\ UNCHANGED <<hist, op, g, old, k, inst, instances, snapS, snapU, snapV, emv, cnt, ghost, proc>>

\* `EmitEvent(InstanceRestartEvent, nil)` AFTER purgeEventHooks(): the registry is empty, the
\* event reaches no hook at all (what the code does; it looks unintended)
UEmit ==
    /\ Alive /\ pc = "u_emit"
    /\ EmitBegin("instancerestart", NoInfo, "c", "restartcb")
    /\ pc' = "emit"
    /\ UNCHANGED <<hist, op, g, old, k, world, cur, cst, lastErr, isu, shutcb, nbStarted, nbDone, ghost, proc>>

\* deviation admitted by the trace specification only (EarlyRestart): the event emitted before the
\* purge, i.e. to the hooks of the configuration that is being replaced - the apparent intention
UEmitEarly ==
    /\ EarlyRestart /\ Alive /\ pc = "u_purge"
    /\ EmitBegin("instancerestart", NoInfo, "c", "u_purge2")
    /\ pc' = "emit"
    /\ UNCHANGED <<hist, op, g, old, k, world, cur, cst, lastErr, isu, shutcb, nbStarted, nbDone, ghost, proc>>
UPurge2 ==
    /\ Alive /\ pc = "u_purge2"
    /\ reg' = {} /\ pc' = "restartcb"
    /\ UNCHANGED <<hist, op, g, old, k, inst, instances, snapS, snapU, snapV, emv, cnt, ghost, proc>>

\* Restart returned an error: restoreEventHooks(oldEventHooks)
URestore ==
    /\ Alive /\ pc = "u_restore"
    /\ reg' = snapU /\ snapU' = {}
    /\ pc' = "reterr"
    /\ UNCHANGED <<hist, op, g, old, k, inst, instances, snapS, snapV, emv, cnt, ghost, proc>>

\* ---- Instance.Stop: the servers stop; no event, the registry is not touched --
StopInst ==
    /\ Alive /\ pc = "stop"
    /\ inst' = [inst EXCEPT ![old].state = "stopped"]
    /\ instances' = Remove(instances, old)
    /\ pc' = "retok"
    /\ UNCHANGED <<hist, op, g, old, k, reg, snapS, snapU, snapV, emv, cnt, ghost, proc>>

\* ---- certmagic calls Config.OnEvent of an instance's TLS configuration -------
\* only ("cert_obtained", renewal = true) becomes CertRenewEvent, info = the certificate's name
CertEvent ==
    /\ Alive /\ pc = "cert"
    /\ IF op.f = "renew"
         THEN /\ EmitBegin("certrenew", [k |-> "name", g |-> old, s |-> ""], "c", "retok")
              /\ pc' = "emit"
         ELSE pc' = "retok" /\ UNCHANGED <<em, nEmit>>
    /\ UNCHANGED <<hist, op, g, old, k, world, cur, cst, lastErr, isu, shutcb, nbStarted, nbDone, ghost, proc>>

\* ---- the call returns (SIGUSR1: the handler is back in its loop) ------------
Return ==
    /\ Alive /\ pc \in {"retok", "reterr"}
    /\ pc' = "idle" /\ snapU' = {}
    /\ since' = (IF pc = "retok" /\ op.t \in {"start", "reload"} THEN since \cup {g}
                 ELSE IF pc = "retok" /\ op.t = "usr1" THEN {g} ELSE since)
    /\ plugOk' = (plugOk /\ ~(pc = "retok" /\ op.t = "usr1"))
    /\ UNCHANGED <<hist, op, g, old, k, inst, instances, reg, snapS, snapV, emv, cnt, reg0, proc>>

\* ---- EmitEvent: one hook after the other, in the order Range happens to produce -------------
HookCall(h) ==
    /\ Alive /\ em.on /\ cur = None /\ h \in em.todo
    /\ cur' = h /\ cst' = "called"
    /\ em' = [em EXCEPT !.todo = @ \ {h}, !.ran = @ \cup {h}]
    /\ UNCHANGED <<ctl, world, lastErr, cnt, ghost, proc>>

\* a blocking command runs to its end (cmd.Run)
CmdDone ==
    /\ Alive /\ cur # None /\ Launches(cur) /\ Blocking(cur) /\ cst = "called"
    /\ cst' = "cmddone"
    /\ UNCHANGED <<ctl, world, em, cur, lastErr, cnt, ghost, proc>>

\* the hook returns: a blocking command has finished by then (cmd.Run); a non-blocking one has
\* been launched (cmd.Start) and need not have finished
HookRet ==
    /\ Alive /\ cur # None
    /\ (Launches(cur) /\ Blocking(cur)) => cst = "cmddone"
    /\ lastErr' = HookErr(cur)
    /\ nbStarted' = (IF Launches(cur) /\ ~Blocking(cur) THEN nbStarted + 1 ELSE nbStarted)
    /\ cur' = None /\ cst' = "-"
    /\ UNCHANGED <<ctl, world, em, nEmit, isu, shutcb, nbDone, ghost, proc>>

\* a non-blocking command finishes whenever it likes (also after the process is gone)
NbDone ==
    /\ nbDone < nbStarted /\ nbDone' = nbDone + 1
    /\ UNCHANGED <<ctl, world, emv, nEmit, isu, shutcb, nbStarted, ghost, proc>>

\* Range is over: EmitEvent returns to whoever called it
EmitEnd ==
    /\ Alive /\ em.on /\ em.todo = {} /\ cur = None
    /\ em' = NoEm
    /\ CASE em.owner = "c" -> pc' = em.next /\ UNCHANGED <<ppc, jpc, ci>>
         [] em.owner = "p" -> ppc' = em.next /\ ci' = 1 /\ UNCHANGED <<pc, jpc>>
         [] em.owner = "j" -> jpc' = em.next /\ ci' = 1 /\ UNCHANGED <<pc, ppc>>
    /\ UNCHANGED <<hist, op, g, old, k, world, cur, cst, lastErr, cnt, ghost, pending, pch, ich, ints, once, runner, exited>>

\* ---- process level: TERM / INT / QUIT (Shutdown.tla with the event inside the Once) ---------
RemoveAt(sq, i) == [j \in 1..(Len(sq) - 1) |-> IF j < i THEN sq[j] ELSE sq[j + 1]]
Deliver ==
    /\ Alive /\ pending # <<>>
    /\ \E i \in 1..Len(pending) :
        /\ pending' = RemoveAt(pending, i)
        /\ IF pending[i] = "INT"
             THEN ich' = (IF ich = <<>> THEN <<"INT">> ELSE ich) /\ UNCHANGED pch
             ELSE pch' = (IF pch = <<>> THEN <<pending[i]>> ELSE pch) /\ UNCHANGED ich
    /\ UNCHANGED <<ctl, world, emv, cnt, ghost, ppc, ints, jpc, once, runner, ci, exited>>

PTake ==
    /\ Alive /\ ppc = "wait" /\ pch # <<>>
    /\ pch' = <<>>
    /\ IF Head(pch) = "QUIT" THEN exited' = "quit" /\ UNCHANGED ppc
                               ELSE ppc' = "once" /\ UNCHANGED exited
    /\ UNCHANGED <<ctl, world, emv, cnt, ghost, pending, ich, ints, jpc, once, runner, ci>>

\* executeShutdownCallbacks: shutdownCallbacksOnce.Do(func() { EmitEvent(ShutdownEvent, signame); ...
POnce ==
    /\ Alive /\ ppc = "once" /\ ~em.on
    /\ \/ /\ once = "idle" /\ once' = "running" /\ runner' = "p"
          /\ EmitBegin("shutdown", [k |-> "sig", g |-> 0, s |-> "SIGTERM"], "p", "cbs")
          /\ ppc' = "emit"
       \/ once = "done" /\ ppc' = "stop" /\ UNCHANGED <<once, runner, em, nEmit>>
    /\ UNCHANGED <<ctl, world, cur, cst, lastErr, isu, shutcb, nbStarted, nbDone, ghost, pending, pch, ich, ints, jpc, ci, exited>>
JOnce ==
    /\ Alive /\ jpc = "once" /\ ~em.on
    /\ \/ /\ once = "idle" /\ once' = "running" /\ runner' = "j"
          /\ EmitBegin("shutdown", [k |-> "sig", g |-> 0, s |-> "SIGINT"], "j", "cbs")
          /\ jpc' = "emit"
       \/ once = "done" /\ jpc' = "exit" /\ UNCHANGED <<once, runner, em, nEmit>>
    /\ UNCHANGED <<ctl, world, cur, cst, lastErr, isu, shutcb, nbStarted, nbDone, ghost, pending, pch, ich, ints, ppc, ci, exited>>

\* allShutdownCallbacks: the OnShutdown callbacks of every instance in the list, AFTER the event
ShutCb(who) ==
    /\ Alive /\ once = "running" /\ runner = who /\ ~em.on
    /\ (IF who = "p" THEN ppc ELSE jpc) = "cbs"
    /\ ci <= Len(instances)
    /\ shutcb' = [shutcb EXCEPT ![instances[ci]] = @ + 1]
    /\ ci' = ci + 1
    /\ UNCHANGED <<ctl, world, emv, nEmit, isu, nbStarted, nbDone, ghost, pending, pch, ich, ppc, ints, jpc, once, runner, exited>>

LeaveOnce(who) ==
    /\ Alive /\ once = "running" /\ runner = who /\ ~em.on
    /\ (IF who = "p" THEN ppc ELSE jpc) = "cbs"
    /\ ci > Len(instances)
    /\ once' = "done" /\ runner' = "-"
    /\ IF who = "p" THEN ppc' = "stop" /\ UNCHANGED jpc ELSE jpc' = "exit" /\ UNCHANGED ppc
    /\ UNCHANGED <<ctl, world, emv, cnt, ghost, pending, pch, ich, ints, ci, exited>>

\* TERM: casket.Stop() stops the instances one after the other, then os.Exit
PStop ==
    /\ Alive /\ ppc = "stop"
    /\ IF instances # <<>>
         THEN /\ inst' = [inst EXCEPT ![Head(instances)].state = "stopped"]
              /\ instances' = Tail(instances)
              /\ UNCHANGED exited
         ELSE exited' = "term" /\ UNCHANGED <<inst, instances>>
    /\ UNCHANGED <<ctl, reg, snapS, snapU, snapV, emv, cnt, ghost, pending, pch, ich, ppc, ints, jpc, once, runner, ci>>

ITake ==
    /\ Alive /\ ich # <<>>
    /\ ich' = <<>>
    /\ IF ints > 0 THEN exited' = "force" /\ UNCHANGED <<ints, jpc>>
                   ELSE ints' = 1 /\ jpc' = "once" /\ UNCHANGED exited
    /\ UNCHANGED <<ctl, world, emv, cnt, ghost, pending, pch, ppc, once, runner, ci>>

JExit ==
    /\ Alive /\ jpc = "exit" /\ exited' = "int"
    /\ UNCHANGED <<ctl, world, emv, cnt, ghost, pending, pch, ich, ppc, ints, jpc, once, runner, ci>>

Controller ==
    \/ ProcStartup \/ (\E o \in Ops : BeginOp(o))
    \/ CloneS \/ CloneV \/ DirHook \/ DirOn \/ DirLate \/ RestoreV \/ RestoreS \/ StartupCb \/ Listen \/ EmitStartup
    \/ RestartCb \/ NewInst \/ OldStop \/ OldShutdownCb \/ RestartFailedCb
    \/ ULoad \/ UClone \/ UPurge \/ UEmit \/ UEmitEarly \/ UPurge2 \/ URestore
    \/ StopInst \/ CertEvent \/ Return
Emission == (\E h \in Hooks : HookCall(h)) \/ CmdDone \/ HookRet \/ NbDone \/ EmitEnd
Process == Deliver \/ PTake \/ POnce \/ JOnce \/ ShutCb("p") \/ ShutCb("j") \/ LeaveOnce("p") \/ LeaveOnce("j")
           \/ PStop \/ ITake \/ JExit
Next == Controller \/ Emission \/ Process
Spec == Init /\ [][Next]_vars /\ WF_vars(Next)

\* ---- the guarantees ----------------------------------------------------------
TypeOK ==
    /\ reg \subseteq Hooks /\ snapS \subseteq Hooks /\ snapU \subseteq Hooks /\ snapV \subseteq Hooks
    /\ em.todo \subseteq em.snap /\ em.ran \subseteq em.snap
    /\ cur \in Hooks \cup {None}
    /\ nbDone <= nbStarted
    /\ exited \in {"no", "term", "int", "quit", "force"}

\* every hook registered when the event is emitted runs exactly once for that emission (the
\* order is not specified): while the emission runs, "has run" and "still to run" partition the
\* registry as it was; it cannot end before every hook has run
EachHookOncePerEmission ==
    em.on => /\ em.ran \cup em.todo = em.snap
             /\ em.ran \cap em.todo = {}
             /\ (cur # None => cur \in em.ran)
EmissionComplete == [][(em.on /\ ~em'.on /\ exited' = "no") => (em.todo = {} /\ em.ran = em.snap)]_vars

\* a load that fails - Start, API reload, SIGUSR1 reload, at whatever stage - leaves the registry
\* as it was when the operation began; so do validation (also when it succeeds), Stop and
\* certificate events
FailedLoadKeepsRegistry ==
    /\ pc = "reterr" => reg = reg0
    /\ (pc = "retok" /\ op.t \in {"validate", "stop", "cert"}) => reg = reg0

\* what the registry holds between operations: the plugin's hook until the first successful
\* SIGUSR1 reload, and the hooks of every configuration loaded successfully since (and including)
\* the last successful SIGUSR1 reload - API reloads accumulate, stopped instances keep theirs
RegistryExplained ==
    pc = "idle" => reg = (IF plugOk THEN {<<"plug", 0, 0>>} ELSE {}) \cup UNION {HooksOf(x) : x \in since}
\* after a successful SIGUSR1 reload the registry holds the new configuration's hooks only
Usr1LeavesOnlyNew == (pc = "retok" /\ op.t = "usr1") => reg = HooksOf(g)
\* a successful Start / API reload adds exactly the new configuration's hooks
LoadAddsOwnHooks == (pc = "retok" /\ op.t \in {"start", "reload"}) => reg = reg0 \cup HooksOf(g)

\* InstanceStartupEvent: once per successful Start / Restart, carrying the new instance, after it
\* serves (and, for a reload, after the old instance was stopped and its shutdown callbacks ran);
\* never for a load that failed; the hooks of the configuration just loaded receive it
InstanceStartupExact ==
    /\ \A x \in Gens : isu[x] <= 1
    /\ \A x \in Gens : isu[x] = 1 => inst[x].state \in {"live", "stopped"}
    /\ \A x \in Gens : inst[x].state \in {"discarded", "validated", "validating", "starting"} => isu[x] = 0
    /\ (pc = "retok" /\ op.t \in {"start", "reload", "usr1"}) => isu[g] = 1
    /\ (em.on /\ em.ev = "instancestartup") =>
           /\ em.info.g = g /\ HooksOf(g) \subseteq em.snap
           /\ (op.t \in {"reload", "usr1"} => inst[old].state = "stopped" /\ shutcb[old] = 1)

\* InstanceRestartEvent reaches nobody (the code as it is; see UEmit)
RestartEventReachesNobody == (em.on /\ em.ev = "instancerestart") => em.snap = {}
\* the apparent intention, for the EarlyRestart variant: it reaches the hooks of the old configuration
RestartEventReachesOld == (em.on /\ em.ev = "instancerestart") => em.snap = snapU
\* either of the two (what a recorded trace is held to)
RestartEventScope == (em.on /\ em.ev = "instancerestart") => (em.snap = {} \/ em.snap = snapU)

\* ShutdownEvent: at most once per process, inside the Once, before any shutdown callback of the
\* process-exit path, and emitted whenever the process leaves through TERM or a first INT (QUIT
\* and the forced exit of a second INT emit nothing themselves)
ShutdownAtMostOnce ==
    /\ nEmit["shutdown"] <= 1
    /\ nEmit["shutdown"] = 1 => once # "idle"
    /\ (ppc = "cbs" \/ jpc = "cbs") => nEmit["shutdown"] = 1
    /\ exited \in {"term", "int"} => nEmit["shutdown"] = 1
\* StartupEvent once, before any configuration
StartupOnce == nEmit["startup"] <= 1 /\ (pc # "boot" => nEmit["startup"] = 1)
\* CertRenewEvent only for renewals
CertRenewOnlyForRenewal ==
    (em.on /\ em.ev = "certrenew") => (op.t = "cert" /\ op.f = "renew" /\ em.info.g = old)

\* a blocking `on` command has finished when its hook returns; the failure of a hook changes
\* nothing but the flag that makes EmitEvent log it (no variable of the lifecycle depends on lastErr)
BlockingWaits == (cur # None /\ cst = "cmddone") => (Launches(cur) /\ Blocking(cur))

\* liveness: an emission ends, an exit script with TERM or INT ends the process
EmissionEnds == (em.on) ~> (~em.on \/ exited # "no")
EventuallyExits == (ppc # "wait" \/ jpc # "none") ~> (exited # "no")
=============================================================================
