\* quick: every one-line site with the full battery, the pinned larger sites and one in Sample2 of the two-line sites with
\* the reduced battery, one in LinkOneIn of the enumerated Link values on the two link sites
CONSTANT MaxLines = 3
CONSTANT Sample2 = 40
CONSTANT Sample3 = 1000000
CONSTANT LinkOneIn = 9
CONSTANT FIX_MARKER = TRUE
CONSTANT FIX_BAREMERGE = TRUE
CONSTANT FIX_REMOTECASE = TRUE
SPECIFICATION Spec
INVARIANT TypeOK
INVARIANT SetupRejectsIffInvalid
INVARIANT RulesAsWritten
INVARIANT PushedSetExact
INVARIANT RulePushesBeforeNext
INVARIANT NoPushWhenUnsupported
INVARIANT MainResponseUnaltered
INVARIANT LinkSemantics
INVARIANT PushErrorsContained
INVARIANT ClientCannotSuppressOrForge
INVARIANT GuardMarkerArrives
INVARIANT NoPushOnPushed
INVARIANT NoStuck
INVARIANT Emit
PROPERTY SiteFrozenWhileServing
PROPERTY CallsOnlyGrow
PROPERTY ResponseOnlyByNext
PROPERTY LoopsInOrder
PROPERTY RulePhaseFirst
CHECK_DEADLOCK FALSE
