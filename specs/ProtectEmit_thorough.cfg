CONSTANT L = 3
CONSTANT Alphabet <- C03Alphabet
CONSTANT AESets <- C03AE
CONSTANT Modes <- C03Modes
CONSTANT Browses <- SomeBrowses
CONSTANT GFiles <- C03Files
CONSTANT GDirs <- C03Dirs
CONSTANT HiddenSet <- C03Hidden
CONSTANT ProtIds <- AllProts
CONSTANT Jail = TRUE
CONSTANT BrowseTrims = TRUE
CONSTANT WalkerHides = TRUE
CONSTANT PrefixKeepsPath = TRUE
CONSTANT RewriteRoots = TRUE
CONSTANT IndexChecksAuth = FALSE
CONSTANT ArchiveChecksAuth = FALSE
INIT PInitEmit
NEXT PNextEmit
INVARIANT PEmit
CHECK_DEADLOCK FALSE
