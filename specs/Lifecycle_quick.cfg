CONSTANTS MaxOps = 2
 MaxStarts = 2
 Async = TRUE
SPECIFICATION Spec
INVARIANTS TypeOK FirstStartupOnlyInitially StartupOnceBeforeServing RestartCbBeforeNewInstance RestartCbPerAttempt ShutdownOnceAfterSuccess OnlyRestartFailedOnFailure FinalOnlyAtProcessShutdown WaitOnlyWhenAllStopped WgExact ListExact
PROPERTY WaitEventuallyReturns
CHECK_DEADLOCK FALSE
