CONSTANT K = 2
SPECIFICATION Spec
INVARIANT RoutesToMostSpecific
INVARIANT AtMostOneSite
INVARIANT NoneMeansNoMatch
PROPERTY Terminates
CHECK_DEADLOCK FALSE
