CONSTANT L = 2
CONSTANT PairL = 1
CONSTANT Alphabet <- FullAlphabet
CONSTANT PairAlphabet <- SmallAlphabet
CONSTANT Vias <- BothVias
CONSTANT Families <- AllFamilies
CONSTANT MaxDepth = 4
CONSTANT FdLimit = 0
CONSTANT DepthBudget = 4
CONSTANT CallLen = 3
CONSTANT MetaChecked = TRUE
CONSTANT EmptyDocGuard = TRUE
CONSTANT SummarizeInDir = TRUE
CONSTANT IdxLen = 3
SPECIFICATION Spec
INVARIANT TypeOK
INVARIANT IncludeInsideRoot
INVARIANT OpenedIsNamed
INVARIANT FilesListsOnlyDirEntries
INVARIANT RenderedOutputIsTemplateOutput
INVARIANT ErrorDiscardsOutput
INVARIANT NestedIncludeBounded
INVARIANT FdsMatchStack
INVARIANT FdsReleased
INVARIANT CycleIsError
INVARIANT BoundOnlyHitsCycles
INVARIANT StatusTotal
INVARIANT DocNeverPanics
INVARIANT DocOutcome
INVARIANT SummaryIsOfListedFile
INVARIANT IndexOutcome
INVARIANT CallOracles
INVARIANT CallsTotal
INVARIANT Emit
CHECK_DEADLOCK TRUE
