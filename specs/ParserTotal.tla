---------------------------- MODULE ParserTotal ----------------------------
(***************************************************************************)
(* C10 (part 3) - totality of casketfile.Parse on arbitrary token strings. *)
(*                                                                         *)
(* There is no functional oracle for "any input": this module is the       *)
(* explicit model of the INPUT SPACE - every string of at most N tokens    *)
(* over the token kinds the parser distinguishes, each token either on     *)
(* the line of its predecessor or on a new line - and of the OBSERVATION   *)
(* the statement allows (Acceptable below).  The parser's own decisions    *)
(* are not modelled here; the real parser supplies the outcome.            *)
(*                                                                         *)
(* Token kinds (the parser looks at nothing else than these distinctions): *)
(*   w  a word (address, directive or argument - position decides)         *)
(*   c  a word with a trailing comma ("another address follows")           *)
(*   o  {         x  }                                                     *)
(*   i  import    p  (s)  a snippet header    s  s  the snippet's name     *)
(*   f  inc.conf  an existing file ("dirf argf")                           *)
(*   q  ""        the empty token                                          *)
(*   e  {$VERIF_E} an environment placeholder    z  one of an unset variable *)
(* A case is written as two letters per token: kind, then n (starts a new  *)
(* line) or _ (same line).                                                 *)
(***************************************************************************)
EXTENDS Naturals, Sequences, TLC, Json

CONSTANTS N, Kinds

VARIABLE toks          \* sequence of [k |-> kind, nl |-> BOOLEAN]
vars == <<toks>>

Init == toks = <<>>

\* append one token; the first token of a text always starts a line
Add(k, nl) ==
    /\ Len(toks) < N
    /\ (toks = <<>> => nl)
    /\ toks' = Append(toks, [k |-> k, nl |-> nl])

Next == \E k \in Kinds, nl \in BOOLEAN : Add(k, nl)
Spec == Init /\ [][Next]_vars

\* ---- the observation the statement allows -----------------------------------------
\* obs.kind is what the harness saw; "ok" carries blocks, "err" a message split at " - "
Acceptable(obs) ==
    \/ obs.kind = "ok"  /\ \A b \in 1..Len(obs.blocks) : Len(obs.blocks[b].keys) >= 1
    \/ obs.kind = "err" /\ obs.file # "" /\ obs.line \in Nat
\* never: obs.kind \in {"panic", "no-return"}

\* insignificant layout (kind of blank, CRLF, blank lines, comments) does not change the outcome
LayoutInvariant(obsA, obsB) == obsA.kind = obsB.kind /\ (obsA.kind = "ok" => obsA.blocks = obsB.blocks)

\* ---- shape classes, for coverage accounting ----------------------------------------
Has(k)  == \E i \in 1..Len(toks) : toks[i].k = k
RECURSIVE Depth(_)
Depth(i) == IF i = 0 THEN 0 ELSE Depth(i - 1) + (IF toks[i].k = "o" THEN 1 ELSE 0)
                                              - (IF toks[i].k = "x" /\ Depth(i - 1) > 0 THEN 1 ELSE 0)
Unclosed == Depth(Len(toks)) > 0

TypeOK == Len(toks) <= N /\ (toks # <<>> => toks[1].nl)

RECURSIVE Str(_)
Str(i) == IF i > Len(toks) THEN "" ELSE toks[i].k \o (IF toks[i].nl THEN "n" ELSE "_") \o Str(i + 1)
Emit == PrintT(<<"CASE", ToJson([s |-> Str(1), unclosed |-> Unclosed])>>)
=============================================================================
