\* negative control (not part of ./check): the middleware as found (substring Accept-Encoding test,
\* no zstd in the skip list, Flush before header time). TLC must refute the properties.
CONSTANT Repaired = FALSE
CONSTANT AETexts = {"absent", "gzip", "zstd, gzip", "br", "identity", "*", "gzip;q=0", "gzip;q=0.5, zstd", "gzip, deflate, br, zstd"}
CONSTANT Statuses = {200, 204, 404}
CONSTANT PreCEs = {"none", "gzip", "zstd", "identity"}
CONSTANT ETags = {"none", "strong"}
CONSTANT PatIdx = {1, 2, 3, 4, 5, 6, 7, 9}
CONSTANT LevelsA = {0, 9}
CONSTANT LevelsB = {0}
CONSTANT MinLens = {0, 50}
SPECIFICATION Spec
INVARIANT CENamesAppliedCodings
INVARIANT NoDoubleEncoding
INVARIANT DecodedEqualsIdentity
INVARIANT CLAbsentOrCorrect
INVARIANT IdentityIfNotOffered
INVARIANT WeakETagWhenCompressed
CHECK_DEADLOCK FALSE
