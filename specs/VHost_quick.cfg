CONSTANT K = 1
SPECIFICATION Spec
INVARIANT RoutesToMostSpecific
INVARIANT AtMostOneSite
INVARIANT NoneMeansNoMatch
PROPERTY Terminates
CHECK_DEADLOCK FALSE
