CONSTANT MaxFmt = 4
CONSTANT Values <- AdvValues
SPECIFICATION Spec
INVARIANT SinglePass
INVARIANT MatchesGrammar
INVARIANT Emit
PROPERTY Total
