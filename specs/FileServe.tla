----------------------------- MODULE FileServe -----------------------------
(***************************************************************************)
(* C02 - served file content stays inside the root, never includes hidden  *)
(* files, redirects stay on the same origin.                               *)
(*                                                                         *)
(* Operational part: one request through                                   *)
(*   Server.serveHTTP (trimPathPrefix for a site declared with a path)     *)
(*   -> browse.Browse.ServeHTTP / ServeListing / ServeArchive              *)
(*   -> staticfiles.FileServer.serveFile                                   *)
(* with one action per step of the code (the b_* actions are browse.go,    *)
(* the s_* actions fileserver.go).  Every step is a function on the record *)
(* "st" (XxxStep) so that the same definitions drive the TLC actions and   *)
(* the table emitted for the replay (Run).                                 *)
(*                                                                         *)
(* The file system is a fixed abstract tree seen from the PARENT of the    *)
(* site root: root/{f, f.gz, f.zst, f.br, d/{g, g.gz, index.html,          *)
(* index.html.gz}, e/g, Casketfile} and out/f next to the root.  A path is *)
(* its sequence of segments (see CleanPath).                               *)
(*                                                                         *)
(* Declarative part: Named / Allowed / AllowedListed / SameOrigin, written *)
(* after the statement of C02 in properties.jsonl.                         *)
(*                                                                         *)
(* The constants Jail, BrowseTrims, WalkerHides, PrefixKeepsPath are TRUE  *)
(* in every cfg the check runs (the repaired design).  FALSE gives the     *)
(* design as found (no jail is hypothetical): TLC then refutes InsideRoot /*)
(* SameOriginRedirect / NoHidden - see notes/C02.md.                       *)
(***************************************************************************)
EXTENDS Naturals, Sequences, FiniteSets, SequencesExt, TLC, Json, CleanPath

CONSTANTS L,                \* maximum number of request path segments
          Alphabet,         \* segment alphabet
          AESets,           \* the Accept-Encoding sets a request may carry
          Modes,            \* "html" | "json" (listing formats) | "zip" | "targz" (?archive=)
          Browses,          \* "off" | "list" (browse /) | "arch" (browse / { servearchive })
          Jail, BrowseTrims, WalkerHides, PrefixKeepsPath,
          GFiles, GDirs,    \* the file system: regular files and directories (nodes = segment sequences)
          HiddenSet         \* SiteConfig.HiddenFiles of the site (a request record carries it as .hidden)

FullAlphabet == {"f", "d", "g", "e", "out", "Casketfile", "index.html", "f.gz", ".", "..", "", "\\", "CASKETFILE"}
CoreAlphabet == {"f", "d", "g", "e", "out", "Casketfile", "index.html", "f.gz", ".", "..", ""}
AllAE     == SUBSET {"zstd", "br", "gzip"}
SomeAE    == {{}, {"gzip"}, {"zstd", "br", "gzip"}}
QuickAE   == {{}, {"gzip"}, {"br"}, {"zstd", "gzip"}, {"zstd", "br", "gzip"}}
AllModes  == {"html", "json", "zip", "targz"}
SomeModes == {"html", "zip"}
AllBrowses == {"off", "list", "arch"}
SomeBrowses == {"off", "arch"}

\* ---- the file system, seen from the parent directory of the site root -----
C02Files == { <<"root", "f">>, <<"root", "f.gz">>, <<"root", "f.zst">>, <<"root", "f.br">>,
            <<"root", "d", "g">>, <<"root", "d", "g.gz">>, <<"root", "d", "index.html">>,
            <<"root", "d", "index.html.gz">>, <<"root", "e", "g">>, <<"root", "Casketfile">>,
            <<"out", "f">> }
C02Dirs  == { <<>>, <<"root">>, <<"root", "d">>, <<"root", "e">>, <<"out">> }
C02Hidden == { <<"root", "Casketfile">> }       \* SiteConfig.HiddenFiles: the origin Casketfile
IndexPages == <<"index.html", "index.htm">>     \* first two of staticfiles.DefaultIndexPages
Encodings == << [name |-> "zstd", ext |-> ".zst"], [name |-> "br", ext |-> ".br"], [name |-> "gzip", ext |-> ".gz"] >>
ArchModes == {"zip", "targz"}

Kind(n) == IF n \in GFiles THEN "file" ELSE IF n \in GDirs THEN "dir" ELSE "none"
InsideRootNode(n) == Len(n) >= 1 /\ n[1] = "root"

\* http.Dir(root).Open(name): path.Clean("/" + name) below the root.  Without the jail it
\* would be filepath.Join(root, name), which cleans AFTER joining.
Open(S) == IF Jail THEN <<"root">> \o Clean(S) ELSE Clean(<<"root">> \o S)

WithExt(S, ext) == [S EXCEPT ![Len(S)] = @ \o ext]      \* reqPath + ".gz" (string append)

Children(dir) == {n \in GFiles \cup GDirs : Len(n) = Len(dir) + 1 /\ IsPrefix(dir, n)}
Below(dir)    == {n \in GFiles : IsPrefix(dir, n)}

\* ---- request and state ----------------------------------------------------
VARIABLES req, st
vars == <<req, st>>

\* the textual request path as a segment sequence; the slash flag is one more empty segment
RawOf(segs, slash) == IF slash /\ segs # <<>> THEN Append(segs, "") ELSE segs

NoLoc == [set |-> FALSE, host |-> "", segs |-> <<>>]

Start(rq) == [pc |-> IF rq.prefix THEN "trimprefix" ELSE IF rq.browse = "off" THEN "s_open" ELSE "b_open",
              path |-> RawOf(rq.segs, rq.slash),   \* r.URL.Path
              host |-> "",                         \* r.URL.Host (only a broken trimPathPrefix sets it)
              status |-> 0, loc |-> NoLoc, kind |-> "none",
              file |-> <<>>,                        \* the node fileserver decided to send
              served |-> {}, listed |-> {}]

Done(s, status) == [s EXCEPT !.pc = "done", !.status = status]

\* net/http.Redirect: a Location that url.Parse reads as "//host/..." is sent as it is; a
\* host-less one is path.Clean-ed with its trailing slash preserved.  A leading "//x" is an
\* authority; "///" is not.
HttpRedirect(host, S) ==
    IF host # "" THEN [set |-> TRUE, host |-> host, segs |-> S]
    ELSE IF Len(S) >= 2 /\ S[1] = "" /\ S[2] # "" THEN [set |-> TRUE, host |-> S[2], segs |-> SubSeq(S, 3, Len(S))]
    ELSE [set |-> TRUE, host |-> "", segs |-> CleanKeepSlash(S)]

\* ---- Server.serveHTTP: trimPathPrefix (site declared as host/s) -------------
\* The abstract path is what follows the prefix.  Repaired: it becomes r.URL.Path unchanged.
\* As found: the remainder was re-parsed with url.Parse, which reads "//x/.." as authority x.
TrimPrefixStep(rq, s) ==
    LET nxt == IF rq.browse = "off" THEN "s_open" ELSE "b_open"
        S == s.path
    IN  IF ~PrefixKeepsPath /\ Len(S) >= 2 /\ S[1] = "" /\ S[2] # ""
          THEN [s EXCEPT !.pc = nxt, !.host = S[2], !.path = SubSeq(S, 3, Len(S))]
          ELSE [s EXCEPT !.pc = nxt]

\* ---- browse.Browse.ServeHTTP ------------------------------------------------
\* PathScope "/" matches every request.  Open + Stat: anything that is not an existing
\* directory is delegated to the next handler (the file server).
BOpenStep(rq, s) ==
    IF Kind(Open(s.path)) = "dir" THEN [s EXCEPT !.pc = "b_slash"] ELSE [s EXCEPT !.pc = "s_open"]

\* "browsing navigation gets messed up if the directory doesn't end in /": 301
BSlashStep(rq, s) ==
    IF EndsSlash(s.path) THEN [s EXCEPT !.pc = "b_list"]
    ELSE [Done(s, 301) EXCEPT !.loc = HttpRedirect(s.host, Append(IF BrowseTrims THEN TrimSlashes(s.path) ELSE s.path, ""))]

\* loadDirectoryContents: a directory with an index page is not browsable -> next handler
HasIndex(dir) == \E i \in 1..Len(IndexPages) : Append(dir, IndexPages[i]) \in Children(dir)
BListStep(rq, s) ==
    IF HasIndex(Open(s.path)) THEN [s EXCEPT !.pc = "s_open"]
    ELSE IF rq.mode \in ArchModes THEN [s EXCEPT !.pc = "b_archive"]
    ELSE [s EXCEPT !.pc = "b_render"]

\* ServeArchive: fs.Walk over the jailed file system below path.Clean(r.URL.Path);
\* repaired: the walker skips hidden files.  Archive type not enabled: 404.
BArchiveStep(rq, s) ==
    IF rq.browse # "arch" THEN Done(s, 404)
    ELSE [Done(s, 200) EXCEPT !.kind = "archive",
                              !.served = IF WalkerHides THEN {n \in Below(Open(s.path)) : ~\E h \in rq.hidden : IsPrefix(h, n)}
                                         ELSE Below(Open(s.path))]

\* directoryListing: every entry that is not hidden
BRenderStep(rq, s) ==
    [Done(s, 200) EXCEPT !.kind = "listing", !.listed = Children(Open(s.path)) \ rq.hidden]

\* ---- staticfiles.FileServer.serveFile -----------------------------------------
SOpenStep(rq, s) ==
    IF Kind(Open(s.path)) = "none" THEN Done(s, 404) ELSE [s EXCEPT !.pc = "s_canon"]

\* canonical-path redirects (307): directories get a trailing slash, files lose it;
\* the site's path prefix is put back in front, leading "//" is trimmed
SCanonStep(rq, s) ==
    LET full == (IF rq.prefix THEN <<"s">> ELSE <<>>) \o s.path
        isdir == Kind(Open(s.path)) = "dir"
    IN  IF isdir /\ ~EndsSlash(s.path)
          THEN [Done(s, 307) EXCEPT !.loc = HttpRedirect(s.host, Append(TrimSlashes(full), ""))]
        ELSE IF ~isdir /\ EndsSlash(s.path)
          THEN [Done(s, 307) EXCEPT !.loc = HttpRedirect(s.host, TrimSlashes(Front(full)))]
        ELSE [s EXCEPT !.pc = IF isdir THEN "s_index" ELSE "s_hidden"]

\* the index loop: reqPath = path.Join(reqPath, indexPage) for the first page that opens
RECURSIVE FirstIndex(_, _)
FirstIndex(dir, i) ==
    IF i > Len(IndexPages) THEN 0
    ELSE IF Kind(Append(dir, IndexPages[i])) # "none" THEN i
    ELSE FirstIndex(dir, i + 1)
SIndexStep(rq, s) ==
    LET i == FirstIndex(Open(s.path), 1)
    IN  IF i = 0 THEN [s EXCEPT !.pc = "s_hidden"]
        ELSE [s EXCEPT !.pc = "s_hidden", !.path = Append(Clean(s.path), IndexPages[i])]

\* still a directory, or on the hide list: 404
SHiddenStep(rq, s) ==
    LET n == Open(s.path)
    IN  IF Kind(n) = "dir" \/ n \in rq.hidden THEN Done(s, 404)
        ELSE [s EXCEPT !.pc = "s_sibling", !.file = n]

\* precompressed sibling: first encoding of staticEncodingPriority the client lists and
\* whose reqPath+ext opens (the sibling is not looked up in the hide list)
RECURSIVE FirstSibling(_, _, _)
FirstSibling(S, ae, i) ==
    IF i > Len(Encodings) THEN <<>>
    ELSE IF Encodings[i].name \in ae /\ Kind(Open(WithExt(S, Encodings[i].ext))) # "none"
      THEN Open(WithExt(S, Encodings[i].ext))
    ELSE FirstSibling(S, ae, i + 1)
SSiblingStep(rq, s) ==
    LET sib == FirstSibling(s.path, rq.ae, 1)
    IN  [s EXCEPT !.pc = "s_serve", !.file = IF sib = <<>> THEN s.file ELSE sib]

SServeStep(rq, s) == [Done(s, 200) EXCEPT !.kind = "file", !.served = {s.file}]

Step(rq, s) ==
    CASE s.pc = "trimprefix" -> TrimPrefixStep(rq, s)
      [] s.pc = "b_open"     -> BOpenStep(rq, s)
      [] s.pc = "b_slash"    -> BSlashStep(rq, s)
      [] s.pc = "b_list"     -> BListStep(rq, s)
      [] s.pc = "b_archive"  -> BArchiveStep(rq, s)
      [] s.pc = "b_render"   -> BRenderStep(rq, s)
      [] s.pc = "s_open"     -> SOpenStep(rq, s)
      [] s.pc = "s_canon"    -> SCanonStep(rq, s)
      [] s.pc = "s_index"    -> SIndexStep(rq, s)
      [] s.pc = "s_hidden"   -> SHiddenStep(rq, s)
      [] s.pc = "s_sibling"  -> SSiblingStep(rq, s)
      [] s.pc = "s_serve"    -> SServeStep(rq, s)

RECURSIVE RunFrom(_, _)
RunFrom(rq, s) == IF s.pc = "done" THEN s ELSE RunFrom(rq, Step(rq, s))
Run(rq) == RunFrom(rq, Start(rq))

\* ---- the transition system TLC explores ----------------------------------------
\* "build" grows the request path one segment at a time (so that TLC's workers share the
\* enumeration), Begin picks the remaining request / site dimensions.
Building == [pc |-> "build", path |-> <<>>, host |-> "", status |-> 0, loc |-> NoLoc, kind |-> "none",
             file |-> <<>>, served |-> {}, listed |-> {}]
NoReq(segs) == [segs |-> segs, slash |-> FALSE, ae |-> {}, mode |-> "html", browse |-> "off", prefix |-> FALSE, hidden |-> HiddenSet]

Init == req = NoReq(<<>>) /\ st = Building

Grow == /\ st.pc = "build" /\ Len(req.segs) < L
        /\ \E x \in Alphabet : req' = NoReq(Append(req.segs, x))
        /\ UNCHANGED st
Begin == /\ st.pc = "build"
         /\ \E sl \in BOOLEAN, ae \in AESets, m \in Modes, b \in Browses, p \in BOOLEAN :
               req' = [segs |-> req.segs, slash |-> sl, ae |-> ae, mode |-> m, browse |-> b, prefix |-> p, hidden |-> HiddenSet]
         /\ st' = Start(req')

At(pc, F(_, _)) == st.pc = pc /\ st' = F(req, st) /\ UNCHANGED req
TrimPrefix == At("trimprefix", TrimPrefixStep)
BOpen      == At("b_open", BOpenStep)
BSlash     == At("b_slash", BSlashStep)
BList      == At("b_list", BListStep)
BArchive   == At("b_archive", BArchiveStep)
BRender    == At("b_render", BRenderStep)
SOpen      == At("s_open", SOpenStep)
SCanon     == At("s_canon", SCanonStep)
SIndex     == At("s_index", SIndexStep)
SHidden    == At("s_hidden", SHiddenStep)
SSibling   == At("s_sibling", SSiblingStep)
SServe     == At("s_serve", SServeStep)

Next == Grow \/ Begin \/ TrimPrefix \/ BOpen \/ BSlash \/ BList \/ BArchive \/ BRender
        \/ SOpen \/ SCanon \/ SIndex \/ SHidden \/ SSibling \/ SServe
Spec == Init /\ [][Next]_vars /\ WF_vars(Next)

\* ---- the property, as C02 states it ------------------------------------------------
\* "the file the cleaned path names, its directory's index page, or a precompressed sibling
\*  the client accepts" - regular files inside the root, never a hidden one
Target(rq) == <<"root">> \o Clean(RawOf(rq.segs, rq.slash))
Named(rq) ==
    LET t == Target(rq)
        base == IF Kind(t) = "file" THEN {t}
                ELSE IF Kind(t) = "dir" THEN {Append(t, IndexPages[i]) : i \in 1..Len(IndexPages)} \cap GFiles
                ELSE {}
        sibs == {WithExt(b, Encodings[i].ext) : b \in base, i \in {j \in 1..Len(Encodings) : Encodings[j].name \in rq.ae}} \cap GFiles
    IN  {n \in base \cup sibs : InsideRootNode(n)} \ rq.hidden
\* a directory archive (only where archives are enabled and asked for) may hold every
\* non-hidden regular file below the directory the cleaned path names
Archived(rq) ==
    LET t == Target(rq)
    IN  IF rq.browse = "arch" /\ rq.mode \in ArchModes /\ Kind(t) = "dir"
          THEN {n \in Below(t) : InsideRootNode(n)} \ rq.hidden ELSE {}
Allowed(rq) == Named(rq) \cup Archived(rq)
\* a listing (only where browsing is enabled) may name the non-hidden entries of that directory
AllowedListed(rq) ==
    LET t == Target(rq)
    IN  IF rq.browse # "off" /\ Kind(t) = "dir" THEN {n \in Children(t) : InsideRootNode(n)} \ rq.hidden ELSE {}

\* "its Location starts with exactly one '/'" (and the next character is not a backslash,
\* which browsers read as a second slash)
SameOrigin(loc) == /\ loc.host = ""
                   /\ ~(Len(loc.segs) >= 2 /\ loc.segs[1] = "")
                   /\ ~(Len(loc.segs) >= 1 /\ loc.segs[1] = "\\")

InsideRoot         == \A n \in st.served \cup st.listed : InsideRootNode(n)
NoHidden           == (st.served \cup st.listed) \cap req.hidden = {}
RegularOnly        == st.served \subseteq GFiles
ServedIsNamed      == st.served \subseteq Allowed(req) /\ st.listed \subseteq AllowedListed(req)
SameOriginRedirect == st.loc.set => SameOrigin(st.loc)
\* the path prefix of the site address does not change what is served
PrefixIndependent  == (st.pc = "done" /\ req.prefix) =>
                         LET o == Run([req EXCEPT !.prefix = FALSE])
                         IN  o.status = st.status /\ o.served = st.served /\ o.listed = st.listed
\* the action system and the functional form used for the emitted tables agree
RunAgrees          == st.pc = "done" => st = Run(req)
Terminates         == (st.pc # "build") ~> (st.pc = "done")
TypeOK == st.pc \in {"build", "trimprefix", "b_open", "b_slash", "b_list", "b_archive", "b_render",
                     "s_open", "s_canon", "s_index", "s_hidden", "s_sibling", "s_serve", "done"}

\* ---- case emission: one CASE per request path, with the table of outcomes ----------
\* tab[slash][browse][mode][ae] is an index into res, the distinct outcomes of that path.
SlashSeq  == <<FALSE, TRUE>>
BrowseSeq == SetToSeq(Browses)
ModeSeq   == SetToSeq(Modes)
AESeq     == SetToSeq(AESets)
NameOf(n) == n[Len(n)]
Outcome(rq) ==
    LET o == Run(rq)
    IN  [st |-> o.status, k |-> o.kind, rd |-> o.loc.set, lh |-> o.loc.host, lp |-> o.loc.segs,
         sv |-> SetToSeq(o.served), ls |-> SetToSeq({NameOf(n) : n \in o.listed}),
         al |-> SetToSeq(Allowed(rq)), an |-> SetToSeq({NameOf(n) : n \in AllowedListed(rq)})]
Combos == {<<s, b, m, a>> : s \in 1..2, b \in 1..Len(BrowseSeq), m \in 1..Len(ModeSeq), a \in 1..Len(AESeq)}
EmitCase(segs) ==
    LET T == [c \in Combos |-> Outcome([segs |-> segs, slash |-> SlashSeq[c[1]], browse |-> BrowseSeq[c[2]],
                                         mode |-> ModeSeq[c[3]], ae |-> AESeq[c[4]], prefix |-> FALSE, hidden |-> HiddenSet])]
        res == SetToSeq({T[c] : c \in Combos})
        idx(o) == CHOOSE k \in 1..Len(res) : res[k] = o
    IN  PrintT(<<"CASE", ToJson([segs |-> segs, browses |-> BrowseSeq, modes |-> ModeSeq,
                                 aes |-> [a \in 1..Len(AESeq) |-> SetToSeq(AESeq[a])], res |-> res,
                                 tab |-> [s \in 1..2 |-> [b \in 1..Len(BrowseSeq) |-> [m \in 1..Len(ModeSeq) |->
                                            [a \in 1..Len(AESeq) |-> idx(T[<<s, b, m, a>>])]]]]])>>)
InitEmit == req = NoReq(<<>>) /\ st = Building
Emit == EmitCase(req.segs)
=============================================================================
