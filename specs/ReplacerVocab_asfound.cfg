\* the design as found (not run by ./check; TLC refutes LogSafe, BodyUntouched, ValueEqualsFunction / TLSFieldsExact -
\* switch the FIX_ constants on one by one to see each, see notes/ReplacerVocab.md)
SPECIFICATION Spec
CONSTANTS
    EMIT = FALSE
    Tier = "quick"
    NMix = 120
    FIX_LOGSAFE = FALSE
    FIX_BODY = FALSE
    FIX_TLS13 = FALSE
    FIX_NOUSER = FALSE
    FIX_XFF = FALSE
INVARIANTS TypeOK VocabularyComplete ValueEqualsFunction OriginalVsRewritten EscapedFormsAreEscapes LogSafe HeaderSafe
           BodyUntouched TimeMonotone TLSFieldsExact CustomBeatsBuiltin
CHECK_DEADLOCK FALSE
