---------------------------- MODULE RewriteRedir ----------------------------
(***************************************************************************)
(* Rule semantics of the `rewrite` and `redir` directives of casket        *)
(* (caskethttp/rewrite/{setup,rewrite,to}.go, caskethttp/redirect/         *)
(* {setup,redirect}.go, the pieces of caskethttp/httpserver they use:      *)
(* ConfigSelector.Select, Path.Matches, IfMatcher / ifCond, the replacer). *)
(* An extension of property C09 (specs/DirectiveOrder.tla): there `Serve`  *)
(* knows one fixed rewrite and one fixed redir line; here the rule lists   *)
(* themselves are the object.                                              *)
(*                                                                         *)
(* OPERATIONAL PART - one action per step the code takes:                  *)
(*   AddRw / AddRd / AddBad   the author writes one more rewrite / redir   *)
(*                            line (a site has <= MaxRules of them)        *)
(*   StartSetup               executeDirectives reaches rewrite (a sampled *)
(*                            site only, see Sampled)                      *)
(*   RwParseLine              one `for c.Next()` iteration of rewriteParse *)
(*                            (NewSimpleRule / NewComplexRule: Compile)    *)
(*   RwParseDone              rewrite's setup returned nil, redir's starts *)
(*   RdParseLine              one `for c.Next()` iteration of redirParse   *)
(*                            (initRule + checkAndSaveRule per entry)      *)
(*   SetupDone                both setups returned nil: the site serves    *)
(*   StartRequest             Server.ServeHTTP: original URL copied into   *)
(*                            the context, one replacer (custom map) made  *)
(*   SelectStep / SelectDone  one iteration / the end of the loop of       *)
(*                            ConfigSelector.Select in Rewrite.ServeHTTP   *)
(*   RwBegin                  Rule.Rewrite: regexp captures -> {1}         *)
(*   ToStep                   one iteration of `for _, v := range tos` in  *)
(*                            rewrite.To (expand, split '?', clean, stat)  *)
(*   Commit                   rewrite.To after the loop: r.URL.Path /      *)
(*                            RawQuery are overwritten                     *)
(*   RdStep                   one iteration of the loop over the rules in  *)
(*                            Redirect.ServeHTTP (match -> answer)         *)
(*   RdPass                   no redir rule matched: Next.ServeHTTP sees   *)
(*                            the (rewritten) URL                          *)
(*                                                                         *)
(* DECLARATIVE PART (section 7): Expected(rw, rd, q) - the documented      *)
(* result written with quantifiers instead of loops - and the invariants / *)
(* action properties listed in the cfg files.                              *)
(*                                                                         *)
(* Strings are sequences of one-character strings (TLC cannot index a      *)
(* string): "/old" is written << "/", "o", "l", "d" >>; Str() joins them    *)
(* for the CASE lines.  A text of the Casketfile that may hold             *)
(* placeholders is a sequence of pieces [pk |-> "lit", pv |-> chars] /      *)
(* [pk |-> "ph", pv |-> name]: Flat() is the text as written, Replace()    *)
(* the replacer's scan of it, ExpandDecl() the piecewise substitution.     *)
(* The comment above every pool line shows the Casketfile text it stands   *)
(* for (the Go harness renders it from the structured form).               *)
(*                                                                         *)
(* Deliberate deviations from the code, each guarded by a checked          *)
(* assumption: url.Parse of the cleaned target is the identity (no '%',    *)
(* '#' in the alphabet: ASSUME AlphabetOK), so rewrite.To never returns    *)
(* RewriteIgnored; backslash escapes of the replacer are not modelled      *)
(* (no '\' in any text that is expanded); schemeMatches is TRUE (tls off). *)
(***************************************************************************)
EXTENDS Integers, Sequences, FiniteSets, TLC, Json

CONSTANTS MaxRules,      \* rewrite lines + redir lines of one site
          Sample2,       \* of the sites with two lines one in Sample2 is set up and served (hash of the ids and -seed; 1 = all)
          Sample3,       \* the same for sites with three or more lines
          BaseMode       \* "cleaned": NewComplexRule cleans the base path (the repaired code); "as-written": it keeps the text
                         \* of the Casketfile (the code before the repair - TLC then refutes SliceInBounds; negative control)

-----------------------------------------------------------------------------
(* 1. strings *)

Min(S) == CHOOSE x \in S : \A y \in S : x <= y
Max(S) == CHOOSE x \in S : \A y \in S : x >= y
Range(s) == {s[i] : i \in 1..Len(s)}
Take(s, n) == SubSeq(s, 1, n)                 \* s[:n]
Drop(s, n) == SubSeq(s, n + 1, Len(s))        \* s[n:]
HasPrefix(s, p) == Len(p) <= Len(s) /\ Take(s, Len(p)) = p
HasSuffix(s, p) == Len(p) <= Len(s) /\ Drop(s, Len(s) - Len(p)) = p
Contains(s, p) == \E x \in 1..(Len(s) - Len(p) + 1) : SubSeq(s, x, x + Len(p) - 1) = p
RECURSIVE IdxFrom(_, _, _)
IdxFrom(s, ch, x) == IF x > Len(s) THEN 0 ELSE IF s[x] = ch THEN x ELSE IdxFrom(s, ch, x + 1)
IndexCh(s, ch) == IdxFrom(s, ch, 1)               \* strings.IndexByte + 1  (0 = not found)
RECURSIVE IdxBack(_, _, _)
IdxBack(s, ch, x) == IF x = 0 THEN 0 ELSE IF s[x] = ch THEN x ELSE IdxBack(s, ch, x - 1)
LastIndexCh(s, ch) == IdxBack(s, ch, Len(s))      \* strings.LastIndexByte + 1

RECURSIVE Concat(_)
Concat(ss) == IF ss = <<>> THEN <<>> ELSE Head(ss) \o Concat(Tail(ss))
RECURSIVE Str(_)
Str(s) == IF s = <<>> THEN "" ELSE Head(s) \o Str(Tail(s))

\* strings.ToLower on the alphabet of this model (ASSUME AlphabetOK: "D" is the only capital)
Lower(s) == [i \in 1..Len(s) |-> IF s[i] = "D" THEN "d" ELSE s[i]]

\* path.Clean (Go): the shortest equivalent path
RECURSIVE Segs(_)
Segs(s) == IF s = <<>> THEN <<>>
           ELSE LET i == IndexCh(s, "/") IN
                IF i = 0 THEN <<s>> ELSE <<Take(s, i - 1)>> \o Segs(Drop(s, i))
RECURSIVE CleanStack(_, _, _)
CleanStack(segs, stack, rooted) ==
    IF segs = <<>> THEN stack
    ELSE LET h == Head(segs)  t == Tail(segs) IN
         IF h = <<>> \/ h = <<".">> THEN CleanStack(t, stack, rooted)
         ELSE IF h = <<".",".">>
              THEN IF stack # <<>> /\ stack[Len(stack)] # <<".",".">> THEN CleanStack(t, Take(stack, Len(stack) - 1), rooted)
                   ELSE IF rooted THEN CleanStack(t, stack, rooted)
                   ELSE CleanStack(t, Append(stack, h), rooted)
              ELSE CleanStack(t, Append(stack, h), rooted)
RECURSIVE JoinSlash(_)
JoinSlash(ss) == IF ss = <<>> THEN <<>> ELSE IF Len(ss) = 1 THEN ss[1] ELSE ss[1] \o <<"/">> \o JoinSlash(Tail(ss))
Clean(p) == IF p = <<>> THEN <<".">>
            ELSE LET rooted == p[1] = "/"
                     body == JoinSlash(CleanStack(Segs(p), <<>>, rooted))
                     out == IF rooted THEN <<"/">> \o body ELSE body
                 IN IF out = <<>> THEN <<".">> ELSE out
\* "clean up but preserve trailing slash" (rewrite.To, net/http.Redirect)
CleanKeepSlash(p) == LET c == Clean(p) IN IF HasSuffix(p, <<"/">>) /\ ~HasSuffix(c, <<"/">>) THEN c \o <<"/">> ELSE c

\* filepath.Base, path.Ext, path.Split (directory part)
RECURSIVE TrimSlashes(_)
TrimSlashes(p) == IF p # <<>> /\ p[Len(p)] = "/" THEN TrimSlashes(Take(p, Len(p) - 1)) ELSE p
BaseName(p) == IF p = <<>> THEN <<".">>
               ELSE LET t == TrimSlashes(p) IN IF t = <<>> THEN <<"/">> ELSE Drop(t, LastIndexCh(t, "/"))
PathExt(f) == LET i == LastIndexCh(f, ".") IN IF i = 0 THEN <<>> ELSE Drop(f, i - 1)
DirOf(p) == Take(p, LastIndexCh(p, "/"))

-----------------------------------------------------------------------------
(* 2. regular expressions: the shapes  ^? pre (cap)? post $?  with one greedy group.       *)
(*    RxFind = regexp.FindStringSubmatch: <<>> (nil) or <<whole, group>>: leftmost start,  *)
(*    then the longest group that lets the rest match.                                     *)

NoRx == [on |-> FALSE, as |-> FALSE, pre |-> <<>>, cap |-> "none", post |-> <<>>, ae |-> FALSE]
Rx(as, pre, cap, post, ae) == [on |-> TRUE, as |-> as, pre |-> pre, cap |-> cap, post |-> post, ae |-> ae]
Digits == {"0", "1", "2", "3", "4", "5", "6", "7", "8", "9"}
CapOK(cap, x) == CASE cap = "none"   -> x = <<>>
                   [] cap = "any"    -> TRUE                                 \* (.*)
                   [] cap = "seg"    -> x # <<>> /\ "/" \notin Range(x)      \* ([^/]+)
                   [] cap = "digits" -> x # <<>> /\ Range(x) \subseteq Digits \* ([0-9]+)
RxMatchAt(rx, s, i, n) ==      \* the match starts at s[i], the group has n characters
    LET a == i + Len(rx.pre)  b == a + n  e == b + Len(rx.post) IN
    /\ e <= Len(s) + 1
    /\ SubSeq(s, i, a - 1) = rx.pre
    /\ CapOK(rx.cap, SubSeq(s, a, b - 1))
    /\ SubSeq(s, b, e - 1) = rx.post
    /\ (rx.ae => e = Len(s) + 1)
\* the longest group (<= n characters) with which the match can start at s[i]; -1 = none
RECURSIVE Longest(_, _, _, _)
Longest(rx, s, i, n) == IF n < 0 THEN -1 ELSE IF RxMatchAt(rx, s, i, n) THEN n ELSE Longest(rx, s, i, n - 1)
GroupAt(rx, s, i) == LET room == Len(s) + 1 - i - Len(rx.pre) - Len(rx.post) IN
                     IF room < 0 THEN -1
                     ELSE IF rx.cap = "none" THEN (IF RxMatchAt(rx, s, i, 0) THEN 0 ELSE -1)
                     ELSE IF rx.ae THEN (IF RxMatchAt(rx, s, i, room) THEN room ELSE -1)     \* `$`: the group must take all the room
                     ELSE Longest(rx, s, i, room)
RECURSIVE FirstStart(_, _, _)
FirstStart(rx, s, i) == IF i > Len(s) + 1 THEN 0 ELSE IF GroupAt(rx, s, i) >= 0 THEN i
                        ELSE IF rx.as THEN 0 ELSE FirstStart(rx, s, i + 1)
RxFind(rx, s) ==
    LET i == FirstStart(rx, s, 1) IN
    IF i = 0 THEN <<>>
    ELSE LET n == GroupAt(rx, s, i)
             a == i + Len(rx.pre)
             whole == SubSeq(s, i, a + n + Len(rx.post) - 1)
         IN IF rx.cap = "none" THEN <<whole>> ELSE <<whole, SubSeq(s, a, a + n - 1)>>

-----------------------------------------------------------------------------
(* 3. the replacer (httpserver/replacer.go).  A context c is what one request's replacers  *)
(*    read: method, ORIGINAL path/query (OriginalURLCtxKey), CURRENT path/query (r.URL),   *)
(*    and the custom map shared by all replacers of the request (only {1} is ever set).    *)

EscPath(p) == Concat([i \in 1..Len(p) |-> IF p[i] = "{" THEN <<"%","7","B">> ELSE IF p[i] = "}" THEN <<"%","7","D">> ELSE <<p[i]>>])
URI(p, q) == EscPath(p) \o (IF q # <<>> THEN <<"?">> \o q ELSE <<>>)      \* URL.RequestURI()
Subst(key, c) ==                                                       \* getSubstitution
    IF key = <<"{","1","}">> /\ c.c1set THEN c.c1                               \* custom replacements first
    ELSE CASE key = <<"{","m","e","t","h","o","d","}">>       -> c.m
           [] key = <<"{","p","a","t","h","}">>         -> c.op
           [] key = <<"{","q","u","e","r","y","}">>        -> c.oq
           [] key = <<"{","u","r","i","}">>          -> URI(c.op, c.oq)
           [] key = <<"{","r","e","w","r","i","t","e","_","p","a","t","h","}">> -> c.cp
           [] key = <<"{","r","e","w","r","i","t","e","_","u","r","i","}">>  -> URI(c.cp, c.cq)
           [] OTHER                   -> <<>>                          \* emptyValue ""
\* Replace: ONE left-to-right scan; what was substituted is never scanned again
RECURSIVE Replace(_, _)
Replace(s, c) ==
    LET i == IndexCh(s, "{") IN
    IF i = 0 THEN s
    ELSE LET rest == Drop(s, i - 1)
             j == IndexCh(rest, "}")
         IN IF j = 0 THEN s
            ELSE Take(s, i - 1) \o Subst(Take(rest, j), c) \o Replace(Drop(rest, j), c)

\* a text as written in the Casketfile = literal pieces and placeholders
Flat(text) == Concat([i \in 1..Len(text) |-> IF text[i].pk = "lit" THEN text[i].pv ELSE <<"{">> \o text[i].pv \o <<"}">>])
\* what the documentation promises: every placeholder replaced by its value, once
ExpandDecl(text, c) == Concat([i \in 1..Len(text) |-> IF text[i].pk = "lit" THEN text[i].pv ELSE Subst(<<"{">> \o text[i].pv \o <<"}">>, c)])

-----------------------------------------------------------------------------
(* 4. `if` conditions (httpserver/condition.go) *)

If(a, neg, op, b) == [a |-> a, neg |-> neg, op |-> op, b |-> b, rx |-> NoRx]
IfMatchRx(a, neg, rx) == [a |-> a, neg |-> neg, op |-> "match", b |-> <<>>, rx |-> rx]
BaseOp(op, a, b, rx) == CASE op = "is"          -> a = b
                          [] op = "not"         -> a # b
                          [] op = "has"         -> Contains(a, b)
                          [] op = "starts_with" -> HasPrefix(a, b)
                          [] op = "ends_with"   -> HasSuffix(a, b)
                          [] op = "match"       -> RxFind(rx, a) # <<>>
CondTrue(cd, c) == LET a == Replace(Flat(cd.a), c)
                       b == Replace(Flat(cd.b), c)        \* (not expanded for match; b is empty there)
                   IN BaseOp(cd.op, a, b, cd.rx) # cd.neg       \* "not_" prefix negates
\* IfMatcher.Match: And() / Or() over the list.  (`if_op or` without any `if` is FALSE for every request - Or() over
\* an empty list; a redir / rewrite block written that way never acts.  Observed on the code, not in a pool line.)
IfMatch(conds, isOr, c) == IF isOr THEN \E i \in 1..Len(conds) : CondTrue(conds[i], c)
                           ELSE \A i \in 1..Len(conds) : CondTrue(conds[i], c)

-----------------------------------------------------------------------------
(* 5. the world: site root, requests, the pools of rule shapes *)

Files == {<<"/","a",".","h","t","m","l">>, <<"/","a","p","p",".","p","h","p">>, <<"/","d","/","x",".","h","t","m","l">>, <<"/","d","/","y",".","p","h","p">>}
Dirs  == {<<"/">>, <<"/","d">>}
\* rewrite.validFile over http.Dir(root): a trailing slash asks for a directory
Exists(t) == LET n == Clean(<<"/">> \o t) IN IF HasSuffix(t, <<"/">>) THEN n \in Dirs ELSE n \in Files

ReqPaths == << <<"/">>, <<"/","a",".","h","t","m","l">>, <<"/","o","l","d">>, <<"/","x","/","o","l","d">>, <<"/","d","/","x",".","h","t","m","l">>, <<"/","d","/">>, <<"/","d","/","n","o","n","e">>, <<"/","d","/","y",".","p","h","p">>,
               <<"/","D","/","x",".","h","t","m","l">>, <<"/","d","x">>, <<"/","d","/","x">>, <<"/","d","/",".",".","/","a",".","h","t","m","l">>, <<"/","a","p","i","/","v","1">>, <<"/","a","p","i","/","{","m","e","t","h","o","d","}">>, <<"/","n","e","w">> >>
\* every path is sent with these (method, query) pairs
ReqForms == << [m |-> <<"G","E","T">>, qs |-> <<>>], [m |-> <<"P","O","S","T">>, qs |-> <<>>], [m |-> <<"G","E","T">>, qs |-> <<"k","=","v">>], [m |-> <<"G","E","T">>, qs |-> <<"p","=","{","p","a","t","h","}">>] >>
NReq == Len(ReqPaths) * Len(ReqForms)
Req(n) == LET f == ReqForms[((n - 1) % Len(ReqForms)) + 1] IN
          [p |-> ReqPaths[((n - 1) \div Len(ReqForms)) + 1], qs |-> f.qs, m |-> f.m]
\* the context of request n before any middleware ran
Ctx0(n) == LET r == Req(n) IN [m |-> r.m, op |-> r.p, oq |-> r.qs, cp |-> r.p, cq |-> r.qs, c1set |-> FALSE, c1 |-> <<>>]

\* ---- rewrite lines.  `to` is the list of targets, each a text.
Simple(rx, neg, to) == [kind |-> "simple", neg |-> neg, rx |-> rx, base |-> <<"/">>, exts |-> <<>>, conds |-> <<>>, isOr |-> FALSE, to |-> to, extra |-> ""]
Complex(base, rx, exts, conds, isOr, to) == [kind |-> "complex", neg |-> FALSE, rx |-> rx, base |-> base, exts |-> exts, conds |-> conds, isOr |-> isOr, to |-> to, extra |-> ""]

RwPool == [
  \* rewrite ^/old$ /a.html
  s_exact |-> Simple(Rx(TRUE, <<"/","o","l","d">>, "none", <<>>, TRUE), FALSE, << <<[pk |-> "lit", pv |-> <<"/","a",".","h","t","m","l">>]>> >>),
  \* rewrite /old /d/x.html?via=old            (a regexp, not an exact path: matches /x/old too)
  s_loose |-> Simple(Rx(FALSE, <<"/","o","l","d">>, "none", <<>>, FALSE), FALSE, << <<[pk |-> "lit", pv |-> <<"/","d","/","x",".","h","t","m","l","?","v","i","a","=","o","l","d">>]>> >>),
  \* rewrite not ^/d /app.php?p={path}&{query}
  s_not   |-> Simple(Rx(TRUE, <<"/","d">>, "none", <<>>, FALSE), TRUE, << <<[pk |-> "lit", pv |-> <<"/","a","p","p",".","p","h","p","?","p","=">>], [pk |-> "ph", pv |-> <<"p","a","t","h">>], [pk |-> "lit", pv |-> <<"&">>], [pk |-> "ph", pv |-> <<"q","u","e","r","y">>]>> >>),
  \* rewrite ^/api/(.*)$ /d/{1}
  s_cap   |-> Simple(Rx(TRUE, <<"/","a","p","i","/">>, "any", <<>>, TRUE), FALSE, << <<[pk |-> "lit", pv |-> <<"/","d","/">>], [pk |-> "ph", pv |-> <<"1">>]>> >>),
  \* rewrite ^/(.*)$ /d/{1} /app.php?u={uri}   (matches its own result: applied once all the same)
  s_all   |-> Simple(Rx(TRUE, <<"/">>, "any", <<>>, TRUE), FALSE, << <<[pk |-> "lit", pv |-> <<"/","d","/">>], [pk |-> "ph", pv |-> <<"1">>]>>, <<[pk |-> "lit", pv |-> <<"/","a","p","p",".","p","h","p","?","u","=">>], [pk |-> "ph", pv |-> <<"u","r","i">>]>> >>),
  \* rewrite /d { to {path} {path}/ /app.php?q={query} }
  c_try   |-> Complex(<<"/","d">>, NoRx, <<>>, <<>>, FALSE, << <<[pk |-> "ph", pv |-> <<"p","a","t","h">>]>>, <<[pk |-> "ph", pv |-> <<"p","a","t","h">>], [pk |-> "lit", pv |-> <<"/">>]>>, <<[pk |-> "lit", pv |-> <<"/","a","p","p",".","p","h","p","?","q","=">>], [pk |-> "ph", pv |-> <<"q","u","e","r","y">>]>> >>),
  \* rewrite { r ^/(.*)\.html$ ; to /{1}.php?f=1 app.php }      (last target without the leading slash)
  c_rx    |-> Complex(<<"/">>, Rx(TRUE, <<"/">>, "any", <<".","h","t","m","l">>, TRUE), <<>>, <<>>, FALSE, << <<[pk |-> "lit", pv |-> <<"/">>], [pk |-> "ph", pv |-> <<"1">>], [pk |-> "lit", pv |-> <<".","p","h","p","?","f","=","1">>]>>, <<[pk |-> "lit", pv |-> <<"a","p","p",".","p","h","p">>]>> >>),
  \* rewrite { ext !.html !.php ; to /other }
  c_extn  |-> Complex(<<"/">>, NoRx, <<<<"!",".","h","t","m","l">>, <<"!",".","p","h","p">>>>, <<>>, FALSE, << <<[pk |-> "lit", pv |-> <<"/","o","t","h","e","r">>]>> >>),
  \* rewrite /d { ext .html / ; to /a.html }
  c_extp  |-> Complex(<<"/","d">>, NoRx, <<<<".","h","t","m","l">>, <<"/">>>>, <<>>, FALSE, << <<[pk |-> "lit", pv |-> <<"/","a",".","h","t","m","l">>]>> >>),
  \* rewrite { if {method} is POST ; to /app.php?m={method} }
  c_post  |-> Complex(<<"/">>, NoRx, <<>>, << If(<<[pk |-> "ph", pv |-> <<"m","e","t","h","o","d">>]>>, FALSE, "is", <<[pk |-> "lit", pv |-> <<"P","O","S","T">>]>>) >>, FALSE, << <<[pk |-> "lit", pv |-> <<"/","a","p","p",".","p","h","p","?","m","=">>], [pk |-> "ph", pv |-> <<"m","e","t","h","o","d">>]>> >>),
  \* rewrite /d { if {path} ends_with .php ; if {query} has k= ; if_op or ; to /blocked }
  c_or    |-> Complex(<<"/","d">>, NoRx, <<>>, << If(<<[pk |-> "ph", pv |-> <<"p","a","t","h">>]>>, FALSE, "ends_with", <<[pk |-> "lit", pv |-> <<".","p","h","p">>]>>), If(<<[pk |-> "ph", pv |-> <<"q","u","e","r","y">>]>>, FALSE, "has", <<[pk |-> "lit", pv |-> <<"k","=">>]>>) >>, TRUE, << <<[pk |-> "lit", pv |-> <<"/","b","l","o","c","k","e","d">>]>> >>),
  \* rewrite { if {path} not_starts_with /d ; if {query} not k=v ; if {path} not_match ^/a ; to /gate{path} }
  c_and   |-> Complex(<<"/">>, NoRx, <<>>, << If(<<[pk |-> "ph", pv |-> <<"p","a","t","h">>]>>, TRUE, "starts_with", <<[pk |-> "lit", pv |-> <<"/","d">>]>>), If(<<[pk |-> "ph", pv |-> <<"q","u","e","r","y">>]>>, FALSE, "not", <<[pk |-> "lit", pv |-> <<"k","=","v">>]>>),
                                          IfMatchRx(<<[pk |-> "ph", pv |-> <<"p","a","t","h">>]>>, TRUE, Rx(TRUE, <<"/","a">>, "none", <<>>, FALSE)) >>, FALSE, << <<[pk |-> "lit", pv |-> <<"/","g","a","t","e">>], [pk |-> "ph", pv |-> <<"p","a","t","h">>]>> >>),
  \* rewrite /api { r ^/v([0-9]+)$ ; to /d/{1}?{query} }        (the regexp sees the path behind the base)
  c_base  |-> Complex(<<"/","a","p","i">>, Rx(TRUE, <<"/","v">>, "digits", <<>>, TRUE), <<>>, <<>>, FALSE, << <<[pk |-> "lit", pv |-> <<"/","d","/">>], [pk |-> "ph", pv |-> <<"1">>], [pk |-> "lit", pv |-> <<"?">>], [pk |-> "ph", pv |-> <<"q","u","e","r","y">>]>> >>),
  \* rewrite /d//x { r \.html$ ; to /a.html?dirty=1 }           (a base that is not clean: acts as /d/x)
  c_dirty |-> Complex(<<"/","d","/","/","x">>, Rx(FALSE, <<".","h","t","m","l">>, "none", <<>>, TRUE), <<>>, <<>>, FALSE, << <<[pk |-> "lit", pv |-> <<"/","a",".","h","t","m","l","?","d","i","r","t","y","=","1">>]>> >>)
]
RwIds == DOMAIN RwPool

\* lines rewriteParse / NewComplexRule refuse (each is tried alone)
RwBad == [
  \* rewrite /x { to /y ; status 404 }      (this fork has no `status` in rewrite: unknown sub-directive)
  b_status |-> [Complex(<<"/","x">>, NoRx, <<>>, <<>>, FALSE, << <<[pk |-> "lit", pv |-> <<"/","y">>]>> >>) EXCEPT !.extra = "status 404"],
  \* rewrite { ext x ; to /y }
  b_ext    |-> Complex(<<"/">>, NoRx, <<<<"x">>>>, <<>>, FALSE, << <<[pk |-> "lit", pv |-> <<"/","y">>]>> >>),
  \* rewrite { ext !x ; to /y }
  b_nex    |-> Complex(<<"/">>, NoRx, <<<<"!","x">>>>, <<>>, FALSE, << <<[pk |-> "lit", pv |-> <<"/","y">>]>> >>),
  \* rewrite /x { r ^/a }                   (no `to`)
  b_noto   |-> Complex(<<"/","x">>, Rx(TRUE, <<"/","a">>, "none", <<>>, FALSE), <<>>, <<>>, FALSE, <<>>)
]
BadIds == DOMAIN RwBad
RwLine(id) == IF id \in RwIds THEN RwPool[id] ELSE RwBad[id]

\* ---- redir lines.  form "args":  redir [from] to [code] [{ if... }]
\*                    form "table": redir [dcode] { if... ; [from] to [code] ; ... }
Entry(from, to, code) == [from |-> from, hasfrom |-> TRUE, to |-> to, code |-> code]
EntryAll(to) == [from |-> <<"/">>, hasfrom |-> FALSE, to |-> to, code |-> ""]       \* one argument: catch-all
ArgsLine(e, conds, isOr) == [form |-> "args", dcode |-> "", conds |-> conds, isOr |-> isOr, entries |-> <<e>>]
TableLine(dcode, conds, isOr, es) == [form |-> "table", dcode |-> dcode, conds |-> conds, isOr |-> isOr, entries |-> es]

RdPool == [
  \* redir /old /new
  r_old    |-> ArgsLine(Entry(<<"/","o","l","d">>, <<[pk |-> "lit", pv |-> <<"/","n","e","w">>]>>, ""), <<>>, FALSE),
  \* redir /old /d/ 302                                  (same `from` as r_old / r_tab: refused together)
  r_old2   |-> ArgsLine(Entry(<<"/","o","l","d">>, <<[pk |-> "lit", pv |-> <<"/","d","/">>]>>, "302"), <<>>, FALSE),
  \* redir /a.html http://other.test{uri} 307
  r_abs    |-> ArgsLine(Entry(<<"/","a",".","h","t","m","l">>, <<[pk |-> "lit", pv |-> <<"h","t","t","p",":","/","/","o","t","h","e","r",".","t","e","s","t">>], [pk |-> "ph", pv |-> <<"u","r","i">>]>>, "307"), <<>>, FALSE),
  \* redir 302 { if {path} not /new ; / /new }
  r_guard  |-> TableLine("302", << If(<<[pk |-> "ph", pv |-> <<"p","a","t","h">>]>>, FALSE, "not", <<[pk |-> "lit", pv |-> <<"/","n","e","w">>]>>) >>, FALSE, << Entry(<<"/">>, <<[pk |-> "lit", pv |-> <<"/","n","e","w">>]>>, "") >>),
  \* redir { if {rewrite_path} starts_with /d/ ; if {method} is GET ; / /moved{rewrite_path}?from={path} 303 }
  r_moved  |-> TableLine("", << If(<<[pk |-> "ph", pv |-> <<"r","e","w","r","i","t","e","_","p","a","t","h">>]>>, FALSE, "starts_with", <<[pk |-> "lit", pv |-> <<"/","d","/">>]>>), If(<<[pk |-> "ph", pv |-> <<"m","e","t","h","o","d">>]>>, FALSE, "is", <<[pk |-> "lit", pv |-> <<"G","E","T">>]>>) >>, FALSE,
                         << Entry(<<"/">>, <<[pk |-> "lit", pv |-> <<"/","m","o","v","e","d">>], [pk |-> "ph", pv |-> <<"r","e","w","r","i","t","e","_","p","a","t","h">>], [pk |-> "lit", pv |-> <<"?","f","r","o","m","=">>], [pk |-> "ph", pv |-> <<"p","a","t","h">>]>>, "303") >>),
  \* redir /d/x.html landed 308                          (relative target)
  r_rel    |-> ArgsLine(Entry(<<"/","d","/","x",".","h","t","m","l">>, <<[pk |-> "lit", pv |-> <<"l","a","n","d","e","d">>]>>, "308"), <<>>, FALSE),
  \* redir /api/v1 /new?a=1&{query} meta                 (the page carries the target HTML-escaped)
  r_meta   |-> ArgsLine(Entry(<<"/","a","p","i","/","v","1">>, <<[pk |-> "lit", pv |-> <<"/","n","e","w","?","a","=","1","&">>], [pk |-> "ph", pv |-> <<"q","u","e","r","y">>]>>, "meta"), <<>>, FALSE),
  \* redir 307 { /old /t1 ; /d/ /t2/../x/ 308 }
  r_tab    |-> TableLine("307", <<>>, FALSE, << Entry(<<"/","o","l","d">>, <<[pk |-> "lit", pv |-> <<"/","t","1">>]>>, ""), Entry(<<"/","d","/">>, <<[pk |-> "lit", pv |-> <<"/","t","2","/",".",".","/","x","/">>]>>, "308") >>),
  \* redir { if_op or ; if {query} has k= ; if {path} match \.php$ ; / /q/{1}?{query} }
  r_or     |-> TableLine("", << If(<<[pk |-> "ph", pv |-> <<"q","u","e","r","y">>]>>, FALSE, "has", <<[pk |-> "lit", pv |-> <<"k","=">>]>>), IfMatchRx(<<[pk |-> "ph", pv |-> <<"p","a","t","h">>]>>, FALSE, Rx(FALSE, <<".","p","h","p">>, "none", <<>>, TRUE)) >>, TRUE,
                         << Entry(<<"/">>, <<[pk |-> "lit", pv |-> <<"/","q","/">>], [pk |-> "ph", pv |-> <<"1">>], [pk |-> "lit", pv |-> <<"?">>], [pk |-> "ph", pv |-> <<"q","u","e","r","y">>]>>, "") >>),
  \* redir /x /x                                         (refused: from = to)
  r_same   |-> ArgsLine(Entry(<<"/","x">>, <<[pk |-> "lit", pv |-> <<"/","x">>]>>, ""), <<>>, FALSE),
  \* redir { if {path} not_has old ; /new /new/ }
  r_nothas |-> TableLine("", << If(<<[pk |-> "ph", pv |-> <<"p","a","t","h">>]>>, TRUE, "has", <<[pk |-> "lit", pv |-> <<"o","l","d">>]>>) >>, FALSE, << Entry(<<"/","n","e","w">>, <<[pk |-> "lit", pv |-> <<"/","n","e","w","/">>]>>, "") >>),
  \* redir https://x.test{uri}                           (one argument: catch-all)
  r_all    |-> ArgsLine(EntryAll(<<[pk |-> "lit", pv |-> <<"h","t","t","p","s",":","/","/","x",".","t","e","s","t">>], [pk |-> "ph", pv |-> <<"u","r","i">>]>>), <<>>, FALSE)
]
RdIds == DOMAIN RdPool

CodeNum == [c \in {"300", "301", "302", "303", "304", "305", "307", "308"} |->
            CASE c = "300" -> 300 [] c = "301" -> 301 [] c = "302" -> 302 [] c = "303" -> 303
              [] c = "304" -> 304 [] c = "305" -> 305 [] c = "307" -> 307 [] c = "308" -> 308]

\* every atomic condition of the pools plus the missing operators: the truth tables of section 8
CondPool == << If(<<[pk |-> "ph", pv |-> <<"p","a","t","h">>]>>, FALSE, "is", <<[pk |-> "lit", pv |-> <<"/","o","l","d">>]>>),            If(<<[pk |-> "ph", pv |-> <<"p","a","t","h">>]>>, TRUE, "is", <<[pk |-> "lit", pv |-> <<"/","o","l","d">>]>>),
               If(<<[pk |-> "ph", pv |-> <<"q","u","e","r","y">>]>>, FALSE, "not", <<[pk |-> "lit", pv |-> <<"k","=","v">>]>>),           If(<<[pk |-> "ph", pv |-> <<"q","u","e","r","y">>]>>, TRUE, "not", <<[pk |-> "lit", pv |-> <<"k","=","v">>]>>),
               If(<<[pk |-> "ph", pv |-> <<"q","u","e","r","y">>]>>, FALSE, "has", <<[pk |-> "lit", pv |-> <<"k","=">>]>>),            If(<<[pk |-> "ph", pv |-> <<"p","a","t","h">>]>>, TRUE, "has", <<[pk |-> "lit", pv |-> <<"o","l","d">>]>>),
               If(<<[pk |-> "ph", pv |-> <<"p","a","t","h">>]>>, FALSE, "starts_with", <<[pk |-> "lit", pv |-> <<"/","d">>]>>),     If(<<[pk |-> "ph", pv |-> <<"p","a","t","h">>]>>, TRUE, "starts_with", <<[pk |-> "lit", pv |-> <<"/","d">>]>>),
               If(<<[pk |-> "ph", pv |-> <<"p","a","t","h">>]>>, FALSE, "ends_with", <<[pk |-> "lit", pv |-> <<".","p","h","p">>]>>),     If(<<[pk |-> "ph", pv |-> <<"u","r","i">>]>>, TRUE, "ends_with", <<[pk |-> "lit", pv |-> <<"k","=","v">>]>>),
               IfMatchRx(<<[pk |-> "ph", pv |-> <<"p","a","t","h">>]>>, FALSE, Rx(TRUE, <<"/","d","/">>, "any", <<".","h","t","m","l">>, TRUE)),
               IfMatchRx(<<[pk |-> "ph", pv |-> <<"p","a","t","h">>]>>, TRUE, Rx(TRUE, <<"/","a">>, "none", <<>>, FALSE)),
               If(<<[pk |-> "ph", pv |-> <<"m","e","t","h","o","d">>]>>, FALSE, "is", <<[pk |-> "lit", pv |-> <<"P","O","S","T">>]>>),          If(<<[pk |-> "ph", pv |-> <<"u","r","i">>]>>, FALSE, "is", <<[pk |-> "ph", pv |-> <<"p","a","t","h">>]>>),
               If(<<[pk |-> "ph", pv |-> <<"q","u","e","r","y">>]>>, FALSE, "is", <<[pk |-> "lit", pv |-> <<"p","=">>], [pk |-> "ph", pv |-> <<"p","a","t","h">>]>>),    If(<<[pk |-> "lit", pv |-> <<"/","a","p","i","/">>], [pk |-> "ph", pv |-> <<"m","e","t","h","o","d">>]>>, FALSE, "is", <<[pk |-> "ph", pv |-> <<"p","a","t","h">>]>>) >>

\* ---- what the model assumes about its own alphabet (checked by TLC before anything else)
AllTexts == UNION {Range(RwLine(id).to) : id \in RwIds \cup BadIds} \cup UNION {{RdPool[id].entries[x].to : x \in 1..Len(RdPool[id].entries)} : id \in RdIds}
Alphabet == {"/", ".", "_", "-", "=", "&", "?", ":", "{", "}", "D",
             "a", "b", "c", "d", "e", "f", "g", "h", "i", "j", "k", "l", "m", "n", "o", "p", "q", "r", "s", "t", "u", "v", "w", "x", "y", "z",
             "G", "E", "T", "P", "O", "S"} \cup Digits
AlphabetOK ==
    /\ \A i \in 1..Len(ReqPaths) : Range(ReqPaths[i]) \subseteq Alphabet \ {"?", "G", "E", "T", "P", "O", "S"}
    /\ \A i \in 1..Len(ReqForms) : Range(ReqForms[i].qs) \subseteq Alphabet \ {"G", "E", "T", "P", "O", "S"}
    /\ \A t \in AllTexts : \A i \in 1..Len(t) : Range(t[i].pv) \subseteq Alphabet \ {"{", "}"}
ASSUME AlphabetOK

-----------------------------------------------------------------------------
(* 6. the operational model *)

VARIABLES rw, rd,        \* the site as written: ids of its rewrite lines / redir lines, in file order
          pc,            \* "build" | "rwparse" | "rdparse" | "rejected" | "ready" | "select" | "rewrite" | "to" | "commit" | "redir" | "done"
          n,             \* setup: the line being parsed
          rules,         \* setup result: []httpserver.HandlerConfig of Rewrite
          rdrules,       \* setup result: []redirect.Rule
          req,           \* the request being served (index into the battery), 0 = none
          c,             \* its replacer context (original URL, current URL, custom map)
          i, sel,        \* ConfigSelector.Select: cursor and best rule so far (0 = nil)
          k, t, q, qsrc, \* rewrite.To: cursor, current candidate path, carried query and the target it came from
          napplied,      \* how often this request was rewritten
          j,             \* Redirect.ServeHTTP: cursor
          out            \* the answer: [kind, code, a, b, rwsel, rdsel, free]
vars == <<rw, rd, pc, n, rules, rdrules, req, c, i, sel, k, t, q, qsrc, napplied, j, out>>

NoCtx == [m |-> <<>>, op |-> <<>>, oq |-> <<>>, cp |-> <<>>, cq |-> <<>>, c1set |-> FALSE, c1 |-> <<>>]
NoOut == [kind |-> "none", code |-> 0, a |-> <<>>, b |-> <<>>, rwsel |-> 0, rdsel |-> 0, free |-> FALSE]

\* ---- sampling of the larger sites (as in DirectiveOrder.tla)
SeedNum == LET sd == TLCGet("config").seed         \* TLC hands the -seed value over as a string
               T == << "1", "2", "3", "4", "5", "6", "7", "8", "9", "10", "11", "12", "13", "14", "15", "16" >>
               hit == {x \in 1..Len(T) : T[x] = sd}
           IN  IF hit = {} THEN 0 ELSE CHOOSE x \in hit : TRUE
IdNum(id) == CASE id = "s_exact" -> 1 [] id = "s_loose" -> 2 [] id = "s_not" -> 3 [] id = "s_cap" -> 4 [] id = "s_all" -> 5 [] id = "c_try" -> 6
               [] id = "c_rx" -> 7 [] id = "c_extn" -> 8 [] id = "c_extp" -> 9 [] id = "c_post" -> 10 [] id = "c_or" -> 11 [] id = "c_and" -> 12
               [] id = "c_base" -> 13 [] id = "r_old" -> 14 [] id = "r_old2" -> 15 [] id = "r_abs" -> 16 [] id = "r_guard" -> 17 [] id = "r_moved" -> 18
               [] id = "r_rel" -> 19 [] id = "r_meta" -> 20 [] id = "r_tab" -> 21 [] id = "r_or" -> 22 [] id = "r_same" -> 23 [] id = "r_nothas" -> 24
               [] id = "r_all" -> 25 [] id = "c_dirty" -> 27 [] OTHER -> 26
RECURSIVE HashSeq(_, _)
HashSeq(b, x) == IF x > Len(b) THEN 0 ELSE ((x * 31 + 7) * IdNum(b[x]) + HashSeq(b, x + 1)) % 1000003
Sampled(a, b) == LET lines == Len(a) + Len(b)
                     oneIn == IF lines <= 1 THEN 1 ELSE IF lines = 2 THEN Sample2 ELSE Sample3
                 IN (HashSeq(a \o b, 1) + 17 * SeedNum) % oneIn = 0

Init == /\ rw = <<>> /\ rd = <<>> /\ pc = "build" /\ n = 0 /\ rules = <<>> /\ rdrules = <<>>
        /\ req = 0 /\ c = NoCtx /\ i = 0 /\ sel = 0 /\ k = 0 /\ t = <<>> /\ q = <<>> /\ qsrc = 0
        /\ napplied = 0 /\ j = 0 /\ out = NoOut

AddRw(id) == /\ pc = "build" /\ Len(rw) + Len(rd) < MaxRules
             /\ \A x \in 1..Len(rw) : rw[x] \in RwIds
             /\ rw' = Append(rw, id)
             /\ UNCHANGED <<rd, pc, n, rules, rdrules, req, c, i, sel, k, t, q, qsrc, napplied, j, out>>
AddRd(id) == /\ pc = "build" /\ Len(rw) + Len(rd) < MaxRules
             /\ \A x \in 1..Len(rw) : rw[x] \in RwIds
             /\ rd' = Append(rd, id)
             /\ UNCHANGED <<rw, pc, n, rules, rdrules, req, c, i, sel, k, t, q, qsrc, napplied, j, out>>
AddBad(id) == /\ pc = "build" /\ rw = <<>> /\ rd = <<>>
              /\ rw' = <<id>>
              /\ UNCHANGED <<rd, pc, n, rules, rdrules, req, c, i, sel, k, t, q, qsrc, napplied, j, out>>
StartSetup == /\ pc = "build" /\ Sampled(rw, rd)
              /\ pc' = "rwparse" /\ n' = 1
              /\ UNCHANGED <<rw, rd, rules, rdrules, req, c, i, sel, k, t, q, qsrc, napplied, j, out>>

\* ---- rewrite/setup.go
ValidExt(v) == ~(Len(v) < 2 \/ (Len(v) < 3 /\ v[1] = "!")) \/ v = <<"/">> \/ v = <<"!","/">>
RwLineOK(l) == /\ l.extra = ""                                   \* default: return nil, c.ArgErr()
               /\ l.to # <<>>                                    \* "ensure to is specified"
               /\ \A x \in 1..Len(l.exts) : ValidExt(l.exts[x])  \* NewComplexRule
\* NewComplexRule: the base is kept in its cleaned form, the one Path.Matches compares with
Compile(l) == IF l.kind = "complex" /\ BaseMode = "cleaned" /\ l.base # <<>> THEN [l EXCEPT !.base = CleanKeepSlash(l.base)] ELSE l
RwParseLine == /\ pc = "rwparse" /\ n <= Len(rw)
               /\ IF RwLineOK(RwLine(rw[n]))
                  THEN rules' = Append(rules, Compile(RwLine(rw[n]))) /\ n' = n + 1 /\ pc' = pc
                  ELSE pc' = "rejected" /\ UNCHANGED <<rules, n>>
               /\ UNCHANGED <<rw, rd, rdrules, req, c, i, sel, k, t, q, qsrc, napplied, j, out>>
RwParseDone == /\ pc = "rwparse" /\ n > Len(rw)
               /\ pc' = "rdparse" /\ n' = 1
               /\ UNCHANGED <<rw, rd, rules, rdrules, req, c, i, sel, k, t, q, qsrc, napplied, j, out>>

\* ---- redirect/setup.go
HasIf(l) == l.conds # <<>>                                        \* IfMatcher.Enabled
RdRule(l, e) == LET code == IF e.code = "" THEN (IF l.dcode = "" THEN "301" ELSE l.dcode) ELSE e.code IN
                [from |-> e.from, to |-> e.to, meta |-> code = "meta",
                 code |-> IF code = "meta" THEN CodeNum[IF l.dcode = "" THEN "301" ELSE l.dcode] ELSE CodeNum[code],
                 conds |-> l.conds, isOr |-> l.isOr, hasif |-> HasIf(l)]
\* checkAndSaveRule.  "prevent obvious duplicates (rules with if statements exempt)": the code exempts the rule that is
\* being added, not the rules it is compared with (both = FALSE); both = TRUE exempts conditional rules on either side.
\* Sites on which the two readings differ (a conditional rule FOLLOWED by an unconditional one with the same from, e.g. a
\* guarded catch-all and then the plain catch-all) are refused by the code; the check does not judge them (SetupFree).
RdRuleOK(r, saved, both) == /\ r.from # Flat(r.to)
                            /\ (~r.hasif => \A x \in 1..Len(saved) : saved[x].from # r.from \/ (both /\ saved[x].hasif))
RECURSIVE RdSaveM(_, _, _, _)      \* the entries of one line, in order: [ok, rs = the grown list]
RdSaveM(l, x, saved, both) == IF x > Len(l.entries) THEN [ok |-> TRUE, rs |-> saved]
                              ELSE LET r == RdRule(l, l.entries[x]) IN
                                   IF RdRuleOK(r, saved, both) THEN RdSaveM(l, x + 1, Append(saved, r), both) ELSE [ok |-> FALSE, rs |-> saved]
RdSave(l, x, saved) == RdSaveM(l, x, saved, FALSE)
RdParseLine == /\ pc = "rdparse" /\ n <= Len(rd)
               /\ LET s == RdSave(RdPool[rd[n]], 1, rdrules) IN
                  IF ~s.ok THEN pc' = "rejected" /\ UNCHANGED <<rdrules, n>>
                  ELSE rdrules' = s.rs /\ n' = n + 1 /\ pc' = pc
               /\ UNCHANGED <<rw, rd, rules, req, c, i, sel, k, t, q, qsrc, napplied, j, out>>
SetupDone == /\ pc = "rdparse" /\ n > Len(rd)
             /\ pc' = "ready" /\ n' = 0
             /\ UNCHANGED <<rw, rd, rules, rdrules, req, c, i, sel, k, t, q, qsrc, napplied, j, out>>

\* ---- one request
StartRequest(x) == /\ pc = "ready"
                   /\ req' = x /\ c' = Ctx0(x)
                   /\ pc' = "select" /\ i' = 1 /\ sel' = 0
                   /\ UNCHANGED <<rw, rd, n, rules, rdrules, k, t, q, qsrc, napplied, j, out>>

\* Path.Matches(base)
PathMatches(p, base) ==
    IF base = <<"/">> \/ base = <<>> THEN TRUE
    ELSE LET pp == Clean(p) \o (IF HasSuffix(p, <<"/">>) THEN <<"/">> ELSE <<>>)
             bb == Clean(base) \o (IF HasSuffix(base, <<"/">>) THEN <<"/">> ELSE <<>>)
         IN HasPrefix(Lower(pp), Lower(bb))                        \* CaseSensitivePath = false
\* ComplexRule.matchExt
ExtOf(p) == LET e == PathExt(BaseName(p)) IN IF e = <<>> THEN <<"/">> ELSE e
NegExt(v) == v[1] = "!"
BareExt(v) == IF NegExt(v) THEN Tail(v) ELSE v
MatchExt(exts, p) == LET hit == {x \in 1..Len(exts) : BareExt(exts[x]) = ExtOf(p)} IN
                     IF hit # {} THEN ~NegExt(exts[Min(hit)])
                     ELSE ~(\E x \in 1..Len(exts) : ~NegExt(exts[x]))
\* regexpMatches(re, base, path): the regexp sees path[start:]
RxStart(base) == Len(base) - (IF HasSuffix(base, <<"/">>) THEN 1 ELSE 0)
RxSub(l, p) == RxFind(l.rx, Drop(p, RxStart(l.base)))
\* SimpleRule.Match / ComplexRule.Match
RwMatch(l, cx) == IF l.kind = "simple" THEN (RxSub(l, cx.cp) # <<>>) # l.neg
                  ELSE /\ IfMatch(l.conds, l.isOr, cx)
                       /\ PathMatches(cx.cp, l.base)
                       /\ MatchExt(l.exts, cx.cp)
                       /\ (l.rx.on => RxSub(l, cx.cp) # <<>>)

SelectStep == /\ pc = "select" /\ i <= Len(rules)
              /\ sel' = IF RwMatch(rules[i], c) /\ (sel = 0 \/ Len(rules[i].base) > Len(rules[sel].base)) THEN i ELSE sel
              /\ i' = i + 1
              /\ UNCHANGED <<rw, rd, pc, n, rules, rdrules, req, c, k, t, q, qsrc, napplied, j, out>>
SelectDone == /\ pc = "select" /\ i > Len(rules)
              /\ IF sel = 0 THEN pc' = "redir" /\ j' = 1 ELSE pc' = "rewrite" /\ j' = j
              /\ UNCHANGED <<rw, rd, n, rules, rdrules, req, c, i, sel, k, t, q, qsrc, napplied, out>>

\* Rule.Rewrite: replacer.Set("1", matches[1])
RwBegin == /\ pc = "rewrite"
           /\ LET m == IF rules[sel].rx.on THEN RxSub(rules[sel], c.cp) ELSE <<>> IN
              c' = IF Len(m) >= 2 THEN [c EXCEPT !.c1set = TRUE, !.c1 = m[2]] ELSE c
           /\ pc' = "to" /\ k' = 1 /\ t' = <<>> /\ q' = <<>> /\ qsrc' = 0
           /\ UNCHANGED <<rw, rd, n, rules, rdrules, req, i, sel, napplied, j, out>>

\* one candidate of rewrite.To
EvalTarget(text, cx) == LET t0 == Replace(Flat(text), cx)
                            qi == IndexCh(t0, "?")
                            p0 == IF qi = 0 THEN t0 ELSE Take(t0, qi - 1)
                        IN [path |-> CleanKeepSlash(p0), hasq |-> qi # 0, query |-> IF qi = 0 THEN <<>> ELSE Drop(t0, qi)]
ToStep == /\ pc = "to"
          /\ LET tos == rules[sel].to
                 e == EvalTarget(tos[k], c)
             IN /\ t' = e.path
                /\ q' = IF e.hasq THEN e.query ELSE q                  \* `query` is declared outside the loop
                /\ qsrc' = IF e.hasq THEN k ELSE qsrc
                /\ IF Exists(e.path) \/ k = Len(tos) THEN pc' = "commit" /\ k' = k ELSE pc' = pc /\ k' = k + 1
          /\ UNCHANGED <<rw, rd, n, rules, rdrules, req, c, i, sel, napplied, j, out>>
Commit == /\ pc = "commit"
          /\ c' = [c EXCEPT !.cp = IF HasPrefix(t, <<"/">>) THEN t ELSE <<"/">> \o t,
                            !.cq = IF q # <<>> THEN q ELSE c.cq]    \* "overwrite query string if present"
          /\ napplied' = napplied + 1
          /\ out' = [out EXCEPT !.free = (qsrc # k /\ q # <<>> /\ q # c.cq)]
          /\ pc' = "redir" /\ j' = 1
          /\ UNCHANGED <<rw, rd, n, rules, rdrules, req, i, sel, k, t, q, qsrc>>

\* ---- Redirect.ServeHTTP
RdMatch(r, cx) == /\ (r.from = <<"/">> \/ cx.cp = r.from)             \* "/" is the catch-all
                  /\ IfMatch(r.conds, r.isOr, cx)                  \* (schemeMatches: TRUE, tls off)
\* net/http.Redirect: the Location it writes for target u while serving path old
IsAbsURL(u) == HasPrefix(u, <<"h","t","t","p",":","/","/">>) \/ HasPrefix(u, <<"h","t","t","p","s",":","/","/">>) \/ HasPrefix(u, <<"/","/">>)
Location(u, old) ==
    IF IsAbsURL(u) THEN u
    ELSE LET u1 == IF u = <<>> \/ u[1] # "/" THEN DirOf(old) \o u ELSE u
             qi == IndexCh(u1, "?")
             p0 == IF qi = 0 THEN u1 ELSE Take(u1, qi - 1)
         IN CleanKeepSlash(p0) \o (IF qi = 0 THEN <<>> ELSE Drop(u1, qi - 1))
Answer(r, cx) == LET to == Replace(Flat(r.to), cx) IN
                 IF r.meta THEN [kind |-> "meta", code |-> 200, a |-> to, b |-> <<>>]
                 ELSE [kind |-> "redir", code |-> r.code, a |-> Location(to, cx.cp), b |-> <<>>]
RdStep == /\ pc = "redir" /\ j <= Len(rdrules)
          /\ IF RdMatch(rdrules[j], c)
             THEN LET an == Answer(rdrules[j], c) IN
                  /\ out' = [out EXCEPT !.kind = an.kind, !.code = an.code, !.a = an.a, !.b = an.b, !.rwsel = sel, !.rdsel = j]
                  /\ pc' = "done" /\ j' = j
             ELSE j' = j + 1 /\ UNCHANGED <<pc, out>>
          /\ UNCHANGED <<rw, rd, n, rules, rdrules, req, c, i, sel, k, t, q, qsrc, napplied>>
RdPass == /\ pc = "redir" /\ j > Len(rdrules)
          /\ out' = [out EXCEPT !.kind = "pass", !.code = 200, !.a = c.cp, !.b = c.cq, !.rwsel = sel, !.rdsel = 0]
          /\ pc' = "done"
          /\ UNCHANGED <<rw, rd, n, rules, rdrules, req, c, i, sel, k, t, q, qsrc, napplied, j>>

Next == \/ \E id \in RwIds : AddRw(id)
        \/ \E id \in RdIds : AddRd(id)
        \/ \E id \in BadIds : AddBad(id)
        \/ StartSetup \/ RwParseLine \/ RwParseDone \/ RdParseLine \/ SetupDone
        \/ \E x \in 1..NReq : StartRequest(x)
        \/ SelectStep \/ SelectDone \/ RwBegin \/ ToStep \/ Commit \/ RdStep \/ RdPass
Spec == Init /\ [][Next]_vars

-----------------------------------------------------------------------------
(* 7. the declarative part *)

\* ---- the documented result, with quantifiers instead of loops
RwLinesOf(ids) == [x \in 1..Len(ids) |-> Compile(RwLine(ids[x]))]
RECURSIVE RdRulesOf(_, _, _)      \* [ok, rs]: ok is FALSE when checkAndSaveRule refuses an entry
RdRulesOf(ids, x, saved) == IF x > Len(ids) THEN [ok |-> TRUE, rs |-> saved]
                            ELSE LET s == RdSave(RdPool[ids[x]], 1, saved) IN
                                 IF ~s.ok THEN s ELSE RdRulesOf(ids, x + 1, s.rs)
\* setup: a rewrite line is accepted iff it has a target, valid extensions and only known sub-directives;
\* a redir rule iff its from and to differ and (unless it has conditions) no rule before it has the same from
Accepted(rwids, rdids) == /\ \A x \in 1..Len(rwids) : RwLineOK(RwLine(rwids[x]))
                          /\ RdRulesOf(rdids, 1, <<>>).ok
RECURSIVE RdOKBoth(_, _, _)
RdOKBoth(ids, x, saved) == IF x > Len(ids) THEN TRUE
                           ELSE LET s == RdSaveM(RdPool[ids[x]], 1, saved, TRUE) IN s.ok /\ RdOKBoth(ids, x + 1, s.rs)
\* refused only because a conditional rule precedes an unconditional one with the same from: not judged
SetupFree(rwids, rdids) == /\ \A x \in 1..Len(rwids) : RwLineOK(RwLine(rwids[x]))
                           /\ ~RdRulesOf(rdids, 1, <<>>).ok /\ RdOKBoth(rdids, 1, <<>>)

\* the target taken: the first one that exists under the root, else the last one
TargetDecl(l, cx) == LET ev == [x \in 1..Len(l.to) |-> EvalTarget(l.to[x], cx)]
                         ex == {x \in 1..Len(l.to) : Exists(ev[x].path)}
                         kk == IF ex = {} THEN Len(l.to) ELSE Min(ex)
                         \* the code's `query`: that of the last candidate up to kk that carries a '?'
                         wq == {x \in 1..kk : ev[x].hasq}
                         qq == IF wq = {} THEN <<>> ELSE ev[Max(wq)].query
                     IN [idx |-> kk, path |-> ev[kk].path, query |-> qq, own |-> (wq # {} /\ Max(wq) = kk)]
\* what line l makes of a request it was selected for
ApplyDecl(l, cx) == LET m == IF l.rx.on THEN RxSub(l, cx.cp) ELSE <<>>
                        c1 == IF Len(m) >= 2 THEN [cx EXCEPT !.c1set = TRUE, !.c1 = m[2]] ELSE cx
                        tg == TargetDecl(l, c1)
                    IN [cx |-> [c1 EXCEPT !.cp = IF HasPrefix(tg.path, <<"/">>) THEN tg.path ELSE <<"/">> \o tg.path,
                                          !.cq = IF tg.query # <<>> THEN tg.query ELSE cx.cq],
                        idx |-> tg.idx,
                        \* the query was carried over from a target that was NOT taken: an accident of the loop, not judged
                        free |-> (~tg.own /\ tg.query # <<>> /\ tg.query # cx.cq)]
\* both are functions of (line, original request): tabulated once, so that the invariants below are look-ups
MatchTab == [id \in RwIds |-> [x \in 1..NReq |-> RwMatch(Compile(RwPool[id]), Ctx0(x))]]
ApplyTab == [id \in RwIds |-> [x \in 1..NReq |-> IF MatchTab[id][x] THEN ApplyDecl(Compile(RwPool[id]), Ctx0(x)) ELSE [cx |-> Ctx0(x), idx |-> 0, free |-> FALSE]]]
BaseLen(id) == Len(Compile(RwPool[id]).base)

\* the rule that rewrites request x on a site with the rewrite lines ids: it matches; no matching rule has a longer
\* base path ("This chooses the config with the longest length"); among those with an equally long base the one written first
SelectDecl(ids, x) == LET ok == {y \in 1..Len(ids) : MatchTab[ids[y]][x]} IN
                      IF ok = {} THEN 0
                      ELSE CHOOSE y \in ok : \A z \in ok : \/ BaseLen(ids[z]) < BaseLen(ids[y])
                                                           \/ (BaseLen(ids[z]) = BaseLen(ids[y]) /\ z >= y)
\* the redir rule that answers: the first, in written order, whose from is "/" or equals the (rewritten) path and whose conditions hold
RedirDecl(rs, cx) == LET ok == {x \in 1..Len(rs) : RdMatch(rs[x], cx)} IN IF ok = {} THEN 0 ELSE Min(ok)
ExpectedWith(rwids, rs, x) ==
    LET s == SelectDecl(rwids, x)
        ar == IF s = 0 THEN [cx |-> Ctx0(x), idx |-> 0, free |-> FALSE] ELSE ApplyTab[rwids[s]][x]
        y == RedirDecl(rs, ar.cx)
    IN IF y = 0 THEN [kind |-> "pass", code |-> 200, a |-> ar.cx.cp, b |-> ar.cx.cq, rwsel |-> s, rdsel |-> 0, free |-> ar.free]
       ELSE LET an == Answer(rs[y], ar.cx) IN
            [kind |-> an.kind, code |-> an.code, a |-> an.a, b |-> an.b, rwsel |-> s, rdsel |-> y, free |-> ar.free]
Expected(rwids, rdids, x) == ExpectedWith(rwids, RdRulesOf(rdids, 1, <<>>).rs, x)

\* ---- invariants
TypeOK == /\ pc \in {"build", "rwparse", "rdparse", "rejected", "ready", "select", "rewrite", "to", "commit", "redir", "done"}
          /\ Len(rw) + Len(rd) <= MaxRules /\ req \in 0..NReq /\ napplied \in 0..1
          /\ sel \in 0..Len(rules) /\ out.kind \in {"none", "pass", "redir", "meta"}

Serving == pc \in {"select", "rewrite", "to", "commit", "redir", "done"}

\* setup accepts exactly the documented sites, and what it compiled is the written rules in written order
\* (Progress, below, says that nothing of this changes while the site serves)
SetupInv == /\ (pc = "rejected" => ~Accepted(rw, rd))
            /\ (pc = "ready" => /\ Accepted(rw, rd)
                                /\ rules = RwLinesOf(rw)
                                /\ rdrules = RdRulesOf(rd, 1, <<>>).rs)
\* "from and to values of redirect rule cannot be the same"; no unconditional duplicates
NoSelfRedirectRule == pc = "ready" =>
    \A x \in 1..Len(rdrules) : /\ rdrules[x].from # Flat(rdrules[x].to)
                               /\ (~rdrules[x].hasif => \A y \in 1..(x - 1) : rdrules[y].from # rdrules[x].from)

\* loop invariant of ConfigSelector.Select: after looking at i-1 rules, sel is the documented choice among them
SelectInv == pc = "select" => sel = SelectDecl(Take(rw, i - 1), req)
\* ... so the selected rule matches, no EARLIER matching rule has a base at least as long, no LATER one a longer base:
\* among rules of equal base length (all simple rules have "/") the first match wins
FirstMatchWins == pc = "rewrite" =>
    /\ MatchTab[rw[sel]][req]
    /\ \A y \in 1..(sel - 1) : MatchTab[rw[y]][req] => BaseLen(rw[y]) < BaseLen(rw[sel])
    /\ \A y \in (sel + 1)..Len(rw) : MatchTab[rw[y]][req] => BaseLen(rw[y]) <= BaseLen(rw[sel])
\* regexpMatches slices path[start:]: Go panics if a path that passed Path.Matches is shorter than the rule's base
\* (possible only while the base is kept as written: /d//x matches a request for /d/x)
SliceInBounds == pc = "select" /\ i <= Len(rules) =>
    LET l == rules[i] IN
    (l.rx.on /\ (l.kind = "complex" => IfMatch(l.conds, l.isOr, c) /\ PathMatches(c.cp, l.base) /\ MatchExt(l.exts, c.cp)))
        => RxStart(l.base) <= Len(c.cp)
\* rewrite.To: the target taken exists or is the last one, and every target before it was looked at and does not exist
ToFallbackOrder == pc = "commit" =>
    /\ \A x \in 1..(k - 1) : ~Exists(EvalTarget(rules[sel].to[x], c).path)
    /\ (Exists(t) \/ k = Len(rules[sel].to))
    /\ t = EvalTarget(rules[sel].to[k], c).path
\* Redirect.ServeHTTP: the rule that answered matched and no rule before it did; a request passed on matched none
RedirOrder == pc = "done" =>
    /\ (out.rdsel > 0 => RdMatch(rdrules[out.rdsel], c))
    /\ \A y \in 1..(IF out.rdsel > 0 THEN out.rdsel - 1 ELSE Len(rdrules)) : ~RdMatch(rdrules[y], c)
\* a request is rewritten at most once, and only by the rule that was selected for the ORIGINAL request
RewriteOnce == /\ napplied <= 1
               /\ (Serving /\ napplied = 0 => c.cp = Req(req).p /\ c.cq = Req(req).qs)
               /\ (Serving => c.op = Req(req).p /\ c.oq = Req(req).qs)       \* {path} {query} {uri} stay the original
               /\ (pc = "done" => napplied = (IF out.rwsel > 0 THEN 1 ELSE 0))
\* placeholders expand once: the scanner's result is the piecewise substitution, whatever the values contain
ExpandOnce == /\ (pc = "to" => Replace(Flat(rules[sel].to[k]), c) = ExpandDecl(rules[sel].to[k], c))
              /\ (pc = "done" /\ out.rdsel > 0 => Replace(Flat(rdrules[out.rdsel].to), c) = ExpandDecl(rdrules[out.rdsel].to, c))
\* the operational result is the documented one: a function of (site, request) - same request, same result
Deterministic == pc = "done" => out = ExpectedWith(rw, rdrules, req)

\* ---- action properties
\* the site does not change while it serves; cursors only move forward (no loop: every request ends)
Rank == CASE pc = "select" -> 600 - i [] pc = "rewrite" -> 500 [] pc = "to" -> 400 - k [] pc = "commit" -> 300
          [] pc = "redir" -> 200 - j [] pc = "done" -> 0 [] OTHER -> 1000
Progress == [][Serving => Rank' < Rank /\ UNCHANGED <<rw, rd, rules, rdrules, req>>]_vars
\* targets are tried in the order written, one at a time
ToInOrder == [][pc = "to" /\ pc' = "to" => k' = k + 1]_vars
RulesInOrder == [][(pc = "select" /\ pc' = "select" => i' = i + 1) /\ (pc = "redir" /\ pc' = "redir" => j' = j + 1)]_vars

-----------------------------------------------------------------------------
(* 8. conditions as truth tables (constant level: TLC evaluates the ASSUMEs once) *)

CondRow(cd) == [x \in 1..NReq |-> CondTrue(cd, Ctx0(x))]
Row == [y \in 1..Len(CondPool) |-> CondRow(CondPool[y])]         \* the table, computed once
Flip(cd) == [cd EXCEPT !.neg = ~cd.neg]
WithOp(cd, op) == [cd EXCEPT !.op = op]
Pos(cd) == [cd EXCEPT !.neg = FALSE]
CondNegation == \A y \in 1..Len(CondPool) : \A x \in 1..NReq :                                   \* not_op = ~op
                    CondTrue(Flip(CondPool[y]), Ctx0(x)) = ~Row[y][x]
CondIsNot == \A y \in 1..Len(CondPool) : CondPool[y].op = "is" =>                                 \* `not` = ~`is`
                 \A x \in 1..NReq : CondTrue(WithOp(CondPool[y], "not"), Ctx0(x)) = ~Row[y][x]
CondImpliesHas == \A y \in 1..Len(CondPool) : CondPool[y].op \in {"is", "starts_with", "ends_with"} =>   \* is / prefix / suffix => has
                      \A x \in 1..NReq : CondTrue(Pos(CondPool[y]), Ctx0(x)) => CondTrue(Pos(WithOp(CondPool[y], "has")), Ctx0(x))
CondAndOr == \A y \in 1..Len(CondPool) : LET z == (y % Len(CondPool)) + 1 IN \A x \in 1..NReq :      \* if_op and / or
                 /\ IfMatch(<<CondPool[y], CondPool[z]>>, FALSE, Ctx0(x)) = (Row[y][x] /\ Row[z][x])
                 /\ IfMatch(<<CondPool[y], CondPool[z]>>, TRUE, Ctx0(x)) = (Row[y][x] \/ Row[z][x])
CondNone == \A x \in 1..NReq : IfMatch(<<>>, FALSE, Ctx0(x))                                      \* no condition: always
\* every row of the table is exercised both ways by the battery (non-vacuity)
\* ... except the last two, which are FALSE for every request BECAUSE values are not scanned again: the query
\* p={path} is not "p=" + the path, and /api/{method} with the method filled in is not the path /api/{method}
CondBothWays == \A y \in 1..Len(CondPool) : {Row[y][x] : x \in 1..NReq} = IF y > Len(CondPool) - 2 THEN {FALSE} ELSE {TRUE, FALSE}
ASSUME CondNegation
ASSUME CondIsNot
ASSUME CondImpliesHas
ASSUME CondAndOr
ASSUME CondNone
ASSUME CondBothWays

\* the string library against a few values computed with Go (path.Clean, filepath.Base, path.Ext, http.Redirect)
LibraryOK ==
    /\ Clean(<<"/","d","/","/">>) = <<"/","d">> /\ Clean(<<"/","d","/",".",".","/","a",".","h","t","m","l">>) = <<"/","a",".","h","t","m","l">> /\ Clean(<<>>) = <<".">> /\ Clean(<<"/",".",".","/","x","/",".","/","y","/">>) = <<"/","x","/","y">>
    /\ Clean(<<"a","/",".",".","/",".",".","/","b">>) = <<".",".","/","b">> /\ Clean(<<"/">>) = <<"/">> /\ CleanKeepSlash(<<"/","d","/","/">>) = <<"/","d","/">>
    /\ BaseName(<<"/","d","/">>) = <<"d">> /\ BaseName(<<"/">>) = <<"/">> /\ BaseName(<<"/","d","/","x",".","h","t","m","l">>) = <<"x",".","h","t","m","l">> /\ ExtOf(<<"/","d","/">>) = <<"/">> /\ ExtOf(<<"/","a",".","b",".","p","h","p">>) = <<".","p","h","p">>
    /\ RxFind(Rx(TRUE, <<"/">>, "any", <<".","h","t","m","l">>, TRUE), <<"/","d","/","x",".","h","t","m","l">>) = << <<"/","d","/","x",".","h","t","m","l">>, <<"d","/","x">> >>
    /\ RxFind(Rx(FALSE, <<"/","o","l","d">>, "none", <<>>, FALSE), <<"/","x","/","o","l","d","/","y">>) = << <<"/","o","l","d">> >>
    /\ RxFind(Rx(TRUE, <<"/","v">>, "digits", <<>>, TRUE), <<"/","v","1","x">>) = <<>>
    /\ Location(<<"l","a","n","d","e","d">>, <<"/","d","/","x",".","h","t","m","l">>) = <<"/","d","/","l","a","n","d","e","d">> /\ Location(<<"/","t","2","/",".",".","/","x","/","?","a","=","/",".",".","/","b">>, <<"/">>) = <<"/","x","/","?","a","=","/",".",".","/","b">>
    /\ PathMatches(<<"/","d","x">>, <<"/","d">>) /\ PathMatches(<<"/","d","/","x">>, <<"/","d","/","/","x">>) /\ PathMatches(<<"/","D","/","x",".","h","t","m","l">>, <<"/","d">>) /\ ~PathMatches(<<"/","d","/",".",".","/","a",".","h","t","m","l">>, <<"/","d">>) /\ ~PathMatches(<<"/","d">>, <<"/","d","/">>)
ASSUME LibraryOK

-----------------------------------------------------------------------------
(* 9. emission: one CASE per site (expected answer to every request of the battery), one head CASE *)

TextStr(text) == Str(Flat(text))
RxJson(rx) == [on |-> rx.on, as |-> rx.as, pre |-> Str(rx.pre), cap |-> rx.cap, post |-> Str(rx.post), ae |-> rx.ae]
CondJson(cd) == [a |-> TextStr(cd.a), neg |-> cd.neg, op |-> cd.op, b |-> TextStr(cd.b), rx |-> RxJson(cd.rx)]
RwJson(id) == LET l == RwLine(id) IN
    [id |-> id, kind |-> l.kind, neg |-> l.neg, rx |-> RxJson(l.rx), base |-> Str(l.base),
     exts |-> [x \in 1..Len(l.exts) |-> Str(l.exts[x])], conds |-> [x \in 1..Len(l.conds) |-> CondJson(l.conds[x])],
     isOr |-> l.isOr, to |-> [x \in 1..Len(l.to) |-> TextStr(l.to[x])], extra |-> l.extra]
RdJson(id) == LET l == RdPool[id] IN
    [id |-> id, form |-> l.form, dcode |-> l.dcode, conds |-> [x \in 1..Len(l.conds) |-> CondJson(l.conds[x])], isOr |-> l.isOr,
     entries |-> [x \in 1..Len(l.entries) |-> [from |-> Str(l.entries[x].from), hasfrom |-> l.entries[x].hasfrom,
                                                to |-> TextStr(l.entries[x].to), code |-> l.entries[x].code]]]
SetToSeq(S) == LET RECURSIVE F(_) F(T) == IF T = {} THEN <<>> ELSE LET x == CHOOSE y \in T : TRUE IN <<x>> \o F(T \ {x}) IN F(S)
OutTuple(o) == <<o.kind, o.code, Str(o.a), Str(o.b), o.rwsel, o.rdsel, o.free>>
EmitHead(dummy) ==   \* (the parameter keeps TLC from evaluating this eagerly as a constant)
    PrintT(<<"CASE", ToJson([kind |-> "head",
        reqs |-> [x \in 1..NReq |-> [p |-> Str(Req(x).p), qs |-> Str(Req(x).qs), m |-> Str(Req(x).m)]],
        files |-> SetToSeq({Str(f) : f \in Files}), dirs |-> SetToSeq({Str(d) : d \in Dirs}),
        rwpool |-> SetToSeq({RwJson(id) : id \in RwIds \cup BadIds}), rdpool |-> SetToSeq({RdJson(id) : id \in RdIds}),
        conds |-> [y \in 1..Len(CondPool) |-> [cond |-> CondJson(CondPool[y]), row |-> Row[y]]]])>>)
EmitSite == PrintT(<<"CASE", ToJson([kind |-> "site", rwl |-> rw, rdl |-> rd, ok |-> pc = "ready", sfree |-> (pc = "rejected" /\ SetupFree(rw, rd)),
                exp |-> IF pc = "ready" THEN LET rs == RdRulesOf(rd, 1, <<>>).rs IN [x \in 1..NReq |-> OutTuple(ExpectedWith(rw, rs, x))]
                        ELSE <<>>])>>)
Emit == /\ (pc = "build" /\ rw = <<>> /\ rd = <<>> => EmitHead(rw))
        /\ (pc \in {"ready", "rejected"} => EmitSite)
=============================================================================
