CONSTANT L = 3
CONSTANT Alphabet <- FullAlphabet
CONSTANT AESets <- QuickAE
CONSTANT Modes <- AllModes
CONSTANT Browses <- AllBrowses
CONSTANT GFiles <- C02Files
CONSTANT GDirs <- C02Dirs
CONSTANT HiddenSet <- C02Hidden
CONSTANT Jail = TRUE
CONSTANT BrowseTrims = TRUE
CONSTANT WalkerHides = TRUE
CONSTANT PrefixKeepsPath = TRUE
INIT InitEmit
NEXT Grow
INVARIANT Emit
CHECK_DEADLOCK FALSE
