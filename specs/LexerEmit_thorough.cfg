CONSTANT N = 6
SPECIFICATION Spec
INVARIANT Emit
CHECK_DEADLOCK FALSE
