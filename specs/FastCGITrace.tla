--------------------------- MODULE FastCGITrace ---------------------------
(***************************************************************************)
(* C13 - validation of what the REAL client (fcgiclient.go, driven through *)
(* FCGIClient.Request and through the fastcgi middleware of a running      *)
(* casket instance) put on the wire.  The harness's byte-level responder   *)
(* logs one "rec" event per record header it receives, in wire order:      *)
(*   {"ev":"case","pairs":[[klen,vlen],...],"body":N}   what was asked for  *)
(*   {"ev":"rec","t":"begin|params|stdin|other","n":len,"pad":pad}          *)
(*   {"ev":"eof"}                          the client closed the connection *)
(* Every record goes through the wire observer WireRec of FastCGI.tla and  *)
(* the declarative invariants of the request direction are checked in      *)
(* every state.  "case" starts the next recorded request (reset).          *)
(***************************************************************************)
EXTENDS FastCGI, Sequences

VARIABLE l
Trace == ndJsonDeserialize("trace.ndjson")

TInit ==
    /\ kind = "req" /\ pairs = <<>> /\ body = 0 /\ src = "none"
    /\ pc = "trace" /\ i = 0 /\ nn = 0 /\ buf = 0 /\ todo = <<>> /\ direct = FALSE /\ m = 0
    /\ WireIdle /\ RespIdle
    /\ l = 1

IsEvent(e) == l <= Len(Trace) /\ Trace[l].ev = e /\ l' = l + 1

TCase ==
    /\ IsEvent("case")
    /\ pairs' = Trace[l].pairs /\ body' = Trace[l].body
    /\ pc' = "trace"
    /\ phase' = "idle" /\ pBytes' = 0 /\ sBytes' = 0 /\ maxLen' = 0 /\ nrec' = 0 /\ wireOK' = TRUE /\ unaligned' = 0
    /\ UNCHANGED <<kind, src, i, nn, buf, todo, direct, m, respvars>>

TRec ==
    /\ IsEvent("rec")
    /\ WireRec(Trace[l].t, Trace[l].n, Trace[l].pad)
    /\ UNCHANGED <<casevars, reqvars, respvars>>

TEof ==                                  \* the client is done: Delivered must hold from here on
    /\ IsEvent("eof")
    /\ pc' = "done"
    /\ UNCHANGED <<casevars, i, nn, buf, todo, direct, m, wirevars, respvars>>

TNext == TCase \/ TRec \/ TEof
TSpec == TInit /\ [][TNext]_<<vars, l>>

Constr == TLCSet(1, IF l > TLCGet(1) THEN l ELSE TLCGet(1))
Accepted == IF TLCGet(1) = Len(Trace) + 1 THEN TRUE
            ELSE Print(<<"REJECTED at event", TLCGet(1), Trace[TLCGet(1)]>>, FALSE)
ASSUME TLCSet(1, 0)
=============================================================================
