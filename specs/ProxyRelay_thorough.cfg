CONSTANT HopTest = "present"
CONSTANT ConnLines = "all"
CONSTANT MaxPath = 6
CONSTANT Statuses = {200, 201, 204, 301, 404, 500, 503}
CONSTANT NetHTTP = "ideal"
CONSTANT Attempts = "fresh"
INIT InitAll
NEXT Next
INVARIANT TypeOK
INVARIANT BackendHeaders
INVARIANT BackendXFF
INVARIANT BackendMethodQueryBody
INVARIANT BackendPath
INVARIANT AttemptsAlike
INVARIANT ClientResponse
INVARIANT Emit
CHECK_DEADLOCK FALSE
