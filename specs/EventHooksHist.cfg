CONSTANTS MaxOps = 4
 MaxLive = 2
 CfgNames = {"none", "none2", "sb", "sn", "db", "dn", "cb", "cn", "sf", "sx", "snx", "snf", "mix", "mix2"}
 MaxSigs = 3
 EarlyRestart = FALSE
SPECIFICATION HSpec
INVARIANT HEmit
CHECK_DEADLOCK FALSE
