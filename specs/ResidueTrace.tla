---------------------------- MODULE ResidueTrace ----------------------------
(* Validates what the harness observed of the real process around every load / validate /    *)
(* reload attempt against Residue.tla: call and return are logged, the stages in between are  *)
(* inferred (silent steps), and after every return the observed process-global state          *)
(* (listening sockets from /proc/self/net/tcp, event hooks, instance count, which generation  *)
(* the base site answers with) must equal the specification's.                                *)
EXTENDS Residue

VARIABLE l
Trace == ndJsonDeserialize("trace.ndjson")
tvars == <<vars, l>>
E == Trace[l]
IsEvent(e) == l <= Len(Trace) /\ Trace[l].ev = e /\ l' = l + 1
SetOf(sq) == {sq[i] : i \in 1..Len(sq)}

TInit == Init /\ l = 1
TCall == IsEvent("call") /\ Call([s |-> E.s, k |-> E.k])
TRet == IsEvent("ret") /\ pc = "ret" /\ res = E.res /\ Return
TObs == /\ IsEvent("obs") /\ pc = "idle"
        /\ bound = SetOf(E.bound) /\ hooks = E.hooks /\ insts = E.insts /\ basegen = E.basegen
        /\ UNCHANGED vars
TCleanup == IsEvent("cleanup") /\ Cleanup
TRebase == IsEvent("rebase") /\ Rebase
TReset == /\ IsEvent("reset")
          /\ hist' = <<>> /\ pc' = "idle" /\ att' = NoAtt /\ res' = "none" /\ extra' = FALSE
          /\ bound' = {"base"} /\ htlock' = "free" /\ insts' = 1
          /\ hooks' = E.hooks /\ basegen' = E.basegen      \* hooks and generations accumulate over the process
          /\ snap' = [bound |-> {"base"}, hooks |-> E.hooks, insts |-> 1, htlock |-> "free", basegen |-> E.basegen]
Silent == UNCHANGED l /\ (Parse \/ EarlySetup \/ OnSetup \/ LateSetup \/ StartupCb \/ Listen1 \/ Listen2 \/ Commit \/ Fail)

TNext == TCall \/ TRet \/ TObs \/ TCleanup \/ TRebase \/ TReset \/ Silent
TSpec == TInit /\ [][TNext]_tvars

Constr == TLCSet(1, IF l > TLCGet(1) THEN l ELSE TLCGet(1))
Accepted == IF TLCGet(1) = Len(Trace) + 1 THEN TRUE
            ELSE Print(<<"REJECTED at event", TLCGet(1), Trace[TLCGet(1)]>>, FALSE)
ASSUME TLCSet(1, 0)
=============================================================================
