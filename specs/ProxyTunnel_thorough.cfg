CONSTANTS MaxB = 3
 MaxOps = 0
 ReqKinds = {"ws", "wska", "plain", "ka", "close"}
 Presets = {TRUE, FALSE}
 Transps = {TRUE, FALSE}
 MCs = {1}
 Statuses = {101, 200, 403}
 Splits = "all"
 FwdBuffered = TRUE
 FlushOn = TRUE
 CloseDeclined = TRUE
SPECIFICATION Spec
VIEW view
INVARIANTS TypeOK TunnelTransparent NoUpgradeHeadersOnPlainRequests CountedWhileOpen ReturnedMeansClosed DeclinedIsOrdinary DeclinedConnClosed
CHECK_DEADLOCK FALSE
