CONSTANT HopTest = "present"
CONSTANT ConnLines = "all"
CONSTANT MaxPath = 5
CONSTANT Statuses = {200, 204, 404, 503}
CONSTANT NetHTTP = "ideal"
CONSTANT Attempts = "fresh"
INIT InitAll
NEXT Next
INVARIANT TypeOK
INVARIANT BackendHeaders
INVARIANT BackendXFF
INVARIANT BackendMethodQueryBody
INVARIANT BackendPath
INVARIANT AttemptsAlike
INVARIANT ClientResponse
INVARIANT Emit
CHECK_DEADLOCK FALSE
