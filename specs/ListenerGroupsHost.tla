-------------------------- MODULE ListenerGroupsHost --------------------------
(* ListenerGroups.tla under a third name (see ListenerGroups3.tla): the configurations loaded   *)
(* with a -host flag and a -port flag that no key names (ListenerGroupsHost_thorough.cfg).       *)
EXTENDS ListenerGroups
=============================================================================
