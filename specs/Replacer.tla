------------------------------ MODULE Replacer ------------------------------
(***************************************************************************)
(* C20 - placeholder expansion is total and single-pass.                   *)
(*                                                                         *)
(* Operational part: caskethttp/httpserver/replacer.go replacer.Replace    *)
(* as the state machine it is: CheckAny (the ContainsAny shortcut),        *)
(* FindStart / FindEnd (one iteration each of the two inner search loops   *)
(* with idxOffset), Substitute (unescape, getSubstitution, append, strip   *)
(* the scanned part), Finish (append the unscanned rest).                  *)
(*                                                                         *)
(* Formats are sequences of symbols:  "{" "}" "\\" and a literal character *)
(* "t" are single bytes; "M" ">H" "?q" "~c" "U" stand for the byte strings *)
(* method, >X-In, ?q, ~c, nosuch (no braces or backslashes in them), so    *)
(* {M} is {method}, {>H} the request header X-In, {?q} the query argument  *)
(* q, {~c} the cookie c, {U} an unknown placeholder.  The request-         *)
(* controlled value V (header X-In and query argument q; the cookie gets V *)
(* without backslashes, which a cookie cannot carry) is drawn from the     *)
(* SAME alphabet, so it can contain placeholder syntax.                    *)
(*                                                                         *)
(* Declarative part:                                                       *)
(*  SinglePass  - the scan is run twice in lock-step, once appending the   *)
(*                real values (res) and once opaque marks "@"/"@c" (tpl):  *)
(*                res is tpl with the marks replaced by the values, i.e.   *)
(*                request text is inserted verbatim, never expanded, and   *)
(*                no scanning decision depends on it.                      *)
(*  MatchesGrammar - res is what the grammar says: the format is a         *)
(*                sequence of literal runs and placeholders delimited by   *)
(*                the first unescaped "{" and the next unescaped "}";      *)
(*                UnknownIsEmptyMarker and EscapedStayLiteral are its two  *)
(*                value clauses (PhValue, LitValue).                       *)
(*  Total       - every scan terminates (and no index is out of range:     *)
(*                TLC would stop on it).                                   *)
(***************************************************************************)
EXTENDS Naturals, Sequences, FiniteSets, TLC, Json

CONSTANTS MaxFmt,      \* formats have 1..MaxFmt symbols
          Values       \* the request-controlled values explored

Sym == {"{", "}", "\\", "t", "M", ">H", "?q", "~c", "U"}
\* adversarial request values (cfg: Values <- AdvValues): placeholder syntax, escapes, lone braces
AdvValues == { <<"t">>, <<"{", "M", "}">>, <<"{", ">H", "}">>, <<"{", "U", "}">>, <<"\\", "{">>, <<"}">>, <<"{">>,
               <<"t", "\\">>,
               <<"%">> }     \* "%" stands for the bytes "%s": text that means something to a later formatting pass
BS == "\\"

RECURSIVE FmtsOfLen(_)
FmtsOfLen(n) == IF n = 0 THEN {<< >>} ELSE {Append(f, c) : f \in FmtsOfLen(n - 1), c \in Sym}
Formats == UNION {FmtsOfLen(n) : n \in 1..MaxFmt}

NoBS(v) == SelectSeq(v, LAMBDA c : c # BS)

\* ---- pieces of the code -----------------------------------------------------------------
RECURSIVE UnescOne(_, _)
\* strings.Replace(x, "\\"+b, b, -1): leftmost, non-overlapping
UnescOne(x, b) == IF Len(x) < 2 THEN x
                  ELSE IF x[1] = BS /\ x[2] = b THEN <<b>> \o UnescOne(SubSeq(x, 3, Len(x)), b)
                  ELSE <<x[1]>> \o UnescOne(Tail(x), b)
UnescapeBraces(x) == UnescOne(UnescOne(x, "{"), "}")
TrimLeadBS(x) == IF x # << >> /\ x[1] = BS THEN Tail(x) ELSE x       \* strings.TrimPrefix(.., "\\")

\* first index k of c in x, 0 if none (strings.Index + 1)
IndexOf(x, c) == IF \E k \in 1..Len(x) : x[k] = c THEN CHOOSE k \in 1..Len(x) : x[k] = c /\ \A j \in 1..(k - 1) : x[j] # c ELSE 0

\* getSubstitution(key) for key = "{" inner "}" (already unescaped); v = value of header/query, vc = of the cookie
GetSub(key, v, vc, marker) ==
    LET inner == SubSeq(key, 2, Len(key) - 1) IN
    IF inner = <<"M">> THEN <<"G">>                                  \* {method} -> GET
    ELSE IF inner = <<">H">> THEN v                                  \* the header, joined values
    ELSE IF inner # << >> /\ inner[1] = "?q"                         \* key[1] == '?': query.Get(name)
         THEN IF Len(inner) = 1 THEN v ELSE << >>                    \*   (an absent argument gives "", not the marker)
    ELSE IF inner = <<"~c">> THEN vc
    ELSE marker                                                      \* everything else: r.emptyValue

VARIABLES fmt, V, s, res, tpl, pc, off, st, en
vars == <<fmt, V, s, res, tpl, pc, off, st, en>>

Marker == <<"-">>
Opaque == <<"@">>
OpaqueC == <<"@c">>

Init ==
    /\ fmt \in Formats /\ V \in Values
    /\ s = fmt /\ res = << >> /\ tpl = << >>
    /\ pc = "check" /\ off = 0 /\ st = 0 /\ en = 0

\* if !strings.ContainsAny(s, "{}") { return s }
CheckAny ==
    /\ pc = "check"
    /\ IF IndexOf(s, "{") = 0 /\ IndexOf(s, "}") = 0
         THEN res' = s /\ tpl' = s /\ pc' = "done"
         ELSE pc' = "findStart" /\ UNCHANGED <<res, tpl>>
    /\ UNCHANGED <<fmt, V, s, off, st, en>>

\* one iteration of "find first unescaped opening brace"
FindStart ==
    /\ pc = "findStart"
    /\ LET space == SubSeq(s, off + 1, Len(s))
           j == IndexOf(space, "{") IN
       IF j = 0 THEN pc' = "finish" /\ UNCHANGED <<off, st>>                 \* no more placeholders
       ELSE IF j = 1 \/ space[j - 1] # BS
            THEN st' = off + j /\ off' = 0 /\ pc' = "findEnd"               \* not escaped
            ELSE off' = off + j /\ pc' = pc /\ UNCHANGED st                  \* escaped: search the rest
    /\ UNCHANGED <<fmt, V, s, res, tpl, en>>

\* one iteration of "find first unescaped closing brace"
FindEnd ==
    /\ pc = "findEnd"
    /\ LET space == SubSeq(s, st + off, Len(s))
           j == IndexOf(space, "}") IN
       IF j = 0 THEN pc' = "finish" /\ UNCHANGED <<off, en>>                 \* unpaired placeholder
       ELSE IF j = 1 \/ space[j - 1] # BS
            THEN en' = st + off + j - 1 /\ off' = 0 /\ pc' = "subst"
            ELSE off' = off + j /\ pc' = pc /\ UNCHANGED en
    /\ UNCHANGED <<fmt, V, s, res, tpl, st>>

Substitute ==
    /\ pc = "subst"
    /\ LET key == UnescapeBraces(SubSeq(s, st, en))
           pre == TrimLeadBS(UnescapeBraces(SubSeq(s, 1, st - 1))) IN
       /\ res' = res \o pre \o GetSub(key, V, NoBS(V), Marker)
       /\ tpl' = tpl \o pre \o GetSub(key, Opaque, OpaqueC, Marker)
    /\ s' = SubSeq(s, en + 1, Len(s))
    /\ pc' = "findStart" /\ off' = 0
    /\ UNCHANGED <<fmt, V, st, en>>

Finish ==
    /\ pc = "finish"
    /\ res' = res \o UnescapeBraces(s)
    /\ tpl' = tpl \o UnescapeBraces(s)
    /\ pc' = "done"
    /\ UNCHANGED <<fmt, V, s, off, st, en>>

Next == CheckAny \/ FindStart \/ FindEnd \/ Substitute \/ Finish \/ (pc = "done" /\ UNCHANGED vars)
Spec == Init /\ [][Next]_vars /\ WF_vars(Next)

\* ---- properties --------------------------------------------------------------------------
RECURSIVE Fill(_, _, _)
Fill(t, v, vc) == IF t = << >> THEN << >>
                  ELSE (IF t[1] = "@" THEN v ELSE IF t[1] = "@c" THEN vc ELSE <<t[1]>>) \o Fill(Tail(t), v, vc)
SinglePass == pc = "done" => res = Fill(tpl, V, NoBS(V))

\* the grammar of a format, independent of the loop above
Esc(f, k) == k > 1 /\ f[k - 1] = BS
NextOpen(f, p) == IF \E k \in p..Len(f) : f[k] = "{" /\ ~Esc(f, k)
                  THEN CHOOSE k \in p..Len(f) : f[k] = "{" /\ ~Esc(f, k) /\ \A j \in p..(k - 1) : ~(f[j] = "{" /\ ~Esc(f, j)) ELSE 0
NextClose(f, a) == IF \E k \in (a + 1)..Len(f) : f[k] = "}" /\ ~Esc(f, k)
                   THEN CHOOSE k \in (a + 1)..Len(f) : f[k] = "}" /\ ~Esc(f, k) /\ \A j \in (a + 1)..(k - 1) : ~(f[j] = "}" /\ ~Esc(f, j)) ELSE 0
\* EscapedStayLiteral: a literal run contributes itself with \{ \} reduced to { } (a run in front of
\* a placeholder additionally loses one leading backslash - TrimPrefix in the code, not demanded by C20)
LitValue(x, last) == IF last THEN UnescapeBraces(x) ELSE TrimLeadBS(UnescapeBraces(x))
\* UnknownIsEmptyMarker: a placeholder contributes its value; an unknown one the marker
PhValue(k, v, vc) == GetSub(UnescapeBraces(k), v, vc, Marker)
RECURSIVE Expand(_, _, _, _)
Expand(f, p, v, vc) ==
    LET a == NextOpen(f, p)
        b == IF a = 0 THEN 0 ELSE NextClose(f, a) IN
    IF a = 0 \/ b = 0 THEN LitValue(SubSeq(f, p, Len(f)), TRUE)
    ELSE LitValue(SubSeq(f, p, a - 1), FALSE) \o PhValue(SubSeq(f, a, b), v, vc) \o Expand(f, b + 1, v, vc)
HasBrace(f) == \E k \in 1..Len(f) : f[k] \in {"{", "}"}
MatchesGrammar == pc = "done" => res = IF HasBrace(fmt) THEN Expand(fmt, 1, V, NoBS(V)) ELSE fmt
Total == <>(pc = "done")

\* one CASE per format: the template (marks for the request values) - the harness fills in any value
Emit == (pc = "done" /\ V = CHOOSE v \in Values : TRUE) => PrintT(<<"CASE", ToJson([fmt |-> fmt, tpl |-> tpl])>>)
=============================================================================
