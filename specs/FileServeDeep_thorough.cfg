CONSTANT L = 4
CONSTANT Alphabet <- CoreAlphabet
CONSTANT AESets <- SomeAE
CONSTANT Modes <- SomeModes
CONSTANT Browses <- SomeBrowses
CONSTANT GFiles <- C02Files
CONSTANT GDirs <- C02Dirs
CONSTANT HiddenSet <- C02Hidden
CONSTANT Jail = TRUE
CONSTANT BrowseTrims = TRUE
CONSTANT WalkerHides = TRUE
CONSTANT PrefixKeepsPath = TRUE
SPECIFICATION Spec
INVARIANT TypeOK
INVARIANT InsideRoot
INVARIANT NoHidden
INVARIANT RegularOnly
INVARIANT ServedIsNamed
INVARIANT SameOriginRedirect
INVARIANT PrefixIndependent
INVARIANT RunAgrees
CHECK_DEADLOCK FALSE
