CONSTANTS MaxOps = 2
 MaxLive = 2
 CfgNames = {"none", "sn", "mix"}
 MaxSigs = 2
 EarlyRestart = FALSE
SPECIFICATION Spec
INVARIANTS TypeOK
PROPERTIES EmissionComplete EmissionEnds EventuallyExits
CHECK_DEADLOCK FALSE
