CONSTANT MaxLines = 4
CONSTANT SampleAbove = 4
CONSTANT SampleOneIn = 1
CONSTANT PoolSel = "twins"
CONSTANT ExecMode = "canon"
CONSTANT CompileMode = "outerfirst"
INIT Init
NEXT AddLine
INVARIANT Emit
CHECK_DEADLOCK FALSE
