CONSTANT K = 2
CONSTANT Lims = {2, 3}
CONSTANT Record = FALSE
CONSTANT Aborts = FALSE
CONSTANT MaxPost = 0
CONSTANT Modes = {"handler"}
INIT InitEmit
NEXT Stutter
INVARIANT EmitTable
CHECK_DEADLOCK FALSE
