\* The design as found (not run by ./check): the connection dialled for an upgrade that the backend
\* declines is never closed. TLC refutes DeclinedConnClosed.
\* The other two switches are there to show that the guarantees are not vacuous:
\*   FwdBuffered = FALSE  (the bytes in the hijacked reader are not forwarded)  -> TunnelTransparent is violated
\*   FlushOn = FALSE      (FlushInterval 0; with ProxyTunnelLive.cfg)            -> StreamedProgressively is violated
CONSTANTS MaxB = 2
 MaxOps = 0
 ReqKinds = {"wska", "close"}
 Presets = {TRUE, FALSE}
 Transps = {TRUE}
 MCs = {1}
 Statuses = {101, 403}
 Splits = "all"
 FwdBuffered = TRUE
 FlushOn = TRUE
 CloseDeclined = FALSE
SPECIFICATION Spec
VIEW view
INVARIANTS TypeOK TunnelTransparent NoUpgradeHeadersOnPlainRequests CountedWhileOpen ReturnedMeansClosed DeclinedIsOrdinary DeclinedConnClosed
CHECK_DEADLOCK FALSE
