------------------------- MODULE InternalRedirect -------------------------
(***************************************************************************)
(* The `internal` directive (caskethttp/internalsrv/internal.go), step by  *)
(* step.  Protect.tla (C03) knows `internal` only as "a request for a path *)
(* under an internal path is answered 404"; this module adds the second    *)
(* half of the middleware, the X-Accel-Redirect mechanism:                 *)
(*                                                                         *)
(*   Internal.ServeHTTP(w, r)                                              *)
(*     for prefix in i.Paths: Path(r.URL.Path).Matches(prefix) -> 404      *)
(*                                                  CheckPrefix            *)
(*     iw := internalResponseWriter{w}; Next.ServeHTTP(iw, r)  CallNext    *)
(*     for c < maxRedirectCount && X-Accel-Redirect set in w.Header():     *)
(*         r.URL.Path = header; iw.ClearHeader(); Next.ServeHTTP(iw, r)    *)
(*                                                  LoopRedirect           *)
(*     still set -> ClearHeader, 500                TooMany                *)
(*     else the status of the last call             Return                 *)
(*   internalResponseWriter.WriteHeader / Write: dropped while the header  *)
(*     is set                                       IWWriteHeader, IWWrite *)
(*   internalResponseWriter.Flush                   IWFlush                *)
(*   ClearHeader: X-Accel-Redirect, Content-Length, Content-Encoding are   *)
(*     deleted; every OTHER header of the dropped response stays in the    *)
(*     map and is sent with the final response (the package's own test     *)
(*     demands that for Content-Disposition): modelled as hdr.marks,       *)
(*     observed, not judged.                                               *)
(*   the server (httpserver.Server.ServeHTTP) writes "NNN text" for a      *)
(*     returned status >= 400                       ServerFinish           *)
(*                                                                         *)
(* The handler below the middleware (Next) is the environment: a program   *)
(* of calls on the response writer.  Three kinds of paths:                 *)
(*   backend paths ("ba" /b/a, "bc" /b/c, "bp" /b/priv/p, "bq" /b/priv/q): *)
(*     `proxy /b` - RoundTrip (the request reaches the backend: hits; the  *)
(*     request body is consumed by the first round trip, the *same*        *)
(*     request object is re-issued, so a second round trip of a request    *)
(*     with a declared body fails in net/http's transport -> 502), then    *)
(*     copyHeader / WriteHeader / (Flush when a trailer was announced) /   *)
(*     copyResponse -> Write.  What a backend path answers - a body, an    *)
(*     X-Accel-Redirect to some path (empty body / with a body / chunked   *)
(*     with an announced trailer, i.e. with a Flush) - is chosen the first *)
(*     time the path is hit: TLC enumerates exactly the redirect graphs    *)
(*     that are reachable, cycles included.                                *)
(*   static files ("f" /int/f internal, "g" /pub/g public): GET/HEAD only  *)
(*     (405 otherwise: the re-issued request keeps the client's method).   *)
(*   "nx" /int/nx: no such file (404 from the file server).                *)
(*   `internal /int` and `internal /b/priv`.                               *)
(*                                                                         *)
(* FlushGuard = TRUE is the repaired design (internal.go, Flush is dropped *)
(* like Write while a redirect is pending); with FALSE (the tree as found: *)
(* Flush inherited from ResponseWriterWrapper) TLC refutes                 *)
(* ClientNeverSeesAccelHeader in 9 steps - see notes/InternalRedirect.md.  *)
(***************************************************************************)
EXTENDS Integers, Sequences, FiniteSets, TLC, Json, PathMatch

CONSTANTS MaxRedirects,  \* maxRedirectCount
          Backends,      \* the backend paths of this run
          RedirKinds,    \* subset of {"redir", "both", "flush"}
          Methods,       \* client methods
          FlushGuard     \* internalResponseWriter.Flush ignores the call while a redirect is pending

None == "-"
Statics == {"f", "g", "nx"}
Nodes == Backends \cup Statics
ASSUME Backends \subseteq {"ba", "bc", "bp", "bq"} /\ RedirKinds \subseteq {"redir", "both", "flush"}
ASSUME MaxRedirects \in Nat /\ FlushGuard \in BOOLEAN

PathOf(n) == CASE n = "ba" -> Rooted(<<"b", "a">>)
               [] n = "bc" -> Rooted(<<"b", "c">>)
               [] n = "bp" -> Rooted(<<"b", "priv", "p">>)
               [] n = "bq" -> Rooted(<<"b", "priv", "q">>)
               [] n = "f"  -> Rooted(<<"int", "f">>)
               [] n = "g"  -> Rooted(<<"pub", "g">>)
               [] n = "nx" -> Rooted(<<"int", "nx">>)

\* i.Paths, in the order of the Casketfile
Prefixes == <<Rooted(<<"int">>), Rooted(<<"b", "priv">>)>>
IsInternalPath(p) == \E i \in 1..Len(Prefixes) : Matches(p, Prefixes[i])
InternalNodes == {n \in Nodes : IsInternalPath(PathOf(n))}
ASSUME InternalNodes = Nodes \cap {"bp", "bq", "f", "nx"}

\* how a client may spell the path of an internal node (all of them must be refused)
Spellings == {"plain", "dots", "dbl", "slash"}
Spelled(n, sp) == LET s == PathOf(n).segs IN
    CASE sp = "plain" -> Rooted(s)
      [] sp = "dots"  -> Rooted(<<"nx", "..">> \o s)        \* /nx/../int/f
      [] sp = "dbl"   -> Rooted(<<"">> \o s)                \* //int/f
      [] sp = "slash" -> Rooted(<<".">> \o s \o <<"">>)     \* /./int/f/

\* status of a backend path's own answer / of its answer when that also carries X-Accel-Redirect
FS(n) == CASE n = "ba" -> 200 [] n = "bc" -> 201 [] n = "bp" -> 202 [] n = "bq" -> 404
DS(n) == CASE n = "ba" -> 403 [] n = "bc" -> 410 [] n = "bp" -> 418 [] n = "bq" -> 451

Unset == [k |-> "unset", to |-> None]
Beh == {[k |-> "body", to |-> None]} \cup {[k |-> kk, to |-> t] : kk \in RedirKinds, t \in Nodes}

\* ---- the handler below the middleware: a program of calls on the response writer ------------
Op(o, n, code, cl, ce, xar, mark) == [op |-> o, n |-> n, code |-> code, cl |-> cl, ce |-> ce, xar |-> xar, mark |-> mark]
RT(n)       == Op("rt", n, 0, FALSE, FALSE, None, FALSE)
WH(n, code) == Op("wh", n, code, FALSE, FALSE, None, FALSE)
W(n)        == Op("w", n, 0, FALSE, FALSE, None, FALSE)
Fl(n)       == Op("fl", n, 0, FALSE, FALSE, None, FALSE)
Ret(n, code) == Op("ret", n, code, FALSE, FALSE, None, FALSE)
Hdr(n, cl, ce, xar, mark) == Op("hdr", n, 0, cl, ce, xar, mark)

\* ReverseProxy.ServeHTTP after the round trip: copyHeader, WriteHeader, [Flush], copyResponse, return nil
BackendProg(n, b) ==
    CASE b.k = "body"  -> <<Hdr(n, TRUE, FALSE, None, TRUE), WH(n, FS(n)), W(n), Ret(n, 0)>>
      [] b.k = "redir" -> <<Hdr(n, TRUE, TRUE, b.to, TRUE), WH(n, DS(n)), Ret(n, 0)>>
      [] b.k = "both"  -> <<Hdr(n, TRUE, TRUE, b.to, TRUE), WH(n, DS(n)), W(n), Ret(n, 0)>>
      [] b.k = "flush" -> <<Hdr(n, FALSE, TRUE, b.to, TRUE), WH(n, DS(n)), Fl(n), W(n), Ret(n, 0)>>
\* staticfiles.FileServer.ServeHTTP
FileProg(n, method) ==
    IF method \notin {"GET", "HEAD"} THEN <<Ret(n, 405)>>
    ELSE IF n = "nx" THEN <<Ret(n, 404)>>
    ELSE <<Hdr(n, TRUE, FALSE, None, FALSE), WH(n, 200), W(n), Ret(n, 200)>>
Entry(r) == IF r.node \in Backends THEN <<RT(r.node)>> ELSE FileProg(r.node, r.method)

NoHdr == [xar |-> None, cl |-> None, ce |-> None, marks |-> {}]
\* internalResponseWriter.ClearHeader
Clear(h) == [h EXCEPT !.xar = None, !.cl = None, !.ce = None]

VARIABLES start,   \* the client's request (never changes after ClientRequest)
          graph,   \* what each backend path answers (Unset until first hit)
          rq,      \* the *http.Request as the middleware mutates it
          pc, k, c,
          hdr,     \* w.Header(), the one map shared by every call
          out,     \* what has gone to the client: committed, status, header snapshot, body tokens
          prog,    \* remaining calls of the running handler
          status,  \* status returned by the last Next.ServeHTTP
          ret,     \* status returned by Internal.ServeHTTP
          hits,    \* history: requests that reached the backend
          via,     \* history: redirects followed
          disc,    \* history: paths whose WriteHeader/Write calls were dropped
          calls,   \* history: number of Next.ServeHTTP calls
          tooMany
vars == <<start, graph, rq, pc, k, c, hdr, out, prog, status, ret, hits, via, disc, calls, tooMany>>

NoReq == [node |-> None, path |-> Rooted(<<>>), method |-> None, hasBody |-> FALSE, bodyLeft |-> FALSE, cxar |-> None]
NoOut == [committed |-> FALSE, status |-> 0, chdr |-> NoHdr, body |-> <<>>]

Init == /\ start = [node |-> None, sp |-> None, method |-> None, hasBody |-> FALSE, cxar |-> None]
        /\ graph = [n \in Backends |-> Unset]
        /\ rq = NoReq /\ pc = "client" /\ k = 1 /\ c = 0 /\ hdr = NoHdr /\ out = NoOut /\ prog = <<>>
        /\ status = 0 /\ ret = 0 /\ hits = <<>> /\ via = <<>> /\ disc = {} /\ calls = 0 /\ tooMany = FALSE

\* the client: any path (internal ones in four spellings), GET / POST without / POST with a body,
\* with or without a client-supplied X-Accel-Redirect REQUEST header naming the internal file
ClientRequest ==
    /\ pc = "client"
    /\ \E n \in Nodes, sp \in Spellings, m \in Methods, hb \in BOOLEAN, cx \in {None, "f"} :
          /\ sp # "plain" => n \in InternalNodes
          /\ hb => m = "POST"
          /\ start' = [node |-> n, sp |-> sp, method |-> m, hasBody |-> hb, cxar |-> cx]
          /\ rq' = [node |-> n, path |-> Spelled(n, sp), method |-> m, hasBody |-> hb, bodyLeft |-> hb, cxar |-> cx]
    /\ pc' = "check" /\ k' = 1
    /\ UNCHANGED <<graph, c, hdr, out, prog, status, ret, hits, via, disc, calls, tooMany>>

\* one iteration of `for _, prefix := range i.Paths`
CheckPrefix ==
    /\ pc = "check" /\ k <= Len(Prefixes)
    /\ IF Matches(rq.path, Prefixes[k])
         THEN ret' = 404 /\ pc' = "ret" /\ k' = k
         ELSE k' = k + 1 /\ UNCHANGED <<ret, pc>>
    /\ UNCHANGED <<start, graph, rq, c, hdr, out, prog, status, hits, via, disc, calls, tooMany>>

\* status, err := i.Next.ServeHTTP(iw, r)
CallNext ==
    /\ pc = "check" /\ k > Len(Prefixes)
    /\ pc' = "handler" /\ prog' = Entry(rq) /\ calls' = calls + 1
    /\ UNCHANGED <<start, graph, rq, k, c, hdr, out, status, ret, hits, via, disc, tooMany>>

AtOp(o) == pc = "handler" /\ prog # <<>> /\ Head(prog).op = o

\* proxy: transport.RoundTrip(outreq).  A request that declares a body whose reader is already at
\* EOF is refused by the transport (502; a truncated request may reach the backend, its answer is
\* never used); otherwise the backend is hit
\* (and, first time, decides what this path answers) and the body is consumed.
RoundTrip ==
    /\ AtOp("rt")
    /\ LET n == Head(prog).n IN
       IF rq.hasBody /\ ~rq.bodyLeft
         THEN /\ prog' = <<Ret(n, 502)>>
              /\ \E seen \in BOOLEAN :   \* the header block may or may not have left before the transport gave up
                    hits' = IF seen THEN Append(hits, [node |-> n, method |-> rq.method, body |-> FALSE, cxar |-> rq.cxar, broken |-> TRUE])
                            ELSE hits
              /\ UNCHANGED <<graph, rq>>
         ELSE \E b \in (IF graph[n] = Unset THEN Beh ELSE {graph[n]}) :
                 /\ graph' = [graph EXCEPT ![n] = b]
                 /\ hits' = Append(hits, [node |-> n, method |-> rq.method, body |-> rq.bodyLeft, cxar |-> rq.cxar, broken |-> FALSE])
                 /\ rq' = [rq EXCEPT !.bodyLeft = FALSE]
                 /\ prog' = BackendProg(n, b)
    /\ UNCHANGED <<start, pc, k, c, hdr, out, status, ret, via, disc, calls, tooMany>>

\* the handler fills w.Header() (copyHeader / ServeContent): iw.Header() IS w.Header()
HSetHeader ==
    /\ AtOp("hdr")
    /\ LET o == Head(prog) IN
       hdr' = [xar   |-> IF o.xar # None THEN o.xar ELSE hdr.xar,
               cl    |-> IF o.cl THEN o.n ELSE hdr.cl,
               ce    |-> IF o.ce THEN o.n ELSE hdr.ce,
               marks |-> IF o.mark THEN hdr.marks \cup {o.n} ELSE hdr.marks]
    /\ prog' = Tail(prog)
    /\ UNCHANGED <<start, graph, rq, pc, k, c, out, status, ret, hits, via, disc, calls, tooMany>>

Pending == hdr.xar # None        \* isInternalRedirect(w)
Commit(code) == [committed |-> TRUE, status |-> code, chdr |-> hdr, body |-> out.body]

\* internalResponseWriter.WriteHeader
IWWriteHeader ==
    /\ AtOp("wh")
    /\ IF Pending THEN disc' = disc \cup {Head(prog).n} /\ UNCHANGED out
       ELSE /\ out' = IF out.committed THEN out ELSE Commit(Head(prog).code)
            /\ UNCHANGED disc
    /\ prog' = Tail(prog)
    /\ UNCHANGED <<start, graph, rq, pc, k, c, hdr, status, ret, hits, via, calls, tooMany>>

\* internalResponseWriter.Write
IWWrite ==
    /\ AtOp("w")
    /\ IF Pending THEN disc' = disc \cup {Head(prog).n} /\ UNCHANGED out
       ELSE /\ out' = [(IF out.committed THEN out ELSE Commit(200)) EXCEPT !.body = Append(@, Head(prog).n)]
            /\ UNCHANGED disc
    /\ prog' = Tail(prog)
    /\ UNCHANGED <<start, graph, rq, pc, k, c, hdr, status, ret, hits, via, calls, tooMany>>

\* Flush: on the tree as found the embedded wrapper's Flush goes straight to the connection and
\* commits status 200 with the header map as it is - X-Accel-Redirect included
IWFlush ==
    /\ AtOp("fl")
    /\ IF FlushGuard /\ Pending THEN UNCHANGED out
       ELSE out' = IF out.committed THEN out ELSE Commit(200)
    /\ prog' = Tail(prog)
    /\ UNCHANGED <<start, graph, rq, pc, k, c, hdr, status, ret, hits, via, disc, calls, tooMany>>

HReturn ==
    /\ AtOp("ret")
    /\ status' = Head(prog).code /\ prog' = <<>> /\ pc' = "loop"
    /\ UNCHANGED <<start, graph, rq, k, c, hdr, out, ret, hits, via, disc, calls, tooMany>>

\* r.URL.Path = header; iw.ClearHeader(); status, err = i.Next.ServeHTTP(iw, r)
\* (no second look at i.Paths: reaching internal paths is the point; method, headers and the
\* already consumed body reader of r stay as they are)
LoopRedirect ==
    /\ pc = "loop" /\ c < MaxRedirects /\ Pending
    /\ rq' = [rq EXCEPT !.node = hdr.xar, !.path = PathOf(hdr.xar)]
    /\ via' = Append(via, [from |-> rq.node, to |-> hdr.xar])
    /\ hdr' = Clear(hdr)
    /\ c' = c + 1 /\ calls' = calls + 1
    /\ pc' = "handler" /\ prog' = Entry(rq')
    /\ UNCHANGED <<start, graph, k, out, status, ret, hits, disc, tooMany>>

\* too many redirect cycles
TooMany ==
    /\ pc = "loop" /\ ~(c < MaxRedirects) /\ Pending
    /\ hdr' = Clear(hdr) /\ ret' = 500 /\ tooMany' = TRUE /\ pc' = "ret"
    /\ UNCHANGED <<start, graph, rq, k, c, out, prog, status, hits, via, disc, calls>>

Return ==
    /\ pc = "loop" /\ ~Pending
    /\ ret' = status /\ pc' = "ret"
    /\ UNCHANGED <<start, graph, rq, k, c, hdr, out, prog, status, hits, via, disc, calls, tooMany>>

\* the server: DefaultErrorFunc for a status >= 400; net/http's implicit 200 for a silent handler
ServerFinish ==
    /\ pc = "ret"
    /\ out' = IF ret >= 400
                THEN [(IF out.committed THEN out ELSE Commit(ret)) EXCEPT !.body = Append(@, "err")]
                ELSE IF out.committed THEN out ELSE Commit(200)
    /\ pc' = "done"
    /\ UNCHANGED <<start, graph, rq, k, c, hdr, prog, status, ret, hits, via, disc, calls, tooMany>>

Next == ClientRequest \/ CheckPrefix \/ CallNext \/ RoundTrip \/ HSetHeader \/ IWWriteHeader \/ IWWrite
        \/ IWFlush \/ HReturn \/ LoopRedirect \/ TooMany \/ Return \/ ServerFinish
Spec == Init /\ [][Next]_vars /\ WF_vars(Next)

\* ---- the guarantees ---------------------------------------------------------------------------
Range(s) == {s[i] : i \in 1..Len(s)}
HdrT == [xar : Nodes \cup {None}, cl : Nodes \cup {None}, ce : Nodes \cup {None}, marks : SUBSET Nodes]
TypeOK == /\ pc \in {"client", "check", "handler", "loop", "ret", "done"}
          /\ hdr \in HdrT /\ out.chdr \in HdrT /\ out.committed \in BOOLEAN
          /\ Range(out.body) \subseteq Nodes \cup {"err"}
          /\ c \in 0..MaxRedirects /\ k \in 1..Len(Prefixes) + 1 /\ disc \subseteq Backends

\* the X-Accel-Redirect header itself never reaches the client
ClientNeverSeesAccelHeader == out.committed => out.chdr.xar = None

\* a client that asks for an internal path - in any spelling, with any method, with or without an
\* X-Accel-Redirect header of its own - gets 404 and nothing behind the middleware runs
DirectRequestRefused ==
    (pc = "done" /\ IsInternalPath(Spelled(start.node, start.sp))) =>
        out.status = 404 /\ out.body = <<"err">> /\ calls = 0 /\ hits = <<>>
\* content of an internal path reaches the client only as the target of the LAST redirect of a
\* chain whose every link was issued by the backend in a response (never by the client's request
\* header, which nothing reads, and never by the way the client spells the path)
InternalContentOnlyViaAccel ==
    \A i \in 1..Len(out.body) :
        out.body[i] \in InternalNodes =>
            /\ c > 0 /\ via[c].to = out.body[i] /\ rq.node = out.body[i]
            /\ \A j \in 1..c : /\ via[j].from \in Backends
                               /\ graph[via[j].from].to = via[j].to
                               /\ \E h \in 1..Len(hits) : hits[h].node = via[j].from /\ ~hits[h].broken
            /\ via[1].from = start.node /\ start.node \notin InternalNodes

\* no unbounded recursion: at most 1 + MaxRedirects handler calls; the 500 of "too many" is
\* answered exactly then; a chain that revisits a path (a cycle) always ends that way
BoundedRedirects ==
    /\ calls <= MaxRedirects + 1 /\ c <= MaxRedirects /\ Len(via) = c
    /\ tooMany => (calls = MaxRedirects + 1 /\ c = MaxRedirects)
    /\ pc = "done" => (tooMany <=> (c = MaxRedirects /\ Len(hits) = MaxRedirects + 1 /\ rq.node \in Backends
                                     /\ graph[rq.node].k \in RedirKinds))
    /\ (pc = "done" /\ tooMany) => (out.status = 500 /\ out.body = <<"err">>)
    /\ (pc = "done" /\ \E i, j \in 1..Len(via) : i < j /\ via[i].from = via[j].from) => tooMany

\* status, body bytes and the three "script headers" of a dropped response do not show
DiscardedResponseLeavesNoTrace ==
    pc = "done" => \A d \in disc :
        /\ d \notin Range(out.body)
        /\ out.status # DS(d)
        /\ out.chdr.cl # d /\ out.chdr.ce # d
\* every followed redirect dropped the response that asked for it
RedirectDropsResponse == \A j \in 1..Len(via) : via[j].from \in disc

\* the re-issued request is the client's request with another path: same method, same headers; the
\* body goes to the first backend round trip only
ReissuedRequestShape ==
    /\ \A h \in 1..Len(hits) : hits[h].method = start.method /\ hits[h].cxar = start.cxar
                               /\ (hits[h].body => h = 1 /\ start.hasBody)
                               /\ (hits[h].broken => (h = Len(hits) /\ h > 1 /\ start.hasBody))
    /\ (pc = "done" /\ hits # <<>> /\ hits[Len(hits)].broken) => out.status = 502
    /\ (pc = "done" /\ rq.node \in {"f", "g"} /\ start.method # "GET" /\ ~tooMany /\ calls > 0) => out.status = 405

\* the final response is the last handler's own: its status, its body, its length
FinalIsLastHandlers ==
    (pc = "done" /\ ~tooMany /\ calls > 0 /\ ret < 400) =>
        /\ out.body = <<rq.node>>
        /\ out.chdr.cl = rq.node /\ out.chdr.ce = None
        /\ out.status = (IF rq.node \in Backends THEN FS(rq.node) ELSE 200)

\* once committed, status and header block never change (action property)
CommitOnce == [][out.committed => (out'.committed /\ out'.status = out.status /\ out'.chdr = out.chdr)]_vars
Terminates == <>(pc = "done")

\* ---- case emission: one CASE per terminal state ------------------------------------------------
Emit == pc = "done" =>
    PrintT(<<"CASE", ToJson([
        node |-> start.node, sp |-> start.sp, method |-> start.method, hasBody |-> start.hasBody, cxar |-> start.cxar,
        graph |-> graph,
        status |-> out.status, body |-> out.body, hits |-> hits, via |-> via,
        marks |-> out.chdr.marks, cl |-> out.chdr.cl, ce |-> out.chdr.ce, xar |-> out.chdr.xar,
        disc |-> disc, calls |-> calls, tooMany |-> tooMany, final |-> rq.node])>>)
=============================================================================
