CONSTANTS MaxLines = 2
 MaxArgs = 2
 NEG_SIZE_OK = TRUE
SPECIFICATION Spec
INVARIANTS Defaults LastWins RejectedIff EffectiveLimitPositive
PROPERTIES Terminates
CHECK_DEADLOCK FALSE
