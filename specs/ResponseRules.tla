--------------------------- MODULE ResponseRules ---------------------------
(***************************************************************************)
(* The rule tables of casket's small response-shaping directives           *)
(* (extension of C12; Middleware.tla treats them as opaque wrappers):      *)
(*                                                                         *)
(*   index  request_id  ext  header  errors  status  mime  pprof  expvar    *)
(*   browse                                                                *)
(*                                                                         *)
(* in the order httpserver/plugin.go chains them, in front of a scripted   *)
(* innermost handler ("inner", the harness's test-only directive) and the  *)
(* static file server.  One action per step the code takes:                *)
(*                                                                         *)
(*   AddLine / AddBad        the author writes one more line of the pools  *)
(*   StartSetup              casket.Start: executeDirectives (sampled      *)
(*                            sites only, see Sampled)                     *)
(*   ParseIndex .. ParseBrowse   one line of one directive's setup         *)
(*                            (index/index.go, requestid/setup.go,         *)
(*                            extensions/setup.go, header/setup.go,        *)
(*                            errors/setup.go, status/setup.go,            *)
(*                            mime/setup.go, browse/setup.go,              *)
(*                            pprof/setup.go, expvar/setup.go)             *)
(*   NextDirective           executeDirectives moves on / ends             *)
(*   StartRequest            Server.ServeHTTP hands the request to the     *)
(*                            site's chain                                 *)
(*   RequestID               requestid.Handler.ServeHTTP                   *)
(*   ExtBegin ExtTry         extensions.Ext.ServeHTTP: the os.Stat of the  *)
(*                            path, then one os.Stat per extension         *)
(*   HeaderRule HeaderOp HeaderNext   header.Headers.ServeHTTP: one rule   *)
(*                            tested, one operation (key) applied,         *)
(*                            h.Next.ServeHTTP(rww, r)                     *)
(*   StatusSelect StatusAnswer   ConfigSelector.Select (one rule per       *)
(*                            step), then Status.ServeHTTP's answer        *)
(*   MimeSet                 mime.Mime.ServeHTTP                           *)
(*   Pprof Expvar Browse     the fixed-path handlers / directory listing   *)
(*   Inner                   the innermost test handler runs its script    *)
(*   FsOpen FsIndex FsServe  staticfiles.FileServer.serveFile: open,       *)
(*                            one index page tried, http.ServeContent      *)
(*   Commit                  the first WriteHeader reaches header's        *)
(*                            responseWriterWrapper: deferred deletions    *)
(*   ErrorsPage              a status >= 400 came back unwritten and the   *)
(*                            site has `errors`: errors.ErrorHandler       *)
(*                            writes the error page - it sits INSIDE       *)
(*                            header, so through the wrapper               *)
(*   Fallback                the same without `errors`:                    *)
(*                            DefaultErrorFunc (log's ErrorFunc or         *)
(*                            Server.ServeHTTP) writes on the ORIGINAL     *)
(*                            writer, outside header's wrapper             *)
(*   Net                     net/http finishes the response (sniffing);    *)
(*                            the answer is complete (fin), its id noted   *)
(*   Finish                  the battery is through                        *)
(*                                                                         *)
(* The guarantees are written declaratively in section 6, from the lines   *)
(* AS WRITTEN, and checked as invariants / action properties.              *)
(*                                                                         *)
(* Deliberate deviations: the values of one header key are applied in one  *)
(* step (the inner `for value` loop); a header line's sub-block is parsed  *)
(* in the step of its line; paths are segment lists (all bases and request *)
(* paths are clean, lower-case, and no name of the world extends a base    *)
(* segment, so strings.HasPrefix = segment prefix - ASSUME AlphabetOK);    *)
(* Content-Type values chosen by net/http (sniffing, mime.TypeByExtension  *)
(* of an unlisted extension) are the token "~auto"; the battery is served  *)
(* in its written order on one connection (the harness also sends it in    *)
(* reverse: no answer depends on the order, only fresh ids are numbered).  *)
(***************************************************************************)
EXTENDS Integers, Sequences, FiniteSets, TLC, Json

CONSTANTS MaxLines,      \* a site has at most this many lines of the pools
          Sample2,       \* of the sites with two lines one in Sample2 is set up and served (hash of ids and -seed; 1 = all)
          Sample3,       \* the same for three and more lines
          Extend3        \* only one in Extend3 of the two-line sites is extended by a third line at all (1 = all):
                         \* keeps the enumeration of the quick tier small, the three-line sites are sampled among those

-----------------------------------------------------------------------------
(* 1. the world: the site root, paths, the request battery *)

Dirs  == { <<>>, <<"a">>, <<"a","b">> }
Files == { <<"index.html">>,
           <<"a","home.txt">>, <<"a","main.bin">>, <<"a","f.txt">>, <<"a","f.bin">>, <<"a","g.txt">>,
           <<"a","h">>, <<"a","h.txt">>,
           <<"a","b","main.bin">>, <<"a","b","k.bin">> }
IsDir(s)  == s \in Dirs
IsFile(s) == s \in Files
Exists(s) == IsDir(s) \/ IsFile(s)

\* a URL path: its segments and whether it ends in a slash ("/" = no segment, slash)
Pth(segs, slash) == [segs |-> segs, slash |-> slash]
RootPath == Pth(<<>>, TRUE)
RECURSIVE JoinSegs(_)
JoinSegs(s) == IF s = <<>> THEN "" ELSE "/" \o Head(s) \o JoinSegs(Tail(s))
PStr(p) == IF p.segs = <<>> THEN "/" ELSE JoinSegs(p.segs) \o (IF p.slash THEN "/" ELSE "")
BaseStr(b) == IF b = <<>> THEN "/" ELSE JoinSegs(b)            \* a base path as written (none has a trailing slash)

ButLast(s) == SubSeq(s, 1, Len(s) - 1)
LastOf(s)  == s[Len(s)]
TxtNames == {"f.txt", "g.txt", "h.txt", "home.txt", "x.txt"}
BinNames == {"f.bin", "main.bin", "k.bin"}
SegExt(s) == IF s \in TxtNames THEN ".txt" ELSE IF s \in BinNames THEN ".bin" ELSE IF s = "index.html" THEN ".html" ELSE ""
PathExt(p) == IF p.segs = <<>> THEN "" ELSE SegExt(LastOf(p.segs))     \* path.Ext(path.Clean(r.URL.Path))
WithExt(segs, e) == ButLast(segs) \o << LastOf(segs) \o e >>            \* urlpath + ext

IsPrefix(b, s) == Len(b) <= Len(s) /\ SubSeq(s, 1, Len(b)) = b
\* httpserver.Path.Matches for clean lower-case operands, base without trailing slash
PathMatches(p, base) == base = <<>> \/ IsPrefix(base, p.segs)

\* requests: path, script of the innermost handler, value of the client's X-Request-Id header
InnerScripts == [
  none |-> [ops |-> <<>>, fin |-> "next"],
  w    |-> [ops |-> << [k |-> "set", n |-> "X-A", v |-> "inner"], [k |-> "add", n |-> "X-B", v |-> "inner"],
                       [k |-> "set", n |-> "X-I", v |-> "inner"] >>, fin |-> "write"],
  e    |-> [ops |-> << [k |-> "set", n |-> "X-I", v |-> "inner"], [k |-> "add", n |-> "X-A", v |-> "inner"] >>, fin |-> "ret404"],
  ct   |-> [ops |-> << [k |-> "set", n |-> "Content-Type", v |-> "text/x-inner"] >>, fin |-> "write"] ]
Rq(p, inner, cid) == [p |-> p, inner |-> inner, cid |-> cid]
Reqs == <<
  Rq(RootPath, "none", ""),
  Rq(Pth(<<"a">>, TRUE), "none", ""),
  Rq(Pth(<<"a","b">>, TRUE), "none", "v1"),
  Rq(Pth(<<"a","f">>, FALSE), "none", ""),
  Rq(Pth(<<"a","g">>, FALSE), "none", "junk"),
  Rq(Pth(<<"a","h">>, FALSE), "none", ""),
  Rq(Pth(<<"a","f.txt">>, FALSE), "none", ""),
  Rq(Pth(<<"a","b","k.bin">>, FALSE), "none", "V1URN"),
  Rq(Pth(<<"x.txt">>, FALSE), "none", ""),
  Rq(Pth(<<"a","f">>, FALSE), "w", ""),
  Rq(Pth(<<"a","b","k.bin">>, FALSE), "w", "v1"),
  Rq(Pth(<<"a","b","q">>, FALSE), "e", ""),
  Rq(Pth(<<"a","f.txt">>, FALSE), "ct", ""),
  Rq(RootPath, "w", ""),
  Rq(Pth(<<"a","b">>, FALSE), "none", ""),
  Rq(Pth(<<"debug","vars">>, FALSE), "none", ""),
  Rq(Pth(<<"debug","pprof","cmdline">>, FALSE), "none", "") >>
NReq == Len(Reqs)
ClientIdHeader == "X-Request-Id"
\* uuid.Parse: "v1" and "V1URN" are two spellings of the same UUID (canonical / URN upper case), "junk" is none
UuidValid(c) == c \in {"v1", "V1URN"}
UuidNorm(c)  == "cid:1"

\* response header names the model follows
CT   == "Content-Type"
XCTO == "X-Content-Type-Options"
HdrNames == {"X-A", "X-B", "X-I", "X-Rid", CT, XCTO}
NoHdr == [n \in HdrNames |-> <<>>]                 \* <<>> = absent
Auto == "~auto"                                    \* a Content-Type net/http picks (sniffing / system mime table)
TextPlain == "text/plain; charset=utf-8"
TextHtml  == "text/html; charset=utf-8"

-----------------------------------------------------------------------------
(* 2. the pools: every line as Casketfile text and as what it means *)

Op(k, n, v) == [k |-> k, n |-> n, v |-> v, extra |-> FALSE]       \* v: the value as written, split at placeholders
HdrLine(text, pat, base, ops) == [d |-> "header", text |-> text, bad |-> "", pat |-> pat, base |-> base, ops |-> ops]
MimeLine(text, entries, defaults) == [d |-> "mime", text |-> text, bad |-> "", entries |-> entries, defaults |-> defaults]
ME(e, t) == [e |-> e, t |-> t, dot |-> TRUE]
StatusLine(text, code, bases) == [d |-> "status", text |-> text, bad |-> "", code |-> code, bases |-> bases]
RidLine(text, name) == [d |-> "request_id", text |-> text, bad |-> "", name |-> name]
IndexLine(text, names) == [d |-> "index", text |-> text, bad |-> "", names |-> names]
ExtLine(text, exts) == [d |-> "ext", text |-> text, bad |-> "", exts |-> exts]
ExpvarLine(text, given, res) == [d |-> "expvar", text |-> text, bad |-> "", given |-> given, res |-> res]
PprofLine(text) == [d |-> "pprof", text |-> text, bad |-> ""]
BrowseLine(text, base) == [d |-> "browse", text |-> text, bad |-> "", base |-> base]
Bad(d, text, why) == [d |-> d, text |-> text, bad |-> why]

Pool == [
  \* ---- header: path pattern + operations (Name value = set, +Name value = add, -Name = delete)
  hA |-> HdrLine(<<"header / X-A one">>, "/", <<>>, << Op("set", "X-A", <<"one">>) >>),
  hB |-> HdrLine(<<"header /a +X-A two">>, "/a", <<"a">>, << Op("add", "X-A", <<"two">>) >>),
  hC |-> HdrLine(<<"header /a/b -X-A">>, "/a/b", <<"a","b">>, << Op("del", "X-A", <<>>) >>),
  hD |-> HdrLine(<<"header /a {", "X-B p={rewrite_path}", "-X-I", "}">>, "/a", <<"a">>,
                 << Op("set", "X-B", <<"p=", "{rewrite_path}">>), Op("del", "X-I", <<>>) >>),
  hE |-> HdrLine(<<"header /a/b {", "Content-Type text/x-hdr", "+X-B {path}", "}">>, "/a/b", <<"a","b">>,
                 << Op("set", CT, <<"text/x-hdr">>), Op("add", "X-B", <<"{path}">>) >>),
  hF |-> HdrLine(<<"header / -Content-Type">>, "/", <<>>, << Op("del", CT, <<>>) >>),
  hG |-> HdrLine(<<"header / X-Rid {request_id}">>, "/", <<>>, << Op("set", "X-Rid", <<"{request_id}">>) >>),
  hH |-> HdrLine(<<"header /a {", "X-A three", "+X-A four", "}">>, "/a", <<"a">>, << Op("set", "X-A", <<"three">>), Op("add", "X-A", <<"four">>) >>),
  \* ---- mime: extension -> Content-Type
  mA |-> MimeLine(<<"mime .txt text/x-one">>, << ME(".txt", "text/x-one") >>, FALSE),
  mB |-> MimeLine(<<"mime .bin app/x-two">>, << ME(".bin", "app/x-two") >>, FALSE),
  mC |-> MimeLine(<<"mime .txt text/x-three">>, << ME(".txt", "text/x-three") >>, FALSE),
  mD |-> MimeLine(<<"mime {", ".bin app/x-four", ".txt text/x-five", "}">>, << ME(".bin", "app/x-four"), ME(".txt", "text/x-five") >>, FALSE),
  mE |-> MimeLine(<<"mime ext_defaults">>, <<>>, TRUE),
  mF |-> MimeLine(<<"mime .* app/x-any">>, << ME(".*", "app/x-any") >>, FALSE),
  \* ---- status: code + base path(s)
  sA |-> StatusLine(<<"status 404 /a">>, 404, << <<"a">> >>),
  sB |-> StatusLine(<<"status 204 /a/b">>, 204, << <<"a","b">> >>),
  sC |-> StatusLine(<<"status 403 /">>, 403, << <<>> >>),
  sD |-> StatusLine(<<"status 410 {", "/a/b", "/", "}">>, 410, << <<"a","b">>, <<>> >>),
  \* ---- request_id [header]
  rA |-> RidLine(<<"request_id">>, ""),
  rB |-> RidLine(<<"request_id X-Request-Id">>, "X-Request-Id"),
  rC |-> RidLine(<<"request_id X-Other">>, "X-Other"),
  \* ---- index, ext
  iA |-> IndexLine(<<"index main.bin">>, <<"main.bin">>),
  iB |-> IndexLine(<<"index home.txt main.bin">>, <<"home.txt", "main.bin">>),
  eA |-> ExtLine(<<"ext .txt">>, <<".txt">>),
  eB |-> ExtLine(<<"ext .bin .txt">>, <<".bin", ".txt">>),
  \* ---- expvar [path], pprof, browse
  vA |-> ExpvarLine(<<"expvar">>, FALSE, <<"debug","vars">>),
  vB |-> ExpvarLine(<<"expvar /a/b">>, TRUE, <<"a","b">>),
  pA |-> PprofLine(<<"pprof">>),
  bA |-> BrowseLine(<<"browse /a">>, <<"a">>),
  \* ---- errors (no page, default log): only its place in the chain matters here - between header and status
  xA |-> [d |-> "errors", text |-> <<"errors">>, bad |-> ""],
  \* ---- lines a setup must refuse by themselves (arity / form)
  hX |-> Bad("header", <<"header">>, "no pattern"),
  hY |-> Bad("header", <<"header / {", "X-A one two", "}">>, "two values"),
  mX |-> Bad("mime", <<"mime .txt">>, "one argument"),
  mY |-> Bad("mime", <<"mime txt text/plain">>, "no dot"),
  sX |-> Bad("status", <<"status abc /a">>, "not numeric"),
  sY |-> Bad("status", <<"status 404">>, "no path"),
  sZ |-> Bad("status", <<"status 404 /a /b">>, "three arguments"),
  sV |-> Bad("status", <<"status 0 /a">>, "not a status code"),           \* net/http panics on WriteHeader(0): refused since the repair
  sW |-> Bad("status", <<"status 1000 {", "/a/b", "}">>, "not a status code"),
  rX |-> Bad("request_id", <<"request_id A B">>, "two arguments"),
  iX |-> Bad("index", <<"index">>, "no name"),
  eX |-> Bad("ext", <<"ext">>, "no extension"),
  vX |-> Bad("expvar", <<"expvar /x /y">>, "two arguments"),
  pX |-> Bad("pprof", <<"pprof on">>, "argument") ]

IdSeq == << "hA","hB","hC","hD","hE","hF","hG","hH","mA","mB","mC","mD","mE","mF","sA","sB","sC","sD","rA","rB","rC",
            "iA","iB","eA","eB","vA","vB","pA","bA","xA","hX","hY","mX","mY","sX","sY","sZ","sV","sW","rX","iX","eX","vX","pX" >>
Ids     == {IdSeq[q] : q \in 1..Len(IdSeq)}
GoodIds == {id \in Ids : Pool[id].bad = ""}
BadIds  == Ids \ GoodIds
IdNum(id) == CHOOSE q \in 1..Len(IdSeq) : IdSeq[q] = id

\* the order in which executeDirectives runs the setups = the order of the chain
DirOrder == << "index", "request_id", "ext", "header", "errors", "status", "mime", "pprof", "expvar", "browse" >>
Directives == {DirOrder[q] : q \in 1..Len(DirOrder)}
DefaultIndex == << "index.html", "index.htm", "index.txt", "default.html", "default.htm", "default.txt" >>
MimeExts == {".txt", ".bin", ".*"}
MimeDefault(e) == CASE e = ".txt" -> "text/plain" [] e = ".bin" -> "application/octet-stream" [] e = ".html" -> "text/html" [] OTHER -> ""
PprofBase == <<"debug","pprof">>

ASSUME PoolOK == /\ DOMAIN Pool = Ids /\ Cardinality(Ids) = Len(IdSeq)
                 /\ \A id \in Ids : Pool[id].d \in Directives
                 /\ \A id \in GoodIds : Pool[id].d = "header" => \A q \in 1..Len(Pool[id].ops) : Pool[id].ops[q].n \in HdrNames
\* The segment-prefix reading of Path.Matches relies on this: a base's segments (a, b, debug, vars, pprof) are whole
\* names that no other name of the world extends ("/a" is a string prefix of "/ab": there is no such name here).
BaseSegs == {"a", "b", "debug", "vars", "pprof"}
AllSegs == UNION {{p[q] : q \in 1..Len(p)} : p \in Files \cup Dirs} \cup UNION {{Reqs[y].p.segs[q] : q \in 1..Len(Reqs[y].p.segs)} : y \in 1..NReq}
ASSUME AlphabetOK == \A s \in AllSegs : s \in BaseSegs \/ s \in {"index.html", "home.txt", "main.bin", "f", "f.txt", "f.bin", "g", "g.txt", "h", "h.txt", "k.bin", "q", "x.txt", "cmdline"}

-----------------------------------------------------------------------------
(* 3. state *)

VARIABLES site,      \* the Casketfile as written: directive -> sequence of pool ids (lines of one directive keep their order)
          pc,        \* build | setup | refused | ready | <stage of the chain> | commit | fallback | net | done | end
          sd, sl,    \* executeDirectives: directive being set up (index into DirOrder), its next line
          cfg,       \* what the setups compiled
          x,         \* request being served (index into Reqs), 0 before the first
          nfresh,    \* uuid.New() calls of this server so far
          cur,       \* r.URL.Path as the chain sees it now
          rid,       \* the request-id value in the request context ("" = none)
          hdr,       \* the header map of the response
          dfr,       \* header's responseWriterWrapper.ops: names with a deferred deletion
          i, j,      \* loop cursors (rule / key; extension; status rule; index page)
          sel,       \* ConfigSelector.Select: best status rule so far
          sf,        \* file the file server is about to serve
          ans,       \* the answer being produced: [status, kind, file, loc, via, body]
          g,         \* ghost: what individual steps did (for the declarative properties only)
          fin,       \* the finished answer of the current request (what the client got), NoFin before
          rids       \* request ids of this site so far, in battery order: [rid, fresh]
vars == <<site, pc, sd, sl, cfg, x, nfresh, cur, rid, hdr, dfr, i, j, sel, sf, ans, g, fin, rids>>

NoSite == [d \in Directives |-> <<>>]
Cfg0 == [index |-> DefaultIndex, ridOn |-> FALSE, ridName |-> "", exts |-> <<>>,
         hrules |-> <<>>, errorsOn |-> FALSE, srules |-> <<>>, mimeOn |-> FALSE, mime |-> [e \in MimeExts |-> ""], mimeDefaults |-> FALSE,
         pprofOn |-> FALSE, expvarOn |-> FALSE, expvarRes |-> <<>>, browseOn |-> FALSE, browseBase |-> <<>>]
NoAns == [status |-> 0, kind |-> "none", file |-> "", loc |-> "", via |-> "none", body |-> TRUE]
NoFin == [status |-> 0]
G0 == [extK |-> 0, idxK |-> 0, hnext |-> NoHdr, hran |-> FALSE, down |-> <<>>, mimeRan |-> FALSE, mimeCT |-> "",
       sel |-> 0, reached |-> FALSE, sawPath |-> "", sawRid |-> "", fresh |-> FALSE]

NLines(s) == LET RECURSIVE Sum(_) Sum(q) == IF q > Len(DirOrder) THEN 0 ELSE Len(s[DirOrder[q]]) + Sum(q + 1) IN Sum(1)
AllLines(s) == LET RECURSIVE Cat(_) Cat(q) == IF q > Len(DirOrder) THEN <<>> ELSE s[DirOrder[q]] \o Cat(q + 1) IN Cat(1)

\* ---- sampling of the larger sites (as in RewriteRedir.tla)
SeedNum == LET sd0 == TLCGet("config").seed         \* TLC hands the -seed value over as a string
               T == << "1", "2", "3", "4", "5", "6", "7", "8", "9", "10", "11", "12", "13", "14", "15", "16" >>
               hit == {q \in 1..Len(T) : T[q] = sd0}
           IN  IF hit = {} THEN 0 ELSE CHOOSE q \in hit : TRUE
RECURSIVE HashSeq(_, _)
HashSeq(b, q) == IF q > Len(b) THEN 0 ELSE ((q * 31 + 7) * IdNum(b[q]) + HashSeq(b, q + 1)) % 1000003
\* two-line sites every tier serves whatever the hash says: the interplay each clause is about
Pinned == { <<"eB","hD">>,      \* {rewrite_path} after an ext rewrite
            <<"eA","mA">>,      \* mime sees the rewritten extension
            <<"iA","iB">>,      \* index lines accumulate
            <<"iB","bA">>,      \* browse leaves a directory with an index page to the file server
            <<"rB","hG">>,      \* the id in the header placeholder, the handler and the log
            <<"hA","hC">>, <<"hC","hA">>,   \* set then delete / delete then set
            <<"hB","hH">>, <<"hH","hB">>,   \* two lines with one pattern are one rule
            <<"hD","xA">>,      \* with `errors` the error page goes through header's wrapper: deletions hold
            <<"hF","mA">>,      \* a deleted Content-Type stays deleted when mime sets it later
            <<"hE","mB">>,      \* mime replaces what header set
            <<"sC","sA">>,      \* longest base wins, not the first
            <<"mA","mC">>, <<"sA","sA">> }  \* duplicates
Sampled(s) == LET n == NLines(s)
                  oneIn == IF n <= 1 THEN 1 ELSE IF n = 2 THEN Sample2 ELSE Sample3
              IN AllLines(s) \in Pinned \/ (HashSeq(AllLines(s), 1) + 17 * SeedNum) % oneIn = 0

Init == /\ site = NoSite /\ pc = "build" /\ sd = 0 /\ sl = 0 /\ cfg = Cfg0 /\ x = 0 /\ nfresh = 0
        /\ cur = RootPath /\ rid = "" /\ hdr = NoHdr /\ dfr = {} /\ i = 0 /\ j = 0 /\ sel = 0 /\ sf = <<>>
        /\ ans = NoAns /\ g = G0 /\ fin = NoFin /\ rids = <<>>

-----------------------------------------------------------------------------
(* 4. writing the site, and the setups *)

Extended(s) == NLines(s) < 2 \/ (HashSeq(AllLines(s), 1) + 5 * SeedNum) % Extend3 = 0
AddLine(id) == /\ pc = "build" /\ NLines(site) < MaxLines /\ Extended(site)
               /\ \A q \in 1..Len(AllLines(site)) : AllLines(site)[q] \in GoodIds
               /\ site' = [site EXCEPT ![Pool[id].d] = Append(@, id)]
               /\ UNCHANGED <<pc, sd, sl, cfg, x, nfresh, cur, rid, hdr, dfr, i, j, sel, sf, ans, g, fin, rids>>
AddBad(id) == /\ pc = "build" /\ NLines(site) = 0          \* a line the setup refuses by itself: alone
              /\ site' = [site EXCEPT ![Pool[id].d] = <<id>>]
              /\ UNCHANGED <<pc, sd, sl, cfg, x, nfresh, cur, rid, hdr, dfr, i, j, sel, sf, ans, g, fin, rids>>
StartSetup == /\ pc = "build" /\ Sampled(site)
              /\ pc' = "setup" /\ sd' = 1 /\ sl' = 1
              /\ UNCHANGED <<site, cfg, x, nfresh, cur, rid, hdr, dfr, i, j, sel, sf, ans, g, fin, rids>>

CurDir   == DirOrder[sd]
CurLines == site[CurDir]
AtLine(d) == pc = "setup" /\ CurDir = d /\ sl <= Len(CurLines)
Line == Pool[CurLines[sl]]
Accept(c) == cfg' = c /\ sl' = sl + 1 /\ UNCHANGED <<site, pc, sd, x, nfresh, cur, rid, hdr, dfr, i, j, sel, sf, ans, g, fin, rids>>
Refuse == pc' = "refused" /\ UNCHANGED <<site, sd, sl, cfg, x, nfresh, cur, rid, hdr, dfr, i, j, sel, sf, ans, g, fin, rids>>

\* index/index.go setupIndex: the names of all lines, in order, replace the default list
ParseIndex == /\ AtLine("index")
              /\ IF Line.bad # "" THEN Refuse                                  \* "Expected at least one index"
                 ELSE Accept([cfg EXCEPT !.index = (IF sl = 1 THEN <<>> ELSE @) \o Line.names])
\* requestid/setup.go: at most one argument; the last one given is the header name
ParseRid == /\ AtLine("request_id")
            /\ IF Line.bad # "" THEN Refuse                                    \* c.ArgErr()
               ELSE Accept([cfg EXCEPT !.ridOn = TRUE, !.ridName = IF Line.name # "" THEN Line.name ELSE @])
\* extensions/setup.go extParse: at least one extension per line, all lines accumulate
ParseExt == /\ AtLine("ext")
            /\ IF Line.bad # "" THEN Refuse
               ELSE Accept([cfg EXCEPT !.exts = @ \o Line.exts])

\* header/setup.go headersParse: a line whose pattern was seen before is merged into that rule;
\* Rule.add keeps the operations of a rule grouped by key (-Name / +Name / Name), keys in order of first appearance
HKey(op) == [k |-> op.k, n |-> op.n]
RuleAdd(rule, op) == LET hit == {q \in 1..Len(rule.keys) : rule.keys[q] = HKey(op)}
                     IN IF hit = {} THEN [rule EXCEPT !.keys = Append(@, HKey(op)), !.vals = Append(@, <<op.v>>)]
                        ELSE LET q == CHOOSE q \in hit : TRUE IN [rule EXCEPT !.vals[q] = Append(@, op.v)]
RECURSIVE RuleAddAll(_, _, _)
RuleAddAll(rule, ops, q) == IF q > Len(ops) THEN rule ELSE RuleAddAll(RuleAdd(rule, ops[q]), ops, q + 1)
ParseHeader == /\ AtLine("header")
               /\ IF Line.bad # "" THEN Refuse                                 \* no pattern / more than one value: c.ArgErr()
                  ELSE LET old == {q \in 1..Len(cfg.hrules) : cfg.hrules[q].pat = Line.pat}
                       IN IF old = {}
                          THEN Accept([cfg EXCEPT !.hrules = Append(@, RuleAddAll([pat |-> Line.pat, base |-> Line.base, keys |-> <<>>, vals |-> <<>>], Line.ops, 1))])
                          ELSE LET q == CHOOSE q \in old : TRUE
                               IN Accept([cfg EXCEPT !.hrules[q] = RuleAddAll(@, Line.ops, 1)])

\* status/setup.go statusParse: every path of every line is compared with the rules so far ("Duplicate path")
RECURSIVE StatusAdd(_, _, _, _)
StatusAdd(rules, code, bases, q) ==
    IF q > Len(bases) THEN [ok |-> TRUE, rules |-> rules]
    ELSE IF \E y \in 1..Len(rules) : rules[y].base = bases[q] THEN [ok |-> FALSE, rules |-> rules]
    ELSE StatusAdd(Append(rules, [base |-> bases[q], code |-> code]), code, bases, q + 1)
ParseStatus == /\ AtLine("status")
               /\ IF Line.bad # "" THEN Refuse                                 \* Atoi fails / c.ArgErr() / not in 100..999
                  ELSE LET r == StatusAdd(cfg.srules, Line.code, Line.bases, 1)
                       IN IF r.ok THEN Accept([cfg EXCEPT !.srules = r.rules]) ELSE Refuse

\* mime/setup.go mimeParse + validateExt: leading dot, "duplicate extension" across all lines
RECURSIVE MimeAdd(_, _, _)
MimeAdd(m, entries, q) ==
    IF q > Len(entries) THEN [ok |-> TRUE, m |-> m]
    ELSE IF ~entries[q].dot \/ m[entries[q].e] # "" THEN [ok |-> FALSE, m |-> m]
    ELSE MimeAdd([m EXCEPT ![entries[q].e] = entries[q].t], entries, q + 1)
ParseMime == /\ AtLine("mime")
             /\ IF Line.bad # "" THEN Refuse                                   \* one argument that is not ext_defaults / no dot
                ELSE LET r == MimeAdd(cfg.mime, Line.entries, 1)
                     IN IF r.ok THEN Accept([cfg EXCEPT !.mimeOn = TRUE, !.mime = r.m, !.mimeDefaults = @ \/ Line.defaults]) ELSE Refuse

\* pprof/setup.go: no argument, no block, once
ParsePprof == /\ AtLine("pprof")
              /\ IF Line.bad # "" \/ cfg.pprofOn THEN Refuse                   \* c.ArgErr() / "pprof can only be specified once"
                 ELSE Accept([cfg EXCEPT !.pprofOn = TRUE])
\* expvar/setup.go expVarParse: no argument = /debug/vars, one = that path, the last line wins
ParseExpvar == /\ AtLine("expvar")
               /\ IF Line.bad # "" THEN Refuse
                  ELSE Accept([cfg EXCEPT !.expvarOn = TRUE, !.expvarRes = Line.res])
\* browse/setup.go browseParse: "duplicate browsing config" for a path scope written twice
ParseBrowse == /\ AtLine("browse")
               /\ IF cfg.browseOn /\ cfg.browseBase = Line.base THEN Refuse
                  ELSE Accept([cfg EXCEPT !.browseOn = TRUE, !.browseBase = Line.base])

\* errors/setup.go: nothing to refuse in a bare `errors`
ParseErrors == /\ AtLine("errors")
               /\ Accept([cfg EXCEPT !.errorsOn = TRUE])

NextDirective == /\ pc = "setup" /\ sl > Len(CurLines)
                 /\ IF sd < Len(DirOrder) THEN sd' = sd + 1 /\ sl' = 1 /\ pc' = pc
                                          ELSE sd' = 0 /\ sl' = 0 /\ pc' = "ready"
                 /\ UNCHANGED <<site, cfg, x, nfresh, cur, rid, hdr, dfr, i, j, sel, sf, ans, g, fin, rids>>

-----------------------------------------------------------------------------
(* 5. serving the battery *)

\* the middleware of the site, outermost first (a directive that was not written adds nothing);
\* the harness adds `log` (between request_id and ext, no step of its own here) exactly when request_id is on;
\* `errors` (between header and status) has no step on the way in either: it acts when a status comes back (ErrorsPage)
Opt(b, s) == IF b THEN <<s>> ELSE <<>>
Chain == Opt(cfg.ridOn, "rid") \o Opt(cfg.exts # <<>>, "ext") \o Opt(cfg.hrules # <<>>, "header") \o Opt(cfg.srules # <<>>, "status")
         \o Opt(cfg.mimeOn, "mime") \o Opt(cfg.pprofOn, "pprof") \o Opt(cfg.expvarOn, "expvar") \o Opt(cfg.browseOn, "browse") \o <<"inner", "fs">>
After(s) == LET q == CHOOSE q \in 1..Len(Chain) : Chain[q] = s IN Chain[q + 1]
Rq0 == Reqs[x]

Keep(vs) == UNCHANGED vs
StartRequest == /\ pc \in {"ready", "done"} /\ x < NReq
                /\ x' = x + 1 /\ cur' = Reqs[x + 1].p /\ rid' = "" /\ hdr' = NoHdr /\ dfr' = {}
                /\ i' = 1 /\ j' = 0 /\ sel' = 0 /\ sf' = <<>> /\ ans' = NoAns /\ g' = G0 /\ fin' = NoFin /\ pc' = Chain[1]
                /\ UNCHANGED <<site, sd, sl, cfg, nfresh, rids>>
Finish == /\ pc = "done" /\ x = NReq /\ pc' = "end"
          /\ UNCHANGED <<site, sd, sl, cfg, x, nfresh, cur, rid, hdr, dfr, i, j, sel, sf, ans, g, fin, rids>>

\* requestid.Handler.ServeHTTP: the client's id if a header name is configured, the header is there and parses; else uuid.New()
RequestID == /\ pc = "rid"
             /\ LET given == IF cfg.ridName = ClientIdHeader THEN Rq0.cid ELSE ""        \* r.Header.Get(h.HeaderName)
                    taken == cfg.ridName # "" /\ given # "" /\ UuidValid(given)
                IN /\ rid' = IF taken THEN UuidNorm(given) ELSE "fresh:" \o ToString(nfresh + 1)
                   /\ nfresh' = IF taken THEN nfresh ELSE nfresh + 1
                   /\ g' = [g EXCEPT !.fresh = ~taken]
             /\ pc' = After("rid")
             /\ UNCHANGED <<site, sd, sl, cfg, x, cur, hdr, dfr, i, j, sel, sf, ans, fin, rids>>

\* extensions.Ext.ServeHTTP
ExtBegin == /\ pc = "ext"
            /\ IF ~cur.slash /\ cur.segs # <<>> /\ ~Exists(cur.segs)            \* not a "/" path and os.Stat(path) fails
               THEN pc' = "exttry" /\ i' = 1 ELSE pc' = After("ext") /\ i' = 1
            /\ UNCHANGED <<site, sd, sl, cfg, x, nfresh, cur, rid, hdr, dfr, j, sel, sf, ans, g, fin, rids>>
ExtTry == /\ pc = "exttry"
          /\ IF i > Len(cfg.exts) THEN pc' = After("ext") /\ i' = 1 /\ UNCHANGED <<cur, g>>
             ELSE IF Exists(WithExt(cur.segs, cfg.exts[i]))                      \* os.Stat(path + ext) == nil: rewrite, break
                  THEN cur' = Pth(WithExt(cur.segs, cfg.exts[i]), FALSE) /\ g' = [g EXCEPT !.extK = i] /\ pc' = After("ext") /\ i' = 1
                  ELSE i' = i + 1 /\ UNCHANGED <<cur, g, pc>>
          /\ UNCHANGED <<site, sd, sl, cfg, x, nfresh, rid, hdr, dfr, j, sel, sf, ans, fin, rids>>

\* the replacer: one left-to-right pass over the value as written
ExpandPart(t) == CASE t = "{path}" -> PStr(Rq0.p) [] t = "{rewrite_path}" -> PStr(cur) [] t = "{request_id}" -> rid [] OTHER -> t
RECURSIVE Expand(_)
Expand(v) == IF v = <<>> THEN "" ELSE ExpandPart(Head(v)) \o Expand(Tail(v))

\* one header operation on a header map: what http.Header.Set / Add / Del do
ApplyOp(h, k, n, vals) == CASE k = "del" -> [h EXCEPT ![n] = <<>>]
                            [] k = "add" -> [h EXCEPT ![n] = @ \o vals]
                            [] k = "set" -> [h EXCEPT ![n] = <<vals[Len(vals)]>>]      \* Set for each value: the last stays

\* header.Headers.ServeHTTP
HeaderRule == /\ pc = "header" /\ j = 0 /\ i <= Len(cfg.hrules)
              /\ IF PathMatches(cur, cfg.hrules[i].base) THEN j' = 1 /\ i' = i ELSE i' = i + 1 /\ j' = 0
              /\ UNCHANGED <<site, pc, sd, sl, cfg, x, nfresh, cur, rid, hdr, dfr, sel, sf, ans, g, fin, rids>>
HeaderOp == /\ pc = "header" /\ j >= 1
            /\ LET rule == cfg.hrules[i]
                   key == rule.keys[j]
                   vals == [q \in 1..Len(rule.vals[j]) |-> Expand(rule.vals[j][q])]
               IN /\ hdr' = ApplyOp(hdr, key.k, key.n, vals)
                  /\ dfr' = IF key.k = "del" THEN dfr \cup {key.n} ELSE dfr     \* rww.delHeader: delete now AND at WriteHeader
                  /\ IF j < Len(rule.keys) THEN j' = j + 1 /\ i' = i ELSE j' = 0 /\ i' = i + 1
            /\ UNCHANGED <<site, pc, sd, sl, cfg, x, nfresh, cur, rid, sel, sf, ans, g, fin, rids>>
HeaderNext == /\ pc = "header" /\ j = 0 /\ i > Len(cfg.hrules)
              /\ g' = [g EXCEPT !.hnext = hdr, !.hran = TRUE]                   \* return h.Next.ServeHTTP(rww, r)
              /\ pc' = After("header") /\ i' = 1
              /\ UNCHANGED <<site, sd, sl, cfg, x, nfresh, cur, rid, hdr, dfr, j, sel, sf, ans, fin, rids>>

\* status.Status.ServeHTTP: ConfigSelector.Select keeps the matching rule with the longest base path
StatusSelect == /\ pc = "status" /\ i <= Len(cfg.srules)
                /\ sel' = IF PathMatches(cur, cfg.srules[i].base) /\ (sel = 0 \/ Len(BaseStr(cfg.srules[i].base)) > Len(BaseStr(cfg.srules[sel].base)))
                          THEN i ELSE sel
                /\ i' = i + 1
                /\ UNCHANGED <<site, pc, sd, sl, cfg, x, nfresh, cur, rid, hdr, dfr, j, sf, ans, g, fin, rids>>
StatusAnswer == /\ pc = "status" /\ i > Len(cfg.srules)
                /\ g' = [g EXCEPT !.sel = sel]
                /\ IF sel = 0 THEN pc' = After("status") /\ ans' = ans
                   ELSE IF cfg.srules[sel].code < 400
                        THEN ans' = [ans EXCEPT !.status = cfg.srules[sel].code, !.kind = "status", !.body = FALSE] /\ pc' = "commit"   \* w.WriteHeader(code); return 0
                        ELSE ans' = [ans EXCEPT !.status = cfg.srules[sel].code, !.kind = "error"] /\ pc' = "fallback"  \* return code, nil
                /\ i' = 1
                /\ UNCHANGED <<site, sd, sl, cfg, x, nfresh, cur, rid, hdr, dfr, j, sel, sf, fin, rids>>

\* mime.Mime.ServeHTTP
MimeType(e) == IF e \in MimeExts /\ cfg.mime[e] # "" THEN cfg.mime[e]
               ELSE IF cfg.mimeDefaults /\ MimeDefault(e) # "" THEN MimeDefault(e)
               ELSE cfg.mime[".*"]
Down(h, k, n, v) == Append(h, [k |-> k, n |-> n, v |-> v])                      \* ghost: header operations below `header`
MimeSet == /\ pc = "mime"
           /\ LET t == MimeType(PathExt(cur))
              IN /\ hdr' = IF t # "" THEN [hdr EXCEPT ![CT] = <<t>>] ELSE hdr
                 /\ g' = [g EXCEPT !.mimeRan = TRUE, !.mimeCT = t, !.down = IF t # "" THEN Down(@, "set", CT, t) ELSE @]
           /\ pc' = After("mime")
           /\ UNCHANGED <<site, sd, sl, cfg, x, nfresh, cur, rid, dfr, i, j, sel, sf, ans, fin, rids>>

\* pprof.Handler.ServeHTTP (cmdline is the one sub-page of the battery: net/http/pprof.Cmdline sets both headers)
Pprof == /\ pc = "pprof"
         /\ IF PathMatches(cur, PprofBase)
            THEN /\ hdr' = [hdr EXCEPT ![XCTO] = <<"nosniff">>, ![CT] = <<TextPlain>>]
                 /\ g' = [g EXCEPT !.down = Down(Down(@, "set", XCTO, "nosniff"), "set", CT, TextPlain)]
                 /\ ans' = [ans EXCEPT !.status = 200, !.kind = "pprof"] /\ pc' = "commit"
            ELSE pc' = After("pprof") /\ UNCHANGED <<hdr, g, ans>>
         /\ UNCHANGED <<site, sd, sl, cfg, x, nfresh, cur, rid, dfr, i, j, sel, sf, fin, rids>>
\* expvar.ExpVar.ServeHTTP
Expvar == /\ pc = "expvar"
          /\ IF PathMatches(cur, cfg.expvarRes)
             THEN /\ hdr' = [hdr EXCEPT ![CT] = <<"application/json; charset=utf-8">>]
                  /\ g' = [g EXCEPT !.down = Down(@, "set", CT, "application/json; charset=utf-8")]
                  /\ ans' = [ans EXCEPT !.status = 200, !.kind = "expvar"] /\ pc' = "commit"
             ELSE pc' = After("expvar") /\ UNCHANGED <<hdr, g, ans>>
          /\ UNCHANGED <<site, sd, sl, cfg, x, nfresh, cur, rid, dfr, i, j, sel, sf, fin, rids>>

\* net/http.Redirect for a GET: Content-Type - and the little HTML body - only if no Content-Type is there yet
RedirectCT(h) == IF h[CT] = <<>> THEN [h EXCEPT ![CT] = <<TextHtml>>] ELSE h
RedirectDown(d, h) == IF h[CT] = <<>> THEN Down(d, "set", CT, TextHtml) ELSE d
HasIndexPage(dir) == \E q \in 1..Len(cfg.index) : Exists(Append(dir, cfg.index[q]))
\* browse.Browse.ServeHTTP: existing directories in scope; a directory with an index page is left to the file server
Browse == /\ pc = "browse"
          /\ IF PathMatches(cur, cfg.browseBase) /\ IsDir(cur.segs)
             THEN IF ~cur.slash
                  THEN /\ hdr' = RedirectCT(hdr) /\ g' = [g EXCEPT !.down = RedirectDown(@, hdr)]
                       /\ ans' = [ans EXCEPT !.status = 301, !.kind = "redirect", !.loc = PStr(cur) \o "/", !.body = (hdr[CT] = <<>>)] /\ pc' = "commit"
                  ELSE IF HasIndexPage(cur.segs) THEN pc' = After("browse") /\ UNCHANGED <<hdr, g, ans>>
                       ELSE /\ hdr' = [hdr EXCEPT ![CT] = <<TextHtml>>] /\ g' = [g EXCEPT !.down = Down(@, "set", CT, TextHtml)]
                            /\ ans' = [ans EXCEPT !.status = 200, !.kind = "listing"] /\ pc' = "commit"
             ELSE pc' = After("browse") /\ UNCHANGED <<hdr, g, ans>>
          /\ UNCHANGED <<site, sd, sl, cfg, x, nfresh, cur, rid, dfr, i, j, sel, sf, fin, rids>>

\* the innermost test handler: reports what it sees, runs the script of the request
RECURSIVE ScriptHdr(_, _, _)
ScriptHdr(h, ops, q) == IF q > Len(ops) THEN h ELSE ScriptHdr(ApplyOp(h, ops[q].k, ops[q].n, <<ops[q].v>>), ops, q + 1)
RECURSIVE ScriptDown(_, _, _)
ScriptDown(d, ops, q) == IF q > Len(ops) THEN d ELSE ScriptDown(Down(d, ops[q].k, ops[q].n, ops[q].v), ops, q + 1)
Inner == /\ pc = "inner"
         /\ LET s == InnerScripts[Rq0.inner]
            IN /\ hdr' = ScriptHdr(hdr, s.ops, 1)
               /\ g' = [g EXCEPT !.reached = TRUE, !.sawPath = PStr(cur), !.sawRid = rid, !.down = ScriptDown(@, s.ops, 1)]
               /\ CASE s.fin = "next"   -> pc' = "fs" /\ ans' = ans
                    [] s.fin = "write"  -> pc' = "commit" /\ ans' = [ans EXCEPT !.status = 200, !.kind = "inner"]
                    [] s.fin = "ret404" -> pc' = "fallback" /\ ans' = [ans EXCEPT !.status = 404, !.kind = "error"]
         /\ UNCHANGED <<site, sd, sl, cfg, x, nfresh, cur, rid, dfr, i, j, sel, sf, fin, rids>>

\* staticfiles.FileServer.serveFile
FsOpen == /\ pc = "fs"
          /\ IF ~Exists(cur.segs)
             THEN ans' = [ans EXCEPT !.status = 404, !.kind = "error"] /\ pc' = "fallback" /\ UNCHANGED <<hdr, g, sf>>      \* return 404, nil
             ELSE IF IsDir(cur.segs) /\ ~cur.slash                                                                           \* canonical redirect
             THEN /\ hdr' = RedirectCT(hdr) /\ g' = [g EXCEPT !.down = RedirectDown(@, hdr)]
                  /\ ans' = [ans EXCEPT !.status = 307, !.kind = "redirect", !.loc = PStr(cur) \o "/", !.body = (hdr[CT] = <<>>)] /\ pc' = "commit" /\ sf' = sf
             ELSE IF IsFile(cur.segs) /\ cur.slash
             THEN /\ hdr' = RedirectCT(hdr) /\ g' = [g EXCEPT !.down = RedirectDown(@, hdr)]
                  /\ ans' = [ans EXCEPT !.status = 307, !.kind = "redirect", !.loc = JoinSegs(cur.segs), !.body = (hdr[CT] = <<>>)] /\ pc' = "commit" /\ sf' = sf
             ELSE IF IsDir(cur.segs) THEN pc' = "fsindex" /\ UNCHANGED <<hdr, g, sf, ans>>
             ELSE pc' = "fsserve" /\ sf' = cur.segs /\ UNCHANGED <<hdr, g, ans>>
          /\ i' = 1
          /\ UNCHANGED <<site, sd, sl, cfg, x, nfresh, cur, rid, dfr, j, sel, fin, rids>>
FsIndex == /\ pc = "fsindex"
           /\ IF i > Len(cfg.index) THEN ans' = [ans EXCEPT !.status = 404, !.kind = "error"] /\ pc' = "fallback" /\ UNCHANGED <<i, g, sf>>
              ELSE IF IsFile(Append(cur.segs, cfg.index[i]))
                   THEN sf' = Append(cur.segs, cfg.index[i]) /\ g' = [g EXCEPT !.idxK = i] /\ pc' = "fsserve" /\ UNCHANGED <<i, ans>>
                   ELSE i' = i + 1 /\ UNCHANGED <<pc, g, sf, ans>>
           /\ UNCHANGED <<site, sd, sl, cfg, x, nfresh, cur, rid, hdr, dfr, j, sel, fin, rids>>
\* http.ServeContent: Content-Type from the served file's extension unless one is set already
ByExt(e) == CASE e = ".txt" -> TextPlain [] e = ".html" -> TextHtml [] OTHER -> Auto
FsServe == /\ pc = "fsserve"
           /\ LET t == ByExt(SegExt(LastOf(sf)))
              IN /\ hdr' = IF hdr[CT] = <<>> THEN [hdr EXCEPT ![CT] = <<t>>] ELSE hdr
                 /\ g' = [g EXCEPT !.down = IF hdr[CT] = <<>> THEN Down(@, "set", CT, t) ELSE @]
           /\ ans' = [ans EXCEPT !.status = 200, !.kind = "file", !.file = JoinSegs(sf)] /\ pc' = "commit"
           /\ UNCHANGED <<site, sd, sl, cfg, x, nfresh, cur, rid, dfr, i, j, sel, sf, fin, rids>>

\* the first WriteHeader / Write of whoever answers inside `header` goes through its responseWriterWrapper
Commit == /\ pc = "commit"
          /\ hdr' = [n \in HdrNames |-> IF n \in dfr THEN <<>> ELSE hdr[n]]
          /\ ans' = [ans EXCEPT !.via = "wrapper"] /\ pc' = "net"
          /\ UNCHANGED <<site, sd, sl, cfg, x, nfresh, cur, rid, dfr, i, j, sel, sf, g, fin, rids>>
\* a status >= 400 travelled back up unwritten: log's ErrorFunc / Server.ServeHTTP call DefaultErrorFunc on the
\* writer THEY hold - header's wrapper never sees this WriteHeader, its deferred deletions are not run
\* errors.ErrorHandler.ServeHTTP: status >= 400 from below -> errorPage -> DefaultErrorFunc(w, ...) with the writer it was
\* given, i.e. header's wrapper when header is configured: the deferred deletions ARE run for this answer
ErrorsPage == /\ pc = "fallback" /\ cfg.errorsOn
              /\ hdr' = [hdr EXCEPT ![CT] = <<TextPlain>>, ![XCTO] = <<"nosniff">>]
              /\ g' = [g EXCEPT !.down = Down(Down(@, "set", CT, TextPlain), "set", XCTO, "nosniff")]
              /\ pc' = "commit"
              /\ UNCHANGED <<site, sd, sl, cfg, x, nfresh, cur, rid, dfr, i, j, sel, sf, ans, fin, rids>>
Fallback == /\ pc = "fallback" /\ ~cfg.errorsOn
            /\ hdr' = [hdr EXCEPT ![CT] = <<TextPlain>>, ![XCTO] = <<"nosniff">>]
            /\ ans' = [ans EXCEPT !.via = "outside"] /\ pc' = "net"
            /\ UNCHANGED <<site, sd, sl, cfg, x, nfresh, cur, rid, dfr, i, j, sel, sf, g, fin, rids>>

HasBody(a) == a.body /\ a.status \notin {204, 304}
\* names whose final value the check does not judge (the code's behaviour is modelled, but it is not a promise):
\*  - a name a matching rule deletes AND a later operation of the rules sets again (the deferred deletion wins when the
\*    response goes through the wrapper, the later value when it does not);
\*  - a name a matching rule deletes, on an answer written by the fallback (deletions not re-applied there);
\*  - a name whose operations are regrouped by the merge of same-pattern lines / by key (see RegroupSensitive below)
RECURSIVE MatchingOps(_, _)
MatchingOps(ids, q) == IF q > Len(ids) THEN <<>>
                       ELSE (IF PathMatches(cur, Pool[ids[q]].base) THEN Pool[ids[q]].ops ELSE <<>>) \o MatchingOps(ids, q + 1)
OpsOn(ops, n) == SelectSeq(ops, LAMBDA o : o.n = n)
\* the grouping the setup performs, read off the written lines: patterns in order of first appearance, within one
\* pattern the keys in order of first appearance, within one key the values in order
PatsOf(ids) == LET RECURSIVE F(_, _) F(q, acc) == IF q > Len(ids) THEN acc
                       ELSE F(q + 1, IF \E y \in 1..Len(acc) : acc[y] = Pool[ids[q]].pat THEN acc ELSE Append(acc, Pool[ids[q]].pat)) IN F(1, <<>>)
OpsOfPat(ids, pat) == LET RECURSIVE F(_) F(q) == IF q > Len(ids) THEN <<>> ELSE (IF Pool[ids[q]].pat = pat THEN Pool[ids[q]].ops ELSE <<>>) \o F(q + 1) IN F(1)
KeysOf(ops) == LET RECURSIVE F(_, _) F(q, acc) == IF q > Len(ops) THEN acc
                       ELSE F(q + 1, IF \E y \in 1..Len(acc) : acc[y] = HKey(ops[q]) THEN acc ELSE Append(acc, HKey(ops[q]))) IN F(1, <<>>)
GroupByKey(ops) == LET ks == KeysOf(ops)
                       RECURSIVE F(_) F(q) == IF q > Len(ks) THEN <<>> ELSE SelectSeq(ops, LAMBDA o : HKey(o) = ks[q]) \o F(q + 1) IN F(1)
BaseOfPat(ids, pat) == Pool[CHOOSE id \in {ids[q] : q \in 1..Len(ids)} : Pool[id].pat = pat].base
GroupedOps(ids) == LET ps == PatsOf(ids)
                       RECURSIVE F(_) F(q) == IF q > Len(ps) THEN <<>>
                                              ELSE (IF PathMatches(cur, BaseOfPat(ids, ps[q])) THEN GroupByKey(OpsOfPat(ids, ps[q])) ELSE <<>>) \o F(q + 1) IN F(1)
RegroupSensitive == {n \in HdrNames : OpsOn(GroupedOps(site["header"]), n) # OpsOn(MatchingOps(site["header"], 1), n)}
DeletedNames == {n \in HdrNames : \E q \in 1..Len(MatchingOps(site["header"], 1)) :
                                     MatchingOps(site["header"], 1)[q].k = "del" /\ MatchingOps(site["header"], 1)[q].n = n}
FreeNames(a) == {n \in DeletedNames : g.hnext[n] # <<>>} \cup (IF a.via = "outside" THEN {n \in DeletedNames : hdr[n] # <<>>} ELSE {}) \cup RegroupSensitive

Out(a, h) == [status |-> a.status, kind |-> a.kind, file |-> a.file, loc |-> a.loc, via |-> a.via,
              reached |-> g.reached, saw |-> g.sawPath, sawrid |-> g.sawRid, rid |-> rid, fresh |-> g.fresh,
              hdr |-> h, free |-> FreeNames(a), extk |-> g.extK, idxk |-> g.idxK, sel |-> g.sel, mime |-> g.mimeCT]
\* net/http: a body without Content-Type is sniffed
Net == /\ pc = "net"
       /\ LET h == IF hdr[CT] = <<>> /\ HasBody(ans) THEN [hdr EXCEPT ![CT] = <<Auto>>] ELSE hdr
          IN hdr' = h /\ fin' = Out(ans, h)
       /\ rids' = Append(rids, [rid |-> rid, fresh |-> g.fresh])
       /\ pc' = "done"
       /\ UNCHANGED <<site, sd, sl, cfg, x, nfresh, cur, rid, dfr, i, j, sel, sf, ans, g>>

Next == \/ \E id \in GoodIds : AddLine(id)
        \/ \E id \in BadIds : AddBad(id)
        \/ StartSetup
        \/ ParseIndex \/ ParseRid \/ ParseExt \/ ParseHeader \/ ParseErrors \/ ParseStatus \/ ParseMime \/ ParsePprof \/ ParseExpvar \/ ParseBrowse
        \/ NextDirective
        \/ StartRequest \/ RequestID \/ ExtBegin \/ ExtTry \/ HeaderRule \/ HeaderOp \/ HeaderNext
        \/ StatusSelect \/ StatusAnswer \/ MimeSet \/ Pprof \/ Expvar \/ Browse \/ Inner
        \/ FsOpen \/ FsIndex \/ FsServe \/ Commit \/ ErrorsPage \/ Fallback \/ Net \/ Finish
Spec == Init /\ [][Next]_vars

-----------------------------------------------------------------------------
(* 6. the guarantees, from the lines as written *)

Serving == pc \notin {"build", "setup", "refused", "ready", "end"}
Stages == {"rid", "ext", "exttry", "header", "status", "mime", "pprof", "expvar", "browse", "inner", "fs", "fsindex", "fsserve"}
TypeOK == /\ pc \in {"build", "setup", "refused", "ready", "commit", "fallback", "net", "done", "end"} \cup Stages
          /\ \A d \in Directives : \A q \in 1..Len(site[d]) : site[d][q] \in Ids /\ Pool[site[d][q]].d = d
          /\ NLines(site) <= MaxLines /\ x \in 0..NReq /\ Len(rids) \in {x - 1, x} \cup {0}
          /\ \A n \in HdrNames : \A q \in 1..Len(hdr[n]) : hdr[n][q] # ""  \/ n = "X-Rid"
          /\ dfr \subseteq HdrNames

LinesOf(d) == site[d]
LineSeq(d) == [q \in 1..Len(site[d]) |-> Pool[site[d][q]]]
\* ---- SetupRejectsDuplicatesAndBadArity
MimeEntries == LET RECURSIVE F(_) F(q) == IF q > Len(site["mime"]) THEN <<>> ELSE Pool[site["mime"][q]].entries \o F(q + 1) IN F(1)
StatusBases == LET RECURSIVE F(_) F(q) == IF q > Len(site["status"]) THEN <<>> ELSE Pool[site["status"][q]].bases \o F(q + 1) IN F(1)
StatusCodes == LET RECURSIVE F(_) F(q) == IF q > Len(site["status"]) THEN <<>>
                   ELSE [y \in 1..Len(Pool[site["status"][q]].bases) |-> Pool[site["status"][q]].code] \o F(q + 1) IN F(1)
NoDup(s) == \A a, b \in 1..Len(s) : a # b => s[a] # s[b]
WellFormed == /\ \A q \in 1..Len(AllLines(site)) : AllLines(site)[q] \in GoodIds                \* arity and form of every line
              /\ NoDup([q \in 1..Len(MimeEntries) |-> MimeEntries[q].e])                         \* one type per extension
              /\ NoDup(StatusBases)                                                               \* one code per path
              /\ Len(site["pprof"]) <= 1                                                          \* pprof once
              /\ NoDup([q \in 1..Len(site["browse"]) |-> Pool[site["browse"][q]].base])           \* one browse configuration per path
SetupRejectsDuplicatesAndBadArity ==
    /\ (pc = "refused" => ~WellFormed)
    /\ (pc \in {"ready", "end"} \cup (IF Serving THEN {pc} ELSE {}) => WellFormed)
\* what an accepted site compiled is the written lines, nothing dropped, nothing reordered
Flatten(d, f) == LET RECURSIVE F(_) F(q) == IF q > Len(site[d]) THEN <<>> ELSE Pool[site[d][q]][f] \o F(q + 1) IN F(1)
SetupInv == pc = "ready" =>
    /\ cfg.index = (IF site["index"] = <<>> THEN DefaultIndex ELSE Flatten("index", "names"))
    /\ cfg.exts = Flatten("ext", "exts")
    /\ cfg.ridOn = (site["request_id"] # <<>>) /\ cfg.errorsOn = (site["errors"] # <<>>)
    /\ [q \in 1..Len(cfg.srules) |-> cfg.srules[q].base] = StatusBases /\ [q \in 1..Len(cfg.srules) |-> cfg.srules[q].code] = StatusCodes
    /\ \A e \in MimeExts : cfg.mime[e] = (IF \E q \in 1..Len(MimeEntries) : MimeEntries[q].e = e
                                          THEN MimeEntries[CHOOSE q \in 1..Len(MimeEntries) : MimeEntries[q].e = e].t ELSE "")
    /\ [q \in 1..Len(cfg.hrules) |-> cfg.hrules[q].pat] = PatsOf(site["header"])
    /\ \A q \in 1..Len(cfg.hrules) : cfg.hrules[q].keys = KeysOf(OpsOfPat(site["header"], cfg.hrules[q].pat))

AtDone == pc = "done"
Fin == fin
\* ---- AllMatchingHeaderRulesApplyInOrder: when header calls the next handler, every header name carries the result of
\* the operations of ALL matching lines, applied in the order written (names whose operations the setup regroups excepted)
RECURSIVE FoldOps(_, _, _)
FoldOps(v, ops, q) == IF q > Len(ops) THEN v
                      ELSE FoldOps(CASE ops[q].k = "del" -> <<>> [] ops[q].k = "add" -> Append(v, Expand(ops[q].v)) [] ops[q].k = "set" -> <<Expand(ops[q].v)>>, ops, q + 1)
AllMatchingHeaderRulesApplyInOrder ==
    AtDone /\ g.hran => \A n \in HdrNames :
        /\ g.hnext[n] = FoldOps(<<>>, OpsOn(GroupedOps(site["header"]), n), 1)
        /\ (n \notin RegroupSensitive => g.hnext[n] = FoldOps(<<>>, OpsOn(MatchingOps(site["header"], 1), n), 1))
\* ---- HandlerWritesWinUnlessDeleted: whoever answers below `header` works on the values the rules left (Set replaces
\* them, Add appends to them); a name some matching rule deletes is absent from every response committed through the
\* wrapper, whatever was written later; on a fallback answer the later writes simply stay
RECURSIVE FoldDown(_, _, _)
FoldDown(v, ops, q) == IF q > Len(ops) THEN v
                       ELSE FoldDown(CASE ops[q].k = "del" -> <<>> [] ops[q].k = "add" -> Append(v, ops[q].v) [] ops[q].k = "set" -> <<ops[q].v>>, ops, q + 1)
Sniffed(n) == n = CT /\ HasBody(ans)
HandlerWritesWinUnlessDeleted ==
    AtDone => \A n \in HdrNames :
        LET below == FoldDown(g.hnext[n], OpsOn(g.down, n), 1)
            errset == IF n = CT THEN <<TextPlain>> ELSE IF n = XCTO THEN <<"nosniff">> ELSE below
        IN IF Fin.via = "wrapper"
           THEN IF n \in DeletedNames \/ below = <<>> THEN Fin.hdr[n] = (IF Sniffed(n) THEN <<Auto>> ELSE <<>>)
                ELSE Fin.hdr[n] = below
           ELSE Fin.hdr[n] = errset
\* ---- MimeOnlyForItsExtension: mime sets Content-Type exactly for the (rewritten) path's extension, to the one type written for it
DeclMime(e) == IF \E q \in 1..Len(MimeEntries) : MimeEntries[q].e = e THEN MimeEntries[CHOOSE q \in 1..Len(MimeEntries) : MimeEntries[q].e = e].t
               ELSE IF (\E q \in 1..Len(site["mime"]) : Pool[site["mime"][q]].defaults) /\ MimeDefault(e) # "" THEN MimeDefault(e)
               ELSE IF \E q \in 1..Len(MimeEntries) : MimeEntries[q].e = ".*" THEN MimeEntries[CHOOSE q \in 1..Len(MimeEntries) : MimeEntries[q].e = ".*"].t
               ELSE ""
StatusMatches == {q \in 1..Len(StatusBases) : PathMatches(cur, StatusBases[q])}
MimeOnlyForItsExtension ==
    AtDone => /\ g.mimeRan = (site["mime"] # <<>> /\ StatusMatches = {})
              /\ g.mimeCT = (IF g.mimeRan THEN DeclMime(PathExt(cur)) ELSE "")
              /\ (g.mimeCT # "" /\ Fin.kind = "file" /\ CT \notin DeletedNames => Fin.hdr[CT] = <<g.mimeCT>>)
\* ---- StatusRuleAnswersExactlyItsPaths: a request is answered by `status` iff a written path is a prefix of its (rewritten)
\* path; the code is that of the longest such path; nothing below sees the request
StatusRuleAnswersExactlyItsPaths ==
    AtDone => /\ (g.sel = 0) = (StatusMatches = {})
              /\ g.sel # 0 => /\ g.sel \in StatusMatches
                              /\ \A q \in StatusMatches : Len(BaseStr(StatusBases[q])) <= Len(BaseStr(StatusBases[g.sel]))
                              /\ Fin.status = StatusCodes[g.sel] /\ ~Fin.reached
                              /\ Fin.kind = (IF StatusCodes[g.sel] < 400 THEN "status" ELSE "error")
                              /\ Fin.via = (IF StatusCodes[g.sel] < 400 \/ site["errors"] # <<>> THEN "wrapper" ELSE "outside")
\* ---- RequestIDStableWithinRequest: one id per request wherever it is read; the client's id (normalised) iff a header name
\* is configured and the header holds a UUID; fresh ids differ from each other and from the client's
HdrRidOK(o) == \A q \in 1..Len(o.hdr["X-Rid"]) : "X-Rid" \in o.free \/ o.hdr["X-Rid"][q] = o.rid
RequestIDStableWithinRequest ==
    /\ AtDone => /\ (Fin.reached => Fin.sawrid = Fin.rid) /\ HdrRidOK(Fin)
                 /\ (site["request_id"] = <<>> => Fin.rid = "")
                 /\ (site["request_id"] # <<>> =>
                        LET named == \E q \in 1..Len(site["request_id"]) : Pool[site["request_id"][q]].name # ""
                            lastname == Pool[site["request_id"][CHOOSE q \in 1..Len(site["request_id"]) :
                                            Pool[site["request_id"][q]].name # "" /\ \A y \in (q+1)..Len(site["request_id"]) : Pool[site["request_id"][y]].name = ""]].name
                            client == named /\ lastname = ClientIdHeader /\ UuidValid(Rq0.cid)
                        IN Fin.fresh = ~client /\ (client => Fin.rid = UuidNorm(Rq0.cid)))
    /\ \A a, b \in 1..Len(rids) : a # b /\ rids[a].fresh /\ rids[b].fresh => rids[a].rid # rids[b].rid
    /\ \A a \in 1..Len(rids) : rids[a].fresh => rids[a].rid \notin {"", "cid:1"}
\* ---- IndexAndExtFirstExistingWins
OrigSegs == Rq0.p.segs
ExtList == Flatten("ext", "exts")
IndexList == IF site["index"] = <<>> THEN DefaultIndex ELSE Flatten("index", "names")
IndexAndExtFirstExistingWins ==
    AtDone => /\ g.extK # 0 => /\ ~Rq0.p.slash /\ ~Exists(OrigSegs)
                               /\ cur = Pth(WithExt(OrigSegs, ExtList[g.extK]), FALSE) /\ Exists(cur.segs)
                               /\ \A q \in 1..(g.extK - 1) : ~Exists(WithExt(OrigSegs, ExtList[q]))
              /\ g.extK = 0 => /\ cur = Rq0.p                                                      \* rewritten internally or not at all
                               /\ (ExtList # <<>> /\ ~Rq0.p.slash /\ OrigSegs # <<>> /\ ~Exists(OrigSegs)
                                      => \A q \in 1..Len(ExtList) : ~Exists(WithExt(OrigSegs, ExtList[q])))
              /\ Fin.kind = "file" /\ g.idxK # 0 => /\ IsDir(cur.segs) /\ cur.slash
                                                    /\ Fin.file = JoinSegs(Append(cur.segs, IndexList[g.idxK]))
                                                    /\ \A q \in 1..(g.idxK - 1) : ~IsFile(Append(cur.segs, IndexList[q]))
              /\ Fin.kind = "file" /\ g.idxK = 0 => Fin.file = JoinSegs(cur.segs) /\ IsFile(cur.segs)
              /\ Fin.kind = "listing" => \A q \in 1..Len(IndexList) : ~Exists(Append(cur.segs, IndexList[q]))
\* ---- fixed paths: expvar / pprof answer their path (prefix), pass everything else on
FixedPaths == AtDone => /\ Fin.kind = "pprof" => PathMatches(cur, PprofBase) /\ site["pprof"] # <<>>
                        /\ Fin.kind = "expvar" => site["expvar"] # <<>> /\ PathMatches(cur, Pool[site["expvar"][Len(site["expvar"])]].res)
                        /\ (site["pprof"] # <<>> /\ PathMatches(cur, PprofBase) /\ StatusMatches = {} => Fin.kind = "pprof")

\* ---- action properties: the site does not change while it serves, every loop moves forward by one, every request ends
StageNo(p) == CASE p = "rid" -> 1 [] p = "ext" -> 2 [] p = "exttry" -> 3 [] p = "header" -> 4 [] p = "status" -> 5 [] p = "mime" -> 6
                [] p = "pprof" -> 7 [] p = "expvar" -> 8 [] p = "browse" -> 9 [] p = "inner" -> 10 [] p = "fs" -> 11 [] p = "fsindex" -> 12
                [] p = "fsserve" -> 13 [] p = "fallback" -> 14 [] p = "commit" -> 15 [] p = "net" -> 16 [] p = "done" -> 17 [] OTHER -> 0
Rank == (NReq - x) * 100000 + (20 - StageNo(pc)) * 1000 - (i * 20 + j)
Progress == [][Serving => (pc' # "end" => Rank' < Rank) /\ UNCHANGED <<site, cfg>>]_vars
LoopsInOrder == [][/\ (pc = "exttry" /\ pc' = "exttry" => i' = i + 1)
                   /\ (pc = "status" /\ pc' = "status" /\ i <= Len(cfg.srules) => i' = i + 1)
                   /\ (pc = "fsindex" /\ pc' = "fsindex" => i' = i + 1)
                   /\ (pc = "header" /\ pc' = "header" => (i' = i /\ j' = j + 1) \/ (i' = i + 1 /\ j' = 0))]_vars
\* nothing gets stuck: every state that is not final has a successor (CHECK_DEADLOCK is off because final states exist)
NoStuck == (pc \in {"end", "refused"} \/ (pc = "build" /\ ~Sampled(site))) \/ ENABLED Next

-----------------------------------------------------------------------------
(* 7. emission: one head CASE, one CASE per site that was set up (accepted or refused), one per site and request (the expected answer) *)

SetToSeq(S) == LET RECURSIVE F(_) F(T) == IF T = {} THEN <<>> ELSE LET y == CHOOSE y \in T : TRUE IN <<y>> \o F(T \ {y}) IN F(S)
HdrJson(h) == [n \in HdrNames |-> h[n]]
OutJson(o) == [status |-> o.status, kind |-> o.kind, file |-> o.file, loc |-> o.loc, via |-> o.via, reached |-> o.reached,
               saw |-> o.saw, rid |-> o.rid, fresh |-> o.fresh, hdr |-> HdrJson(o.hdr), free |-> SetToSeq(o.free),
               extk |-> o.extk, idxk |-> o.idxk, sel |-> o.sel, mime |-> o.mime]
EmitHead(dummy) ==   \* (the parameter keeps TLC from evaluating this eagerly as a constant)
    PrintT(<<"CASE", ToJson([kind |-> "head",
        reqs |-> [y \in 1..NReq |-> [p |-> PStr(Reqs[y].p), inner |-> Reqs[y].inner, cid |-> Reqs[y].cid]],
        files |-> SetToSeq({JoinSegs(f) : f \in Files}), dirs |-> SetToSeq({BaseStr(d0) : d0 \in Dirs}),
        order |-> DirOrder, scripts |-> [sn \in DOMAIN InnerScripts |-> InnerScripts[sn]], names |-> SetToSeq(HdrNames),
        pool |-> [q \in 1..Len(IdSeq) |-> [id |-> IdSeq[q], d |-> Pool[IdSeq[q]].d, text |-> Pool[IdSeq[q]].text, bad |-> Pool[IdSeq[q]].bad]]])>>)
EmitSite == PrintT(<<"CASE", ToJson([kind |-> "site", ids |-> AllLines(site), ok |-> pc = "ready"])>>)
EmitAns  == PrintT(<<"CASE", ToJson([kind |-> "ans", ids |-> AllLines(site), x |-> x, out |-> OutJson(fin)])>>)
Emit == /\ (pc = "build" /\ NLines(site) = 0 => EmitHead(site))
        /\ (pc \in {"ready", "refused"} => EmitSite)
        /\ (pc = "done" => EmitAns)
=============================================================================
