----------------------------- MODULE CleanPath -----------------------------
(***************************************************************************)
(* Go's path.Clean on slash-separated paths, as a stack machine over       *)
(* segments.  A path is the sequence of its segments: the text between     *)
(* two slashes.  "/a//b/." is <<"a", "", "b", ".">>, "/" is <<>> and a     *)
(* trailing slash is a trailing empty segment ("/a/" = <<"a", "">>).       *)
(* Segment names are opaque strings; only "", "." and ".." are special -   *)
(* "..gz" or "\" are ordinary names.                                       *)
(*                                                                         *)
(*   Clean(S)     path.Clean("/" + S)  - rooted: ".." at the root stays at *)
(*                the root.  This is what http.Dir.Open does to every name *)
(*                (the jail of the file server), and what path.Clean does  *)
(*                to a request path that starts with "/".                  *)
(*   CleanRel(S)  path.Clean(S) for a path WITHOUT a leading slash         *)
(*                (rewrite.To leaves such paths in r.URL.Path): leading    *)
(*                ".." segments are kept, the empty result is ".".         *)
(* Used by FileServe (C02), Protect (C03) and PathMatch.                   *)
(***************************************************************************)
EXTENDS Naturals, Sequences

Pop(stack) == SubSeq(stack, 1, Len(stack) - 1)

\* one step of the machine: consume segment s with the given stack
CleanStep(stack, s) ==
    IF s = "" \/ s = "." THEN stack
    ELSE IF s = ".." THEN (IF stack = <<>> THEN <<>> ELSE Pop(stack))
    ELSE Append(stack, s)

RECURSIVE CleanFrom(_, _)
CleanFrom(S, stack) == IF S = <<>> THEN stack ELSE CleanFrom(Tail(S), CleanStep(stack, Head(S)))

Clean(S) == CleanFrom(S, <<>>)

\* the unrooted machine: ".." that cannot pop a name is kept (path.Clean("../x") = "../x")
CleanRelStep(stack, s) ==
    IF s = "" \/ s = "." THEN stack
    ELSE IF s = ".." THEN (IF stack = <<>> \/ stack[Len(stack)] = ".." THEN Append(stack, "..") ELSE Pop(stack))
    ELSE Append(stack, s)

RECURSIVE CleanRelFrom(_, _)
CleanRelFrom(S, stack) == IF S = <<>> THEN stack ELSE CleanRelFrom(Tail(S), CleanRelStep(stack, Head(S)))

CleanRel(S) == LET r == CleanRelFrom(S, <<>>) IN IF r = <<>> THEN <<".">> ELSE r

\* does the textual path end with a slash?   ("/" itself does)
EndsSlash(S) == S = <<>> \/ S[Len(S)] = ""

\* path.Clean(url) "but preserve the trailing slash" (net/http.Redirect, Path.Matches)
CleanKeepSlash(S) == LET c == Clean(S) IN IF EndsSlash(S) /\ c # <<>> THEN Append(c, "") ELSE c

\* "for strings.HasPrefix(p, "//") { p = p[1:] }": drop leading empty segments while the
\* text still starts with two slashes
RECURSIVE TrimSlashes(_)
TrimSlashes(S) == IF Len(S) >= 2 /\ S[1] = "" THEN TrimSlashes(Tail(S)) ELSE S

\* ---- declarative lemmas about the machine, checked by TLC on a small universe at start-up
LemmaSegs == {"a", "b", "", ".", ".."}
LemmaPaths == {<<>>} \cup {<<x>> : x \in LemmaSegs} \cup {<<x, y>> : x, y \in LemmaSegs}
              \cup {<<x, y, z>> : x, y, z \in LemmaSegs}
NoSpecial(S) == \A i \in 1..Len(S) : S[i] \notin {"", ".", ".."}
ASSUME \A p \in LemmaPaths : NoSpecial(Clean(p))                          \* result is canonical
ASSUME \A p \in LemmaPaths : Clean(Clean(p)) = Clean(p)                   \* idempotent
ASSUME \A p \in LemmaPaths : NoSpecial(p) => Clean(p) = p                 \* canonical paths are fixed
ASSUME \A p \in LemmaPaths : Len(Clean(p)) <= Len(p)
ASSUME \A p \in LemmaPaths : \A x \in LemmaSegs : Clean(Append(p, x)) = CleanStep(Clean(p), x)
ASSUME \A p \in LemmaPaths : CleanRel(CleanRel(p)) = CleanRel(p)
ASSUME \A p \in LemmaPaths : NoSpecial(p) /\ p # <<>> => CleanRel(p) = p
=============================================================================
