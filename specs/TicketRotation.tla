--------------------------- MODULE TicketRotation ---------------------------
(***************************************************************************)
(* TLS session-ticket key rotation (caskettls/crypto.go) and the lifecycle *)
(* of its goroutine (caskethttp/httpserver/server.go Serve / Stop).        *)
(* Extension of C16: lives next to Lifecycle.tla and re-uses its event     *)
(* vocabulary (operations start | restart | stop, StopCall / StopRet,      *)
(* ServeBegin / ServeEnd).                                                 *)
(*                                                                         *)
(* Layer A - one rotation goroutine r (standaloneTLSTicketKeyRotation):    *)
(*   SpawnRot   RotateSessionTicketKeys: make(chan), NewTicker, go ...     *)
(*   InitGen    io.ReadFull(rng, keys[0][:])  ok | error                   *)
(*   Bail       error at start: SessionTicketsDisabled = true; return      *)
(*   InitSet    c.SetSessionTicketKeys(keys)           (first call)        *)
(*   RecvExit   select: <-exitChan, channel closed: return (ticker.Stop)   *)
(*   RecvTick   select: <-ticker.C                                         *)
(*   TickGen    io.ReadFull(c.Rand, newTicketKey[:])  ok | error           *)
(*   Shift      append if len < NumTickets; shift right; keys[0] = new     *)
(*              key if there is one                                        *)
(*   TickSet    c.SetSessionTicketKeys(keys)                               *)
(* and its environment: TickFire (the ticker channel, capacity one, gets a *)
(* tick; the entropy source c.Rand works or not at that time) and          *)
(* CloseChan (close(exitChan)).  Keys are abstracted to their generation   *)
(* number (1, 2, 3 ... per goroutine, in the order the entropy source      *)
(* delivered them).                                                        *)
(*                                                                         *)
(* Layer B - who starts and stops the goroutine: a controller executes a   *)
(* history of start / restart / stop operations on instances of 1..3       *)
(* servers (TLS or plain); a server's Serve goroutine starts the rotation  *)
(* when the server has a TLS configuration (ServeBegin) and the rotation   *)
(* is told to stop when the server stops.  Repaired = TRUE is the design   *)
(* after the repair this check led to (Serve closes the channel when it    *)
(* returns); Repaired = FALSE is the code as found (Server.Stop closes     *)
(* s.tlsGovChan, only after a Shutdown without error and only if Serve has *)
(* already stored the channel) - TicketRotationSrv_asfound.cfg shows TLC   *)
(* refuting NoRotationAfterServe for it.                                   *)
(*                                                                         *)
(* The guarantees are written declaratively below the actions.             *)
(* TicketRotationTrace.tla validates traces of the real code against       *)
(* these actions.                                                          *)
(***************************************************************************)
EXTENDS Integers, Sequences, FiniteSets, TLC, Json

CONSTANTS MaxSrv,     \* rotation goroutines / servers that can exist in one behaviour
          Caps,       \* values of NumTickets explored (the real constant is 4)
          MaxTicks,   \* ticks per goroutine
          MaxOps,     \* length of the start / restart / stop histories (layer B)
          Repaired,   \* TRUE: design after the repair; FALSE: as found
          Sync        \* TRUE: the environment of layer A acts only at the points a sequential
                      \*       harness can reproduce (script emission); FALSE: every interleaving

R == 1..MaxSrv
Gens == 1..(MaxTicks + 1)
Range(s) == {s[i] : i \in 1..Len(s)}
Min(a, b) == IF a < b THEN a ELSE b

VARIABLES
    rot,     \* [R -> record]: one rotation goroutine and what belongs to it, see NoRot
    script,  \* layer A, Sync only: the environment's steps so far (what the harness replays)
    \* layer B (vocabulary of Lifecycle.tla)
    hist,    \* operations begun so far
    pc,      \* controller step inside the current operation
    op,      \* the operation in progress
    cur,     \* servers of the live instance (sequence of ids), <<>> if none
    new,     \* servers of the instance being started
    old,     \* servers being stopped (old instance of a restart / the instance of a stop)
    k, ph,   \* index into old; 0: Stop() of old[k] not called yet, 1: called, not returned
    srv,     \* [R -> [tls, spawned, begun, stopreq, stopdone, ended, gov]]
    nsrv     \* server ids handed out

srvv == <<hist, pc, op, cur, new, old, k, ph, srv, nsrv>>
vars == <<rot, script, hist, pc, op, cur, new, old, k, ph, srv, nsrv>>

NoRot == [pc |-> "none",        \* none | init | bail | initset | select | gen | shift | set | done
          keys |-> <<>>,        \* the goroutine's local slice `keys` (newest first)
          newk |-> 0,           \* newTicketKey of the tick in progress, 0 = ReadFull failed
          conf |-> <<>>,        \* the list last handed to SetSessionTicketKeys (what TLS uses)
          disabled |-> FALSE,   \* c.SessionTicketsDisabled
          chan |-> "none",      \* the exit channel: none | open | closed
          pending |-> FALSE,    \* a tick sits in the ticker channel
          tstopped |-> FALSE,   \* ticker.Stop() has run (deferred)
          rngok |-> TRUE,       \* state of the entropy source c.Rand
          cap |-> 0,            \* NumTickets
          \* history variables (only read by the properties)
          ngen |-> 0,           \* keys generated so far = generation number of the newest
          setno |-> 0,          \* SetSessionTicketKeys calls so far
          fired |-> 0,          \* ticks fired so far
          nfail |-> 0,          \* failed entropy reads so far
          nspawn |-> 0,         \* times a goroutine was spawned for this server
          supAt |-> [g \in Gens |-> 0],   \* setno of the call with which g stopped being the first key
          dropAt |-> [g \in Gens |-> 0],  \* setno of the call with which g left the list
          budget |-> 0]         \* after close: further Set calls that outstanding ticks still allow

NoSrv == [tls |-> FALSE, spawned |-> FALSE, begun |-> FALSE, stopreq |-> FALSE,
          stopdone |-> FALSE, ended |-> FALSE, gov |-> FALSE]
NoOp == [t |-> "none", tls |-> <<>>, f |-> "none"]

Init ==
    /\ rot = [r \in R |-> NoRot]
    /\ script = <<>>
    /\ hist = <<>> /\ pc = "idle" /\ op = NoOp
    /\ cur = <<>> /\ new = <<>> /\ old = <<>> /\ k = 0 /\ ph = 0
    /\ srv = [s \in R |-> NoSrv]
    /\ nsrv = 0

Upd(r, x) == rot' = [rot EXCEPT ![r] = x]

\* ---- layer A: the goroutine ------------------------------------------------------------
\* every SetSessionTicketKeys(L) call: the list the TLS stack uses from now on, plus the
\* bookkeeping the properties are written over
Installed(x, L) ==
    [x EXCEPT !.conf = L,
              !.setno = @ + 1,
              !.supAt = [g \in Gens |-> IF x.supAt[g] = 0 /\ x.conf # <<>> /\ x.conf[1] = g /\ L[1] # g
                                          THEN x.setno + 1 ELSE x.supAt[g]],
              !.dropAt = [g \in Gens |-> IF x.dropAt[g] = 0 /\ g \in Range(x.conf) /\ g \notin Range(L)
                                           THEN x.setno + 1 ELSE x.dropAt[g]],
              !.budget = IF x.chan = "closed" THEN @ - 1 ELSE @]

\* a list without adjacent repetitions (after a failed entropy read the code keeps the first key
\* in the first two slots: "temporarily disables ticket key rotation" - whether the slot is
\* filled twice or the list is one shorter is not something anybody relies on)
Dedup(L) == SelectSeq([i \in 1..Len(L) |-> IF i > 1 /\ L[i] = L[i - 1] THEN 0 ELSE L[i]], LAMBDA e : e # 0)
\* an observed list conforms to the model's when they agree up to such repetitions and
\* contain nothing but keys the entropy source really delivered
Conforms(x, L) == /\ Len(L) >= 1
                  /\ \A i \in 1..Len(L) : L[i] \in 1..x.ngen
                  /\ Dedup(L) = Dedup(x.keys)

\* io.ReadFull(rng, keys[0][:]) at start
InitGen(r, ok) ==
    LET x == rot[r] IN
    /\ x.pc = "init" /\ ok = x.rngok
    /\ IF ok THEN Upd(r, [x EXCEPT !.pc = "initset", !.ngen = @ + 1, !.keys = <<x.ngen + 1>>])
             ELSE Upd(r, [x EXCEPT !.pc = "bail", !.disabled = TRUE, !.nfail = @ + 1])
\* "bail if we don't have the entropy for the first one": return (deferred ticker.Stop)
Bail(r) ==
    LET x == rot[r] IN
    /\ x.pc = "bail"
    /\ Upd(r, [x EXCEPT !.pc = "done", !.tstopped = TRUE])
InitSetObs(r, L) ==
    LET x == rot[r] IN
    /\ x.pc = "initset" /\ Conforms(x, L)
    /\ Upd(r, [Installed(x, L) EXCEPT !.pc = "select"])
InitSet(r) == InitSetObs(r, rot[r].keys)

\* select { case <-exitChan (closed): return ... }
RecvExit(r) ==
    LET x == rot[r] IN
    /\ x.pc = "select" /\ x.chan = "closed"
    /\ Upd(r, [x EXCEPT !.pc = "done", !.tstopped = TRUE])
\* select { ... case <-ticker.C: }
RecvTick(r) ==
    LET x == rot[r] IN
    /\ x.pc = "select" /\ x.pending
    /\ Upd(r, [x EXCEPT !.pc = "gen", !.pending = FALSE])
\* rng = c.Rand; _, err := io.ReadFull(rng, newTicketKey[:])
TickGen(r, ok) ==
    LET x == rot[r] IN
    /\ x.pc = "gen" /\ ok = x.rngok
    /\ IF ok THEN Upd(r, [x EXCEPT !.pc = "shift", !.ngen = @ + 1, !.newk = x.ngen + 1])
             ELSE Upd(r, [x EXCEPT !.pc = "shift", !.newk = 0, !.nfail = @ + 1])
\* the three statements between the read and the Set call
Shift(r) ==
    LET x == rot[r]
        grown == IF Len(x.keys) < x.cap THEN Append(x.keys, x.keys[1]) ELSE x.keys   \* manipulates the internal length
        shifted == [i \in 1..Len(grown) |-> IF i = 1 THEN grown[1] ELSE grown[i - 1]]  \* keys[idx] = keys[idx-1]
        replaced == IF x.newk # 0 THEN [shifted EXCEPT ![1] = x.newk] ELSE shifted     \* if err == nil
    IN /\ x.pc = "shift"
       /\ Upd(r, [x EXCEPT !.pc = "set", !.keys = replaced])
\* "pushes the last key out, doesn't matter that we don't have a new one"
TickSetObs(r, L) ==
    LET x == rot[r] IN
    /\ x.pc = "set" /\ Conforms(x, L)
    /\ Upd(r, [Installed(x, L) EXCEPT !.pc = "select"])
TickSet(r) == TickSetObs(r, rot[r].keys)

Go(r) == \/ \E ok \in BOOLEAN : InitGen(r, ok) \/ TickGen(r, ok)
         \/ Bail(r) \/ InitSet(r) \/ RecvExit(r) \/ RecvTick(r) \/ Shift(r) \/ TickSet(r)

\* ---- layer A: what surrounds the goroutine ----------------------------------------------
\* RotateSessionTicketKeys(cfg): ch := make(chan struct{}); ticker := time.NewTicker(...); go ...
SpawnRot(r, c, ok) ==
    LET x == rot[r] IN
    /\ x.pc = "none"
    /\ Upd(r, [x EXCEPT !.pc = "init", !.chan = "open", !.cap = c, !.rngok = ok, !.nspawn = @ + 1])
\* the ticker fires into its one-slot channel (a tick that finds the slot taken is dropped);
\* ok = whether c.Rand delivers at that time ("could've changed since the start")
TickFire(r, ok) ==
    LET x == rot[r] IN
    /\ x.pc # "none" /\ ~x.pending /\ ~x.tstopped /\ x.fired < MaxTicks
    /\ Upd(r, [x EXCEPT !.pending = TRUE, !.rngok = ok, !.fired = @ + 1,
                        !.budget = IF x.chan = "closed" THEN @ + 1 ELSE @])
\* close(exitChan)
CloseChan(r) ==
    LET x == rot[r] IN
    /\ x.chan = "open"
    /\ Upd(r, [x EXCEPT !.chan = "closed",
                        !.budget = (IF x.pc \in {"init", "initset", "gen", "shift", "set"} THEN 1 ELSE 0)
                                   + (IF x.pending THEN 1 ELSE 0)])

\* the environment of a goroutine driven on its own (no servers): what the harness scripts
Rec(e) == script' = IF Sync THEN Append(script, e) ELSE script
EnvSpawn(r, c, ok) == /\ SpawnRot(r, c, ok)
                      /\ Rec([op |-> "spawn", ok |-> ok, at |-> "-", cap |-> c])
EnvTick(r, ok) == /\ Sync => (rot[r].pc = "select" /\ rot[r].chan = "open")
                  /\ TickFire(r, ok)
                  /\ Rec([op |-> "tick", ok |-> ok, at |-> "-", cap |-> 0])
\* closing "at any point": idle (goroutine parked in the select), mid (inside a tick, blocked in
\* the entropy read), race (a tick is in the channel: the select may take either case)
EnvClose(r) == /\ Sync => (rot[r].pending \/ rot[r].pc \in {"gen", "select", "done"})
               /\ CloseChan(r)
               /\ Rec([op |-> "close", ok |-> TRUE, cap |-> 0,
                       at |-> IF rot[r].pending THEN "race" ELSE IF rot[r].pc = "gen" THEN "mid" ELSE "idle"])

NextRot == /\ \/ \E c \in Caps, ok \in BOOLEAN : EnvSpawn(1, c, ok)
              \/ \E ok \in BOOLEAN : EnvTick(1, ok)
              \/ EnvClose(1)
              \/ (Go(1) /\ UNCHANGED script)
           /\ UNCHANGED srvv
SpecRot == Init /\ [][NextRot]_vars /\ WF_vars(Go(1) /\ UNCHANGED script /\ UNCHANGED srvv)

\* ---- layer B: servers and the controller --------------------------------------------------
TlsVecs == {<<TRUE>>, <<FALSE>>, <<TRUE, TRUE>>, <<TRUE, FALSE>>}
Ops == [t : {"start", "restart"}, tls : TlsVecs, f : {"none", "setup"}]
       \cup [t : {"stop"}, tls : {<<>>}, f : {"none"}]

Applicable(o) == IF o.t = "start" THEN cur = <<>> ELSE cur # <<>>

\* casket.Start / Instance.Restart / Instance.Stop is called.  A configuration that is refused
\* (f = "setup") never gets as far as creating servers.
BeginOp(o) ==
    /\ pc = "idle" /\ Len(hist) < MaxOps /\ Applicable(o)
    /\ hist' = Append(hist, o) /\ op' = o
    /\ IF o.t = "stop"
         THEN /\ old' = cur /\ cur' = <<>> /\ k' = 1 /\ ph' = 0 /\ pc' = "stop"
              /\ UNCHANGED <<new, srv, nsrv>>
         ELSE IF o.f = "setup"
              THEN pc' = "reterr" /\ UNCHANGED <<cur, new, old, k, ph, srv, nsrv>>
              ELSE /\ nsrv + Len(o.tls) <= MaxSrv
                   /\ new' = [i \in 1..Len(o.tls) |-> nsrv + i]
                   /\ srv' = [s \in R |-> IF s > nsrv /\ s <= nsrv + Len(o.tls)
                                            THEN [NoSrv EXCEPT !.tls = o.tls[s - nsrv]] ELSE srv[s]]
                   /\ nsrv' = nsrv + Len(o.tls)
                   /\ pc' = "spawn"
                   /\ UNCHANGED <<cur, old, k, ph>>
    /\ UNCHANGED <<rot, script>>

\* startServers, second loop: go s.Serve(ln) for every server of the new instance; a restart
\* then goes on to stop the old instance
SpawnAll ==
    /\ pc = "spawn"
    /\ srv' = [s \in R |-> IF s \in Range(new) THEN [srv[s] EXCEPT !.spawned = TRUE] ELSE srv[s]]
    /\ cur' = new /\ new' = <<>>
    /\ IF op.t = "restart" THEN old' = cur /\ k' = 1 /\ ph' = 0 /\ pc' = "stop"
                           ELSE pc' = "retok" /\ UNCHANGED <<old, k, ph>>
    /\ UNCHANGED <<rot, script, hist, op, nsrv>>

\* Server.Stop of old[k] is entered: http.Server.Shutdown closes the listener, Serve returns
StopCall ==
    /\ pc = "stop" /\ ph = 0
    /\ srv' = [srv EXCEPT ![old[k]].stopreq = TRUE]
    /\ ph' = 1
    /\ UNCHANGED <<rot, script, hist, pc, op, cur, new, old, k, nsrv>>
\* ... and returns: Shutdown drained the connections (ok) or ran into the grace period (timeout).
\* As found, this is where the rotation is told to stop: only after a Shutdown without error and
\* only if Serve has stored the channel in s.tlsGovChan by now.
StopRet(res) ==
    /\ pc = "stop" /\ ph = 1
    /\ srv' = [srv EXCEPT ![old[k]].stopdone = TRUE]
    /\ IF ~Repaired /\ res = "ok" /\ srv[old[k]].gov /\ rot[old[k]].chan = "open"
         THEN CloseChan(old[k]) ELSE UNCHANGED rot
    /\ ph' = 0
    /\ IF k < Len(old) THEN k' = k + 1 /\ UNCHANGED pc ELSE pc' = "retok" /\ UNCHANGED k
    /\ UNCHANGED <<script, hist, op, cur, new, old, nsrv>>
Return ==
    /\ pc \in {"retok", "reterr"}
    /\ pc' = "idle"
    /\ UNCHANGED <<rot, script, hist, op, cur, new, old, k, ph, srv, nsrv>>

\* the server goroutine enters Serve: a server with a TLS configuration starts the rotation
ServeBegin(s, c, ok) ==
    /\ srv[s].spawned /\ ~srv[s].begun
    /\ srv' = [srv EXCEPT ![s].begun = TRUE, ![s].gov = srv[s].tls]
    /\ IF srv[s].tls THEN SpawnRot(s, c, ok) ELSE UNCHANGED rot
    /\ UNCHANGED <<script, hist, pc, op, cur, new, old, k, ph, nsrv>>
\* s.Server.Serve(ln) returns once Shutdown has begun (at once if it began before Serve);
\* repaired: the deferred close(tlsGovChan) runs
ServeEnd(s) ==
    /\ srv[s].begun /\ srv[s].stopreq /\ ~srv[s].ended
    /\ srv' = [srv EXCEPT ![s].ended = TRUE]
    /\ IF Repaired /\ srv[s].tls THEN CloseChan(s) ELSE UNCHANGED rot
    /\ UNCHANGED <<script, hist, pc, op, cur, new, old, k, ph, nsrv>>

Controller == \/ \E o \in Ops : BeginOp(o)
              \/ SpawnAll \/ StopCall \/ (\E res \in {"ok", "timeout"} : StopRet(res)) \/ Return
Goroutines(s) == \/ \E c \in Caps, ok \in BOOLEAN : ServeBegin(s, c, ok)
                 \/ ServeEnd(s)
                 \/ (Go(s) /\ UNCHANGED <<script, srvv>>)
Ticker(s) == (\E ok \in BOOLEAN : TickFire(s, ok)) /\ UNCHANGED <<script, srvv>>

NextSrv == Controller \/ \E s \in R : Goroutines(s) \/ Ticker(s)
SpecSrv == Init /\ [][NextSrv]_vars /\ WF_vars(Controller) /\ \A s \in R : WF_vars(Goroutines(s))
\* the controller alone: emission of the histories the end-to-end run executes
NextCtl == Controller

\* ---- the guarantees, layer A ------------------------------------------------------------------
On(x) == x.setno >= 1          \* rotation is on: the first key has been installed

TypeOK == /\ \A r \in R : /\ rot[r].pc \in {"none", "init", "bail", "initset", "select", "gen", "shift", "set", "done"}
                          /\ rot[r].chan \in {"none", "open", "closed"}
          /\ pc \in {"idle", "spawn", "stop", "retok", "reterr"}

\* the list is never empty while rotation is on, and nothing is ever set when it is disabled
NonEmpty == \A r \in R : /\ On(rot[r]) => Len(rot[r].conf) >= 1
                         /\ rot[r].disabled => (rot[r].setno = 0 /\ rot[r].conf = <<>>)
\* at most NumTickets keys
CapBound == \A r \in R : Len(rot[r].conf) <= rot[r].cap
\* the first key (the one new tickets are encrypted with) is the most recently generated one,
\* and older keys sit further back
FirstIsNewest == \A r \in R : LET x == rot[r] IN
    /\ (On(x) /\ x.pc \in {"select", "done"}) => x.conf[1] = x.ngen
    /\ \A i, j \in 1..Len(x.conf) : i < j => x.conf[i] >= x.conf[j]
\* a ticket stays decryptable for NumTickets-1 rotation periods: a key leaves the list no
\* earlier than NumTickets-1 Set calls (= ticks) after it stopped being the first one
Lifetime == \A r \in R : \A g \in Gens : LET x == rot[r] IN
    x.dropAt[g] # 0 => (x.supAt[g] # 0 /\ x.dropAt[g] - x.supAt[g] >= x.cap - 1)
\* as long as the entropy source never failed that means: NumTickets-1 newer keys exist
NewerKeysExist == \A r \in R : \A g \in Gens : LET x == rot[r] IN
    (x.nfail = 0 /\ x.dropAt[g] # 0) => Cardinality({h \in Range(x.conf) : h > g}) >= x.cap - 1
\* keys are never reused: what has left the list stays out, everything in it came from the
\* entropy source
NoReuse == \A r \in R : LET x == rot[r] IN
    /\ \A g \in Gens : x.dropAt[g] # 0 => g \notin Range(x.conf)
    /\ \A i \in 1..Len(x.conf) : x.conf[i] \in 1..x.ngen
\* once the channel is closed only ticks that were already under way (or fire later still)
\* lead to a Set call
NoSetAfterClose == \A r \in R : rot[r].budget >= 0
\* "Stops the ticker when returning"
TickerStopped == \A r \in R : rot[r].pc = "done" => rot[r].tstopped
\* the list grows by one per tick up to NumTickets (the model's own list; an observed list may
\* be shorter by the repetitions, see Dedup)
Growth == \A r \in R : On(rot[r]) => Len(rot[r].conf) = Min(rot[r].cap, rot[r].setno)

\* after the stop channel is closed the goroutine terminates
ClosedLeadsToDone == \A r \in R : (rot[r].chan = "closed") ~> (rot[r].pc = "done")
\* a delivered tick is answered by a Set call (or the goroutine has been told to stop)
TickLeadsToSet == \A r \in R : \A n \in 0..MaxTicks :
    (rot[r].pending /\ rot[r].setno = n /\ On(rot[r])) ~> (rot[r].setno > n \/ rot[r].chan = "closed")

\* ---- the guarantees, layer B ------------------------------------------------------------------
LiveRot == {s \in R : rot[s].pc \notin {"none", "done"}}
\* nothing left to happen except ticks and new operations
Quiescent == \A s \in R :
    /\ srv[s].spawned => srv[s].begun
    /\ (srv[s].begun /\ srv[s].stopreq) => srv[s].ended
    /\ \/ rot[s].pc \in {"none", "done"}
       \/ rot[s].pc = "select" /\ rot[s].chan = "open" /\ ~rot[s].pending

\* (the servers that exist; a goroutine driven on its own - layer A, no servers - is not their business)
Servers == 1..nsrv
\* a plain server never has a rotation goroutine
PlainServerNoRotation == \A s \in Servers : ~srv[s].tls => (rot[s].pc = "none" /\ rot[s].chan = "none")
\* one goroutine per TLS server that began to serve, none before
OnePerServer == \A s \in Servers : rot[s].nspawn = (IF srv[s].tls /\ srv[s].begun THEN 1 ELSE 0)
\* while the server serves and nobody asked it to stop, its rotation is on
RotationWhileServing == \A s \in Servers :
    (srv[s].tls /\ srv[s].begun /\ ~srv[s].stopreq) =>
        /\ rot[s].chan = "open"
        /\ rot[s].pc = "done" => rot[s].disabled
\* no leak: once Serve has returned the rotation has been told to stop
NoRotationAfterServe == \A s \in Servers : srv[s].ended => rot[s].chan # "open"
\* at rest, the live rotation goroutines are exactly those of the live instance's TLS servers
LiveCount == (pc = "idle" /\ Quiescent) =>
    LiveRot \cap Servers = {s \in Range(cur) : srv[s].tls /\ ~rot[s].disabled}
\* ... and eventually so: a stopped server's goroutine goes away
StoppedLeadsToGone == \A s \in R : (s <= nsrv /\ srv[s].stopdone) ~> (rot[s].pc \in {"none", "done"})

\* ---- emission -----------------------------------------------------------------------------------
\* layer A scripts (cfg with Sync = TRUE): one CASE per finished script
EmitScript(x) == (x.pc = "done" /\ x.chan = "closed") => PrintT(<<"CASE", ToJson([ops |-> script])>>)
Emit == EmitScript(rot[1])
\* layer B histories (NEXT NextCtl): every history that ends with nothing running or at the bound
EmitHist == (pc = "idle" /\ hist # <<>> /\ (Len(hist) = MaxOps \/ cur = <<>>)) => PrintT(<<"CASE", ToJson([ops |-> hist])>>)
=============================================================================
