\* NOT part of the pipeline: the tree as found (run with -continue).  TLC refutes
\*   LengthCorrect                  412 for a precompressed file keeps the sibling's Content-Length (no body follows)
\*   RangeOfSelectedRepresentation  a 206 of the identity file compressed by the gzip middleware
\*   ValidatorPerRepresentation, ConditionalConsistent
\*                                  two codings with the same second and size share the strong ETag (known finding):
\*                                  a 304 / a range for the other coding (TLC names the first refuted invariant of a
\*                                  state; IfRangeSafe and PreconditionConsistent fail in the same states)
\* Measured (quick constants): LengthCorrect 638 states, RangeOfSelectedRepresentation 432, ValidatorPerRepresentation 68,
\* ConditionalConsistent 34.
\* See notes/StaticCond.md.
CONSTANT Repaired412 = FALSE
CONSTANT RepairedRange = FALSE
CONSTANT TagPerCoding = FALSE
CONSTANT Fams = {"C", "R", "X", "T"}
CONSTANT RelSet = {"same", "newer"}
CONSTANT UseCommon = TRUE
CONSTANT SiteNames = {"plain", "gzip"}
CONSTANT AENames = {"absent", "gzip", "br, gzip", "zstd", "gzip;q=0.5"}
CONSTANT AEXNames = {"br", "zstd", "gzip;q=0.5"}
CONSTANT Changes = {"none", "orig", "sel", "delsel", "addzst"}
CONSTANT Conds = {"none", "inm", "ims", "imsold", "im", "imbogus", "ius", "iusold"}
CONSTANT Rngs = {"none", "r2_11", "r5_", "rm7", "r0_0", "r10_999", "multi", "r999_"}
SPECIFICATION Spec
INVARIANT TypeOK
INVARIANT ValidatorPerRepresentation
INVARIANT ConditionalConsistent
INVARIANT DateConsistent
INVARIANT DateRangeSafe
INVARIANT PreconditionConsistent
INVARIANT RangeOfSelectedRepresentation
INVARIANT IfRangeSafe
INVARIANT HeadEqualsGet
INVARIANT LengthCorrect
INVARIANT VaryWhenNegotiated
INVARIANT TypeAndCoding
INVARIANT NoBodyWhenNotAllowed
INVARIANT FirstIsFull
CHECK_DEADLOCK FALSE
