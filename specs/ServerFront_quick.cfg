\* quick: two methods, both versions, 8 origin-form paths x 11 Host spellings (+ absent, duplicates),
\* absolute-form with 6 target hosts x 3 paths x 6 Host header variants, every authority-form /
\* asterisk-form / TLS / scripted / scoped-family head
CONSTANTS
  EMIT = TRUE
  FIX_KEY = TRUE
  FIX_TRIM = TRUE
  FIX_SNICLOSE = TRUE
  Methods = {"GET", "POST"}
  Versions = {"1.1", "1.0"}
  OriginPaths = {"/", "/x", "/base", "/base/x", "/basex", "//base/x", "/b%61se/x", "/base//e"}
  OriginHosts = {"a.test", "A.TEST", "a.test:{port}", "a.test.", "b.w.test", "w.test", "other.test", "[::1]", "[::1]:{port}", "", "a.test/base"}
  AbsHosts = {"a.test", "A.Test:99", "b.w.test", "other.test", "[::1]:{port}", "a.test."}
  AbsPaths = {"", "/base/x", "/b%61se/x"}
SPECIFICATION Spec
INVARIANT TypeOK
INVARIANT ExactlyOneAnswer
INVARIANT HostDecidesSite
INVARIANT SanitisedHostEqualsMatchKey
INVARIANT FallbackBodyIffNothingWritten
INVARIANT NoSuchSiteIs404WithoutSiteLeak
INVARIANT ScopeTrimConsistent
INVARIANT HijackedMeansSilent
INVARIANT StrictSNIHolds
INVARIANT ServerHeaderOnOwnAnswers
INVARIANT Emit
PROPERTY Completes
CHECK_DEADLOCK FALSE
