CONSTANTS MaxReloads = 2
 MaxReqs = 2
 Addrs = {"p1", "p2"}
SPECIFICATION Spec
INVARIANTS NeverRefused OldOrNew AfterReturnNew FailedKeepsOld AtMostTwo
PROPERTY Answered
CHECK_DEADLOCK FALSE
