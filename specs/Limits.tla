------------------------------- MODULE Limits -------------------------------
(***************************************************************************)
(* C17, first half - request-body size limits.                             *)
(*                                                                         *)
(* Operational part, shaped like caskethttp/limits:                        *)
(*   Sort          setup.go: SortPathLimits - longest scope first; sort.Sort*)
(*                 is not stable, so any length-descending order may result *)
(*   TryScope      one iteration of the loop of Limit.ServeHTTP: the first *)
(*                 scope that httpserver.Path.Matches wins and the body is  *)
(*                 wrapped in a maxBytesReader{n: limit}                    *)
(*   Read(k)       one call of maxBytesReader.Read with len(p) = k: sticky *)
(*                 error, len(p) clamped to n+1, ONE read of the underlying *)
(*                 body (which may return any 1..len(p) bytes, with or      *)
(*                 without EOF, or fail), then the n <= remaining test     *)
(*   StopReading / ProxyReturn  the consumer: a handler that reads until   *)
(*                 it sees an error (and may keep calling Read afterwards),*)
(*                 or proxy.ServeHTTP mapping the transport's error.       *)
(* Declarative part: ChosenIsLongestScope, NeverBeyondLimit,               *)
(* DeliveredPrefix, ErrIff, Sticky, Proxy413 - written from the statement. *)
(*                                                                         *)
(* Deliberate deviations: paths have no "." / ".." segments (path.Clean is *)
(* modelled as slash collapsing + trailing-slash stripping); a body is a   *)
(* sequence of positions, so "prefix of the body" is a byte count (the     *)
(* harness compares the bytes); no two scopes of a table are equal up to   *)
(* case (the longest match would be ambiguous).                            *)
(***************************************************************************)
EXTENDS Integers, Sequences, FiniteSets, SequencesExt, TLC, Json

CONSTANTS K,        \* at most K entries in the limit table
          Lims,     \* the limit values (bytes)
          Record,   \* TRUE: keep the history of Read calls (emission of behaviours)
          Aborts,   \* TRUE: the underlying body may fail (client went away)
          MaxPost,  \* Read calls the handler may still make after it saw an error
          Modes     \* subset of {"handler", "proxy"}

NoLimit == -1
Big     == 99       \* stands for a 32 KiB buffer: larger than any body of the model

\* ---- paths ---------------------------------------------------------------
Scopes == { <<"/">>, <<"/","p">>, <<"/","p","/">>, <<"/","p","/","q">>, <<"/","p","q">>, <<"/","P">> }
ReqPaths == << <<"/">>, <<"/","p">>, <<"/","p","/">>, <<"/","p","/","q">>, <<"/","p","q">>,
               <<"/","P","/","q">>, <<"/","/","p","/","/","q">>, <<"/","x">>, <<"/","p","/","q","/","r">> >>

LowerCh(c) == IF c = "P" THEN "p" ELSE IF c = "Q" THEN "q" ELSE c
Lower(p) == [j \in 1..Len(p) |-> LowerCh(p[j])]
RECURSIVE Collapse(_)
Collapse(p) == IF Len(p) <= 1 THEN p
               ELSE IF p[1] = "/" /\ p[2] = "/" THEN Collapse(Tail(p))
               ELSE <<p[1]>> \o Collapse(Tail(p))
\* path.Clean on a rooted path without dot segments
CleanP(p) == LET c == Collapse(p) IN IF Len(c) > 1 /\ c[Len(c)] = "/" THEN SubSeq(c, 1, Len(c) - 1) ELSE c
HasTS(p) == Len(p) > 0 /\ p[Len(p)] = "/"
WithTS(p) == IF HasTS(p) THEN CleanP(p) \o <<"/">> ELSE CleanP(p)
\* httpserver.Path(p).Matches(base), CaseSensitivePath = false
Matches(p, base) == \/ base = <<"/">> \/ base = <<>>
                    \/ IsPrefix(Lower(WithTS(base)), Lower(WithTS(p)))

Entries == [s : Scopes, lim : Lims]
WellFormed(T) == \A a, b \in T : Lower(a.s) = Lower(b.s) => a = b
Tables == {T \in SUBSET Entries : Cardinality(T) <= K /\ WellFormed(T)}
None == [s |-> <<>>, lim |-> NoLimit]

\* ---- declarative: which limit applies --------------------------------------
LongestMatch(T, p) ==
    LET C == {e \in T : Matches(p, e.s)}
    IN  IF C = {} THEN None ELSE CHOOSE e \in C : \A f \in C : Len(e.s) >= Len(f.s)
MinI(a, b) == IF a < b THEN a ELSE b
\* what a consumer that reads to the end must have got: number of bytes, too-large?
MustDeliver(lm, ln) == IF lm = NoLimit THEN ln ELSE MinI(ln, lm)
MustBeTooLarge(lm, ln) == lm # NoLimit /\ ln > lm

VARIABLES table, rpath, mode,
          order,      \* the table after SortPathLimits
          pc, i,
          chosen,     \* entry whose limit wraps the body (None: body not wrapped)
          L,          \* length of the request body
          urem, udead,\* underlying body: bytes left, and whether it has failed
          n, serr,    \* maxBytesReader: remaining allowance, sticky error
          delivered,  \* bytes handed to the consumer so far
          ret,        \* result of the last Read call
          herr,       \* first error the consumer saw ("nil" while none)
          post,       \* Read calls made after that
          status,     \* proxy mode: status returned by proxy.ServeHTTP (0 = backend's response relayed)
          hist
vars == <<table, rpath, mode, order, pc, i, chosen, L, urem, udead, n, serr, delivered, ret, herr, post, status, hist>>

lim == chosen.lim
BodyLens(l) == IF l = NoLimit THEN {0, 1, 7} ELSE 0..(2 * l + 1)
ChunkSizes(l) == {1, l, l + 1, Big}

InitRest ==
    /\ order = <<>> /\ pc = "sort" /\ i = 1 /\ chosen = None
    /\ L = 0 /\ urem = 0 /\ udead = FALSE /\ n = 0 /\ serr = "nil" /\ delivered = 0
    /\ ret = [n |-> 0, err |-> "nil"] /\ herr = "nil" /\ post = 0 /\ status = 0 /\ hist = <<>>

Init ==
    /\ table \in Tables
    /\ rpath \in 1..Len(ReqPaths)
    /\ mode \in Modes
    /\ InitRest

\* setup.go: SortPathLimits (sort.Sort by len(Path) descending; equal lengths in any order)
Sort ==
    /\ pc = "sort"
    /\ order' \in {o \in SetToSeqs(table) : \A a, b \in 1..Len(o) : a < b => Len(o[a].s) >= Len(o[b].s)}
    /\ pc' = "scope"
    /\ UNCHANGED <<table, rpath, mode, i, chosen, L, urem, udead, n, serr, delivered, ret, herr, post, status, hist>>

\* handler.go: one iteration of `for _, bl := range l.BodyLimits`
TryScope ==
    /\ pc = "scope"
    /\ IF i > Len(order) THEN /\ pc' = "start" /\ UNCHANGED <<i, chosen>>
       ELSE IF Matches(ReqPaths[rpath], order[i].s)
         THEN /\ chosen' = order[i] /\ pc' = "start" /\ UNCHANGED i     \* MaxBytesReader(...); break
         ELSE /\ i' = i + 1 /\ UNCHANGED <<pc, chosen>>
    /\ UNCHANGED <<table, rpath, mode, order, L, urem, udead, n, serr, delivered, ret, herr, post, status, hist>>

\* the client's body arrives: any length around the limit
StartBody ==
    /\ pc = "start"
    /\ L' \in BodyLens(lim)
    /\ urem' = L'
    /\ n' = IF lim = NoLimit THEN 0 ELSE lim
    /\ pc' = "body"
    /\ UNCHANGED <<table, rpath, mode, order, i, chosen, udead, serr, delivered, ret, herr, post, status, hist>>

\* one Read(p) on the request body as net/http hands it out, len(p) = k >= 1:
\* any 1..k of the remaining bytes, EOF possibly together with the last ones; or a failure
UResp(k) ==
    IF udead THEN {[m |-> 0, e |-> "ABORT"]}
    ELSE IF urem = 0 THEN {[m |-> 0, e |-> "EOF"]}
    ELSE {[m |-> m, e |-> "nil"] : m \in 1..MinI(k, urem)}
         \cup (IF k >= urem THEN {[m |-> urem, e |-> "EOF"]} ELSE {})
         \cup (IF Aborts THEN {[m |-> m, e |-> "ABORT"] : m \in 0..(MinI(k, urem) - 1)} ELSE {})

Seen(e) == IF herr = "nil" /\ e # "nil" THEN e ELSE herr
Log(k, um, ue, rn, re) == IF Record THEN Append(hist, [k |-> k, um |-> um, ue |-> ue, n |-> rn, err |-> re]) ELSE hist

\* maxBytesReader.Read(p), len(p) = k
Read(k) ==
    /\ pc = "body" /\ lim # NoLimit
    /\ herr = "nil" \/ post < MaxPost
    /\ post' = IF herr = "nil" THEN 0 ELSE post + 1
    /\ IF serr # "nil"
         THEN \* `if l.err != nil { return 0, l.err }`
              /\ ret' = [n |-> 0, err |-> serr]
              /\ herr' = Seen(serr)
              /\ hist' = Log(k, -1, "nil", 0, serr)
              /\ UNCHANGED <<urem, udead, n, serr, delivered>>
         ELSE LET kk == IF k > n + 1 THEN n + 1 ELSE k IN      \* `p = p[:l.n+1]`
              \E r \in UResp(kk) :
                 /\ urem' = urem - r.m
                 /\ udead' = (r.e = "ABORT")
                 /\ IF r.m <= n
                      THEN /\ n' = n - r.m /\ serr' = r.e
                           /\ ret' = [n |-> r.m, err |-> r.e]
                           /\ delivered' = delivered + r.m
                           /\ herr' = Seen(r.e)
                           /\ hist' = Log(k, r.m, r.e, r.m, r.e)
                      ELSE /\ n' = 0 /\ serr' = "MAX"          \* ErrMaxBytesExceeded, requestTooLarge()
                           /\ ret' = [n |-> n, err |-> "MAX"]
                           /\ delivered' = delivered + n
                           /\ herr' = Seen("MAX")
                           /\ hist' = Log(k, r.m, r.e, n, "MAX")
    /\ UNCHANGED <<table, rpath, mode, order, pc, i, chosen, L, status>>

\* no scope matched: the consumer reads the body itself
ReadUnwrapped ==
    /\ pc = "body" /\ lim = NoLimit /\ herr = "nil"
    /\ \E r \in UResp(Big) :
         /\ urem' = urem - r.m /\ udead' = (r.e = "ABORT")
         /\ delivered' = delivered + r.m
         /\ ret' = [n |-> r.m, err |-> r.e]
         /\ herr' = Seen(r.e)
    /\ UNCHANGED <<table, rpath, mode, order, pc, i, chosen, L, n, serr, post, status, hist>>

HandlerRead == mode = "handler" /\ \E k \in ChunkSizes(lim) : Read(k)
\* the transport copies the body to the backend with a 32 KiB buffer and stops at the first error
ProxyRead   == mode = "proxy" /\ herr = "nil" /\ Read(Big)

\* the handler returns
StopReading ==
    /\ pc = "body" /\ mode = "handler" /\ herr # "nil"
    /\ pc' = "done"
    /\ UNCHANGED <<table, rpath, mode, order, i, chosen, L, urem, udead, n, serr, delivered, ret, herr, post, status, hist>>

\* proxy.go: `if backendErr == httpserver.ErrMaxBytesExceeded { return 413 }`
ProxyReturn ==
    /\ pc = "body" /\ mode = "proxy" /\ herr # "nil"
    /\ status' = IF herr = "MAX" THEN 413 ELSE IF herr = "EOF" THEN 0 ELSE 502
    /\ pc' = "done"
    /\ UNCHANGED <<table, rpath, mode, order, i, chosen, L, urem, udead, n, serr, delivered, ret, herr, post, hist>>

Next == Sort \/ TryScope \/ StartBody \/ HandlerRead \/ ProxyRead \/ ReadUnwrapped \/ StopReading \/ ProxyReturn
Spec == Init /\ [][Next]_vars /\ WF_vars(Next)

\* ---- properties ----------------------------------------------------------
ChosenIsLongestScope == pc \in {"start", "body", "done"} => chosen = LongestMatch(table, ReqPaths[rpath])
NeverBeyondLimit == lim # NoLimit => delivered <= lim
DeliveredPrefix  == (pc = "done" /\ ~udead) => delivered = MustDeliver(lim, L)
ErrIff           == (pc = "done" /\ ~udead) => herr = (IF MustBeTooLarge(lim, L) THEN "MAX" ELSE "EOF")
AbortSafe        == (pc = "done" /\ udead) => (delivered <= MustDeliver(lim, L) /\ herr \in {"ABORT", "MAX"})
Proxy413         == (pc = "done" /\ mode = "proxy" /\ ~udead) => (status = 413) = MustBeTooLarge(lim, L)
\* once the reader has failed it stays failed: same error, no bytes, nothing read underneath
Sticky == [][(pc = "body" /\ pc' = "body" /\ serr # "nil") =>
               (ret' = [n |-> 0, err |-> serr] /\ serr' = serr /\ delivered' = delivered /\ urem' = urem)]_vars
Terminates == <>(pc = "done")

\* ---- emission 1 (cfg LimitsEmit_*): one CASE per limit table --------------
\* want[j] = index (in `table`) of the scope whose limit must apply to request path j, 0 = none;
\* outcome[e][len+1] = <<bytes a reader-to-the-end must get, too large?>> for body lengths 0..2*lim+1
InitEmit ==
    /\ table \in Tables /\ rpath = 1 /\ mode = "handler" /\ InitRest
Stutter == UNCHANGED vars
IndexIn(seq, e) == IF e = None THEN 0 ELSE CHOOSE j \in 1..Len(seq) : seq[j] = e
EmitTable == pc = "sort" =>
    LET seq == SetToSeq(table) IN
    PrintT(<<"CASE", ToJson([table |-> seq, paths |-> ReqPaths,
        want |-> [j \in 1..Len(ReqPaths) |-> IndexIn(seq, LongestMatch(table, ReqPaths[j]))],
        outcome |-> [e \in 1..Len(seq) |-> [d \in 1..(2 * seq[e].lim + 2) |->
                        [deliver |-> MustDeliver(seq[e].lim, d - 1), toolarge |-> MustBeTooLarge(seq[e].lim, d - 1)]]]])>>)

\* ---- emission 2 (module LimitsReads): one CASE per behaviour of the reader ----
InitReads ==
    /\ \E l \in Lims : table = {[s |-> <<"/">>, lim |-> l]}
    /\ rpath = 1 /\ mode = "handler" /\ InitRest
EmitReads == pc = "done" =>
    PrintT(<<"CASE", ToJson([lim |-> lim, len |-> L, calls |-> hist, delivered |-> delivered, herr |-> herr])>>)
=============================================================================
