CONSTANTS MaxB = 2
 MaxOps = 5
 ReqKinds = {"ws", "wska", "plain", "ka", "close"}
 Presets = {TRUE, FALSE}
 Transps = {TRUE}
 MCs = {1}
 Statuses = {101, 200, 403}
 Splits = "max"
 FwdBuffered = TRUE
 FlushOn = TRUE
 CloseDeclined = TRUE
SPECIFICATION SpecSync
INVARIANTS TypeOK TunnelTransparent NoUpgradeHeadersOnPlainRequests CountedWhileOpen ReturnedMeansClosed DeclinedIsOrdinary DeclinedConnClosed FlushedAtRest Emit
CHECK_DEADLOCK FALSE
