CONSTANT Hosts = {"ip", "name"}
CONSTANT Heads <- HeadsQuick
CONSTANT Lines <- LinesQuick
CONSTANT Core <- CoreQuick
CONSTANT Heads2 <- HeadsTwo
CONSTANT MaxDirs = 2
CONSTANT MaxLines = 3
CONSTANT MaxLines2 = 2
CONSTANT NameLines = 1
CONSTANT Repaired = TRUE
SPECIFICATION Spec
INVARIANT TypeOK
INVARIANT RejectedIffInvalid
INVARIANT RejectedStops
INVARIANT EffectiveEqualsWritten
INVARIANT NeverWeakerThanDefaultUnlessAsked
INVARIANT OrderPreserved
INVARIANT HandshakeWithinConfig
INVARIANT TLS13UnaffectedByCipherList
INVARIANT HandshakeFailsOnlyWhenDisjoint
INVARIANT Emit
CHECK_DEADLOCK FALSE
