CONSTANTS
  HelloLens = {0, 3, 6}
  ExtraLens = {0, 1, 3}
SPECIFICATION Spec
INVARIANT SegmentationIndependent
INVARIANT NeverSkewed
INVARIANT BufferBounded
INVARIANT Emit
CHECK_DEADLOCK FALSE
