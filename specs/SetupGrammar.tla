---------------------------- MODULE SetupGrammar ----------------------------
(***************************************************************************)
(* C11 - every directive's setup is total; validate and start agree.       *)
(*                                                                         *)
(* "Total" has no functional oracle: whether a setup function panics or    *)
(* hangs is decided by running it.  This module is the explicit model of   *)
(* the INPUT SPACE the statement quantifies over - for every registered    *)
(* directive, the token sequences that can follow its name: arguments of   *)
(* every lexical class, and sub-blocks whose lines start with the          *)
(* directive's own keyword vocabulary - as a state machine TLC enumerates  *)
(* exhaustively up to small bounds (and by simulation beyond), plus the    *)
(* relational clauses of the statement written over the observation the    *)
(* real code supplies (Total, Agree below).                                *)
(*                                                                         *)
(* Lexical classes of a token (the harness picks a spelling):              *)
(*   em ""      wd word     in 10      ni -1      hi 99999999999999999999  *)
(*   fl 1.5     du 10s      sz 10MB    pa path    ur URL     rx bad regexp *)
(*   qs "two words"         kw one of the directive's keywords             *)
(*   ob a "{" that is not the last token of its line                       *)
(* A line of a sub-block starts with a head: a keyword of the directive's  *)
(* vocabulary (enumerated individually) or one of the classes wd, in, em.  *)
(***************************************************************************)
EXTENDS Naturals, Sequences, FiniteSets, TLC, Json

CONSTANTS MaxTop,       \* arguments after the directive name when there is no block
          MaxTopBlock,  \* arguments after the directive name when a block follows
          MaxLines,     \* lines in the block
          MaxLineArgs,  \* arguments after the head of a line
          MaxLineArgs0, \* ... when the directive itself has no arguments (a deeper sweep of the block grammar)
          Nested,       \* BOOLEAN: a line may open a nested block with one line
          ArgCl         \* the lexical classes used for arguments

\* The registered directives (httpserver/plugin.go `directives` restricted to what this tree
\* registers, plus the two listed-but-unregistered names) and the keywords their setup
\* functions compare tokens with.  Cross-checked against the sources by the harness
\* (harness/c11 vocabulary test): a keyword that is added to a setup function must be added here.
Roller == {"rotate_size", "rotate_age", "rotate_keep", "rotate_compress", "rotate_disable"}
Vocab == [
  basicauth  |-> {"realm", "exclude"},
  bind       |-> {},
  browse     |-> {"path", "tplfile", "servearchive", "buffer"},
  errors     |-> {"visible", "*"} \cup Roller,
  expvar     |-> {},
  ext        |-> {},
  fastcgi    |-> {"root", "ext", "split", "index", "upstream", "env", "except", "connect_timeout",
                  "read_timeout", "send_timeout", "php"},
  gzip       |-> {"ext", "not", "level", "min_length"},
  header     |-> {},
  index      |-> {},
  internal   |-> {},
  limits     |-> {"header", "body"},
  log        |-> {"ipmask", "except"} \cup Roller,
  markdown   |-> {"ext", "css", "js", "template", "templatedir"},
  mime       |-> {"ext_defaults"},
  on         |-> {"startup", "shutdown", "certrenew"},
  pprof      |-> {},
  proxy      |-> {"upstream", "policy", "fallback_delay", "fail_timeout", "max_fails", "try_duration",
                  "try_interval", "max_conns", "health_check", "health_check_interval",
                  "health_check_timeout", "health_check_port", "health_check_contains",
                  "header_upstream", "header_downstream", "transparent", "trans", "websocket", "without",
                  "except", "insecure_skip_verify", "ca_certificates", "keepalive", "timeout", "tls_client"},
  push       |-> {"method", "header"},
  redir      |-> {"if", "if_op", "meta"},
  request_id |-> {},
  rewrite    |-> {"r", "regexp", "to", "ext", "if", "if_op"},
  root       |-> {},
  status     |-> {},
  templates  |-> {"path", "ext", "between"},
  timeouts   |-> {"read", "header", "write", "idle", "none"},
  tls        |-> {"off", "self_signed", "ca", "key_type", "protocols", "ciphers", "curves", "clients",
                  "request", "require", "verify_if_given", "insecure_disable_sni_matching", "load",
                  "max_certs", "ask", "dns", "alpn", "must_staple", "wildcard", "no_redirect"},
  tryfiles   |-> {"except", "without"},
  websocket  |-> {"respawn", "type", "bufsize"},
  startup    |-> {},
  shutdown   |-> {}
]
Directives == DOMAIN Vocab
HeadCl == {"wd", "in", "em"}
Heads(d) == Vocab[d] \cup HeadCl

VARIABLES pc,      \* "dir" | "top" | "block" | "done"
          d,       \* the directive
          top,     \* classes of the arguments after the name
          lines,   \* the block: sequence of [h |-> head, a |-> classes, n |-> nested line or <<>>]
          hasBlock
vars == <<pc, d, top, lines, hasBlock>>

LineArgBound == IF top = <<>> THEN MaxLineArgs0 ELSE MaxLineArgs

Init == pc = "dir" /\ d = "" /\ top = <<>> /\ lines = <<>> /\ hasBlock = FALSE

Directive(x) ==
    /\ pc = "dir" /\ d' = x /\ pc' = "top"
    /\ UNCHANGED <<top, lines, hasBlock>>

TopArg(c) ==
    /\ pc = "top" /\ Len(top) < MaxTop
    /\ top' = Append(top, c)
    /\ UNCHANGED <<pc, d, lines, hasBlock>>

OpenBlock ==
    /\ pc = "top" /\ Len(top) <= MaxTopBlock /\ MaxLines > 0
    /\ hasBlock' = TRUE /\ pc' = "block"
    /\ UNCHANGED <<d, top, lines>>

Line(h) ==
    /\ pc = "block" /\ Len(lines) < MaxLines /\ h \in Heads(d)
    /\ lines' = Append(lines, [h |-> h, a |-> <<>>, n |-> <<>>])
    /\ UNCHANGED <<pc, d, top, hasBlock>>

LineArg(c) ==           \* one more argument on the line that was just started
    /\ pc = "block" /\ lines # <<>> /\ lines[Len(lines)].n = <<>> /\ Len(lines[Len(lines)].a) < LineArgBound
    /\ lines' = [lines EXCEPT ![Len(lines)].a = Append(@, c)]
    /\ UNCHANGED <<pc, d, top, hasBlock>>

NestedLine(h, c) ==     \* the line that was just started opens a nested block with one line "h c"
    /\ Nested /\ pc = "block" /\ lines # <<>> /\ lines[Len(lines)].n = <<>> /\ h \in Heads(d)
    /\ lines' = [lines EXCEPT ![Len(lines)].n = <<[h |-> h, a |-> <<c>>]>>]
    /\ UNCHANGED <<pc, d, top, hasBlock>>

\* the text may end here (an open block is closed)
Finish ==
    /\ pc \in {"top", "block"}
    /\ pc' = "done"
    /\ UNCHANGED <<d, top, lines, hasBlock>>

Next == \/ \E x \in Directives : Directive(x)
        \/ \E c \in ArgCl : TopArg(c)
        \/ OpenBlock
        \/ \E h \in UNION {Heads(x) : x \in Directives} : Line(h)
        \/ \E c \in ArgCl : LineArg(c)
        \/ \E h \in UNION {Heads(x) : x \in Directives}, c \in ArgCl : NestedLine(h, c)
        \/ Finish
Spec == Init /\ [][Next]_vars

\* ============================ the statement, over observations =========================
\* obs = [validate |-> v, load |-> l, start |-> s], each one of
\*   "ok" | "err" (returned an error with a non-empty message) | "panic" | "no-return" | "skipped"
Total(obs) == \A ph \in {"validate", "load", "start"} : obs[ph] \in {"ok", "err", "skipped"}
\* -validate and the directive phase of a real start accept the same configurations
Agree(obs) == (obs.validate = "ok") <=> (obs.load = "ok")

\* ============================ sanity of the model ======================================
TypeOK ==
    /\ pc \in {"dir", "top", "block", "done"}
    /\ (pc # "dir" => d \in Directives)
    /\ Len(top) <= MaxTop /\ Len(lines) <= MaxLines
    /\ (hasBlock => Len(top) <= MaxTopBlock)
    /\ \A i \in 1..Len(lines) : lines[i].h \in Heads(d) /\ Len(lines[i].a) <= LineArgBound

\* ============================ case emission ========================================
Emit == pc = "done" =>
          PrintT(<<"CASE", ToJson([d |-> d, t |-> top, b |-> hasBlock,
                                   l |-> [i \in 1..Len(lines) |->
                                           <<lines[i].h, lines[i].a,
                                             IF lines[i].n = <<>> THEN <<>> ELSE <<lines[i].n[1].h, lines[i].n[1].a[1]>> >>]])>>)
=============================================================================
