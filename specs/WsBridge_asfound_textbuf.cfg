CONSTANTS Types = {"text"}
 Bufs = {2}
 Modes = {"dflt"}
 Scopes = {"bridge"}
 MaxM = 0
 MaxW = 2
 MaxOps = 3
 Rich = FALSE
 WithStop = FALSE
 FixKill = TRUE
 FixTextBuf = FALSE
SPECIFICATION SpecSync
INVARIANTS TypeOK ReadHasRoom
CHECK_DEADLOCK FALSE
