CONSTANT K = 2
CONSTANT Profs = {"default", "old", "require", "off"}
CONSTANT FullProduct = FALSE
SPECIFICATION Spec
INVARIANT MixRejected
INVARIANT SameNameSameSettings
INVARIANT RejectedStops
INVARIANT GovernedBySNISite
INVARIANT HandshakeFollowsProfile
INVARIANT CertOfGoverningSite
INVARIANT MinTLS12Default
INVARIANT ClientAuthNotBypassed
INVARIANT TablesAgree
CHECK_DEADLOCK FALSE
