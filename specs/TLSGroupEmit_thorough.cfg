CONSTANT K = 3
CONSTANT Profs = {"default", "old", "new", "cipher", "require", "verify", "off"}
CONSTANT FullProduct = FALSE
INIT InitEmit
NEXT Grow
INVARIANT Emit
CHECK_DEADLOCK FALSE
