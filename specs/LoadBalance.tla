----------------------------- MODULE LoadBalance -----------------------------
(***************************************************************************)
(* C05, first half - load-balancing policies find an available backend.    *)
(*                                                                         *)
(* Operational part: staticUpstream.Select (upstream.go) followed by the   *)
(* Select method of the configured policy (policy.go), one action per loop *)
(* iteration of the Go code:                                               *)
(*   PreCheck    staticUpstream.Select: pool of one; "allUnavailable"      *)
(*   FirstStep   First.Select          one range iteration                 *)
(*   RRStep      RoundRobin.Select     r.robin++ and one look              *)
(*   HashProbe   hostByHashing         one probe (ip_hash, uri_hash and    *)
(*               header-with-a-value all end here; the hash itself is      *)
(*               abstracted to its residue k0 = hash(key) % n)             *)
(*   RandomScan  Random.Select         one reservoir-sampling iteration    *)
(*   LeastScan   LeastConn.Select      one iteration                       *)
(* (policy header with an absent/empty header value runs RRStep on the     *)
(*  package-global round robin; policy header without a configured name is *)
(*  rejected at setup in the repaired tree and is not a policy here.)      *)
(* NextRound / Perturb start a further selection on the same pool so that  *)
(* round robin evenness and hash stickiness are statements about several   *)
(* selections of one behaviour.                                            *)
(*                                                                         *)
(* Declarative part: ReturnsAvailable, FirstEarliest, LeastLoaded, Sticky, *)
(* RREven - the sentences of the property statement.                       *)
(***************************************************************************)
EXTENDS LBPolicy, TLC, Json

CONSTANTS MaxN,      \* largest pool size
          MF,        \* max_fails of the block
          MCs,       \* the max_conns values explored (0 = no cap)
          Probing,   \* "linear" (repaired hostByHashing) | "triangular" (as found: misses slots)
          RRRounds   \* consecutive round-robin selections looked at

\* the per-backend situations (boundary values on purpose: f = MF-1 and c = cap-1 are still available)
HostStates == {"h0", "h1", "full", "failed", "unhealthy"}
HostOf(s) == CASE s = "h0"        -> [u |-> 0, f |-> 0,      c |-> 0]
               [] s = "h1"        -> [u |-> 0, f |-> MF - 1, c |-> 1]
               [] s = "full"      -> [u |-> 0, f |-> 0,      c |-> 2]   \* at the cap when max_conns = 2
               [] s = "failed"    -> [u |-> 0, f |-> MF,     c |-> 0]
               [] s = "unhealthy" -> [u |-> 1, f |-> 0,      c |-> 0]

Policies == {"first", "rr", "hashed", "random", "least_conn"}
Inf == 99

VARIABLES n, mc, st, pol, k0, pc, i, robin, cnt, lc, sel, round, prev, counts
vars == <<n, mc, st, pol, k0, pc, i, robin, cnt, lc, sel, round, prev, counts>>

Pool == [b \in 1..Len(st) |-> HostOf(st[b])]
A == AvailSet(Pool, MF, mc)

Init ==
    /\ n \in 1..MaxN
    /\ mc \in MCs
    /\ pol \in Policies
    /\ k0 \in 0..(n - 1)                     \* hash residue / starting robin residue
    /\ (pol \notin {"hashed", "rr"} => k0 = 0)
    /\ st = << >>
    /\ pc = "build"
    /\ i = 0 /\ robin = k0 /\ cnt = 0 /\ lc = Inf /\ sel = 0 /\ round = 1 /\ prev = 0
    /\ counts = [b \in 1..n |-> 0]

\* choose the situation of the next backend (fan-out done by Next so that all workers share it)
Build ==
    /\ pc = "build"
    /\ \E s \in HostStates : st' = Append(st, s)
    /\ pc' = IF Len(st) + 1 = n THEN (IF pol = "emit" THEN "emit" ELSE "pre") ELSE "build"
    /\ UNCHANGED <<n, mc, pol, k0, i, robin, cnt, lc, sel, round, prev, counts>>

Finish(s) == sel' = s /\ pc' = "done"

\* staticUpstream.Select
PreCheck ==
    /\ pc = "pre"
    /\ IF n = 1 THEN Finish(IF 1 \in A THEN 1 ELSE 0)
       ELSE IF A = {} THEN Finish(0)
       ELSE pc' = "loop" /\ sel' = 0
    /\ UNCHANGED <<n, mc, st, pol, k0, i, robin, cnt, lc, round, prev, counts>>

FirstStep ==
    /\ pc = "loop" /\ pol = "first"
    /\ IF i >= n THEN Finish(0) /\ UNCHANGED i
       ELSE IF (i + 1) \in A THEN Finish(i + 1) /\ UNCHANGED i
       ELSE i' = i + 1 /\ UNCHANGED <<sel, pc>>
    /\ UNCHANGED <<n, mc, st, pol, k0, robin, cnt, lc, round, prev, counts>>

RRStep ==
    /\ pc = "loop" /\ pol = "rr"
    /\ IF i >= n THEN Finish(0) /\ UNCHANGED <<i, robin>>
       ELSE /\ robin' = (robin + 1) % n
            /\ IF (robin' + 1) \in A THEN Finish(robin' + 1) /\ UNCHANGED i
               ELSE i' = i + 1 /\ UNCHANGED <<sel, pc>>
    /\ UNCHANGED <<n, mc, st, pol, k0, cnt, lc, round, prev, counts>>

HashProbe ==
    /\ pc = "loop" /\ pol = "hashed"
    /\ IF i >= n THEN Finish(0) /\ UNCHANGED i
       ELSE IF HashSlot(n, k0, i, Probing) \in A THEN Finish(HashSlot(n, k0, i, Probing)) /\ UNCHANGED i
       ELSE i' = i + 1 /\ UNCHANGED <<sel, pc>>
    /\ UNCHANGED <<n, mc, st, pol, k0, robin, cnt, lc, round, prev, counts>>

\* if (rand.Int() % count) == 0 { randHost = host } : always taken for count = 1, either way afterwards
RandomScan ==
    /\ pc = "loop" /\ pol = "random"
    /\ IF i >= n THEN pc' = "done" /\ UNCHANGED <<i, cnt, sel>>
       ELSE /\ i' = i + 1
            /\ pc' = pc
            /\ IF (i + 1) \notin A THEN UNCHANGED <<cnt, sel>>
               ELSE /\ cnt' = cnt + 1
                    /\ (sel' = i + 1 \/ (cnt' > 1 /\ sel' = sel))
    /\ UNCHANGED <<n, mc, st, pol, k0, robin, lc, round, prev, counts>>

LeastScan ==
    /\ pc = "loop" /\ pol = "least_conn"
    /\ IF i >= n THEN pc' = "done" /\ UNCHANGED <<i, cnt, lc, sel>>
       ELSE /\ i' = i + 1
            /\ pc' = pc
            /\ IF (i + 1) \notin A THEN UNCHANGED <<cnt, lc, sel>>
               ELSE LET c == Pool[i + 1].c IN
                    IF c < lc THEN lc' = c /\ cnt' = 1 /\ sel' = i + 1
                    ELSE IF c = lc THEN lc' = lc /\ cnt' = cnt + 1 /\ (sel' = i + 1 \/ sel' = sel)
                    ELSE UNCHANGED <<cnt, lc, sel>>
    /\ UNCHANGED <<n, mc, st, pol, k0, robin, round, prev, counts>>

Restart == pc' = "pre" /\ i' = 0 /\ cnt' = 0 /\ lc' = Inf /\ sel' = 0 /\ round' = round + 1

\* the next request on the same pool (round robin keeps its robin)
NextRound ==
    /\ pc = "done" /\ pol = "rr" /\ round < RRRounds
    /\ counts' = IF sel = 0 THEN counts ELSE [counts EXCEPT ![sel] = @ + 1]
    /\ Restart
    /\ UNCHANGED <<n, mc, st, pol, k0, robin, prev>>

\* the same key again after one backend changed its counters without changing availability
SameAvail(s, t) == Available(HostOf(s), MF, mc) = Available(HostOf(t), MF, mc)
Perturb ==
    /\ pc = "done" /\ pol = "hashed" /\ round = 1
    /\ \E b \in 1..n, s \in HostStates :
          /\ s # st[b] /\ SameAvail(s, st[b])
          /\ st' = [st EXCEPT ![b] = s]
    /\ prev' = sel
    /\ Restart
    /\ UNCHANGED <<n, mc, pol, k0, robin, counts>>

Next == Build \/ PreCheck \/ FirstStep \/ RRStep \/ HashProbe \/ RandomScan \/ LeastScan \/ NextRound \/ Perturb
Spec == Init /\ [][Next]_vars /\ WF_vars(Next)

\* ---- the property, sentence by sentence ----------------------------------
Done == pc = "done"
\* "returns a backend that is currently available whenever at least one exists and never an unavailable one"
ReturnsAvailable == Done => /\ (A # {} => sel \in A)
                            /\ (sel # 0 => sel \in A)
\* "first picks the earliest"
FirstEarliest == (Done /\ pol = "first" /\ A # {}) => sel = MinOf(A)
\* "least_conn picks a least-loaded one"
LeastLoaded == (Done /\ pol = "least_conn" /\ A # {}) => \A b \in A : Pool[sel].c <= Pool[b].c
\* "hash-based policies send the same key to the same backend while availability is unchanged"
Sticky == (Done /\ pol = "hashed" /\ round = 2) => sel = prev
\* "round_robin visits available backends evenly": over any run of consecutive selections
\* (any starting robin) the numbers of visits of two available backends differ by at most one
Visits == IF sel = 0 THEN counts ELSE [counts EXCEPT ![sel] = @ + 1]
RREven == (Done /\ pol = "rr") => \A a, b \in A : Visits[a] - Visits[b] <= 1

\* the loop-shaped operators of LBPolicy (used for the emitted tables and by LBRetry) are the same algorithm
MatchesOperators ==
    Done => CASE pol = "first"      -> sel = Guarded(A, n, FirstLoop(A, n, 0))
              [] pol = "hashed"     -> sel = Guarded(A, n, HashLoop(A, n, k0, 0, Probing))
              [] pol = "random"     -> sel \in (IF A = {} THEN {0} ELSE A)
              [] pol = "least_conn" -> sel \in (IF A = {} THEN {0} ELSE LeastSet(Pool, A))
              [] pol = "rr"         -> TRUE
RRMatchesOperator ==
    (Done /\ pol = "rr" /\ round = 1) => sel = Guarded(A, n, RRLoop(A, n, k0, 0)[1])

TypeOK == /\ n \in 1..MaxN /\ Len(st) <= n /\ sel \in 0..n /\ i \in 0..n /\ robin \in 0..(n - 1)
Terminates == <>(pc = "done")

\* ---- emission: one CASE per pool (n, max_conns, situations) with the table of selections ----
InitEmit ==
    /\ n \in 1..MaxN /\ mc \in MCs /\ pol = "emit" /\ k0 = 0 /\ st = << >> /\ pc = "build"
    /\ i = 0 /\ robin = 0 /\ cnt = 0 /\ lc = Inf /\ sel = 0 /\ round = 1 /\ prev = 0
    /\ counts = [b \in 1..n |-> 0]
Emit == pc = "emit" =>
    PrintT(<<"CASE", ToJson([n |-> n, mc |-> mc, mf |-> MF, st |-> st,
              avail  |-> [b \in 1..n |-> b \in A],
              first  |-> Guarded(A, n, FirstLoop(A, n, 0)),
              rr     |-> [r \in 1..n |-> Guarded(A, n, RRLoop(A, n, r - 1, 0)[1])],     \* by robin residue r-1 before the call
              hashed |-> [h \in 1..n |-> Guarded(A, n, HashLoop(A, n, h - 1, 0, Probing))], \* by hash residue h-1
              least  |-> [b \in 1..n |-> b \in LeastSet(Pool, A)]])>>)
=============================================================================
