CONSTANTS MaxInst = 2
 MaxSigs = 3
SPECIFICATION Spec
INVARIANTS AtMostOnce GracefulRunsAllOnce TermStopsAll FinalAfterShutdown
PROPERTY EventuallyExits
CHECK_DEADLOCK FALSE
