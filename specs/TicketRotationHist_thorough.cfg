CONSTANTS MaxSrv = 6
 Caps = {4}
 MaxTicks = 0
 MaxOps = 3
 Repaired = TRUE
 Sync = FALSE
INIT Init
NEXT NextCtl
INVARIANTS EmitHist TypeOK
CHECK_DEADLOCK FALSE
