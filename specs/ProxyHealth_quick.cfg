CONSTANTS NOpts = {2}
 NReq = 1
 Modes = {"ok", "s500"}
 MaxRounds = 2
 MaxSets = 1
 MaxEnv = 0
 MaxCalls = 1
 MaxSteps = 0
 FailsOpts = {1}
 ConnsOpts = {1}
 RetryOpts = {TRUE}
 ContainsOpts = {TRUE}
 HCOpts = {TRUE}
 Fixed = TRUE
SPECIFICATION Spec
VIEW view
INVARIANTS TypeOK FlagIsLastProbe AfterRound RoundCoversAll ChangeSeenByNextRound RecoveredUsedAgain AvailDef FailsExact NoWorkerWithoutHC StoppedMeansDead NoRoundAfterStop
PROPERTIES SelectSound
CHECK_DEADLOCK FALSE
