--------------------------- MODULE FcgiUpstreams ---------------------------
(***************************************************************************)
(* C13 extension - what caskethttp/fastcgi does AROUND one rule's          *)
(* backends (FastCGI.tla models one request over one fresh connection):    *)
(* upstream selection (setup.go `upstream`, fastcgi.go roundRobin.Address),*)
(* dialling under connect_timeout, the two absolute deadlines armed once   *)
(* after the dial (read_timeout / send_timeout, fcgiclient.go              *)
(* SetReadTimeout / SetSendTimeout), what the handler answers when a       *)
(* backend refuses, never accepts, never reads, never answers, closes      *)
(* before / inside its answer, and the life of the connection (one per     *)
(* request, closed by the deferred Close before ServeHTTP returns).        *)
(*                                                                         *)
(* THIS FORK HAS NO CONNECTION POOL: fcgiclient.go dials with              *)
(* keepAlive = false (BeginRequest flags 0), setup.go knows no `pool`      *)
(* option, Handler.ServeHTTP dials one connection per forwarded request    *)
(* and closes it.  PoolCap = 0 below says exactly that; PoolBounded,       *)
(* NoSharedConnection, ReuseOnlyAfterCompleteResponse and NoFdLeak are the *)
(* pool properties specialised to "the pool may hold nothing".             *)
(*                                                                         *)
(* One action per step Handler.ServeHTTP (fastcgi.go) takes for request r: *)
(*   Start        the request reaches the middleware                       *)
(*   PassOn       not a script (file exists, other extension): Next        *)
(*   Pick         rule.Address(): atomic.AddInt64(&index,1) % len          *)
(*   DialOK / DialRefused / DialTimeout   DialContext(ctx+ConnectTimeout)  *)
(*                (DialOK also arms both deadlines: SetRead/SendTimeout    *)
(*                 directly follow and cannot fail on a fresh connection)  *)
(*   SendParams   Do: writeBeginRequest + writePairs                       *)
(*   SendBody / SendTimeout   Do: io.Copy(body, req); body.Close() - the   *)
(*                error of a blocked write is DROPPED by Do (`_, _ =`)     *)
(*   ReadHeader / HeaderEOF / ReadTimeout   Request: ReadMIMEHeader        *)
(*   CopyDone / CopyCut / CopyTimeout       writeHeader; io.Copy(w, Body)  *)
(*   CloseConn    deferred resp.Body.Close() / fcgiBackend.Close()         *)
(*   Return       ServeHTTP returns (status, err)                          *)
(* and of the backend: Answer (per the connection's scripted mode),        *)
(* SeeClose (the responder reads the client's EOF).  Time is discrete      *)
(* (Tick); Tick is not enabled while any step that takes no time is        *)
(* pending or a deadline is due, so in the model every deadline fires on   *)
(* its tick (Skew = Slack = 0); the trace cfg sets Skew/Slack to the       *)
(* uncertainty of the recorded clock.                                      *)
(*                                                                         *)
(* Deliberate deviations: the error VALUES are not modelled (as found, the *)
(* `err, ok := err.(net.Error)` shadowing in ServeHTTP makes every         *)
(* non-network error of Request - EOF, unexpected EOF, malformed header -  *)
(* a 502 with a nil error: HeaderEOF is a 502 although the code was meant  *)
(* to tolerate io.EOF); srv:// upstreams, unix sockets, several rules.     *)
(***************************************************************************)
EXTENDS Integers, Sequences, FiniteSets, FiniteSetsExt, TLC, Json

CONSTANTS
    NOpts,          \* numbers of addresses of the rule (first argument + `upstream` lines)
    ConcNOpts,      \* the same for the scenarios explored in every interleaving
    MaxReq,         \* request ids 1..MaxReq
    ReqOpts,        \* numbers of requests of a scenario that runs sequentially
    ConcReq,        \* number of requests of a scenario explored in every interleaving
    PortModes,      \* \subseteq {"up", "refuse", "blackhole"}
    AnsModes,       \* \subseteq {"ok","slow","stall","noread","closeearly","closemid","stallbody"}
    MaxVisits,      \* scripted connections per upstream ("ok" afterwards)
    MaxFaults,      \* entries of a scenario that are not "up" / "ok" (sequential scenarios)
    ConcFaults,     \* the same for the scenarios explored in every interleaving
    Kinds,          \* \subseteq {"php", "static", "big"}
    ConcKinds,      \* the same for the scenarios explored in every interleaving
    StaticAt,       \* which request may be the static one
    CTOpts, RTOpts, STOpts,   \* connect / read / send time-outs in ticks (all > 0)
    SD,             \* a "slow" backend answers SD ticks after it has the request (SD < every RT)
    MaxStart,       \* a request of an interleaved scenario starts at tick 0..MaxStart
    Skew, Slack,    \* clock uncertainty of recorded traces: early / late tolerance (0 in the model)
    CopyErrStatus,  \* status ServeHTTP returns when the body copy fails AFTER writeHeader:
                    \*   0 (repaired: header is out, nobody may write an error page), 502 as found
    OrderedStart,   \* TRUE in the model (requests start in id order: they are interchangeable); FALSE for traces
    PoolCap,        \* idle connections the rule may keep per upstream: 0 (no pool in this fork)
    EmitCases       \* TRUE: print one CASE line per scenario

VARIABLES
    \* ---- the scenario (chosen in Init, constant afterwards; variables so that a trace can set them)
    N, port, beh, CT, RT, ST, kind, nreq, seq,
    \* ---- the rule's balancer
    picks,          \* roundRobin.index + 1 = number of Address() calls so far
    hist,           \* the upstreams Address() returned, in order (observer for RoundRobin*)
    \* ---- time
    now,
    \* ---- backends
    nacc,           \* per upstream: connections accepted
    conn,           \* sequence of connections in accept order
    \* ---- requests
    pc, up, cn, t0, dt, ht, rdl, sdl, fin, wrote, ret,
    quiet           \* traffic has stopped and the responders have seen every close

cfgvars == <<N, port, beh, CT, RT, ST, kind, nreq, seq>>
reqvars == <<pc, up, cn, t0, dt, ht, rdl, sdl, fin, wrote, ret>>
vars == <<cfgvars, picks, hist, now, nacc, conn, reqvars, quiet>>

Reqs == 1..MaxReq
Ups == 1..N
Max2(a, b) == IF a >= b THEN a ELSE b
MaxSet(S) == CHOOSE x \in S : \A y \in S : y <= x       \* (FiniteSetsExt defines Max and Min of a set)

ModeOf(u, k) == IF k <= MaxVisits THEN beh[u][k] ELSE "ok"
Faults(p, b, n) == Cardinality({u \in 1..n : p[u] # "up"})
                   + Cardinality({uk \in (1..n) \X (1..MaxVisits) : b[uk[1]][uk[2]] # "ok"})

\* what a mode puts on the wire once the request is complete
RespOf(m) == CASE m \in {"ok", "slow"} -> "full"
               [] m = "closeearly" -> "eof"         \* sending side closed without a byte
               [] m = "closemid" -> "cutclose"      \* headers + start of the body, closed inside a record
               [] m = "stallbody" -> "cutstall"     \* headers + start of the body, then silence
               [] OTHER -> "none"                   \* stall, noread

NewConn(u, r, m) == [u |-> u, owner |-> r, mode |-> m, st |-> "open", got |-> "none", resp |-> "none",
                     rt |-> 0, nbeg |-> 0]

TypeOK ==
    /\ N \in NOpts \cup ConcNOpts /\ nreq \in 0..MaxReq /\ seq \in BOOLEAN
    /\ port \in [Ups -> PortModes] /\ beh \in [Ups -> [1..MaxVisits -> AnsModes]]
    /\ CT \in Nat /\ RT \in Nat /\ ST \in Nat /\ kind \in [Reqs -> Kinds \cup {"php"}]
    /\ picks \in Nat /\ hist \in Seq(Ups) /\ now \in Nat
    /\ nacc \in [Ups -> Nat]
    /\ \A c \in 1..Len(conn) : /\ conn[c].u \in Ups /\ conn[c].owner \in Reqs
                               /\ conn[c].st \in {"open", "closed", "seen"}
                               /\ conn[c].got \in {"none", "params", "req"}
                               /\ conn[c].resp \in {"none", "full", "eof", "cutclose", "cutstall"}
    /\ pc \in [Reqs -> {"new", "route", "dial", "params", "body", "hdr", "copy", "close", "ret", "done"}]
    /\ up \in [Reqs -> 0..N] /\ cn \in [Reqs -> 0..Len(conn)]
    /\ wrote \in [Reqs -> BOOLEAN] /\ ret \in [Reqs -> {0, 502, 504}]
    /\ quiet \in BOOLEAN

\* ------------------------------------------------------------------ scenarios
Dyn0 ==
    /\ picks = 0 /\ hist = <<>> /\ now = 0
    /\ nacc = [u \in Ups |-> 0] /\ conn = <<>>
    /\ pc = [r \in Reqs |-> "new"] /\ up = [r \in Reqs |-> 0] /\ cn = [r \in Reqs |-> 0]
    /\ t0 = [r \in Reqs |-> 0] /\ dt = [r \in Reqs |-> 0] /\ ht = [r \in Reqs |-> 0]
    /\ rdl = [r \in Reqs |-> 0] /\ sdl = [r \in Reqs |-> 0] /\ fin = [r \in Reqs |-> 0]
    /\ wrote = [r \in Reqs |-> FALSE] /\ ret = [r \in Reqs |-> 0]
    /\ quiet = FALSE

\* A scenario = at most MaxFaults (ConcFaults) faults laid over an all-healthy farm: a port that is
\* not up, or one scripted connection (upstream u, its k-th) that does not simply answer.
FaultSpace(n) == {<<"port", u, 0, m>> : u \in 1..n, m \in PortModes \ {"up"}}
                 \cup {<<"beh", uk[1], uk[2], m>> : uk \in (1..n) \X (1..MaxVisits), m \in AnsModes \ {"ok"}}
FaultSets(n, f) == UNION {kSubset(i, FaultSpace(n)) : i \in 0..f}
\* no two faults on one entry, no scripted connection on a port that is not up
Consistent(F) == \A a, b \in F : a # b => ~(a[2] = b[2] /\ (a[1] = "port" \/ b[1] = "port" \/ a[3] = b[3]))
PortOf(F, u) == IF \E a \in F : a[1] = "port" /\ a[2] = u
                THEN (CHOOSE a \in F : a[1] = "port" /\ a[2] = u)[4] ELSE "up"
BehOf(F, u, k) == IF \E a \in F : a[1] = "beh" /\ a[2] = u /\ a[3] = k
                  THEN (CHOOSE a \in F : a[1] = "beh" /\ a[2] = u /\ a[3] = k)[4] ELSE "ok"

\* sequential expectation (also what the CASE lines carry): the p-th forwarded request goes to
\* address ((p-1) % N)+1 and is that upstream's ((p-1) \div N + 1)-th connection
FwdBefore(r) == Cardinality({q \in 1..r : kind[q] # "static"})
SeqUp(r) == IF kind[r] = "static" THEN 0 ELSE ((FwdBefore(r) - 1) % N) + 1
SeqMode(r) == IF kind[r] = "static" THEN "ok" ELSE ModeOf(SeqUp(r), ((FwdBefore(r) - 1) \div N) + 1)

\* canonical scenarios: requests beyond nreq are "php"; at most one static and one big request; a
\* big request only where it matters (a "noread" connection exists; in a sequential scenario it is
\* the request that meets it); a second send time-out only together with a big request
Init ==
    /\ seq \in BOOLEAN
    /\ N \in (IF seq THEN NOpts ELSE ConcNOpts)
    /\ \E F \in FaultSets(N, IF seq THEN MaxFaults ELSE ConcFaults) :
          /\ Consistent(F)
          /\ seq => \A a \in F : a[1] = "beh" => (a[3] - 1) * N + a[2] <= MaxSet(ReqOpts)   \* (a connection that is reached)
          /\ port = [u \in 1..N |-> PortOf(F, u)]
          /\ beh = [u \in 1..N |-> [k \in 1..MaxVisits |-> BehOf(F, u, k)]]
    /\ CT \in CTOpts /\ RT \in RTOpts /\ ST \in STOpts
    /\ nreq \in (IF seq THEN ReqOpts ELSE {ConcReq})
    /\ kind \in [Reqs -> (IF seq THEN Kinds ELSE ConcKinds) \cup {"php"}]
    /\ \A r \in Reqs : r > nreq => kind[r] = "php"
    /\ Cardinality({r \in Reqs : kind[r] = "static"}) <= 1
    /\ \A r \in Reqs : kind[r] = "static" => r \in StaticAt
    /\ Cardinality({r \in Reqs : kind[r] = "big"}) <= 1
    /\ \A r \in Reqs : kind[r] = "big" =>
          IF seq THEN SeqMode(r) = "noread" /\ port[SeqUp(r)] = "up"
          ELSE \E u \in 1..N, k \in 1..MaxVisits : beh[u][k] = "noread"
    /\ (ST # MaxSet(STOpts)) => \E r \in Reqs : kind[r] = "big"      \* (send_timeout matters to nobody else)
    /\ Dyn0

\* ------------------------------------------------------------------ the handler, request r
Started(r) == pc[r] # "new"
InFlight(r) == pc[r] \notin {"new", "done"}

Start(r) ==
    /\ pc[r] = "new" /\ r <= nreq /\ ~quiet
    /\ OrderedStart => \A q \in 1..(r-1) : IF seq THEN pc[q] = "done" ELSE Started(q)
    /\ (OrderedStart /\ ~seq) => now <= MaxStart
    /\ pc' = [pc EXCEPT ![r] = "route"] /\ t0' = [t0 EXCEPT ![r] = now]
    /\ UNCHANGED <<cfgvars, picks, hist, now, nacc, conn, up, cn, dt, ht, rdl, sdl, fin, wrote, ret, quiet>>

\* the file exists and does not carry the rule's extension: the request goes to the next
\* middleware (the static file server answers) - rule.Address() is NOT called
PassOn(r) ==
    /\ pc[r] = "route" /\ kind[r] = "static"
    /\ pc' = [pc EXCEPT ![r] = "ret"] /\ wrote' = [wrote EXCEPT ![r] = TRUE]
    /\ UNCHANGED <<cfgvars, picks, hist, now, nacc, conn, up, cn, t0, dt, ht, rdl, sdl, fin, ret, quiet>>

\* roundRobin.Address: index starts at -1, AddInt64(+1) % len: the first call yields addresses[0]
Pick(r) ==
    /\ pc[r] = "route" /\ kind[r] # "static"
    /\ picks' = picks + 1
    /\ up' = [up EXCEPT ![r] = (picks % N) + 1]
    /\ hist' = Append(hist, (picks % N) + 1)
    /\ dt' = [dt EXCEPT ![r] = now]
    /\ pc' = [pc EXCEPT ![r] = "dial"]
    /\ UNCHANGED <<cfgvars, now, nacc, conn, cn, t0, ht, rdl, sdl, fin, wrote, ret, quiet>>

\* the dial succeeds; SetReadTimeout / SetSendTimeout arm two ABSOLUTE deadlines, once
DialOK(r) ==
    /\ pc[r] = "dial" /\ port[up[r]] = "up"
    /\ LET u == up[r] IN
       /\ nacc' = [nacc EXCEPT ![u] = @ + 1]
       /\ conn' = Append(conn, NewConn(u, r, ModeOf(u, nacc[u] + 1)))
    /\ cn' = [cn EXCEPT ![r] = Len(conn) + 1]
    /\ rdl' = [rdl EXCEPT ![r] = now + RT] /\ sdl' = [sdl EXCEPT ![r] = now + ST]
    /\ pc' = [pc EXCEPT ![r] = "params"]
    /\ UNCHANGED <<cfgvars, picks, hist, now, up, t0, dt, ht, fin, wrote, ret, quiet>>

\* a failing dial fails the request: the next address is NOT tried
DialRefused(r) ==
    /\ pc[r] = "dial" /\ port[up[r]] = "refuse"
    /\ ret' = [ret EXCEPT ![r] = 502] /\ pc' = [pc EXCEPT ![r] = "ret"]
    /\ UNCHANGED <<cfgvars, picks, hist, now, nacc, conn, up, cn, t0, dt, ht, rdl, sdl, fin, wrote, quiet>>

\* connect_timeout: the dial context expires (answered 502 like every dial error, not 504)
DialTimeout(r) ==
    /\ pc[r] = "dial" /\ port[up[r]] = "blackhole"
    /\ now + Skew >= dt[r] + CT /\ now <= dt[r] + CT + Slack
    /\ ret' = [ret EXCEPT ![r] = 502] /\ pc' = [pc EXCEPT ![r] = "ret"]
    /\ UNCHANGED <<cfgvars, picks, hist, now, nacc, conn, up, cn, t0, dt, ht, rdl, sdl, fin, wrote, quiet>>

SendParams(r) ==
    /\ pc[r] = "params"
    /\ conn' = [conn EXCEPT ![cn[r]].got = "params", ![cn[r]].nbeg = @ + 1]
    /\ pc' = [pc EXCEPT ![r] = "body"]
    /\ UNCHANGED <<cfgvars, picks, hist, now, nacc, up, cn, t0, dt, ht, rdl, sdl, fin, wrote, ret, quiet>>

\* a body larger than the socket buffers to a backend that does not read: the write blocks
Blocked(r) == conn[cn[r]].mode = "noread" /\ kind[r] = "big"

SendBody(r) ==
    /\ pc[r] = "body" /\ ~Blocked(r)
    /\ conn' = [conn EXCEPT ![cn[r]].got = "req", ![cn[r]].rt = now]
    /\ pc' = [pc EXCEPT ![r] = "hdr"] /\ ht' = [ht EXCEPT ![r] = now]
    /\ UNCHANGED <<cfgvars, picks, hist, now, nacc, up, cn, t0, dt, rdl, sdl, fin, wrote, ret, quiet>>

\* send_timeout: the blocked write fails at the send deadline; Do drops the error and goes on to read
SendTimeout(r) ==
    /\ pc[r] = "body" /\ Blocked(r)
    /\ now + Skew >= sdl[r] /\ now <= sdl[r] + Slack
    /\ pc' = [pc EXCEPT ![r] = "hdr"] /\ ht' = [ht EXCEPT ![r] = now]
    /\ UNCHANGED <<cfgvars, picks, hist, now, nacc, conn, up, cn, t0, dt, rdl, sdl, fin, wrote, ret, quiet>>

\* the response header block arrived: writeHeader(w, resp) commits the client's header
ReadHeader(r) ==
    /\ pc[r] = "hdr" /\ conn[cn[r]].resp \in {"full", "cutclose", "cutstall"}
    /\ wrote' = [wrote EXCEPT ![r] = TRUE] /\ pc' = [pc EXCEPT ![r] = "copy"]
    /\ UNCHANGED <<cfgvars, picks, hist, now, nacc, conn, up, cn, t0, dt, ht, rdl, sdl, fin, ret, quiet>>

\* the backend closed without a byte: Request returns io.EOF, ServeHTTP answers 502 (see header)
HeaderEOF(r) ==
    /\ pc[r] = "hdr" /\ conn[cn[r]].resp = "eof"
    /\ ret' = [ret EXCEPT ![r] = 502] /\ pc' = [pc EXCEPT ![r] = "close"]
    /\ UNCHANGED <<cfgvars, picks, hist, now, nacc, conn, up, cn, t0, dt, ht, rdl, sdl, fin, wrote, quiet>>

\* read_timeout: nothing (complete) to read at the read deadline -> 504.  The deadline is
\* absolute: when the send deadline lies behind it (blocked write) it has already passed
ReadTimeout(r) ==
    /\ pc[r] = "hdr" /\ conn[cn[r]].resp = "none"
    /\ now + Skew >= rdl[r] /\ now <= Max2(rdl[r], ht[r]) + Slack
    /\ ret' = [ret EXCEPT ![r] = 504] /\ pc' = [pc EXCEPT ![r] = "close"]
    /\ UNCHANGED <<cfgvars, picks, hist, now, nacc, conn, up, cn, t0, dt, ht, rdl, sdl, fin, wrote, quiet>>

CopyDone(r) ==
    /\ pc[r] = "copy" /\ conn[cn[r]].resp = "full"
    /\ ret' = [ret EXCEPT ![r] = 0] /\ pc' = [pc EXCEPT ![r] = "close"]
    /\ UNCHANGED <<cfgvars, picks, hist, now, nacc, conn, up, cn, t0, dt, ht, rdl, sdl, fin, wrote, quiet>>

\* the copy of the body fails after the client's header went out (connection closed inside a record)
CopyCut(r) ==
    /\ pc[r] = "copy" /\ conn[cn[r]].resp = "cutclose"
    /\ ret' = [ret EXCEPT ![r] = CopyErrStatus] /\ pc' = [pc EXCEPT ![r] = "close"]
    /\ UNCHANGED <<cfgvars, picks, hist, now, nacc, conn, up, cn, t0, dt, ht, rdl, sdl, fin, wrote, quiet>>

\* ... or runs into the read deadline
CopyTimeout(r) ==
    /\ pc[r] = "copy" /\ conn[cn[r]].resp = "cutstall"
    /\ now + Skew >= rdl[r] /\ now <= Max2(rdl[r], ht[r]) + Slack
    /\ ret' = [ret EXCEPT ![r] = CopyErrStatus] /\ pc' = [pc EXCEPT ![r] = "close"]
    /\ UNCHANGED <<cfgvars, picks, hist, now, nacc, conn, up, cn, t0, dt, ht, rdl, sdl, fin, wrote, quiet>>

\* the deferred closes: exactly one close of the one connection this request opened
CloseConn(r) ==
    /\ pc[r] = "close"
    /\ conn' = [conn EXCEPT ![cn[r]].st = "closed"]
    /\ pc' = [pc EXCEPT ![r] = "ret"]
    /\ UNCHANGED <<cfgvars, picks, hist, now, nacc, up, cn, t0, dt, ht, rdl, sdl, fin, wrote, ret, quiet>>

Return(r) ==
    /\ pc[r] = "ret"
    /\ fin' = [fin EXCEPT ![r] = now] /\ pc' = [pc EXCEPT ![r] = "done"]
    /\ UNCHANGED <<cfgvars, picks, hist, now, nacc, conn, up, cn, t0, dt, ht, rdl, sdl, wrote, ret, quiet>>

\* ------------------------------------------------------------------ the backends
AnswerDue(c) == conn[c].mode # "slow" \/ now + Skew >= conn[c].rt + SD
Answer(c) ==
    /\ c <= Len(conn)
    /\ conn[c].got = "req" /\ conn[c].resp = "none" /\ conn[c].st = "open"
    /\ RespOf(conn[c].mode) # "none"
    /\ AnswerDue(c) /\ (conn[c].mode = "slow" => now <= conn[c].rt + SD + Slack)
    /\ conn' = [conn EXCEPT ![c].resp = RespOf(conn[c].mode)]
    /\ UNCHANGED <<cfgvars, picks, hist, now, nacc, reqvars, quiet>>

SeeClose(c) ==
    /\ c <= Len(conn)
    /\ conn[c].st = "closed"
    /\ conn' = [conn EXCEPT ![c].st = "seen"]
    /\ UNCHANGED <<cfgvars, picks, hist, now, nacc, reqvars, quiet>>

AllDone == \A r \in Reqs : r <= nreq => pc[r] = "done"
Quiesce ==
    /\ ~quiet /\ AllDone /\ \A c \in 1..Len(conn) : conn[c].st # "closed"
    /\ quiet' = TRUE
    /\ UNCHANGED <<cfgvars, picks, hist, now, nacc, conn, reqvars>>

\* ------------------------------------------------------------------ time
\* a step that takes no time is pending for r, or a deadline of r is due
Urgent(r) ==
    \/ pc[r] \in {"route", "params", "close", "ret"}
    \/ pc[r] = "new" /\ seq /\ r <= nreq /\ \A q \in 1..(r-1) : pc[q] = "done"
    \/ pc[r] = "dial" /\ (port[up[r]] # "blackhole" \/ now >= dt[r] + CT)
    \/ pc[r] = "body" /\ (~Blocked(r) \/ now >= sdl[r])
    \/ pc[r] = "hdr" /\ (conn[cn[r]].resp # "none" \/ now >= rdl[r])
    \/ pc[r] = "copy" /\ (conn[cn[r]].resp # "cutstall" \/ now >= rdl[r])
BackendUrgent(c) ==
    \/ conn[c].st = "closed"
    \/ /\ conn[c].got = "req" /\ conn[c].resp = "none" /\ conn[c].st = "open"
       /\ RespOf(conn[c].mode) # "none" /\ now >= conn[c].rt + (IF conn[c].mode = "slow" THEN SD ELSE 0)
Horizon == MaxStart + MaxSet(CTOpts) + MaxSet(RTOpts) + MaxSet(STOpts) + 1
Tick ==
    /\ ~quiet /\ ~AllDone
    /\ seq \/ now < Horizon
    /\ seq \/ now < MaxStart \/ \A r \in Reqs : r <= nreq => Started(r)
    /\ \A r \in Reqs : ~Urgent(r)
    /\ \A c \in 1..Len(conn) : ~BackendUrgent(c)
    /\ now' = now + 1
    /\ UNCHANGED <<cfgvars, picks, hist, nacc, conn, reqvars, quiet>>

Next ==
    \/ \E r \in Reqs : \/ Start(r) \/ PassOn(r) \/ Pick(r) \/ DialOK(r) \/ DialRefused(r) \/ DialTimeout(r)
                       \/ SendParams(r) \/ SendBody(r) \/ SendTimeout(r)
                       \/ ReadHeader(r) \/ HeaderEOF(r) \/ ReadTimeout(r)
                       \/ CopyDone(r) \/ CopyCut(r) \/ CopyTimeout(r) \/ CloseConn(r) \/ Return(r)
    \/ \E c \in Reqs : Answer(c) \/ SeeClose(c)          \* (at most one connection per request)
    \/ Quiesce
    \/ Tick

Spec == Init /\ [][Next]_vars
FairSpec == Spec /\ WF_vars(Next)

\* ================================================================== the guarantees
\* ---- RoundRobinEven: over k*N consecutive calls of Address() every upstream is handed out
\* exactly k times - healthy or not, whatever the interleaving (the counter is atomic) ...
Count(u, s) == Cardinality({i \in 1..Len(s) : s[i] = u})
RoundRobinEven == \A k \in 0..MaxReq : Len(hist) = k * N => \A u \in Ups : Count(u, hist) = k
\* ... because any N consecutive picks are N different upstreams (no address is skipped, none
\* repeated: in particular a failing dial does not move the NEXT request past an address)
RoundRobinWindow == \A i \in 1..Len(hist) : i + N - 1 <= Len(hist)
                        => Cardinality({hist[j] : j \in i..(i + N - 1)}) = N
\* ... and, as implemented, in declaration order starting with the first address
RotationAsDeclared == \A i \in 1..Len(hist) : hist[i] = ((i - 1) % N) + 1
\* a request that is not forwarded does not advance the rotation
RotationOnlyOnForward == picks = Cardinality({r \in Reqs : kind[r] # "static" /\ pc[r] \notin {"new", "route"}})

\* ---- PoolBounded: connections that outlive their request, per upstream
Idle(u) == {c \in 1..Len(conn) : conn[c].u = u /\ conn[c].st = "open" /\ pc[conn[c].owner] = "done"}
PoolBounded == \A u \in Ups : Cardinality(Idle(u)) <= PoolCap
\* open connections never exceed the requests in flight (+ what the pool may hold)
OpenBounded == Cardinality({c \in 1..Len(conn) : conn[c].st = "open"})
                   <= Cardinality({r \in Reqs : InFlight(r)}) + N * PoolCap

\* ---- NoSharedConnection: a connection belongs to one request at a time
NoSharedConnection ==
    /\ \A r1, r2 \in Reqs : r1 # r2 /\ cn[r1] # 0 => cn[r1] # cn[r2]
    /\ \A r \in Reqs : cn[r] # 0 => conn[cn[r]].owner = r /\ conn[cn[r]].u = up[r]

\* ---- ReuseOnlyAfterCompleteResponse: a connection is given a second request only after a
\* complete response, and only if there is a pool at all - here: never
ReuseOnlyAfterCompleteResponse ==
    \A c \in 1..Len(conn) : conn[c].nbeg <= 1 \/ (PoolCap > 0 /\ conn[c].resp = "full")

\* ---- the handler contract (httpserver.Handler): once the response header is written the
\* handler returns 0 - otherwise the error page is appended to the relayed response
HandlerContract == \A r \in Reqs : pc[r] \in {"close", "ret", "done"} /\ wrote[r] => ret[r] = 0

\* ---- every request closes the connection it opened, once, before it returns
ClosedBeforeReturn == \A r \in Reqs : pc[r] \in {"ret", "done"} /\ cn[r] # 0 => conn[cn[r]].st # "open"

\* ---- NoFdLeak: after traffic stopped no connection to a backend is open beyond the pool
NoFdLeak == quiet => \A c \in 1..Len(conn) : conn[c].st = "seen"

\* ---- what the client gets, and when: a function of what ITS upstream did and of the three
\* time-outs (the oracle; independent of the actions above)
Outcome(pm, m, kd) ==
    CASE kd = "static"      -> [st |-> 200, body |-> "static", dur |-> 0]
      [] pm = "refuse"      -> [st |-> 502, body |-> "err", dur |-> 0]
      [] pm = "blackhole"   -> [st |-> 502, body |-> "err", dur |-> CT]
      [] m = "ok"           -> [st |-> 200, body |-> "full", dur |-> 0]
      [] m = "slow"         -> [st |-> 200, body |-> "full", dur |-> SD]
      [] m = "stall"        -> [st |-> 504, body |-> "err", dur |-> RT]
      [] m = "noread"       -> [st |-> 504, body |-> "err", dur |-> IF kd = "big" THEN Max2(RT, ST) ELSE RT]
      [] m = "closeearly"   -> [st |-> 502, body |-> "err", dur |-> 0]
      [] m = "closemid"     -> [st |-> 200, body |-> "cut", dur |-> 0]
      [] m = "stallbody"    -> [st |-> 200, body |-> "cut", dur |-> RT]
\* the client's view of a finished request
View(r) == IF kind[r] = "static" THEN [st |-> 200, body |-> "static"]
           ELSE IF wrote[r] THEN [st |-> 200, body |-> IF ret[r] >= 400 THEN "polluted"
                                                      ELSE IF conn[cn[r]].resp = "full" THEN "full" ELSE "cut"]
           ELSE [st |-> ret[r], body |-> "err"]
Expected(r) == Outcome(IF up[r] = 0 THEN "up" ELSE port[up[r]],
                       IF cn[r] = 0 THEN "ok" ELSE conn[cn[r]].mode, kind[r])
OutcomeByUpstream == \A r \in Reqs : pc[r] = "done" =>
    /\ View(r).st = Expected(r).st /\ View(r).body = Expected(r).body
\* TimeoutBounded: a finished request took exactly what the oracle says (within the clock's
\* uncertainty); a request in flight is never older than the longest time-out
Bound == Max2(CT, Max2(RT, ST))
TimeoutBounded ==
    /\ \A r \in Reqs : pc[r] = "done" =>
          /\ fin[r] - t0[r] + Skew >= Expected(r).dur
          /\ fin[r] - t0[r] <= Expected(r).dur + Slack
    /\ \A r \in Reqs : InFlight(r) => now - t0[r] <= Bound + Slack

\* ---- liveness: whatever the backends do, every request is answered and the connections go away
Finishes == <>quiet

\* ================================================================== emission of scenarios
SeqExpect(r) == LET o == Outcome(IF SeqUp(r) = 0 THEN "up" ELSE port[SeqUp(r)], SeqMode(r), kind[r])
                IN [up |-> SeqUp(r), st |-> o.st, body |-> o.body, dur |-> o.dur]
Pristine == now = 0 /\ picks = 0 /\ \A r \in Reqs : pc[r] = "new"
CaseRec == [n |-> N, ports |-> port, beh |-> beh, ct |-> CT, rt |-> RT, st |-> ST, sd |-> SD,
            kinds |-> [r \in 1..nreq |-> kind[r]], seq |-> seq,
            expect |-> [r \in 1..nreq |-> SeqExpect(r)]]
Emit == (EmitCases /\ Pristine) => PrintT(<<"CASE", ToJson(CaseRec)>>)
\* in a sequential scenario the model must agree with the emitted expectation
SeqAgrees == seq => \A r \in Reqs : pc[r] = "done" =>
                 /\ up[r] = SeqExpect(r).up /\ View(r).st = SeqExpect(r).st /\ View(r).body = SeqExpect(r).body
                 /\ fin[r] - t0[r] = SeqExpect(r).dur
=============================================================================
