CONSTANTS MaxInst = 2
 MaxSigs = 3
INIT Init
NEXT Stop
INVARIANT Emit
CHECK_DEADLOCK FALSE
