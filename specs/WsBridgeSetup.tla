--------------------------- MODULE WsBridgeSetup ---------------------------
(***************************************************************************)
(* webSocketParse (caskethttp/websocket/setup.go): from the tokens of the  *)
(* `websocket` lines of a site to the list of endpoint configurations.     *)
(*                                                                         *)
(*     websocket [path] command          command = one token, split into   *)
(*     websocket [path] command {        program and arguments with shell  *)
(*         respawn                       quoting (casket.SplitCommandAnd-  *)
(*         type lines|text|binary        Args); path defaults to "/"       *)
(*         bufsize N                                                       *)
(*     }                                                                   *)
(*                                                                         *)
(* The dispenser is modelled token by token (a token = text + line), one   *)
(* action per call the code makes: PNext (`for c.Next()`), PFirst (the     *)
(* first NextArg), PBlock (one pass of `for c.NextBlock()` with the body   *)
(* of the loop: RemainingArgs and the option), PSecond (the second         *)
(* NextArg, which decides whether the first token was a path or the        *)
(* command), PSplit (SplitCommandAndArgs, defaults, append).  NextBlock    *)
(* follows casketfile/dispenser.go: a block opens on the same line, an     *)
(* empty block `{ }` is "no block", the closing brace ends the loop.       *)
(*                                                                         *)
(* Guarantees: ParseTotal (every input ends in a list or an error),        *)
(* NoEmptyCommand, DocumentedFormsAccepted (the forms above give exactly   *)
(* one endpoint per line with the path, command, arguments, type and       *)
(* bufsize written; an unknown option is an error; a line without          *)
(* arguments is an error).  Everything else (further arguments on the      *)
(* line, an unknown type, a bufsize that is no number) is modelled as the  *)
(* code behaves and emitted as `doc = FALSE`: recorded, not judged.        *)
(*                                                                         *)
(* FixBlock (TRUE = the code as repaired): `websocket command { options }` *)
(* - a block directly behind the first argument - keeps the command (as    *)
(* found: the branch for that form forgets to assign it and the load       *)
(* fails with "no command contained in ''").                               *)
(***************************************************************************)
EXTENDS Integers, Sequences, FiniteSets, TLC, Json

CONSTANTS MaxArgs,      \* arguments on a `websocket` line: 0..MaxArgs
          Blocks,       \* the blocks tried (names, see BlockToks)
          Seconds,      \* shapes of a second `websocket` line ("none" = a single line)
          FixBlock

ArgKinds == {"P", "C", "Q", "X"}      \* a path /a, a command, a quoted command with arguments, a further word
T(v, ln) == [v |-> v, ln |-> ln]

\* the tokens of a block that opens on line ln (entries on the following lines); "none" = no block
BlockToks(b, ln) ==
    CASE b = "none"     -> <<>>
      [] b = "empty"    -> <<T("{", ln), T("}", ln + 1)>>
      [] b = "respawn"  -> <<T("{", ln), T("respawn", ln + 1), T("}", ln + 2)>>
      [] b = "text"     -> <<T("{", ln), T("type", ln + 1), T("text", ln + 1), T("}", ln + 2)>>
      [] b = "typeonly" -> <<T("{", ln), T("type", ln + 1), T("}", ln + 2)>>
      [] b = "bogustype" -> <<T("{", ln), T("type", ln + 1), T("bogus", ln + 1), T("}", ln + 2)>>
      [] b = "buf8"     -> <<T("{", ln), T("bufsize", ln + 1), T("8", ln + 1), T("}", ln + 2)>>
      [] b = "bufbad"   -> <<T("{", ln), T("bufsize", ln + 1), T("abc", ln + 1), T("}", ln + 2)>>
      [] b = "bufneg"   -> <<T("{", ln), T("bufsize", ln + 1), T("-1", ln + 1), T("}", ln + 2)>>
      [] b = "junk"     -> <<T("{", ln), T("junk", ln + 1), T("}", ln + 2)>>
      [] b = "bin8"     -> <<T("{", ln), T("respawn", ln + 1), T("type", ln + 2), T("binary", ln + 2), T("bufsize", ln + 3), T("8", ln + 3), T("}", ln + 4)>>
      [] b = "junk2"    -> <<T("{", ln), T("type", ln + 1), T("text", ln + 1), T("junk", ln + 2), T("}", ln + 3)>>
BlockLines(b) == CASE b \in {"none"} -> 0 [] b = "empty" -> 1 [] b = "bin8" -> 4 [] b = "junk2" -> 3 [] OTHER -> 2

LineToks(args, b, ln) ==
    <<T("websocket", ln)>> \o [i \in 1..Len(args) |-> T(args[i], ln)] \o BlockToks(b, ln)

SecondLine(s, ln) ==
    CASE s = "none" -> <<>>
      [] s = "PC"   -> LineToks(<<"P2", "C">>, "none", ln)
      [] s = "C"    -> LineToks(<<"C">>, "none", ln)
      [] s = "PQb"  -> LineToks(<<"P2", "Q">>, "buf8", ln)

RECURSIVE SeqsUpTo(_)
SeqsUpTo(n) == IF n = 0 THEN {<<>>} ELSE SeqsUpTo(n - 1) \cup {Append(s, k) : s \in {x \in SeqsUpTo(n - 1) : Len(x) = n - 1}, k \in ArgKinds}

VARIABLES args1, blk1, second,       \* the input
          toks, cur, nest,           \* the dispenser
          pc, val, path, cmd, hadBlock, wsType, bufSize, respawn, pass,   \* locals of one iteration
          socks, err
vars == <<args1, blk1, second, toks, cur, nest, pc, val, path, cmd, hadBlock, wsType, bufSize, respawn, pass, socks, err>>
inpv == <<args1, blk1, second, toks>>

Init ==
    /\ args1 \in SeqsUpTo(MaxArgs) /\ blk1 \in Blocks /\ second \in Seconds
    /\ (args1 = <<>> => blk1 = "none")
    /\ toks = LineToks(args1, blk1, 1) \o SecondLine(second, 2 + BlockLines(blk1))
    /\ cur = 0 /\ nest = 0
    /\ pc = "next" /\ val = "" /\ path = "" /\ cmd = "" /\ hadBlock = FALSE /\ wsType = "" /\ bufSize = 0 /\ respawn = FALSE /\ pass = 1
    /\ socks = <<>> /\ err = ""

Val == IF cur >= 1 /\ cur <= Len(toks) THEN toks[cur].v ELSE ""
SameLineNext == cur >= 1 /\ cur < Len(toks) /\ toks[cur].ln = toks[cur + 1].ln

\* for c.Next() { var respawn bool; var wsType string; var bufSize int; ...
PNext ==
    /\ pc = "next"
    /\ IF cur < Len(toks)
       THEN /\ cur' = cur + 1 /\ pc' = "first"
            /\ val' = "" /\ path' = "" /\ cmd' = "" /\ hadBlock' = FALSE /\ wsType' = "" /\ bufSize' = 0 /\ respawn' = FALSE /\ pass' = 1
       ELSE pc' = "done" /\ UNCHANGED <<cur, val, path, cmd, hadBlock, wsType, bufSize, respawn, pass>>
    /\ UNCHANGED <<inpv, nest, socks, err>>

\* if !c.NextArg() { return nil, c.ArgErr() } ; val = c.Val()
PFirst ==
    /\ pc = "first"
    /\ IF SameLineNext THEN cur' = cur + 1 /\ val' = toks[cur + 1].v /\ pc' = "block" /\ UNCHANGED err
       ELSE err' = "argerr" /\ pc' = "done" /\ UNCHANGED <<cur, val>>
    /\ UNCHANGED <<inpv, nest, path, cmd, hadBlock, wsType, bufSize, respawn, pass, socks>>

\* the tokens behind the option on its line (RemainingArgs)
RestOfLine(i) == LET same == {j \in (i + 1)..Len(toks) : toks[j].ln = toks[i].ln /\ \A k \in (i + 1)..j : toks[k].v # "{"}
                 IN  [k \in 1..Cardinality(same) |-> toks[i + k].v]
AtoiOK(s) == s \in {"8", "-1"}
Atoi(s) == IF s = "8" THEN 8 ELSE -1

\* one pass of `for c.NextBlock() { hadBlock = true; switch c.Val() ... }`
PBlock ==
    /\ pc = "block"
    /\ IF nest = 0
       THEN \* the block must open on the same line
            IF ~SameLineNext THEN pc' = "afterblock" /\ UNCHANGED <<cur, nest, hadBlock, wsType, bufSize, respawn, err>>
            ELSE IF toks[cur + 1].v # "{" THEN pc' = "afterblock" /\ UNCHANGED <<cur, nest, hadBlock, wsType, bufSize, respawn, err>>   \* rolled back
            ELSE IF cur + 2 <= Len(toks) /\ toks[cur + 2].v = "}"
                 THEN cur' = cur + 2 /\ pc' = "afterblock" /\ UNCHANGED <<nest, hadBlock, wsType, bufSize, respawn, err>>   \* opened and closed right away
            ELSE cur' = cur + 2 /\ nest' = 1 /\ pc' = "option" /\ UNCHANGED <<hadBlock, wsType, bufSize, respawn, err>>
       ELSE \* inside: the next token, whatever line it is on
            IF cur >= Len(toks) THEN pc' = "afterblock" /\ UNCHANGED <<cur, nest, hadBlock, wsType, bufSize, respawn, err>>
            ELSE IF toks[cur + 1].v = "}" THEN cur' = cur + 1 /\ nest' = 0 /\ pc' = "afterblock" /\ UNCHANGED <<hadBlock, wsType, bufSize, respawn, err>>
            ELSE cur' = cur + 1 /\ pc' = "option" /\ UNCHANGED <<nest, hadBlock, wsType, bufSize, respawn, err>>
    /\ UNCHANGED <<inpv, val, path, cmd, pass, socks>>

\* the body of the loop
POption ==
    /\ pc = "option"
    /\ hadBlock' = TRUE
    /\ LET rest == RestOfLine(cur) IN
       CASE Val = "respawn" -> respawn' = TRUE /\ pc' = "block" /\ UNCHANGED <<cur, wsType, bufSize, err>>
         [] Val = "type"    -> /\ wsType' = IF Len(rest) > 0 THEN rest[1] ELSE wsType
                               /\ cur' = cur + Len(rest) /\ pc' = "block" /\ UNCHANGED <<respawn, bufSize, err>>
         [] Val = "bufsize" -> /\ bufSize' = IF Len(rest) = 0 THEN bufSize
                                             ELSE IF AtoiOK(rest[1]) /\ Atoi(rest[1]) >= 0 THEN Atoi(rest[1]) ELSE 0
                               /\ cur' = cur + Len(rest) /\ pc' = "block" /\ UNCHANGED <<respawn, wsType, err>>
         [] OTHER           -> err' = "badoption" /\ pc' = "done" /\ UNCHANGED <<cur, respawn, wsType, bufSize>>
    /\ UNCHANGED <<inpv, nest, val, path, cmd, pass, socks>>

\* after the first optionalBlock: if !hadBlock { if c.NextArg() { path = val; command = c.Val() } else { path = "/"; command = val }; optionalBlock() }
PSecond ==
    /\ pc = "afterblock"
    /\ IF pass = 2 THEN pc' = "split" /\ UNCHANGED <<cur, path, cmd, pass>>
       ELSE IF hadBlock
       THEN /\ pc' = "split" /\ UNCHANGED <<cur, pass>>
            /\ IF FixBlock THEN path' = "/" /\ cmd' = val ELSE UNCHANGED <<path, cmd>>
       ELSE /\ pass' = 2 /\ pc' = "block"
            /\ IF SameLineNext THEN cur' = cur + 1 /\ path' = val /\ cmd' = toks[cur + 1].v
               ELSE path' = "/" /\ cmd' = val /\ UNCHANGED cur
    /\ UNCHANGED <<inpv, nest, val, hadBlock, wsType, bufSize, respawn, socks, err>>

\* casket.SplitCommandAndArgs(command): shell-style words; nothing = error
Program(c) == CASE c = "Q" -> "C" [] OTHER -> c
ArgsOf(c) == IF c = "Q" THEN <<"a b", "c">> ELSE <<>>
PSplit ==
    /\ pc = "split"
    /\ IF cmd = "" THEN err' = "nocommand" /\ pc' = "done" /\ UNCHANGED socks
       ELSE /\ socks' = Append(socks, [path |-> path, prog |-> Program(cmd), args |-> ArgsOf(cmd),
                                       type |-> (IF wsType = "" THEN "lines" ELSE wsType), buf |-> bufSize])
            /\ pc' = "next" /\ UNCHANGED err
    /\ UNCHANGED <<inpv, cur, nest, val, path, cmd, hadBlock, wsType, bufSize, respawn, pass>>

Next == PNext \/ PFirst \/ PBlock \/ POption \/ PSecond \/ PSplit
Spec == Init /\ [][Next]_vars /\ WF_vars(Next)

(* ---- guarantees ------------------------------------------------------------ *)
TypeOK == /\ pc \in {"next", "first", "block", "option", "afterblock", "split", "done"}
          /\ cur \in 0..Len(toks) /\ nest \in {0, 1} /\ err \in {"", "argerr", "badoption", "nocommand"}
ParseTotal == <>(pc = "done")
NoEmptyCommand == \A i \in 1..Len(socks) : socks[i].prog # ""

\* the documented forms and what they mean
DocArgs == {<<"C">>, <<"Q">>, <<"P", "C">>, <<"P", "Q">>}
GoodBlocks == {"none", "empty", "respawn", "text", "buf8", "bin8"}
BadBlocks == {"junk", "junk2"}
TypeOfBlock(b) == CASE b = "text" -> "text" [] b = "bin8" -> "binary" [] OTHER -> "lines"
BufOfBlock(b) == IF b \in {"buf8", "bin8"} THEN 8 ELSE 0
DocSock(a, b) == [path |-> (IF Len(a) = 2 THEN a[1] ELSE "/"), prog |-> Program(a[Len(a)]), args |-> ArgsOf(a[Len(a)]),
                  type |-> TypeOfBlock(b), buf |-> BufOfBlock(b)]
SecondSock(s) == CASE s = "PC" -> <<[path |-> "P2", prog |-> "C", args |-> <<>>, type |-> "lines", buf |-> 0]>>
                   [] s = "C"  -> <<[path |-> "/", prog |-> "C", args |-> <<>>, type |-> "lines", buf |-> 0]>>
                   [] s = "PQb" -> <<[path |-> "P2", prog |-> "C", args |-> <<"a b", "c">>, type |-> "lines", buf |-> 8]>>
                   [] OTHER -> <<>>
Documented == args1 \in DocArgs /\ blk1 \in GoodBlocks
MustFail == args1 = <<>> \/ (args1 \in DocArgs /\ blk1 \in BadBlocks)
DocumentedFormsAccepted ==
    pc = "done" =>
        /\ Documented => err = "" /\ socks = <<DocSock(args1, blk1)>> \o SecondSock(second)
        /\ MustFail => err # ""

Emit == pc = "done" =>
    PrintT(<<"CASE", ToJson([args |-> args1, block |-> blk1, second |-> second,
                             err |-> err, socks |-> socks, doc |-> Documented, mustfail |-> MustFail])>>)
=============================================================================
