-------------------------- MODULE CasketGrammarSim --------------------------
(* CasketGrammar with the full class alphabets, explored by random simulation              *)
(* (tlc -simulate, seeded by VERIF_SEED); a separate module name keeps its cases apart.     *)
EXTENDS CasketGrammar
=============================================================================
