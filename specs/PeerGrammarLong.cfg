CONSTANTS
  MaxLen <- MaxLenLong
  Modes <- ModesQuick
INIT InitLong
NEXT Next
INVARIANT Bounded
INVARIANT Emit
CHECK_DEADLOCK FALSE
