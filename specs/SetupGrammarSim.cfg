CONSTANTS MaxTop = 4
          MaxTopBlock = 3
          MaxLines = 3
          MaxLineArgs = 3
          MaxLineArgs0 = 3
          Nested = TRUE
          ArgCl = {"em", "wd", "in", "ni", "hi", "fl", "du", "sz", "pa", "ur", "rx", "qs", "kw", "ob"}
SPECIFICATION Spec
INVARIANT TypeOK
INVARIANT Emit
CHECK_DEADLOCK FALSE
