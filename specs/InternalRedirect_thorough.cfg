CONSTANT MaxRedirects = 10
CONSTANT Backends = {"ba", "bc", "bp", "bq"}
CONSTANT RedirKinds = {"redir", "both", "flush"}
CONSTANT Methods = {"GET", "POST"}
CONSTANT FlushGuard = TRUE
SPECIFICATION Spec
INVARIANT TypeOK
INVARIANT ClientNeverSeesAccelHeader
INVARIANT DirectRequestRefused
INVARIANT InternalContentOnlyViaAccel
INVARIANT BoundedRedirects
INVARIANT DiscardedResponseLeavesNoTrace
INVARIANT RedirectDropsResponse
INVARIANT ReissuedRequestShape
INVARIANT FinalIsLastHandlers
INVARIANT Emit
PROPERTY CommitOnce
PROPERTY Terminates
CHECK_DEADLOCK FALSE
