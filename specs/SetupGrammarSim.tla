--------------------------- MODULE SetupGrammarSim ---------------------------
(* SetupGrammar with larger bounds (several block lines, nested blocks, more arguments),    *)
(* explored by random simulation (tlc -simulate, seeded by VERIF_SEED); a separate module     *)
(* name keeps its cases apart.                                                               *)
EXTENDS SetupGrammar
=============================================================================
