CONSTANTS MaxB = 2
 MaxOps = 0
 ReqKinds = {"ws", "close"}
 Presets = {TRUE}
 Transps = {TRUE}
 MCs = {1}
 Statuses = {101, 200}
 Splits = "all"
 FwdBuffered = TRUE
 FlushOn = TRUE
 CloseDeclined = TRUE
SPECIFICATION Spec
INVARIANTS TypeOK
PROPERTIES BothClosedWhenEitherCloses RelayCompletes StreamedProgressively
CHECK_DEADLOCK FALSE
