CONSTANTS MaxSrv = 1
 Caps = {4}
 MaxTicks = 6
 MaxOps = 0
 Repaired = TRUE
 Sync = TRUE
INIT Init
NEXT NextRot
INVARIANTS Emit TypeOK NonEmpty CapBound FirstIsNewest Lifetime NewerKeysExist NoReuse NoSetAfterClose TickerStopped Growth
CHECK_DEADLOCK FALSE
