\* thorough: six methods, every path and host token
CONSTANTS
  EMIT = TRUE
  FIX_KEY = TRUE
  FIX_TRIM = TRUE
  FIX_SNICLOSE = TRUE
  Methods = {"GET", "HEAD", "POST", "OPTIONS", "TRACE", "BREW"}
  Versions = {"1.1", "1.0"}
  OriginPaths = {"/", "/x", "/base", "/base/x", "/basex", "//base/x", "/BASE/x", "/b%61se/x", "/base%2Fx", "/base//e", "/.well-known/acme-challenge/t", "/base/.well-known/acme-challenge/t"}
  OriginHosts = {"a.test", "A.TEST", "a.test:{port}", "A.Test:99", "a.test.", "b.w.test", "B.W.TEST:{port}", "w.test", "x.y.w.test", "*.w.test", "other.test", "[::1]", "[::1]:{port}", "127.0.0.1:{port}", "", "a.test/base", "u@a.test"}
  AbsHosts = {"a.test", "A.TEST", "a.test:{port}", "A.Test:99", "a.test.", "b.w.test", "B.W.TEST:{port}", "x.y.w.test", "other.test", "[::1]", "[::1]:{port}", "127.0.0.1:{port}"}
  AbsPaths = {"", "/", "/base/x", "/b%61se/x"}
SPECIFICATION Spec
INVARIANT TypeOK
INVARIANT ExactlyOneAnswer
INVARIANT HostDecidesSite
INVARIANT SanitisedHostEqualsMatchKey
INVARIANT FallbackBodyIffNothingWritten
INVARIANT NoSuchSiteIs404WithoutSiteLeak
INVARIANT ScopeTrimConsistent
INVARIANT HijackedMeansSilent
INVARIANT StrictSNIHolds
INVARIANT ServerHeaderOnOwnAnswers
INVARIANT Emit
PROPERTY Completes
CHECK_DEADLOCK FALSE
