----------------------------- MODULE ProxyRoute -----------------------------
(***************************************************************************)
(* Which `proxy` rule takes a request, and which target it is sent to.     *)
(* An extension of property C04 (specs/ProxyRelay.tla models ONE rule with *)
(* scope "/" and takes rule selection and most of the target construction  *)
(* for granted).  Modelled code:                                           *)
(*   caskethttp/proxy/upstream.go   NewStaticUpstreams, parseUpstream,     *)
(*                                  NewHost, staticUpstream.AllowedPath    *)
(*   caskethttp/proxy/proxy.go      Proxy.ServeHTTP, Proxy.match           *)
(*   caskethttp/proxy/reverseproxy.go  the director of                     *)
(*                                  NewSingleHostReverseProxy              *)
(*   caskethttp/httpserver/path.go  Path.Matches                           *)
(*   net/url (setPath, EscapedPath, RequestURI) as far as the request line *)
(*   the backend reads depends on it.                                      *)
(*                                                                         *)
(* OPERATIONAL PART - one action per step the code takes:                  *)
(*   SetupRule     one `for c.Next()` iteration of NewStaticUpstreams: the *)
(*                 `to` arguments, then the `upstream` lines, each through *)
(*                 parseUpstream (port ranges) and NewHost (scheme-less    *)
(*                 targets become http://); a refused rule refuses the     *)
(*                 whole Casketfile                                        *)
(*   SetupDone     setup returned nil: the site serves                     *)
(*   Receive       net/http parsed the request line: URL.Path (decoded),   *)
(*                 URL.RawPath (only when the client's spelling is not the *)
(*                 default encoding of Path), RawQuery, ForceQuery         *)
(*   MatchIter     one iteration of the loop in Proxy.match up to the call *)
(*                 of AllowedPath: httpserver.Path(r.URL.Path).Matches(from)*)
(*   AllowedIter   one iteration of the loop in AllowedPath (one `except`  *)
(*                 entry), or - past the last entry - the rest of the      *)
(*                 iteration of Proxy.match: `len(basePath) > longestMatch`*)
(*   MatchDone     the loop is over: no upstream -> p.Next.ServeHTTP       *)
(*   Select        upstream.Select: any host of the pool (the policy is a  *)
(*                 free choice; single-host pools have one choice)         *)
(*   StripWithout  director: strings.TrimPrefix(Path / RawPath, without)   *)
(*   JoinPath      director: singleJoiningSlash(target path, ...) on       *)
(*                 RawPath (if either side has one) and Path; unix: the    *)
(*                 socket path is cut off again                            *)
(*   JoinQuery     director: target query, "&", request query              *)
(*   Send          Transport: the request line is URL.RequestURI(), i.e.   *)
(*                 EscapedPath (RawPath only if it is a valid encoding of  *)
(*                 Path, else Path re-encoded) + "?" + RawQuery            *)
(*                                                                         *)
(* DECLARATIVE PART (section 6): the guarantees written with quantifiers   *)
(* over the rule set instead of loops and with segment-wise path relations *)
(* instead of cleaned byte strings: RuleChoiceIsLongestMatch,              *)
(* ChoiceIsOrderIndependent, ExceptMeansNotProxied,                        *)
(* TargetIsBasePlusStrippedPath, QueryIsBaseThenRequest, NoPathEscape,     *)
(* FromPrefixIsSegmentWise (what it turns out to be: UnderR),              *)
(* PoolIsToThenUpstream, SchemelessIsHTTP, RefusedOnlyForCause.            *)
(*                                                                         *)
(* Texts are sequences of one-character strings (TLC cannot index a        *)
(* string); a request path is a sequence of TOKENS: a literal byte ("a",   *)
(* "/", ";") or one percent-escape ("%2F", "%61", "%20": three bytes on    *)
(* the wire, one byte in URL.Path).  Paths of the Casketfile (from, except,*)
(* without, base path) contain no escapes.                                 *)
(*                                                                         *)
(* Deliberate deviations, each harmless on the alphabets used here:        *)
(* strings.TrimPrefix on RawPath is done token-wise (no Casketfile path    *)
(* contains "%"); URL.Opaque (request targets like "http:x") and           *)
(* target.RawPath (an upstream written with escapes in its path) are not   *)
(* modelled; the retry loop, header rules and the response side are        *)
(* ProxyRelay.tla's; `policy` is abstracted to "any host of the pool".     *)
(***************************************************************************)
EXTENDS Integers, Sequences, FiniteSets, TLC, Json

CONSTANTS Spaces,       \* which factored case spaces: subset of {"route", "target", "query", "pool"}
          RouteSegs,    \* segment names of the request paths of space "route"
          RouteMax,     \* ... at most this many segments
          RouteSegs3,   \* a smaller alphabet for route paths with RouteMax + 1 segments ({} = none)
          RouteFroms,   \* from-paths of space "route" (names, see PathOf)
          RouteExcepts, \* except lists of space "route" (names, see ExOf)
          RouteExcepts1,\* further except lists, for the one-rule sets only
          Route3,       \* TRUE: also the three-rule sets
          TargetSegs, TargetMax,     \* the same for space "target"
          TargetSegs3,  \* a smaller alphabet for target paths with TargetMax + 1 segments
          WithoutRaw,   \* "decoded": `without` is cut from RawPath by the encoded prefix that spells it (repaired)
                        \* "bytes"  : strings.TrimPrefix(RawPath, without) (as found: /%61/x%2Fy with without /a)
          SchemeTest    \* "scheme" : a target is scheme-less unless it starts with http:// or https:// (repaired)
                        \* "prefix" : unless it starts with the four letters http (as found: `proxy / httpd:8080`)

-----------------------------------------------------------------------------
(* 1. bytes, texts, path.Clean, Path.Matches *)

Take(s, n) == SubSeq(s, 1, n)
Drop(s, n) == SubSeq(s, n + 1, Len(s))
HasPrefix(s, p) == Len(p) <= Len(s) /\ Take(s, Len(p)) = p
TrimPrefix(s, p) == IF HasPrefix(s, p) THEN Drop(s, Len(p)) ELSE s
EndsSlash(p) == p # << >> /\ p[Len(p)] = "/"
StartsSlash(p) == p # << >> /\ p[1] = "/"
RECURSIVE Str(_)
Str(s) == IF s = << >> THEN "" ELSE Head(s) \o Str(Tail(s))

\* one token of a request path -> the byte it stands for in URL.Path
Dec(t) == CASE t = "%2F" -> "/" [] t = "%2f" -> "/" [] t = "%61" -> "a" [] t = "%41" -> "A" [] t = "%2E" -> "."
            [] t = "%3B" -> ";" [] t = "%25" -> "%" [] t = "%20" -> " " [] t = "%C3" -> "<C3>" [] t = "%A9" -> "<A9>"
            [] OTHER -> t
\* url.escape(_, encodePath) of one byte: what Go writes when it has to encode URL.Path itself
Esc(c) == CASE c = "%" -> "%25" [] c = " " -> "%20" [] c = "<C3>" -> "%C3" [] c = "<A9>" -> "%A9" [] OTHER -> c
Low(c) == CASE c = "A" -> "a" [] c = "B" -> "b" [] c = "X" -> "x" [] c = "P" -> "p" [] OTHER -> c
DecS(p) == [k \in 1..Len(p) |-> Dec(p[k])]
EscS(p) == [k \in 1..Len(p) |-> Esc(p[k])]
LowS(p) == [k \in 1..Len(p) |-> Low(p[k])]
IsEscape(t) == Dec(t) # t
EscapedSlash(t) == t \in {"%2F", "%2f"}

\* the texts between the slashes; for a rooted path the first one is empty
RECURSIVE SplitFrom(_, _, _)
SplitFrom(p, cur, acc) == IF p = << >> THEN Append(acc, cur)
                          ELSE IF Head(p) = "/" THEN SplitFrom(Tail(p), << >>, Append(acc, cur))
                          ELSE SplitFrom(Tail(p), Append(cur, Head(p)), acc)
Segments(p) == SplitFrom(p, << >>, << >>)
Dot == <<".">>
DotDot == <<".", ".">>
\* path.Clean of a rooted path as a stack machine: "" and "." vanish, ".." pops (and stays at the root)
RECURSIVE CleanStack(_, _)
CleanStack(segs, st) ==
    IF segs = << >> THEN st
    ELSE LET s == Head(segs)
         IN  CleanStack(Tail(segs), IF s = << >> \/ s = Dot THEN st
                                    ELSE IF s = DotDot THEN (IF st = << >> THEN st ELSE Take(st, Len(st) - 1))
                                    ELSE Append(st, s))
RECURSIVE JoinSegs(_)
JoinSegs(st) == IF st = << >> THEN << >> ELSE <<"/">> \o Head(st) \o JoinSegs(Tail(st))
CleanSegs(p) == CleanStack(Segments(p), << >>)
Clean(p) == LET st == CleanSegs(p) IN IF st = << >> THEN <<"/">> ELSE JoinSegs(st)      \* p starts with "/"
\* "re-add a trailing slash if the original path had one and the cleaned path doesn't" (AllowedPath)
CleanKeep(p) == LET c == Clean(p) IN IF EndsSlash(p) /\ ~EndsSlash(c) THEN c \o <<"/">> ELSE c

\* httpserver.Path(p).Matches(base), line by line (CaseSensitivePath is false by default); MatchesC takes path.Clean(p) and
\* "p ends with a slash" from the caller, who keeps them in the state (the code computes them anew in every call)
MatchesC(cleanP, pSlash, base) ==
    IF base = <<"/">> \/ base = << >> THEN TRUE
    ELSE LET pc == cleanP \o (IF pSlash THEN <<"/">> ELSE << >>)       \* added even when Clean gave "/"
             bc == Clean(base) \o (IF EndsSlash(base) THEN <<"/">> ELSE << >>)
         IN  HasPrefix(LowS(pc), LowS(bc))
Matches(p, base) == MatchesC(Clean(p), EndsSlash(p), base)

\* AllowedPath: e := path.Join(u.From(), ignoredSubPath), trailing slash of the entry put back
ExceptPath(from, e) == LET j == Clean(from \o <<"/">> \o e) IN IF EndsSlash(e) /\ ~EndsSlash(j) THEN j \o <<"/">> ELSE j

\* singleJoiningSlash
SJS(a, b) == IF EndsSlash(a) /\ StartsSlash(b) THEN a \o Tail(b)
             ELSE IF ~EndsSlash(a) /\ ~StartsSlash(b) /\ b # << >> THEN a \o <<"/">> \o b
             ELSE a \o b
JoinQ(bq, q) == IF bq = "" \/ q = "" THEN bq \o q ELSE bq \o "&" \o q

\* the shortest prefix of an encoded path that spells the text w (0 = none): the repaired `without` on RawPath
EncPrefixLen(raw, w) == IF Len(raw) >= Len(w) /\ DecS(Take(raw, Len(w))) = w THEN Len(w) ELSE 0

-----------------------------------------------------------------------------
(* 2. the alphabets: Casketfile paths, request paths, upstream tokens *)

PathOf(n) == CASE n = "/"     -> <<"/">>
               [] n = "/a"    -> <<"/", "a">>
               [] n = "/a/"   -> <<"/", "a", "/">>
               [] n = "/a/b"  -> <<"/", "a", "/", "b">>
               [] n = "/A"    -> <<"/", "A">>
               [] n = "/b"    -> <<"/", "b">>
               [] n = "/x"    -> <<"/", "x">>
               [] n = "/x/"   -> <<"/", "x", "/">>
               [] n = "/a/x"  -> <<"/", "a", "/", "x">>
               [] n = "/svc"  -> <<"/", "s", "v", "c">>
               [] n = "/svc/" -> <<"/", "s", "v", "c", "/">>
               [] n = "/sk"   -> <<"/", "s", "k">>
               [] n = ""      -> << >>
ExOf(n) == CASE n = "none"    -> << >>
             [] n = "/x"      -> <<PathOf("/x")>>
             [] n = "/a/x"    -> <<PathOf("/a/x")>>
             [] n = "/x/"     -> <<PathOf("/x/")>>
             [] n = "/b /x"   -> <<PathOf("/b"), PathOf("/x")>>
             [] n = "/"       -> <<PathOf("/")>>

\* one segment of a request path (between two slashes), as tokens
SegOf(n) == CASE n = "a" -> <<"a">> [] n = "A" -> <<"A">> [] n = "b" -> <<"b">> [] n = "x" -> <<"x">>
              [] n = ".." -> DotDot [] n = "." -> Dot [] n = "" -> << >>
              [] n = "%2F" -> <<"%2F">> [] n = "%61" -> <<"%61">> [] n = "%41" -> <<"%41">> [] n = "%2f" -> <<"%2f">>
              [] n = ";p" -> <<";", "p">> [] n = "x;p" -> <<"x", ";", "p">> [] n = "ab" -> <<"a", "b">> [] n = "xy" -> <<"x", "y">>
              [] n = "%2E%2E" -> <<"%2E", "%2E">> [] n = "%3B" -> <<"%3B">>
              [] n = "a%20b" -> <<"a", "%20", "b">> [] n = "a%25b" -> <<"a", "%25", "b">> [] n = "a+b" -> <<"a", "+", "b">>
              [] n = "%C3%A9" -> <<"%C3", "%A9">> [] n = "a%2Fx" -> <<"a", "%2F", "x">> [] n = "%61%2Fx" -> <<"%61", "%2F", "x">>
RECURSIVE RawOf(_)
RawOf(names) == IF names = << >> THEN << >> ELSE <<"/">> \o SegOf(Head(names)) \o RawOf(Tail(names))
PathsOver(segs, n) == IF n <= 0 THEN {} ELSE UNION {[1..l -> segs] : l \in 1..n}
RawPaths(segs, n) == {<<"/">>} \cup {RawOf(s) : s \in PathsOver(segs, n)} \cup {RawOf(s) \o <<"/">> : s \in PathsOver(segs, n)}

NoQ == [q |-> "", fq |-> FALSE]
Queries == {NoQ, [q |-> "", fq |-> TRUE], [q |-> "q=1", fq |-> FALSE], [q |-> "q=1&r=2", fq |-> FALSE],
            [q |-> "a=%26&b=+", fq |-> FALSE], [q |-> "x?y", fq |-> FALSE], [q |-> ";j=1", fq |-> FALSE]}

\* an upstream as written: scheme text, abstract host name, ports (<<>> none | <<p>> | <<lo, hi>> written lo-hi), path, query
\* names: "B" a backend of the harness on 127.0.0.1 (port = first port of the harness + p - 1), "httpd" a host whose name
\* begins with the letters http, "svc" a service name, "sk" (with scheme unix:) a socket path
Tok(sch, name, ports, path, q) == [sch |-> sch, name |-> name, ports |-> ports, path |-> path, q |-> q]
Plain(p, base, q) == Tok("", "B", <<p>>, PathOf(base), q)

Rule(from, ex, wo, to, ups) == [from |-> from, ex |-> ex, wo |-> wo, to |-> to, ups |-> ups]

\* -- space "route": rule sets over RouteFroms x RouteExcepts; base, `without` and spelling of the target depend on the position
RouteRule(pos, f, e) ==
    Rule(PathOf(f), ExOf(e), IF pos = 2 THEN PathOf("/a") ELSE << >>,
         <<CASE pos = 1 -> Plain(1, "", "") [] pos = 2 -> Tok("http://", "B", <<2>>, PathOf("/svc"), "") [] pos = 3 -> Plain(3, "/svc/", "k=v")>>, << >>)
RouteVariants == RouteFroms \X RouteExcepts
Route1 == {<<RouteRule(1, a[1], a[2])>> : a \in RouteVariants \cup (RouteFroms \X RouteExcepts1)}
Route2 == {<<RouteRule(1, a[1], a[2]), RouteRule(2, b[1], b[2])>> : a \in RouteVariants, b \in RouteVariants}
\* three rules: the three nested scopes in every written order (excepts none or /x), and ties (/a, /A, /a) around a longer rule
Route3Sets ==
    IF ~Route3 THEN {}
    ELSE LET nest == {f \in [1..3 -> {"/", "/a", "/a/b"}] : \A x, y \in 1..3 : x # y => f[x] # f[y]}
             exs == [1..3 -> {"none", "/x"}]
         IN  {<<RouteRule(1, f[1], e[1]), RouteRule(2, f[2], e[2]), RouteRule(3, f[3], e[3])>> : f \in nest, e \in exs}
             \cup {<<RouteRule(1, f[1], "none"), RouteRule(2, f[2], "/x"), RouteRule(3, f[3], "none")>> :
                      f \in {<<"/a", "/A", "/a/b">>, <<"/A", "/a/b", "/a">>, <<"/a/b", "/a", "/A">>, <<"/a", "/a", "/">>, <<"/A", "/", "/a">>}}
RouteSets == Route1 \cup Route2 \cup Route3Sets
RouteReqs == {[raw |-> p, q |-> "", fq |-> FALSE] : p \in RawPaths(RouteSegs, RouteMax) \cup RawPaths(RouteSegs3, RouteMax + 1)}

\* -- space "target": one rule; from x without x base (a query comes with the last base, as in `/svc?k=v`)
TargetSets == {<<Rule(PathOf(f), << >>, PathOf(w), <<Plain(1, b[1], b[2])>>, << >>)>> :
                  f \in {"/", "/a"}, w \in {"", "/a", "/a/", "/a/b", "/A"}, b \in {<<"", "">>, <<"/svc", "">>, <<"/svc/", "">>, <<"/svc", "k=v">>}}
TargetReqs == {[raw |-> p, q |-> "", fq |-> FALSE] : p \in RawPaths(TargetSegs, TargetMax) \cup RawPaths(TargetSegs3, TargetMax + 1)}

\* -- space "query": one rule "/" x target queries x request queries
QuerySets == {<<Rule(PathOf("/"), << >>, << >>, <<Plain(1, b[1], b[2])>>, << >>)>> :
                 b \in {<<"", "">>, <<"", "k=v">>, <<"/svc", "k=v">>, <<"/svc/", "k=v&j=w">>}}
QueryReqs == {[raw |-> p, q |-> x.q, fq |-> x.fq] : p \in {RawOf(<<"a">>), RawOf(<<"a", "x">>) \o <<"/">>}, x \in Queries}

\* -- space "pool": one rule, what is written after the from-path and in `upstream` lines
PoolToks == {Plain(1, "", ""), Plain(1, "/svc", "k=v"),
             Tok("", "B", <<1, 3>>, PathOf("/svc"), ""),              \* 127.0.0.1:P-P+2/svc
             Tok("http://", "B", <<2, 3>>, << >>, "k=v"),             \* http://127.0.0.1:P+1-P+2?k=v  - see Expand
             Tok("", "B", <<3, 1>>, << >>, ""), Tok("", "B", <<2, 2>>, << >>, ""),     \* malformed ranges
             Tok("unix:", "sk", << >>, PathOf("/sk"), ""),
             Tok("", "httpd", <<1>>, PathOf("/svc"), ""), Tok("http://", "httpd", <<1>>, << >>, ""),
             Tok("srv://", "svc", << >>, << >>, ""), Tok("srv+https://", "svc", << >>, PathOf("/svc"), ""), Tok("srv://", "svc", <<1>>, << >>, "")}
PoolUps == {Plain(4, "/a", ""), Tok("", "B", <<4, 5>>, << >>, ""), Tok("unix:", "sk", << >>, PathOf("/sk"), ""), Tok("srv://", "svc", << >>, << >>, "")}
PoolSets == {<<Rule(PathOf(f), << >>, PathOf(w), to, ups)>> :
                f \in {"/a"}, w \in {"", "/a"},
                to \in {<< >>} \cup {<<t>> : t \in PoolToks} \cup {<<PoolToks1, t>> : PoolToks1 \in {Plain(1, "", ""), Tok("srv://", "svc", << >>, << >>, "")}, t \in PoolToks},
                ups \in {<< >>} \cup {<<u>> : u \in PoolUps}}
PoolReqs == {[raw |-> RawOf(<<"a", "x">>), q |-> "q=1", fq |-> FALSE], [raw |-> RawOf(<<"ab", "%2F">>), q |-> "", fq |-> FALSE]}

SetsOf(sp) == CASE sp = "route" -> RouteSets [] sp = "target" -> TargetSets [] sp = "query" -> QuerySets [] sp = "pool" -> PoolSets
ReqsOf(sp) == CASE sp = "route" -> RouteReqs [] sp = "target" -> TargetReqs [] sp = "query" -> QueryReqs [] sp = "pool" -> PoolReqs

-----------------------------------------------------------------------------
(* 3. setup: upstream tokens -> the pool of a rule *)

IsSrv(t) == t.sch \in {"srv://", "srv+https://"}
HttpLetters(name) == name = "httpd"           \* the written text begins with the letters h-t-t-p although no scheme is meant
\* parseUpstream: "ok" + the expansion, or an error
Expand(t) ==
    IF t.sch = "unix:" THEN [ok |-> TRUE, hosts |-> <<t>>]
    ELSE IF t.ports = << >> THEN [ok |-> TRUE, hosts |-> <<t>>]
    ELSE IF IsSrv(t) THEN [ok |-> FALSE, hosts |-> << >>]                  \* "service locator can not have port specified"
    ELSE IF Len(t.ports) = 1 THEN [ok |-> TRUE, hosts |-> <<t>>]
    ELSE IF t.path = << >> /\ t.q # "" THEN [ok |-> FALSE, hosts |-> << >>]  \* host:1-2?k=v : the query is taken for part of the port
    ELSE IF t.ports[2] <= t.ports[1] THEN [ok |-> FALSE, hosts |-> << >>]  \* "port range is invalid"
    ELSE [ok |-> TRUE, hosts |-> [k \in 1..(t.ports[2] - t.ports[1] + 1) |-> [t EXCEPT !.ports = <<t.ports[1] + k - 1>>]]]
RECURSIVE ExpandAll(_)
ExpandAll(toks) == IF toks = << >> THEN [ok |-> TRUE, hosts |-> << >>]
                   ELSE LET h == Expand(Head(toks)) r == ExpandAll(Tail(toks))
                        IN  [ok |-> h.ok /\ r.ok, hosts |-> h.hosts \o r.hosts]
\* the loop over RemainingArgs: "only one upstream is supported when using SRV locator" / "can not be mixed with host names"
ToArgsOK(to) == \A k \in 1..Len(to) : IsSrv(to[k]) => k = 1 /\ Len(to) = 1
\* "upstream directive is not supported when backend is service locator"
UpsOK(to, ups) == ups # << >> => ~\E k \in 1..Len(to) : IsSrv(to[k])

\* NewHost + url.Parse + the first lines of the director: where the request is dialled and under which base
\* kind: "tcp" | "unix" | "srv" | "broken" (no usable scheme: every request ends in 502)
HostOf(t) ==
    LET auth == t.name \o (IF t.ports = << >> THEN "" ELSE ":" \o ToString(t.ports[1]))
    IN  IF t.sch = "unix:" THEN [kind |-> "unix", scheme |-> "http", auth |-> "socket", base |-> t.path, bq |-> t.q, sock |-> TRUE]
        ELSE IF IsSrv(t) THEN [kind |-> "srv", scheme |-> IF t.sch = "srv://" THEN "http" ELSE "https", auth |-> auth, base |-> t.path, bq |-> t.q, sock |-> FALSE]
        ELSE IF t.sch = "" /\ SchemeTest = "prefix" /\ HttpLetters(t.name)
             THEN [kind |-> "broken", scheme |-> t.name, auth |-> "", base |-> << >>, bq |-> t.q, sock |-> FALSE]   \* url.Parse("httpd:1/svc"): scheme httpd
        ELSE [kind |-> "tcp", scheme |-> IF t.sch = "https://" THEN "https" ELSE "http", auth |-> auth, base |-> t.path, bq |-> t.q, sock |-> FALSE]

\* the text that names a Casketfile in the CASE lines and in the mismatch keys
TokId(t) == t.sch \o t.name \o (IF t.ports = << >> THEN "" ELSE ":" \o ToString(t.ports[1]) \o (IF Len(t.ports) = 2 THEN "-" \o ToString(t.ports[2]) ELSE "")) \o Str(t.path) \o (IF t.q = "" THEN "" ELSE "?" \o t.q)
RECURSIVE TokIds(_)
TokIds(ts) == IF ts = << >> THEN "" ELSE TokId(Head(ts)) \o (IF Len(ts) > 1 THEN "," ELSE "") \o TokIds(Tail(ts))
RECURSIVE ExIds(_)
ExIds(es) == IF es = << >> THEN "" ELSE Str(Head(es)) \o (IF Len(es) > 1 THEN "," ELSE "") \o ExIds(Tail(es))
RuleId(r) == Str(r.from) \o " to=" \o TokIds(r.to) \o (IF r.ups = << >> THEN "" ELSE " up=" \o TokIds(r.ups))
             \o (IF r.ex = << >> THEN "" ELSE " ex=" \o ExIds(r.ex)) \o (IF r.wo = << >> THEN "" ELSE " wo=" \o Str(r.wo))
RECURSIVE RuleIds(_)
RuleIds(rs) == IF rs = << >> THEN "" ELSE RuleId(Head(rs)) \o (IF Len(rs) > 1 THEN " | " ELSE "") \o RuleIds(Tail(rs))

-----------------------------------------------------------------------------
(* 4. state *)

VARIABLES cfg,        \* [space, rules]: the Casketfile
          pools,      \* per rule: the host pool built by the setup (sequence of HostOf records with their token)
          req,        \* [raw, q, fq]: the request line as sent by the client
          pc, i, j,   \* control; i = index into p.Upstreams, j = index into IgnoredSubPaths
          best, bestLen,   \* `u` and `longestMatch` of Proxy.match
          host,       \* index of the selected host in pools[best]
          url,        \* the outgoing request's URL: [path, rawpath, query, fq]
          judged,     \* path.Clean(r.URL.Path) and whether r.URL.Path ends with a slash: what Matches / AllowedPath look at
          sent        \* what went on the wire: [rule, host, kind, scheme, auth, path, query, fq]
vars == <<cfg, pools, req, pc, i, j, best, bestLen, host, url, judged, sent>>

N == Len(cfg.rules)
NoReq == [raw |-> << >>, q |-> "", fq |-> FALSE]
NoURL == [path |-> << >>, rawpath |-> << >>, query |-> "", fq |-> FALSE]
NoJudged == [clean |-> << >>, slash |-> FALSE]
NoSent == [rule |-> 0, host |-> 0, kind |-> "", scheme |-> "", auth |-> "", path |-> << >>, query |-> "", fq |-> FALSE]

Init == /\ \E sp \in Spaces : \E rs \in SetsOf(sp) : cfg = [space |-> sp, rules |-> rs, id |-> sp \o ": " \o RuleIds(rs)]
        /\ pools = << >> /\ req = NoReq /\ pc = "setup" /\ i = 1 /\ j = 0 /\ best = 0 /\ bestLen = 0 /\ host = 0
        /\ url = NoURL /\ judged = NoJudged /\ sent = NoSent

-----------------------------------------------------------------------------
(* 5. actions *)

SetupRule ==
    /\ pc = "setup" /\ i <= N
    /\ LET r == cfg.rules[i]
           a == ExpandAll(r.to)
           b == ExpandAll(r.ups)
           ok == ToArgsOK(r.to) /\ a.ok /\ UpsOK(r.to, r.ups) /\ b.ok /\ a.hosts \o b.hosts # << >>
           all == a.hosts \o b.hosts
       IN  IF ok THEN /\ pools' = Append(pools, [k \in 1..Len(all) |-> [tok |-> all[k], h |-> HostOf(all[k])]])
                      /\ i' = i + 1 /\ pc' = pc
           ELSE pc' = "refused" /\ UNCHANGED <<pools, i>>
    /\ UNCHANGED <<cfg, req, j, best, bestLen, host, url, judged, sent>>

SetupDone ==
    /\ pc = "setup" /\ i > N
    /\ pc' = "recv" /\ i' = 1
    /\ UNCHANGED <<cfg, pools, req, j, best, bestLen, host, url, judged, sent>>

\* url.setPath: RawPath is kept only when the spelling differs from the default encoding of Path
Receive ==
    /\ pc = "recv"
    /\ \E r \in ReqsOf(cfg.space) :
         /\ req' = r
         /\ url' = [path |-> DecS(r.raw), rawpath |-> IF EscS(DecS(r.raw)) = r.raw THEN << >> ELSE r.raw, query |-> r.q, fq |-> r.fq]
         /\ judged' = [clean |-> Clean(DecS(r.raw)), slash |-> EndsSlash(DecS(r.raw))]
    /\ pc' = "match" /\ i' = 1 /\ best' = 0 /\ bestLen' = 0
    /\ UNCHANGED <<cfg, pools, j, host, sent>>

MatchIter ==
    /\ pc = "match" /\ i <= N
    /\ IF MatchesC(judged.clean, judged.slash, cfg.rules[i].from) THEN pc' = "allowed" /\ j' = 1 /\ i' = i
       ELSE i' = i + 1 /\ UNCHANGED <<pc, j>>
    /\ UNCHANGED <<cfg, pools, req, best, bestLen, host, url, judged, sent>>

AllowedIter ==
    /\ pc = "allowed"
    /\ LET r == cfg.rules[i]
       IN  IF j > Len(r.ex)
           THEN \* AllowedPath returned true: `if len(basePath) > longestMatch`
                /\ IF Len(r.from) > bestLen THEN best' = i /\ bestLen' = Len(r.from) ELSE UNCHANGED <<best, bestLen>>
                /\ i' = i + 1 /\ pc' = "match" /\ j' = 0
           ELSE IF LET p == IF judged.slash /\ ~EndsSlash(judged.clean) THEN judged.clean \o <<"/">> ELSE judged.clean     \* CleanKeep(url.path)
                   IN  MatchesC(Clean(p), EndsSlash(p), ExceptPath(r.from, r.ex[j]))
           THEN i' = i + 1 /\ pc' = "match" /\ j' = 0 /\ UNCHANGED <<best, bestLen>>      \* return false: `continue`
           ELSE j' = j + 1 /\ UNCHANGED <<i, pc, best, bestLen>>
    /\ UNCHANGED <<cfg, pools, req, host, url, judged, sent>>

MatchDone ==
    /\ pc = "match" /\ i > N
    /\ pc' = IF best = 0 THEN "next" ELSE "select"
    /\ UNCHANGED <<cfg, pools, req, i, j, best, bestLen, host, url, judged, sent>>

Select ==
    /\ pc = "select"
    /\ \E h \in 1..Len(pools[best]) : host' = h
    /\ pc' = "strip"
    /\ UNCHANGED <<cfg, pools, req, i, j, best, bestLen, url, judged, sent>>

Target == pools[best][host].h
StripWithout ==
    /\ pc = "strip"
    /\ LET w == cfg.rules[best].wo
           cut == w # << >> /\ HasPrefix(url.path, w)
           rp  == IF w = << >> \/ url.rawpath = << >> THEN url.rawpath
                  ELSE IF WithoutRaw = "bytes" THEN TrimPrefix(url.rawpath, w)
                  ELSE IF cut THEN Drop(url.rawpath, EncPrefixLen(url.rawpath, w)) ELSE url.rawpath
       IN  url' = [url EXCEPT !.path = IF w = << >> THEN @ ELSE TrimPrefix(@, w), !.rawpath = rp]
    /\ pc' = "join"
    /\ UNCHANGED <<cfg, pools, req, i, j, best, bestLen, host, judged, sent>>

JoinPath ==
    /\ pc = "join"
    /\ LET t == Target
           rp1 == IF url.rawpath # << >> THEN SJS(t.base, url.rawpath) ELSE << >>     \* the target has no RawPath of its own
           p1  == SJS(t.base, url.path)
       IN  url' = IF t.sock THEN [url EXCEPT !.path = TrimPrefix(p1, t.base), !.rawpath = IF rp1 # << >> THEN TrimPrefix(rp1, t.base) ELSE rp1]
                  ELSE [url EXCEPT !.path = p1, !.rawpath = rp1]
    /\ pc' = "query"
    /\ UNCHANGED <<cfg, pools, req, i, j, best, bestLen, host, judged, sent>>

JoinQuery ==
    /\ pc = "query"
    /\ url' = [url EXCEPT !.query = JoinQ(Target.bq, @)]
    /\ pc' = "send"
    /\ UNCHANGED <<cfg, pools, req, i, j, best, bestLen, host, judged, sent>>

\* URL.EscapedPath + RequestURI
Wire(u) == LET w == IF u.rawpath # << >> /\ DecS(u.rawpath) = u.path THEN u.rawpath ELSE EscS(u.path)
           IN  IF w = << >> THEN <<"/">> ELSE w
Send ==
    /\ pc = "send"
    /\ sent' = [rule |-> best, host |-> host, kind |-> Target.kind, scheme |-> Target.scheme, auth |-> Target.auth,
                path |-> Wire(url), query |-> url.query, fq |-> url.fq]
    /\ pc' = "sent"
    /\ UNCHANGED <<cfg, pools, req, i, j, best, bestLen, host, url, judged>>

Next == SetupRule \/ SetupDone \/ Receive \/ MatchIter \/ AllowedIter \/ MatchDone \/ Select \/ StripWithout \/ JoinPath \/ JoinQuery \/ Send
Spec == Init /\ [][Next]_vars

-----------------------------------------------------------------------------
(* 6. the guarantees *)

Answered == pc \in {"next", "sent"}
Rules == cfg.rules

\* -- scopes, segment-wise ----------------------------------------------------
\* the request as the proxy judges it: decoded, dot segments and empty segments resolved, letter case folded
ReqSegs == LET s == CleanSegs(DecS(req.raw)) IN [k \in 1..Len(s) |-> LowS(s[k])]
ReqTrail == EndsSlash(req.raw) \/ (req.raw # << >> /\ EscapedSlash(req.raw[Len(req.raw)]))
\* FromPrefixIsSegmentWise, as the code has it: a scope /s1/../sn takes the request /r1/../rm when the first n-1 segments are
\* equal and sn is a BYTE prefix of rn (`/a` takes /ab and /a;p: not segment-wise in the last segment); a scope written with
\* a trailing slash wants sn = rn and something - at least a slash - behind it.   R, trail: ReqSegs, ReqTrail
UnderR(R, trail, scope) ==
    \/ scope = <<"/">> \/ scope = << >>
    \/ LET s0 == CleanSegs(scope)
           s == [k \in 1..Len(s0) |-> LowS(s0[k])]
           n == Len(s)
           m == Len(R)
       IN  /\ n >= 1 /\ n <= m
           /\ \A k \in 1..(n - 1) : s[k] = R[k]
           /\ HasPrefix(R[n], s[n])
           /\ EndsSlash(scope) => s[n] = R[n] /\ (m > n \/ trail)
InScopeR(R, trail, r) == UnderR(R, trail, r.from)
\* `except` entries are relative to the rule's from-path (TestAllowedPaths pins this down) and are scopes like any other
ExceptedR(R, trail, r) == \E k \in 1..Len(r.ex) : UnderR(R, trail, ExceptPath(r.from, r.ex[k]))
InScope(r) == InScopeR(ReqSegs, ReqTrail, r)
Excepted(r) == ExceptedR(ReqSegs, ReqTrail, r)
\* what Path.Matches answered in Proxy.match is this relation (the other direction is part of RuleChoiceIsLongestMatch)
FromPrefixIsSegmentWise == pc = "allowed" => InScope(Rules[i])
\* which rules take the request, as a vector over the written order
TakesVec == LET R == ReqSegs trail == ReqTrail IN [k \in 1..N |-> InScopeR(R, trail, Rules[k]) /\ ~ExceptedR(R, trail, Rules[k])]

\* -- RuleChoiceIsLongestMatch -----------------------------------------------
\* of the rules that take the request the one with the longest from-path as written answers; among equally long ones
\* (/a and /A, the same from-path twice) the first written; none takes it -> the next handler.
\* order: the rules (by their index in cfg.rules) in some written order; the result is a position in that order, 0 = none
ChoiceIn(order, tv) ==
    LET T == {p \in 1..Len(order) : tv[order[p]]}
        L(p) == Len(Rules[order[p]].from)
    IN  IF T = {} THEN 0 ELSE CHOOSE p \in T : \A l \in T : L(l) < L(p) \/ (L(l) = L(p) /\ p <= l)
AsWritten == [k \in 1..N |-> k]
RuleChoiceIsLongestMatch ==
    Answered => /\ best = ChoiceIn(AsWritten, TakesVec)
                /\ (pc = "next" <=> best = 0) /\ (pc = "sent" => sent.rule = best)

\* the choice does not depend on the written order, except between equally long from-paths that both take the request
Perms(n) == {f \in [1..n -> 1..n] : \A x, y \in 1..n : x # y => f[x] # f[y]}
Tie(tv) == \E k, l \in 1..N : /\ k # l /\ tv[k] /\ tv[l] /\ Len(Rules[k].from) = Len(Rules[l].from)
                               /\ \A o \in 1..N : tv[o] => Len(Rules[o].from) <= Len(Rules[k].from)
ChoiceIsOrderIndependent ==
    Answered => LET tv == TakesVec
                IN  ~Tie(tv) => \A f \in Perms(N) : LET c == ChoiceIn(f, tv) IN IF best = 0 THEN c = 0 ELSE c # 0 /\ f[c] = best

\* -- ExceptMeansNotProxied ---------------------------------------------------
\* an excepted request never reaches a backend of that rule; whichever rule answers would have taken the request as the
\* only rule of the site (a shorter rule picks an excepted request up only if it matches on its own); a request that
\* every rule in whose scope it lies excepts goes to the next handler
ExceptMeansNotProxied ==
    /\ sent.rule # 0 => ~Excepted(Rules[sent.rule])
    /\ Answered => LET tv == TakesVec
                   IN  /\ best # 0 => tv[best]
                       /\ (\A k \in 1..N : ~tv[k]) => pc = "next"

\* -- TargetIsBasePlusStrippedPath --------------------------------------------
Strip1Trail(p) == IF EndsSlash(p) THEN Take(p, Len(p) - 1) ELSE p
Strip1Lead(p) == IF StartsSlash(p) THEN Tail(p) ELSE p
\* exactly one slash at the joint; a remainder that is empty adds nothing; "/" stands for the empty path on the wire
Joint(b, r) == LET w == IF r = << >> THEN b ELSE Strip1Trail(b) \o <<"/">> \o Strip1Lead(r) IN IF w = << >> THEN <<"/">> ELSE w
SentRule == Rules[sent.rule]
SentHost == pools[sent.rule][sent.host].h
SentBase == IF SentHost.sock THEN << >> ELSE SentHost.base       \* a unix target has no base path: its path is the socket
\* `without` is cut when the DECODED request path begins with it, byte for byte (no cleaning, no case folding: /A/x and
\* //a/x keep their prefix under `without /a` although the rule takes them)
Cut == SentRule.wo # << >> /\ HasPrefix(DecS(req.raw), SentRule.wo)
RestDec == IF Cut THEN Drop(DecS(req.raw), Len(SentRule.wo)) ELSE DecS(req.raw)
CutLen == IF Cut THEN EncPrefixLen(req.raw, SentRule.wo) ELSE 0
RestRaw == Drop(req.raw, CutLen)
\* the client's spelling survives unless an escaped slash sits right at the joint (/a%2Fx under `without /a`: the remainder
\* %2Fx has no leading slash for the encoded path but has one for the decoded path - the two joins disagree and net/url
\* falls back to encoding the decoded path). With WithoutRaw = "bytes" (as found) TLC refutes the second conjunct of
\* TargetIsBasePlusStrippedPath: /%61/x%2Fy under `without /a` arrives as /x/y
Aligned == ~Cut \/ RestRaw = << >> \/ ~EscapedSlash(RestRaw[1])
TargetIsBasePlusStrippedPath ==
    pc = "sent" /\ sent.kind # "broken" =>
        /\ DecS(sent.path) = Joint(SentBase, RestDec)                       \* the path the backend decodes
        /\ Aligned => sent.path = Joint(SentBase, RestRaw)                  \* byte for byte: nothing decoded, nothing encoded twice
        /\ \A k \in 1..Len(sent.path) : IsEscape(sent.path[k]) => \E l \in 1..Len(req.raw) : req.raw[l] = sent.path[k]
                                                                           \* every escape on the wire is one the client sent

\* -- QueryIsBaseThenRequest --------------------------------------------------
QueryIsBaseThenRequest ==
    pc = "sent" => /\ sent.query = (IF SentHost.bq = "" THEN req.q ELSE IF req.q = "" THEN SentHost.bq ELSE SentHost.bq \o "&" \o req.q)
                   /\ sent.fq = req.fq                                      \* a bare "?" stays

\* -- NoPathEscape -------------------------------------------------------------
\* literally the backend path always starts with the base path; after the backend resolves dot segments it is still
\* under the base path PROVIDED the remainder does not climb above its own start. A remainder that does (/../admin under
\* rule /, /a/../a/admin under `without /a`) is forwarded as it is: Escapes is reachable (see EscapeSeen in Emit).
RECURSIVE ClimbsFrom(_, _)
ClimbsFrom(segs, d) == IF segs = << >> THEN FALSE
                       ELSE LET s == Head(segs)
                            IN  IF s = DotDot THEN d = 0 \/ ClimbsFrom(Tail(segs), d - 1)
                                ELSE IF s = << >> \/ s = Dot THEN ClimbsFrom(Tail(segs), d)
                                ELSE ClimbsFrom(Tail(segs), d + 1)
Climbs == ClimbsFrom(Segments(RestDec), 0)
Resolved == CleanSegs(DecS(sent.path))
NoPathEscape ==
    pc = "sent" /\ sent.kind # "broken" =>
        /\ HasPrefix(sent.path, Strip1Trail(SentBase))
        /\ ~Climbs => Resolved = CleanSegs(SentBase) \o CleanSegs(RestDec)
Escapes == pc = "sent" /\ sent.kind # "broken" /\ ~HasPrefix(Resolved, CleanSegs(SentBase))

\* -- the pool ------------------------------------------------------------------
\* `proxy /a b { upstream c }`: first the arguments, then the upstream lines, each port range lo-hi replaced by its
\* hi-lo+1 hosts in ascending order with the same scheme, path and query; every host keeps its OWN path and query
\* (nothing asks the hosts of one rule to agree on a base path)
RECURSIVE Flat(_)
Flat(toks) == IF toks = << >> THEN << >>
              ELSE LET t == Head(toks)
                       n == IF Len(t.ports) = 2 /\ t.sch # "unix:" THEN t.ports[2] - t.ports[1] + 1 ELSE 1
                   IN  [k \in 1..n |-> IF n = 1 /\ Len(t.ports) # 2 THEN t ELSE [t EXCEPT !.ports = <<t.ports[1] + k - 1>>]] \o Flat(Tail(toks))
PoolIsToThenUpstream ==
    pc = "recv" => \A k \in 1..Len(pools) : LET want == Flat(Rules[k].to \o Rules[k].ups)
                             IN  /\ Len(pools[k]) = Len(want) /\ Len(want) >= 1
                                 /\ \A l \in 1..Len(want) : /\ pools[k][l].tok = want[l]
                                                            /\ pools[k][l].h.bq = want[l].q
                                                            /\ pools[k][l].h.kind \notin {"unix", "broken"} => pools[k][l].h.base = want[l].path
\* "If a scheme is not specified, http is used"
SchemelessIsHTTP ==
    pc = "recv" => \A k \in 1..Len(pools) : \A l \in 1..Len(pools[k]) :
        pools[k][l].tok.sch = "" => pools[k][l].h.kind = "tcp" /\ pools[k][l].h.scheme = "http"
                                    /\ pools[k][l].h.auth = pools[k][l].tok.name \o ":" \o ToString(pools[k][l].tok.ports[1])
\* a Casketfile is refused only for the reasons the code names
RefusedOnlyForCause ==
    pc = "refused" => LET r == Rules[i]
                      IN  \/ r.to \o r.ups = << >>
                          \/ \E k \in 1..Len(r.to \o r.ups) : LET t == (r.to \o r.ups)[k]
                                                              IN  \/ IsSrv(t) /\ (t.ports # << >> \/ Len(r.to \o r.ups) > 1)
                                                                  \/ Len(t.ports) = 2 /\ t.sch # "unix:" /\ (t.ports[2] <= t.ports[1] \/ (t.path = << >> /\ t.q # ""))

TypeOK ==
    /\ pc \in {"setup", "refused", "recv", "match", "allowed", "next", "select", "strip", "join", "query", "send", "sent"}
    /\ i \in 1..(N + 1) /\ best \in 0..N /\ host \in 0..8
    /\ pc \in {"strip", "join", "query", "send", "sent"} => best \in 1..N /\ host \in 1..Len(pools[best])
    /\ pc \notin {"setup", "refused"} => Len(pools) = N
    /\ pc = "setup" /\ i = 1 => \A k \in 1..N : (StartsSlash(Rules[k].from) /\ CleanSegs(Rules[k].from) # << >>) \/ Rules[k].from = <<"/">>

-----------------------------------------------------------------------------
(* 7. lemmas about the operators, evaluated by TLC at start-up (TestAllowedPaths, TestPathMatches, TestProxyDirectorURL) *)

ASSUME Matches(<<"/", "a", "b">>, <<"/", "a">>)                       \* rule /api takes /apiary
ASSUME ~Matches(<<"/", "a", "b">>, <<"/", "a", "/">>)
ASSUME Matches(<<"/", "A", "/", "x">>, <<"/", "a">>)                   \* case folded
ASSUME Matches(<<"/", "/", "a", "/", ".", "/", "x">>, <<"/", "a", "/", "x">>)
ASSUME Matches(<<"/", "b", "/", ".", ".", "/", "a">>, <<"/", "a">>) /\ ~Matches(<<"/", "a", "/", ".", ".", "/", "b">>, <<"/", "a">>)
ASSUME Matches(<<"/", ".", ".", "/", "a">>, <<"/", "a">>)              \* ".." at the root stays at the root
ASSUME ExceptPath(<<"/", "a">>, <<"/", "x", "/">>) = <<"/", "a", "/", "x", "/">> /\ ExceptPath(<<"/">>, <<"/", "a", "/", "x">>) = <<"/", "a", "/", "x">>
ASSUME ExceptPath(<<"/", "a">>, <<"/">>) = <<"/", "a", "/">>
ASSUME SJS(<<"/", "t">>, << >>) = <<"/", "t">> /\ SJS(<<"/", "t", "/">>, <<"/", "x">>) = <<"/", "t", "/", "x">> /\ SJS(<< >>, <<"x">>) = <<"/", "x">>
ASSUME \A b \in {<< >>, <<"/", "t">>, <<"/", "t", "/">>} : \A r \in {<< >>, <<"x">>, <<"/", "x">>, <<"/", "/", "x">>, <<"/">>} :
           (IF SJS(b, r) = << >> THEN <<"/">> ELSE SJS(b, r)) = Joint(b, r)          \* Joint says what singleJoiningSlash does
ASSUME Clean(<<"/", "a", "/", "/", "b", "/", ".", "/", ".", ".", "/">>) = <<"/", "a">> /\ Clean(<<"/", ".", ".">>) = <<"/">>
ASSUME EncPrefixLen(<<"/", "%61", "/", "x">>, <<"/", "a">>) = 2 /\ EncPrefixLen(<<"/", "b">>, <<"/", "a">>) = 0

-----------------------------------------------------------------------------
(* 8. emission: one CASE per Casketfile (kind cfg) and one per answered request (no kind field) *)

TokJ(t) == [sch |-> t.sch, name |-> t.name, ports |-> t.ports, path |-> Str(t.path), q |-> t.q]
RuleJ(r) == [from |-> Str(r.from), ex |-> [k \in 1..Len(r.ex) |-> Str(r.ex[k])], wo |-> Str(r.wo),
             to |-> [k \in 1..Len(r.to) |-> TokJ(r.to[k])], ups |-> [k \in 1..Len(r.ups) |-> TokJ(r.ups[k])]]
CfgId == cfg.id

EmitCfg(dummy) == PrintT(<<"CASE", ToJson([kind |-> "cfg", id |-> CfgId, space |-> cfg.space, refused |-> pc = "refused",
                                            rules |-> [k \in 1..N |-> RuleJ(cfg.rules[k])],
                                            pools |-> [k \in 1..Len(pools) |-> [l \in 1..Len(pools[k]) |->
                                                         [kind |-> pools[k][l].h.kind, scheme |-> pools[k][l].h.scheme, auth |-> pools[k][l].h.auth,
                                                          port |-> IF pools[k][l].tok.ports = << >> THEN 0 ELSE pools[k][l].tok.ports[1]]]]])>>)
\* (scheme, authority and kind of the host that answers are in the cfg line: pools[r][h])
EmitReq(dummy) == PrintT(<<"CASE", ToJson([id |-> CfgId, t |-> Str(req.raw), q |-> req.q, fq |-> req.fq, r |-> best, h |-> sent.host,
                                            w |-> Str(sent.path), wq |-> sent.query, wfq |-> sent.fq,
                                            esc |-> Escapes, al |-> IF pc = "sent" THEN Aligned ELSE TRUE])>>)
Emit == /\ (pc = "recv" \/ pc = "refused") => EmitCfg(0)
        /\ Answered => EmitReq(0)
=============================================================================
