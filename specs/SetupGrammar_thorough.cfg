CONSTANTS MaxTop = 3
          MaxTopBlock = 1
          MaxLines = 1
          MaxLineArgs = 2
          MaxLineArgs0 = 3
          Nested = FALSE
          ArgCl = {"em", "wd", "in", "ni", "hi", "fl", "du", "sz", "pa", "ur", "rx", "qs", "kw", "ob"}
SPECIFICATION Spec
INVARIANT TypeOK
INVARIANT Emit
CHECK_DEADLOCK FALSE
