CONSTANTS NameCl = {"d1"}
          ArgCl = {"w", "ml"}
          KeyCl = {"k1"}
          KeySep = {"sp"}
          LayCl = {0}
          FragKinds = {"snip", "file", "glob"}
          EolCl = {"lf"}
          AllUsed = FALSE
          MaxArgs = 1
          MaxKeys = 2
          MaxLines = 2
          FragLines = 1
          MaxImps = 2
          MaxFrag = 1
          MaxDepth = 2
          MaxBlocks = 1
SPECIFICATION Spec
INVARIANT FragmentsBalanced
INVARIANT ImportsResolved
INVARIANT DoneIsWellFormed
INVARIANT BudgetOK
INVARIANT Emit
CHECK_DEADLOCK FALSE
