------------------------------ MODULE LexerSim ------------------------------
(* Lexer with a larger bound on the input length, explored by random simulation            *)
(* (tlc -simulate, seeded by VERIF_SEED); a separate module name keeps its cases apart.     *)
EXTENDS Lexer
=============================================================================
