CONSTANT MaxRules = 2
CONSTANT ResSets <- QuickRes
CONSTANT ExSets <- QuickEx
CONSTANT RuleCreds <- QuickRuleCreds
CONSTANT ManyRealms = FALSE
CONSTANT ReqPaths <- QuickPaths
CONSTANT ReqCreds <- QuickReqCreds
CONSTANT ReqMethods = {"GET", "OPTIONS"}
INIT Init
NEXT Next
INVARIANT ReachedOnlyWithValidCreds
INVARIANT ValidCredsPass
INVARIANT UnprotectedPasses
INVARIANT RealmOfARejectingRule
INVARIANT NoChallengeOnPass
INVARIANT UserPlaceholder
INVARIANT LocalsMeanWhatTheySay
INVARIANT Emit
CHECK_DEADLOCK FALSE
