----------------------------- MODULE BackendTLS -----------------------------
(***************************************************************************)
(* The connection from the reverse proxy to its backends: which transport  *)
(* a `proxy` rule gets, how an https backend is authenticated, what the    *)
(* transport options do.  An extension of property C04: ProxyRelay.tla,    *)
(* ProxyTunnel.tla and ProxyRoute.tla say WHAT is relayed and WHERE; all   *)
(* their backends are plain HTTP.  Modelled code:                          *)
(*   caskethttp/proxy/upstream.go      NewStaticUpstreams (the block loop),*)
(*                                     parseBlock, NewHost                 *)
(*   caskethttp/proxy/reverseproxy.go  NewSingleHostReverseProxy (the four *)
(*                                     transports), UseInsecureTransport,  *)
(*                                     UseOwnCACertificates,               *)
(*                                     UseClientCertificates, ServeHTTP,   *)
(*                                     newConnHijackerTransport            *)
(*   caskethttp/proxy/proxy.go         Proxy.ServeHTTP (Host of the        *)
(*                                     outgoing request, 502 / 499)        *)
(*   net/http.Transport, crypto/tls, crypto/x509 as far as the outcome     *)
(*   (connection reused or dialled, SNI, ALPN, verified or not, error      *)
(*   class, idle pool) depends on them.                                    *)
(*                                                                         *)
(* OPERATIONAL PART - one action per step the code takes:                  *)
(*  setup   ParseOption   one `for c.NextBlock()` iteration: parseBlock on *)
(*                        one option line, then the "at odds" test         *)
(*          MakeHost      NewHost: NewSingleHostReverseProxy picks one of  *)
(*                        the transports (unix / quic / custom / default), *)
(*                        then UseInsecureTransport, UseOwnCACertificates, *)
(*                        UseClientCertificates; the health-check client   *)
(*          HealthRound   the first round of HealthCheckWorker             *)
(*  request Match, Select Proxy.match (by path, ProxyRoute.tla has the     *)
(*                        real thing), upstream.Select                     *)
(*          SetHost       outreq.Host = nameURL.Host, then the Host rule   *)
(*                        of mutateHeadersByRules (last value wins, an     *)
(*                        empty expansion changes nothing)                 *)
(*          Direct        director: URL.Scheme / URL.Host = the TARGET's   *)
(*          PickTransport requestIsWebsocket -> newConnHijackerTransport   *)
(*          GetConn       Transport.getConn: an idle connection of THIS    *)
(*                        host's pool, else a new one                      *)
(*          Dial          dialer.Dial / socketDial / srvDialerFunc         *)
(*          Hello         ClientHello: SNI and ALPN offer                  *)
(*          Verify        crypto/tls verifyServerCertificate               *)
(*          Negotiate     ALPN result: h2 or http/1.1                      *)
(*          Send          the request goes out on the connection           *)
(*          Respond       the backend's script: 200, 302, nothing          *)
(*          Relay         ReverseProxy.ServeHTTP copies status, headers,   *)
(*                        body to the client                               *)
(*          Release       Transport.tryPutIdleConn / close                 *)
(*          ClientGone    the client gives up on a request that is held:   *)
(*                        context cancelled, 499, the connection is closed *)
(*          NextBatch     the next requests of the script                  *)
(*                                                                         *)
(* DECLARATIVE PART (section 7): VerifiedUnlessOptedOut, OptOutIsLocal,    *)
(* SNIIsUpstreamName, RedirectsRelayedNotFollowed, IdleBounded,            *)
(* SilentBackendBounded, RequestIntactOverTLS, OutcomeIsOwn, and for the   *)
(* setup TransportFollowsOptions, RefusedOnlyForCause.                     *)
(*                                                                         *)
(* Deliberate deviations: rule selection is by exact rule index (see       *)
(* ProxyRoute.tla); pools of several hosts, the retry loop, max_conns and  *)
(* fail_timeout are LoadBalance / LBRetry / ProxyConc; the tunnel after a  *)
(* 101 is ProxyTunnel.tla (here the backend declines the upgrade); the     *)
(* proxy environment (HTTPS_PROXY) the TCP transports honour, 100-continue *)
(* and fallback_delay beyond the dialer field are not modelled; time is a  *)
(* bound (`wait`, milliseconds the proxy may spend before it answers), not *)
(* a clock.                                                                *)
(***************************************************************************)
EXTENDS Integers, Sequences, FiniteSets, TLC, Json

CONSTANTS Spaces,          \* which factored case spaces: subset of {"verify", "opts", "conn", "silent", "relay"}
          OptLen,          \* space "opts": option lines per rule (1..OptLen, plus the empty block)
          Wide,            \* TRUE: the larger alphabets of the thorough tier
          HandshakeBound,  \* "all"   : every TCP transport bounds the TLS handshake by 10 s (repaired)
                           \* "custom": only the transport built for `keepalive` # 2 or srv:// does (as found)
          UnixKeepalive,   \* "honoured": `keepalive` also configures the transport of a unix: upstream (repaired)
                           \* "ignored" : the unix transport keeps net/http's defaults (as found)
          HealthTrust,     \* "rule"  : the health-check client trusts what the rule trusts (repaired)
                           \* "system": ca_certificates / tls_client are not handed to it (as found)
          UpgradeSNI       \* "always"  : the hijacker transport names the upstream in its ClientHello (repaired)
                           \* "verified": only when it is going to verify - an upgrade request through a rule
                           \*             with insecure_skip_verify is sent without SNI (as found)

-----------------------------------------------------------------------------
(* 1. certificates and what crypto/x509 makes of them *)

\* covers: the upstream host spellings the certificate is valid for ("svc" stands for the service name of an srv upstream)
Cert(issuer, covers, expired) == [issuer |-> issuer, covers |-> covers, expired |-> expired]
All3 == {"b.test", "127.0.0.1", "svc"}
CertOf(k) == CASE k = "good"     -> Cert("ca1", All3, FALSE)
               [] k = "nameonly" -> Cert("ca1", {"b.test"}, FALSE)
               [] k = "iponly"   -> Cert("ca1", {"127.0.0.1"}, FALSE)
               [] k = "other"    -> Cert("ca1", {"other.test"}, FALSE)       \* a valid certificate - for another name
               [] k = "expired"  -> Cert("ca1", All3, TRUE)
               [] k = "self"     -> Cert("self", All3, FALSE)
               [] k = "ca2"      -> Cert("ca2", All3, FALSE)                 \* chains to an authority the process does not trust
CertKinds == {"good", "nameonly", "iponly", "other", "expired", "self", "ca2"}
SystemRoots == {"ca1"}                                   \* what SSL_CERT_FILE names in the harness
RootsOf(ca) == CASE ca = "" -> SystemRoots [] ca = "ca2" -> {"ca2"} [] ca = "ca12" -> {"ca1", "ca2"}
\* every reason x509 has to refuse; which one it reports first is its own business
Defects(cert, name, roots) ==
    (IF cert.expired THEN {"verify-expired"} ELSE {})
    \cup (IF name \notin cert.covers THEN {"verify-name"} ELSE {})
    \cup (IF cert.issuer \notin roots THEN {"verify-authority"} ELSE {})

-----------------------------------------------------------------------------
(* 2. the Casketfile: upstream spellings, option lines, and what the setup makes of them *)

Up(sch, host) == [sch |-> sch, host |-> host]
IsSrv(up) == up.sch \in {"srv", "srv+https"}
IsTLS(up) == up.sch \in {"https", "srv+https", "quic"}
UpId(up) == IF up.sch = "unix" THEN "unix:sock" ELSE up.sch \o "://" \o up.host

\* the name the backend is authenticated against = the host of the upstream AS WRITTEN (for srv: the service name, not
\* the target of the SRV record); an IP literal is verified against the certificate's IP addresses and sent without SNI
VerifyName(up) == up.host
SniOf(up) == IF up.host = "127.0.0.1" THEN "" ELSE up.host

\* option lines (tokens): what parseBlock reads
GoodOpts == {"skip", "ca2", "ca12", "ka0", "ka1", "ka2", "ka3", "to300", "fd100", "transparent", "websocket", "hostfixed", "hostx", "cc", "mc1", "hc"}
BadOpts  == {"cabad", "kaneg", "kabad", "tobad", "ccbad"}

U0 == [skip |-> FALSE, ca |-> "", ka |-> 2, to |-> 30000, fd |-> 0, hostrules |-> << >>, ws |-> FALSE, preset |-> FALSE,
       cc |-> FALSE, mc |-> 0, hc |-> FALSE]
\* one call of parseBlock: the switch ...
Switch(u, t) ==
    CASE t = "skip"        -> [ok |-> TRUE, u |-> [u EXCEPT !.skip = TRUE]]
      [] t = "ca2"         -> [ok |-> TRUE, u |-> [u EXCEPT !.ca = "ca2"]]              \* a new pool each time: the last line wins
      [] t = "ca12"        -> [ok |-> TRUE, u |-> [u EXCEPT !.ca = "ca12"]]
      [] t = "ka0"         -> [ok |-> TRUE, u |-> [u EXCEPT !.ka = 0]]
      [] t = "ka1"         -> [ok |-> TRUE, u |-> [u EXCEPT !.ka = 1]]
      [] t = "ka2"         -> [ok |-> TRUE, u |-> [u EXCEPT !.ka = 2]]
      [] t = "ka3"         -> [ok |-> TRUE, u |-> [u EXCEPT !.ka = 3]]
      [] t = "to300"       -> [ok |-> TRUE, u |-> [u EXCEPT !.to = 300]]
      [] t = "fd100"       -> [ok |-> TRUE, u |-> [u EXCEPT !.fd = 100]]
      [] t = "transparent" -> [ok |-> TRUE, u |-> [u EXCEPT !.hostrules = Append(@, "client"), !.preset = TRUE]]
      [] t = "websocket"   -> [ok |-> TRUE, u |-> [u EXCEPT !.ws = TRUE]]
      [] t = "hostfixed"   -> [ok |-> TRUE, u |-> [u EXCEPT !.hostrules = Append(@, "fixed")]]
      [] t = "hostx"       -> [ok |-> TRUE, u |-> [u EXCEPT !.hostrules = Append(@, "xname")]]
      [] t = "cc"          -> [ok |-> TRUE, u |-> [u EXCEPT !.cc = TRUE]]
      [] t = "mc1"         -> [ok |-> TRUE, u |-> [u EXCEPT !.mc = 1]]
      [] t = "hc"          -> [ok |-> TRUE, u |-> [u EXCEPT !.hc = TRUE]]
      [] OTHER             -> [ok |-> FALSE, u |-> u]          \* missing file, negative / unparsable number, unparsable duration
\* ... and the test behind it: "both insecure_skip_verify and ca_certificates cannot be set"
ParseLine(u, t) == LET s == Switch(u, t) IN IF s.ok /\ s.u.skip /\ s.u.ca # "" THEN [ok |-> FALSE, u |-> s.u] ELSE s

\* NewSingleHostReverseProxy: which transport, with which fields (0 = the field is left at its zero value)
KindOf(up, u) == CASE up.sch = "unix" -> "unix" [] up.sch = "quic" -> "quic" [] u.ka # 2 \/ IsSrv(up) -> "custom" [] OTHER -> "default"
TransportOf(up, u) ==
    LET kind == KindOf(up, u)
        kaSet == kind = "custom" \/ (kind = "unix" /\ UnixKeepalive = "honoured")
        dis == kaSet /\ u.ka = 0
        maxIdle == IF kaSet /\ u.ka # 0 THEN u.ka ELSE 0
    IN  [kind |-> kind,
         skip |-> u.skip, roots |-> RootsOf(u.ca), cc |-> u.cc,             \* UseInsecureTransport, UseOwnCACertificates, UseClientCertificates
         disableKA |-> dis, maxIdle |-> maxIdle,
         limit |-> IF kind = "quic" THEN 0 ELSE IF dis THEN 0 ELSE IF maxIdle > 0 THEN maxIdle ELSE 2,   \* idle connections it may keep (net/http: 0 means 2)
         hs |-> IF kind = "custom" \/ (kind = "default" /\ HandshakeBound = "all") THEN 10000 ELSE 0,  \* TLSHandshakeTimeout
         expect |-> IF kind = "custom" THEN 1000 ELSE 0,                     \* ExpectContinueTimeout
         dial |-> u.to, fd |-> IF kind \in {"custom", "default"} THEN u.fd ELSE 0,
         h2 |-> kind \in {"custom", "default"},                              \* http2.ConfigureTransport
         respwait |-> 0]                                                     \* ResponseHeaderTimeout: never set - the wait for a response is not bounded
HealthOf(u) == [skip |-> u.skip,
                roots |-> IF HealthTrust = "rule" THEN RootsOf(u.ca) ELSE SystemRoots,
                cc |-> HealthTrust = "rule" /\ u.cc]
Offer(tr, hij) == IF tr.h2 /\ ~hij THEN <<"h2", "http/1.1">> ELSE << >>      \* the hijacker transport clears NextProtos

-----------------------------------------------------------------------------
(* 3. backends, requests, the case spaces *)

\* cert "none" = a plain HTTP backend; mute = accepts, reads, never writes; reach: "up" | "blackhole" (SYNs vanish) | "down"
Be(cert, h2, mute, reach, unix) == [cert |-> cert, h2 |-> h2, mute |-> mute, reach |-> reach, unix |-> unix]
BeId(b) == b.cert \o (IF b.h2 THEN "+h2" ELSE "") \o (IF b.mute THEN "+mute" ELSE "") \o (IF b.reach # "up" THEN "+" \o b.reach ELSE "")
           \o (IF b.unix THEN "@unix" ELSE "")
Rule(site, up, opts) == [site |-> site, up |-> up, opts |-> opts]
\* chost: the client's Host ("site" the site's own name, "other" = other.test, the name the certificate kind "other" is
\* valid for); xname: the client's X-Name header; ws: an upgrade request; do: the backend's script; hop: the request
\* carries hop-by-hop headers and a header named in Connection
Req(rule, chost, xname, ws, do, m, body, hop) ==
    [rule |-> rule, chost |-> chost, xname |-> xname, ws |-> ws, do |-> do, m |-> m, body |-> body, hop |-> hop]
R0(rule) == Req(rule, "site", "", FALSE, "ok", "GET", "none", FALSE)
ReqId(r) == ToString(r.rule) \o r.m \o (IF r.body = "none" THEN "" ELSE "." \o r.body) \o (IF r.chost = "site" THEN "" ELSE ".h=" \o r.chost)
            \o (IF r.xname = "" THEN "" ELSE ".x=" \o r.xname) \o (IF r.ws THEN ".ws" ELSE "") \o (IF r.do = "ok" THEN "" ELSE "." \o r.do)
            \o (IF r.hop THEN ".hop" ELSE "")
RECURSIVE Join(_, _)
Join(s, sep) == IF s = << >> THEN "" ELSE IF Len(s) = 1 THEN s[1] ELSE s[1] \o sep \o Join(Tail(s), sep)
RuleId(r) == (IF r.site = 1 THEN "" ELSE "site2 ") \o UpId(r.up) \o (IF r.opts = << >> THEN "" ELSE " {" \o Join(r.opts, " ") \o "}")
BatchId(b) == Join([k \in 1..Len(b) |-> ReqId(b[k])], "+")
CaseRec(sp, be, rules, script) ==
    [space |-> sp, be |-> be, rules |-> rules, script |-> script,
     id |-> sp \o ": " \o BeId(be) \o " | " \o Join([k \in 1..Len(rules) |-> RuleId(rules[k])], " | ") \o " | " \o Join([k \in 1..Len(script) |-> BatchId(script[k])], ", ")]

HName == Up("https", "b.test")
HIP   == Up("https", "127.0.0.1")
HSrv  == Up("srv+https", "svc")
PName == Up("http", "b.test")
PSrv  == Up("srv", "svc")
UnixUp == Up("unix", "sock")
TLSUps == {HName, HIP, HSrv}
GoodBe == Be("good", FALSE, FALSE, "up", FALSE)
PlainBe == Be("none", FALSE, FALSE, "up", FALSE)
UnixBe == Be("none", FALSE, FALSE, "up", TRUE)

\* -- space "verify": certificate kind x upstream spelling x options of this rule x a NEIGHBOUR rule to the same backend
\* (in the same site or in another site, with other options); the script goes through the neighbour first, so that anything
\* shared between the two (a transport, a connection pool, a TLS configuration) would show. Rule 1 is the rule under test.
VOpts == {<< >>, <<"skip">>, <<"ca2">>, <<"ca12">>}
Neighbours == {"none", "sib-skip", "site-skip", "sib-ca2", "sib-strict"}
NeighbourOf(n, up) == CASE n = "sib-skip" -> Rule(1, up, <<"skip">>) [] n = "site-skip" -> Rule(2, up, <<"skip">>)
                        [] n = "sib-ca2" -> Rule(1, up, <<"ca2">>) [] n = "sib-strict" -> Rule(1, up, << >>)
One(r) == <<r>>
VerifyMain ==
    {CaseRec("verify", Be(c, FALSE, FALSE, "up", FALSE),
             IF n = "none" THEN <<Rule(1, up, o)>> ELSE <<Rule(1, up, o), NeighbourOf(n, up)>>,
             IF n = "none" THEN <<One(R0(1)), One(R0(1))>> ELSE <<One(R0(2)), One(R0(1)), One(R0(2)), One(R0(1))>>) :
        c \in CertKinds, up \in TLSUps, o \in VOpts, n \in Neighbours}
\* Host rewriting: `transparent` (Host = the client's), a fixed Host, a Host the client chooses through another header
HostOpts == {<<"transparent">>, <<"hostfixed">>, <<"hostx">>, <<"transparent", "hostfixed">>, <<"hostfixed", "transparent">>}
VerifyHost ==
    {CaseRec("verify", Be(c, FALSE, FALSE, "up", FALSE), <<Rule(1, up, o)>>,
             <<One(Req(1, ch, xn, FALSE, "ok", "GET", "none", FALSE))>>) :
        c \in {"good", "other"}, up \in TLSUps, o \in HostOpts \cup (IF Wide THEN {<<"skip", "transparent">>, <<"hostx", "ca12">>} ELSE {}),
        ch \in {"site", "other"}, xn \in {"", "other"}}
\* an upgrade request through the `websocket` preset takes the hijacker transport; h2-capable backends
VerifyWs ==
    {CaseRec("verify", Be(c, h2, FALSE, "up", FALSE), <<Rule(1, up, o)>>,
             <<One(Req(1, "site", "", ws, "ok", "GET", "none", FALSE)), One(R0(1))>>) :
        c \in {"good", "other", "self"}, h2 \in BOOLEAN, up \in {HName, HIP}, ws \in BOOLEAN,
        o \in {<<"websocket">>, <<"websocket", "skip">>} \cup (IF Wide THEN {<< >>, <<"ka0", "websocket">>} ELSE {})}
\* the health-check client of a rule authenticates the backend like the rule does
VerifyHealth ==
    {CaseRec("verify", Be(c, FALSE, FALSE, "up", FALSE), <<Rule(1, HName, o)>>, <<One(R0(1))>>) :
        c \in {"good", "ca2", "other"}, o \in {<<"hc">>, <<"hc", "ca2">>, <<"skip", "hc">>, <<"ca12", "hc">>}}
VerifyCases == VerifyMain \cup VerifyHost \cup VerifyWs \cup VerifyHealth

\* -- space "opts": every block of <= OptLen option lines x upstream scheme: what the setup builds (no request)
OptToks == IF Wide THEN GoodOpts \cup BadOpts ELSE (GoodOpts \ {"ka2", "mc1", "hostx", "fd100"}) \cup {"cabad", "kaneg", "tobad"}
OptSeqs == UNION {[1..l -> OptToks] : l \in 0..OptLen}
OptUps == {HName, PName, UnixUp, PSrv, HSrv, Up("quic", "b.test")}
OptsCases == {CaseRec("opts", PlainBe, <<Rule(1, up, o)>>, << >>) : up \in OptUps, o \in OptSeqs}

\* -- space "conn": keepalive. A burst of three requests the backend answers only when all three have arrived (three
\* connections at once), then two requests one after the other
Hold(rule) == Req(rule, "site", "", FALSE, "hold", "GET", "none", FALSE)
KaOpts == {<< >>, <<"ka0">>, <<"ka1">>, <<"ka2">>, <<"ka3">>}
ConnCases ==
    {CaseRec("conn", p[1], <<Rule(1, p[2], o)>>, <<<<Hold(1), Hold(1), Hold(1)>>, One(R0(1)), One(R0(1))>>) :
        p \in {<<GoodBe, HName>>, <<PlainBe, PName>>, <<UnixBe, UnixUp>>}, o \in KaOpts}
    \cup {CaseRec("conn", Be("good", TRUE, FALSE, "up", FALSE), <<Rule(1, HName, o)>>, <<One(R0(1)), One(R0(1))>>) : o \in {<< >>, <<"ka0">>, <<"ka1">>}}

\* -- space "silent": backends that cannot be reached, that accept and say nothing, that speak the other protocol
Mute(rule) == Req(rule, "site", "", FALSE, "mute", "GET", "none", FALSE)
SilentCases ==
    {CaseRec("silent", Be(IF up = PName THEN "none" ELSE "good", FALSE, FALSE, "blackhole", FALSE), <<Rule(1, up, o)>>, <<One(R0(1))>>) :
        up \in {PName, HName}, o \in {<<"to300">>, <<"to300", "ka0">>, << >>}}
    \cup {CaseRec("silent", Be(IF up = PName THEN "none" ELSE "good", FALSE, FALSE, "down", FALSE), <<Rule(1, up, o)>>, <<One(R0(1)), One(R0(1))>>) :
        up \in {PName, HName}, o \in {<< >>, <<"ka0">>}}
    \cup {CaseRec("silent", Be("good", FALSE, TRUE, "up", FALSE), <<Rule(1, up, o)>>, <<One(Req(1, "site", "", ws, "ok", "GET", "none", FALSE))>>) :
        up \in TLSUps, o \in {<<"websocket">>, <<"websocket", "ka3">>, <<"ka0", "websocket">>, <<"websocket", "skip">>}, ws \in BOOLEAN}
    \cup {CaseRec("silent", p[1], <<Rule(1, p[2], o)>>, <<One(Mute(1)), One(R0(1))>>) :
        p \in {<<GoodBe, HName>>, <<Be("good", TRUE, FALSE, "up", FALSE), HName>>, <<PlainBe, PName>>, <<UnixBe, UnixUp>>},
        o \in {<< >>, <<"ka0">>, <<"to300">>}}
    \cup {CaseRec("silent", p[1], <<Rule(1, p[2], o)>>, <<One(R0(1))>>) :
        p \in {<<PlainBe, HName>>, <<GoodBe, PName>>}, o \in {<< >>, <<"skip">>, <<"ka0">>}}

\* -- space "relay": the request arrives intact whatever the connection is made of, redirects come back as they are
RelayReqs == {Req(1, "site", "", FALSE, do, mb[1], mb[2], hop) :
                 do \in {"ok", "redirect"}, mb \in {<<"GET", "none">>, <<"POST", "small">>, <<"POST", "big">>, <<"POST", "chunked">>}, hop \in BOOLEAN}
RelayPairs == {<<PlainBe, PName>>, <<GoodBe, HName>>, <<Be("good", TRUE, FALSE, "up", FALSE), HName>>, <<GoodBe, HIP>>,
               <<GoodBe, HSrv>>, <<PlainBe, PSrv>>, <<UnixBe, UnixUp>>}
RelayCases ==
    {CaseRec("relay", p[1], <<Rule(1, p[2], o)>>, <<One(r), One([r EXCEPT !.hop = ~@])>>) :
        p \in RelayPairs, o \in {<< >>, <<"transparent">>} \cup (IF Wide THEN {<<"ka0">>, <<"skip">>} ELSE {}), r \in RelayReqs}

CasesOf(sp) == CASE sp = "verify" -> VerifyCases [] sp = "opts" -> OptsCases [] sp = "conn" -> ConnCases
                 [] sp = "silent" -> SilentCases [] sp = "relay" -> RelayCases

-----------------------------------------------------------------------------
(* 4. state *)

VARIABLES cfg,      \* the case: [space, be, rules, script, id]
          pc,       \* "setup" | "refused" | "health" | "run" | "end"
          i, j,     \* setup: rule index, option line index
          cur,      \* the staticUpstream under construction
          ups,      \* per rule: the staticUpstream as parseBlock left it
          hosts,    \* per rule: the transport of its (single) host
          health,   \* per rule: "none" (no health_check) | "todo" | "ok" | "bad"
          batch,    \* index into cfg.script
          fl,       \* the requests of the current batch in flight: [pc, c, host, hij, wait, phase]
          conns,    \* every connection ever attempted, in the order of the attempts
          outs      \* per batch, per request: the outcome (NoOut until it is there)
vars == <<cfg, pc, i, j, cur, ups, hosts, health, batch, fl, conns, outs>>

N == Len(cfg.rules)
B == cfg.be
NoOut == [res |-> "", status |-> 0, cls |-> {}, c |-> 0, reused |-> FALSE, host |-> "", wait |-> 0, phase |-> "", loc |-> FALSE, idle |-> 0]
NewFl(b) == [k \in 1..Len(b) |-> [pc |-> "new", c |-> 0, host |-> "", hij |-> FALSE, wait |-> 0, phase |-> "", reused |-> FALSE]]
NewConn(rule, hij, hc) == [rule |-> rule, hij |-> hij, health |-> hc, st |-> "dialing", tls |-> FALSE, sni |-> "", offer |-> << >>,
                           ver |-> "", hs |-> "", proto |-> "", n |-> 0, cc |-> FALSE]

Init == /\ \E sp \in Spaces : cfg \in CasesOf(sp)
        /\ pc = "setup" /\ i = 1 /\ j = 1 /\ cur = U0 /\ ups = << >> /\ hosts = << >> /\ health = << >>
        /\ batch = 0 /\ fl = << >> /\ conns = << >> /\ outs = << >>

-----------------------------------------------------------------------------
(* 5. setup *)

ParseOption ==
    /\ pc = "setup" /\ i <= N /\ j <= Len(cfg.rules[i].opts)
    /\ LET p == ParseLine(cur, cfg.rules[i].opts[j])
       IN  IF p.ok THEN cur' = p.u /\ j' = j + 1 /\ pc' = pc
           ELSE pc' = "refused" /\ UNCHANGED <<cur, j>>
    /\ UNCHANGED <<cfg, i, ups, hosts, health, batch, fl, conns, outs>>

\* the hosts are made AFTER the whole block has been read: the position of a line in the block does not matter
MakeHost ==
    /\ pc = "setup" /\ i <= N /\ j > Len(cfg.rules[i].opts)
    /\ ups' = Append(ups, cur)
    /\ hosts' = Append(hosts, TransportOf(cfg.rules[i].up, cur))
    /\ health' = Append(health, IF cur.hc THEN "todo" ELSE "none")
    /\ i' = i + 1 /\ j' = 1 /\ cur' = U0
    /\ UNCHANGED <<cfg, pc, batch, fl, conns, outs>>

SetupDone ==
    /\ pc = "setup" /\ i > N
    /\ pc' = "health"
    /\ outs' = [b \in 1..Len(cfg.script) |-> [k \in 1..Len(cfg.script[b]) |-> NoOut]]
    /\ UNCHANGED <<cfg, i, j, cur, ups, hosts, health, batch, fl, conns>>

\* would this client configuration accept the backend ?
Admits(up, skip, roots) == ~IsTLS(up) \/ skip \/ Defects(CertOf(B.cert), VerifyName(up), roots) = {}
Speaks(up) == IsTLS(up) <=> B.cert # "none"       \* both sides talk the same protocol

\* HealthCheckWorker's first round (u.healthCheck() before the first tick): GET <upstream><path> with the health client
HealthRound ==
    /\ pc = "health" /\ \E r \in 1..N : health[r] = "todo"
    /\ LET r == CHOOSE x \in 1..N : health[x] = "todo" /\ \A y \in 1..N : health[y] = "todo" => x <= y
           up == cfg.rules[r].up
           h == HealthOf(ups[r])
           fine == B.reach = "up" /\ ~B.mute /\ Speaks(up) /\ Admits(up, h.skip, h.roots)
       IN  /\ health' = [health EXCEPT ![r] = IF fine THEN "ok" ELSE "bad"]
           /\ conns' = Append(conns, [NewConn(r, FALSE, TRUE) EXCEPT
                                        !.st = IF B.reach # "up" THEN "never" ELSE "closed",       \* DisableKeepAlives is not set, but nobody counts these
                                        !.tls = IsTLS(up) /\ B.reach = "up", !.sni = IF IsTLS(up) /\ B.reach = "up" THEN SniOf(up) ELSE "",
                                        !.ver = IF ~IsTLS(up) \/ B.reach # "up" \/ ~Speaks(up) \/ B.mute THEN "" ELSE IF h.skip THEN "skipped" ELSE IF fine THEN "yes" ELSE "failed",
                                        !.hs = IF ~IsTLS(up) \/ B.reach # "up" THEN "" ELSE IF fine THEN "ok" ELSE "failed",
                                        !.n = IF fine THEN 1 ELSE 0])
    /\ UNCHANGED <<cfg, pc, i, j, cur, ups, hosts, batch, fl, outs>>

Start ==
    /\ pc = "health" /\ \A r \in 1..N : health[r] # "todo"
    /\ IF cfg.script = << >> THEN pc' = "end" /\ UNCHANGED <<batch, fl>>
       ELSE pc' = "run" /\ batch' = 1 /\ fl' = NewFl(cfg.script[1])
    /\ UNCHANGED <<cfg, i, j, cur, ups, hosts, health, conns, outs>>

-----------------------------------------------------------------------------
(* 6. one request *)

ReqOf(k) == cfg.script[batch][k]
RuleOf(k) == cfg.rules[ReqOf(k).rule]
UpOf(k) == RuleOf(k).up
TrOf(k) == hosts[ReqOf(k).rule]
UOf(k) == ups[ReqOf(k).rule]
Step(k, rec) == fl' = [fl EXCEPT ![k] = rec]
SetConn(c, rec) == conns' = [conns EXCEPT ![c] = rec]
\* the request is over: its outcome is written down
Finish(k, f, res, status, cls, phase) ==
    /\ fl' = [fl EXCEPT ![k] = [f EXCEPT !.pc = "done"]]
    /\ outs' = [outs EXCEPT ![batch][k] = [res |-> res, status |-> status, cls |-> cls, c |-> f.c, reused |-> f.reused, host |-> f.host,
                                           wait |-> f.wait, phase |-> phase, loc |-> res = "relay" /\ ReqOf(k).do = "redirect", idle |-> 0]]

Match(k) ==
    /\ pc = "run" /\ fl[k].pc = "new"
    /\ Step(k, [fl[k] EXCEPT !.pc = "select"])
    /\ UNCHANGED <<cfg, pc, i, j, cur, ups, hosts, health, batch, conns, outs>>

\* upstream.Select: an unhealthy host is no host ("no hosts available upstream", 502)
Select(k) ==
    /\ pc = "run" /\ fl[k].pc = "select"
    /\ IF health[ReqOf(k).rule] = "bad" THEN Finish(k, fl[k], "fail", 502, {"no-host"}, "")
       ELSE Step(k, [fl[k] EXCEPT !.pc = "sethost"]) /\ UNCHANGED outs
    /\ UNCHANGED <<cfg, pc, i, j, cur, ups, hosts, health, batch, conns>>

\* outreq.Host = nameURL.Host ("up": the authority of the upstream as written); then, if the rule has Host lines, the LAST
\* one - unless it expands to nothing
HostSeen(u, rq) ==
    IF u.hostrules = << >> THEN "up"
    ELSE LET last == u.hostrules[Len(u.hostrules)]
         IN  IF last = "xname" THEN (IF rq.xname = "" THEN "up" ELSE "xname") ELSE last
SetHost(k) ==
    /\ pc = "run" /\ fl[k].pc = "sethost"
    /\ Step(k, [fl[k] EXCEPT !.pc = "direct", !.host = HostSeen(UOf(k), ReqOf(k))])
    /\ UNCHANGED <<cfg, pc, i, j, cur, ups, hosts, health, batch, conns, outs>>

\* director: req.URL.Scheme / Host come from the target alone. Nothing of the request decides where the connection goes
\* or which name it is made for: from here on only UpOf(k) is looked at.
Direct(k) ==
    /\ pc = "run" /\ fl[k].pc = "direct"
    /\ Step(k, [fl[k] EXCEPT !.pc = "pick"])
    /\ UNCHANGED <<cfg, pc, i, j, cur, ups, hosts, health, batch, conns, outs>>

\* requestIsWebsocket(outreq): the client's Upgrade / Connection survive only through the `websocket` preset
PickTransport(k) ==
    /\ pc = "run" /\ fl[k].pc = "pick"
    /\ Step(k, [fl[k] EXCEPT !.pc = "getconn", !.hij = ReqOf(k).ws /\ UOf(k).ws])
    /\ UNCHANGED <<cfg, pc, i, j, cur, ups, hosts, health, batch, conns, outs>>

IdleOf(rule) == {c \in 1..Len(conns) : conns[c].rule = rule /\ conns[c].st = "idle" /\ ~conns[c].health}
GetConn(k) ==
    /\ pc = "run" /\ fl[k].pc = "getconn"
    /\ LET idle == IdleOf(ReqOf(k).rule)
       IN  IF ~fl[k].hij /\ idle # {}
           THEN LET c == CHOOSE x \in idle : \A y \in idle : x >= y       \* the most recently used one
                IN  /\ SetConn(c, [conns[c] EXCEPT !.st = "busy"])
                    /\ Step(k, [fl[k] EXCEPT !.pc = "send", !.c = c, !.reused = TRUE])
           ELSE /\ conns' = Append(conns, NewConn(ReqOf(k).rule, fl[k].hij, FALSE))
                /\ Step(k, [fl[k] EXCEPT !.pc = "dial", !.c = Len(conns) + 1])
    /\ UNCHANGED <<cfg, pc, i, j, cur, ups, hosts, health, batch, outs>>

\* `timeout` is the dialer's: it bounds the connect and nothing else
Dial(k) ==
    /\ pc = "run" /\ fl[k].pc = "dial"
    /\ LET c == fl[k].c
       IN  CASE B.reach = "up" ->
                   /\ SetConn(c, [conns[c] EXCEPT !.st = "busy"])
                   /\ Step(k, [fl[k] EXCEPT !.pc = IF IsTLS(UpOf(k)) THEN "hello" ELSE "send"]) /\ UNCHANGED outs
             [] B.reach = "blackhole" ->
                   /\ SetConn(c, [conns[c] EXCEPT !.st = "never"])
                   /\ IF TrOf(k).dial > 0 THEN Finish(k, [fl[k] EXCEPT !.wait = @ + TrOf(k).dial], "fail", 502, {"dial-timeout"}, "")
                      ELSE Step(k, [fl[k] EXCEPT !.pc = "held", !.phase = "dial"]) /\ UNCHANGED outs
             [] B.reach = "down" ->
                   /\ SetConn(c, [conns[c] EXCEPT !.st = "never"])
                   /\ Finish(k, fl[k], "fail", 502, {"dial-refused"}, "")
    /\ UNCHANGED <<cfg, pc, i, j, cur, ups, hosts, health, batch>>

\* ClientHello: ServerName = the host of the URL the director wrote (never the Host header), none for an IP literal
Hello(k) ==
    /\ pc = "run" /\ fl[k].pc = "hello"
    /\ LET c == fl[k].c
           named == ~(fl[k].hij /\ TrOf(k).skip /\ UpgradeSNI = "verified")      \* getTransportDialTLS sets ServerName itself
           hello == [conns[c] EXCEPT !.tls = TRUE, !.sni = IF named THEN SniOf(UpOf(k)) ELSE "", !.offer = Offer(TrOf(k), fl[k].hij)]
       IN  IF B.cert = "none"          \* the backend does not speak TLS
           THEN SetConn(c, [hello EXCEPT !.st = "closed", !.hs = "failed"]) /\ Finish(k, fl[k], "fail", 502, {"not-tls"}, "")
           ELSE IF B.mute              \* no ServerHello ever: TLSHandshakeTimeout, if the transport has one
           THEN IF TrOf(k).hs > 0
                THEN SetConn(c, [hello EXCEPT !.st = "closed", !.hs = "failed"])
                     /\ Finish(k, [fl[k] EXCEPT !.wait = @ + TrOf(k).hs], "fail", 502, {"handshake-timeout"}, "")
                ELSE SetConn(c, [hello EXCEPT !.hs = "pending"]) /\ Step(k, [fl[k] EXCEPT !.pc = "held", !.phase = "handshake"]) /\ UNCHANGED outs
           ELSE SetConn(c, hello) /\ Step(k, [fl[k] EXCEPT !.pc = "verify"]) /\ UNCHANGED outs
    /\ UNCHANGED <<cfg, pc, i, j, cur, ups, hosts, health, batch>>

\* verifyServerCertificate with the TLS configuration of THIS host's transport
Verify(k) ==
    /\ pc = "run" /\ fl[k].pc = "verify"
    /\ LET c == fl[k].c
           tr == TrOf(k)
           d == Defects(CertOf(B.cert), VerifyName(UpOf(k)), tr.roots)
       IN  IF tr.skip THEN SetConn(c, [conns[c] EXCEPT !.ver = "skipped"]) /\ Step(k, [fl[k] EXCEPT !.pc = "alpn"]) /\ UNCHANGED outs
           ELSE IF d = {} THEN SetConn(c, [conns[c] EXCEPT !.ver = "yes"]) /\ Step(k, [fl[k] EXCEPT !.pc = "alpn"]) /\ UNCHANGED outs
           ELSE SetConn(c, [conns[c] EXCEPT !.ver = "failed", !.hs = "failed", !.st = "closed"]) /\ Finish(k, fl[k], "fail", 502, d, "")
    /\ UNCHANGED <<cfg, pc, i, j, cur, ups, hosts, health, batch>>

Member(x, s) == \E n \in 1..Len(s) : s[n] = x
Negotiate(k) ==
    /\ pc = "run" /\ fl[k].pc = "alpn"
    /\ LET c == fl[k].c
       IN  SetConn(c, [conns[c] EXCEPT !.hs = "ok", !.cc = TrOf(k).cc,
                                       !.proto = IF B.h2 /\ Member("h2", conns[c].offer) THEN "h2" ELSE "http/1.1"])
    /\ Step(k, [fl[k] EXCEPT !.pc = "send"])
    /\ UNCHANGED <<cfg, pc, i, j, cur, ups, hosts, health, batch, outs>>

Send(k) ==
    /\ pc = "run" /\ fl[k].pc = "send"
    /\ LET c == fl[k].c
       IN  IF ~IsTLS(UpOf(k)) /\ B.cert # "none"       \* plain HTTP to a TLS backend: it answers with an alert, not with HTTP
           THEN SetConn(c, [conns[c] EXCEPT !.st = "closed"]) /\ Finish(k, fl[k], "fail", 502, {"bad-response"}, "")
           ELSE IF B.mute
           THEN SetConn(c, [conns[c] EXCEPT !.n = @ + 1]) /\ Step(k, [fl[k] EXCEPT !.pc = "held", !.phase = "response"]) /\ UNCHANGED outs
           ELSE SetConn(c, [conns[c] EXCEPT !.n = @ + 1]) /\ Step(k, [fl[k] EXCEPT !.pc = "wait"]) /\ UNCHANGED outs
    /\ UNCHANGED <<cfg, pc, i, j, cur, ups, hosts, health, batch>>

\* the backend's script. "hold": it answers when every request of the batch has arrived (so a burst needs a burst of
\* connections); "mute": it never answers - nothing in the transport bounds that wait (ResponseHeaderTimeout is not set)
Respond(k) ==
    /\ pc = "run" /\ fl[k].pc = "wait"
    /\ CASE ReqOf(k).do = "mute" -> Step(k, [fl[k] EXCEPT !.pc = "held", !.phase = "response"])
         [] ReqOf(k).do = "hold" -> (\A o \in DOMAIN fl : fl[o].pc \in {"wait", "relay", "release", "done"}) /\ Step(k, [fl[k] EXCEPT !.pc = "relay"])
         [] OTHER -> Step(k, [fl[k] EXCEPT !.pc = "relay"])
    /\ UNCHANGED <<cfg, pc, i, j, cur, ups, hosts, health, batch, conns, outs>>

\* ReverseProxy.ServeHTTP copies what came: a 3xx is a response like any other (RoundTrip, not Client.Do)
Relay(k) ==
    /\ pc = "run" /\ fl[k].pc = "relay"
    /\ Step(k, [fl[k] EXCEPT !.pc = "release"])
    /\ UNCHANGED <<cfg, pc, i, j, cur, ups, hosts, health, batch, conns, outs>>

\* tryPutIdleConn: kept if keep-alives are on and the host's idle list has room; an h2 connection is not counted against
\* MaxIdleConnsPerHost; the hijacker transport keeps nothing (MaxIdleConnsPerHost -1, closed by ServeHTTP)
Release(k) ==
    /\ pc = "run" /\ fl[k].pc = "release"
    /\ LET c == fl[k].c
           tr == TrOf(k)
           keep == ~fl[k].hij /\ ~tr.disableKA /\ (conns[c].proto = "h2" \/ Cardinality(IdleOf(ReqOf(k).rule)) < tr.limit)
       IN  SetConn(c, [conns[c] EXCEPT !.st = IF keep THEN "idle" ELSE "closed"])
    /\ Finish(k, fl[k], "relay", IF ReqOf(k).do = "redirect" THEN 302 ELSE 200, {}, "")
    /\ UNCHANGED <<cfg, pc, i, j, cur, ups, hosts, health, batch>>

\* a held request ends when the client goes away: CloseNotify -> cancel -> the transport closes the connection, 499
ClientGone(k) ==
    /\ pc = "run" /\ fl[k].pc = "held"
    /\ LET c == fl[k].c
           \* over h2 only the stream is reset; the connection goes on serving (unless keep-alives are off)
           stays == conns[c].proto = "h2" /\ fl[k].phase = "response" /\ ~TrOf(k).disableKA
       IN  SetConn(c, [conns[c] EXCEPT !.st = IF @ = "never" THEN "never" ELSE IF stays THEN "idle" ELSE "closed", !.hs = IF @ = "pending" THEN "failed" ELSE @])
    /\ Finish(k, fl[k], "held", 499, {"canceled"}, fl[k].phase)
    /\ UNCHANGED <<cfg, pc, i, j, cur, ups, hosts, health, batch>>

NextBatch ==
    /\ pc = "run" /\ \A k \in DOMAIN fl : fl[k].pc = "done"
    /\ IF batch < Len(cfg.script) THEN batch' = batch + 1 /\ fl' = NewFl(cfg.script[batch + 1]) /\ pc' = pc
       ELSE pc' = "end" /\ UNCHANGED <<batch, fl>>
    \* (book-keeping for the emitted case: how many connections are kept idle now that the batch is over)
    /\ outs' = [outs EXCEPT ![batch][1].idle = Cardinality({c \in 1..Len(conns) : conns[c].st = "idle" /\ ~conns[c].health})]
    /\ UNCHANGED <<cfg, i, j, cur, ups, hosts, health, conns>>

\* (one named action per step, so that TLC accounts for each of them separately)
DoMatch == \E k \in DOMAIN fl : Match(k)
DoSelect == \E k \in DOMAIN fl : Select(k)
DoSetHost == \E k \in DOMAIN fl : SetHost(k)
DoDirect == \E k \in DOMAIN fl : Direct(k)
DoPickTransport == \E k \in DOMAIN fl : PickTransport(k)
DoGetConn == \E k \in DOMAIN fl : GetConn(k)
DoDial == \E k \in DOMAIN fl : Dial(k)
DoHello == \E k \in DOMAIN fl : Hello(k)
DoVerify == \E k \in DOMAIN fl : Verify(k)
DoNegotiate == \E k \in DOMAIN fl : Negotiate(k)
DoSend == \E k \in DOMAIN fl : Send(k)
DoRespond == \E k \in DOMAIN fl : Respond(k)
DoRelay == \E k \in DOMAIN fl : Relay(k)
DoRelease == \E k \in DOMAIN fl : Release(k)
DoClientGone == \E k \in DOMAIN fl : ClientGone(k)
ProxyStep == DoMatch \/ DoSelect \/ DoSetHost \/ DoDirect \/ DoPickTransport \/ DoGetConn \/ DoDial \/ DoHello \/ DoVerify \/ DoNegotiate \/ DoSend \/ DoRespond \/ DoRelay \/ DoRelease
Next == \/ ParseOption \/ MakeHost \/ SetupDone \/ HealthRound \/ Start \/ NextBatch
        \/ ProxyStep \/ DoClientGone
Spec == Init /\ [][Next]_vars
\* the proxy's own steps are fair; a client is free to wait for ever
Fairness == WF_vars(ParseOption \/ MakeHost \/ SetupDone \/ HealthRound \/ Start \/ NextBatch \/ ProxyStep)
LiveSpec == Spec /\ Fairness

-----------------------------------------------------------------------------
(* 7. the guarantees, in terms of the Casketfile AS WRITTEN (not of the records the setup built) *)

OptsOf(r) == cfg.rules[r].opts
Wrote(r, t) == Member(t, OptsOf(r))
\* the last line of a family that the block contains (0 = none)
LastOf(r, toks) == LET at == {n \in 1..Len(OptsOf(r)) : OptsOf(r)[n] \in toks}
                   IN  IF at = {} THEN "" ELSE OptsOf(r)[CHOOSE n \in at : \A m \in at : m <= n]
OptedOut(r) == Wrote(r, "skip")
TrustOf(r) == LET ca == LastOf(r, {"ca2", "ca12"}) IN IF ca = "" THEN SystemRoots ELSE IF ca = "ca2" THEN {"ca2"} ELSE {"ca1", "ca2"}
KeepOf(r) == LET ka == LastOf(r, {"ka0", "ka1", "ka2", "ka3"}) IN CASE ka = "" -> 2 [] ka = "ka0" -> 0 [] ka = "ka1" -> 1 [] ka = "ka2" -> 2 [] ka = "ka3" -> 3
DialBoundOf(r) == IF Wrote(r, "to300") THEN 300 ELSE 30000
UpR(r) == cfg.rules[r].up
Served == pc \in {"health", "run", "end"}
\* the backend is acceptable to rule r: plain, opted out, or a certificate without defect for the name WRITTEN in the
\* upstream under the roots the rule WROTE (default: the system's)
Acceptable(r) == ~IsTLS(UpR(r)) \/ OptedOut(r) \/ Defects(CertOf(B.cert), UpR(r).host, TrustOf(r)) = {}

\* (1)(2)(4) a rule that has not opted out never gets a request (nor a health probe) through to a backend whose
\* certificate is expired, for another name, self-signed or from an authority the rule does not trust
VerifiedUnlessOptedOut ==
    Served => \A c \in 1..Len(conns) : conns[c].n > 0 /\ IsTLS(UpR(conns[c].rule)) => B.cert # "none" /\ Acceptable(conns[c].rule)

\* (2) the opt-out is the rule's own: whether a handshake is verified depends on the block it was made for and on
\* nothing else, and no request travels on a connection that another rule (or the health checker) made
OptOutIsLocal ==
    Served => /\ \A c \in 1..Len(conns) : conns[c].ver # "" => (conns[c].ver = "skipped" <=> OptedOut(conns[c].rule))
              /\ \A b \in 1..Len(outs) : \A k \in 1..Len(outs[b]) :
                    outs[b][k].c # 0 => conns[outs[b][k].c].rule = cfg.script[b][k].rule /\ ~conns[outs[b][k].c].health

\* (3)(4) the name in the ClientHello is the upstream's as written, whatever Host the backend is going to read; none for
\* an IP literal
SNIIsUpstreamName ==
    Served => \A c \in 1..Len(conns) : conns[c].tls =>
                 /\ conns[c].sni \in {"", UpR(conns[c].rule).host}
                 /\ (conns[c].sni = "" <=> UpR(conns[c].rule).host = "127.0.0.1")

\* (5) a redirect is a response: relayed with its status, and nobody makes a connection because of it - at most one
\* connection attempt per request (plus one per health-checked rule)
Started == IF pc = "end" THEN Len(cfg.script) ELSE batch
ReqCount == LET RECURSIVE Sum(_) Sum(b) == IF b = 0 THEN 0 ELSE Len(cfg.script[b]) + Sum(b - 1) IN Sum(Started)
RedirectsRelayedNotFollowed ==
    pc \in {"run", "end"} =>
        /\ \A b \in 1..Len(outs) : \A k \in 1..Len(outs[b]) :
              outs[b][k].res = "relay" => outs[b][k].status = (IF cfg.script[b][k].do = "redirect" THEN 302 ELSE 200) /\ (outs[b][k].loc <=> cfg.script[b][k].do = "redirect")
        /\ Cardinality({c \in 1..Len(conns) : ~conns[c].health}) <= ReqCount

\* (6) never more idle connections than `keepalive` says (2 when it says nothing), none at all with `keepalive 0`;
\* an h2 connection carries all requests and is not counted - but `keepalive 0` closes it too
IdleBounded ==
    Served => \A r \in 1..N : UpR(r).sch # "quic" =>
                 /\ Cardinality({c \in IdleOf(r) : conns[c].proto # "h2"}) <= KeepOf(r)
                 /\ KeepOf(r) = 0 => IdleOf(r) = {}

\* (7) `timeout` bounds the connect; the TLS handshake has its own 10 s; the wait for the response of a backend that took
\* the request is NOT bounded (ResponseHeaderTimeout unset - the request lasts as long as the client waits) but it is
\* released when the client goes away. So: a request is only ever held in phase "response", and whoever got an answer
\* got it within connect bound + handshake bound
SilentBackendBounded ==
    /\ \A k \in DOMAIN fl : fl[k].pc = "held" => fl[k].phase = "response"
    /\ \A b \in 1..Len(outs) : \A k \in 1..Len(outs[b]) :
          /\ outs[b][k].res = "held" => outs[b][k].phase = "response"
          /\ outs[b][k].res # "" => outs[b][k].wait <= DialBoundOf(cfg.script[b][k].rule) + 10000
\* ... and a held request leaves nothing behind once the client is gone
HeldIsReleased ==
    \A b \in 1..Len(outs) : \A k \in 1..Len(outs[b]) : outs[b][k].res = "held" /\ outs[b][k].c # 0 =>
        \/ conns[outs[b][k].c].st \in {"closed", "never"}
        \/ conns[outs[b][k].c].proto = "h2" /\ conns[outs[b][k].c].st \in {"idle", "busy"}      \* the stream was reset, the connection lives on
\* liveness (LiveSpec): without any help from the client every request is answered, unless a backend sits on it
EventuallyAnswered == <>(pc \in {"end", "refused"} \/ \E k \in DOMAIN fl : fl[k].pc = "held")

\* (8) + RequestIntactOverTLS: what the backend reads does not depend on what the connection is made of. The Host it
\* reads is the upstream's authority unless the block has Host lines (the last one, if it expands to something); the
\* rest (method, target, end-to-end headers, body) is ProxyRelay.tla's and the same record is emitted for plain, TLS and h2
HostWritten(r, rq) ==
    LET l == LastOf(r, {"transparent", "hostfixed", "hostx"})
    IN  CASE l = "" -> "up" [] l = "transparent" -> "client" [] l = "hostfixed" -> "fixed" [] l = "hostx" -> IF rq.xname = "" THEN "up" ELSE "xname"
RequestIntactOverTLS ==
    \A b \in 1..Len(outs) : \A k \in 1..Len(outs[b]) :
        outs[b][k].res \in {"relay", "held"} /\ outs[b][k].phase # "handshake" /\ outs[b][k].phase # "dial"
            => outs[b][k].host = HostWritten(cfg.script[b][k].rule, cfg.script[b][k])
\* a connection that completed its handshake speaks h2 exactly when the backend can and the request is no upgrade
H2WhenOffered ==
    \A c \in 1..Len(conns) : conns[c].hs = "ok" /\ ~conns[c].health =>
        (conns[c].proto = "h2" <=> B.h2 /\ ~conns[c].hij /\ UpR(conns[c].rule).sch # "quic")

\* the outcome of a request is a function of its own rule and of the backend: nothing another rule says changes it
HealthFine(r) == B.reach = "up" /\ ~B.mute /\ Speaks(UpR(r)) /\ Acceptable(r)
Expect(r, rq) ==
    IF Wrote(r, "hc") /\ ~HealthFine(r) THEN [res |-> "fail", cls |-> {"no-host"}]
    ELSE IF B.reach = "blackhole" THEN [res |-> "fail", cls |-> {"dial-timeout"}]
    ELSE IF B.reach = "down" THEN [res |-> "fail", cls |-> {"dial-refused"}]
    ELSE IF ~Speaks(UpR(r)) THEN [res |-> "fail", cls |-> {IF IsTLS(UpR(r)) THEN "not-tls" ELSE "bad-response"}]
    ELSE IF IsTLS(UpR(r)) /\ B.mute THEN [res |-> "fail", cls |-> {"handshake-timeout"}]
    ELSE IF ~Acceptable(r) THEN [res |-> "fail", cls |-> Defects(CertOf(B.cert), UpR(r).host, TrustOf(r))]
    ELSE IF rq.do = "mute" THEN [res |-> "held", cls |-> {"canceled"}]
    ELSE [res |-> "relay", cls |-> {}]
OutcomeIsOwn ==
    \A b \in 1..Len(outs) : \A k \in 1..Len(outs[b]) :
        outs[b][k].res # "" => [res |-> outs[b][k].res, cls |-> outs[b][k].cls] = Expect(cfg.script[b][k].rule, cfg.script[b][k])

\* the setup: the transport of a rule's host says what the block says, wherever in the block it says it
TransportFollowsOptions ==
    Served => \A r \in 1..N :
        /\ hosts[r].skip = OptedOut(r) /\ hosts[r].roots = TrustOf(r) /\ hosts[r].cc = Wrote(r, "cc")
        /\ hosts[r].dial = DialBoundOf(r)
        /\ hosts[r].kind # "quic" => hosts[r].limit = KeepOf(r)
        /\ hosts[r].kind \in {"custom", "default"} => hosts[r].hs = 10000 /\ hosts[r].h2
        /\ hosts[r].respwait = 0
        /\ Wrote(r, "hc") => HealthOf(ups[r]).skip = OptedOut(r) /\ HealthOf(ups[r]).roots = TrustOf(r)
HealthAgreesWithRule ==
    pc \in {"run", "end"} => \A r \in 1..N : health[r] # "none" => (health[r] = "ok" <=> HealthFine(r))
\* a block is refused for an unusable value or for wanting both: verification off and roots of its own
RefusedOnlyForCause ==
    pc = "refused" => \/ OptsOf(i)[j] \in BadOpts
                      \/ \E a, b \in 1..j : OptsOf(i)[a] = "skip" /\ OptsOf(i)[b] \in {"ca2", "ca12"}
AcceptedUnlessCause ==
    Served => \A r \in 1..N : (\A n \in 1..Len(OptsOf(r)) : OptsOf(r)[n] \in GoodOpts) /\ ~(Wrote(r, "skip") /\ (Wrote(r, "ca2") \/ Wrote(r, "ca12")))

TypeOK ==
    /\ pc \in {"setup", "refused", "health", "run", "end"}
    /\ i \in 1..(N + 1) /\ batch \in 0..Len(cfg.script)
    /\ \A k \in DOMAIN fl : fl[k].pc \in {"new", "select", "sethost", "direct", "pick", "getconn", "dial", "hello", "verify", "alpn", "send", "wait", "relay", "release", "held", "done"}
    /\ \A c \in 1..Len(conns) : conns[c].st \in {"dialing", "busy", "idle", "closed", "never"}

-----------------------------------------------------------------------------
(* 8. emission: one CASE per case, from its terminal state *)

ConnJ(c) == IF c = 0 THEN [tls |-> FALSE, sni |-> "", offer |-> << >>, ver |-> "", hs |-> "", proto |-> "", cc |-> FALSE, seen |-> FALSE, hij |-> FALSE]
            ELSE [tls |-> conns[c].tls, sni |-> conns[c].sni, offer |-> conns[c].offer, ver |-> conns[c].ver, hs |-> conns[c].hs,
                  proto |-> conns[c].proto, cc |-> conns[c].cc, seen |-> conns[c].st # "never", hij |-> conns[c].hij]
OutJ(b, k) == LET o == outs[b][k]
              IN  [res |-> o.res, status |-> o.status, cls |-> o.cls, reused |-> o.reused, host |-> o.host, wait |-> o.wait, phase |-> o.phase,
                   delivered |-> o.res = "relay" \/ (o.res = "held" /\ o.phase = "response"),
                   conn |-> ConnJ(IF o.reused THEN 0 ELSE o.c)]
TransJ(t) == [kind |-> t.kind, skip |-> t.skip, roots |-> t.roots, cc |-> t.cc, disableKA |-> t.disableKA, maxIdle |-> t.maxIdle, limit |-> t.limit,
              hs |-> t.hs, expect |-> t.expect, dial |-> t.dial, fd |-> t.fd, h2 |-> t.h2]
EmitCase(dummy) ==
    PrintT(<<"CASE", ToJson(
        [id |-> cfg.id, space |-> cfg.space, refused |-> pc = "refused",
         be |-> cfg.be,
         rules |-> [r \in 1..N |-> [site |-> cfg.rules[r].site, sch |-> cfg.rules[r].up.sch, host |-> cfg.rules[r].up.host, opts |-> cfg.rules[r].opts]],
         script |-> cfg.script,
         trans |-> IF pc = "refused" THEN << >> ELSE [r \in 1..N |-> TransJ(hosts[r])],
         hostrules |-> IF pc = "refused" THEN << >> ELSE [r \in 1..N |-> ups[r].hostrules],
         preset |-> IF pc = "refused" THEN << >> ELSE [r \in 1..N |-> ups[r].preset],
         wsrule |-> IF pc = "refused" THEN << >> ELSE [r \in 1..N |-> ups[r].ws],
         hc |-> IF pc = "refused" THEN << >> ELSE [r \in 1..N |-> [on |-> ups[r].hc, state |-> health[r], skip |-> HealthOf(ups[r]).skip, roots |-> HealthOf(ups[r]).roots, cc |-> HealthOf(ups[r]).cc]],
         want |-> IF pc = "refused" THEN << >> ELSE [b \in 1..Len(outs) |-> [k \in 1..Len(outs[b]) |-> OutJ(b, k)]],
         idle |-> IF pc = "refused" THEN << >> ELSE [b \in 1..Len(outs) |-> outs[b][1].idle]])>>)
Emit == pc \in {"end", "refused"} => EmitCase(0)
=============================================================================
