CONSTANT MaxN = 4
CONSTANT MF = 2
CONSTANT MCs = {0, 2}
CONSTANT Probing = "linear"
CONSTANT RRRounds = 6
SPECIFICATION Spec
PROPERTY Terminates
CHECK_DEADLOCK FALSE
