-------------------------- MODULE MiddlewareTrace --------------------------
(***************************************************************************)
(* C12 - validation of what the real middleware chain did (recorded by     *)
(* harness/c12 below httpserver.Server.ServeHTTP and at the client) by     *)
(* TLC.  Per request the trace holds                                       *)
(*   req    (configuration, request kind, behaviour of the inner handler)  *)
(*   commit (one per header commit that reached net/http, in order)        *)
(*   end    (status / decoded body parts the client received)              *)
(* TReq starts the operational model of Middleware.tla on that input,      *)
(* TRun lets it run to completion, TCommit/TEnd consume the observation.   *)
(* TEnd is enabled only if the observation satisfies the declarative       *)
(* predicates of C12 (the same operators the model checker uses), so a     *)
(* violating request stops the trace -> Accepted fails.  Agreement with    *)
(* the operational model is not required (DESIGN 5): a difference that     *)
(* satisfies the predicates is printed as DRIFT.                           *)
(***************************************************************************)
EXTENDS Middleware

VARIABLES l, phase, ocommits
tvars == <<vars, l, phase, ocommits>>

Trace == ndJsonDeserialize("trace.ndjson")
ToSet(s) == {s[i] : i \in 1..Len(s)}
Ev == Trace[l]

TInit ==
    /\ cfg = [on |-> {}, errors |-> "none"] /\ req = [path |-> "plain", gz |-> FALSE] /\ beh = NoBeh
    /\ dir = "done" /\ pos = 1 /\ ret = [s |-> 0, e |-> FALSE]
    /\ W = WInit /\ lines = << >> /\ errlog = 0 /\ pstep = "start"
    /\ l = 1 /\ phase = "idle" /\ ocommits = << >>

TReq ==
    /\ phase = "idle" /\ l <= Len(Trace) /\ Ev.ev = "req"
    /\ cfg' = [on |-> ToSet(Ev.on), errors |-> Ev.errors]
    /\ req' = [path |-> Ev.path, gz |-> Ev.gz]
    /\ beh' = [k |-> Ev.beh.k, s |-> Ev.beh.s, e |-> Ev.beh.e, x |-> Ev.beh.x]
    /\ dir' = "in" /\ pos' = 1 /\ ret' = [s |-> 0, e |-> FALSE]
    /\ W' = WInit /\ lines' = << >> /\ errlog' = 0 /\ pstep' = "start"
    /\ phase' = "run" /\ ocommits' = << >> /\ l' = l + 1

TRun ==
    /\ phase = "run" /\ dir # "done"
    /\ Next
    /\ UNCHANGED <<l, phase, ocommits>>

TCommit ==
    /\ phase = "run" /\ dir = "done" /\ l <= Len(Trace) /\ Ev.ev = "commit"
    /\ ocommits' = Append(ocommits, Ev.s)
    /\ l' = l + 1
    /\ UNCHANGED <<vars, phase>>

Observed == [status |-> Ev.status, body |-> Ev.body, decodable |-> Ev.decodable, commits |-> ocommits]
Conforms(o) == /\ o.status = Outcome.status /\ o.commits = Outcome.commits
               /\ o.decodable = Outcome.decodable
               /\ (o.decodable => o.body = Outcome.body)

TEnd ==
    /\ phase = "run" /\ dir = "done" /\ l <= Len(Trace) /\ Ev.ev = "end"
    /\ LET o == Observed IN
       /\ OneCommitP(Eff, o)
       /\ ErrorGetsBodyP(cfg, Eff, o)
       /\ WrittenUnalteredP(Eff, o)
       /\ PanicP(Eff, o)
       /\ IF Conforms(o) THEN TRUE ELSE PrintT(<<"DRIFT", cfg, req, beh, o>>)
    /\ phase' = "idle" /\ l' = l + 1
    /\ UNCHANGED <<vars, ocommits>>

TReset ==
    /\ phase = "idle" /\ l <= Len(Trace) /\ Ev.ev = "reset"
    /\ l' = l + 1
    /\ UNCHANGED <<vars, phase, ocommits>>

TNext == TReq \/ TRun \/ TCommit \/ TEnd \/ TReset
TSpec == TInit /\ [][TNext]_tvars

Constr == TLCSet(1, IF l > TLCGet(1) THEN l ELSE TLCGet(1))          \* high-water mark of consumed events
Accepted == IF TLCGet(1) = Len(Trace) + 1 THEN TRUE
            ELSE Print(<<"REJECTED at event", TLCGet(1), Trace[TLCGet(1)]>>, FALSE)
\* selftest: the (deliberately corrupted) trace must NOT be accepted
Rejected == TLCGet(1) # Len(Trace) + 1
ASSUME TLCSet(1, 0)
=============================================================================
