\* termination of the handler (liveness, small instance): every request that entered Browse.ServeHTTP is answered or
\* passed on; directories of <= 1 entry, the quick alphabets with <= 1 deviation
CONSTANT MaxEntries = 1
CONSTANT MaxChecked = 1
CONSTANT MaxDeviations = 1
CONSTANT MaxDeviationsBig = 1
CONSTANT SampleRate <- RateQuick
CONSTANT PerDir = 1
CONSTANT SortQs = {"-", "name", "bogus"}
CONSTANT OrderQs = {"-", "desc"}
CONSTANT LimitQs = {"-", "1", "abc"}
CONSTANT SortCks = {"-", "time"}
CONSTANT OrderCks = {"-", "desc"}
CONSTANT Accepts = {"-", "json"}
CONSTANT ArchQs = {"-", "zip"}
CONSTANT Methods = {"GET", "HEAD", "POST", "OPTIONS"}
CONSTANT CountsVisible = TRUE
CONSTANT EscUrl = TRUE
CONSTANT EscHtml = TRUE
CONSTANT DotSlash = TRUE
SPECIFICATION Spec
INVARIANT TypeOK
PROPERTY Terminates
CHECK_DEADLOCK FALSE
