------------------------------- MODULE LBRetry -------------------------------
(***************************************************************************)
(* C05, second half - the retry loop of Proxy.ServeHTTP (proxy.go) as a    *)
(* state machine with a logical clock (unit = try_interval).               *)
(*                                                                         *)
(*   Select      host := upstream.Select(r)   (the policy operators of     *)
(*               LBPolicy, shown equal to the step-wise loops by           *)
(*               LoadBalance.tla); nil -> straight to Keep                 *)
(*   Rewind      bufferedBody.rewind() - only if the body was buffered     *)
(*   Forward     proxy.ServeHTTP(w, outreq): the backend answers or the    *)
(*               round trip fails (backends in rel never fail; the others  *)
(*               fail or answer, chosen per attempt = every fault pattern) *)
(*   CountFail   atomic.AddInt32(&host.Fails, 1) + the goroutine that      *)
(*               takes it back after fail_timeout (Expire)                 *)
(*   Keep        keepRetrying: give up once try_duration is spent          *)
(*   Sleep       time.Sleep(try_interval)                                  *)
(* Not modelled: context.Canceled / ErrMaxBytesExceeded exits (client side *)
(* aborts), health-check transitions during the request, time taken by an  *)
(* attempt itself (attempts are instantaneous on the logical clock).       *)
(***************************************************************************)
EXTENDS LBPolicy, TLC, Json

CONSTANTS MaxN,      \* largest pool
          MFs,       \* max_fails values
          D,         \* try_duration in try_intervals (> 0: retries enabled)
          Fs,        \* fail_timeout values in try_intervals (> 0)
          Pols,      \* subset of {"first", "rr", "hashed", "any"}; any = random, and least_conn with one request in flight
          Probing,   \* see LBPolicy!HashSlot
          Buffering  \* "retries" : body buffered whenever try_duration # 0 (repaired)
                     \* "multi"   : only when there is also more than one host (as found)

Situations == {"up", "unhealthy", "full", "failed"}   \* of a backend when the request arrives

VARIABLES n, pol, k0, mf, F, ini, rel, fails, pend, clock, pc, host, robin, hist, status, bpos
vars == <<n, pol, k0, mf, F, ini, rel, fails, pend, clock, pc, host, robin, hist, status, bpos>>

HostRec(b) == [u |-> IF ini[b] = "unhealthy" THEN 1 ELSE 0, f |-> fails[b], c |-> IF ini[b] = "full" THEN 1 ELSE 0]
Pool == [b \in 1..n |-> HostRec(b)]
A == AvailSet(Pool, mf, 1)                       \* max_conns 1
Buffered == IF Buffering = "retries" THEN D # 0 ELSE n > 1 /\ D # 0

\* staticUpstream.Select + policy: the possible <<selected slot, new robin>>
Choices ==
    IF n = 1 THEN {<<IF 1 \in A THEN 1 ELSE 0, robin>>}
    ELSE IF A = {} THEN {<<0, robin>>}
    ELSE CASE pol = "first"  -> {<<FirstLoop(A, n, 0), robin>>}
           [] pol = "rr"     -> {RRLoop(A, n, robin, 0)}
           [] pol = "hashed" -> {<<HashLoop(A, n, k0, 0, Probing), robin>>}
           [] pol = "any"    -> {<<b, robin>> : b \in A}

Init ==
    /\ n \in 1..MaxN /\ pol \in Pols /\ mf \in MFs /\ F \in Fs
    /\ k0 \in 0..(n - 1) /\ (pol \notin {"hashed", "rr"} => k0 = 0)
    /\ ini = << >> /\ rel = {} /\ fails = << >> /\ pend = {} /\ clock = 0 /\ pc = "build"
    /\ host = 0 /\ robin = k0 /\ hist = << >> /\ status = 0 /\ bpos = 0

Build ==
    /\ pc = "build"
    /\ \E s \in Situations : ini' = Append(ini, s)
    /\ pc' = IF Len(ini) + 1 = n THEN "rel" ELSE "build"
    /\ UNCHANGED <<n, pol, k0, mf, F, rel, fails, pend, clock, host, robin, hist, status, bpos>>

\* which backends stay healthy for the whole request; earlier failures are remembered until F at the latest
ChooseRel ==
    /\ pc = "rel"
    /\ rel' \in SUBSET (1..n)
    /\ fails' = [b \in 1..n |-> IF ini[b] = "failed" THEN mf ELSE 0]
    /\ pend' = {<<b, F, 0 - j>> : b \in {x \in 1..n : ini[x] = "failed"}, j \in 1..mf}
    /\ pc' = "select"
    /\ UNCHANGED <<n, pol, k0, mf, F, ini, clock, host, robin, hist, status, bpos>>

Select ==
    /\ pc = "select"
    /\ \E ch \in Choices :
          /\ host' = ch[1] /\ robin' = ch[2]
          /\ pc' = IF ch[1] = 0 THEN "keep" ELSE "rewind"      \* nil host: "no hosts available upstream"
    /\ UNCHANGED <<n, pol, k0, mf, F, ini, rel, fails, pend, clock, hist, status, bpos>>

Rewind ==
    /\ pc = "rewind"
    /\ bpos' = IF Buffered THEN 0 ELSE bpos
    /\ pc' = "forward"
    /\ UNCHANGED <<n, pol, k0, mf, F, ini, rel, fails, pend, clock, host, robin, hist, status>>

Forward ==
    /\ pc = "forward"
    /\ \E ok \in (IF host \in rel THEN {TRUE} ELSE {TRUE, FALSE}) :
          /\ hist' = Append(hist, [b |-> host, ok |-> ok, whole |-> (bpos = 0)])
          /\ IF ok THEN pc' = "done" /\ status' = 200 ELSE pc' = "countfail" /\ UNCHANGED status
    /\ bpos' = 1                                                \* the transport consumed the body
    /\ UNCHANGED <<n, pol, k0, mf, F, ini, rel, fails, pend, clock, host, robin>>

CountFail ==
    /\ pc = "countfail"
    /\ fails' = [fails EXCEPT ![host] = @ + 1]                  \* F > 0 in every configuration explored
    /\ pend' = pend \cup {<<host, clock + F, Len(hist)>>}
    /\ pc' = "keep"
    /\ UNCHANGED <<n, pol, k0, mf, F, ini, rel, clock, host, robin, hist, status, bpos>>

Keep ==
    /\ pc = "keep"
    /\ IF clock >= D THEN pc' = "done" /\ status' = 502 ELSE pc' = "sleep" /\ UNCHANGED status
    /\ UNCHANGED <<n, pol, k0, mf, F, ini, rel, fails, pend, clock, host, robin, hist, bpos>>

Sleep ==
    /\ pc = "sleep"
    /\ clock' = clock + 1
    /\ pc' = "select"
    /\ UNCHANGED <<n, pol, k0, mf, F, ini, rel, fails, pend, host, robin, hist, status, bpos>>

\* the goroutine started by CountFail: time.Sleep(fail_timeout); Fails--
\* (Fails is only read by Select, so it is enough to let the goroutine run - or be late - just before a Select)
Expire ==
    /\ pc = "select"
    /\ \E e \in pend :
          /\ e[2] <= clock
          /\ fails' = [fails EXCEPT ![e[1]] = @ - 1]
          /\ pend' = pend \ {e}
    /\ UNCHANGED <<n, pol, k0, mf, F, ini, rel, clock, pc, host, robin, hist, status, bpos>>

Next == Build \/ ChooseRel \/ Select \/ Rewind \/ Forward \/ CountFail \/ Keep \/ Sleep \/ Expire
Spec == Init /\ [][Next]_vars /\ WF_vars(Next)

\* ---- the property ---------------------------------------------------------
Done == pc = "done"
Started == pc \notin {"build", "rel"}
Up(b) == ini[b] = "up"
\* enough time to drive every faulty backend to max_fails, failures not forgotten during the request
Budget == F > D /\ mf * Cardinality({b \in 1..n : Up(b) /\ b \notin rel}) <= D
\* "a request is answered by a healthy backend whenever one exists, whatever subset of the others is failing"
HealthyAnswers == (Done /\ Budget /\ \E b \in rel : Up(b)) => status = 200
\* "... and otherwise fails with 502 once the duration is spent"
Else502AfterDuration == (Done /\ status # 200) => /\ status = 502 /\ clock >= D
                                                  /\ \A k \in 1..Len(hist) : ~hist[k].ok
\* the client's answer is the answer of the last attempt, every earlier attempt failed
AnsweredByLast == (Done /\ status = 200) => /\ Len(hist) > 0 /\ hist[Len(hist)].ok
                                            /\ \A k \in 1..(Len(hist) - 1) : ~hist[k].ok
\* "every attempt receiving the complete original body"
BodyComplete == \A k \in 1..Len(hist) : hist[k].whole
\* never forwards to an unavailable backend
OnlyAvailableTried == (Started /\ pc \in {"rewind", "forward"}) => host \in A
\* failure accounting: every counted failure has its pending take-back; the counter stays within 0..max_fails
FailsAccounted == Started => \A b \in 1..n : /\ fails[b] = Cardinality({e \in pend : e[1] = b})
                                             /\ fails[b] \in 0..mf
Terminates == <>(pc = "done")

\* ---- emission: every finished behaviour whose failures are remembered for the whole request ----
\* ok[k] = the k-th attempt found its backend answering; b[k] = the backend the model forwarded to
Emit == (Done /\ F > D) =>
    PrintT(<<"CASE", ToJson([n |-> n, pol |-> pol, k0 |-> k0, mf |-> mf, ini |-> ini,
              rel |-> [b \in 1..n |-> b \in rel],
              ok |-> [k \in 1..Len(hist) |-> hist[k].ok], b |-> [k \in 1..Len(hist) |-> hist[k].b],
              status |-> status, d |-> D, mustanswer |-> (Budget /\ \E b \in rel : Up(b))])>>)
=============================================================================
