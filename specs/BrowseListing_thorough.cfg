\* thorough: every directory of <= 5 entries is built (101 584) and the sort lemmas are checked on it; the directories
\* of <= 2 entries get every request of the alphabets below (<= 2 deviations from the plain request) through the whole
\* pipeline; emitted: all directories of <= 3 entries, one in 8 of those with 4, one in 40 of those with 5, with PerDir
\* sampled requests each
CONSTANT MaxEntries = 5
CONSTANT MaxChecked = 2
CONSTANT MaxDeviations = 2
CONSTANT MaxDeviationsBig = 1
CONSTANT SampleRate <- RateThorough
CONSTANT PerDir = 10
CONSTANT SortQs = {"-", "name", "namedirfirst", "size", "time", "bogus"}
CONSTANT OrderQs = {"-", "asc", "desc", "bogus"}
CONSTANT LimitQs = {"-", "1", "2", "0", "-1", "abc"}
CONSTANT SortCks = {"-", "time", "bogus"}
CONSTANT OrderCks = {"-", "desc", "bogus"}
CONSTANT Accepts = {"-", "json", "mixed"}
CONSTANT ArchQs = {"-", "zip", "rar"}
CONSTANT Methods = {"GET", "HEAD", "POST", "OPTIONS"}
CONSTANT CountsVisible = TRUE
CONSTANT EscUrl = TRUE
CONSTANT EscHtml = TRUE
CONSTANT DotSlash = TRUE
SPECIFICATION Spec
INVARIANT TypeOK
INVARIANT LessIsKeyOrder
INVARIANT SortIsTotal
INVARIANT AscIsReverseOfDesc
INVARIANT DirsFirst
INVARIANT LinksResolve
INVARIANT NamesAreInert
INVARIANT ListingEqualsDirectory
INVARIANT NoHiddenNames
INVARIANT CountsMatchListing
INVARIANT SortKeyIsRequested
INVARIANT CookieRules
INVARIANT NeverAnErrorPage
INVARIANT AnswersOnlyWhenDue
INVARIANT JsonEqualsHtml
INVARIANT HeadEqualsGet
INVARIANT UpLinkWithinScope
INVARIANT ArchiveOnlyIfConfigured
INVARIANT RunAgrees
INVARIANT Emit
CHECK_DEADLOCK FALSE
