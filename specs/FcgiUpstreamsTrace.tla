------------------------- MODULE FcgiUpstreamsTrace -------------------------
(***************************************************************************)
(* Validates ndjson traces recorded from the REAL fastcgi middleware (a    *)
(* casket site whose rule lists several `upstream` addresses and the three *)
(* time-outs) talking to the scripted responders of harness/hx/fcgifarm.go *)
(* against the actions of FcgiUpstreams.tla.  All events get their         *)
(* sequence number and their tick (t) under the farm's one mutex:          *)
(*   script  a new scenario: addresses n, port modes, scripted answer      *)
(*           modes, time-outs in ticks (cto, rto, sto, sd), request kinds  *)
(*           (acts as reset)                                               *)
(*   start   the harness is about to send request r to casket              *)
(*   accept  upstream u accepted its next connection: number c (farm-wide  *)
(*           accept order), scripted mode m                                *)
(*   begin   the params of request r arrived complete on connection c; k = *)
(*           BeginRequest records seen on c so far                         *)
(*   reqend  the request is complete (stdin closed)                        *)
(*   answer  the responder is about to put its mode's bytes on the wire    *)
(*   close   the responder read the client's end-of-stream on c            *)
(*   end     the harness has the HTTP answer of r: status st, body class m *)
(*           (full / cut / polluted / err / static)                        *)
(*   quiet   all answers are in and the harness has waited for the closes  *)
(* Not logged, inferred by TLC: PassOn, Pick, DialRefused, DialTimeout,    *)
(* SendTimeout, ReadHeader, HeaderEOF, ReadTimeout, Copy*, CloseConn, what *)
(* is sent to a responder that does not read, and the passing of time      *)
(* (Advance: the clock moves to the next event's tick).                    *)
(***************************************************************************)
EXTENDS FcgiUpstreams

VARIABLE l
Trace == ndJsonDeserialize("trace.ndjson")
tvars == <<vars, l>>
E == Trace[l]
IsEvent(e) == l <= Len(Trace) /\ Trace[l].ev = e /\ Trace[l].t = now /\ l' = l + 1

Blank(n) ==
    /\ picks' = 0 /\ hist' = <<>>
    /\ nacc' = [u \in 1..n |-> 0] /\ conn' = <<>>
    /\ pc' = [r \in Reqs |-> "new"] /\ up' = [r \in Reqs |-> 0] /\ cn' = [r \in Reqs |-> 0]
    /\ t0' = [r \in Reqs |-> 0] /\ dt' = [r \in Reqs |-> 0] /\ ht' = [r \in Reqs |-> 0]
    /\ rdl' = [r \in Reqs |-> 0] /\ sdl' = [r \in Reqs |-> 0] /\ fin' = [r \in Reqs |-> 0]
    /\ wrote' = [r \in Reqs |-> FALSE] /\ ret' = [r \in Reqs |-> 0]
    /\ quiet' = FALSE

TInit == /\ l = 1
         /\ N = 1 /\ port = [u \in 1..1 |-> "up"] /\ beh = [u \in 1..1 |-> [k \in 1..MaxVisits |-> "ok"]]
         /\ CT = 1 /\ RT = 1 /\ ST = 1 /\ kind = [r \in Reqs |-> "php"] /\ nreq = 0 /\ seq = FALSE
         /\ Dyn0

\* a new scenario: a new farm (its clock starts at 0), a new casket site
TScript ==
    /\ l <= Len(Trace) /\ E.ev = "script" /\ l' = l + 1
    /\ N' = E.n /\ port' = [u \in 1..E.n |-> E.ports[u]]
    /\ beh' = [u \in 1..E.n |-> [k \in 1..MaxVisits |-> IF k <= Len(E.beh[u]) THEN E.beh[u][k] ELSE "ok"]]
    /\ CT' = E.cto /\ RT' = E.rto /\ ST' = E.sto
    /\ kind' = [r \in Reqs |-> IF r <= Len(E.kinds) THEN E.kinds[r] ELSE "php"]
    /\ nreq' = Len(E.kinds) /\ seq' = FALSE
    /\ now' = 0
    /\ Blank(E.n)

TStart == IsEvent("start") /\ Start(E.r)
\* some request that picked upstream u got through: which one is settled by "begin"
TAccept == /\ IsEvent("accept")
           /\ \E r \in Reqs : up[r] = E.u /\ DialOK(r)
           /\ Len(conn') = E.c /\ conn'[E.c].mode = E.m
TBegin == IsEvent("begin") /\ E.r \in Reqs /\ cn[E.r] = E.c /\ SendParams(E.r) /\ conn'[E.c].nbeg = E.k
TReqEnd == IsEvent("reqend") /\ E.r \in Reqs /\ cn[E.r] = E.c /\ SendBody(E.r)
TAnswer == /\ IsEvent("answer") /\ E.c <= Len(conn) /\ conn[E.c].mode = E.m
           /\ \/ Answer(E.c)
              \/ RespOf(E.m) = "none" /\ UNCHANGED vars        \* "stall": the responder just notes it
TClose == IsEvent("close") /\ SeeClose(E.c)
TEnd == /\ IsEvent("end") /\ E.r \in Reqs /\ Return(E.r)
        /\ View(E.r).st = E.st /\ View(E.r).body = E.m
TQuiet == /\ IsEvent("quiet") /\ AllDone /\ ~quiet /\ quiet' = TRUE
          /\ UNCHANGED <<cfgvars, picks, hist, now, nacc, conn, reqvars>>

Logged == TScript \/ TStart \/ TAccept \/ TBegin \/ TReqEnd \/ TAnswer \/ TClose \/ TEnd \/ TQuiet

\* the clock of the trace moves on to the next event
Advance == /\ l <= Len(Trace) /\ E.ev # "script" /\ E.t > now
           /\ now' = E.t
           /\ UNCHANGED <<cfgvars, picks, hist, nacc, conn, reqvars, quiet, l>>
NoRead(r) == cn[r] # 0 /\ conn[cn[r]].mode = "noread"
Silent == /\ UNCHANGED l
          /\ \E r \in Reqs : \/ PassOn(r) \/ Pick(r) \/ DialRefused(r) \/ DialTimeout(r)
                             \/ (NoRead(r) /\ (SendParams(r) \/ SendBody(r)))
                             \/ SendTimeout(r) \/ ReadHeader(r) \/ HeaderEOF(r) \/ ReadTimeout(r)
                             \/ CopyDone(r) \/ CopyCut(r) \/ CopyTimeout(r) \/ CloseConn(r)
TNext == Logged \/ Advance \/ Silent
TSpec == TInit /\ [][TNext]_tvars

Constr == TLCSet(1, IF l > TLCGet(1) THEN l ELSE TLCGet(1))
Accepted == IF TLCGet(1) = Len(Trace) + 1 THEN TRUE
            ELSE Print(<<"REJECTED at event", TLCGet(1), Trace[TLCGet(1)]>>, FALSE)
ASSUME TLCSet(1, 0)
=============================================================================
