\* by hand only (not part of any pipeline): the two readings of "a site's certificates are its own" that casket does
\* NOT implement - TLC refutes both (one certificate cache per instance, looked up by name only)
CONSTANT CertIds = {"A", "AB", "B"}
CONSTANT Certs3 = {}
CONSTANT Topos = {"two", "cross", "wild", "plain"}
CONSTANT ReloadTopos = {}
CONSTANT FullOffers = FALSE
SPECIFICATION Spec
INVARIANT ListenerScoped
INVARIANT StrictSiteKeys
CHECK_DEADLOCK FALSE
