CONSTANTS MaxAttempts = 2
INIT Init
NEXT Next
INVARIANT Emit
CHECK_DEADLOCK FALSE
