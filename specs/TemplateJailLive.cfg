CONSTANT L = 1
CONSTANT PairL = 1
CONSTANT Alphabet <- MidAlphabet
CONSTANT PairAlphabet <- SmallAlphabet
CONSTANT Vias <- BothVias
CONSTANT Families <- AllFamilies
CONSTANT MaxDepth = 4
CONSTANT FdLimit = 0
CONSTANT DepthBudget = 4
CONSTANT CallLen = 1
CONSTANT MetaChecked = TRUE
CONSTANT EmptyDocGuard = TRUE
CONSTANT SummarizeInDir = TRUE
CONSTANT IdxLen = 3
SPECIFICATION Spec
INVARIANT TypeOK
PROPERTY NestedIncludeTerminates
CHECK_DEADLOCK TRUE
