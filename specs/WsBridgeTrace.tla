--------------------------- MODULE WsBridgeTrace ---------------------------
(***************************************************************************)
(* Validates ndjson traces recorded around a real casket site with the     *)
(* `websocket` directive (a raw websocket client on one side, the spawned  *)
(* command - the test binary in child mode, reporting over a side channel  *)
(* - on the other, a test-only directive in front of `websocket` that sees *)
(* serveWS return) against the actions of WsBridge.tla.                    *)
(* Logged (one mutex per exchange; what the harness does is logged before  *)
(* it is done, what it observes after it was observed; what the command    *)
(* does of its own accord it announces and waits for the acknowledgement): *)
(*   script    a new exchange: scope, type, bufsize, mode of the command    *)
(*   creq      the client writes its request (kind, path, Host form, extra *)
(*             headers)                                                    *)
(*   chead     the client has read the response head                       *)
(*   inner     the handler behind `websocket` saw the request (unchanged?) *)
(*   spawn     the command is there: names of its environment, whether the *)
(*             values / its arguments are the expected ones                *)
(*   csend / cclose / cdrop    the client sends a message / a close frame  *)
(*             / ends the TCP connection (fin | rst)                       *)
(*   pwrite / pcloseout / pexit  the command writes / closes stdout /      *)
(*             leaves (why = cmd: told to; sig, eof: announced with the    *)
(*             event before)                                               *)
(*   stdin / stdineof / sig      what the command read, saw, was sent      *)
(*   pgone     the side channel of the command ended (killed = without an  *)
(*             announcement)                                               *)
(*   frame / cframe / ceof       one frame the client received, a close    *)
(*             frame, the end of the stream                                *)
(*   ret       serveWS returned (status)                                   *)
(*   reaped    /proc/<pid> of the command is gone                          *)
(*   stop      Server.Stop                                                 *)
(*   quiet     the harness has seen everything it expected: nothing is     *)
(*             left to do for the server, the command or the client        *)
(* Not logged, inferred by TLC: every step of the server (ServerBut, the   *)
(* failing SrvStart, SrvTimer), the death of the command by SIGKILL and    *)
(* the discarding of frames by a client that has gone.                     *)
(***************************************************************************)
EXTENDS WsBridge

VARIABLE l
Trace == ndJsonDeserialize("trace.ndjson")
tvars == <<vars, l>>
E == Trace[l]
IsEvent(e) == l <= Len(Trace) /\ Trace[l].ev = e /\ l' = l + 1
ToSet(s) == {s[i] : i \in 1..Len(s)}
KindsOf(ids) == [i \in 1..Len(ids) |-> Kind(ids[i])]

TInit == l = 1 /\ scope = "bridge" /\ ty = "lines" /\ bs = 0 /\ mode = "dflt" /\ cmdok = TRUE /\ InitRest

TScript ==
    /\ IsEvent("script")
    /\ scope' = E.scope /\ ty' = E.type /\ bs' = E.buf /\ mode' = E.mode /\ cmdok' = E.cmdok
    /\ ResetRest

Same == UNCHANGED vars

TCReq == IsEvent("creq") /\ ClientRequest(E.k, E.p, E.h, ToSet(E.hs))
TCHead == IsEvent("chead") /\ s2c # <<>> /\ Head(s2c).k = "head" /\ Head(s2c).code = E.st /\ ClientRecv
TInner == IsEvent("inner") /\ E.same /\ fwd # NoFwd /\ Same
\* the command is there: cmd.Start has happened; its environment has exactly the names of the model
TSpawn == /\ IsEvent("spawn") /\ cmdok /\ SrvStart
          /\ ToSet(E.names) = {p[1] : p \in cenv} /\ E.valsok /\ E.argvok /\ E.sel = sel
TCSend == IsEvent("csend") /\ ClientSend(KindsOf(E.ids)) /\ csent'[Len(csent')] = E.ids
TCClose == IsEvent("cclose") /\ ClientClose
TCDrop == IsEvent("cdrop") /\ ClientDrop(E.how)
TPWrite == IsEvent("pwrite") /\ ChildWrite(KindsOf(E.ids)) /\ outHist' = outHist \o E.ids
TPCloseOut == IsEvent("pcloseout") /\ ChildCloseOut
TPExit == IsEvent("pexit") /\ IF E.why = "cmd" THEN ChildExit ELSE ch \in {"dead", "reaped"} /\ Same
TSig == IsEvent("sig") /\ E.s = "INT" /\ ChildInt
\* what the command has read is a prefix of what was written to its stdin (the report may arrive
\* after the command is gone)
TStdin == /\ IsEvent("stdin") /\ ch # "none"
          /\ chGot' = chGot \o E.ids /\ IsPrefixOf(chGot', sinHist)
          /\ UNCHANGED <<cfgv, reqv, srvv, stopped, envv, ch, chenv, chEof, chSigs, chOut, pendInt, pendKill, spawns, leaving, pipv, inv, outv, conv, cliv, synv, dirty, nw>>
TStdinEof == IsEvent("stdineof") /\ ChildEof
\* the side channel of the command has ended: it is gone - by its own announced exit, by the exit it
\* was told to make, or (killed) by the SIGKILL of the server, a step TLC infers because serveWS
\* may return before the harness notices
TPGone == IsEvent("pgone") /\ ch \in {"dead", "reaped"} /\ Same
TFrame == IsEvent("frame") /\ cst # "gone" /\ s2c # <<>> /\ Head(s2c).k = E.k /\ Head(s2c).p = E.ids /\ ClientRecv
TCFrame == /\ IsEvent("cframe") /\ cst # "gone" /\ s2c # <<>>
           /\ Head(s2c).k = "close" /\ Head(s2c).code = E.code /\ Head(s2c).why = E.why /\ ClientRecv
HasFin == \E i \in 1..Len(s2c) : s2c[i].k = "fin"
FinAt == CHOOSE i \in 1..Len(s2c) : s2c[i].k = "fin" /\ \A j \in 1..(i - 1) : s2c[j].k # "fin"
\* the end of the stream as the client saw it: FIN in its turn - or a reset, which discards what
\* was still on its way (NothingLostAtExit then decides whether that was allowed)
TCEof == /\ IsEvent("ceof") /\ cst # "gone" /\ s2c # <<>>
         /\ \/ Head(s2c).k = "fin" /\ ClientRecv
            \/ /\ E.how = "reset" /\ HasFin /\ Head(s2c).k # "fin"
               /\ s2c' = After(s2c, FinAt) /\ ceof' = TRUE
               /\ UNCHANGED <<cfgv, reqv, srvv, stopped, envv, chv, pipv, inv, outv, conn, c2s, cst, csent, cgot, cclose, chead, synv, dirty, nw>>
TRet == IsEvent("ret") /\ pc = "returned" /\ rst = E.st /\ Same
TReaped == IsEvent("reaped") /\ pc = "returned" /\ ch = "reaped" /\ Same
TStop == IsEvent("stop") /\ ServerStop
TQuiet == IsEvent("quiet") /\ ~ENABLED Fast /\ ~ENABLED Slow /\ Same

Logged == \/ TCReq \/ TCHead \/ TInner \/ TSpawn \/ TCSend \/ TCClose \/ TCDrop \/ TPWrite \/ TPCloseOut \/ TPExit
          \/ TSig \/ TStdin \/ TStdinEof \/ TPGone \/ TFrame \/ TCFrame \/ TCEof \/ TRet \/ TReaped \/ TStop \/ TQuiet
Inferred == \/ ServerBut
            \/ ~cmdok /\ SrvStart
            \/ SrvTimer
            \/ ChildKilled /\ Ign(mode) /\ ~pendInt      \* (only a command that has taken the interrupt and ignores it lives that long)
            \/ cst = "gone" /\ ClientRecv
TNext == TScript \/ ((Logged \/ (Inferred /\ UNCHANGED l)) /\ UNCHANGED hisv)
TSpec == TInit /\ [][TNext]_tvars

Constr == TLCSet(1, IF l > TLCGet(1) THEN l ELSE TLCGet(1))
Accepted == IF TLCGet(1) = Len(Trace) + 1 THEN TRUE
            ELSE Print(<<"REJECTED at event", TLCGet(1), Trace[TLCGet(1)]>>, FALSE)
ASSUME TLCSet(1, 0)
=============================================================================
