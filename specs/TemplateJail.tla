---------------------------- MODULE TemplateJail ----------------------------
(***************************************************************************)
(* What a rendered page can pull in through casket's template context      *)
(* (caskethttp/httpserver/tplcontext.go), as used by the `templates`       *)
(* directive (caskethttp/templates) and the `markdown` directive           *)
(* (caskethttp/markdown).  Extension of C02: FileServe.tla models the jail *)
(* of the static file server, this module the jail of the template         *)
(* actions, which read files through Context.Root = http.Dir(site root).   *)
(*                                                                         *)
(* Three families of inputs, one state machine each (inp.fam):             *)
(*                                                                         *)
(* "page"  a template text: <= 2 actions out of                            *)
(*           {{.Include "name"}}  {{.Include "name" "A"}}                  *)
(*           {{range .Files "name"}}..{{end}}     {{.Markdown "name"}}     *)
(*         whose name is a sequence of <= L segments of the CleanPath      *)
(*         alphabet (text = the segments joined by "/": a leading empty    *)
(*         segment is an absolute name, "NUL" stands for a NUL byte,       *)
(*         "ABSF" for the absolute path of a file outside the root),       *)
(*         executed with a Context (via = "templates": the page is what    *)
(*         the file server answered for /pg/pN.html) or with markdown's    *)
(*         Data (via = "markdown": the page is the named template a .md    *)
(*         file selects in its front matter).  One action per step of the  *)
(*         code:                                                           *)
(*           Context.Include / Data.Include -> ContextInclude:             *)
(*             IncEnter   nesting bound (maxIncludeDepth, the repair)      *)
(*             IncOpen    fs.Open(filename): http.Dir cleans "/"+name      *)
(*                        below the root; a NUL byte is refused            *)
(*             IncRead    ioutil.ReadAll: a directory cannot be read       *)
(*             IncParse   template.New(filename).Parse(body): the included *)
(*                        file is itself a template                        *)
(*             IncPush    tpl.Execute(buf, ctx) with ctx.Args = args; the  *)
(*                        file stays open (defer file.Close())             *)
(*             ExecLit / ExecArgs / ExecBody  text, {{range .Args}},       *)
(*                        {{.Doc.body}} of the executing template          *)
(*             IncReturn  buf.String() appended to the includer's output   *)
(*           Context.Markdown = Context.Include (a Context, also inside    *)
(*             markdown's Data) + blackfriday                              *)
(*           Context.Files:                                                *)
(*             FilesClean   path.Clean(name) (unrooted clean), or - in a   *)
(*                          Data context - "Files has arguments but cannot *)
(*                          be invoked as function" (Data.Files, the field,*)
(*                          shadows the method)                            *)
(*             FilesOpen    c.Root.Open                                    *)
(*             FilesStat    not a directory -> error                       *)
(*             FilesReaddir the names of the entries                       *)
(*           an error anywhere ends every enclosing Execute (Unwind, one   *)
(*           frame per step, the deferred Close of each level runs) and    *)
(*           the response is 500 without any rendered byte (Abort);        *)
(*           otherwise Finish: 200, the buffer is the body.                *)
(*         The file system is a fixed tree seen from the PARENT of the     *)
(*         site root (TFiles/TDirs); some files are templates themselves   *)
(*         (Content): two levels of nesting, a file that includes itself,  *)
(*         two files that include each other, a file that tries to leave   *)
(*         the root, a file that lists a directory, an unparsable file.    *)
(*                                                                         *)
(* "doc"   a markdown document = front matter syntax x kinds of values of  *)
(*         title / template / author / x, through Config.Markdown:         *)
(*         DocSplit (metadata.GetParser), DocLoad (Metadata.load),         *)
(*         DocMeta (recognizedMetaTags), DocExec (execTemplate).           *)
(*                                                                         *)
(* "index" a markdown directory index: GET <spelling of a directory>/ where *)
(*         the directory holds index.md; markdown hands the directory's    *)
(*         entries to the template as .Files, and FileInfo.Summarize reads *)
(*         an entry: IdxLookup (httpserver.IndexFile), IdxReaddir,         *)
(*         IdxSummarize (one entry per step), IdxFinish.                   *)
(*                                                                         *)
(* "call"  the other context functions are TOTAL functions of their        *)
(*         arguments and of the request; there is no oracle for "does not  *)
(*         panic", so - as in PeerGrammar.tla - the specification is the   *)
(*         model of the input space (token strings per function) plus the  *)
(*         relations that do exist: Truncate, Ext/StripExt, StripHTML, Map,*)
(*         RandomString are modelled and their documented behaviour is     *)
(*         stated declaratively (CallOracles).                             *)
(*                                                                         *)
(* Constants: MaxDepth > 0 is the repaired design (a bound on nested       *)
(* includes); MaxDepth = 0 with FdLimit > 0 is the tree as found: the only *)
(* thing that ends a self-including file is the process running out of     *)
(* file descriptors (TLC refutes NestedIncludeBounded).  MetaChecked and   *)
(* EmptyDocGuard = FALSE give the two front-matter panics as found (TLC    *)
(* refutes DocNeverPanics), SummarizeInDir = FALSE the Summarize that      *)
(* opens root/<name> instead of <directory>/<name> (TLC refutes            *)
(* SummaryIsOfListedFile).  See notes/TemplateJail.md.                     *)
(***************************************************************************)
EXTENDS Integers, Sequences, FiniteSets, SequencesExt, TLC, Json, CleanPath

CONSTANTS L,              \* maximum number of segments of the name in a one-action page
          PairL,          \* ... of each name in a two-action page
          Alphabet,       \* segment alphabet of one-action pages
          PairAlphabet,   \* segment alphabet of two-action pages
          Vias,           \* subset of {"templates", "markdown"}
          Families,       \* subset of {"page", "call", "doc"}
          MaxDepth,       \* maxIncludeDepth of tplcontext.go (0: no bound, the tree as found)
          FdLimit,        \* RLIMIT_NOFILE of the process (0: not modelled)
          DepthBudget,    \* what NestedIncludeBounded demands
          CallLen,        \* maximum number of tokens of a call argument
          MetaChecked,    \* process.go: only string-valued front matter becomes a <meta> tag
          EmptyDocGuard,  \* metadata_json.go: an empty document is not sliced with [:-1]
          SummarizeInDir, \* process.go: FileInfo.Summarize opens the entry in ITS directory
          IdxLen          \* maximum number of segments of a directory-index request

\* "NUL" stands for a NUL byte, "ABSF" / "ABSD" for the absolute path (without its leading slash) of the file
\* out/f / the directory out OUTSIDE the root: inside the jail they are names of nothing
FullAlphabet  == {"f", "d", "g", "n", "n1", "n2", "self", "pa", "esc", "ls", "bad", "out", "Casketfile",
                  ".", "..", "", "\\", "NUL", "ABSF", "ABSD"}
SmallAlphabet == {"f", "d", "n2", "self", "Casketfile", "..", "", "ABSF"}
MidAlphabet   == {"f", "d", "g", "n", "n2", "pa", "ls", "out", "Casketfile", "..", "", "NUL"}
BothVias      == {"templates", "markdown"}
AllFamilies   == {"page", "call", "doc", "index"}
IndexOnly     == {"index"}
PageOnly      == {"page"}
DocOnly       == {"doc"}

\* ---- the file system, seen from the parent directory of the site root -------------
R(s) == <<"root">> \o s
TFiles == { R(<<"f">>), R(<<"d", "g">>), R(<<"d", "n">>), R(<<"n1">>), R(<<"n2">>), R(<<"self">>), R(<<"pa">>), R(<<"pb">>),
            R(<<"esc">>), R(<<"ls">>), R(<<"bad">>), R(<<"Casketfile">>), R(<<"out", "f">>), <<"out", "f">>, <<"out", "secret">>,
            R(<<"s", "f">>), R(<<"s", "index.md">>) }        \* root/s: a directory with a markdown index page
TDirs  == { <<>>, <<"root">>, R(<<"d">>), R(<<"out">>), R(<<"pg">>), R(<<"s">>), R(<<"s", "u">>), <<"out">> }
            \* root/pg holds the pages (never named)
THidden == { R(<<"Casketfile">>) }      \* SiteConfig.HiddenFiles: what the static file server refuses

Kind(n) == IF n \in TFiles THEN "file" ELSE IF n \in TDirs THEN "dir" ELSE "none"
InsideRootNode(n) == Len(n) >= 1 /\ n[1] = "root"
Children(dir) == {n \in TFiles \cup TDirs : Len(n) = Len(dir) + 1 /\ IsPrefix(dir, n)}
ChildNames(dir) == {Last(c) : c \in Children(dir)}
HasNul(S) == \E i \in 1..Len(S) : S[i] = "NUL"

\* http.Dir(root).Open(name): path.Clean("/" + name) below the root - the jail
Open(S) == R(Clean(S))

\* path.Clean(name) as Context.Files applies it BEFORE the jail: rooted for a name that starts
\* with "/", unrooted otherwise (leading ".." kept, "" becomes ".")
IsRooted(S) == Len(S) >= 2 /\ S[1] = ""
PathClean(S) == IF IsRooted(S) THEN (LET c == Clean(Tail(S)) IN IF c = <<>> THEN <<"", "">> ELSE <<"">> \o c)
                ELSE CleanRel(S)
\* cleaning twice does not change what the jail resolves (checked on the CleanPath lemma universe)
ASSUME \A p \in LemmaPaths : Clean(PathClean(p)) = Clean(p)

\* ---- template items ----------------------------------------------------------------
Item(k, S, a, n) == [k |-> k, path |-> S, arg |-> a, node |-> n]
Lit(n)    == Item("lit", <<>>, "", n)         \* the file's own text (its token)
Inc(S, a) == Item("inc", S, a, <<>>)          \* {{.Include "S"}} / {{.Include "S" "a"}}
Fls(S)    == Item("files", S, "", <<>>)       \* {{range .Files "S"}}<e>{{.}}</e>{{end}}
Mdn(S)    == Item("md", S, "", <<>>)          \* {{.Markdown "S"}}
ArgsEcho  == Item("args", <<>>, "", <<>>)     \* {{range .Args}}<arg>{{.}}</arg>{{end}}
BodyEcho  == Item("body", <<>>, "", <<>>)     \* {{.Doc.body}}
ActionKinds == {<<"inc", "">>, <<"inc", "A">>, <<"files", "">>, <<"md", "">>}

\* what the fixture files contain; names in an included file are relative to the ROOT, not to the file
Content(n) ==
    CASE n = R(<<"d", "n">>) -> <<Lit(n), Mdn(<<"ls">>)>>
      [] n = R(<<"n1">>)     -> <<Lit(n), ArgsEcho, Inc(<<"d", "g">>, "")>>
      [] n = R(<<"n2">>)     -> <<Lit(n), Inc(<<"n1">>, "fw"), ArgsEcho>>
      [] n = R(<<"self">>)   -> <<Lit(n), Inc(<<"self">>, "")>>
      [] n = R(<<"pa">>)     -> <<Lit(n), Inc(<<"pb">>, "")>>
      [] n = R(<<"pb">>)     -> <<Lit(n), Inc(<<"", "pa">>, "")>>
      [] n = R(<<"esc">>)    -> <<Lit(n), Inc(<<"..", "out", "f">>, "")>>
      [] n = R(<<"ls">>)     -> <<Lit(n), Fls(<<"d">>)>>
      [] OTHER               -> <<Lit(n)>>
Parses(n) == n # R(<<"bad">>)                 \* root/bad holds "{{": template.Parse fails

\* ---- output items ------------------------------------------------------------------
O(k, n, names, v) == [k |-> k, node |-> n, names |-> names, val |-> v]
NoCall == [stage |-> "none", node |-> <<>>, path |-> <<>>]
Frame(file, items, args, ctx) == [file |-> file, items |-> items, pc |-> 1, out |-> <<>>, args |-> args, ctx |-> ctx, call |-> NoCall]

VARIABLES inp, m
vars == <<inp, m>>

NoDoc == [fm |-> "none", title |-> "-", tpl |-> "-", author |-> "-", x |-> "-"]
Inp(fam) == [fam |-> fam, via |-> "templates", items |-> <<>>, fn |-> "", toks |-> <<>>, num |-> <<>>, doc |-> NoDoc]
Idle == [st |-> "build", stack |-> <<>>, status |-> 0, err |-> "", final |-> <<>>, opened |-> {}, fds |-> 0, depth |-> 0,
         hw |-> 0, pred |-> <<>>, known |-> FALSE, dst |-> NoDoc, dir |-> <<>>]

Init == inp \in {Inp(f) : f \in Families} /\ m = Idle

(***************************************************************************)
(* family "page"                                                           *)
(***************************************************************************)
PairOK(it) == Len(it.path) <= PairL /\ \A i \in 1..Len(it.path) : it.path[i] \in PairAlphabet
Building(fam) == m.st = "build" /\ inp.fam = fam

AddAction == /\ Building("page") /\ Len(inp.items) < 2
             /\ Len(inp.items) = 1 => PairOK(inp.items[1])
             /\ \E ka \in ActionKinds : inp' = [inp EXCEPT !.items = Append(@, Item(ka[1], <<>>, ka[2], <<>>))]
             /\ UNCHANGED m
GrowPath == /\ Building("page") /\ Len(inp.items) >= 1
            /\ LET n == Len(inp.items)
                   two == n = 2
               IN  /\ Len(inp.items[n].path) < (IF two THEN PairL ELSE L)
                   /\ \E x \in (IF two THEN PairAlphabet ELSE Alphabet) :
                         inp' = [inp EXCEPT !.items[n].path = Append(@, x)]
            /\ UNCHANGED m

\* templates.ServeHTTP: ctx.Root = t.FileSys ; parsedTpl.Execute(buf, ctx)
\* markdown: execTemplate -> c.Template.ExecuteTemplate(b, templateName, mdData)
Begin == /\ Building("page")
         /\ \E v \in Vias :
              /\ inp' = [inp EXCEPT !.via = v]
              /\ m' = [m EXCEPT !.st = "run",
                                !.stack = << Frame(<<"page">>, IF v = "markdown" THEN <<BodyEcho>> \o inp.items ELSE inp.items,
                                                   <<>>, IF v = "markdown" THEN "data" ELSE "context") >>]

Depth == Len(m.stack)
Top == m.stack[Depth]
AtEnd(fr) == fr.pc > Len(fr.items)
Cur == Top.items[Top.pc]
Running == m.st = "run" /\ Depth >= 1
At(k) == Running /\ ~AtEnd(Top) /\ Cur.k = k
Stage(s) == Running /\ ~AtEnd(Top) /\ Top.call.stage = s
WithTop(fr) == [m.stack EXCEPT ![Depth] = fr]
Fail(e) == m' = [m EXCEPT !.st = "unwind", !.err = e]
Emitted(os) == [Top EXCEPT !.out = @ \o os, !.pc = @ + 1, !.call = NoCall]
Larger(a, b) == IF a >= b THEN a ELSE b

ExecLit  == At("lit")  /\ m' = [m EXCEPT !.stack = WithTop(Emitted(<<O("tok", Cur.node, {}, "")>>))] /\ UNCHANGED inp
ArgOuts(args) == IF args = <<>> THEN <<>> ELSE [i \in 1..Len(args) |-> O("arg", <<>>, {}, args[i])]
ExecArgs == At("args") /\ m' = [m EXCEPT !.stack = WithTop(Emitted(ArgOuts(Top.args)))]
                       /\ UNCHANGED inp
\* .Doc exists in markdown's Data only
ExecBody == /\ At("body")
            /\ IF Top.ctx = "data" THEN m' = [m EXCEPT !.stack = WithTop(Emitted(<<O("body", <<>>, {}, "")>>))]
               ELSE Fail("nofield")
            /\ UNCHANGED inp

\* ContextInclude, first thing: the nesting bound
IncEnter == /\ (At("inc") \/ At("md")) /\ Stage("none")
            /\ IF MaxDepth > 0 /\ m.depth >= MaxDepth THEN Fail("toodeep")
               ELSE m' = [m EXCEPT !.depth = @ + 1, !.stack = WithTop([Top EXCEPT !.call = [NoCall EXCEPT !.stage = "entered"]])]
            /\ UNCHANGED inp
\* file, err := fs.Open(filename)
IncOpen == /\ (At("inc") \/ At("md")) /\ Stage("entered")
           /\ LET n == Open(Cur.path)
              IN  IF HasNul(Clean(Cur.path)) THEN Fail("invalid")      \* what is left of the name after cleaning
                  ELSE IF Kind(n) = "none" THEN Fail("notexist")
                  ELSE IF FdLimit > 0 /\ m.fds >= FdLimit THEN Fail("emfile")
                  ELSE m' = [m EXCEPT !.fds = @ + 1, !.hw = Larger(@, m.fds + 1), !.opened = @ \cup {n},
                                      !.stack = WithTop([Top EXCEPT !.call = [stage |-> "opened", node |-> n, path |-> <<>>]])]
           /\ UNCHANGED inp
\* body, err := ioutil.ReadAll(file)
IncRead == /\ Stage("opened")
           /\ IF Kind(Top.call.node) = "dir" THEN Fail("isdir")
              ELSE m' = [m EXCEPT !.stack = WithTop([Top EXCEPT !.call.stage = "read"])]
           /\ UNCHANGED inp
\* tpl, err := template.New(filename).Funcs(TemplateFuncs).Parse(string(body))
IncParse == /\ Stage("read")
            /\ IF ~Parses(Top.call.node) THEN Fail("parse")
               ELSE m' = [m EXCEPT !.stack = WithTop([Top EXCEPT !.call.stage = "parsed"])]
            /\ UNCHANGED inp
\* err = tpl.Execute(buf, ctx): Data.Include hands Data on, Context.Include and Context.Markdown a Context
IncPush == /\ Stage("parsed")
           /\ LET n == Top.call.node
                  child == Frame(n, Content(n), IF Cur.arg = "" THEN <<>> ELSE <<Cur.arg>>,
                                 IF Cur.k = "md" THEN "context" ELSE Top.ctx)
              IN  m' = [m EXCEPT !.stack = Append(WithTop([Top EXCEPT !.call.stage = "exec"]), child)]
           /\ UNCHANGED inp
\* return buf.String(), nil (+ blackfriday for .Markdown: the text survives); deferred file.Close()
IncReturn == /\ m.st = "run" /\ Depth >= 2 /\ AtEnd(Top)
             /\ LET par == m.stack[Depth - 1]
                    par2 == [par EXCEPT !.out = @ \o Top.out, !.pc = @ + 1, !.call = NoCall]
                IN  m' = [m EXCEPT !.stack = Append(SubSeq(m.stack, 1, Depth - 2), par2), !.fds = @ - 1, !.depth = @ - 1]
             /\ UNCHANGED inp

\* Context.Files(name)
FilesClean == /\ At("files") /\ Stage("none")
              /\ IF Top.ctx = "data" THEN Fail("notfunc")
                 ELSE m' = [m EXCEPT !.stack = WithTop([Top EXCEPT !.call = [stage |-> "cleaned", node |-> <<>>, path |-> PathClean(Cur.path)]])]
              /\ UNCHANGED inp
FilesOpen == /\ Stage("cleaned")
             /\ LET n == Open(Top.call.path)
                IN  IF HasNul(Clean(Top.call.path)) THEN Fail("invalid")
                    ELSE IF Kind(n) = "none" THEN Fail("notexist")
                    ELSE IF FdLimit > 0 /\ m.fds >= FdLimit THEN Fail("emfile")
                    ELSE m' = [m EXCEPT !.fds = @ + 1, !.hw = Larger(@, m.fds + 1), !.opened = @ \cup {n},
                                        !.stack = WithTop([Top EXCEPT !.call = [stage |-> "dopened", node |-> n, path |-> <<>>]])]
             /\ UNCHANGED inp
FilesStat == /\ Stage("dopened")
             /\ IF Kind(Top.call.node) # "dir" THEN Fail("notdir")
                ELSE m' = [m EXCEPT !.stack = WithTop([Top EXCEPT !.call.stage = "statted"])]
             /\ UNCHANGED inp
FilesReaddir == /\ Stage("statted")
                /\ LET d == Top.call.node
                   IN  m' = [m EXCEPT !.fds = @ - 1, !.stack = WithTop(Emitted(<<O("ls", d, ChildNames(d), "")>>))]
                /\ UNCHANGED inp

\* an error ends the Execute of every enclosing template; each level's deferred Close runs
HoldsFile(c) == c.stage \in {"opened", "read", "parsed", "exec", "dopened", "statted"}
HoldsDepth(c) == c.stage \in {"entered", "opened", "read", "parsed", "exec"}
Unwind == /\ m.st = "unwind" /\ Depth >= 1
          /\ m' = [m EXCEPT !.stack = SubSeq(m.stack, 1, Depth - 1),
                            !.fds = @ - (IF HoldsFile(Top.call) THEN 1 ELSE 0),
                            !.depth = @ - (IF HoldsDepth(Top.call) THEN 1 ELSE 0)]
          /\ UNCHANGED inp
\* return http.StatusInternalServerError, err - nothing of the buffer is sent
Abort == /\ m.st = "unwind" /\ Depth = 0
         /\ m' = [m EXCEPT !.st = "done", !.status = 500, !.final = <<>>]
         /\ UNCHANGED inp
Finish == /\ m.st = "run" /\ Depth = 1 /\ AtEnd(Top)
          /\ m' = [m EXCEPT !.st = "done", !.status = 200, !.final = Top.out, !.stack = <<>>]
          /\ UNCHANGED inp

(***************************************************************************)
(* family "doc": markdown front matter (Config.Markdown)                   *)
(***************************************************************************)
DocFms     == {"none", "yaml", "toml", "json", "open", "empty"}
DocTitles  == {"-", "str", "int"}
DocTpls    == {"-", "t1", "nope", "int"}
DocAuthors == {"-", "str", "int", "list"}
DocXs      == {"-", "str", "map"}
Docs == {[fm |-> f, title |-> t, tpl |-> p, author |-> a, x |-> x] :
            f \in {"yaml", "toml", "json", "open"}, t \in DocTitles, p \in DocTpls, a \in DocAuthors, x \in DocXs}
        \cup {[NoDoc EXCEPT !.fm = f] : f \in {"none", "empty"}}

DocChoose == /\ Building("doc") /\ inp.doc = NoDoc /\ m.dst = NoDoc
             /\ \E d \in Docs : inp' = [inp EXCEPT !.doc = d] /\ m' = [m EXCEPT !.st = "split"]
\* metadata.GetParser: TOML (+++), YAML (---), JSON ({...} prefix), None.  A front matter whose closing
\* delimiter is missing ("open") is no front matter: the whole text is markdown.  The JSON parser is
\* asked about every document the first two refuse - also the empty one.
DocSplit == /\ m.st = "split"
            /\ IF inp.doc.fm = "empty" /\ ~EmptyDocGuard THEN m' = [m EXCEPT !.st = "done", !.status = 500, !.err = "panic"]
               ELSE IF inp.doc.fm \in {"yaml", "toml", "json"} THEN m' = [m EXCEPT !.st = "load", !.dst = inp.doc]
               ELSE m' = [m EXCEPT !.st = "load", !.dst = [NoDoc EXCEPT !.fm = inp.doc.fm]]
            /\ UNCHANGED inp
\* Metadata.load: m.Title, _ = title.(string) ; m.Template, _ = template.(string)
DocLoad == /\ m.st = "load"
           /\ m' = [m EXCEPT !.st = "meta",
                             !.dst.title = IF @ = "str" THEN "str" ELSE "-",
                             !.dst.tpl = IF @ \in {"t1", "nope"} THEN @ ELSE "-"]
           /\ UNCHANGED inp
\* "move available and valid front matters to the meta values"
DocMeta == /\ m.st = "meta"
           /\ IF m.dst.author \in {"int", "list"} /\ ~MetaChecked THEN m' = [m EXCEPT !.st = "done", !.status = 500, !.err = "panic"]
              ELSE m' = [m EXCEPT !.st = "exec", !.dst.author = IF @ = "str" THEN "str" ELSE "-"]
           /\ UNCHANGED inp
\* execTemplate: c.Template.ExecuteTemplate(b, templateName, mdData)
DocExec == /\ m.st = "exec"
           /\ IF m.dst.tpl = "nope" THEN m' = [m EXCEPT !.st = "done", !.status = 500, !.err = "notemplate"]
              ELSE m' = [m EXCEPT !.st = "done", !.status = 200]
           /\ UNCHANGED inp

(***************************************************************************)
(* family "index": a directory index page of markdown                      *)
(***************************************************************************)
IdxAlphabet == {"s", "d", ".", "..", ""}
IndexPage == "index.md"
IdxGrow == /\ Building("index") /\ Len(inp.toks) < IdxLen
           /\ \E x \in IdxAlphabet : inp' = [inp EXCEPT !.toks = Append(@, x)]
           /\ UNCHANGED m
\* the request path is "/" + the segments + "/" (IndexFile wants the trailing slash)
IdxBegin == /\ Building("index")
            /\ m' = [m EXCEPT !.st = "ilookup"]
            /\ UNCHANGED inp
\* httpserver.IndexFile(md.FileSys, fpath, cfg.IndexFiles): path.Join(fpath, "index.md") opens
IdxLookup == /\ m.st = "ilookup"
             /\ LET d == Open(inp.toks)
                IN  IF Kind(d) = "dir" /\ Append(d, IndexPage) \in TFiles
                      THEN m' = [m EXCEPT !.st = "ireaddir", !.dir = d]
                      ELSE m' = [m EXCEPT !.st = "done", !.status = 404]     \* not markdown's business: the file server answers
             /\ UNCHANGED inp
\* fdp.Readdir(-1): the entries become Data.Files
IdxReaddir == /\ m.st = "ireaddir"
              /\ m' = [m EXCEPT !.st = "isum", !.pred = SetToSeq(ChildNames(m.dir)), !.opened = @ \cup {m.dir},
                                !.final = <<O("body", <<>>, {}, ""), O("ls", m.dir, ChildNames(m.dir), "")>>]
              /\ UNCHANGED inp
\* {{range .Files}}{{.Summarize n}}: f.ctx.Root.Open(<the entry>) - one entry per step; the template of the
\* fixture skips directories and the index page itself
IdxSummarize == /\ m.st = "isum" /\ m.pred # <<>>
                /\ LET e == Head(m.pred)
                       n == IF SummarizeInDir THEN Append(m.dir, e) ELSE R(<<e>>)
                   IN  IF e = IndexPage \/ Kind(Append(m.dir, e)) = "dir" THEN m' = [m EXCEPT !.pred = Tail(@)]
                       ELSE IF Kind(n) = "none" THEN m' = [m EXCEPT !.st = "done", !.status = 500, !.err = "notexist", !.final = <<>>, !.pred = <<>>]
                       ELSE IF Kind(n) = "dir" THEN m' = [m EXCEPT !.st = "done", !.status = 500, !.err = "isdir", !.final = <<>>, !.pred = <<>>,
                                                                  !.opened = @ \cup {n}]
                       ELSE m' = [m EXCEPT !.pred = Tail(@), !.opened = @ \cup {n}, !.final = Append(@, O("tok", n, {}, ""))]
                /\ UNCHANGED inp
IdxFinish == /\ m.st = "isum" /\ m.pred = <<>>
             /\ m' = [m EXCEPT !.st = "done", !.status = 200]
             /\ UNCHANGED inp

(***************************************************************************)
(* family "call": the input space of the other context functions           *)
(***************************************************************************)
CallFns == {"Truncate", "StripExt", "Ext", "StripHTML", "Map", "RandomString", "Replace", "Split", "Now",
            "Cookie", "Header", "Host", "URI", "PathMatches", "IP"}
CallAlphabet(fn) ==
    CASE fn = "Truncate"     -> {"a", "b", "c"}
      [] fn \in {"StripExt", "Ext"} -> {"a", ".", "/"}
      [] fn = "StripHTML"    -> {"<", ">", "\"", "a", "U2"}          \* U2: a two-byte character
      [] fn = "Map"          -> {"k", "v", "1"}                       \* "1": the integer 1 (not a string)
      [] fn = "RandomString" -> {}
      [] fn \in {"Replace", "Split"} -> {"a", "b", "/"}
      [] fn = "Now"          -> {"2006", "01", "Z07:00", "x", ".000", "MST"}
      [] fn = "Cookie"       -> {"a", "=", ";", " ", "\"", ","}
      [] fn = "Header"       -> {"a", ":", " ", ",", "\"", "U2"}
      [] fn \in {"Host", "IP"} -> {"a", ".", ":", "[", "]", "80"}
      [] fn \in {"URI", "PathMatches"} -> {"/", "a", ".", "%", "?", "{"}
CallNums(fn) ==
    CASE fn = "Truncate"     -> {<<n>> : n \in {-99, -4, -3, -2, -1, 0, 1, 2, 3, 4, 99}}       \* +-99: the extreme ints
      [] fn = "RandomString" -> {<<a, b>> : a \in {-1, 0, 99}, b \in {-1, 0, 1, 3, 99}}
      [] OTHER               -> {<<>>}
CallMax(fn) == IF fn = "Truncate" THEN 3 ELSE IF fn = "RandomString" THEN 0 ELSE CallLen

CallChoose == /\ Building("call") /\ inp.fn = ""
              /\ \E fn \in CallFns : inp' = [inp EXCEPT !.fn = fn]
              /\ UNCHANGED m
CallGrow == /\ Building("call") /\ inp.fn # "" /\ Len(inp.toks) < CallMax(inp.fn)
            /\ \E x \in CallAlphabet(inp.fn) : inp' = [inp EXCEPT !.toks = Append(@, x)]
            /\ UNCHANGED m

\* Truncate as the code computes it (byte arithmetic; the alphabet is ASCII)
TruncateOp(s, n) == IF n < 0 /\ Len(s) + n > 0 THEN SubSeq(s, Len(s) + n + 1, Len(s))
                    ELSE IF n >= 0 /\ Len(s) > n THEN SubSeq(s, 1, n)
                    ELSE s
\* StripExt: scan from the end until a "/" ; cut at the first "." met
RECURSIVE StripExtFrom(_, _)
StripExtFrom(s, i) == IF i = 0 \/ s[i] = "/" THEN s ELSE IF s[i] = "." THEN SubSeq(s, 1, i - 1) ELSE StripExtFrom(s, i - 1)
StripExtOp(s) == StripExtFrom(s, Len(s))
\* path.Ext: the same scan, the other half
RECURSIVE ExtFrom(_, _)
ExtFrom(s, i) == IF i = 0 \/ s[i] = "/" THEN <<>> ELSE IF s[i] = "." THEN SubSeq(s, i, Len(s)) ELSE ExtFrom(s, i - 1)
ExtOp(s) == ExtFrom(s, Len(s))
\* StripHTML: the scanner, one character per step
RECURSIVE StripFrom(_, _, _, _, _, _)
StripFrom(s, i, out, inTag, inQ, start) ==
    IF i > Len(s) THEN (IF inTag THEN out \o SubSeq(s, start, Len(s)) ELSE out)
    ELSE IF inTag THEN
           (IF s[i] = ">" /\ ~inQ THEN StripFrom(s, i + 1, out, FALSE, inQ, start)
            ELSE IF s[i] = "<" /\ ~inQ THEN StripFrom(s, i + 1, out \o SubSeq(s, start, i - 1), TRUE, inQ, i)
            ELSE IF s[i] = "\"" THEN StripFrom(s, i + 1, out, TRUE, ~inQ, start)
            ELSE StripFrom(s, i + 1, out, TRUE, inQ, start))
    ELSE IF s[i] = "<" THEN StripFrom(s, i + 1, out, TRUE, inQ, i)
    ELSE StripFrom(s, i + 1, Append(out, s[i]), FALSE, inQ, start)
StripHTMLOp(s) == StripFrom(s, 1, <<>>, FALSE, FALSE, 1)
\* Map: an even number of arguments, string keys
MapFails(s) == Len(s) % 2 # 0 \/ \E i \in 1..Len(s) : i % 2 = 1 /\ s[i] = "1"
\* RandomString: "" for a bad range; the sum maxLen-minLen+1 overflows / the length is not allocatable
\* with the extreme int (99) -> the call panics, which text/template turns into an error
RandFails(a, b) == a >= 0 /\ b >= a /\ b = 99
RandEmpty(a, b) == a < 0 \/ b < 0 \/ b < a

\* the model's prediction: known = the value is determined; pred = the value (a token sequence);
\* status 500 = the call must end the template with an error
CallEval == /\ Building("call") /\ inp.fn # ""
            /\ \E nm \in CallNums(inp.fn) :
                 LET fn == inp.fn
                     s == inp.toks
                     errs == (fn = "Map" /\ MapFails(s)) \/ (fn = "RandomString" /\ RandFails(nm[1], nm[2]))
                     known == fn \in {"Truncate", "StripExt", "Ext", "StripHTML"} \/ (fn = "RandomString" /\ RandEmpty(nm[1], nm[2]))
                     val == CASE fn = "Truncate" -> TruncateOp(s, nm[1])
                              [] fn = "StripExt" -> StripExtOp(s)
                              [] fn = "Ext" -> ExtOp(s)
                              [] fn = "StripHTML" -> StripHTMLOp(s)
                              [] OTHER -> <<>>
                 IN  /\ inp' = [inp EXCEPT !.num = nm]
                     /\ m' = [m EXCEPT !.st = "done", !.status = IF errs THEN 500 ELSE 200, !.known = known /\ ~errs, !.pred = val]

Terminated == m.st = "done" /\ UNCHANGED vars

Next == \/ AddAction \/ GrowPath \/ Begin
        \/ ExecLit \/ ExecArgs \/ ExecBody
        \/ IncEnter \/ IncOpen \/ IncRead \/ IncParse \/ IncPush \/ IncReturn
        \/ FilesClean \/ FilesOpen \/ FilesStat \/ FilesReaddir
        \/ Unwind \/ Abort \/ Finish
        \/ DocChoose \/ DocSplit \/ DocLoad \/ DocMeta \/ DocExec
        \/ IdxGrow \/ IdxBegin \/ IdxLookup \/ IdxReaddir \/ IdxSummarize \/ IdxFinish
        \/ CallChoose \/ CallGrow \/ CallEval
        \/ Terminated
Spec == Init /\ [][Next]_vars /\ WF_vars(Next)

(***************************************************************************)
(* The guarantees                                                          *)
(***************************************************************************)
\* -- declarative: what a page NAMES.  "Include returns the contents of filename relative to the
\*    site root": the name is read inside the root (".." cannot leave it), so the file a name
\*    denotes is root/Clean(name); an included file is a template and names further files.
Target(S) == R(Clean(S))
NamedFiles(items) == {Target(items[i].path) : i \in {j \in 1..Len(items) : items[j].k \in {"inc", "md"}}} \cap TFiles
NamedAny(items)   == {Target(items[i].path) : i \in {j \in 1..Len(items) : items[j].k \in {"inc", "md", "files"}}}
RECURSIVE ReachFrom(_)
ReachFrom(S) == LET T == S \cup UNION {NamedFiles(Content(n)) : n \in {x \in S : Parses(x)}}
                IN  IF T = S THEN S ELSE ReachFrom(T)
Allowed(items) == ReachFrom(NamedFiles(items))                       \* the files whose bytes may appear
AllowedOpen(items) == NamedAny(items) \cup UNION {NamedAny(Content(n)) : n \in {x \in Allowed(items) : Parses(x)}}
OnCycle(n) == Parses(n) /\ n \in ReachFrom(NamedFiles(Content(n)))
ReachesCycle(items) == \E n \in Allowed(items) : OnCycle(n)

AllOuts == UNION {{m.stack[i].out[j] : j \in 1..Len(m.stack[i].out)} : i \in 1..Len(m.stack)}
           \cup {m.final[j] : j \in 1..Len(m.final)}
TokensOf(os) == {o.node : o \in {x \in os : x.k = "tok"}}

\* every file or directory a template action opens, and every file whose bytes reach any
\* buffer, lies under the site root - whatever the name looks like
IncludeInsideRoot == /\ \A n \in m.opened : InsideRootNode(n)
                     /\ \A n \in TokensOf(AllOuts) : InsideRootNode(n) /\ n \in TFiles
\* ... and is one the page names (directly or through the files it includes)
OpenedIsNamed == inp.fam = "page" => m.opened \subseteq AllowedOpen(inp.items)
\* .Files lists exactly the entries of the directory the cleaned name denotes inside the root
FilesListsOnlyDirEntries ==
    \A o \in {x \in AllOuts : x.k = "ls"} : o.node \in TDirs /\ InsideRootNode(o.node) /\ o.names = ChildNames(o.node)
                                          /\ o.node \in (IF inp.fam = "index" THEN {Target(inp.toks)} ELSE AllowedOpen(inp.items))
\* the body consists of the page's own output: bytes of files that no action named do not appear
RenderedOutputIsTemplateOutput == (inp.fam = "page" /\ m.st = "done") => TokensOf({m.final[j] : j \in 1..Len(m.final)}) \subseteq Allowed(inp.items)
\* a failed render sends nothing of what had been rendered
ErrorDiscardsOutput == (m.st = "done" /\ m.status = 500) => m.final = <<>>
\* nesting is bounded, also for files that include themselves or each other; every level's file is
\* closed again
NestedIncludeBounded == m.depth <= DepthBudget /\ m.fds <= DepthBudget + 1 /\ Len(m.stack) <= DepthBudget + 1
FdsMatchStack == m.fds = Cardinality({i \in 1..Len(m.stack) : HoldsFile(m.stack[i].call)})
                 /\ m.depth = Cardinality({i \in 1..Len(m.stack) : HoldsDepth(m.stack[i].call)})
FdsReleased == m.st = "done" => m.fds = 0 /\ m.depth = 0 /\ m.stack = <<>>
CycleIsError == (inp.fam = "page" /\ m.st = "done" /\ ReachesCycle(inp.items)) => m.status = 500
\* the bound does not get in the way of the fixture's legitimate nesting (n2 -> n1 -> d/g, d/n -> ls)
BoundOnlyHitsCycles == (inp.fam = "page" /\ m.err = "toodeep") => ReachesCycle(inp.items)
StatusTotal == m.st = "done" => m.status \in {200, 500} \/ (inp.fam = "index" /\ m.status = 404)
\* a render, a document, a call: each ends (also a cyclic one)
NestedIncludeTerminates == (m.st \in {"run", "unwind", "split", "load", "meta", "exec", "ilookup", "ireaddir", "isum"}) ~> (m.st = "done")

\* NOT a guarantee (TLC refutes it, cfg TemplateJail_hidden.cfg): the template context reads through a
\* plain http.Dir, the hide list of the static file server is not consulted
HiddenNotReadable == m.opened \cap THidden = {} /\ \A o \in {x \in AllOuts : x.k = "ls"} : "Casketfile" \notin o.names

\* -- documents: a document renders or fails with an error, it never panics
DocNeverPanics == m.err # "panic"
DocOutcome == (inp.fam = "doc" /\ m.st = "done" /\ m.err # "panic") =>
                 /\ m.status = (IF inp.doc.tpl = "nope" /\ inp.doc.fm \in {"yaml", "toml", "json"} THEN 500 ELSE 200)
                 /\ m.dst.author = "str" => inp.doc.author = "str"

\* -- directory index: "Summarize returns an abbreviated string representation of the markdown stored in
\*    this file": what a summary shows is the listed entry, a file of the directory the request names
SummaryIsOfListedFile == inp.fam = "index" =>
                            \A n \in TokensOf({m.final[j] : j \in 1..Len(m.final)}) : n \in Children(m.dir) /\ m.dir = Target(inp.toks)
IndexOutcome == (inp.fam = "index" /\ m.st = "done") =>
                   m.status = (IF Append(Target(inp.toks), IndexPage) \in TFiles THEN 200 ELSE 404)

\* -- calls: the documented behaviour of the modelled functions (ContextFunctionsTotal itself is a
\*    statement about the code; TLC shows here that the MODEL gives every input an outcome)
\* "Truncate truncates the input string to the given length. If length is negative, it returns that many
\*  characters starting from the end of the string. If the absolute value of length is greater than
\*  len(input), the whole input is returned."
TruncateDoc(s, n) == LET k == IF n < 0 THEN -n ELSE n
                     IN  IF k >= Len(s) THEN s ELSE IF n >= 0 THEN SubSeq(s, 1, k) ELSE SubSeq(s, Len(s) - k + 1, Len(s))
IsSubseq(a, b) == \E f \in [1..Len(a) -> 1..Len(b)] : (\A i \in 1..Len(a) : a[i] = b[f[i]]) /\ (\A i, j \in 1..Len(a) : i < j => f[i] < f[j])
CallOracles ==
    (inp.fam = "call" /\ m.st = "done") =>
        LET s == inp.toks IN
        /\ inp.fn = "Truncate" => m.pred = TruncateDoc(s, inp.num[1])
        /\ inp.fn = "StripExt" => m.pred \o ExtOp(s) = s
        /\ inp.fn = "Ext" => StripExtOp(s) \o m.pred = s /\ (m.pred # <<>> => m.pred[1] = "." /\ \A i \in 2..Len(m.pred) : m.pred[i] \notin {".", "/"})
        /\ inp.fn = "StripHTML" => /\ Len(m.pred) <= Len(s)
                                   /\ (\A i \in 1..Len(s) : s[i] # "<") => m.pred = s
                                   /\ (Len(s) <= 4 => IsSubseq(m.pred, s))
CallsTotal == (inp.fam = "call" /\ m.st = "done") => m.status \in {200, 500} /\ (m.known => m.status = 200)

TypeOK == /\ inp.fam \in AllFamilies /\ inp.via \in BothVias
          /\ m.st \in {"build", "run", "unwind", "done", "split", "load", "meta", "exec", "ilookup", "ireaddir", "isum"}
          /\ m.status \in {0, 200, 404, 500} /\ m.fds \in Nat /\ m.depth \in Nat
          /\ Len(inp.items) <= 2

\* ---- case emission --------------------------------------------------------------------
TreeCase(x) == PrintT(<<"CASE", ToJson([t |-> "tree",
                   files |-> SetToSeq({[node |-> n, items |-> Content(n), parses |-> Parses(n)] : n \in TFiles}),
                   dirs |-> SetToSeq(TDirs), hidden |-> SetToSeq(THidden)])>>)
PageCase(x) == PrintT(<<"CASE", ToJson([t |-> "page", via |-> inp.via, items |-> inp.items, st |-> m.status, err |-> m.err,
                   out |-> m.final, opened |-> SetToSeq(m.opened), hw |-> m.hw,
                   allowed |-> SetToSeq(Allowed(inp.items)), cyc |-> ReachesCycle(inp.items),
                   lsdirs |-> SetToSeq({[node |-> d, names |-> ChildNames(d)] : d \in {y \in AllowedOpen(inp.items) \cap TDirs : InsideRootNode(y)}})])>>)
DocCase(x)  == PrintT(<<"CASE", ToJson([t |-> "doc", doc |-> inp.doc, st |-> m.status, err |-> m.err, dst |-> m.dst])>>)
IndexCase(x) == PrintT(<<"CASE", ToJson([t |-> "index", toks |-> inp.toks, st |-> m.status, err |-> m.err, out |-> m.final,
                   opened |-> SetToSeq(m.opened),
                   allowed |-> SetToSeq(IF m.dir = <<>> THEN {} ELSE Children(m.dir) \cap TFiles),
                   lsdirs |-> SetToSeq(IF m.dir = <<>> THEN {} ELSE {[node |-> m.dir, names |-> ChildNames(m.dir)]})])>>)
CallCase(x) == PrintT(<<"CASE", ToJson([t |-> "call", fn |-> inp.fn, toks |-> inp.toks, num |-> inp.num, st |-> m.status,
                   known |-> m.known, pred |-> m.pred])>>)
Emit == /\ (m.st = "build" /\ inp = Inp("page")) => TreeCase(inp)
        /\ (m.st = "done" /\ inp.fam = "page") => PageCase(inp)
        /\ (m.st = "done" /\ inp.fam = "doc") => DocCase(inp)
        /\ (m.st = "done" /\ inp.fam = "call") => CallCase(inp)
        /\ (m.st = "done" /\ inp.fam = "index") => IndexCase(inp)
=============================================================================
