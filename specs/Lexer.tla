------------------------------- MODULE Lexer -------------------------------
(***************************************************************************)
(* C10 (part 1) - the Casketfile lexer, casketfile/lexer.go.               *)
(*                                                                         *)
(* The lexer IS a state machine; this module is that machine, one action   *)
(* per branch of the loop body of lexer.next, driven on-line: the state    *)
(* after reading a prefix is a function of the prefix, so the reachable    *)
(* state graph is the tree of all input strings over the class alphabet    *)
(* up to length N and TLC's workers share the enumeration.                 *)
(*                                                                         *)
(* Character classes (one letter each, concretised by the harness):        *)
(*   s  blank inside a line (space, tab, NBSP ...: unicode.IsSpace)        *)
(*   n  line feed          r  carriage return                              *)
(*   q  double quote       b  backslash        h  '#'                      *)
(*   a  an ordinary character (letter, multi-byte rune, comma ...)         *)
(*   c  a second ordinary character ('{' '}': braces mean nothing here)    *)
(* Token texts are strings over the same letters.                          *)
(*                                                                         *)
(* The locals of next() (val, comment, quoted, escaped) are re-initialised *)
(* by every call; Return(...) models "return makeToken()" + the next call. *)
(* Ghost variables (nls, startNl, chars) are written by no lexer branch    *)
(* and only serve the declarative properties.                              *)
(***************************************************************************)
EXTENDS Naturals, Sequences, TLC, Json

CONSTANT N          \* maximal length of the input (in characters)

Classes == {"s", "n", "r", "q", "b", "h", "a", "c"}
Space   == {"s", "n", "r"}

VARIABLES pc,        \* "load" | "lex" | "done"
          chars,     \* ghost: input read so far, as a sequence of classes
          val,       \* text of the token being collected (string over class letters)
          comment, quoted, escaped,   \* the three flags of next()
          line,      \* lexer.line
          tokLine,   \* lexer.token.Line
          toks,      \* tokens returned so far: sequence of [t |-> text, l |-> line]
          nls,       \* ghost: number of line feeds read so far
          startNl    \* ghost: line feeds read before the first character of the current token
vars == <<pc, chars, val, comment, quoted, escaped, line, tokLine, toks, nls, startNl>>

Init ==
    /\ pc = "load" /\ chars = <<>> /\ val = "" /\ comment = FALSE /\ quoted = FALSE
    /\ escaped = FALSE /\ line = 1 /\ tokLine = 0 /\ toks = <<>> /\ nls = 0 /\ startNl = 0

\* lexer.load: a leading byte order mark is read and not put back; anything else is unread.
\* Both branches reach the same state - that IS the specification of the BOM
\* (the harness feeds every input with and without U+FEFF in front).
Load(bom) ==
    /\ pc = "load"
    /\ pc' = "lex"
    /\ UNCHANGED <<chars, val, comment, quoted, escaped, line, tokLine, toks, nls, startNl>>

\* "return makeToken()" followed by the re-initialisation of the locals on the next call
Return(text, ln) ==
    /\ toks' = Append(toks, [t |-> text, l |-> ln])
    /\ val' = "" /\ comment' = FALSE /\ quoted' = FALSE /\ escaped' = FALSE

Read(c) ==      \* ghost bookkeeping common to every ReadRune that delivers a character
    /\ pc = "lex" /\ Len(chars) < N
    /\ chars' = Append(chars, c)
    /\ nls' = IF c = "n" THEN nls + 1 ELSE nls
    /\ pc' = pc

\* ---- if quoted { ... } --------------------------------------------------------------
QuotedBackslash ==          \* !escaped && ch == '\\'
    /\ quoted /\ ~escaped /\ Read("b")
    /\ escaped' = TRUE
    /\ UNCHANGED <<val, comment, quoted, line, tokLine, toks, startNl>>

QuotedClose ==              \* !escaped && ch == '"'  -> token ends (possibly empty text)
    /\ quoted /\ ~escaped /\ Read("q")
    /\ Return(val, tokLine)
    /\ UNCHANGED <<line, tokLine, startNl>>

QuotedChar(c) ==            \* everything else inside quotes, line feeds are counted and kept
    /\ quoted /\ (escaped \/ c \notin {"b", "q"}) /\ Read(c)
    /\ line' = IF c = "n" THEN line + 1 ELSE line
    /\ val' = (IF escaped /\ c # "q" THEN val \o "b" ELSE val) \o c     \* only \" is an escape
    /\ escaped' = FALSE
    /\ UNCHANGED <<comment, quoted, tokLine, toks, startNl>>

\* ---- if unicode.IsSpace(ch) { ... } --------------------------------------------------
SpaceCR ==                  \* '\r' is dropped before anything else is looked at
    /\ ~quoted /\ Read("r")
    /\ UNCHANGED <<val, comment, quoted, escaped, line, tokLine, toks, startNl>>

SpaceOrLF(c) ==
    /\ ~quoted /\ c \in {"s", "n"} /\ Read(c)
    /\ line' = IF c = "n" THEN line + 1 ELSE line
    /\ IF val # ""
         THEN Return(val, tokLine)
         ELSE /\ comment' = (IF c = "n" THEN FALSE ELSE comment)
              /\ UNCHANGED <<val, quoted, escaped, toks>>
    /\ UNCHANGED <<tokLine, startNl>>

\* ---- if ch == '#' { comment = true }; if comment { continue } ------------------------
CommentChar(c) ==           \* '#' anywhere outside quotes (also in the middle of a word)
    /\ ~quoted /\ c \notin Space /\ (c = "h" \/ comment) /\ Read(c)
    /\ comment' = TRUE
    /\ UNCHANGED <<val, quoted, escaped, line, tokLine, toks, startNl>>

\* ---- if len(val) == 0 { token = Token{Line}; if ch == '"' { quoted = true } } ; append
StartQuoted ==
    /\ ~quoted /\ ~comment /\ val = "" /\ Read("q")
    /\ tokLine' = line /\ startNl' = nls
    /\ quoted' = TRUE
    /\ UNCHANGED <<val, comment, escaped, line, toks>>

WordChar(c) ==
    /\ ~quoted /\ ~comment /\ c \in {"q", "b", "a", "c"} /\ ~(val = "" /\ c = "q") /\ Read(c)
    /\ IF val = "" THEN tokLine' = line /\ startNl' = nls ELSE UNCHANGED <<tokLine, startNl>>
    /\ val' = val \o c
    /\ UNCHANGED <<comment, quoted, escaped, line, toks>>

\* ---- ReadRune returns io.EOF -----------------------------------------------------------
Eof ==
    /\ pc = "lex"
    /\ pc' = "done"
    /\ IF val # "" THEN Return(val, tokLine) ELSE UNCHANGED <<val, comment, quoted, escaped, toks>>
    /\ UNCHANGED <<chars, line, tokLine, nls, startNl>>

Next == \/ \E b \in BOOLEAN : Load(b)
        \/ QuotedBackslash \/ QuotedClose \/ (\E c \in Classes : QuotedChar(c))
        \/ SpaceCR \/ (\E c \in Classes : SpaceOrLF(c))
        \/ (\E c \in Classes : CommentChar(c))
        \/ StartQuoted \/ (\E c \in Classes : WordChar(c))
        \/ Eof
Spec == Init /\ [][Next]_vars /\ WF_vars(Next)

\* ============================ declarative properties =================================
\* Exactly one branch handles each character: the machine is total and deterministic on
\* every (state, character) pair - no input can make it stop early or stick.
EnabledCount(c) ==
    (IF quoted /\ ~escaped /\ c = "b" THEN 1 ELSE 0) + (IF quoted /\ ~escaped /\ c = "q" THEN 1 ELSE 0)
  + (IF quoted /\ (escaped \/ c \notin {"b", "q"}) THEN 1 ELSE 0)
  + (IF ~quoted /\ c = "r" THEN 1 ELSE 0) + (IF ~quoted /\ c \in {"s", "n"} THEN 1 ELSE 0)
  + (IF ~quoted /\ c \notin Space /\ (c = "h" \/ comment) THEN 1 ELSE 0)
  + (IF ~quoted /\ ~comment /\ val = "" /\ c = "q" THEN 1 ELSE 0)
  + (IF ~quoted /\ ~comment /\ c \in {"q", "b", "a", "c"} /\ ~(val = "" /\ c = "q") THEN 1 ELSE 0)
Total == pc = "lex" => \A c \in Classes : EnabledCount(c) = 1

\* every line feed is counted exactly once, wherever it stands (in a word gap, in a comment,
\* inside quotes, after a backslash)
LineIsOnePlusLineFeeds == line = 1 + nls

\* a token carries the line of its first character (the opening quote for quoted tokens)
InToken == val # "" \/ quoted
TokenLine == InToken => tokLine = 1 + startNl

\* at most one token per character read; a token never starts later than the input ends
TokenBound == Len(toks) <= Len(chars) /\ \A k \in 1..Len(toks) : toks[k].l \in 1..(1 + nls)
LinesMonotone == \A k \in 1..Len(toks) : k > 1 => toks[k - 1].l <= toks[k].l

\* the flags are what the prefix says they are
FlagsConsistent == (escaped => quoted) /\ ~(comment /\ quoted) /\ (pc = "done" => val = "")

\* plain inputs (no quote, backslash or '#', and no CR which the lexer deletes inside words):
\* the tokens are the maximal runs of non-blank characters
RECURSIVE Split(_, _, _)
Split(s, i, cur) ==
    IF i > Len(s) THEN (IF cur = "" THEN <<>> ELSE <<cur>>)
    ELSE IF s[i] \in {"s", "n"} THEN (IF cur = "" THEN <<>> ELSE <<cur>>) \o Split(s, i + 1, "")
    ELSE Split(s, i + 1, cur \o s[i])
IsPlain == \A i \in 1..Len(chars) : chars[i] \in {"s", "n", "a", "c"}
PlainSplit == (pc = "done" /\ IsPlain) => [k \in 1..Len(toks) |-> toks[k].t] = Split(chars, 1, "")

\* termination: the run on an input of length n takes load + n reads + eof and then stops
Terminates == <>(pc = "done")

\* ============================ case emission ========================================
RECURSIVE Str(_, _)
Str(s, i) == IF i > Len(s) THEN "" ELSE s[i] \o Str(s, i + 1)
Emit == pc = "done" =>
          PrintT(<<"CASE", ToJson([i |-> Str(chars, 1),
                                   t |-> [k \in 1..Len(toks) |-> toks[k].t],
                                   l |-> [k \in 1..Len(toks) |-> toks[k].l]])>>)
=============================================================================
