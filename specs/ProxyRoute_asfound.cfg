\* the design as found (negative control, not run by ./check): TLC refutes SchemelessIsHTTP (`proxy / httpd:8080`) and
\* TargetIsBasePlusStrippedPath (/%61/x%2Fy under `without /a`); every other invariant holds
CONSTANT Spaces = {"route", "target", "query", "pool"}
CONSTANT RouteSegs = {"a", "A", "b", "x", "..", "%2F", "%61", "", ";p"}
CONSTANT RouteMax = 2
CONSTANT RouteSegs3 = {}
CONSTANT RouteFroms = {"/", "/a", "/a/b", "/A"}
CONSTANT RouteExcepts = {"none", "/x", "/a/x"}
CONSTANT RouteExcepts1 = {"/b /x"}
CONSTANT Route3 = FALSE
CONSTANT TargetSegs = {"a", "A", "b", "..", "%2F", "%61", "", "a%20b", "%3B"}
CONSTANT TargetMax = 2
CONSTANT TargetSegs3 = {}
CONSTANT WithoutRaw = "bytes"
CONSTANT SchemeTest = "prefix"
SPECIFICATION Spec
INVARIANT TypeOK
INVARIANT RuleChoiceIsLongestMatch
INVARIANT FromPrefixIsSegmentWise
INVARIANT ChoiceIsOrderIndependent
INVARIANT ExceptMeansNotProxied
INVARIANT TargetIsBasePlusStrippedPath
INVARIANT QueryIsBaseThenRequest
INVARIANT NoPathEscape
INVARIANT PoolIsToThenUpstream
INVARIANT SchemelessIsHTTP
INVARIANT RefusedOnlyForCause
CHECK_DEADLOCK FALSE
