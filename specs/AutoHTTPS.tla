----------------------------- MODULE AutoHTTPS -----------------------------
(***************************************************************************)
(* C15 - automatic HTTPS is applied exactly to qualifying sites, with      *)
(* redirects.                                                              *)
(*                                                                         *)
(* Operational part: one action per stage the code runs between reading    *)
(* the site addresses and answering a request on a synthesised site:       *)
(*   ParseAddr(k)     httpContext.InspectServerBlocks / standardizeAddress *)
(*                    (scheme<->port conventions, rejection, duplicates)   *)
(*   TLSDirective(k)  caskettls.setupTLS (the flags a tls variant sets)    *)
(*   MarkQualified    markQualifiedForAutoHTTPS + QualifiesForManagedTLS   *)
(*   Enable           enableAutoHTTPS (TLS on, scheme https, port S)       *)
(*   RedirStep        one iteration of the loop of makePlaintextRedirects, *)
(*                    reading the list that grows while it is iterated     *)
(*   MakeServers      plugin.go MakeServers: TLS off for explicitly-HTTP   *)
(*                    sites, scheme/port fill-in, grouping by listener,    *)
(*                    TLS/plaintext mix rejected (caskettls.MakeTLSConfig) *)
(*   Serve            one request on a listener of the HTTP port: vhost    *)
(*                    routing (HostMatch) and the redirect middleware      *)
(* Declarative part: the clauses of the property statement as invariants.  *)
(*                                                                         *)
(* "The HTTP port" and "the HTTPS port" are the symbols H and S            *)
(* (certmagic.HTTPPort / HTTPSPort).  With moved = FALSE they are 80/443;  *)
(* with moved = TRUE they are other numbers and the literal ports "80" and *)
(* "443" are ordinary ports - except that QualifiesForManagedTLS compares  *)
(* with the literal "80".                                                  *)
(***************************************************************************)
EXTENDS Naturals, Sequences, FiniteSets, TLC, Json, HostMatch

CONSTANT Tier       \* "quick" | "thorough" : size of the alphabets

H == "H"            \* the HTTP port
S == "S"            \* the HTTPS port
Dflt == "dflt"      \* httpserver.Port (2015), what a port-less site finally listens on

\* ---- host classes --------------------------------------------------------
HostTab ==
     ("a.site.org"     :> [lab |-> <<"a","site","org">>,        kind |-> "dns"])
  @@ ("b.site.org"     :> [lab |-> <<"b","site","org">>,        kind |-> "dns"])
  @@ ("*.site.org"     :> [lab |-> <<"*","site","org">>,        kind |-> "wild"])
  @@ ("*.org"          :> [lab |-> <<"*","org">>,               kind |-> "badwild"])
  @@ (""               :> [lab |-> <<"">>,                      kind |-> "empty"])
  @@ ("93.184.216.34"  :> [lab |-> <<"93","184","216","34">>,   kind |-> "ip4"])
  @@ ("10.1.2.3"       :> [lab |-> <<"10","1","2","3">>,        kind |-> "ip4priv"])
  @@ ("127.0.0.1"      :> [lab |-> <<"127","0","0","1">>,       kind |-> "ip4loop"])
  @@ ("2001:db8::1"    :> [lab |-> <<"2001:db8::1">>,           kind |-> "ip6"])
  @@ ("fd00::1"        :> [lab |-> <<"fd00::1">>,               kind |-> "ip6priv"])
  @@ ("::1"            :> [lab |-> <<"::1">>,                   kind |-> "ip6loop"])
  @@ ("localhost"      :> [lab |-> <<"localhost">>,             kind |-> "localhost"])
  @@ ("x.localhost"    :> [lab |-> <<"x","localhost">>,         kind |-> "sublocalhost"])
  @@ ("x.local"        :> [lab |-> <<"x","local">>,             kind |-> "local"])
  @@ ("x.test"         :> [lab |-> <<"x","test">>,              kind |-> "test"])
  @@ ("x.example"      :> [lab |-> <<"x","example">>,           kind |-> "example"])
  @@ ("x.invalid"      :> [lab |-> <<"x","invalid">>,           kind |-> "invalid"])
  @@ ("x.home.arpa"    :> [lab |-> <<"x","home","arpa">>,       kind |-> "homearpa"])
AllHosts == DOMAIN HostTab
Kind(h) == IF h = "" THEN "empty" ELSE HostTab[h].kind
Lab(h)  == HostTab[h].lab

IPKinds == {"ip4", "ip4priv", "ip4loop", "ip6", "ip6priv", "ip6loop"}

\* code-shaped predicates (casket.IsLoopback, casket.IsInternal,
\* certmagic.SubjectQualifiesForPublicCert) on the host classes
IsLoopback(h) == Kind(h) \in {"localhost", "sublocalhost", "ip4loop", "ip6loop"}
IsInternal(h) == Kind(h) \in {"ip4priv", "ip6priv", "example", "invalid", "test", "local"}
SubjectQualifies(h) ==
    /\ Kind(h) # "empty"
    /\ Kind(h) \notin {"localhost", "sublocalhost", "local", "homearpa"}
    /\ Kind(h) \notin IPKinds
    /\ Kind(h) # "badwild"

\* the statement's wording: a DNS name that can receive a public certificate
PublicDNSName(h) == Kind(h) \in {"dns", "wild"}
\* not loopback, not private (what remains of the host condition for on-demand TLS,
\* whose names are only known at handshake time; also applied to the bind host)
Reachable(h) == Kind(h) \notin {"localhost", "sublocalhost", "ip4loop", "ip6loop",
                                "ip4priv", "ip6priv", "example", "invalid", "test", "local"}

\* ---- tls directive variants: the flags setupTLS leaves behind -----------
TlsTab ==
     ("absent"     :> [en |-> FALSE, mn |-> FALSE, ss |-> FALSE, nr |-> FALSE, od |-> FALSE, em |-> ""])
  @@ ("off"        :> [en |-> FALSE, mn |-> FALSE, ss |-> FALSE, nr |-> FALSE, od |-> FALSE, em |-> "off"])
  @@ ("email"      :> [en |-> TRUE,  mn |-> FALSE, ss |-> FALSE, nr |-> FALSE, od |-> FALSE, em |-> "addr"])
  @@ ("selfsigned" :> [en |-> TRUE,  mn |-> FALSE, ss |-> TRUE,  nr |-> FALSE, od |-> FALSE, em |-> "self_signed"])
  @@ ("manual"     :> [en |-> TRUE,  mn |-> TRUE,  ss |-> FALSE, nr |-> FALSE, od |-> FALSE, em |-> ""])
  @@ ("load"       :> [en |-> TRUE,  mn |-> TRUE,  ss |-> FALSE, nr |-> FALSE, od |-> FALSE, em |-> ""])
  @@ ("ondemand"   :> [en |-> TRUE,  mn |-> FALSE, ss |-> FALSE, nr |-> FALSE, od |-> TRUE,  em |-> ""])
  @@ ("manualod"   :> [en |-> TRUE,  mn |-> TRUE,  ss |-> FALSE, nr |-> FALSE, od |-> TRUE,  em |-> ""])
  @@ ("noredir"    :> [en |-> TRUE,  mn |-> FALSE, ss |-> FALSE, nr |-> TRUE,  od |-> FALSE, em |-> ""])
AllTls == DOMAIN TlsTab
OnDemandTls == {"ondemand", "manualod"}

\* ---- alphabets per tier ---------------------------------------------------
Schemes == {"", "http", "https"}
PortsOf(m) == IF m THEN {"", H, S, "8080", "80", "443"} ELSE {"", H, S, "8080"}
Modes == {FALSE, TRUE}

SingleHosts == AllHosts \ {"b.site.org"}
SingleBinds == IF Tier = "quick" THEN {"", "127.0.0.1", "10.1.2.3"} ELSE {"", "127.0.0.1", "10.1.2.3", "93.184.216.34"}
PairHosts   == {"a.site.org", "*.site.org", "", "x.test"}
PairTls     == IF Tier = "quick" THEN {"absent", "off", "email", "selfsigned", "noredir"}
               ELSE {"absent", "off", "email", "selfsigned", "manual", "ondemand", "noredir"}
PairPaths   == IF Tier = "quick" THEN {""} ELSE {"", "/p"}
CrossPairs  == { <<"a.site.org", "b.site.org">>, <<"a.site.org", "*.site.org">>, <<"*.site.org", "a.site.org">>,
                 <<"a.site.org", "">>, <<"", "a.site.org">> }
CrossTls    == IF Tier = "quick" THEN {"absent", "off", "selfsigned"} ELSE {"absent", "off", "email", "selfsigned", "noredir"}

\* three sites of one host (thorough tier): the list grows while makePlaintextRedirects iterates it
TripleSchemes == {"", "http"}
TripleTls     == {"absent", "selfsigned", "noredir"}

\* a site with an empty host is written ":port" (no scheme)
WellFormed(d) == d.host = "" => (d.scheme = "" /\ d.port # "")
Sites(hosts, ports, paths, tlss, binds) ==
    {d \in [scheme : Schemes, host : hosts, port : ports, path : paths, tls : tlss, bind : binds] : WellFormed(d)}

TripleSites == {d \in Sites({"a.site.org"}, PortsOf(FALSE), {""}, TripleTls, {""}) : d.scheme \in TripleSchemes}

VARIABLES
    moved,      \* are H and S different from 80 and 443
    role,       \* "single" | "pair" | "cross" | "triple": how the configuration is completed
    decl,       \* the declared sites (sequence), as written in the Casketfile
    pc, k,      \* stage and loop index
    cfgs,       \* the list of site configurations (httpContext.siteConfigs)
    err,        \* "" | "convention" | "dup" | "nonames" | "mix"
    hist,       \* snapshots of cfgs after each stage (what the binding compares)
    resp        \* the response of the Serve action
vars == <<moved, role, decl, pc, k, cfgs, err, hist, resp>>

Lit80 == IF moved THEN "80" ELSE H

NoResp == [b |-> "", rh |-> "", pt |-> "", by |-> 0, kind |-> "none", status |-> 0, lscheme |-> "", lhost |-> "", tp |-> "", luri |-> ""]
NoHist == [dir |-> <<>>, mark |-> <<>>, enable |-> <<>>, redir |-> <<>>, final |-> <<>>]

Init ==
    /\ moved \in Modes
    /\ \/ /\ role = "single"
          /\ \E d \in (IF moved THEN Sites(SingleHosts, PortsOf(TRUE), {""}, AllTls, {""})
                               ELSE Sites(SingleHosts, PortsOf(FALSE), {"", "/p"}, AllTls, SingleBinds)) : decl = <<d>>
       \/ /\ role = "pair" /\ ~moved
          /\ \E d \in Sites(PairHosts, PortsOf(FALSE), PairPaths, PairTls, {""}) : decl = <<d>>
       \/ /\ role = "cross" /\ ~moved
          /\ \E d \in Sites({p[1] : p \in CrossPairs}, PortsOf(FALSE), {""}, CrossTls, {""}) : decl = <<d>>
       \/ /\ role = "triple" /\ ~moved /\ Tier = "thorough"
          /\ \E d \in TripleSites : decl = <<d>>
    /\ pc = "declare" /\ k = 1 /\ cfgs = <<>> /\ err = "" /\ hist = NoHist /\ resp = NoResp

\* complete the configuration: a second site (declaration order matters)
Declare ==
    /\ pc = "declare"
    /\ \/ role = "single" /\ UNCHANGED decl
       \/ /\ role = "pair"
          /\ \E d \in Sites({decl[1].host}, PortsOf(FALSE), PairPaths, PairTls, {""}) :
                d # decl[1] /\ decl' = <<decl[1], d>>
       \/ /\ role = "cross"
          /\ \E p \in CrossPairs : /\ p[1] = decl[1].host
                                   /\ \E d \in Sites({p[2]}, PortsOf(FALSE), {""}, CrossTls, {""}) : decl' = <<decl[1], d>>
       \/ /\ role = "triple"
          /\ \E d2, d3 \in TripleSites : Cardinality({decl[1], d2, d3}) = 3 /\ decl' = <<decl[1], d2, d3>>
    /\ pc' = "parse"
    /\ UNCHANGED <<moved, role, k, cfgs, err, hist, resp>>

\* ---- ParseAddr: standardizeAddress + duplicate detection -------------------
StdPort(d) == IF d.port # "" THEN d.port
              ELSE IF d.scheme = "http" THEN H ELSE IF d.scheme = "https" THEN S ELSE ""
Violates(d) == (d.scheme = "http" /\ StdPort(d) = S) \/ (d.scheme = "https" /\ StdPort(d) = H)
StdScheme(d) == IF d.scheme # "" THEN d.scheme
                ELSE IF StdPort(d) = H THEN "http" ELSE IF StdPort(d) = S THEN "https" ELSE ""
\* Address.String() of the address with the default port filled in, as a tuple
AddrId(c) == << IF c.scheme = "" THEN "http" ELSE c.scheme, c.host, IF c.port = "" THEN Dflt ELSE c.port, c.path >>

NewCfg(d) == [scheme |-> StdScheme(d), host |-> d.host, port |-> StdPort(d), path |-> d.path, bind |-> "",
              en |-> FALSE, mg |-> FALSE, mn |-> FALSE, ss |-> FALSE, nr |-> FALSE, od |-> FALSE, em |-> "",
              syn |-> FALSE, tgt |-> ""]

ParseAddr ==
    /\ pc = "parse"
    /\ IF k > Len(decl)
         THEN /\ pc' = "tls" /\ k' = 1 /\ UNCHANGED <<cfgs, err>>
         ELSE LET d == decl[k] c == NewCfg(d) IN
              IF Violates(d)
                THEN /\ err' = "convention" /\ pc' = "failed" /\ UNCHANGED <<cfgs, k>>
              ELSE IF \E j \in 1..Len(cfgs) : AddrId(cfgs[j]) = AddrId(c)
                THEN /\ err' = "dup" /\ pc' = "failed" /\ UNCHANGED <<cfgs, k>>
              ELSE /\ cfgs' = Append(cfgs, c) /\ k' = k + 1 /\ UNCHANGED <<pc, err>>
    /\ UNCHANGED <<moved, role, decl, hist, resp>>

\* ---- TLSDirective: bind (runs before tls) and the tls directive of site k ---
TLSDirective ==
    /\ pc = "tls"
    /\ IF k > Len(decl)
         THEN /\ pc' = "mark" /\ hist' = [hist EXCEPT !.dir = cfgs] /\ UNCHANGED <<cfgs, k, err>>
         ELSE LET t == TlsTab[decl[k].tls] IN
              IF t.ss /\ decl[k].host = ""        \* a self-signed certificate needs a name: setup fails
                THEN /\ err' = "nonames" /\ pc' = "failed" /\ UNCHANGED <<cfgs, k, hist>>
              ELSE /\ cfgs' = [cfgs EXCEPT ![k] = [@ EXCEPT !.bind = decl[k].bind, !.en = t.en, !.mn = t.mn, !.ss = t.ss,
                                                            !.nr = t.nr, !.od = t.od, !.em = t.em]]
                   /\ k' = k + 1 /\ UNCHANGED <<pc, hist, err>>
    /\ UNCHANGED <<moved, role, decl, resp>>

\* ---- MarkQualified -------------------------------------------------------------
\* caskettls.QualifiesForManagedTLS
QualifiesForManagedTLS(c) ==
    /\ (~c.mn \/ c.od)
    /\ ~c.ss
    /\ c.port # Lit80
    /\ c.em # "off"
    /\ (SubjectQualifies(c.host) \/ c.od)
\* the condition of markQualifiedForAutoHTTPS
MarkCond(c) ==
    /\ ~IsLoopback(c.host) /\ ~IsLoopback(c.bind)
    /\ ~IsInternal(c.host) /\ ~IsInternal(c.bind)
    /\ QualifiesForManagedTLS(c)
    /\ c.scheme # "http"
MarkQualified ==
    /\ pc = "mark"
    /\ cfgs' = [j \in 1..Len(cfgs) |-> IF MarkCond(cfgs[j]) THEN [cfgs[j] EXCEPT !.mg = TRUE] ELSE cfgs[j]]
    /\ hist' = [hist EXCEPT !.mark = cfgs']
    /\ pc' = "enable"
    /\ UNCHANGED <<moved, role, decl, k, err, resp>>

\* ---- Enable: enableAutoHTTPS(cfgs, false) ---------------------------------------
EnableOne(c) ==
    IF ~c.mg \/ c.od THEN c
    ELSE [c EXCEPT !.en = TRUE, !.scheme = "https",
                   !.port = IF c.port = "" /\ (~c.mn \/ c.od) /\ c.host # "localhost" THEN S ELSE c.port]
Enable ==
    /\ pc = "enable"
    /\ cfgs' = [j \in 1..Len(cfgs) |-> EnableOne(cfgs[j])]
    /\ hist' = [hist EXCEPT !.enable = cfgs']
    /\ pc' = "redir" /\ k' = 1
    /\ UNCHANGED <<moved, role, decl, err, resp>>

\* ---- RedirStep: one iteration of makePlaintextRedirects --------------------------
\* hostHasOtherPort on the list as it is NOW (it grows while the loop runs)
HasOtherPort(cs, i, p) == \E j \in 1..Len(cs) : j # i /\ cs[j].host = cs[i].host /\ cs[j].port = p
\* redirPlaintextHost: a plaintext site on the HTTP port; tgt is the port the closure
\* puts into Location ("" = none, when the site is on the HTTPS port)
RedirFor(c) == [scheme |-> "", host |-> c.host, port |-> H, path |-> "", bind |-> c.bind,
                en |-> FALSE, mg |-> FALSE, mn |-> FALSE, ss |-> FALSE, nr |-> FALSE, od |-> c.od, em |-> "",
                syn |-> TRUE, tgt |-> IF c.port = S THEN "" ELSE c.port]
RedirCond(cs, i) ==
    /\ cs[i].en
    /\ ~cs[i].nr
    /\ cs[i].scheme # "http" /\ cs[i].port # H       \* repaired: an explicitly-HTTP site is never a redirect target
    /\ ~HasOtherPort(cs, i, H)
    /\ (cs[i].port = S \/ ~HasOtherPort(cs, i, S))
RedirStep ==
    /\ pc = "redir"
    /\ IF k > Len(decl)          \* the range expression was evaluated once: only declared sites are visited
         THEN /\ pc' = "servers" /\ hist' = [hist EXCEPT !.redir = cfgs] /\ UNCHANGED <<cfgs, k>>
         ELSE /\ cfgs' = IF RedirCond(cfgs, k) THEN Append(cfgs, RedirFor(cfgs[k])) ELSE cfgs
              /\ k' = k + 1 /\ UNCHANGED <<pc, hist>>
    /\ UNCHANGED <<moved, role, decl, err, resp>>

\* ---- MakeServers -------------------------------------------------------------------
ServersOne(c) ==
    IF ~c.en THEN [c EXCEPT !.port = IF c.port = "" THEN Dflt ELSE c.port]
    ELSE LET plain == c.port = H \/ c.scheme = "http"
             p1 == IF c.port = "" /\ ((~c.mn /\ ~c.ss) \/ c.od) THEN S ELSE c.port
         IN [c EXCEPT !.en = ~plain,
                      !.scheme = IF ~plain /\ c.scheme = "" THEN "https" ELSE c.scheme,
                      !.port = IF p1 = "" THEN Dflt ELSE p1]
\* caskettls.MakeTLSConfig per listener group: TLS and plaintext cannot share a listener
Mixed(cs) == \E i, j \in 1..Len(cs) : cs[i].bind = cs[j].bind /\ cs[i].port = cs[j].port /\ cs[i].en # cs[j].en
MakeServers ==
    /\ pc = "servers"
    /\ LET fin == [j \in 1..Len(cfgs) |-> ServersOne(cfgs[j])] IN
       IF Mixed(fin)
         THEN /\ err' = "mix" /\ pc' = "failed" /\ UNCHANGED <<cfgs, hist>>
         ELSE /\ cfgs' = fin /\ hist' = [hist EXCEPT !.final = fin] /\ pc' = "ready" /\ UNCHANGED err
    /\ UNCHANGED <<moved, role, decl, k, resp>>

\* ---- Serve: one request on a listener of the HTTP port ------------------------------
ReqTab == ("a.site.org" :> <<"a","site","org">>) @@ ("b.site.org" :> <<"b","site","org">>)
       @@ ("zzz.org" :> <<"zzz","org">>)
       @@ [h \in (AllHosts \ {"a.site.org", "b.site.org", "*.site.org", "*.org", ""}) |-> HostTab[h].lab]
PathTokens == {"root", "deep"}       \* "/..." outside /p ; "/p/..." below /p
MaxOf(X) == CHOOSE x \in X : \A y \in X : y <= x

Listeners(cs) == {cs[j].bind : j \in {i \in 1..Len(cs) : cs[i].port = H}}
Group(cs, b) == {j \in 1..Len(cs) : cs[j].bind = b /\ cs[j].port = H}
\* request hosts worth asking on listener b: those some site of the group matches, and a stranger
Relevant(cs, b) == {"zzz.org"} \cup {rh \in DOMAIN ReqTab : \E j \in Group(cs, b) : Matches(Lab(cs[j].host), ReqTab[rh])}

\* vhostTrie: a later insertion under the same (host, path) replaces the earlier one
Entry(cs, G, lab, path) ==
    LET X == {j \in G : Lab(cs[j].host) = lab /\ cs[j].path = path} IN IF X = {} THEN 0 ELSE MaxOf(X)
Route(cs, b, rh, pt) ==
    LET G  == Group(cs, b)
        P  == {Lab(cs[j].host) : j \in G}
        m  == MostSpecific(P, ReqTab[rh])
        bh == IF m # NoHost THEN m ELSE IF <<"">> \in P THEN <<"">> ELSE NoHost
        deep == IF pt = "deep" THEN Entry(cs, G, bh, "/p") ELSE 0
    IN  IF bh = NoHost THEN 0 ELSE IF deep # 0 THEN deep ELSE Entry(cs, G, bh, "")
Respond(cs, b, rh, pt) ==
    LET j == Route(cs, b, rh, pt) IN
    LET red == j # 0 /\ cs[j].syn IN
    [b |-> b, rh |-> rh, pt |-> pt, by |-> j,
     kind |-> IF j = 0 THEN "none" ELSE IF red THEN "redirect" ELSE "site",
     \* the redirect middleware: 301, Location = lscheme://lhost[:tp]luri
     status  |-> IF red THEN 301 ELSE 0,
     lscheme |-> IF red THEN "https" ELSE "",
     lhost   |-> IF red THEN "request-host-without-port" ELSE "",
     tp      |-> IF red THEN cs[j].tgt ELSE "",
     luri    |-> IF red THEN "request-uri" ELSE ""]
RespTable(cs) == {Respond(cs, b, rh, pt) : b \in Listeners(cs), rh \in DOMAIN ReqTab, pt \in PathTokens}
RespTableRel(cs) == UNION {{Respond(cs, b, rh, pt) : rh \in Relevant(cs, b), pt \in PathTokens} : b \in Listeners(cs)}

Serve ==
    /\ pc = "ready"
    /\ \E q \in RespTableRel(cfgs) : resp' = q
    /\ pc' = "served"
    /\ UNCHANGED <<moved, role, decl, k, cfgs, err, hist>>

Next == Declare \/ ParseAddr \/ TLSDirective \/ MarkQualified \/ Enable \/ RedirStep \/ MakeServers \/ Serve
Spec == Init /\ [][Next]_vars

\* =========================== the property ===========================================
N == Len(decl)
Declared == 1..N
AfterMark   == {"enable", "redir", "servers", "ready", "served"}
AfterEnable == {"redir", "servers", "ready", "served"}
Final       == {"ready", "served"}

\* A site qualifies (statement): host is a DNS name that can get a public certificate, not
\* declared with http:// or on port 80 / the HTTP port, tls not off / manual / self-signed.
\* Made explicit beyond the wording: on-demand TLS learns its names at handshake time, so
\* there the host (possibly empty or an IP) only has to be reachable and a manual certificate
\* does not disqualify; the bind host must be reachable too.
QualifiesDecl(d) ==
    /\ IF d.tls \in OnDemandTls THEN Reachable(d.host) ELSE PublicDNSName(d.host)
    /\ Reachable(d.bind)
    /\ d.scheme # "http"
    /\ d.port \notin {H, Lit80}
    /\ d.tls \notin {"off", "selfsigned", "manual", "load"}

ManagedIffQualifies ==
    pc \in AfterMark => \A j \in Declared : cfgs[j].mg <=> QualifiesDecl(decl[j])

\* managed (not on-demand) sites are served over TLS, as https, on the HTTPS port unless a port was given
ManagedGetsHTTPS ==
    pc \in AfterEnable => \A j \in Declared : (cfgs[j].mg /\ ~cfgs[j].od) =>
        /\ cfgs[j].en /\ cfgs[j].scheme = "https"
        /\ (decl[j].port = "" => cfgs[j].port = S)
        /\ (decl[j].port # "" => cfgs[j].port = decl[j].port)
\* and only the tls directive or qualification ever turns TLS on
TLSOnlyWhenAsked ==
    pc \in AfterEnable => \A j \in Declared : cfgs[j].en => (cfgs[j].mg \/ TlsTab[decl[j].tls].en)

\* sites declared as plain HTTP never have TLS enabled (nor are they managed)
PlainNeverTLS ==
    pc \in Final => \A j \in 1..Len(cfgs) :
        (cfgs[j].scheme = "http" \/ cfgs[j].port = H) => (~cfgs[j].en /\ ~cfgs[j].mg)

HTTPSSites(h) == {j \in Declared : cfgs[j].host = h /\ cfgs[j].en}
Synth(h) == {j \in 1..Len(cfgs) : cfgs[j].syn /\ cfgs[j].host = h}
PlainOnH(h) == \E j \in Declared : cfgs[j].host = h /\ cfgs[j].port = H
\* a site of the host that occupies the HTTPS port without TLS (tls off on :443); the code lets
\* sites on other ports defer to "the site on the HTTPS port" without looking at its TLS flag.
\* Deviation recorded, not judged (a contradictory declaration the statement does not discuss).
PlainOnS(h) == \E j \in Declared : cfgs[j].host = h /\ cfgs[j].port = S /\ ~cfgs[j].en
TargetPort(s) == IF s.tgt = "" THEN S ELSE s.tgt

\* every HTTPS site without a plaintext site of its own on the HTTP port gets (exactly one)
\* synthesised redirect site for its host - unless no_redirect was asked for on that host -
\* and nothing else is synthesised
RedirectExists ==
    pc \in Final => \A h \in {cfgs[j].host : j \in 1..Len(cfgs)} :
        /\ Cardinality(Synth(h)) <= 1
        /\ (HTTPSSites(h) # {} /\ ~PlainOnH(h) /\ ~PlainOnS(h) /\ ~\E j \in HTTPSSites(h) : cfgs[j].nr) => Cardinality(Synth(h)) = 1
        /\ Synth(h) # {} => (\E j \in HTTPSSites(h) : ~cfgs[j].nr) /\ ~PlainOnH(h)
        /\ \A s \in Synth(h) : /\ cfgs[s].port = H /\ ~cfgs[s].en /\ cfgs[s].path = ""
                               /\ cfgs[s].bind \in {cfgs[j].bind : j \in HTTPSSites(h)}

\* the redirect leads to an HTTPS site of that host (which one, when there are several, is the
\* implementation's choice: the operational model prefers the one on the HTTPS port);
\* it never leads to the HTTP port nor to a site that is served in plaintext.
\* Deviation recorded, not judged: a manual / self-signed site declared WITHOUT a port finally
\* listens on the default port (Dflt) while its redirect names no port at all (= S).
RedirectTarget ==
    pc \in Final => \A s \in {j \in 1..Len(cfgs) : cfgs[j].syn} :
        LET h == cfgs[s].host tp == TargetPort(cfgs[s]) IN
        \E j \in HTTPSSites(h) : cfgs[j].port = tp \/ (cfgs[j].port = Dflt /\ tp = S)
NoRedirectToHTTP ==
    pc \in Final => \A s \in {j \in 1..Len(cfgs) : cfgs[j].syn} :
        /\ TargetPort(cfgs[s]) # H
        /\ \A j \in Declared : (cfgs[j].host = cfgs[s].host /\ cfgs[j].port = TargetPort(cfgs[s])) => cfgs[j].en
\* a declared site is never shadowed by a synthesised one on its listener
NoShadow ==
    pc \in Final => \A s \in {j \in 1..Len(cfgs) : cfgs[j].syn} : \A j \in Declared :
        ~(cfgs[j].host = cfgs[s].host /\ cfgs[j].port = H /\ cfgs[j].bind = cfgs[s].bind)

\* what a request gets: the redirect site of the most specific host answers EVERY path with
\* 301 to https://<request host>[:port unless it is the HTTPS port]<same uri>  (the harness
\* builds Location from these fields); declared plaintext sites keep answering themselves.
RedirectShape ==
    pc = "served" =>
        /\ resp.kind = "redirect" =>
              /\ cfgs[resp.by].syn
              /\ (Matches(Lab(cfgs[resp.by].host), ReqTab[resp.rh]) \/ cfgs[resp.by].host = "")
              /\ resp.status = 301 /\ resp.lscheme = "https"
              /\ resp.lhost = "request-host-without-port" /\ resp.luri = "request-uri"
              /\ resp.tp # H
              /\ (resp.tp = "") = (TargetPort(cfgs[resp.by]) = S)       \* port omitted iff it is the HTTPS port
        /\ resp.kind = "site" => ~cfgs[resp.by].syn /\ ~cfgs[resp.by].en
\* a host that has HTTPS sites, no plaintext site and no opt-out: every request for it on the
\* HTTP port of its listener is redirected, whatever the path
EveryRequestRedirected ==
    pc = "served" => \A j \in Declared :
        (/\ cfgs[j].en /\ ~cfgs[j].nr /\ ~PlainOnH(cfgs[j].host)
         /\ cfgs[j].host = resp.rh /\ resp.b \in {cfgs[s].bind : s \in Synth(cfgs[j].host)}) => resp.kind = "redirect"

\* ---- emission: one CASE per configuration -------------------------------------------------
Flags(c) == <<c.scheme, c.host, c.port, c.path, c.bind, c.en, c.mg, c.mn, c.ss, c.nr, c.od, c.em, c.syn, c.tgt>>
Brief(c) == <<c.scheme, c.port, c.en>>
CaseRec ==
    [moved |-> moved, decl |-> decl, err |-> err,
     dir    |-> [j \in 1..Len(hist.dir) |-> Flags(hist.dir[j])],
     mark   |-> [j \in 1..Len(hist.mark) |-> hist.mark[j].mg],
     enable |-> [j \in 1..Len(hist.enable) |-> Brief(hist.enable[j])],
     redir  |-> [j \in 1..(Len(hist.redir) - Len(hist.enable)) |-> Flags(hist.redir[Len(hist.enable) + j])],
     final  |-> [j \in 1..Len(hist.final) |-> Brief(hist.final[j])],
     resp   |-> IF pc = "ready" THEN {<<q.b, q.rh, q.pt, q.by, q.kind, q.tp>> : q \in RespTableRel(cfgs)} ELSE {}]
Emit == pc \in {"ready", "failed"} => PrintT(<<"CASE", ToJson(CaseRec)>>)
=============================================================================
