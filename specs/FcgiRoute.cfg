SPECIFICATION Spec
INVARIANT ExistingScriptNeverStatic
INVARIANT SplitAtSplitString
INVARIANT NoSplitAllInfo
INVARIANT Emit
PROPERTY Terminates
CHECK_DEADLOCK FALSE
