CONSTANTS MaxOps = 2
 MaxLive = 2
 CfgNames = {"none", "sn", "mix"}
 MaxSigs = 1
 EarlyRestart = TRUE
SPECIFICATION Spec
INVARIANTS TypeOK EachHookOncePerEmission FailedLoadKeepsRegistry RegistryExplained Usr1LeavesOnlyNew LoadAddsOwnHooks InstanceStartupExact RestartEventScope ShutdownAtMostOnce
CHECK_DEADLOCK FALSE
