------------------------------ MODULE WsBridge ------------------------------
(***************************************************************************)
(* The `websocket` directive of casket (caskethttp/websocket/websocket.go): *)
(* a request whose path lies under a configured path is upgraded to a      *)
(* websocket connection and bridged to a freshly spawned command -         *)
(* messages of the client go to the command's stdin, what the command      *)
(* writes to stdout goes back as frames, cut according to `type`           *)
(* (lines | text | binary) and `bufsize`.                                  *)
(*                                                                         *)
(* One exchange = one client connection.  One action per step of the code: *)
(*   WebSocket.ServeHTTP   SrvMatch (one loop iteration), SrvNext          *)
(*   serveWS               SrvUpgrade (gorilla's Upgrader: the checks, the *)
(*                         101 answer or the error answer), SrvPipes       *)
(*                         (exec.Command, StdoutPipe, StdinPipe),          *)
(*                         SrvEnvBase / SrvEnvHeader (buildEnv: the fixed  *)
(*                         list, then one header per iteration of the map  *)
(*                         range), SrvStart (cmd.Start, go pumpStdout,     *)
(*                         pumpStdin), SrvCloseStdin, SrvSignal (SIGINT),  *)
(*                         the wait for the process (see FixKill),         *)
(*                         SrvTimer (the 1 s grace is over: SIGKILL),      *)
(*                         SrvDefers (the deferred closes), return         *)
(*   pumpStdin             InRead (ReadMessage; gorilla echoes a close     *)
(*                         frame), InWrite (stdin.Write, "\n" appended     *)
(*                         under `lines`), InClose (deferred conn.Close)   *)
(*   pumpStdout            OutBegin (go pinger), lines: OutScan (one pass  *)
(*                         of bufio.Scanner.Scan: token / final token /    *)
(*                         ErrTooLong / read more), OutEmitLine            *)
(*                         (bytes.TrimSpace, WriteMessage); text, binary:  *)
(*                         OutRead (bufio.Reader.Read into a buffer of     *)
(*                         bufsize bytes behind the held-back bytes),      *)
(*                         OutEmit (findIncompleteRuneLength, hold back,   *)
(*                         WriteMessage); OutCloseFrame (close 1001 with   *)
(*                         the read error's text), OutConnClose, OutDone   *)
(*                         (close(done)), PingExit                         *)
(* Environment: the client (ClientRequest, ClientSend, ClientClose = close *)
(* frame, ClientDrop = FIN / RST, ClientRecv) and the command (ChildWrite, *)
(* ChildCloseOut, ChildExit, and its reactions ChildRead, ChildEof,        *)
(* ChildInt, ChildKilled), ServerStop.                                     *)
(*                                                                         *)
(* Bytes are tokens kind*100 + position-in-its-stream; the kind decides    *)
(* how the byte is treated (ordinary, "\n", " ", "\r", lead byte of a      *)
(* three-byte rune, continuation byte, 0xFF).                              *)
(*                                                                         *)
(* Guarantees (declarative, below the actions): OneProcessPerConnection,   *)
(* NonUpgradeUntouched, EnvExact, BytesExactIn, BytesExactOut,             *)
(* NothingLostAtExit, CloseCodeTellsOutcome, SignalOrder, AlwaysReaped,    *)
(* ReadHasRoom and the temporal ones Terminates / NoOrphanAfterStop.   *)
(*                                                                         *)
(* Design switches (TRUE = the code as repaired):                          *)
(*   FixKill     the process is killed after the grace also when its       *)
(*               stdout pump has already ended (as found: `select` on the  *)
(*               pump's `done` channel only - a command that ignores       *)
(*               SIGINT and has closed stdout is waited for for ever)      *)
(*   FixTextBuf  under `text` the buffer is never smaller than utf8.UTFMax *)
(*               (as found: with bufsize 1..3 a held-back incomplete rune  *)
(*               fills the buffer, Read of an empty slice returns at once  *)
(*               and the pump sends empty frames for ever)                 *)
(***************************************************************************)
EXTENDS Integers, Sequences, FiniteSets, TLC, Json, PathMatch

CONSTANTS
    Types,      \* subset of {"lines", "text", "binary"}
    Bufs,       \* bufsize values (bytes); 0 = not set
    Modes,      \* how the command reacts: "dflt" dies of SIGINT; "eofx" leaves at the end of stdin;
                \* "ign" ignores SIGINT (and the end of stdin); "ignx" ignores SIGINT, leaves at the end of stdin
    Scopes,     \* "req" = every request shape, no traffic; "bridge" = one request shape, traffic
    MaxM, MaxW, \* messages of the client / writes of the command per exchange
    MaxOps,     \* environment steps per script (sync grain)
    Rich,       \* larger menus of messages and writes
    WithStop,   \* ServerStop is among the environment steps
    FixKill, FixTextBuf

K_ORD == 0  K_NL == 1  K_SP == 2  K_CR == 3  K_LEAD == 4  K_CONT == 5  K_BAD == 6
Kind(t) == t \div 100
Mk(piece, base) == [i \in 1..Len(piece) |-> piece[i] * 100 + base + i]
Ascii(t) == Kind(t) \in {K_ORD, K_NL, K_SP, K_CR}
White(t) == Kind(t) \in {K_SP, K_CR, K_NL}

MinOf(a, b) == IF a <= b THEN a ELSE b
IsPrefixOf(a, b) == Len(a) <= Len(b) /\ \A i \in 1..Len(a) : a[i] = b[i]
RECURSIVE Flat(_)
Flat(ss) == IF ss = <<>> THEN <<>> ELSE Head(ss) \o Flat(Tail(ss))
First(s, n) == SubSeq(s, 1, n)
After(s, n) == SubSeq(s, n + 1, Len(s))

(* ---- configuration -------------------------------------------------------- *)
UTFMax == 4
DefaultBuf == 90                     \* stands for 2048 (text, binary) / 64 KiB (lines): larger than every stream here
BufEff(t, b) == IF b = 0 THEN DefaultBuf
                ELSE IF t = "text" /\ FixTextBuf /\ b < UTFMax THEN UTFMax ELSE b
Ign(m)  == m \in {"ign", "ignx"}
EofX(m) == m \in {"eofx", "ignx"}

\* the site: websocket /d CMD-A ; websocket /d/g CMD-B   (the first matching entry wins)
Socks == << Rooted(<<"d">>), Rooted(<<"d", "g">>) >>
ReqPathOf(p) == CASE p = "in" -> Rooted(<<"d", "g">>) [] p = "glued" -> Rooted(<<"dx">>)
                  [] p = "case" -> Rooted(<<"D", "g">>) [] p = "other" -> Rooted(<<"nx">>)
AllReqKinds == {"ws", "wsmixed", "plain", "post", "badver", "nokey", "noconn"}
AllReqPaths == {"in", "glued", "case", "other"}
HostForms   == {"name", "nameport", "v6port"}
HdrSets     == {{}, {"X-Token"}, {"Proxy", "X-Multi"}, {"X-Dash-Name", "X-Token", "Proxy"}}

\* gorilla's Upgrader.Upgrade, the checks in their order
Verdict(k) == CASE k \in {"plain", "noconn"} -> 400     \* no `upgrade` token in Connection
                [] k = "post"   -> 405                  \* method is not GET
                [] k = "badver" -> 400                  \* Sec-WebSocket-Version is not 13
                [] k = "nokey"  -> 400                  \* no valid Sec-WebSocket-Key
                [] OTHER        -> 101

\* the headers net/http hands to the handler for each request kind (Host is not among them)
KindHdrs(k) == CASE k = "ws"      -> {"Upgrade", "Connection", "Sec-Websocket-Key", "Sec-Websocket-Version"}
                 [] k = "wsmixed" -> {"Upgrade", "Connection", "Sec-Websocket-Key", "Sec-Websocket-Version"}
                 [] k = "plain"   -> {}
                 [] k = "post"    -> {"Upgrade", "Connection", "Sec-Websocket-Key", "Sec-Websocket-Version", "Content-Length"}
                 [] k = "badver"  -> {"Upgrade", "Connection", "Sec-Websocket-Key", "Sec-Websocket-Version"}
                 [] k = "nokey"   -> {"Upgrade", "Connection", "Sec-Websocket-Version"}
                 [] k = "noconn"  -> {"Upgrade", "Sec-Websocket-Key", "Sec-Websocket-Version"}

\* buildEnv: "HTTP_" + upper case, "-" -> "_"
EnvName(h) == CASE h = "Upgrade" -> "HTTP_UPGRADE" [] h = "Connection" -> "HTTP_CONNECTION"
                [] h = "Sec-Websocket-Key" -> "HTTP_SEC_WEBSOCKET_KEY" [] h = "Sec-Websocket-Version" -> "HTTP_SEC_WEBSOCKET_VERSION"
                [] h = "Origin" -> "HTTP_ORIGIN" [] h = "Content-Length" -> "HTTP_CONTENT_LENGTH"
                [] h = "X-Token" -> "HTTP_X_TOKEN" [] h = "Proxy" -> "HTTP_PROXY"
                [] h = "X-Multi" -> "HTTP_X_MULTI" [] h = "X-Dash-Name" -> "HTTP_X_DASH_NAME"
\* the value: the header's values joined with ", " (symbol "$h:<name>", resolved by the harness)
EnvVal(h) == "$h:" \o h

\* the fixed part of buildEnv, in its order; values are symbols the harness resolves against the request it sent
BaseEnv(hostform) ==
    << <<"AUTH_TYPE", "">>, <<"CONTENT_LENGTH", "">>, <<"CONTENT_TYPE", "">>, <<"GATEWAY_INTERFACE", "$gateway">>,
       <<"PATH_INFO", "">>, <<"PATH_TRANSLATED", "">>, <<"QUERY_STRING", "$query">>, <<"REMOTE_ADDR", "$peerhost">>,
       <<"REMOTE_HOST", "$peerhost">>, <<"REMOTE_IDENT", "">>, <<"REMOTE_PORT", "$peerport">>, <<"REMOTE_USER", "">>,
       <<"REQUEST_METHOD", "$method">>, <<"REQUEST_URI", "$uri">>, <<"SCRIPT_NAME", "$cmdpath">>,
       <<"SERVER_NAME", "$hostname">>,
       <<"SERVER_PORT", IF hostform = "name" THEN "" ELSE "$hostport">>,
       <<"SERVER_PROTOCOL", "$proto">>, <<"SERVER_SOFTWARE", "$software">> >>
SeqToSet(s) == {s[i] : i \in 1..Len(s)}

(* ---- framing rules (as the code computes them) ---------------------------- *)
HasNL(s) == \E i \in 1..Len(s) : Kind(s[i]) = K_NL
FirstNL(s) == CHOOSE i \in 1..Len(s) : Kind(s[i]) = K_NL /\ \A j \in 1..(i - 1) : Kind(s[j]) # K_NL
\* bufio.ScanLines: dropCR removes one trailing "\r"
DropCR(s) == IF s # <<>> /\ Kind(s[Len(s)]) = K_CR THEN First(s, Len(s) - 1) ELSE s
\* bytes.TrimSpace
RECURSIVE TrimL(_)
TrimL(s) == IF s # <<>> /\ White(s[1]) THEN TrimL(Tail(s)) ELSE s
RECURSIVE TrimR(_)
TrimR(s) == IF s # <<>> /\ White(s[Len(s)]) THEN TrimR(First(s, Len(s) - 1)) ELSE s
TrimWS(s) == TrimR(TrimL(s))

\* findIncompleteRuneLength(p, len(p)) for the byte kinds of this model (one multi-byte form: 3 bytes)
FindInc(p) ==
    LET n == Len(p) IN
    IF n = 0 THEN 0
    ELSE IF Ascii(p[n]) THEN 0
    ELSE LET lowest == IF n - UTFMax < 0 THEN 1 ELSE n - UTFMax + 1
             starts == {i \in lowest..n : Kind(p[i]) = K_LEAD}
         IN  IF starts = {} THEN 0
             ELSE LET st == CHOOSE i \in starts : \A j \in starts : j <= i     \* the loop runs backwards
                  IN  IF n - st + 1 >= 3 THEN 0 ELSE n - st + 1

VARIABLES
    scope, ty, bs, mode, cmdok,                         \* configuration of the exchange
    rk, rpath, rhost, rhdrs,                            \* the request as the client sent it
    pc, idx, sel, rst, fwd, mutated, stopped,           \* WebSocket.ServeHTTP / serveWS
    cenv, todo,                                         \* buildEnv
    ch, chenv, chGot, chEof, chSigs, chOut, pendInt, pendKill, spawns, leaving,   \* the command
    sinW, sinHist, soutR, sout, outHist,                \* the two pipes
    pin, inmsg,                                         \* pumpStdin
    pout, obuf, oeof, chunk, remain, oerr, ping,        \* pumpStdout, pinger
    conn, c2s, s2c,                                     \* the connection (server's end, frames on their way)
    cst, csent, cgot, cclose, ceof, chead,              \* the client
    done, wg, timer,                                    \* close(done), the waiting goroutine (FixKill), the grace
    dirty, nw, hist, nops                               \* history

cfgv == <<scope, ty, bs, mode, cmdok>>
reqv == <<rk, rpath, rhost, rhdrs>>
srvv == <<pc, idx, sel, rst, fwd, mutated>>
envv == <<cenv, todo>>
chv  == <<ch, chenv, chGot, chEof, chSigs, chOut, pendInt, pendKill, spawns, leaving>>
pipv == <<sinW, sinHist, soutR, sout, outHist>>
inv  == <<pin, inmsg>>
outv == <<pout, obuf, oeof, chunk, remain, oerr, ping>>
conv == <<conn, c2s, s2c>>
cliv == <<cst, csent, cgot, cclose, ceof, chead>>
synv == <<done, wg, timer>>
hisv == <<hist, nops>>
vars == <<cfgv, reqv, srvv, stopped, envv, chv, pipv, inv, outv, conv, cliv, synv, dirty, nw, hisv>>

NoClose == [code |-> 0, why |-> ""]
NoFwd == [k |-> "none", path |-> "none", host |-> "none", hdrs |-> {}]
Frame(k, p, code, why) == [k |-> k, p |-> p, code |-> code, why |-> why]
HeadTok(st) == Frame("head", <<>>, st, "")
FinTok == Frame("fin", <<>>, 0, "")

InitRest ==
    /\ rk = "none" /\ rpath = "none" /\ rhost = "none" /\ rhdrs = {}
    /\ pc = "idle" /\ idx = 1 /\ sel = 0 /\ rst = -1 /\ fwd = NoFwd /\ mutated = FALSE /\ stopped = FALSE
    /\ cenv = {} /\ todo = {}
    /\ ch = "none" /\ chenv = {} /\ chGot = <<>> /\ chEof = FALSE /\ chSigs = <<>> /\ chOut = FALSE
    /\ pendInt = FALSE /\ pendKill = FALSE /\ spawns = 0 /\ leaving = FALSE
    /\ sinW = FALSE /\ sinHist = <<>> /\ soutR = FALSE /\ sout = <<>> /\ outHist = <<>>
    /\ pin = "off" /\ inmsg = <<>>
    /\ pout = "off" /\ obuf = <<>> /\ oeof = FALSE /\ chunk = <<>> /\ remain = <<>> /\ oerr = "" /\ ping = "off"
    /\ conn = "http" /\ c2s = <<>> /\ s2c = <<>>
    /\ cst = "new" /\ csent = <<>> /\ cgot = <<>> /\ cclose = NoClose /\ ceof = FALSE /\ chead = 0
    /\ done = FALSE /\ wg = "off" /\ timer = "off"
    /\ dirty = FALSE /\ nw = 0 /\ hist = <<>> /\ nops = 0

\* the same values for the next state (a new exchange begins: used by the trace specification)
ResetRest ==
    /\ rk' = "none" /\ rpath' = "none" /\ rhost' = "none" /\ rhdrs' = {}
    /\ pc' = "idle" /\ idx' = 1 /\ sel' = 0 /\ rst' = -1 /\ fwd' = NoFwd /\ mutated' = FALSE /\ stopped' = FALSE
    /\ cenv' = {} /\ todo' = {}
    /\ ch' = "none" /\ chenv' = {} /\ chGot' = <<>> /\ chEof' = FALSE /\ chSigs' = <<>> /\ chOut' = FALSE
    /\ pendInt' = FALSE /\ pendKill' = FALSE /\ spawns' = 0 /\ leaving' = FALSE
    /\ sinW' = FALSE /\ sinHist' = <<>> /\ soutR' = FALSE /\ sout' = <<>> /\ outHist' = <<>>
    /\ pin' = "off" /\ inmsg' = <<>>
    /\ pout' = "off" /\ obuf' = <<>> /\ oeof' = FALSE /\ chunk' = <<>> /\ remain' = <<>> /\ oerr' = "" /\ ping' = "off"
    /\ conn' = "http" /\ c2s' = <<>> /\ s2c' = <<>>
    /\ cst' = "new" /\ csent' = <<>> /\ cgot' = <<>> /\ cclose' = NoClose /\ ceof' = FALSE /\ chead' = 0
    /\ done' = FALSE /\ wg' = "off" /\ timer' = "off"
    /\ dirty' = FALSE /\ nw' = 0 /\ hist' = <<>> /\ nops' = 0

Init ==
    /\ scope \in Scopes /\ ty \in Types /\ bs \in Bufs /\ mode \in Modes
    /\ cmdok \in (IF scope = "req" THEN {TRUE, FALSE} ELSE {TRUE})
    /\ (scope = "req" => mode = "dflt" /\ ty = "lines" /\ \A b \in Bufs : bs <= b)
    /\ (bs = 0 => mode = "dflt")         \* the default buffer is explored with one kind of command only
    /\ InitRest

(* ======================= the client ======================================== *)
ClientRequest(k, p, h, hs) ==
    /\ cst = "new" /\ ~stopped
    /\ (scope = "bridge" => k = "ws" /\ p = "in" /\ h = "name" /\ hs = {})
    /\ rk' = k /\ rpath' = p /\ rhost' = h /\ rhdrs' = hs \cup KindHdrs(k)
    /\ cst' = "open" /\ pc' = "match" /\ idx' = 1
    /\ UNCHANGED <<cfgv, sel, rst, fwd, mutated, stopped, envv, chv, pipv, inv, outv, conv, csent, cgot, cclose, ceof, chead, synv, dirty, nw>>

\* a message of the client (a text or a binary frame: pumpStdin does not look at the opcode)
ClientSend(m) ==
    /\ scope = "bridge" /\ cst = "open" /\ chead = 101 /\ Len(csent) < MaxM
    /\ LET toks == Mk(m, Len(Flat(csent))) IN
       /\ csent' = Append(csent, toks)
       /\ c2s' = IF conn = "open" THEN Append(c2s, Frame("msg", toks, 0, "")) ELSE c2s
    /\ UNCHANGED <<cfgv, reqv, srvv, stopped, envv, chv, pipv, inv, outv, conn, s2c, cst, cgot, cclose, ceof, chead, synv, dirty, nw>>

\* a close frame (code 1000); the client then waits for the server to close
ClientClose ==
    /\ scope = "bridge" /\ cst = "open" /\ chead = 101
    /\ cst' = "closing"
    /\ c2s' = IF conn = "open" THEN Append(c2s, Frame("close", <<>>, 1000, "")) ELSE c2s
    /\ UNCHANGED <<cfgv, reqv, srvv, stopped, envv, chv, pipv, inv, outv, conn, s2c, csent, cgot, cclose, ceof, chead, synv, dirty, nw>>

\* the TCP connection ends without a close frame: FIN or RST
ClientDrop(how) ==
    /\ cst \in {"open", "closing"} /\ chead = 101 /\ how \in {"fin", "rst"}
    /\ cst' = "gone"
    /\ c2s' = IF conn = "open" THEN Append(c2s, Frame(how, <<>>, 0, "")) ELSE c2s
    /\ UNCHANGED <<cfgv, reqv, srvv, stopped, envv, chv, pipv, inv, outv, conn, s2c, csent, cgot, cclose, ceof, chead, synv, dirty, nw>>

\* the client reads what has arrived (after it has gone, what arrives is discarded)
ClientRecv ==
    /\ s2c # <<>> /\ cst # "new"
    /\ s2c' = Tail(s2c)
    /\ LET f == Head(s2c) IN
       IF cst = "gone" THEN UNCHANGED <<cgot, cclose, ceof, chead>>
       ELSE /\ chead' = IF f.k = "head" THEN f.code ELSE chead
            /\ cgot' = IF f.k \in {"text", "bin"} THEN Append(cgot, [k |-> f.k, p |-> f.p]) ELSE cgot
            /\ cclose' = IF f.k = "close" THEN [code |-> f.code, why |-> f.why] ELSE cclose
            /\ ceof' = (ceof \/ f.k = "fin")
    /\ UNCHANGED <<cfgv, reqv, srvv, stopped, envv, chv, pipv, inv, outv, conn, c2s, cst, csent, synv, dirty, nw>>
    /\ UNCHANGED hisv

(* ======================= WebSocket.ServeHTTP / serveWS ====================== *)
\* for _, sockConfig := range ws.Sockets { if Path(r.URL.Path).Matches(sockConfig.Path) { return serveWS(...) } }
SrvMatch ==
    /\ pc = "match"
    /\ IF idx > Len(Socks) THEN pc' = "next" /\ UNCHANGED <<idx, sel>>
       ELSE IF Matches(ReqPathOf(rpath), Socks[idx]) THEN pc' = "upgrade" /\ sel' = idx /\ UNCHANGED idx
       ELSE idx' = idx + 1 /\ UNCHANGED <<pc, sel>>
    /\ UNCHANGED <<cfgv, reqv, rst, fwd, mutated, stopped, envv, chv, pipv, inv, outv, conv, cliv, synv, dirty, nw>>
    /\ UNCHANGED hisv

\* return ws.Next.ServeHTTP(w, r): the request goes on as it came
SrvNext ==
    /\ pc = "next"
    /\ fwd' = [k |-> rk, path |-> rpath, host |-> rhost, hdrs |-> rhdrs]
    /\ s2c' = Append(s2c, HeadTok(200))
    /\ pc' = "returned" /\ rst' = 0
    /\ UNCHANGED <<cfgv, reqv, idx, sel, mutated, stopped, envv, chv, pipv, inv, outv, conn, c2s, cliv, synv, dirty, nw>>
    /\ UNCHANGED hisv

\* u.Upgrade(w, r, nil): either the error answer (the connection stays an ordinary one, serveWS
\* returns 0 and the error) or the hijack and the 101 answer.  (CheckOrigin accepts every Origin:
\* what a handshake from another origin gets is recorded by the harness, not judged - the requests
\* of the model carry no Origin.)
SrvUpgrade ==
    /\ pc = "upgrade"
    /\ LET v == Verdict(rk) IN
       /\ s2c' = Append(s2c, HeadTok(v))
       /\ IF v = 101 THEN pc' = "pipes" /\ conn' = "open" /\ UNCHANGED rst
          ELSE pc' = "returned" /\ rst' = 0 /\ UNCHANGED conn
    /\ UNCHANGED <<cfgv, reqv, idx, sel, fwd, mutated, stopped, envv, chv, pipv, inv, outv, c2s, cliv, synv, dirty, nw>>
    /\ UNCHANGED hisv

\* exec.Command, cmd.StdoutPipe(), cmd.StdinPipe()
SrvPipes ==
    /\ pc = "pipes"
    /\ soutR' = TRUE /\ sinW' = TRUE /\ pc' = "env"
    /\ UNCHANGED <<cfgv, reqv, idx, sel, rst, fwd, mutated, stopped, envv, chv, sinHist, sout, outHist, inv, outv, conv, cliv, synv, dirty, nw>>
    /\ UNCHANGED hisv

\* buildEnv: r.RemoteAddr / r.Host get a ":" appended when they have none (the request is changed
\* in place), then the fixed list
SrvEnvBase ==
    /\ pc = "env"
    /\ mutated' = (rhost = "name")
    /\ cenv' = SeqToSet(BaseEnv(rhost)) /\ todo' = rhdrs
    /\ pc' = "envhdr"
    /\ UNCHANGED <<cfgv, reqv, idx, sel, rst, fwd, stopped, chv, pipv, inv, outv, conv, cliv, synv, dirty, nw>>
    /\ UNCHANGED hisv

\* for header, values := range r.Header  (a map: any order)
SrvEnvHeader(h) ==
    /\ pc = "envhdr" /\ h \in todo
    /\ cenv' = cenv \cup {<<EnvName(h), EnvVal(h)>>} /\ todo' = todo \ {h}
    /\ UNCHANGED <<cfgv, reqv, srvv, stopped, chv, pipv, inv, outv, conv, cliv, synv, dirty, nw>>
    /\ UNCHANGED hisv

\* cmd.Env = metavars; cmd.Start(); go pumpStdout(...); pumpStdin(...)
\* A command that cannot be started: Start closes the pipes, serveWS returns 502 (after the 101).
SrvStart ==
    /\ pc = "envhdr" /\ todo = {}
    /\ IF cmdok
       THEN /\ ch' = "run" /\ chenv' = cenv /\ chOut' = TRUE /\ spawns' = spawns + 1
            /\ pc' = "pump" /\ pin' = "read" /\ pout' = "begin"
            /\ UNCHANGED <<rst, sinW, soutR>>
       ELSE /\ sinW' = FALSE /\ soutR' = FALSE /\ pc' = "defers" /\ rst' = 502
            /\ UNCHANGED <<ch, chenv, chOut, spawns, pin, pout>>
    /\ UNCHANGED <<cfgv, reqv, idx, sel, fwd, mutated, stopped, envv, chGot, chEof, chSigs, pendInt, pendKill,
                   sinHist, sout, outHist, inmsg, obuf, oeof, chunk, remain, oerr, ping, conv, cliv, synv, dirty, nw>>
    /\ UNCHANGED hisv
    /\ UNCHANGED leaving

(* ---- pumpStdin ------------------------------------------------------------- *)
InRead ==
    /\ pin = "read"
    /\ \/ /\ conn = "closed"                                   \* ReadMessage fails: the other pump closed the connection
          /\ pin' = "close" /\ UNCHANGED <<inmsg, c2s, s2c>>
       \/ /\ conn = "open" /\ c2s # <<>>
          /\ LET f == Head(c2s) IN
             /\ c2s' = Tail(c2s)
             /\ CASE f.k = "msg"   -> /\ inmsg' = IF ty = "lines" THEN f.p \o <<K_NL * 100>> ELSE f.p
                                      /\ pin' = "write" /\ UNCHANGED s2c
                  [] f.k = "close" -> /\ s2c' = Append(s2c, Frame("close", <<>>, f.code, ""))   \* gorilla's close handler echoes
                                      /\ pin' = "close" /\ UNCHANGED inmsg
                  [] OTHER         -> pin' = "close" /\ UNCHANGED <<inmsg, s2c>>
    /\ UNCHANGED <<cfgv, reqv, srvv, stopped, envv, chv, pipv, outv, conn, cliv, synv, dirty, nw>>
    /\ UNCHANGED hisv

\* stdin.Write(message): fails (EPIPE) once the command is gone
InWrite ==
    /\ pin = "write"
    /\ IF ch = "run" THEN sinHist' = sinHist \o inmsg /\ pin' = "read" /\ UNCHANGED dirty
       ELSE pin' = "close" /\ dirty' = TRUE /\ UNCHANGED sinHist
    /\ inmsg' = <<>>
    /\ UNCHANGED <<cfgv, reqv, srvv, stopped, envv, chv, sinW, soutR, sout, outHist, outv, conv, cliv, synv, nw>>
    /\ UNCHANGED hisv

CloseConn == /\ conn' = "closed"
             /\ s2c' = IF conn = "open" THEN Append(s2c, FinTok) ELSE s2c
             /\ c2s' = <<>>

\* defer conn.Close()
InClose ==
    /\ pin = "close"
    /\ CloseConn /\ pin' = "done"
    /\ UNCHANGED <<cfgv, reqv, srvv, stopped, envv, chv, pipv, inmsg, outv, cliv, synv, dirty, nw>>
    /\ UNCHANGED hisv

(* ---- pumpStdout ------------------------------------------------------------ *)
OutBegin ==
    /\ pout = "begin"
    /\ ping' = "run" /\ pout' = "read"
    /\ UNCHANGED <<cfgv, reqv, srvv, stopped, envv, chv, pipv, inv, obuf, oeof, chunk, remain, oerr, conv, cliv, synv, dirty, nw>>
    /\ UNCHANGED hisv

Cap == BufEff(ty, bs)

\* one pass of Scanner.Scan (split function bufio.ScanLines, buffer of Cap bytes)
OutScan ==
    /\ pout = "read" /\ ty = "lines"
    /\ IF HasNL(obuf)
       THEN LET i == FirstNL(obuf) IN
            /\ chunk' = DropCR(First(obuf, i - 1)) /\ obuf' = After(obuf, i) /\ pout' = "emit"
            /\ UNCHANGED <<oeof, oerr, sout>>
       ELSE IF oeof
       THEN /\ IF obuf # <<>> THEN chunk' = DropCR(obuf) /\ pout' = "emit" ELSE pout' = "close" /\ UNCHANGED chunk
            /\ obuf' = <<>> /\ UNCHANGED <<oeof, oerr, sout>>
       ELSE IF Len(obuf) >= Cap
       THEN /\ oerr' = "toolong" /\ pout' = "closefr"                          \* bufio.ErrTooLong
            /\ UNCHANGED <<obuf, oeof, chunk, sout>>
       ELSE IF sout # <<>>
       THEN LET k == MinOf(Len(sout), Cap - Len(obuf)) IN
            /\ obuf' = obuf \o First(sout, k) /\ sout' = After(sout, k)
            /\ UNCHANGED <<pout, oeof, chunk, oerr>>
       ELSE /\ ~chOut /\ oeof' = TRUE                                           \* read returns io.EOF
            /\ UNCHANGED <<pout, obuf, chunk, oerr, sout>>
    /\ UNCHANGED <<cfgv, reqv, srvv, stopped, envv, chv, sinW, sinHist, soutR, outHist, inv, remain, ping, conv, cliv, synv, dirty, nw>>
    /\ UNCHANGED hisv

SendFrame(k, p) ==
    IF conn = "open" THEN s2c' = Append(s2c, Frame(k, p, 0, "")) /\ pout' = "read"
    ELSE pout' = "close" /\ UNCHANGED s2c                                       \* WriteMessage fails: break

\* conn.WriteMessage(TextMessage, bytes.TrimSpace(s.Bytes()))
OutEmitLine ==
    /\ pout = "emit" /\ ty = "lines"
    /\ SendFrame("text", TrimWS(chunk)) /\ chunk' = <<>>
    /\ UNCHANGED <<cfgv, reqv, srvv, stopped, envv, chv, pipv, inv, obuf, oeof, remain, oerr, ping, conn, c2s, cliv, synv, dirty, nw>>
    /\ UNCHANGED hisv

\* r.Read(out[remainLen:]) on a bufio.Reader: one read of the pipe when its buffer is empty, then the copy
OutRead ==
    /\ pout = "read" /\ ty \in {"text", "binary"}
    /\ LET room == Cap - Len(remain) IN
       IF room <= 0
       THEN /\ chunk' = remain /\ pout' = "emit" /\ UNCHANGED <<obuf, sout, oerr>>       \* Read of an empty slice: (0, nil)
       ELSE IF obuf # <<>>
       THEN LET n == MinOf(room, Len(obuf)) IN
            /\ chunk' = remain \o First(obuf, n) /\ obuf' = After(obuf, n) /\ pout' = "emit"
            /\ UNCHANGED <<sout, oerr>>
       ELSE IF sout # <<>>
       THEN LET n == MinOf(room, Len(sout)) IN
            /\ chunk' = remain \o First(sout, n) /\ obuf' = After(sout, n) /\ sout' = <<>> /\ pout' = "emit"
            /\ UNCHANGED oerr
       ELSE /\ ~chOut /\ oerr' = "EOF" /\ pout' = "closefr"
            /\ UNCHANGED <<obuf, sout, chunk>>
    /\ UNCHANGED <<cfgv, reqv, srvv, stopped, envv, chv, sinW, sinHist, soutR, outHist, inv, oeof, remain, ping, conv, cliv, synv, dirty, nw>>
    /\ UNCHANGED hisv

\* remainLen = findIncompleteRuneLength(out, len); WriteMessage(out[0:len-remainLen])
OutEmit ==
    /\ pout = "emit" /\ ty \in {"text", "binary"}
    /\ LET r == IF ty = "text" THEN FindInc(chunk) ELSE 0 IN
       /\ SendFrame(IF ty = "text" THEN "text" ELSE "bin", First(chunk, Len(chunk) - r))
       /\ remain' = After(chunk, Len(chunk) - r)
    /\ chunk' = <<>>
    /\ UNCHANGED <<cfgv, reqv, srvv, stopped, envv, chv, pipv, inv, obuf, oeof, oerr, ping, conn, c2s, cliv, synv, dirty, nw>>
    /\ UNCHANGED hisv

\* WriteControl(CloseMessage, FormatCloseMessage(CloseGoingAway, err.Error()))
OutCloseFrame ==
    /\ pout = "closefr"
    /\ s2c' = IF conn = "open" THEN Append(s2c, Frame("close", <<>>, 1001, oerr)) ELSE s2c
    /\ pout' = "close"
    /\ UNCHANGED <<cfgv, reqv, srvv, stopped, envv, chv, pipv, inv, obuf, oeof, chunk, remain, oerr, ping, conn, c2s, cliv, synv, dirty, nw>>
    /\ UNCHANGED hisv

\* the deferred function of pumpStdout: conn.Close(), then close(done)
OutConnClose ==
    /\ pout = "close"
    /\ CloseConn /\ pout' = "fin"
    /\ UNCHANGED <<cfgv, reqv, srvv, stopped, envv, chv, pipv, inv, obuf, oeof, chunk, remain, oerr, ping, cliv, synv, dirty, nw>>
    /\ UNCHANGED hisv

OutDone ==
    /\ pout = "fin"
    /\ done' = TRUE /\ pout' = "done"
    /\ UNCHANGED <<cfgv, reqv, srvv, stopped, envv, chv, pipv, inv, obuf, oeof, chunk, remain, oerr, ping, conv, cliv, wg, timer, dirty, nw>>
    /\ UNCHANGED hisv

PingExit ==
    /\ ping = "run" /\ done
    /\ ping' = "done"
    /\ UNCHANGED <<cfgv, reqv, srvv, stopped, envv, chv, pipv, inv, pout, obuf, oeof, chunk, remain, oerr, conv, cliv, synv, dirty, nw>>
    /\ UNCHANGED hisv

(* ---- serveWS after pumpStdin has returned ---------------------------------- *)
\* _ = stdin.Close()
SrvCloseStdin ==
    /\ pc = "pump" /\ pin = "done"
    /\ sinW' = FALSE /\ pc' = "signal"
    /\ UNCHANGED <<cfgv, reqv, idx, sel, rst, fwd, mutated, stopped, envv, chv, sinHist, soutR, sout, outHist, inv, outv, conv, cliv, synv, dirty, nw>>
    /\ UNCHANGED hisv

\* cmd.Process.Signal(os.Interrupt) (no effect on a process that has ended), time.After(time.Second)
SrvSignal ==
    /\ pc = "signal"
    /\ pendInt' = (ch = "run") /\ timer' = "armed" /\ pc' = "wait"
    /\ wg' = IF FixKill THEN "waitdone" ELSE wg
    /\ UNCHANGED <<cfgv, reqv, idx, sel, rst, fwd, mutated, stopped, envv, ch, chenv, chGot, chEof, chSigs, chOut, pendKill, spawns,
                   pipv, inv, outv, conv, cliv, done, dirty, nw>>
    /\ UNCHANGED hisv
    /\ UNCHANGED leaving

\* cmd.Wait(): returns once the process has ended; closes the parent's ends of the pipes
Reap == /\ ch = "dead" /\ ch' = "reaped" /\ soutR' = FALSE /\ sinW' = FALSE

\* as found:   select { case <-done: ; case <-time.After(time.Second): Signal(os.Kill); <-done } ; cmd.Wait()
SrvWaitDone ==
    /\ ~FixKill /\ pc \in {"wait", "wait2"} /\ done
    /\ pc' = "reap"
    /\ UNCHANGED <<cfgv, reqv, idx, sel, rst, fwd, mutated, stopped, envv, chv, pipv, inv, outv, conv, cliv, synv, dirty, nw>>
    /\ UNCHANGED hisv
SrvReap ==
    /\ ~FixKill /\ pc = "reap" /\ Reap /\ pc' = "defers"
    /\ UNCHANGED <<cfgv, reqv, idx, sel, rst, fwd, mutated, stopped, envv, chenv, chGot, chEof, chSigs, chOut, pendInt, pendKill, spawns,
                   sinHist, sout, outHist, inv, outv, conv, cliv, synv, dirty, nw>>
    /\ UNCHANGED hisv
    /\ UNCHANGED leaving

\* repaired:   go func() { <-done; waited <- cmd.Wait() }() ; select { case <-waited: ; case <-time.After(time.Second): Signal(os.Kill); <-waited }
WaitDone ==
    /\ FixKill /\ wg = "waitdone" /\ done
    /\ wg' = "reap"
    /\ UNCHANGED <<cfgv, reqv, srvv, stopped, envv, chv, pipv, inv, outv, conv, cliv, done, timer, dirty, nw>>
    /\ UNCHANGED hisv
WaitReap ==
    /\ FixKill /\ wg = "reap" /\ Reap /\ wg' = "done"
    /\ UNCHANGED <<cfgv, reqv, srvv, stopped, envv, chenv, chGot, chEof, chSigs, chOut, pendInt, pendKill, spawns,
                   sinHist, sout, outHist, inv, outv, conv, cliv, done, timer, dirty, nw>>
    /\ UNCHANGED hisv
    /\ UNCHANGED leaving
SrvWaited ==
    /\ FixKill /\ pc \in {"wait", "wait2"} /\ wg = "done"
    /\ pc' = "defers"
    /\ UNCHANGED <<cfgv, reqv, idx, sel, rst, fwd, mutated, stopped, envv, chv, pipv, inv, outv, conv, cliv, synv, dirty, nw>>
    /\ UNCHANGED hisv

\* the second is over and the select has not been served otherwise: terminate with extreme prejudice
SrvTimer ==
    /\ pc = "wait" /\ timer = "armed"
    /\ IF FixKill THEN wg # "done" ELSE ~done
    /\ timer' = "fired" /\ pendKill' = (ch = "run") /\ pc' = "wait2"
    /\ UNCHANGED <<cfgv, reqv, idx, sel, rst, fwd, mutated, stopped, envv, ch, chenv, chGot, chEof, chSigs, chOut, pendInt, spawns,
                   pipv, inv, outv, conv, cliv, done, wg, dirty, nw>>
    /\ UNCHANGED hisv
    /\ UNCHANGED leaving

\* the deferred stdin.Close(), stdout.Close(), conn.Close(); serveWS returns
SrvDefers ==
    /\ pc = "defers"
    /\ sinW' = FALSE /\ soutR' = FALSE /\ CloseConn
    /\ pc' = "returned" /\ rst' = IF rst = -1 THEN 0 ELSE rst
    /\ UNCHANGED <<cfgv, reqv, idx, sel, fwd, mutated, stopped, envv, chv, sinHist, sout, outHist, inv, outv, cliv, synv, dirty, nw>>
    /\ UNCHANGED hisv

(* ======================= the command ======================================== *)
Die == ch' = "dead" /\ chOut' = FALSE /\ pendInt' = FALSE /\ pendKill' = FALSE

ChildWrite(piece) ==
    /\ scope = "bridge" /\ ch = "run" /\ chOut /\ nw < MaxW
    /\ LET toks == Mk(piece, Len(outHist)) IN
       /\ outHist' = outHist \o toks
       /\ sout' = sout \o toks
    /\ nw' = nw + 1
    /\ UNCHANGED <<cfgv, reqv, srvv, stopped, envv, chv, sinW, sinHist, soutR, inv, outv, conv, cliv, synv, dirty>>

ChildCloseOut ==
    /\ scope = "bridge" /\ ch = "run" /\ chOut
    /\ chOut' = FALSE
    /\ UNCHANGED <<cfgv, reqv, srvv, stopped, envv, ch, chenv, chGot, chEof, chSigs, pendInt, pendKill, spawns, pipv, inv, outv, conv, cliv, synv, dirty, nw>>
    /\ UNCHANGED leaving

ChildExit ==
    /\ scope = "bridge" /\ ch = "run" /\ Die
    /\ UNCHANGED <<cfgv, reqv, srvv, stopped, envv, chenv, chGot, chEof, chSigs, spawns, pipv, inv, outv, conv, cliv, synv, dirty, nw>>
    /\ UNCHANGED leaving

\* reactions of the command
ChildRead ==
    /\ ch = "run" /\ chGot # sinHist
    /\ chGot' = sinHist
    /\ UNCHANGED <<cfgv, reqv, srvv, stopped, envv, ch, chenv, chEof, chSigs, chOut, pendInt, pendKill, spawns, pipv, inv, outv, conv, cliv, synv, dirty, nw>>
    /\ UNCHANGED hisv
    /\ UNCHANGED leaving

ChildEof ==
    /\ ch = "run" /\ ~sinW /\ chGot = sinHist /\ ~chEof
    /\ chEof' = TRUE
    /\ IF EofX(mode) THEN Die ELSE UNCHANGED <<ch, chOut, pendInt, pendKill>>
    /\ UNCHANGED <<cfgv, reqv, srvv, stopped, envv, chenv, chGot, chSigs, spawns, pipv, inv, outv, conv, cliv, synv, dirty, nw>>
    /\ UNCHANGED hisv
    /\ UNCHANGED leaving

ChildInt ==
    /\ ch = "run" /\ pendInt
    /\ chSigs' = Append(chSigs, "INT")
    /\ IF Ign(mode) THEN pendInt' = FALSE /\ UNCHANGED <<ch, chOut, pendKill>> ELSE Die
    /\ UNCHANGED <<cfgv, reqv, srvv, stopped, envv, chenv, chGot, chEof, spawns, pipv, inv, outv, conv, cliv, synv, dirty, nw>>
    /\ UNCHANGED hisv
    /\ UNCHANGED leaving

ChildKilled ==
    /\ ch = "run" /\ pendKill
    /\ Die
    /\ UNCHANGED <<cfgv, reqv, srvv, stopped, envv, chenv, chGot, chEof, chSigs, spawns, pipv, inv, outv, conv, cliv, synv, dirty, nw>>
    /\ UNCHANGED hisv
    /\ UNCHANGED leaving

\* the second step of "write and leave" (ChildWriteExit below)
ChildLeave ==
    /\ ch = "run" /\ leaving /\ Die
    /\ UNCHANGED <<cfgv, reqv, srvv, stopped, envv, chenv, chGot, chEof, chSigs, spawns, leaving, pipv, inv, outv, conv, cliv, synv, dirty, nw>>
    /\ UNCHANGED hisv

\* Server.Stop: http.Server.Shutdown neither waits for nor closes hijacked connections
ServerStop ==
    /\ WithStop /\ scope = "bridge" /\ ~stopped /\ stopped' = TRUE
    /\ UNCHANGED <<cfgv, reqv, srvv, envv, chv, pipv, inv, outv, conv, cliv, synv, dirty, nw>>

(* ======================= next-state relations =============================== *)
\* the menus: kinds of the bytes of one message / one write
InMenu == IF Rich THEN {<<K_ORD, K_NL, K_ORD>>, <<>>, <<K_LEAD, K_CONT>>} ELSE {<<K_ORD>>, <<K_ORD, K_NL, K_ORD>>}
OutMenu ==
    CASE ty = "lines" ->
            IF Rich THEN {<<K_SP, K_ORD, K_SP, K_CR, K_NL>>, <<K_ORD, K_ORD>>, <<K_NL>>, <<K_ORD, K_NL, K_ORD, K_ORD, K_ORD, K_NL>>,
                          <<K_ORD, K_ORD, K_ORD, K_ORD, K_NL>>, <<K_BAD, K_NL, K_ORD>>}
            ELSE {<<K_ORD, K_NL>>, <<K_SP, K_ORD, K_CR, K_NL, K_ORD>>, <<K_ORD, K_ORD, K_ORD>>}
      [] ty = "text" ->
            IF Rich THEN {<<K_ORD, K_LEAD>>, <<K_CONT>>, <<K_CONT, K_ORD>>, <<K_LEAD, K_CONT, K_CONT, K_ORD, K_ORD, K_ORD>>, <<K_BAD, K_ORD>>,
                          <<K_ORD, K_ORD, K_ORD, K_LEAD, K_CONT>>}
            ELSE {<<K_ORD, K_LEAD>>, <<K_CONT, K_CONT, K_ORD, K_ORD, K_ORD>>, <<K_CONT>>}
      [] OTHER ->
            IF Rich THEN {<<K_ORD>>, <<K_ORD, K_NL, K_LEAD>>, <<K_ORD, K_ORD, K_ORD, K_ORD, K_ORD, K_ORD, K_ORD>>}
            ELSE {<<K_ORD, K_LEAD>>, <<K_ORD, K_ORD, K_ORD, K_ORD, K_ORD>>}

ServerBut ==      \* everything but the start of the command
    \/ SrvMatch \/ SrvNext \/ SrvUpgrade \/ SrvPipes \/ SrvEnvBase \/ (\E h \in todo : SrvEnvHeader(h))
    \/ InRead \/ InWrite \/ InClose
    \/ OutBegin \/ OutScan \/ OutEmitLine \/ OutRead \/ OutEmit \/ OutCloseFrame \/ OutConnClose \/ OutDone \/ PingExit
    \/ SrvCloseStdin \/ SrvSignal \/ SrvWaitDone \/ SrvReap \/ WaitDone \/ WaitReap \/ SrvWaited \/ SrvDefers
Server == ServerBut \/ SrvStart
React == ChildRead \/ ChildEof \/ ChildInt \/ ChildKilled \/ ChildLeave \/ ClientRecv
Fast  == Server \/ React
\* real time: the second of grace passes only when nothing else is left to do
Slow  == ~ENABLED Fast /\ SrvTimer

\* the command's last words: it writes and leaves - two steps of the command, between which it may
\* still see what the server does about the write (a line too long: stdin closed, the interrupt)
ChildWriteExit(piece) ==
    /\ scope = "bridge" /\ ch = "run" /\ chOut /\ nw < MaxW /\ ~leaving
    /\ LET toks == Mk(piece, Len(outHist)) IN outHist' = outHist \o toks /\ sout' = sout \o toks
    /\ nw' = nw + 1 /\ leaving' = TRUE
    /\ UNCHANGED <<cfgv, reqv, srvv, stopped, envv, ch, chenv, chGot, chEof, chSigs, chOut, pendInt, pendKill, spawns, sinW, sinHist, soutR, inv, outv, conv, cliv, synv, dirty>>
Env ==
    \/ \E k \in AllReqKinds, p \in AllReqPaths, h \in HostForms, hs \in HdrSets : ClientRequest(k, p, h, hs)
    \/ \E m \in InMenu : ClientSend(m)
    \/ ClientClose
    \/ \E how \in {"fin", "rst"} : ClientDrop(how)
    \/ \E piece \in OutMenu : ChildWrite(piece)
    \/ ChildCloseOut \/ ChildExit \/ ServerStop

Next == Fast \/ Slow \/ (Env /\ UNCHANGED hisv)
Spec == Init /\ [][Next]_vars
\* liveness: the server's and the command's own steps are taken, the client reads, the grace ends;
\* the environment owes nothing
Fairness == WF_vars(Fast) /\ WF_vars(Slow)
SpecLive == Spec /\ Fairness

(* ======================= guarantees ========================================= *)
PcSet == {"idle", "match", "next", "upgrade", "pipes", "env", "envhdr", "pump", "signal", "wait", "wait2", "reap", "defers", "returned"}
TypeOK ==
    /\ pc \in PcSet /\ pin \in {"off", "read", "write", "close", "done"}
    /\ pout \in {"off", "begin", "read", "emit", "closefr", "close", "fin", "done"}
    /\ ping \in {"off", "run", "done"} /\ conn \in {"http", "open", "closed"}
    /\ ch \in {"none", "run", "dead", "reaped"} /\ cst \in {"new", "open", "closing", "gone"}
    /\ wg \in {"off", "waitdone", "reap", "done"} /\ timer \in {"off", "armed", "fired"}
    /\ Len(obuf) <= DefaultBuf + Cap /\ Len(remain) < UTFMax

Bridged == sel # 0 /\ Verdict(rk) = 101

\* a process exists only behind a completed handshake, and at most one per connection
OneProcessPerConnection ==
    /\ spawns <= 1
    /\ ch # "none" => Bridged /\ spawns = 1
    /\ (pc = "returned" /\ ~Bridged) => ch = "none" /\ ~soutR /\ ~sinW

\* a request outside every configured path reaches the next handler exactly as it came; a request
\* inside one that is no websocket handshake is answered by the upgrader (400 / 405) and never spawns
NonUpgradeUntouched ==
    /\ fwd # NoFwd => /\ fwd = [k |-> rk, path |-> rpath, host |-> rhost, hdrs |-> rhdrs] /\ ~mutated
                       /\ \A i \in 1..Len(Socks) : ~Matches(ReqPathOf(rpath), Socks[i])
    /\ (pc = "returned" /\ sel = 0) => fwd # NoFwd
    /\ (pc = "returned" /\ sel # 0 /\ ~Bridged) => /\ fwd = NoFwd /\ ch = "none" /\ rst = 0
                                                   /\ \A i \in 1..Len(s2c) : s2c[i].k = "head" => s2c[i].code \in {400, 405}
    /\ sel # 0 => sel = 1                      \* the first matching entry shadows a later, more specific one

\* what the command finds in its environment: the documented variables computed from this request,
\* one HTTP_* variable per request header, and nothing else (nothing of casket's own environment)
WantEnv == SeqToSet(BaseEnv(rhost)) \cup {<<EnvName(h), EnvVal(h)>> : h \in rhdrs}
EnvExact == ch # "none" => chenv = WantEnv

\* client -> command: what arrives on stdin is, in order, the payloads of the messages sent
\* (each followed by "\n" under `lines`), nothing else
WantIn(msgs) == Flat([i \in 1..Len(msgs) |-> IF ty = "lines" THEN msgs[i] \o <<K_NL * 100>> ELSE msgs[i]])
BytesExactIn == IsPrefixOf(chGot, sinHist) /\ IsPrefixOf(sinHist, WantIn(csent))

\* command -> client, by type
RECURSIVE LinesOf(_)
\* the lines of a stream as ScanLines cuts them (the last one may lack its "\n")
LinesOf(s) == IF s = <<>> THEN <<>>
              ELSE IF HasNL(s) THEN <<First(s, FirstNL(s) - 1)>> \o LinesOf(After(s, FirstNL(s)))
              ELSE <<s>>
NumComplete(s) == Cardinality({i \in 1..Len(s) : Kind(s[i]) = K_NL})
RECURSIVE UpToLong(_)
\* a line that does not fit the buffer ends the scan
UpToLong(ls) == IF ls = <<>> THEN <<>> ELSE IF Len(Head(ls)) >= Cap THEN <<>> ELSE <<Head(ls)>> \o UpToLong(Tail(ls))
WantLines(s) == LET ls == UpToLong(LinesOf(s)) IN [i \in 1..Len(ls) |-> TrimWS(ls[i])]
Payloads == [i \in 1..Len(cgot) |-> cgot[i].p]
\* text: no frame ends inside a (well-formed) rune of the stream; q = position of the frame's last byte
ValidRuneAt(i) == /\ i >= 1 /\ i + 2 <= Len(outHist)
                  /\ Kind(outHist[i]) = K_LEAD /\ Kind(outHist[i + 1]) = K_CONT /\ Kind(outHist[i + 2]) = K_CONT
NoSplit(q) == ~ValidRuneAt(q) /\ ~ValidRuneAt(q - 1)
BytesExactOut ==
    /\ \A i \in 1..Len(cgot) : cgot[i].k = (IF ty = "binary" THEN "bin" ELSE "text")
    /\ ty = "lines" => /\ IsPrefixOf(Payloads, WantLines(outHist))
                       /\ (chOut => Len(cgot) <= NumComplete(outHist))        \* an unfinished line is not sent
    /\ ty \in {"text", "binary"} =>
            /\ IsPrefixOf(Flat(Payloads), outHist)
            /\ \A i \in 1..Len(cgot) : Len(cgot[i].p) <= Cap
    /\ ty = "text" => \A i \in 1..Len(cgot) : cgot[i].p # <<>> => NoSplit(cgot[i].p[Len(cgot[i].p)] % 100)

\* a client that stays until the end gets everything the command wrote (text: except a trailing
\* incomplete rune), unless a line was too long or a message of the client met a dead command
TooLong == ty = "lines" /\ Len(WantLines(outHist)) < Len(LinesOf(outHist))
NothingLostAtExit ==
    (ceof /\ cst = "open" /\ ~dirty /\ ch # "none" /\ ~TooLong) =>
        IF ty = "lines" THEN Payloads = WantLines(outHist)
        ELSE Flat(Payloads) \o remain = outHist

\* what a close frame from the server says: 1001 with the read error of the stdout pump (EOF: the
\* command closed stdout - only text / binary send it; too long a line - lines), or the echo of the
\* client's own close frame.  The exit status of the command is never reported.
CloseCodeTellsOutcome ==
    /\ cclose.code \in {0, 1000, 1001}
    /\ cclose.code = 1000 => cst \in {"closing", "gone"}
    /\ cclose.code = 1001 => /\ cclose.why \in {"EOF", "toolong"}
                             /\ cclose.why = "EOF" => ty # "lines" /\ ~chOut /\ Flat(Payloads) \o remain = outHist
                             /\ cclose.why = "toolong" => TooLong
    /\ (ceof /\ cst = "open" /\ ~dirty /\ ch # "none" /\ ty # "lines") => cclose.code = 1001

\* stdin is closed before the interrupt is sent; the kill comes only after the interrupt and the grace
SignalOrder ==
    /\ (pendInt \/ chSigs # <<>>) => ~sinW
    /\ pendKill => timer = "fired"
    /\ Len(chSigs) <= 1

\* serveWS has returned: the process has been waited for (no zombie), both pipes and the
\* connection are closed, both pumps have returned (the pinger is told to by close(done), nobody
\* waits for it: it is gone once things are at rest)
AlwaysReaped ==
    (pc = "returned" /\ Bridged) =>
        /\ ch \in {"none", "reaped"} /\ ~sinW /\ ~soutR /\ conn = "closed"
        /\ pin \in {"off", "done"} /\ pout \in {"off", "done"} /\ (ping # "off" => done)
        /\ wg \in {"off", "done"}
        /\ (~ENABLED PingExit => ping \in {"off", "done"})
        /\ (cmdok <=> ch = "reaped") /\ (cmdok <=> rst = 0) /\ (~cmdok <=> rst = 502)

\* whatever ends the bridge - the client (close frame, FIN, RST), the command (exit, closed stdout,
\* too long a line), both - serveWS returns; a stopped server changes nothing in that
Ended == cst = "gone" \/ cst = "closing" \/ (ch \in {"dead", "reaped"}) \/ (ch = "run" /\ ~chOut) \/ oerr # ""
Terminates == [](Bridged /\ Ended /\ pc # "idle" => <>(pc = "returned"))
NoOrphanAfterStop == []((stopped /\ cst = "gone" /\ Bridged) => <>(pc = "returned" /\ ch \in {"none", "reaped"}))
\* the stdout pump never reads into a buffer without room (it would spin: Read of an empty slice
\* returns at once with nothing, and an empty frame is sent, for ever)
ReadHasRoom == (pout = "read" /\ ty \in {"text", "binary"}) => Cap - Len(remain) > 0

(* ======================= sync grain: scripts for the replay ================= *)
Seen == [head |-> chead, frames |-> cgot, cclose |-> cclose, ceof |-> ceof,
         stdin |-> chGot, seof |-> chEof, sigs |-> chSigs,
         ch |-> (IF ch = "none" THEN "none" ELSE IF ch = "run" THEN "run" ELSE "gone"),
         ret |-> (pc = "returned"), rst |-> rst, passed |-> (fwd # NoFwd), spawns |-> spawns]
Log(a, k, arg) == /\ hist' = Append(hist, [a |-> a, k |-> k, arg |-> arg, seen |-> Seen]) /\ nops' = nops + 1

EnvSync ==
    \/ \E k \in AllReqKinds, p \in AllReqPaths, h \in HostForms, hs \in HdrSets :
            ClientRequest(k, p, h, hs) /\ Log("req", k, <<>>)
    \/ \E m \in InMenu : ClientSend(m) /\ Log("csend", "", m)
    \/ ClientClose /\ Log("cclose", "", <<>>)
    \/ \E how \in {"fin", "rst"} : ClientDrop(how) /\ Log("cdrop", how, <<>>)
    \/ \E piece \in OutMenu : ChildWrite(piece) /\ Log("pwrite", "", piece)
    \/ \E piece \in OutMenu : ChildWriteExit(piece) /\ Log("pwriteexit", "", piece)
    \/ ChildCloseOut /\ Log("pcloseout", "", <<>>)
    \/ ChildExit /\ Log("pexit", "", <<>>)
    \/ ServerStop /\ Log("stop", "", <<>>)

Busy == ENABLED Fast \/ ENABLED Slow
\* a script is over when the exchange is, or when its budget is used up - then the client resets
\* the connection, so that every script ends with a returned serveWS
Over == ~Busy /\ (pc = "returned" \/ (pc = "idle" /\ stopped))
NextSync == IF ENABLED Fast THEN Fast
            ELSE IF ENABLED Slow THEN Slow
            ELSE /\ ~Over
                 /\ IF nops < MaxOps \/ rk = "none" THEN EnvSync
                    ELSE ClientDrop("rst") /\ Log("cdrop", "rst", <<>>)
SpecSync == Init /\ [][NextSync]_vars

\* at rest with the bridge up everything sent has arrived (lines: up to the last complete line)
FlushedAtRest ==
    (~Busy /\ pc = "pump" /\ pin = "read" /\ pout = "read" /\ cst = "open") =>
        /\ chGot = WantIn(csent) /\ s2c = <<>> /\ c2s = <<>>
        /\ ty = "lines" => Len(cgot) = Len(UpToLong(First(LinesOf(outHist), NumComplete(outHist))))
        /\ ty # "lines" => Flat(Payloads) \o remain = outHist

Emit == (Over /\ nops >= 1) =>
    PrintT(<<"CASE", ToJson([scope |-> scope, type |-> ty, buf |-> bs, mode |-> mode, cmdok |-> cmdok,
                             rk |-> rk, rpath |-> rpath, rhost |-> rhost, rhdrs |-> rhdrs, sel |-> sel,
                             env |-> (IF scope = "req" THEN chenv ELSE {}), steps |-> hist, final |-> Seen, dirty |-> dirty])>>)
=============================================================================
