CONSTANTS MaxSrv = 1
 Caps = {1, 2, 3, 4, 5}
 MaxTicks = 8
 MaxOps = 0
 Repaired = TRUE
 Sync = FALSE
SPECIFICATION SpecRot
INVARIANTS TypeOK NonEmpty CapBound FirstIsNewest Lifetime NewerKeysExist NoReuse NoSetAfterClose TickerStopped Growth
PROPERTIES ClosedLeadsToDone TickLeadsToSet
CHECK_DEADLOCK FALSE
