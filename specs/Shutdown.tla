------------------------------ MODULE Shutdown ------------------------------
(***************************************************************************)
(* C16, process-level part: signal handling of package casket              *)
(* (sigtrap.go, sigtrap_posix.go).  Two handler goroutines (the POSIX loop  *)
(* for TERM/QUIT and the interrupt loop for INT), the goroutine an INT     *)
(* spawns, the sync.Once around the shutdown callbacks, and casket.Stop.    *)
(* Signals are delivered into channels of capacity one (signal.Notify      *)
(* drops what does not fit).  Optionally one instance's shutdown callback    *)
(* spawns a goroutine that stops that very instance (Instance.Stop), which *)
(* splices it out of the instance list while the walk over that list is    *)
(* under way - the walk holds instancesMu, so the splice waits for it.     *)
(***************************************************************************)
EXTENDS Naturals, Sequences, FiniteSets, TLC, Json

CONSTANTS MaxInst, MaxSigs

Sig == {"TERM", "INT", "QUIT"}
Kind == {"shutdown", "final"}
Insts == 1..MaxInst

VARIABLES
    n,          \* number of live instances
    pending,    \* signals the environment will still send, in order
    pch, ich,   \* the two signal channels (sequence of length <= 1)
    ppc,        \* POSIX loop: "wait" | "once" | "cbs" | "stop" | "exit"
    ipc,        \* interrupt loop: "wait"
    ints,       \* number of INTs handled so far
    jpc,        \* the goroutine spawned by the first INT: "none" | "once" | "cbs" | "exit"
    once,       \* sync.Once of executeShutdownCallbacks: "idle" | "running" | "done"
    runner,     \* who is inside the Once: "p" | "j" | "-"
    ci, ck,     \* callback iterator: instance, kind index (1 = shutdown, 2 = final)
    ran,        \* [instance -> [kind -> times run]]
    stopped,    \* instances whose servers were stopped by casket.Stop
    si,         \* casket.Stop iterator
    exited,     \* "no" | "term" | "int" | "quit" | "force"
    stopper,    \* 0, or the instance whose shutdown callback spawns "go inst.Stop()" on itself
    spc,        \* that goroutine: "none" | "servers" | "splice" | "done"
    list        \* the package-level instance list (sequence of instances)
vars == <<n, pending, pch, ich, ppc, ipc, ints, jpc, once, runner, ci, ck, ran, stopped, si, exited, stopper, spc, list>>

KindAt(i) == IF i = 1 THEN "shutdown" ELSE "final"

RECURSIVE SeqsUpTo(_)
SeqsUpTo(m) == IF m = 0 THEN {<<>>} ELSE SeqsUpTo(m - 1) \cup {Append(s, x) : s \in {t \in SeqsUpTo(m - 1) : Len(t) = m - 1}, x \in Sig}

InitWith(nn, sigs, st) ==
    /\ n = nn /\ pending = sigs
    /\ stopper = st /\ spc = "none" /\ list = [i \in 1..nn |-> i]
    /\ pch = <<>> /\ ich = <<>> /\ ppc = "wait" /\ ipc = "wait" /\ ints = 0 /\ jpc = "none"
    /\ once = "idle" /\ runner = "-" /\ ci = 1 /\ ck = 1
    /\ ran = [i \in Insts |-> [kd \in Kind |-> 0]]
    /\ stopped = {} /\ si = 1 /\ exited = "no"

Init == \E nn \in Insts, sigs \in SeqsUpTo(MaxSigs) : sigs # <<>> /\ \E st \in 0..nn : InitWith(nn, sigs, st)

Alive == exited = "no"

\* a signal the environment has sent reaches the process.  Signals sent back to back are
\* not delivered in order (the kernel hands over pending signals lowest number first), so any
\* outstanding one may be next; a full channel drops it (signal.Notify does not block)
RemoveAt(sq, i) == [j \in 1..(Len(sq) - 1) |-> IF j < i THEN sq[j] ELSE sq[j + 1]]
Deliver ==
    /\ Alive /\ pending # <<>>
    /\ \E i \in 1..Len(pending) :
        /\ pending' = RemoveAt(pending, i)
        /\ IF pending[i] = "INT"
             THEN ich' = (IF ich = <<>> THEN <<"INT">> ELSE ich) /\ UNCHANGED pch
             ELSE pch' = (IF pch = <<>> THEN <<pending[i]>> ELSE pch) /\ UNCHANGED ich
    /\ UNCHANGED <<n, ppc, ipc, ints, jpc, once, runner, ci, ck, ran, stopped, si, exited, stopper, spc, list>>

\* POSIX loop takes a signal: QUIT exits at once, TERM goes for the callbacks
PTake ==
    /\ Alive /\ ppc = "wait" /\ pch # <<>>
    /\ pch' = <<>>
    /\ IF Head(pch) = "QUIT" THEN exited' = "quit" /\ UNCHANGED ppc
                               ELSE ppc' = "once" /\ UNCHANGED exited
    /\ UNCHANGED <<n, pending, ich, ipc, ints, jpc, once, runner, ci, ck, ran, stopped, si, stopper, spc, list>>

\* entering executeShutdownCallbacks: the first caller runs them, a concurrent one waits
\* (no step enabled while once = "running"), a later one passes
POnce == /\ Alive /\ ppc = "once"
         /\ \/ once = "idle" /\ once' = "running" /\ runner' = "p" /\ ci' = 1 /\ ck' = 1 /\ ppc' = "cbs"
            \/ once = "done" /\ ppc' = "stop" /\ UNCHANGED <<once, runner, ci, ck>>
         /\ UNCHANGED <<n, pending, pch, ich, ipc, ints, jpc, ran, stopped, si, exited, stopper, spc, list>>
JOnce == /\ Alive /\ jpc = "once"
         /\ \/ once = "idle" /\ once' = "running" /\ runner' = "j" /\ ci' = 1 /\ ck' = 1 /\ jpc' = "cbs"
            \/ once = "done" /\ jpc' = "exit" /\ UNCHANGED <<once, runner, ci, ck>>
         /\ UNCHANGED <<n, pending, pch, ich, ppc, ipc, ints, ran, stopped, si, exited, stopper, spc, list>>

\* one callback list of one instance runs (allShutdownCallbacks: instance by instance,
\* OnShutdown then OnFinalShutdown)
\* (the walk holds instancesMu from its first to its last step, so the list it ranges over is
\* the list as it was when the walk began: ci is an index into it)
RunCb(who) ==
    /\ Alive /\ once = "running" /\ runner = who /\ ci <= Len(list)
    /\ ran' = [ran EXCEPT ![list[ci]][KindAt(ck)] = @ + 1]
    /\ IF ck = 1 THEN ck' = 2 /\ UNCHANGED ci ELSE ck' = 1 /\ ci' = ci + 1
    /\ spc' = (IF ck = 1 /\ list[ci] = stopper /\ spc = "none" THEN "servers" ELSE spc)
    /\ UNCHANGED <<n, pending, pch, ich, ppc, ipc, ints, jpc, once, runner, stopped, si, exited, stopper, list>>

\* the goroutine spawned by that callback: Instance.Stop stops the servers ...
StopperServers ==
    /\ Alive /\ spc = "servers"
    /\ stopped' = stopped \cup {stopper} /\ spc' = "splice"
    /\ UNCHANGED <<n, pending, pch, ich, ppc, ipc, ints, jpc, once, runner, ci, ck, ran, si, exited, stopper, list>>
\* ... and splices the instance out of the list, for which it needs instancesMu
StopperSplice ==
    /\ Alive /\ spc = "splice" /\ once # "running"
    /\ list' = SelectSeq(list, LAMBDA x : x # stopper) /\ spc' = "done"
    /\ UNCHANGED <<n, pending, pch, ich, ppc, ipc, ints, jpc, once, runner, ci, ck, ran, stopped, si, exited, stopper>>

LeaveOnce(who) ==
    /\ Alive /\ once = "running" /\ runner = who /\ ci > Len(list)
    /\ once' = "done" /\ runner' = "-"
    /\ IF who = "p" THEN ppc' = "stop" /\ UNCHANGED jpc ELSE jpc' = "exit" /\ UNCHANGED ppc
    /\ UNCHANGED <<n, pending, pch, ich, ipc, ints, ci, ck, ran, stopped, si, exited, stopper, spc, list>>

\* TERM: casket.Stop stops the first instance of the list until the list is empty (Instance.Stop
\* stops the servers and splices the instance out), then os.Exit.  si counts the instances stopped
PStop ==
    /\ Alive /\ ppc = "stop"
    /\ IF list # <<>> THEN stopped' = stopped \cup {Head(list)} /\ si' = si + 1 /\ list' = Tail(list) /\ UNCHANGED exited
                      ELSE exited' = "term" /\ UNCHANGED <<stopped, si, list>>
    /\ UNCHANGED <<n, pending, pch, ich, ppc, ipc, ints, jpc, once, runner, ci, ck, ran, stopper, spc>>

\* interrupt loop: the first INT spawns the shutdown goroutine, a second one force-quits
ITake ==
    /\ Alive /\ ich # <<>>
    /\ ich' = <<>>
    /\ IF ints > 0 THEN exited' = "force" /\ UNCHANGED <<ints, jpc>>
                   ELSE ints' = 1 /\ jpc' = "once" /\ UNCHANGED exited
    /\ UNCHANGED <<n, pending, pch, ppc, ipc, once, runner, ci, ck, ran, stopped, si, stopper, spc, list>>

JExit == /\ Alive /\ jpc = "exit" /\ exited' = "int"
         /\ UNCHANGED <<n, pending, pch, ich, ppc, ipc, ints, jpc, once, runner, ci, ck, ran, stopped, si, stopper, spc, list>>

Next == Deliver \/ PTake \/ POnce \/ JOnce \/ RunCb("p") \/ RunCb("j") \/ LeaveOnce("p") \/ LeaveOnce("j")
        \/ PStop \/ ITake \/ JExit \/ StopperServers \/ StopperSplice
Spec == Init /\ [][Next]_vars /\ WF_vars(Next)

\* ---- properties ----------------------------------------------------------
\* every live instance's shutdown (and final-shutdown) callbacks run at most once, however
\* many signals arrive ...
AtMostOnce == \A i \in Insts : \A kd \in Kind : ran[i][kd] <= 1
\* ... and exactly once when the process leaves through a graceful path (TERM or first INT)
GracefulRunsAllOnce == exited \in {"term", "int"} => \A i \in 1..n : \A kd \in Kind : ran[i][kd] = 1
\* TERM stops every server before the process exits
TermStopsAll == exited = "term" => stopped = 1..n
\* final-shutdown follows shutdown for the same instance
FinalAfterShutdown == \A i \in Insts : ran[i]["final"] <= ran[i]["shutdown"]
\* a TERM or INT that is taken eventually ends the process
EventuallyExits == (ppc # "wait" \/ jpc # "none") ~> (exited # "no")

\* ---- emission ------------------------------------------------------------
Stop == FALSE /\ UNCHANGED vars
Emit == (ppc = "wait" /\ jpc = "none" /\ ints = 0 /\ pch = <<>> /\ ich = <<>> /\ exited = "no" /\ Len(pending) > 0
         /\ once = "idle" /\ stopped = {})
        => PrintT(<<"CASE", ToJson([n |-> n, sigs |-> pending, stopper |-> stopper])>>)
=============================================================================
