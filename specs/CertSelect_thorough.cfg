CONSTANT CertIds = {"A", "W", "AW", "AB", "B", "Ar", "Ae", "Ax", "Af", "Acn", "AU", "IP", "IP2", "ABI", "WW", "Wx", "Wr"}
CONSTANT Certs3 = {"A", "W", "AB", "Ar", "Ax", "Acn", "IP"}
CONSTANT Topos = {"one", "dir", "two", "cross", "wild", "plain", "ip", "dflt", "self", "keys", "three", "dup", "selfcatch", "missingdir", "badpair", "bad-certonly", "bad-keyonly", "bad-garbage", "bad-empty", "bad-unknown", "bad-mismatch"}
CONSTANT ReloadTopos = {"one", "cross", "dir"}
CONSTANT FullOffers = FALSE
SPECIFICATION Spec
INVARIANT CacheMatchesFile
INVARIANT LoadFailsIffBad
INVARIANT SelectionRule
INVARIANT CertCoversName
INVARIANT NoCrossSiteKeyUse
INVARIANT KeyTypeNegotiation
INVARIANT UnexpiredPreferred
INVARIANT ExpiredStillServed
INVARIANT ListenerIndependent
INVARIANT ReloadReplacesCertificates
INVARIANT FailedReloadKeepsCertificates
INVARIANT ResultShape
INVARIANT Emit
CHECK_DEADLOCK FALSE
