---------------------------- MODULE ImportGraph ----------------------------
(***************************************************************************)
(* C10 (part 2) - imports and snippets: every import graph terminates.     *)
(*                                                                         *)
(* Nodes are files (F1 = the Casketfile handed to Parse, F2, F3) and       *)
(* snippets (S1, S2, defined at the top of F1).  g[x] is the set of nodes  *)
(* the body of x imports.  The body of x is                                *)
(*        m b<x>  /  import y (for every y in g[x], in node order)  /  m e<x> *)
(* and F1 wraps its body in one server block "site { ... }".               *)
(*                                                                         *)
(* Operational part = parse.go as it works: ONE flat token list and a      *)
(* cursor; an import token is replaced in place by the body of its target  *)
(* (doImport splices p.tokens and rewinds the cursor), there is no call    *)
(* stack.  Every token carries the chain of imports that brought it in     *)
(* (Token.imports, added by the repair of the cycle defect): an import     *)
(* whose target is already in its own chain is an error.  Without the      *)
(* guard (cfg constant Guard = FALSE = the code before the repair)         *)
(* Terminates is violated: TLC shows the behaviour  S1 -> S1 -> ...        *)
(*                                                                         *)
(* Declarative part: the statement - the parser stops on every graph; a    *)
(* cycle reachable from the root is an error; otherwise the tokens are     *)
(* those of the textual inclusion, in order.                               *)
(***************************************************************************)
EXTENDS Naturals, Sequences, FiniteSets, TLC, Json

CONSTANTS NFiles,    \* 1..3
          NSnips,    \* 0..2
          Guard,     \* TRUE: the repaired parser (import-chain guard); FALSE: the parser before the repair
          MaxLen     \* only used with Guard = FALSE: stop exploring when the token list is this long

FileSeq == SubSeq(<<"F1", "F2", "F3">>, 1, NFiles)
SnipSeq == SubSeq(<<"S1", "S2">>, 1, NSnips)
NodeSeq == FileSeq \o SnipSeq
Nodes   == {NodeSeq[i] : i \in 1..Len(NodeSeq)}
Root    == "F1"

VARIABLES g,      \* the import graph: [Nodes -> SUBSET Nodes]
          toks,   \* the parser's token list: markers and import tokens, each with its import chain
          cur,    \* the cursor (1-based; Len+1 = past the end)
          res     \* "run" | "ok" | "err"
vars == <<g, toks, cur, res>>

RECURSIVE SelectInOrder(_, _)
SelectInOrder(S, i) == IF i > Len(NodeSeq) THEN <<>>
                       ELSE (IF NodeSeq[i] \in S THEN <<NodeSeq[i]>> ELSE <<>>) \o SelectInOrder(S, i + 1)
Targets(gr, x) == SelectInOrder(gr[x], 1)

\* the tokens of the body of x, brought in through import chain ch
Body(gr, x, ch) ==
    <<[k |-> "m", x |-> "b" \o x, ch |-> ch]>>
    \o [i \in 1..Len(Targets(gr, x)) |-> [k |-> "i", x |-> Targets(gr, x)[i], ch |-> ch]]
    \o <<[k |-> "m", x |-> "e" \o x, ch |-> ch]>>

InChain(y, ch) == \E i \in 1..Len(ch) : ch[i] = y

Init ==
    /\ g \in [Nodes -> SUBSET Nodes]
    /\ toks = Body(g, Root, <<>>)
    /\ cur = 1
    /\ res = "run"

\* directive(): a marker line is collected, the cursor moves on
StepMarker ==
    /\ res = "run" /\ cur <= Len(toks) /\ toks[cur].k = "m"
    /\ cur' = cur + 1
    /\ UNCHANGED <<g, toks, res>>

\* doImport(): refuse an import that is already being expanded ...
ImportCycle ==
    /\ res = "run" /\ cur <= Len(toks) /\ toks[cur].k = "i"
    /\ Guard /\ InChain(toks[cur].x, toks[cur].ch)
    /\ res' = "err"
    /\ UNCHANGED <<g, toks, cur>>

\* ... otherwise splice the target's tokens in place of the import and stay on the first of them
ImportSplice ==
    /\ res = "run" /\ cur <= Len(toks) /\ toks[cur].k = "i"
    /\ ~(Guard /\ InChain(toks[cur].x, toks[cur].ch))
    /\ (Guard \/ Len(toks) < MaxLen)
    /\ LET y == toks[cur].x IN
       toks' = SubSeq(toks, 1, cur - 1) \o Body(g, y, Append(toks[cur].ch, y)) \o SubSeq(toks, cur + 1, Len(toks))
    /\ UNCHANGED <<g, cur, res>>

Finish ==
    /\ res = "run" /\ cur > Len(toks)
    /\ res' = "ok"
    /\ UNCHANGED <<g, toks, cur>>

Next == StepMarker \/ ImportCycle \/ ImportSplice \/ Finish
Spec == Init /\ [][Next]_vars /\ WF_vars(Next)

\* ============================ declarative properties =================================
RECURSIVE ReachFrom(_, _, _)
ReachFrom(gr, S, seen) ==
    LET new == (UNION {gr[x] : x \in S}) \ seen
    IN  IF new = {} THEN seen ELSE ReachFrom(gr, new, seen \cup new)
Reach(gr, x) == ReachFrom(gr, {x}, {})            \* reachable from x in one or more imports
Live(gr)     == {Root} \cup Reach(gr, Root)       \* what parsing F1 can ever look at
Cyclic(gr)   == \E x \in Live(gr) : x \in Reach(gr, x)

\* textual inclusion (only evaluated on acyclic graphs)
RECURSIVE Inclusion(_, _), Concat(_, _, _)
Concat(gr, ys, i) == IF i > Len(ys) THEN <<>> ELSE Inclusion(gr, ys[i]) \o Concat(gr, ys, i + 1)
Inclusion(gr, x)  == <<"b" \o x>> \o Concat(gr, Targets(gr, x), 1) \o <<"e" \o x>>

Markers == [i \in 1..Len(toks) |-> toks[i].x]

\* the parser stops on every graph (checked under Guard = TRUE; refuted under Guard = FALSE)
Terminates == <>(res # "run")
\* a cycle that parsing can reach is an error, and nothing else is
CycleIsError == (res = "err" => Cyclic(g)) /\ (res = "ok" => ~Cyclic(g))
\* on success the tokens are the textual inclusion, in order
InclusionPreserved == res = "ok" => (\A i \in 1..Len(toks) : toks[i].k = "m") /\ Markers = Inclusion(g, Root)
\* why it terminates: an import chain never repeats a node
ChainsRepeatFree == Guard => \A i \in 1..Len(toks) :
                       \A a, b \in 1..Len(toks[i].ch) : a # b => toks[i].ch[a] # toks[i].ch[b]

\* ============================ case emission ========================================
Emit == res # "run" =>
          PrintT(<<"CASE", ToJson([files |-> FileSeq, snips |-> SnipSeq,
                                   g |-> [i \in 1..Len(NodeSeq) |-> Targets(g, NodeSeq[i])],
                                   cyclic |-> Cyclic(g),
                                   exp |-> IF res = "ok" THEN Markers ELSE <<>>])>>)
=============================================================================
