CONSTANT MaxLines = 5
CONSTANT SampleAbove = 4
CONSTANT SampleOneIn = 25
CONSTANT PoolSel = "main"
CONSTANT ExecMode = "canon"
CONSTANT CompileMode = "outerfirst"
INIT Init
NEXT AddLine
INVARIANT Emit
CHECK_DEADLOCK FALSE
