---------------------------- MODULE ReplacerVocab ----------------------------
(***************************************************************************)
(* The placeholder VOCABULARY of httpserver.Replacer (extension of C20).   *)
(*                                                                         *)
(* Replacer.tla models HOW a format string is scanned (single pass,        *)
(* escapes, unknown names) over five placeholders.  This module models     *)
(* WHAT every placeholder of caskethttp/httpserver/replacer.go             *)
(* getSubstitution evaluates to, as a function of an abstract exchange:    *)
(* request line and target form, headers (repeated ones too), cookies,     *)
(* query, remote address, TLS state, rewrite history, request body,        *)
(* response status / size / headers and clock readings.                    *)
(*                                                                         *)
(* One behaviour = one exchange on one of four sites                       *)
(*                                                                         *)
(*   p1  :port          p2  :port/base         (plaintext listener)        *)
(*   t1  a.b.test:port  t2  a.b.test:port/base (tls self_signed,           *)
(*                                              clients request)           *)
(*                                                                         *)
(* each configured with  limits { body /lim LIM } ; request_id ;           *)
(* log / file "<ALL placeholders>" (p2, t2: ipmask) ;                      *)
(* rewrite { r ^/rw/<rest>$ ; to /nw/{1}?rq=1 }   (<rest> = a capture    *)
(* group of any characters but LF) ;                                       *)
(* header / X-Vocab "<ALL placeholders>" ; basicauth /auth alice pw ;      *)
(* proxy /px backend { header_upstream X-Up-Body "[{request_body}]" } (the *)
(* backend reports the body it received) ; verifprobe (scripted innermost  *)
(* handler).                                                               *)
(*                                                                         *)
(* Actions, one per step the code takes, in the order the chain runs:      *)
(*   NetRead       net/http delivers the head: r.Host, r.URL, the body     *)
(*   Mitm          tlsHandler: verdict only with a browser User-Agent      *)
(*   CopyURL       Server.ServeHTTP: OriginalURLCtxKey <- copy of r.URL    *)
(*   MakeReplacer  NewReplacer: r.Body becomes a tee into the limited      *)
(*                 buffer, the custom-replacement map is created           *)
(*   TrimPrefix    serveHTTP: the site's path scope is cut off r.URL       *)
(*   Limits        limits: r.Body wrapped in MaxBytesReader under /lim     *)
(*   RequestID     request_id: context value                               *)
(*   LogEnter      log: recorder (start time), replacer with marker "-"    *)
(*   Rewrite       rewrite: Set("1", capture), r.URL.Path / RawQuery       *)
(*   HdrEval       header: getSubstitution of ONE placeholder of the rule  *)
(*                 (recorder nil, marker "")  - the response does not      *)
(*                 exist yet                                               *)
(*   BasicAuth     basicauth: Set("user", name), 401 or pass               *)
(*   InnerRead InnerSleep InnerRespond   the scripted handler              *)
(*   ProxyOutreq ProxyRule ProxyForward   proxy: the outgoing request is   *)
(*                 made (X-Forwarded-For), the header_upstream rule is     *)
(*                 expanded, the backend reads the outgoing request's body *)
(*   LogFailover   log: status >= 400 came back unwritten                  *)
(*   IpMask        log: Set("remote", masked) (sites p2, t2)               *)
(*   LogEval       log: getSubstitution of ONE placeholder of the format   *)
(*   WriteLine     log: Println of the entry                               *)
(*   NetFinish     net/http puts the response on the wire                  *)
(*                                                                         *)
(* The guarantees are written declaratively in section 8 as functions of   *)
(* the exchange as it was SENT (x), not of the state the steps built.      *)
(*                                                                         *)
(* FIX_* = TRUE is the repaired design (what /repo does now); with one of  *)
(* them FALSE TLC refutes an invariant (ReplacerVocab_asfound*.cfg).       *)
(*                                                                         *)
(* Deliberate deviations: byte strings are sequences of tokens - a token   *)
(* is one special character ("/", "%", LF ...), one percent-escape as      *)
(* written ("%0A"), or a word of unreserved characters that no escaping    *)
(* touches; tokens starting with "@" are values only the harness knows     *)
(* (ports, certificate fields, clock readings) and are compared there.     *)
(* The clock is logical: every step takes one tick.                        *)
(***************************************************************************)
EXTENDS Naturals, Sequences, FiniteSets, TLC, Json

CONSTANTS EMIT,          \* print one CASE line per finished exchange
          Tier,          \* "quick" | "thorough": size of the families of exchanges
          NMix,          \* number of mixed exchanges (all components vary together)
          FIX_LOGSAFE,   \* log: CR / LF inside expanded values are written as \r \n
          FIX_BODY,      \* {request_body}: what it read ahead of the handlers is handed out again
          FIX_TLS13,     \* {tls_cipher}: TLS 1.3 suites have a name
          FIX_NOUSER,    \* basicauth: no user name supplied -> {user} stays absent (marker), not ""
          FIX_XFF        \* proxy: X-Forwarded-For is set on a copy of the header map, not on the incoming request's

LF == "\n"
CR == "\r"
MaxLog == 102400         \* httpserver.MaxLogBodySize
LIM == 25                \* limits { body /lim 25 }

\* ---- 1. tokens ------------------------------------------------------------------------------
RECURSIVE Flat(_)
Flat(ss) == IF ss = << >> THEN << >> ELSE Head(ss) \o Flat(Tail(ss))
Has(s, t) == \E i \in 1..Len(s) : s[i] = t
LastIdx(s, t) == IF Has(s, t) THEN CHOOSE i \in 1..Len(s) : s[i] = t /\ \A j \in (i + 1)..Len(s) : s[j] # t ELSE 0
FirstIdx(s, t) == IF Has(s, t) THEN CHOOSE i \in 1..Len(s) : s[i] = t /\ \A j \in 1..(i - 1) : s[j] # t ELSE 0
From(s, i) == SubSeq(s, i, Len(s))
Upto(s, i) == SubSeq(s, 1, i)
\* strings.Split on a separator token
RECURSIVE SplitOn(_, _)
SplitOn(s, t) == LET i == FirstIdx(s, t) IN IF i = 0 THEN << s >> ELSE << Upto(s, i - 1) >> \o SplitOn(From(s, i + 1), t)
\* strings.Join
RECURSIVE JoinWith(_, _)
JoinWith(ss, sep) == IF ss = << >> THEN << >> ELSE IF Len(ss) = 1 THEN ss[1] ELSE ss[1] \o sep \o JoinWith(Tail(ss), sep)

\* url.QueryEscape, token by token (a word is left alone)
QE(t) == CASE t = "/" -> "%2F" [] t = "%" -> "%25" [] t = " " -> "+" [] t = LF -> "%0A" [] t = CR -> "%0D"
           [] t = "?" -> "%3F" [] t = "=" -> "%3D" [] t = "&" -> "%26" [] t = "+" -> "%2B" [] t = ":" -> "%3A"
           [] t = "{" -> "%7B" [] t = "}" -> "%7D"
           [] t = "%0A" -> "%250A" [] t = "%0D" -> "%250D" [] t = "%2F" -> "%252F" [] t = "%25" -> "%2525"
           [] t = "%20" -> "%2520" [] t = "%61" -> "%2561" [] t = "%7B" -> "%257B" [] t = "%7D" -> "%257D"
           [] OTHER -> t
QEsc(s) == [i \in 1..Len(s) |-> QE(s[i])]
\* the default encoding of a path (URL.EscapedPath when RawPath does not fit): net/url escape(.., encodePath)
PE(t) == CASE t = "%" -> "%25" [] t = " " -> "%20" [] t = LF -> "%0A" [] t = CR -> "%0D" [] t = "?" -> "%3F" [] OTHER -> t
PathEsc(s) == [i \in 1..Len(s) |-> PE(s[i])]
\* url.QueryUnescape of one token of a raw query
QD(t) == CASE t = "+" -> " " [] t = "%0A" -> LF [] t = "%0D" -> CR [] t = "%2F" -> "/" [] t = "%25" -> "%"
           [] t = "%20" -> " " [] t = "%7B" -> "{" [] t = "%7D" -> "}" [] OTHER -> t
QDec(s) == [i \in 1..Len(s) |-> QD(s[i])]
\* requestReplacer (and, repaired, the log entry): CR and LF written as backslash-r, backslash-n
NE(t) == IF t = CR THEN "\\r" ELSE IF t = LF THEN "\\n" ELSE t
EscNL(s) == [i \in 1..Len(s) |-> NE(s[i])]
\* net/http writing a response header value: CR and LF become spaces
HS(t) == IF t \in {CR, LF} THEN " " ELSE t
HdrSafe(s) == [i \in 1..Len(s) |-> HS(s[i])]
RawNL(s) == Has(s, CR) \/ Has(s, LF)

\* ---- 2. the alphabets ---------------------------------------------------------------------------
\* path units: c = the decoded token, w = the token as written on the wire
U(c) == [c |-> c, w |-> c]
E(c, w) == [c |-> c, w |-> w]
Us(ts) == [i \in 1..Len(ts) |-> U(ts[i])]
PT(id) ==
    CASE id = "/"             -> Us(<<"/">>)
      [] id = "/x"            -> Us(<<"/", "x">>)
      [] id = "/d/f.txt"      -> Us(<<"/", "d", "/", "f.txt">>)
      [] id = "/d/"           -> Us(<<"/", "d", "/">>)
      [] id = "/a%0Ab"        -> <<U("/"), U("a"), E(LF, "%0A"), U("b")>>
      [] id = "/a%0D%0Ab/c"   -> <<U("/"), U("a"), E(CR, "%0D"), E(LF, "%0A"), U("b"), U("/"), U("c")>>
      [] id = "/c%2Fd%25"     -> <<U("/"), U("c"), E("/", "%2F"), U("d"), E("%", "%25")>>
      [] id = "/s%20t"        -> <<U("/"), U("s"), E(" ", "%20"), U("t")>>
      [] id = "/%61"          -> <<U("/"), E("a", "%61")>>
      [] id = "/rw/x"         -> Us(<<"/", "rw", "/", "x">>)
      [] id = "/rw/x%2Fy"     -> Us(<<"/", "rw", "/", "x">>) \o <<E("/", "%2F"), U("y")>>
      [] id = "/rw/s%20t"     -> Us(<<"/", "rw", "/", "s">>) \o <<E(" ", "%20"), U("t")>>
      [] id = "/rw/a%0Ab"     -> Us(<<"/", "rw", "/", "a">>) \o <<E(LF, "%0A"), U("b")>>
      [] id = "/rw/a%0Db"     -> Us(<<"/", "rw", "/", "a">>) \o <<E(CR, "%0D"), U("b")>>
      [] id = "/base"         -> Us(<<"/", "base">>)
      [] id = "/base/x"       -> Us(<<"/", "base", "/", "x">>)
      [] id = "/base/rw/x"    -> Us(<<"/", "base", "/", "rw", "/", "x">>)
      [] id = "/base/a%0Ab"   -> Us(<<"/", "base", "/", "a">>) \o <<E(LF, "%0A"), U("b")>>
      [] id = "/auth/z"       -> Us(<<"/", "auth", "/", "z">>)
      [] id = "/base/auth/z"  -> Us(<<"/", "base", "/", "auth", "/", "z">>)
      [] id = "/lim/p"        -> Us(<<"/", "lim", "/", "p">>)
      [] id = "/base/lim/p"   -> Us(<<"/", "base", "/", "lim", "/", "p">>)
      [] id = "/px/p"         -> Us(<<"/", "px", "/", "p">>)
      [] id = "/base/px/p"    -> Us(<<"/", "base", "/", "px", "/", "p">>)
AllPaths == {"/", "/x", "/d/f.txt", "/d/", "/a%0Ab", "/a%0D%0Ab/c", "/c%2Fd%25", "/s%20t", "/%61", "/rw/x", "/rw/x%2Fy",
             "/rw/s%20t", "/rw/a%0Ab", "/rw/a%0Db", "/base", "/base/x", "/base/rw/x", "/base/a%0Ab", "/auth/z",
             "/base/auth/z", "/lim/p", "/base/lim/p", "/px/p", "/base/px/p"}
Dec(us) == [i \in 1..Len(us) |-> us[i].c]
Wr(us) == [i \in 1..Len(us) |-> us[i].w]

\* raw queries, as written; "-" = the target has no "?"
QT(id) ==
    CASE id = "-"      -> << >>
      [] id = "force"  -> << >>                                           \* "/x?"  (URL.ForceQuery)
      [] id = "q=v"    -> <<"q", "=", "v">>
      [] id = "multi"  -> <<"q", "=", "1", "%0A", "2", "&", "q", "=", "x", "&", "z">>
      [] id = "enc"    -> <<"k", "=", "v", "&", "q", "=", "a", "+", "b", "%2F", "c", "%25">>
      [] id = "crlf"   -> <<"q", "=", "%0D", "%0A", "x">>
      [] id = "bare"   -> <<"q">>
      [] id = "brace"  -> <<"q", "=", "%7B", "method", "%7D">>
AllQueries == {"-", "force", "q=v", "multi", "enc", "crlf", "bare", "brace"}
HasQMark(id) == id # "-"

\* Host values; "@port" = the port of the listener the request is sent to
HT(id) ==
    CASE id = "a.b.test:{port}"   -> <<"a", ".", "b", ".", "test", ":", "@port">>
      [] id = "a.b.test"          -> <<"a", ".", "b", ".", "test">>
      [] id = "A.B.Test:{port}"   -> <<"A", ".", "B", ".", "Test", ":", "@port">>
      [] id = "[::1]:{port}"      -> <<"[", "::1", "]", ":", "@port">>
      [] id = "[::1]"             -> <<"[", "::1", "]">>
      [] id = "localhost:{port}"  -> <<"localhost", ":", "@port">>
      [] id = "a.b.c.d.test"      -> <<"a", ".", "b", ".", "c", ".", "d", ".", "test">>
PlainHosts == {"a.b.test:{port}", "a.b.test", "A.B.Test:{port}", "[::1]:{port}", "[::1]", "localhost:{port}", "a.b.c.d.test"}
TLSHosts == {"a.b.test:{port}", "a.b.test", "A.B.Test:{port}"}    \* the TLS sites are keyed a.b.test (strict SNI / Host)

\* Cookie header lines, each a list of name=value pairs
CK(n, v) == [n |-> n, v |-> v]
CT(id) ==
    CASE id = "-"        -> << >>
      [] id = "one"      -> << <<CK("c", "cv")>> >>
      [] id = "second"   -> << <<CK("d", "e"), CK("c", "cv")>> >>
      [] id = "dup"      -> << <<CK("c", "one"), CK("c", "two")>> >>
      [] id = "twolines" -> << <<CK("d", "e")>>, <<CK("c", "cv")>> >>
AllCookies == {"-", "one", "second", "dup", "twolines"}

\* X-In header lines (values)
XT(id) ==
    CASE id = "-" -> << >> [] id = "one" -> << <<"one">> >> [] id = "two" -> << <<"one">>, <<"two">> >>
      [] id = "empty" -> << << >> >> [] id = "brace" -> << <<"{", "method", "}">> >>
AllXIns == {"-", "one", "two", "empty", "brace"}

\* Authorization: Basic <base64(user:password)>; the user name sent
AuthUser(id) == CASE id = "good" -> <<"alice">> [] id = "bad" -> <<"mallory">> [] id = "lf" -> <<"a", LF, "b">> [] OTHER -> << >>
AllAuths == {"-", "good", "bad", "lf"}

\* request bodies: sequences of pieces with a size in bytes
BSize(t) == CASE t = "{\"a\":1," -> 7 [] t = CR -> 1 [] t = LF -> 1 [] t = "\"b\":2}" -> 6 [] t = "0123456789" -> 10
              [] t = "@fill" -> MaxLog - 25 [] t = "OVERF" -> 5
J1 == <<"{\"a\":1,", CR, LF, "\"b\":2}">>                           \* 15 bytes, contains a line break
BT(id) ==
    CASE id = "-"        -> << >>
      [] id = "small"    -> J1
      [] id = "limexact" -> J1 \o <<"0123456789">>                     \* exactly LIM bytes
      [] id = "limover"  -> J1 \o <<"0123456789", "OVERF">>            \* LIM + 5
      [] id = "logexact" -> J1 \o <<"0123456789", "@fill">>            \* exactly MaxLog bytes
      [] id = "logover"  -> J1 \o <<"0123456789", "@fill", "OVERF">>   \* MaxLog + 5
AllBodies == {"-", "small", "limexact", "limover", "logexact", "logover"}
BigBodies == {"logexact", "logover"}
RECURSIVE Bytes(_)
Bytes(s) == IF s = << >> THEN 0 ELSE BSize(Head(s)) + Bytes(Tail(s))
\* the longest prefix of whole pieces that fits into n bytes
RECURSIVE TakeBytes(_, _)
TakeBytes(s, n) == IF s = << >> \/ BSize(Head(s)) > n THEN << >> ELSE <<Head(s)>> \o TakeBytes(Tail(s), n - BSize(Head(s)))

\* Content-Type header lines; can = canLogRequest finds application/json or application/xml in one of them
CTY(id) ==
    CASE id = "-"      -> [v |-> << >>, can |-> FALSE]
      [] id = "json"   -> [v |-> << <<"application/json">> >>, can |-> TRUE]
      [] id = "jsoncs" -> [v |-> << <<"application/json; charset=utf-8">> >>, can |-> TRUE]
      [] id = "xml"    -> [v |-> << <<"application/xml">> >>, can |-> TRUE]
      [] id = "text"   -> [v |-> << <<"text/plain">> >>, can |-> FALSE]
      [] id = "two"    -> [v |-> << <<"text/plain">>, <<"application/xml">> >>, can |-> TRUE]
AllCTypes == {"-", "json", "jsoncs", "xml", "text", "two"}

\* scripts of the innermost handler (verifprobe)
Scr(id) ==
    CASE id = "plain"  -> [read |-> FALSE, sleep |-> 0, status |-> 200, xresp |-> << >>, text |-> "ok", ret |-> 0]
      [] id = "read"   -> [read |-> TRUE, sleep |-> 0, status |-> 200, xresp |-> << >>, text |-> "@report", ret |-> 0]
      [] id = "resp"   -> [read |-> FALSE, sleep |-> 0, status |-> 201, xresp |-> << <<"r1">>, <<"r2">> >>, text |-> "hello", ret |-> 0]
      [] id = "resp1"  -> [read |-> FALSE, sleep |-> 0, status |-> 200, xresp |-> << <<"solo">> >>, text |-> "ok", ret |-> 0]
      [] id = "sleep"  -> [read |-> FALSE, sleep |-> 40, status |-> 200, xresp |-> << >>, text |-> "ok", ret |-> 0]
      [] id = "e404"   -> [read |-> FALSE, sleep |-> 0, status |-> 0, xresp |-> << >>, text |-> "", ret |-> 404]
AllInners == {"plain", "read", "resp", "resp1", "sleep", "e404"}

\* the connection: listener, TLS version, client certificate
CN(id) ==
    CASE id = "P"    -> [tls |-> "-", cert |-> FALSE]
      [] id = "T12"  -> [tls |-> "1.2", cert |-> FALSE]
      [] id = "T12c" -> [tls |-> "1.2", cert |-> TRUE]
      [] id = "T13"  -> [tls |-> "1.3", cert |-> FALSE]
      [] id = "T13c" -> [tls |-> "1.3", cert |-> TRUE]
AllConns == {"P", "T12", "T12c", "T13", "T13c"}
IsTLS(c) == c # "P"

\* ---- 3. the vocabulary ----------------------------------------------------------------------------
\* every name the switch of getSubstitution knows
FixedNames == <<"method", "scheme", "hostname", "host", "hostonly", "path", "path_escaped", "request_id", "rewrite_path",
                "rewrite_path_escaped", "query", "query_escaped", "fragment", "proto", "remote", "port", "uri", "uri_escaped",
                "rewrite_uri", "rewrite_uri_escaped", "when", "when_iso_local", "when_iso", "when_unix", "when_unix_ms",
                "file", "dir", "request", "request_body", "mitm", "status", "size", "latency", "latency_ms", "tls_protocol",
                "tls_cipher", "tls_client_escaped_cert", "tls_client_fingerprint", "tls_client_i_dn", "tls_client_raw_cert",
                "tls_client_s_dn", "tls_client_serial", "tls_client_v_end", "tls_client_v_remain", "tls_client_v_start",
                "server_port">>
\* the forms recognised by their first character (key[1]) or prefix
PrefixForms == <<">", "<", "~", "?", "$", "label">>
PrefixNames == <<">X-In", ">x-in", ">X-None", "<X-Resp", "<Server", "<X-None", "~c", "~none", "?q", "?rq", "?none",
                 "$VERIF_CX20_ENV", "label1", "label2", "label3", "label4", "label5", "label0", "labelx">>
\* set by other middleware with Replacer.Set (basicauth, rewrite; log's ipmask sets "remote", a built-in)
CustomNames == <<"user", "1">>
\* not in the vocabulary at all
UnknownNames == <<"nosuch", "tls_version", "">>
\* the log format and the value of the header rule: all of them, in this order
Names == FixedNames \o PrefixNames \o CustomNames \o UnknownNames
NN == Len(Names)
IsFixed(n) == \E i \in 1..Len(FixedNames) : FixedNames[i] = n
Kind(n) == IF IsFixed(n) THEN "fixed"
           ELSE IF \E i \in 1..Len(CustomNames) : CustomNames[i] = n THEN "custom"
           ELSE IF \E i \in 1..Len(UnknownNames) : UnknownNames[i] = n THEN "unknown" ELSE "prefix"

\* ---- 4. the exchanges ----------------------------------------------------------------------------
X(c, ua, ver, m, form, host, path, query, xin, cookie, auth, body, ctype, chunked, inner) ==
    [conn |-> c, ua |-> ua, ver |-> ver, m |-> m, form |-> form, host |-> host, path |-> path, query |-> query, xin |-> xin,
     cookie |-> cookie, auth |-> auth, body |-> body, ctype |-> ctype, chunked |-> chunked, inner |-> inner]
DefHost(c) == IF IsTLS(c) THEN "a.b.test" ELSE "a.b.test:{port}"
Plain(c, path, query) == X(c, "-", "1.1", "GET", "origin", DefHost(c), path, query, "-", "-", "-", "-", "-", FALSE, "plain")

WellFormed(x) ==
    /\ x.host \in (IF IsTLS(x.conn) THEN TLSHosts ELSE PlainHosts)
    /\ x.chunked => (x.body # "-" /\ x.ver = "1.1")
    /\ x.body \in BigBodies => (x.m = "POST" /\ ~x.chunked /\ x.path \in {"/x", "/base/x"})

Quick == Tier = "quick"
\* the request-target: every path x query x form, on a plaintext and on a TLS connection
FamURL ==
    {X(c, "-", "1.1", "GET", f, DefHost(c), p, q, "-", "-", "-", "-", "-", FALSE, "plain") :
        c \in (IF Quick THEN {"P"} ELSE {"P", "T12", "T13c"}), f \in {"origin", "absolute"},
        p \in AllPaths, q \in (IF Quick THEN {"-", "multi", "force"} ELSE AllQueries)}
    \cup {Plain("P", "/x", q) : q \in AllQueries}
\* Host spellings, versions, connections, User-Agent
FamHost ==
    {X("P", "-", v, "GET", f, h, "/x", "q=v", "-", "-", "-", "-", "-", FALSE, "plain") :
        v \in {"1.1", "1.0"}, f \in {"origin", "absolute"}, h \in PlainHosts}
    \cup {X(c, ua, "1.1", "GET", "origin", h, p, "-", "-", "-", "-", "-", "-", FALSE, "plain") :
        c \in AllConns \ {"P"}, ua \in {"-", "firefox"}, h \in TLSHosts, p \in (IF Quick THEN {"/x"} ELSE {"/x", "/base/rw/x"})}
    \* a User-Agent longer than any limit the server applies to that header elsewhere (the value is request text: verbatim)
    \cup {X(c, "long", "1.1", "GET", "origin", DefHost(c), "/x", "-", "-", "-", "-", "-", "-", FALSE, "plain") : c \in {"P", "T13"}}
\* headers, cookies, credentials
FamHdr ==
    {X(c, "-", "1.1", "GET", "origin", DefHost(c), p, "-", xi, ck, au, "-", "-", FALSE, "plain") :
        c \in (IF Quick THEN {"P"} ELSE {"P", "T12c", "T13"}),
        p \in {"/x", "/auth/z", "/base/auth/z"}, xi \in (IF Quick THEN {"-", "two"} ELSE AllXIns),
        ck \in (IF Quick THEN {"-", "second"} ELSE AllCookies), au \in AllAuths}
    \cup {X("P", "-", "1.1", "GET", "origin", "a.b.test", "/x", "-", xi, ck, "-", "-", "-", FALSE, "plain") : xi \in AllXIns, ck \in AllCookies}
\* request bodies
FamBody ==
    {X(c, "-", "1.1", m, "origin", "a.b.test:{port}", p, "-", "-", "-", "-", b, ct, ch, i) :
        c \in (IF Quick THEN {"P"} ELSE {"P", "T13c"}),
        m \in {"GET", "POST", "PUT"}, p \in (IF Quick THEN {"/x", "/lim/p", "/px/p"} ELSE {"/x", "/lim/p", "/base/lim/p", "/px/p", "/base/px/p"}),
        b \in (IF Quick THEN {"-", "small", "limover"} ELSE AllBodies \ BigBodies),
        ct \in (IF Quick THEN {"json", "two", "text"} ELSE AllCTypes), ch \in BOOLEAN, i \in {"plain", "read"}}
    \cup {X(c, "-", "1.1", "POST", "origin", DefHost(c), p, "-", "-", "-", "-", b, ct, FALSE, i) :
        c \in (IF Quick THEN {"P"} ELSE {"P", "T13"}), p \in (IF Quick THEN {"/x"} ELSE {"/x", "/base/x"}),
        b \in BigBodies, ct \in {"json", "text"}, i \in {"plain", "read"}}
\* what the inner handler answers
FamResp ==
    {X(c, "-", "1.1", "GET", "origin", DefHost(c), p, "q=v", "one", "-", "-", "-", "-", FALSE, i) :
        c \in {"P", "T13c"}, p \in {"/x", "/base/rw/x", "/auth/z"}, i \in AllInners}
\* everything varies together: exchange k takes the (k * prime) mod n -th element of every alphabet
Nth(f, k) == f[(k % Len(f)) + 1]
SeqPaths == <<"/", "/x", "/d/f.txt", "/d/", "/a%0Ab", "/a%0D%0Ab/c", "/c%2Fd%25", "/s%20t", "/%61", "/rw/x", "/rw/x%2Fy",
              "/rw/s%20t", "/rw/a%0Ab", "/rw/a%0Db", "/base", "/base/x", "/base/rw/x", "/base/a%0Ab", "/auth/z",
              "/base/auth/z", "/lim/p", "/base/lim/p", "/px/p", "/base/px/p">>
SeqQueries == <<"-", "force", "q=v", "multi", "enc", "crlf", "bare", "brace">>
SeqConns == <<"P", "T12", "T12c", "T13", "T13c", "P", "P">>
SeqPlainHosts == <<"a.b.test:{port}", "a.b.test", "A.B.Test:{port}", "[::1]:{port}", "[::1]", "localhost:{port}", "a.b.c.d.test">>
SeqTLSHosts == <<"a.b.test:{port}", "a.b.test", "A.B.Test:{port}">>
SeqCookies == <<"-", "one", "second", "dup", "twolines">>
SeqXIns == <<"-", "one", "two", "empty", "brace">>
SeqAuths == <<"-", "good", "bad", "lf">>
SeqBodies == <<"-", "small", "limexact", "limover", "-", "small">>
SeqCTypes == <<"-", "json", "jsoncs", "xml", "text", "two">>
SeqInners == <<"plain", "read", "resp", "resp1", "sleep", "e404", "read", "plain">>
\* (the multipliers are coprime to the lengths; the combinations repeat after 2520 exchanges, from there on q shifts the
\* components against each other)
MixAt(k) ==
    LET q == k \div 2520
        c == Nth(SeqConns, k * 3 + q)
        b == Nth(SeqBodies, k * 11)
    IN  X(c, IF k % 5 = 0 THEN "firefox" ELSE "-", IF k % 9 = 0 /\ b = "-" THEN "1.0" ELSE "1.1",
          Nth(<<"GET", "POST", "PUT", "POST">>, k * 5 + q), IF k % 4 = 0 THEN "absolute" ELSE "origin",
          IF IsTLS(c) THEN Nth(SeqTLSHosts, k * 7 + q) ELSE Nth(SeqPlainHosts, k * 7 + q),
          Nth(SeqPaths, k * 13 + q), Nth(SeqQueries, k * 17 + 2 * q), Nth(SeqXIns, k * 19 + 3 * q), Nth(SeqCookies, k * 23 + q),
          Nth(SeqAuths, k * 29 + 2 * q), b, Nth(SeqCTypes, k * 31 + q), b # "-" /\ k % 3 = 0 /\ ~(k % 9 = 0), Nth(SeqInners, k * 37 + 3 * q))
FamMix == {MixAt(k) : k \in 1..NMix}

Exchanges == {x \in FamURL \cup FamHost \cup FamHdr \cup FamBody \cup FamResp \cup FamMix : WellFormed(x)}

\* ---- 5. what the wire says (functions of x only) ----------------------------------------------------
Conn(x) == CN(x.conn)
Units(x) == PT(x.path)
HostToks(x) == HT(x.host)
RawQ(x) == QT(x.query)
Scoped(x) == LET d == Dec(Units(x)) IN Len(d) >= 2 /\ d[1] = "/" /\ d[2] = "base"       \* site p2 / t2 answers
SiteOf(x) == (IF IsTLS(x.conn) THEN "t" ELSE "p") \o (IF Scoped(x) THEN "2" ELSE "1")
Scheme(x) == IF IsTLS(x.conn) THEN "https" ELSE "http"
\* the request-target exactly as written
TargetToks(x) ==
    (IF x.form = "absolute" THEN <<Scheme(x), "://">> \o HostToks(x) ELSE << >>)
    \o Wr(Units(x)) \o (IF HasQMark(x.query) THEN <<"?">> \o RawQ(x) ELSE << >>)
HasBody(x) == x.body # "-"
HasCL(x) == HasBody(x) /\ ~x.chunked
\* the header block net/http hands over, sorted by canonical name as Header.Write does: lines [n, v]
HL(n, v) == [n |-> n, v |-> v]
CookieLine(ps) == JoinWith([i \in 1..Len(ps) |-> <<ps[i].n, "=", ps[i].v>>], <<"; ">>)
HeaderLines(x) ==
    (IF x.auth # "-" THEN <<HL("Authorization", <<"Basic ", "@b64." \o x.auth>>)>> ELSE << >>)
    \o (IF HasCL(x) THEN <<HL("Content-Length", <<"@clen">>)>> ELSE << >>)
    \o [i \in 1..Len(CTY(x.ctype).v) |-> HL("Content-Type", CTY(x.ctype).v[i])]
    \o [i \in 1..Len(CT(x.cookie)) |-> HL("Cookie", CookieLine(CT(x.cookie)[i]))]
    \o (IF x.ua # "-" THEN <<HL("User-Agent", <<"@ua">>)>> ELSE << >>)
    \o [i \in 1..Len(XT(x.xin)) |-> HL("X-In", XT(x.xin)[i])]
    \o <<HL("X-Probe", <<"@probe">>)>>
HeaderValues(x, name) == LET ls == SelectSeq(HeaderLines(x), LAMBDA l : l.n = name) IN [i \in 1..Len(ls) |-> ls[i].v]

\* net.SplitHostPort on tokens: [ok, host, port]
SplitHostPort(h) ==
    LET i == LastIdx(h, ":") IN
    IF i = 0 THEN [ok |-> FALSE, host |-> h, port |-> << >>]                                   \* missing port
    ELSE IF h[1] = "["
         THEN LET e == FirstIdx(h, "]") IN
              IF e # 0 /\ e + 1 = i THEN [ok |-> TRUE, host |-> SubSeq(h, 2, e - 1), port |-> From(h, i + 1)]
              ELSE [ok |-> FALSE, host |-> h, port |-> << >>]
         ELSE IF FirstIdx(h, ":") # i THEN [ok |-> FALSE, host |-> h, port |-> << >>]         \* too many colons
         ELSE [ok |-> TRUE, host |-> Upto(h, i - 1), port |-> From(h, i + 1)]

\* URL.Query().Get(name) on a raw query: first pair whose decoded key is the name
PairKey(p) == LET i == FirstIdx(p, "=") IN QDec(IF i = 0 THEN p ELSE Upto(p, i - 1))
PairVal(p) == LET i == FirstIdx(p, "=") IN IF i = 0 THEN << >> ELSE QDec(From(p, i + 1))
QueryGet(raw, name) ==
    LET ps == SelectSeq(SplitOn(raw, "&"), LAMBDA p : p # << >> /\ PairKey(p) = <<name>>)
    IN  IF ps = << >> THEN << >> ELSE PairVal(ps[1])
\* Request.Cookie(name): the first cookie of that name in any Cookie line
CookieGet(lines, name) ==
    LET ps == SelectSeq(Flat(lines), LAMBDA p : p.n = name)
    IN  IF ps = << >> THEN [ok |-> FALSE, v |-> << >>] ELSE [ok |-> TRUE, v |-> <<ps[1].v>>]

\* path.Split
DirOf(p) == Upto(p, LastIdx(p, "/"))
FileOf(p) == From(p, LastIdx(p, "/") + 1)

\* the URL as net/url holds it: dec = Path, esc = EscapedPath(), q = RawQuery, fq = ForceQuery
URL(dec, esc, q, fq) == [dec |-> dec, esc |-> esc, q |-> q, fq |-> fq]
ParsedURL(x) == URL(Dec(Units(x)), Wr(Units(x)), RawQ(x), x.query = "force")
RequestURI(u) == (IF u.esc = << >> THEN <<"/">> ELSE u.esc) \o (IF u.fq \/ u.q # << >> THEN <<"?">> \o u.q ELSE << >>)

\* httputil.DumpRequest(r, false) with CR LF written as \r\n (two characters each)
EOL == <<"\\r\\n">>
Dump(x, lines) ==
    <<x.m, " ">> \o TargetToks(x) \o <<" ", "HTTP/" \o x.ver>> \o EOL
    \o (IF x.form = "absolute" THEN << >> ELSE <<"Host: ">> \o HostToks(x) \o EOL)
    \o (IF x.chunked THEN <<"Transfer-Encoding: chunked">> \o EOL ELSE << >>)
    \o Flat([i \in 1..Len(lines) |-> <<lines[i].n, ": ">> \o lines[i].v \o EOL])
    \o EOL

CanLogBody(x) == x.m \in {"POST", "PUT"} /\ CTY(x.ctype).can

\* ---- 6. state -------------------------------------------------------------------------------------
VARIABLES
    x,          \* the exchange (never changes)
    hdrs,       \* r.Header as the chain (and the log's replacer) sees it: lines [n, v] sorted by name
    pc,
    url,        \* r.URL as the chain sees it now
    orig,       \* the copy under OriginalURLCtxKey
    pre,        \* log's preURL: the URL as the log middleware received it
    custom,     \* customReplacements: a set of [k, v]
    body,       \* r.Body: [src: pieces not yet read from the connection, ahead: pieces handed back, lim: bytes MaxBytesReader
                \*          still lets through (MaxLog * 2 = no such wrapper), err: the sticky error]
    tee,        \* the limitWriter behind {request_body}
    ctx,        \* context values: [reqid, mitm]
    rec,        \* log's ResponseRecorder: [on, start, status, size, hdr]
    clk,        \* the logical clock
    ret,        \* status travelling back up the chain
    inner,      \* what the innermost handler (or the proxy's backend) did: [ran, data, err]
    upOut,      \* the value of the header_upstream rule the backend received
    k,          \* index of the placeholder being expanded
    hdrOut,     \* values of the header rule, one per placeholder
    logOut,     \* values of the log entry
    whenH, whenL,   \* clock readings of the {when*} placeholders
    entry,      \* the entry as written to the log file: one value per placeholder
    wire        \* what the client gets: [status, xvocab, xresp]
vars == <<x, hdrs, pc, url, orig, pre, custom, body, tee, ctx, rec, clk, ret, inner, upOut, k, hdrOut, logOut, whenH, whenL, entry, wire>>

NoLim == MaxLog * 2
NoURL == URL(<<"?">>, <<"?">>, << >>, FALSE)
Init ==
    /\ x \in Exchanges
    /\ hdrs = << >>
    /\ pc = "read" /\ url = NoURL /\ orig = NoURL /\ pre = NoURL /\ custom = {}
    /\ body = [src |-> << >>, ahead |-> << >>, lim |-> NoLim, err |-> "-"] /\ tee = [on |-> FALSE, buf |-> << >>]
    /\ ctx = [reqid |-> FALSE, mitm |-> "-"] /\ rec = [on |-> FALSE, start |-> 0, status |-> 0, body |-> << >>, hdr |-> << >>]
    /\ clk = 0 /\ ret = 0 /\ inner = [ran |-> FALSE, data |-> << >>, err |-> "-"] /\ upOut = << >>
    /\ k = 0 /\ hdrOut = << >> /\ logOut = << >> /\ whenH = << >> /\ whenL = << >> /\ entry = << >>
    /\ wire = [status |-> 0, xvocab |-> << >>, xresp |-> << >>]

Tick == clk' = clk + 1
Step(from, to) == pc = from /\ pc' = to /\ Tick

\* ---- 7. the steps -----------------------------------------------------------------------------------
NetRead ==      \* net/http: r.URL parsed from the target, r.Body the declared body
    /\ Step("read", IF IsTLS(x.conn) THEN "mitm" ELSE "copyurl")
    /\ url' = ParsedURL(x)
    /\ body' = [body EXCEPT !.src = BT(x.body)]
    /\ hdrs' = HeaderLines(x)
    /\ UNCHANGED <<x, orig, pre, custom, tee, ctx, rec, ret, inner, upOut, k, hdrOut, logOut, whenH, whenL, entry, wire>>

Mitm ==         \* tlsHandler.ServeHTTP: a verdict only for a browser's User-Agent; Go's hello is no browser's
    /\ Step("mitm", "copyurl")
    /\ ctx' = [ctx EXCEPT !.mitm = IF x.ua = "firefox" THEN "likely" ELSE "-"]
    /\ UNCHANGED <<x, hdrs, url, orig, pre, custom, body, tee, rec, ret, inner, upOut, k, hdrOut, logOut, whenH, whenL, entry, wire>>

CopyURL ==      \* urlCopy := *r.URL; context.WithValue(.., OriginalURLCtxKey, urlCopy)
    /\ Step("copyurl", "replacer")
    /\ orig' = url
    /\ UNCHANGED <<x, hdrs, url, pre, custom, body, tee, ctx, rec, ret, inner, upOut, k, hdrOut, logOut, whenH, whenL, entry, wire>>

MakeReplacer == \* NewReplacer: r.Body = TeeReader(r.Body, newLimitWriter(MaxLogBodySize)); customReplacements = {}
    /\ Step("replacer", "trim")
    /\ tee' = [on |-> TRUE, buf |-> << >>]
    /\ custom' = {}
    /\ UNCHANGED <<x, hdrs, url, orig, pre, body, ctx, rec, ret, inner, upOut, k, hdrOut, logOut, whenH, whenL, entry, wire>>

\* serveHTTP: the site keyed :port/base sees the path with the base cut off (trimPathPrefix, see ServerFront.tla)
LeadSlash(s) == IF s # << >> /\ s[1] = "/" THEN s ELSE <<"/">> \o s
TrimPrefix ==
    /\ Step("trim", "limits")
    /\ url' = IF Scoped(x) THEN [url EXCEPT !.dec = LeadSlash(From(url.dec, 3)), !.esc = LeadSlash(From(url.esc, 3))] ELSE url
    /\ UNCHANGED <<x, hdrs, orig, pre, custom, body, tee, ctx, rec, ret, inner, upOut, k, hdrOut, logOut, whenH, whenL, entry, wire>>

PathUnder(p, seg) == Len(p) >= 2 /\ p[1] = "/" /\ p[2] = seg /\ (Len(p) = 2 \/ p[3] = "/")     \* httpserver.Path.Matches
Limits ==       \* limits: r.Body = MaxBytesReader(w, r.Body, LIM) for paths under /lim
    /\ Step("limits", "reqid")
    /\ body' = IF PathUnder(url.dec, "lim") THEN [body EXCEPT !.lim = LIM] ELSE body
    /\ UNCHANGED <<x, hdrs, url, orig, pre, custom, tee, ctx, rec, ret, inner, upOut, k, hdrOut, logOut, whenH, whenL, entry, wire>>

RequestID ==    \* request_id: context value RequestIDCtxKey
    /\ Step("reqid", "logenter")
    /\ ctx' = [ctx EXCEPT !.reqid = TRUE]
    /\ UNCHANGED <<x, hdrs, url, orig, pre, custom, body, tee, rec, ret, inner, upOut, k, hdrOut, logOut, whenH, whenL, entry, wire>>

LogEnter ==     \* log: NewResponseRecorder(w) (start = now), NewReplacer(r, recorder, "-")
    /\ Step("logenter", "rewrite")
    /\ rec' = [rec EXCEPT !.on = TRUE, !.start = clk, !.hdr = << [n |-> "Server", v |-> <<"@appname">>] >>]
    /\ pre' = url                                                            \* preURL := *r.URL
    /\ UNCHANGED <<x, hdrs, url, orig, custom, body, tee, ctx, ret, inner, upOut, k, hdrOut, logOut, whenH, whenL, entry, wire>>

\* rewrite { r ^/rw/<rest>$ ; to /nw/{1}?rq=1 }, <rest> = a group of dots: "." matches no LF; Set("1", capture); rewrite.To sets Path and RawQuery,
\* RawPath goes stale, so EscapedPath() is the default encoding of the new path
RwMatch(p) == Len(p) >= 3 /\ p[1] = "/" /\ p[2] = "rw" /\ p[3] = "/" /\ ~Has(From(p, 4), LF)
Put(m, key, v) == {e \in m : e.k # key} \cup {[k |-> key, v |-> v]}
Rewrite ==
    /\ Step("rewrite", "hdr")
    /\ IF RwMatch(url.dec)
         THEN LET cap == From(url.dec, 4)
                  np == <<"/", "nw", "/">> \o cap
              IN  /\ custom' = Put(custom, "1", cap)
                  \* rewrite.To: url.Parse refuses a target with a control character - RewriteIgnored, the capture stays stored
                  /\ url' = IF Has(cap, CR) THEN url
                            ELSE [url EXCEPT !.dec = np, !.esc = PathEsc(np), !.q = <<"rq", "=", "1">>]
         ELSE UNCHANGED <<custom, url>>
    /\ k' = 1
    /\ UNCHANGED <<x, hdrs, orig, pre, body, tee, ctx, rec, ret, inner, upOut, hdrOut, logOut, whenH, whenL, entry, wire>>

\* ---- getSubstitution ---------------------------------------------------------------------------------
\* reading the whole body: through MaxBytesReader (if any) and the tee; what was handed back comes first and
\* bypasses both
ReadAll(b) ==
    LET fresh == IF b.err # "-" THEN << >> ELSE TakeBytes(b.src, b.lim)
        over == b.err = "-" /\ Bytes(b.src) > b.lim
    IN  [data |-> b.ahead \o fresh,
         fresh |-> fresh,
         err |-> IF over THEN "max" ELSE b.err,
         after |-> [src |-> From(b.src, Len(fresh) + 1), ahead |-> << >>, lim |-> b.lim - Bytes(fresh),
                    err |-> IF over THEN "max" ELSE b.err]]
TeeAdd(t, pieces) == [t EXCEPT !.buf = TakeBytes(t.buf \o pieces, MaxLog)]

CustomHas(m, key) == \E e \in m : e.k = key
CustomGet(m, key) == (CHOOSE e \in m : e.k = key).v
HdrGet(lines, name) ==      \* strings.Join(values, ",") of a header present under that name (any letter case)
    LET vs == SelectSeq(lines, LAMBDA l : l.n = name) IN
    [ok |-> vs # << >>, v |-> JoinWith([i \in 1..Len(vs) |-> vs[i].v], <<",">>)]
Labels(h) == SplitOn(h, ".")
LabelNo(n) == CASE n = "label1" -> 1 [] n = "label2" -> 2 [] n = "label3" -> 3 [] n = "label4" -> 4 [] n = "label5" -> 5 [] OTHER -> 0
Cert(field) == <<"@cert." \o field>>

\* the value of placeholder n for a replacer made with (withRec, empty) - everything but {request_body}, which reads
Subst(n, withRec, empty) ==
    IF CustomHas(custom, n) THEN CustomGet(custom, n)
    ELSE IF n \in {">X-In", ">x-in", ">X-None"}                         \* strings.EqualFold: any letter case
         THEN LET h == HdrGet(hdrs, IF n = ">X-None" THEN "X-None" ELSE "X-In") IN IF h.ok THEN h.v ELSE empty
    ELSE IF n \in {"<X-Resp", "<Server", "<X-None"}
         THEN IF ~withRec THEN empty
              ELSE LET h == HdrGet(rec.hdr, CASE n = "<X-Resp" -> "X-Resp" [] n = "<Server" -> "Server" [] OTHER -> "X-None") IN
                   IF h.ok THEN h.v ELSE empty
    ELSE IF n \in {"~c", "~none"}
         THEN LET c == CookieGet(CT(x.cookie), IF n = "~c" THEN "c" ELSE "none") IN IF c.ok THEN c.v ELSE empty
    ELSE IF n \in {"?q", "?rq", "?none"}                                 \* the CURRENT r.URL; absent -> "" (not the marker)
         THEN QueryGet(url.q, CASE n = "?q" -> "q" [] n = "?rq" -> "rq" [] OTHER -> "none")
    ELSE IF n = "$VERIF_CX20_ENV" THEN <<"@env">>
    ELSE CASE n = "method" -> <<x.m>>
           [] n = "scheme" -> <<Scheme(x)>>
           [] n = "hostname" -> <<"@hostname">>
           [] n = "host" -> HostToks(x)
           [] n = "hostonly" -> SplitHostPort(HostToks(x)).host
           [] n = "path" -> orig.dec
           [] n = "path_escaped" -> QEsc(orig.dec)
           [] n = "request_id" -> IF ctx.reqid THEN <<"@reqid">> ELSE << >>
           [] n = "rewrite_path" -> url.dec
           [] n = "rewrite_path_escaped" -> QEsc(url.dec)
           [] n = "query" -> orig.q
           [] n = "query_escaped" -> QEsc(orig.q)
           [] n = "fragment" -> << >>
           [] n = "proto" -> <<"HTTP/" \o x.ver>>
           [] n = "remote" -> <<"@remote">>
           [] n = "port" -> <<"@cport">>
           [] n = "uri" -> RequestURI(orig)
           [] n = "uri_escaped" -> QEsc(RequestURI(orig))
           [] n = "rewrite_uri" -> RequestURI(url)
           [] n = "rewrite_uri_escaped" -> QEsc(RequestURI(url))
           [] n = "when" -> <<"@when">>
           [] n = "when_iso_local" -> <<"@when_iso_local">>
           [] n = "when_iso" -> <<"@when_iso">>
           [] n = "when_unix" -> <<"@when_unix">>
           [] n = "when_unix_ms" -> <<"@when_unix_ms">>
           [] n = "file" -> FileOf(url.dec)
           [] n = "dir" -> DirOf(url.dec)
           [] n = "request" -> Dump(x, hdrs)
           [] n = "mitm" -> IF ctx.mitm = "-" THEN <<"unknown">> ELSE <<ctx.mitm>>
           [] n = "status" -> IF withRec THEN <<"@status">> ELSE empty
           [] n = "size" -> IF withRec THEN <<"@size">> ELSE empty
           [] n = "latency" -> IF withRec THEN <<"@latency">> ELSE empty
           [] n = "latency_ms" -> IF withRec THEN <<"@latency_ms">> ELSE empty
           [] n = "tls_protocol" -> IF IsTLS(x.conn) THEN <<"tls" \o Conn(x).tls>> ELSE empty
           [] n = "tls_cipher" -> IF ~IsTLS(x.conn) THEN empty
                                  ELSE IF Conn(x).tls = "1.3" /\ ~FIX_TLS13 THEN <<"UNKNOWN">> ELSE <<"@cipher">>
           [] n = "tls_client_escaped_cert" -> IF Conn(x).cert THEN Cert("escaped") ELSE empty
           [] n = "tls_client_fingerprint" -> IF Conn(x).cert THEN Cert("fingerprint") ELSE empty
           [] n = "tls_client_i_dn" -> IF Conn(x).cert THEN Cert("i_dn") ELSE empty
           [] n = "tls_client_raw_cert" -> IF Conn(x).cert THEN Cert("raw") ELSE empty
           [] n = "tls_client_s_dn" -> IF Conn(x).cert THEN Cert("s_dn") ELSE empty
           [] n = "tls_client_serial" -> IF Conn(x).cert THEN Cert("serial") ELSE empty
           [] n = "tls_client_v_end" -> IF Conn(x).cert THEN Cert("v_end") ELSE empty
           [] n = "tls_client_v_remain" -> IF Conn(x).cert THEN Cert("v_remain") ELSE empty
           [] n = "tls_client_v_start" -> IF Conn(x).cert THEN Cert("v_start") ELSE empty
           [] n = "server_port" -> LET s == SplitHostPort(HostToks(x)) IN
                                   IF s.ok THEN s.port ELSE IF IsTLS(x.conn) THEN <<"443">> ELSE <<"80">>
           [] OTHER ->                                                         \* default: {labelN}, else the marker
                IF n \in {"label1", "label2", "label3", "label4", "label5", "label0", "labelx"}
                  THEN LET i == LabelNo(n) ls == Labels(HostToks(x)) IN
                       IF i < 1 \/ i > Len(ls) THEN empty ELSE ls[i]
                  ELSE empty

IsWhen(n) == n \in {"when", "when_iso_local", "when_iso", "when_unix", "when_unix_ms"}
IsLatency(n) == n \in {"latency", "latency_ms"}

\* the {request_body} branch of getSubstitution, the one placeholder with an effect: it reads the rest of the body
BodyPh(empty) ==
    IF ~CanLogBody(x) THEN [v |-> empty, body |-> body, tee |-> tee]
    ELSE LET r == ReadAll(body)
             t == TeeAdd(tee, r.fresh)
         IN  [v |-> IF r.err = "max" THEN empty ELSE EscNL(t.buf),
              \* repaired: what was read ahead is put back in front of the body; as found the body stays at its end
              body |-> IF FIX_BODY THEN [r.after EXCEPT !.ahead = r.data] ELSE r.after,
              tee |-> t]

\* one getSubstitution call
EvalStep(out, whens, withRec, empty) ==
    LET n == Names[k] IN
    /\ IF n = "request_body" /\ ~CustomHas(custom, n)
         THEN LET b == BodyPh(empty) IN out' = Append(out, b.v) /\ body' = b.body /\ tee' = b.tee
         ELSE out' = Append(out, Subst(n, withRec, empty)) /\ UNCHANGED <<body, tee>>
    /\ whens' = IF IsWhen(n) \/ (IsLatency(n) /\ withRec) THEN Append(whens, [n |-> n, t |-> clk]) ELSE whens   \* now()
    /\ k' = k + 1
    /\ Tick

HdrEval ==      \* header: replacer.Replace(value) - NewReplacer(r, nil, ""): one placeholder
    /\ pc = "hdr" /\ k <= NN
    /\ EvalStep(hdrOut, whenH, FALSE, << >>)
    /\ UNCHANGED <<x, hdrs, pc, url, orig, pre, custom, ctx, rec, ret, inner, upOut, logOut, whenL, entry, wire>>
HdrDone ==      \* rww.Header().Set(name, value); Next.ServeHTTP
    /\ pc = "hdr" /\ k = NN + 1
    /\ pc' = "auth" /\ Tick
    /\ rec' = [rec EXCEPT !.hdr = Append(@, [n |-> "X-Vocab", v |-> <<"@self">>])]
    /\ UNCHANGED <<x, hdrs, url, orig, pre, custom, body, tee, ctx, ret, inner, upOut, k, hdrOut, logOut, whenH, whenL, entry, wire>>

\* basicauth /auth alice pw: the supplied name is recorded with Set("user", ..), also for a refused login
BasicAuth ==
    /\ pc = "auth" /\ Tick
    /\ IF ~PathUnder(url.dec, "auth")
         THEN pc' = (IF PathUnder(url.dec, "px") THEN "proxyout" ELSE "inner") /\ UNCHANGED <<custom, ret>>
         ELSE IF x.auth = "good"
                THEN pc' = "inner" /\ custom' = Put(custom, "user", AuthUser("good")) /\ UNCHANGED ret
                ELSE /\ pc' = "failover" /\ ret' = 401
                     /\ custom' = IF x.auth = "-" /\ FIX_NOUSER THEN custom ELSE Put(custom, "user", AuthUser(x.auth))
    /\ UNCHANGED <<x, hdrs, url, orig, pre, body, tee, ctx, rec, inner, upOut, k, hdrOut, logOut, whenH, whenL, entry, wire>>

InnerRead ==    \* verifprobe "read:K": reads r.Body until an error
    /\ pc = "inner" /\ Tick
    /\ pc' = "sleep"
    /\ IF Scr(x.inner).read
         THEN LET r == ReadAll(body) IN
              /\ inner' = [ran |-> TRUE, data |-> r.data, err |-> r.err]
              /\ body' = r.after /\ tee' = TeeAdd(tee, r.fresh)
         ELSE inner' = [inner EXCEPT !.ran = TRUE] /\ UNCHANGED <<body, tee>>
    /\ UNCHANGED <<x, hdrs, url, orig, pre, custom, ctx, rec, ret, upOut, k, hdrOut, logOut, whenH, whenL, entry, wire>>
InnerSleep ==   \* "sleep:MS"
    /\ pc = "sleep" /\ pc' = "respond"
    /\ clk' = clk + 1 + Scr(x.inner).sleep
    /\ UNCHANGED <<x, hdrs, url, orig, pre, custom, body, tee, ctx, rec, ret, inner, upOut, k, hdrOut, logOut, whenH, whenL, entry, wire>>
InnerRespond == \* "hdr:..;status:N;text:S" or "ret:404"
    /\ Step("respond", "failover")
    /\ LET s == Scr(x.inner) IN
       IF s.ret # 0 THEN ret' = s.ret /\ UNCHANGED rec
       ELSE /\ ret' = 0
            /\ rec' = [rec EXCEPT !.status = s.status, !.body = <<s.text>>,
                                  !.hdr = @ \o [i \in 1..Len(s.xresp) |-> [n |-> "X-Resp", v |-> s.xresp[i]]]]
    /\ UNCHANGED <<x, hdrs, url, orig, pre, custom, body, tee, ctx, inner, upOut, k, hdrOut, logOut, whenH, whenL, entry, wire>>

\* proxy /px backend { header_upstream X-Up-Body "[{request_body}]" }: the rule is expanded for the outgoing request
\* (NewReplacer(r, nil, "")), then the transport sends the body - the backend reads it and answers with a report
\* createUpstreamRequest: outreq is a shallow copy of r - the header MAP is shared until it is copied; X-Forwarded-For was
\* set without copying (as found): the incoming request, and with it {request} of the log entry, got a header the client
\* never sent
AddXFF(lines) == LET i == IF \E j \in 1..Len(lines) : lines[j].n \in {"X-In", "X-Probe"}
                             THEN CHOOSE j \in 1..Len(lines) : lines[j].n \in {"X-In", "X-Probe"} /\ \A m \in 1..(j - 1) : lines[m].n \notin {"X-In", "X-Probe"}
                             ELSE Len(lines) + 1
                 IN  Upto(lines, i - 1) \o <<HL("X-Forwarded-For", <<"@remote">>)>> \o From(lines, i)
ProxyOutreq ==
    /\ Step("proxyout", "proxyrule")
    /\ hdrs' = IF FIX_XFF THEN hdrs ELSE AddXFF(hdrs)
    /\ UNCHANGED <<x, url, orig, pre, custom, body, tee, ctx, rec, ret, inner, upOut, k, hdrOut, logOut, whenH, whenL, entry, wire>>
ProxyRule ==
    /\ pc = "proxyrule" /\ pc' = "forward" /\ Tick
    /\ LET b == BodyPh(<< >>) IN upOut' = <<"[">> \o b.v \o <<"]">> /\ body' = b.body /\ tee' = b.tee
    /\ UNCHANGED <<x, hdrs, url, orig, pre, custom, ctx, rec, ret, inner, k, hdrOut, logOut, whenH, whenL, entry, wire>>
ProxyForward ==
    /\ Step("forward", "failover")
    /\ LET r == ReadAll(body) IN
       /\ inner' = [ran |-> TRUE, data |-> r.data, err |-> r.err]
       /\ body' = r.after /\ tee' = TeeAdd(tee, r.fresh)
    /\ rec' = [rec EXCEPT !.status = 200, !.body = <<"@report">>]
    /\ ret' = 0
    /\ UNCHANGED <<x, hdrs, url, orig, pre, custom, ctx, upOut, k, hdrOut, logOut, whenH, whenL, entry, wire>>

\* log: if status >= 400 { r.URL = &preURL; ErrorFunc(recorder, r, status) } - the error text goes through the recorder.
\* The error function, and after it the entry, see the URL as log received it: a rewrite is no longer visible in the
\* {rewrite_*} {dir} {file} {?name} of the entry of a request that ended this way (a choice of the code, modelled as it is)
LogFailover ==
    /\ Step("failover", "ipmask")
    /\ rec' = IF ret >= 400 THEN [rec EXCEPT !.status = ret, !.body = <<"@errtext">>] ELSE rec
    /\ url' = IF ret >= 400 THEN pre ELSE url
    /\ UNCHANGED <<x, hdrs, orig, pre, custom, body, tee, ctx, ret, inner, upOut, k, hdrOut, logOut, whenH, whenL, entry, wire>>

IpMask ==       \* log { ipmask 255.255.0.0 } (sites p2, t2): rep.Set("remote", masked) - a custom value under a built-in name
    /\ Step("ipmask", "log")
    /\ custom' = IF Scoped(x) THEN Put(custom, "remote", <<"@remote.masked">>) ELSE custom
    /\ k' = 1
    /\ UNCHANGED <<x, hdrs, url, orig, pre, body, tee, ctx, rec, ret, inner, upOut, hdrOut, logOut, whenH, whenL, entry, wire>>

LogEval ==      \* log: rep.Replace(e.Format) - the replacer made in LogEnter (recorder, "-"): one placeholder
    /\ pc = "log" /\ k <= NN
    /\ EvalStep(logOut, whenL, TRUE, <<"-">>)
    /\ UNCHANGED <<x, hdrs, pc, url, orig, pre, custom, ctx, rec, ret, inner, upOut, hdrOut, whenH, entry, wire>>

WriteLine ==    \* e.Log.Println(..): as found the values go out as they are; repaired, CR and LF are written as \r \n
    /\ pc = "log" /\ k = NN + 1
    /\ pc' = "finish" /\ Tick
    /\ entry' = [i \in 1..NN |-> IF FIX_LOGSAFE THEN EscNL(logOut[i]) ELSE logOut[i]]
    /\ UNCHANGED <<x, hdrs, url, orig, pre, custom, body, tee, ctx, rec, ret, inner, upOut, k, hdrOut, logOut, whenH, whenL, wire>>

NetFinish ==    \* net/http writes the response; CR / LF inside a header value become spaces
    /\ Step("finish", "done")
    /\ wire' = [status |-> rec.status,
                xvocab |-> [i \in 1..NN |-> HdrSafe(hdrOut[i])],
                xresp |-> HdrGet(rec.hdr, "X-Resp").v]
    /\ UNCHANGED <<x, hdrs, url, orig, pre, custom, body, tee, ctx, rec, ret, inner, upOut, k, hdrOut, logOut, whenH, whenL, entry>>

Done == pc = "done"
Next == \/ NetRead \/ Mitm \/ CopyURL \/ MakeReplacer \/ TrimPrefix \/ Limits \/ RequestID \/ LogEnter \/ Rewrite
        \/ HdrEval \/ HdrDone \/ BasicAuth \/ InnerRead \/ InnerSleep \/ InnerRespond \/ ProxyOutreq \/ ProxyRule \/ ProxyForward
        \/ LogFailover \/ IpMask
        \/ LogEval \/ WriteLine \/ NetFinish
        \/ (Done /\ UNCHANGED vars)
Spec == Init /\ [][Next]_vars /\ WF_vars(Next)

\* ---- 8. PROPERTIES -------------------------------------------------------------------------------------
TypeOK ==
    /\ pc \in {"read", "mitm", "copyurl", "replacer", "trim", "limits", "reqid", "logenter", "rewrite", "hdr", "auth",
               "inner", "sleep", "respond", "proxyout", "proxyrule", "forward", "failover", "ipmask", "log", "finish", "done"}
    /\ k \in 0..(NN + 1) /\ Len(hdrOut) <= NN /\ Len(logOut) <= NN
    /\ body.err \in {"-", "max"} /\ Bytes(tee.buf) <= MaxLog
Completes == <>Done

\* VocabularyComplete: every name of the vocabulary has a place in the format, the four kinds are disjoint,
\* and (harness, on every run) FixedNames / PrefixForms are exactly what getSubstitution's source handles
VocabularyComplete ==
    /\ \A i, j \in 1..NN : i # j => Names[i] # Names[j]
    /\ \A i \in 1..Len(PrefixNames) : \E j \in 1..Len(PrefixForms) :
          LET f == PrefixForms[j] n == PrefixNames[i] IN
          IF f = "label" THEN n \in {"label1", "label2", "label3", "label4", "label5", "label0", "labelx"}
          ELSE \/ (n \in {">X-In", ">x-in", ">X-None"} /\ f = ">") \/ (n \in {"<X-Resp", "<Server", "<X-None"} /\ f = "<")
               \/ (n \in {"~c", "~none"} /\ f = "~") \/ (n \in {"?q", "?rq", "?none"} /\ f = "?")
               \/ (n = "$VERIF_CX20_ENV" /\ f = "$")

\* ---- the declarative value of every placeholder: a function of the exchange AS SENT --------------------
\* which site answers, what its directives do to the request - stated from the configuration, not from the steps
DeclScopedPath(x0) == LET d == Dec(PT(x0.path)) IN IF Scoped(x0) THEN LeadSlash(From(d, 3)) ELSE d
DeclScopedEsc(x0) == LET w == Wr(PT(x0.path)) IN IF Scoped(x0) THEN LeadSlash(From(w, 3)) ELSE w
DeclCaptured(x0) == RwMatch(DeclScopedPath(x0))                          \* the rule matches: {1} is set
DeclRewritten(x0) == DeclCaptured(x0) /\ ~Has(DeclScopedPath(x0), CR)      \* and the target is a URL: the request is rewritten
\* vis: the rewrite is visible (always in the header rule; in the entry unless log's failover answered the request)
DeclCurPath(x0, vis) == IF DeclRewritten(x0) /\ vis THEN <<"/", "nw", "/">> \o From(DeclScopedPath(x0), 4) ELSE DeclScopedPath(x0)
DeclCurEsc(x0, vis) == IF DeclRewritten(x0) /\ vis THEN PathEsc(DeclCurPath(x0, vis)) ELSE DeclScopedEsc(x0)
DeclCurQuery(x0, vis) == IF DeclRewritten(x0) /\ vis THEN <<"rq", "=", "1">> ELSE QT(x0.query)
DeclCurURI(x0, vis) == DeclCurEsc(x0, vis) \o (IF HasQMark(x0.query) \/ (DeclRewritten(x0) /\ vis) THEN <<"?">> \o DeclCurQuery(x0, vis) ELSE << >>)
DeclOrigURI(x0) == Wr(PT(x0.path)) \o (IF HasQMark(x0.query) THEN <<"?">> \o QT(x0.query) ELSE << >>)
DeclProtected(x0) == PathUnder(DeclCurPath(x0, TRUE), "auth")
DeclLimited(x0) == PathUnder(DeclScopedPath(x0), "lim")
DeclProxied(x0) == ~DeclProtected(x0) /\ PathUnder(DeclCurPath(x0, TRUE), "px")    \* the proxy's backend answers
DeclAnswered(x0) == ~DeclProtected(x0) \/ x0.auth = "good"                    \* the scripted handler or the backend runs
DeclScripted(x0) == DeclAnswered(x0) /\ ~DeclProxied(x0)                      \* the scripted handler runs
DeclBusy(x0) == IF DeclScripted(x0) THEN Scr(x0.inner).sleep ELSE 0
DeclReads(x0) == DeclProxied(x0) \/ (DeclScripted(x0) /\ Scr(x0.inner).read)    \* somebody downstream reads the body
DeclFailedOver(x0) == ~DeclAnswered(x0) \/ (DeclScripted(x0) /\ Scr(x0.inner).ret >= 400)   \* a status >= 400 came back to log unwritten
\* the user name the log shows: the supplied one when basicauth looked at it; nothing otherwise
DeclUser(x0) == IF DeclProtected(x0) /\ x0.auth # "-" THEN [ok |-> TRUE, v |-> AuthUser(x0.auth)] ELSE [ok |-> FALSE, v |-> << >>]
\* what a handler reading the body gets, whatever placeholders were expanded on the way: the body as sent, cut at the
\* site's limit
DeclBodyRead(x0) == IF DeclLimited(x0) /\ Bytes(BT(x0.body)) > LIM THEN [data |-> TakeBytes(BT(x0.body), LIM), err |-> "max"]
                    ELSE [data |-> BT(x0.body), err |-> "-"]
\* {request_body}: POST / PUT with a JSON or XML content type, a body the site accepts: its first MaxLog bytes on one line
DeclBodyPh(x0, e) == IF ~(x0.m \in {"POST", "PUT"} /\ CTY(x0.ctype).can) THEN e
                     ELSE IF DeclBodyRead(x0).err = "max" THEN e
                     ELSE EscNL(TakeBytes(BT(x0.body), MaxLog))
DeclRespHdr(x0, name) ==
    IF name = "Server" THEN [ok |-> TRUE, v |-> <<"@appname">>]
    ELSE IF name = "X-Resp" /\ DeclScripted(x0) /\ Scr(x0.inner).ret = 0 /\ Scr(x0.inner).xresp # << >>
         THEN [ok |-> TRUE, v |-> JoinWith(Scr(x0.inner).xresp, <<",">>)]
    ELSE [ok |-> FALSE, v |-> << >>]

\* where = "header" (evaluated before the response exists, marker "") or "log" (marker "-")
Decl(n, x0, where) ==
    LET e == IF where = "log" THEN <<"-">> ELSE << >>
        late == where = "log"
        vis == ~(where = "log" /\ DeclFailedOver(x0))
        orEmpty(r) == IF r.ok THEN r.v ELSE e
        cert(f) == IF CN(x0.conn).cert THEN <<"@cert." \o f>> ELSE e
        shp == SplitHostPort(HT(x0.host))
    IN
    CASE n = "method" -> <<x0.m>>
      [] n = "scheme" -> <<IF IsTLS(x0.conn) THEN "https" ELSE "http">>
      [] n = "hostname" -> <<"@hostname">>
      [] n = "host" -> HT(x0.host)
      [] n = "hostonly" -> shp.host
      [] n = "server_port" -> IF shp.ok THEN shp.port ELSE IF IsTLS(x0.conn) THEN <<"443">> ELSE <<"80">>
      \* OriginalVsRewritten: the request as received ...
      [] n = "path" -> Dec(PT(x0.path))
      [] n = "uri" -> DeclOrigURI(x0)
      [] n = "query" -> QT(x0.query)
      \* ... and as the directives below rewrite see it
      [] n = "rewrite_path" -> DeclCurPath(x0, vis)
      [] n = "rewrite_uri" -> DeclCurURI(x0, vis)
      [] n = "dir" -> DirOf(DeclCurPath(x0, vis))
      [] n = "file" -> FileOf(DeclCurPath(x0, vis))
      \* EscapedFormsAreEscapes
      [] n = "path_escaped" -> QEsc(Dec(PT(x0.path)))
      [] n = "uri_escaped" -> QEsc(DeclOrigURI(x0))
      [] n = "query_escaped" -> QEsc(QT(x0.query))
      [] n = "rewrite_path_escaped" -> QEsc(DeclCurPath(x0, vis))
      [] n = "rewrite_uri_escaped" -> QEsc(DeclCurURI(x0, vis))
      [] n = "fragment" -> << >>                                      \* a request-target carries none
      [] n = "proto" -> <<"HTTP/" \o x0.ver>>
      [] n = "remote" -> IF late /\ Scoped(x0) THEN <<"@remote.masked">> ELSE <<"@remote">>     \* ipmask: custom beats built-in
      [] n = "port" -> <<"@cport">>
      [] n = "request_id" -> <<"@reqid">>
      [] n \in {"when", "when_iso_local", "when_iso", "when_unix", "when_unix_ms"} -> <<"@" \o n>>
      [] n = "request" -> Dump(x0, HeaderLines(x0))
      [] n = "request_body" -> DeclBodyPh(x0, e)
      [] n = "mitm" -> <<IF IsTLS(x0.conn) /\ x0.ua = "firefox" THEN "likely" ELSE "unknown">>
      [] n \in {"status", "size", "latency", "latency_ms"} -> IF late THEN <<"@" \o n>> ELSE e
      \* TLSFieldsExact
      [] n = "tls_protocol" -> IF IsTLS(x0.conn) THEN <<"tls" \o CN(x0.conn).tls>> ELSE e
      [] n = "tls_cipher" -> IF IsTLS(x0.conn) THEN <<"@cipher">> ELSE e
      [] n = "tls_client_escaped_cert" -> cert("escaped")
      [] n = "tls_client_fingerprint" -> cert("fingerprint")
      [] n = "tls_client_i_dn" -> cert("i_dn")
      [] n = "tls_client_raw_cert" -> cert("raw")
      [] n = "tls_client_s_dn" -> cert("s_dn")
      [] n = "tls_client_serial" -> cert("serial")
      [] n = "tls_client_v_end" -> cert("v_end")
      [] n = "tls_client_v_remain" -> cert("v_remain")
      [] n = "tls_client_v_start" -> cert("v_start")
      \* the prefix forms
      [] n \in {">X-In", ">x-in"} -> orEmpty(HdrGet(HeaderLines(x0), "X-In"))
      [] n \in {">X-None", "<X-None", "~none"} -> e
      [] n = "<X-Resp" -> IF late THEN orEmpty(DeclRespHdr(x0, "X-Resp")) ELSE e
      [] n = "<Server" -> IF late THEN orEmpty(DeclRespHdr(x0, "Server")) ELSE e
      [] n = "~c" -> orEmpty(CookieGet(CT(x0.cookie), "c"))
      [] n = "?q" -> QueryGet(DeclCurQuery(x0, vis), "q")
      [] n = "?rq" -> QueryGet(DeclCurQuery(x0, vis), "rq")
      [] n = "?none" -> << >>
      [] n = "$VERIF_CX20_ENV" -> <<"@env">>
      [] n \in {"label1", "label2", "label3", "label4", "label5"} ->
            LET ls == SplitOn(HT(x0.host), ".") i == LabelNo(n) IN IF i <= Len(ls) THEN ls[i] ELSE e
      [] n \in {"label0", "labelx"} -> e
      \* set by other middleware
      [] n = "user" -> IF late THEN orEmpty(DeclUser(x0)) ELSE e              \* basicauth runs after header
      [] n = "1" -> IF DeclCaptured(x0) THEN From(DeclScopedPath(x0), 4) ELSE e
      \* UnknownIsEmptyMarker
      [] OTHER -> e

\* ValueEqualsFunction: every placeholder expands to exactly its function of the exchange
ValueEqualsFunction ==
    Done => \A i \in 1..NN : /\ logOut[i] = Decl(Names[i], x, "log")
                             /\ hdrOut[i] = Decl(Names[i], x, "header")
At(out, n) == out[CHOOSE i \in 1..NN : Names[i] = n]
\* OriginalVsRewritten: {path} {uri} {query} speak of the request as received, whatever the path scope and rewrite
\* did to r.URL; the {rewrite_*} forms of the URL the handler sees
OriginalVsRewritten ==
    Done => /\ At(logOut, "path") = Dec(Units(x)) /\ At(hdrOut, "path") = Dec(Units(x))
            /\ At(logOut, "uri") = DeclOrigURI(x) /\ At(logOut, "query") = RawQ(x)
            /\ At(logOut, "rewrite_path") = url.dec /\ At(logOut, "rewrite_uri") = RequestURI(url)
            /\ (Scoped(x) \/ DeclRewritten(x)) => At(hdrOut, "rewrite_path") # At(hdrOut, "path")
            /\ (Scoped(x) \/ (DeclRewritten(x) /\ ~DeclFailedOver(x))) => At(logOut, "rewrite_path") # At(logOut, "path")
\* EscapedFormsAreEscapes
EscapedFormsAreEscapes ==
    Done => \A o \in {hdrOut, logOut} :
              \A n \in {"path", "uri", "query", "rewrite_path", "rewrite_uri"} : At(o, n \o "_escaped") = QEsc(At(o, n))
\* LogSafe: one exchange, one line - no value carries a raw CR or LF into the entry (and the entry loses nothing else)
LogSafe ==
    Done => /\ \A i \in 1..NN : ~RawNL(entry[i])
            /\ \A i \in 1..NN : entry[i] = EscNL(Decl(Names[i], x, "log"))
HeaderSafe == Done => \A i \in 1..NN : ~RawNL(wire.xvocab[i])
\* BodyUntouched: the inner handler reads the body as sent (up to the site's limit), whatever was expanded before it ran
BodyUntouched ==
    /\ (inner.ran /\ DeclReads(x)) => (inner.data = DeclBodyRead(x).data /\ inner.err = DeclBodyRead(x).err)
    /\ Done => (inner.ran <=> DeclAnswered(x))
    /\ (Done /\ DeclProxied(x)) => upOut = <<"[">> \o DeclBodyPh(x, << >>) \o <<"]">>
\* TimeMonotone: the clock only moves forward: {latency} >= 0 and covers the handler's time; every {when*} of the entry
\* reads the clock between the handler's end and the write, those of the header rule before the handler started
TimeMonotone ==
    Done => LET busy == DeclBusy(x) IN
            /\ \A i \in 1..Len(whenL) : whenL[i].t >= rec.start + busy /\ whenL[i].t <= clk      \* {latency} = t - start >= busy >= 0
            /\ \A i \in 1..Len(whenH) : \A j \in 1..Len(whenL) : whenH[i].t + busy < whenL[j].t
            /\ \A i, j \in 1..Len(whenL) : i <= j => whenL[i].t <= whenL[j].t
            /\ Len(whenL) = 7 /\ Len(whenH) = 5
\* TLSFieldsExact: the TLS placeholders describe the connection the request came on: never a made-up name
TLSFieldsExact ==
    Done => /\ At(logOut, "tls_cipher") = (IF IsTLS(x.conn) THEN <<"@cipher">> ELSE <<"-">>)
            /\ At(logOut, "tls_protocol") = (IF IsTLS(x.conn) THEN <<"tls" \o Conn(x).tls>> ELSE <<"-">>)
            /\ \A n \in {"tls_client_escaped_cert", "tls_client_fingerprint", "tls_client_i_dn", "tls_client_raw_cert",
                          "tls_client_s_dn", "tls_client_serial", "tls_client_v_end", "tls_client_v_remain", "tls_client_v_start"} :
                  (At(logOut, n) = <<"-">>) <=> ~Conn(x).cert
\* CustomBeatsBuiltin: a value another middleware stored with Set wins over the built-in of the same name, from then on
CustomBeatsBuiltin ==
    Done => /\ Scoped(x) => (At(logOut, "remote") = <<"@remote.masked">> /\ At(hdrOut, "remote") = <<"@remote">>)
            /\ ~Scoped(x) => At(logOut, "remote") = <<"@remote">>

\* ---- 9. case emission -----------------------------------------------------------------------------------
\* hdr is given as the list of differences from log (most values are the same in both)
HdrDiff == {[i |-> i, v |-> wire.xvocab[i]] : i \in {j \in 1..NN : wire.xvocab[j] # entry[j]}}
Emit == (EMIT /\ Done) =>
    PrintT(<<"CASE", ToJson([x |-> x, site |-> SiteOf(x), target |-> TargetToks(x), hosthdr |-> HostToks(x),
                             headers |-> HeaderLines(x), body |-> BT(x.body), script |-> Scr(x.inner),
                             log |-> entry, hdrdiff |-> HdrDiff, status |-> wire.status, xresp |-> wire.xresp,
                             read |-> [ran |-> inner.ran /\ DeclReads(x), data |-> inner.data, err |-> inner.err],
                             proxied |-> DeclProxied(x), up |-> upOut, busy |-> DeclBusy(x)])>>)
\* the vocabulary itself, once (the harness compares it with the source of getSubstitution)
EmitVocab == (EMIT /\ pc = "read" /\ x = Plain("P", "/x", "q=v")) =>
    PrintT(<<"CASE", ToJson([vocab |-> [fixed |-> FixedNames, prefix |-> PrefixForms, names |-> Names]])>>)
=============================================================================
