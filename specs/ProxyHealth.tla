---------------------------- MODULE ProxyHealth ----------------------------
(***************************************************************************)
(* Active and passive health of reverse-proxy backends                     *)
(* (caskethttp/proxy/upstream.go: NewStaticUpstreams, HealthCheckWorker,   *)
(* healthCheck, Select, Stop; proxy.go: UpstreamHost.Down/Full/Available,  *)
(* the Select loop of Proxy.ServeHTTP).  Extension of C14 (ProxyConc.tla   *)
(* has the Conns/Fails accounting; here they are environment counters).    *)
(*                                                                         *)
(* The worker goroutine (one per upstream with `health_check <path>`):     *)
(*   first --RoundBegin--> send(1) --Probe--> store --StoreFlag--> store2  *)
(*   --StoreRes--> send(2) ... --> idle --(tick) RoundBegin--> send(1) ... *)
(*   idle --(stop closed) Exit--> exited                                   *)
(* One round = healthCheck(): every host in pool order, one GET each; the  *)
(* answer is judged (status 200..399, optional body text, time-out) and    *)
(* stored: Unhealthy 0/1, then HealthCheckResult.  A round is never        *)
(* interrupted: Stop() = close(stop) (StopSignal) + wg.Wait() (StopReturn  *)
(* once the worker has exited).  Tick = the time.Ticker delivers into its  *)
(* one-slot channel (a tick that finds the slot full is dropped).          *)
(*                                                                         *)
(* Requests: upstream.Select reads availability twice when the pool has    *)
(* more than one host (Scan: "is anything available at all", Pick: the     *)
(* policy's own pass); Proxy.ServeHTTP repeats Select every try_interval   *)
(* until try_duration is over (Wake / TimeUp), then answers 502.           *)
(*                                                                         *)
(* Next     = these steps, all interleavings (the invariants / properties) *)
(* NextSync = the grain a harness can order through gates in the scripted  *)
(*            backends; used to generate the scripts that are executed on  *)
(*            the real code (ProxyHealthTrace.tla validates what the code  *)
(*            then did against the fine-grained actions).                  *)
(* Deliberate deviations: SRV look-ups (resolveHost) are not modelled - a  *)
(* host has exactly one candidate address; redirects followed by the       *)
(* probing http.Client are not modelled (backends answer without Location).*)
(***************************************************************************)
EXTENDS Naturals, Sequences, FiniteSets, TLC, Json

CONSTANTS
    NOpts,          \* pool sizes explored
    NReq,           \* request slots
    Modes,          \* answers a backend can give to a probe (subset of AllModes)
    MaxRounds, MaxSets, MaxEnv, MaxCalls, MaxSteps,   \* bounds of the exploration (MaxSteps: script length)
    FailsOpts, ConnsOpts, RetryOpts, ContainsOpts, HCOpts,   \* settings explored
    Fixed           \* TRUE: the worker looks at `stop` before it starts a round (repaired code)
                    \* FALSE: as found - select{} picks at random between a pending tick and stop

AllModes == {"ok", "s399", "s400", "s500", "nobody", "timeout", "reset"}
MaxN == 3
Reqs == 1..NReq

VARIABLES
    N, HC, Contains, MaxFails, MaxConns, Retry,   \* the proxy block (chosen in Init, then constant)
    mode,     \* [host -> what the backend's health endpoint answers now]          (environment)
    flag,     \* [host -> UpstreamHost.Unhealthy]
    hres,     \* [host -> UpstreamHost.HealthCheckResult: "none" | "OK" | "Failed"]
    seen,     \* [host -> the answer its latest probe got ("none" before the first)]  (history)
    since,    \* [host -> probes of it since its mode last changed, capped at 2]      (history)
    rs,       \* [host -> rounds begun since its mode last changed, capped at 2]      (history)
    wpc,      \* worker: "none" | "first" | "idle" | "send" | "store" | "store2" | "exited"
    cur,      \* host the worker is at (0 = not in a round)
    tick,     \* a tick is waiting in the ticker's channel
    stopSig,  \* close(u.stop) has happened
    stopper,  \* the caller of Stop(): "none" | "called" | "signalled" | "returned"
    rounds,   \* rounds begun
    late,     \* rounds begun out of the select loop although stop was already closed
    fails, timers, conns,     \* [host -> Fails / pending failure timers / Conns]  (environment, see ProxyConc)
    rpc,      \* [req -> "new" | "scan" | "pick" | "picked" | "nil" | "wait" | "done"]
    rkind,    \* [req -> "select" (a bare upstream.Select) | "serve" (Proxy.ServeHTTP)]
    rhost,    \* [req -> host obtained (0 = none)]
    nsets, nenv, ncalls,      \* exploration counters
    hist      \* sync grain only: the script so far

cfgv == <<N, HC, Contains, MaxFails, MaxConns, Retry>>
wv == <<wpc, cur, tick, rounds, late>>
hv == <<flag, hres, seen, since, rs>>
sv == <<stopSig, stopper>>
ev == <<fails, timers, conns, nenv>>
rv == <<rpc, rkind, rhost, ncalls>>
vars == <<cfgv, mode, hv, wv, sv, ev, rv, nsets, hist>>
view == <<cfgv, mode, hv, wv, sv, ev, rv, nsets>>

Hosts == 1..N

\* ---- what the code computes from an answer ---------------------------------
\* status 200..399 and (no health_check_contains, or the text is in the body); a time-out or a
\* broken connection is an error of Client.Do
Healthy(m) == \/ m \in {"ok", "s399"}
              \/ m = "nobody" /\ ~Contains
Bad(m) == IF Healthy(m) THEN 0 ELSE 1
ResOf(m) == IF Healthy(m) THEN "OK" ELSE "Failed"

\* UpstreamHost.Down (CheckDown of NewHost) / Full / Available
Down(h) == flag[h] # 0 \/ fails[h] >= MaxFails
Full(h) == MaxConns > 0 /\ conns[h] >= MaxConns
Avail == {h \in Hosts : ~Down(h) /\ ~Full(h)}

Alive == wpc \notin {"none", "exited"}
Cap2(x) == IF x >= 2 THEN 2 ELSE x + 1

Init ==
    /\ N \in NOpts /\ HC \in HCOpts /\ Contains \in ContainsOpts
    /\ MaxFails \in FailsOpts /\ MaxConns \in ConnsOpts /\ Retry \in RetryOpts
    /\ mode \in [1..N -> Modes]
    /\ flag = [h \in 1..N |-> 0] /\ hres = [h \in 1..N |-> "none"] /\ seen = [h \in 1..N |-> "none"]
    /\ since = [h \in 1..N |-> 0] /\ rs = [h \in 1..N |-> 0]
    /\ wpc = IF HC THEN "first" ELSE "none"          \* NewStaticUpstreams: one goroutine iff health_check is set
    /\ cur = 0 /\ tick = FALSE /\ rounds = 0 /\ late = 0
    /\ stopSig = FALSE /\ stopper = "none"
    /\ fails = [h \in 1..N |-> 0] /\ timers = [h \in 1..N |-> 0] /\ conns = [h \in 1..N |-> 0]
    /\ rpc = [r \in Reqs |-> "new"] /\ rkind = [r \in Reqs |-> "select"] /\ rhost = [r \in Reqs |-> 0]
    /\ nsets = 0 /\ nenv = 0 /\ ncalls = 0
    /\ hist = <<>>

\* ---- the worker -----------------------------------------------------------
\* the ticker fires (time passes); a tick that finds the channel full is dropped
Tick == /\ Alive /\ ~tick
        /\ tick' = TRUE
        /\ UNCHANGED <<cfgv, mode, hv, wpc, cur, rounds, late, sv, ev, rv, nsets>>

\* healthCheck() is entered: immediately after the goroutine started, or out of the select
\* loop on a tick
RoundBegin ==
    /\ rounds < MaxRounds
    /\ \/ wpc = "first" /\ UNCHANGED <<tick, late>>
       \/ /\ wpc = "idle" /\ tick
          /\ Fixed => ~stopSig
          /\ tick' = FALSE
          /\ late' = IF stopSig THEN late + 1 ELSE late
    /\ wpc' = "send" /\ cur' = 1 /\ rounds' = rounds + 1
    /\ rs' = [h \in Hosts |-> Cap2(rs[h])]
    /\ UNCHANGED <<cfgv, mode, flag, hres, seen, since, sv, ev, rv, nsets>>

\* the GET reaches the backend, whose present mode decides the answer
Probe ==
    /\ wpc = "send"
    /\ seen' = [seen EXCEPT ![cur] = mode[cur]]
    /\ since' = [since EXCEPT ![cur] = Cap2(@)]
    /\ wpc' = "store"
    /\ UNCHANGED <<cfgv, mode, flag, hres, rs, cur, tick, rounds, late, sv, ev, rv, nsets>>

\* atomic.StoreInt32(&host.Unhealthy, ...)
StoreFlag ==
    /\ wpc = "store"
    /\ flag' = [flag EXCEPT ![cur] = Bad(seen[cur])]
    /\ wpc' = "store2"
    /\ UNCHANGED <<cfgv, mode, hres, seen, since, rs, cur, tick, rounds, late, sv, ev, rv, nsets>>

\* host.HealthCheckResult.Store(...); on to the next host, or the round is over
StoreRes ==
    /\ wpc = "store2"
    /\ hres' = [hres EXCEPT ![cur] = ResOf(seen[cur])]
    /\ IF cur < N THEN cur' = cur + 1 /\ wpc' = "send"
                  ELSE cur' = 0 /\ wpc' = "idle"
    /\ UNCHANGED <<cfgv, mode, flag, seen, since, rs, tick, rounds, late, sv, ev, rv, nsets>>

\* case <-stop: ticker.Stop(); return
Exit ==
    /\ wpc = "idle" /\ stopSig
    /\ wpc' = "exited" /\ tick' = FALSE
    /\ UNCHANGED <<cfgv, mode, hv, cur, rounds, late, sv, ev, rv, nsets>>

\* ---- Stop() ---------------------------------------------------------------
StopCall == /\ stopper = "none" /\ stopper' = "called"
            /\ UNCHANGED <<cfgv, mode, hv, wv, stopSig, ev, rv, nsets>>
StopSignal == /\ stopper = "called" /\ stopper' = "signalled" /\ stopSig' = TRUE
              /\ UNCHANGED <<cfgv, mode, hv, wv, ev, rv, nsets>>
StopReturn == /\ stopper = "signalled" /\ ~Alive /\ stopper' = "returned"
              /\ UNCHANGED <<cfgv, mode, hv, wv, stopSig, ev, rv, nsets>>

\* ---- environment ------------------------------------------------------------
SetMode(h, m) ==
    /\ nsets < MaxSets /\ m # mode[h]
    /\ mode' = [mode EXCEPT ![h] = m] /\ nsets' = nsets + 1
    /\ since' = [since EXCEPT ![h] = 0] /\ rs' = [rs EXCEPT ![h] = 0]
    /\ UNCHANGED <<cfgv, flag, hres, seen, wv, sv, ev, rv>>

\* a proxied request failed on h (Fails+1 for fail_timeout) / one such timer fires /
\* a proxied request occupies / leaves a connection slot   (the protocol of ProxyConc.tla)
Fail(h) == /\ nenv < MaxEnv /\ nenv' = nenv + 1
           /\ fails' = [fails EXCEPT ![h] = @ + 1] /\ timers' = [timers EXCEPT ![h] = @ + 1]
           /\ UNCHANGED <<cfgv, mode, hv, wv, sv, conns, rv, nsets>>
Expire(h) == /\ timers[h] > 0
             /\ fails' = [fails EXCEPT ![h] = @ - 1] /\ timers' = [timers EXCEPT ![h] = @ - 1]
             /\ UNCHANGED <<cfgv, mode, hv, wv, sv, conns, nenv, rv, nsets>>
Take(h) == /\ nenv < MaxEnv /\ nenv' = nenv + 1 /\ ~Full(h)
           /\ conns' = [conns EXCEPT ![h] = @ + 1]
           /\ UNCHANGED <<cfgv, mode, hv, wv, sv, fails, timers, rv, nsets>>
Release(h) == /\ conns[h] > 0
              /\ conns' = [conns EXCEPT ![h] = @ - 1]
              /\ UNCHANGED <<cfgv, mode, hv, wv, sv, fails, timers, nenv, rv, nsets>>

\* ---- requests ---------------------------------------------------------------
ReqBegin(r, k) ==
    /\ ncalls < MaxCalls /\ ncalls' = ncalls + 1
    /\ rpc[r] \in {"new", "done"}
    /\ rpc' = [rpc EXCEPT ![r] = "scan"] /\ rkind' = [rkind EXCEPT ![r] = k] /\ rhost' = [rhost EXCEPT ![r] = 0]
    /\ UNCHANGED <<cfgv, mode, hv, wv, sv, ev, nsets>>

\* Select came back with nil: a bare Select reports it; ServeHTTP sleeps try_interval and tries
\* again while try_duration lasts, else 502
NoHost(r) == IF rkind[r] = "serve" /\ Retry THEN rpc' = [rpc EXCEPT ![r] = "wait"]
                                            ELSE rpc' = [rpc EXCEPT ![r] = "nil"]

\* first pass of Select: a pool of one is decided at once; otherwise "is any host available?"
Scan(r) ==
    /\ rpc[r] = "scan"
    /\ IF Avail = {} THEN NoHost(r) /\ UNCHANGED rhost
       ELSE IF N = 1 THEN rpc' = [rpc EXCEPT ![r] = "picked"] /\ rhost' = [rhost EXCEPT ![r] = 1]
       ELSE rpc' = [rpc EXCEPT ![r] = "pick"] /\ UNCHANGED rhost
    /\ UNCHANGED <<cfgv, mode, hv, wv, sv, ev, rkind, ncalls, nsets>>

\* second pass: the policy takes some host that is available now (which one is its business) ...
Pick(r, h) ==
    /\ rpc[r] = "pick" /\ h \in Avail
    /\ rpc' = [rpc EXCEPT ![r] = "picked"] /\ rhost' = [rhost EXCEPT ![r] = h]
    /\ UNCHANGED <<cfgv, mode, hv, wv, sv, ev, rkind, ncalls, nsets>>
\* ... or finds that none is left
PickNil(r) ==
    /\ rpc[r] = "pick" /\ Avail = {}
    /\ NoHost(r)
    /\ UNCHANGED <<cfgv, mode, hv, wv, sv, ev, rkind, rhost, ncalls, nsets>>

\* the host is handed to the caller / the request arrives at the backend
Deliver(r) ==
    /\ rpc[r] = "picked"
    /\ rpc' = [rpc EXCEPT ![r] = "done"]
    /\ UNCHANGED <<cfgv, mode, hv, wv, sv, ev, rkind, rhost, ncalls, nsets>>
\* nil is handed to the caller / 502 is answered
DeliverNil(r) ==
    /\ rpc[r] = "nil"
    /\ rpc' = [rpc EXCEPT ![r] = "done"]
    /\ UNCHANGED <<cfgv, mode, hv, wv, sv, ev, rkind, rhost, ncalls, nsets>>
\* try_interval is over: Select again
Wake(r) ==
    /\ rpc[r] = "wait"
    /\ rpc' = [rpc EXCEPT ![r] = "scan"]
    /\ UNCHANGED <<cfgv, mode, hv, wv, sv, ev, rkind, rhost, ncalls, nsets>>
\* try_duration is over
TimeUp(r) ==
    /\ rpc[r] = "wait"
    /\ rpc' = [rpc EXCEPT ![r] = "nil"]
    /\ UNCHANGED <<cfgv, mode, hv, wv, sv, ev, rkind, rhost, ncalls, nsets>>

\* (one disjunct per action, so that TLC's coverage report counts each of them)
Next ==
    \/ Tick /\ UNCHANGED hist
    \/ RoundBegin /\ UNCHANGED hist
    \/ Probe /\ UNCHANGED hist
    \/ StoreFlag /\ UNCHANGED hist
    \/ StoreRes /\ UNCHANGED hist
    \/ Exit /\ UNCHANGED hist
    \/ StopCall /\ UNCHANGED hist
    \/ StopSignal /\ UNCHANGED hist
    \/ StopReturn /\ UNCHANGED hist
    \/ \E h \in Hosts, m \in Modes : SetMode(h, m) /\ UNCHANGED hist
    \/ \E h \in Hosts : Fail(h) /\ UNCHANGED hist
    \/ \E h \in Hosts : Expire(h) /\ UNCHANGED hist
    \/ \E h \in Hosts : Take(h) /\ UNCHANGED hist
    \/ \E h \in Hosts : Release(h) /\ UNCHANGED hist
    \/ \E r \in Reqs, k \in {"select", "serve"} : ReqBegin(r, k) /\ UNCHANGED hist
    \/ \E r \in Reqs : Scan(r) /\ UNCHANGED hist
    \/ \E r \in Reqs, h \in Hosts : Pick(r, h) /\ UNCHANGED hist
    \/ \E r \in Reqs : PickNil(r) /\ UNCHANGED hist
    \/ \E r \in Reqs : Deliver(r) /\ UNCHANGED hist
    \/ \E r \in Reqs : DeliverNil(r) /\ UNCHANGED hist
    \/ \E r \in Reqs : Wake(r) /\ UNCHANGED hist
    \/ \E r \in Reqs : TimeUp(r) /\ UNCHANGED hist
Fair(A) == WF_vars(A /\ UNCHANGED hist)
Fairness == /\ Fair(Tick) /\ Fair(RoundBegin) /\ Fair(Probe) /\ Fair(StoreFlag)
            /\ Fair(StoreRes) /\ Fair(Exit) /\ Fair(StopSignal) /\ Fair(StopReturn)
Spec == Init /\ [][Next]_vars /\ Fairness

\* ---- properties -------------------------------------------------------------
TypeOK ==
    /\ N \in 1..MaxN /\ mode \in [Hosts -> AllModes]
    /\ flag \in [Hosts -> {0, 1}] /\ hres \in [Hosts -> {"none", "OK", "Failed"}]
    /\ seen \in [Hosts -> AllModes \cup {"none"}]
    /\ wpc \in {"none", "first", "idle", "send", "store", "store2", "exited"}
    /\ cur \in 0..N /\ (cur # 0) = (wpc \in {"send", "store", "store2"})
    /\ stopper \in {"none", "called", "signalled", "returned"}
    /\ stopSig = (stopper \in {"signalled", "returned"})

\* the worker is between the probe of h and the store that belongs to it
FlagPending(h) == cur = h /\ wpc = "store"
ResPending(h) == cur = h /\ wpc \in {"store", "store2"}

\* (1) the flag (and HealthCheckResult) of every host equals the outcome of its latest probe;
\*     in particular after a round: of that round's probe
FlagIsLastProbe == \A h \in Hosts :
    /\ ~FlagPending(h) => flag[h] = (IF seen[h] = "none" THEN 0 ELSE Bad(seen[h]))
    /\ ~ResPending(h) => hres[h] = (IF seen[h] = "none" THEN "none" ELSE ResOf(seen[h]))
AfterRound == wpc \in {"idle", "exited"} /\ rounds > 0 =>
                 \A h \in Hosts : seen[h] # "none" /\ flag[h] = Bad(seen[h])

\* (2) a round probes every host, in pool order: a round begun after h's mode changed gets to h
RoundCoversAll == \A h \in Hosts :
    /\ rs[h] >= 2 => since[h] >= 1
    /\ rs[h] = 1 /\ (cur = 0 \/ cur > h) => since[h] >= 1
\* (3) ... so a recovered (or broken) backend is seen as such once the next round has passed it:
\*     at most one health_check_interval plus the duration of a round after the change
ChangeSeenByNextRound == \A h \in Hosts : since[h] >= 1 /\ ~FlagPending(h) => flag[h] = Bad(mode[h])
RecoveredUsedAgain == \A h \in Hosts :
    rs[h] >= 1 /\ (cur = 0 \/ cur > h) /\ Healthy(mode[h]) /\ fails[h] < MaxFails /\ ~Full(h) => h \in Avail

\* (4) Select skips a host exactly while it is unhealthy, has max_fails failures pending or is
\*     full; it yields no host only when every host is in that state (also: all unhealthy)
AvailDef == Avail = {h \in Hosts : flag[h] = 0 /\ timers[h] < MaxFails /\ ~(MaxConns > 0 /\ conns[h] >= MaxConns)}
FailsExact == \A h \in Hosts : fails[h] = timers[h]
SelectSound == [][\A r \in Reqs :
                    /\ (rpc[r] # "picked" /\ rpc'[r] = "picked") => rhost'[r] \in Avail
                    /\ (rpc[r] \in {"scan", "pick"} /\ rpc'[r] \in {"nil", "wait"}) => Avail = {}
                    /\ (rpc[r] = "picked" /\ rpc'[r] = "done") => rhost'[r] = rhost[r] /\ rhost[r] \in Hosts]_vars
\* no health check configured: no worker, nobody ever unhealthy
NoWorkerWithoutHC == ~HC => wpc = "none" /\ \A h \in Hosts : flag[h] = 0

\* (5) lifecycle: once Stop has returned the worker is gone (no probe can follow) ...
StoppedMeansDead == stopper = "returned" => ~Alive /\ wpc \notin {"first", "idle", "send"}   \* the states in which RoundBegin / Probe are enabled
\* ... and Stop is not kept waiting by rounds that begin after stop was closed (at most the
\* round in progress - or the very first one - is finished)
NoRoundAfterStop == late = 0
StopReturns == (stopper = "called") ~> (stopper = "returned")
\* a backend that stays healthy is marked healthy (while rounds are left and nobody stops)
Recovers == \A h \in 1..MaxN : (h \in Hosts /\ HC /\ Healthy(mode[h]) /\ stopper = "none" /\ rounds < MaxRounds)
                 ~> (h \notin Hosts \/ flag[h] = 0 \/ ~Healthy(mode[h]) \/ stopper # "none" \/ rounds = MaxRounds)

\* ---- the sync grain ------------------------------------------------------------
\* The scripted backends hold every probe at a gate; the harness orders its own steps against
\* the worker's: Answer = the gate is opened for the probe at hand (Probe, StoreFlag, StoreRes,
\* and - the worker runs on by itself - the next probe arrives at its gate, in the next round
\* if need be).  So at this grain the worker is always at a gate ("send").
Step(a, h, m, r) == hist' = Append(hist, [a |-> a, h |-> h, m |-> m, r |-> r, modes |-> mode',
                                          flag |-> flag', res |-> hres', avail |-> {x \in Hosts : x \in Avail'}])

InitSync ==
    /\ Init /\ \A h \in Hosts : mode[h] = "ok"
SFirst ==  \* the backends get their first modes, the upstream is created; its worker arrives at the gate of host 1
    /\ wpc = "first" /\ hist = <<>>
    /\ mode' \in [Hosts -> Modes]
    /\ wpc' = "send" /\ cur' = 1 /\ rounds' = 1 /\ rs' = [h \in Hosts |-> 1]
    /\ UNCHANGED <<cfgv, flag, hres, seen, since, tick, late, sv, ev, rv, nsets>>
    /\ Step("create", 0, "", 0)
SNoHC ==
    /\ wpc = "none" /\ hist = <<>>
    /\ mode' \in [Hosts -> Modes]
    /\ UNCHANGED <<cfgv, hv, wv, sv, ev, rv, nsets>>
    /\ Step("create", 0, "", 0)
SAnswer ==
    /\ wpc = "send" /\ hist # <<>>
    /\ (cur = N) => rounds < MaxRounds
    /\ seen' = [seen EXCEPT ![cur] = mode[cur]]
    /\ flag' = [flag EXCEPT ![cur] = Bad(mode[cur])]
    /\ hres' = [hres EXCEPT ![cur] = ResOf(mode[cur])]
    /\ since' = [since EXCEPT ![cur] = Cap2(@)]
    /\ IF cur < N THEN cur' = cur + 1 /\ UNCHANGED <<rounds, rs>>
                  ELSE cur' = 1 /\ rounds' = rounds + 1 /\ rs' = [h \in Hosts |-> Cap2(rs[h])]
    /\ UNCHANGED <<cfgv, mode, wpc, tick, late, sv, ev, rv, nsets>>
    /\ Step("answer", cur, mode[cur], 0)
SSet(h, m) == hist # <<>> /\ SetMode(h, m) /\ Step("set", h, m, 0)
SFail(h) == hist # <<>> /\ Fail(h) /\ Step("fail", h, "", 0)
SExpire(h) == hist # <<>> /\ Expire(h) /\ Step("expire", h, "", 0)
STake(h) == hist # <<>> /\ Take(h) /\ Step("take", h, "", 0)
SRelease(h) == hist # <<>> /\ Release(h) /\ Step("release", h, "", 0)
\* a whole request; nothing can change the flags meanwhile (the worker is at a gate), so a
\* retrying ServeHTTP that found no host runs into try_duration
SReq(r, k) ==
    /\ hist # <<>> /\ ncalls < MaxCalls /\ ncalls' = ncalls + 1
    /\ rkind' = [rkind EXCEPT ![r] = k] /\ rpc' = [rpc EXCEPT ![r] = "done"]
    /\ \/ Avail = {} /\ rhost' = [rhost EXCEPT ![r] = 0]
       \/ \E h \in Avail : rhost' = [rhost EXCEPT ![r] = h]
    /\ UNCHANGED <<cfgv, mode, hv, wv, sv, ev, nsets>>
    /\ Step(k, 0, "", r)
\* Stop() is called - with the worker held in the middle of a round, or between two rounds when
\* there is no worker; the script ends here (the harness opens all gates and waits for Stop)
SStop ==
    /\ hist # <<>> /\ stopper = "none"
    /\ (Len(hist) = 2 /\ hist[2].a = "answer") \/ Len(hist) + 3 >= MaxSteps    \* (generation only: early and late stops)
    /\ stopper' = "signalled" /\ stopSig' = TRUE
    /\ UNCHANGED <<cfgv, mode, hv, wv, ev, rv, nsets>>
    /\ Step("stop", cur, "", 0)

\* steps since the worker last moved
QuietRun == LET idx == {i \in 1..Len(hist) : hist[i].a \in {"answer", "create"}}
            IN Len(hist) - (IF idx = {} THEN 0 ELSE CHOOSE i \in idx : \A j \in idx : j <= i)
NextSync ==
    \/ SFirst \/ SNoHC
    \/ stopper = "none" /\ Len(hist) < MaxSteps /\ SAnswer
    \/ /\ stopper = "none" /\ Len(hist) < MaxSteps /\ QuietRun < 2      \* (QuietRun: generation only - keep the worker moving)
       /\ \E h \in Hosts : \E m \in Modes : SSet(h, m)
    \/ /\ stopper = "none" /\ Len(hist) < MaxSteps /\ (wpc = "send" => QuietRun < 2)
       /\ \E h \in Hosts : SFail(h) \/ SExpire(h) \/ STake(h) \/ SRelease(h)
    \/ /\ stopper = "none" /\ Len(hist) < MaxSteps /\ (wpc = "send" => QuietRun < 3)
       /\ \E k \in {"select", "serve"} : SReq(1, k)
    \/ SStop
SpecSync == InitSync /\ [][NextSync]_vars

Terminal == stopper # "none"
Emit == Terminal => PrintT(<<"CASE", ToJson([n |-> N, hc |-> HC, contains |-> Contains, maxfails |-> MaxFails,
                                            maxconns |-> MaxConns, retry |-> Retry, steps |-> hist])>>)
=============================================================================
