CONSTANT K = 1
CONSTANT Lims = {1, 2, 3}
CONSTANT Record = TRUE
CONSTANT Aborts = TRUE
CONSTANT MaxPost = 2
CONSTANT Modes = {"handler"}
INIT InitReads
NEXT Next
INVARIANT EmitReads
INVARIANT NeverBeyondLimit
INVARIANT DeliveredPrefix
INVARIANT ErrIff
CHECK_DEADLOCK FALSE
