CONSTANTS CfgNames = {"share", "raw"}
 OpTypes = {"start", "reload", "stop"}
 MaxOps = 3
 MaxWrites = 3
 MaxConc = 1
 CapUnit = 1
 GRACE = TRUE
 EAGER_RAW = TRUE
 REOPEN = TRUE
 SPLIT_WRITE = FALSE
SPECIFICATION Spec
INVARIANTS TypeOK OneLineOneWrite NoLineLostOrDuplicated NothingDropped WriteOrderKept PrunedAreOldest SharedFileSingleWriter ClosedWhenLastUserGone ServingHasItsWriters NoWriteToClosed RollerSettingsOfWhom BackupsBounded RotationExact
CHECK_DEADLOCK FALSE
