\* The design as found (negative control, not run by ./check): TLC refutes SilentBackendBounded, OutcomeIsOwn and
\* TransportFollowsOptions (HandshakeBound), IdleBounded (UnixKeepalive), VerifiedUnlessOptedOut, HealthAgreesWithRule
\* and OutcomeIsOwn (HealthTrust), SNIIsUpstreamName (UpgradeSNI). Run with -continue to see them all.
SPECIFICATION Spec
CONSTANTS
  Spaces = {"verify", "opts", "conn", "silent", "relay"}
  OptLen = 2
  Wide = FALSE
  HandshakeBound = "custom"
  UnixKeepalive = "ignored"
  HealthTrust = "system"
  UpgradeSNI = "verified"
INVARIANTS
  TypeOK
  VerifiedUnlessOptedOut
  OptOutIsLocal
  SNIIsUpstreamName
  RedirectsRelayedNotFollowed
  IdleBounded
  SilentBackendBounded
  HeldIsReleased
  RequestIntactOverTLS
  H2WhenOffered
  OutcomeIsOwn
  TransportFollowsOptions
  HealthAgreesWithRule
  RefusedOnlyForCause
  AcceptedUnlessCause
CHECK_DEADLOCK FALSE
