CONSTANTS MaxInst = 2
 MaxSigs = 6
SPECIFICATION TSpec
CONSTRAINT Constr
INVARIANTS AtMostOnce GracefulRunsAllOnce TermStopsAll FinalAfterShutdown
POSTCONDITION Accepted
CHECK_DEADLOCK FALSE
