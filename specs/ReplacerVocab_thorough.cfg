\* thorough: the full families of exchanges, all invariants, one CASE per exchange
SPECIFICATION Spec
CONSTANTS
    EMIT = TRUE
    Tier = "thorough"
    NMix = 12000
    FIX_LOGSAFE = TRUE
    FIX_BODY = TRUE
    FIX_TLS13 = TRUE
    FIX_NOUSER = TRUE
    FIX_XFF = TRUE
INVARIANTS TypeOK VocabularyComplete ValueEqualsFunction OriginalVsRewritten EscapedFormsAreEscapes LogSafe HeaderSafe
           BodyUntouched TimeMonotone TLSFieldsExact CustomBeatsBuiltin Emit EmitVocab
CHECK_DEADLOCK FALSE
