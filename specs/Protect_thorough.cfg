CONSTANT L = 2
CONSTANT Alphabet <- C03Alphabet
CONSTANT AESets <- C03AE
CONSTANT Modes <- C03Modes
CONSTANT Browses <- SomeBrowses
CONSTANT GFiles <- C03Files
CONSTANT GDirs <- C03Dirs
CONSTANT HiddenSet <- C03Hidden
CONSTANT ProtIds <- AllProts
CONSTANT Jail = TRUE
CONSTANT BrowseTrims = TRUE
CONSTANT WalkerHides = TRUE
CONSTANT PrefixKeepsPath = TRUE
CONSTANT RewriteRoots = TRUE
CONSTANT IndexChecksAuth = TRUE
CONSTANT ArchiveChecksAuth = TRUE
SPECIFICATION PSpec
INVARIANT NoDisclosure
INVARIANT AuthTransparent
INVARIANT PInsideRoot
INVARIANT PNoHidden
INVARIANT RootedAtAuth
INVARIANT PRunAgrees
CHECK_DEADLOCK FALSE
