CONSTANT CertIds = {"A", "W", "AB", "Ar", "Ax", "IP", "AU"}
CONSTANT Certs3 = {}
CONSTANT Topos = {"one", "dir", "two", "cross", "wild", "plain", "ip", "dflt", "self", "keys", "dup", "selfcatch", "missingdir", "badpair", "bad-certonly", "bad-garbage", "bad-unknown"}
CONSTANT ReloadTopos = {"one", "cross"}
CONSTANT FullOffers = FALSE
SPECIFICATION Spec
INVARIANT CacheMatchesFile
INVARIANT LoadFailsIffBad
INVARIANT SelectionRule
INVARIANT CertCoversName
INVARIANT NoCrossSiteKeyUse
INVARIANT KeyTypeNegotiation
INVARIANT UnexpiredPreferred
INVARIANT ExpiredStillServed
INVARIANT ListenerIndependent
INVARIANT ReloadReplacesCertificates
INVARIANT FailedReloadKeepsCertificates
INVARIANT ResultShape
INVARIANT Emit
CHECK_DEADLOCK FALSE
