\* NOT part of the pipeline: the tree as found (internalResponseWriter inherits Flush from the wrapper).
\* TLC refutes ClientNeverSeesAccelHeader in 9 states (a backend response with X-Accel-Redirect and an
\* announced trailer: the proxy flushes, the header block goes out with status 200).  See notes/InternalRedirect.md.
CONSTANT MaxRedirects = 10
CONSTANT Backends = {"ba", "bp"}
CONSTANT RedirKinds = {"redir", "both", "flush"}
CONSTANT Methods = {"GET", "POST"}
CONSTANT FlushGuard = FALSE
INIT Init
NEXT Next
INVARIANT TypeOK
INVARIANT ClientNeverSeesAccelHeader
INVARIANT DiscardedResponseLeavesNoTrace
CHECK_DEADLOCK FALSE
