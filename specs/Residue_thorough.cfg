CONSTANTS MaxAttempts = 3
SPECIFICATION Spec
INVARIANTS NoResidue ValidateChangesNothing LockFreeBetweenAttempts OutcomeByKindOnly
PROPERTY AttemptReturns
CHECK_DEADLOCK FALSE
